import Knut.FactsAgree.TransJPrinter
import Knut.Proofs.LayoutPrint
/-!
# The translated `journal.Print` agrees with `JournalPrinter.print`

`lib/journal/journal.go` `Print` and `lib/journal/process.go` `Sort` are regenerated into `Knut/Generated/TransJournal.lean` on every
run (`harness/trans_units_jprinter.go`):

* `Print (w : String) (j : Journal) (ext1 : Journal × Printer × Option Error) : Outcome (String × Journal × Option Error)` — the
  `io.Writer` is moved into the printer (`p := printer.New(w)`), so the translated function returns the final text of the sink
  first; `j` is returned because `j.Process` sorts its days in place.  `ext1` is the EFFECT CALL `j.Process(Sort(), paddingUpdater)`:
  `Journal.Process` (`cpr.Seq`: goroutines) is not translated; the new values of what it can write through (`j`, the captured
  printer `p`) and its result are a parameter.  The loops over the days and the directives of a day (`Print.range1 … range6`, every
  `if … { return err }` a join in `Flow`) and the closure of the record `paddingUpdater` (`Print.paddingUpdater.Transaction`) are
  translated.
* `Sort_.DayEnd (state) (d : Day) (ext1 : List Transaction → List Transaction)` — `compare.Sort(d.Transactions, transaction.Compare)`
  is `sort.Slice`, which is not stable: WHICH sorted permutation comes back is a parameter.

| Go | theorem | statement |
|---|---|---|
| the loops of `Print` over prices, openings, transactions, assertions (blank-line rule), closings of a day | `Print_range2_agrees` … `Print_range6_agrees` | the lines of `printPrice`/`printOpen`/`printTx`/`printAssertions`/`printClose` are written |
| the loop over the days | `Print_range1_agrees` | `printDayRaw` (the model's `printDay` without its sort) of every day |
| `Print` after `j.Process` returned | `Print_of_processed`, `Print_process_error` | the days of the processed journal with the processed printer's padding; an error is passed on |
| `transaction.Compare` on Go values with arbitrary `Src` | `Compare_erase`, `Compare_rel` | `cmpTx` |
| `j.Process(Sort(), paddingUpdater)` (hand-written `processDays` over `TransProcess.processDay`, translated closures) | `sortDay`, `padDay`, `processDays_agrees` | every day's transactions replaced by `srt` of them; the printer updated by every transaction |
| **`Print`** | **`PrintJournal_agrees`** | for every `srt` that is a sorted permutation on the days' transactions (`SortOK`): the text written is `JournalPrinter.print days` |

What the top theorem assumes, explicitly: `DayRelE` (the Go days stand for the model's, descriptions exactly the model's — `Sort`
compares them), `DayDatesOK` (years ≥ 0), `TargetsOK` (transactions of a day that compare equal have the same `@performance` targets:
otherwise the unstable sort shows, as the model's note on `sortTxs` says).  Trusted rather than translated: `Journal.Process` =
`processDays` (C19 is about `cpr.Seq`), `Processor.Process` = `processDay` (as in `TransProcess`).
-/
set_option linter.unusedSimpArgs false
namespace Knut.FactsAgree.TransJPrinter2
open Knut Knut.GoSem
open Knut.Generated.Go
open Knut.FactsAgree.TransAccount Knut.FactsAgree.TransPosting Knut.FactsAgree.TransTransaction
open Knut.FactsAgree.TransProcess (AllRel TRel PRel PriceRel priceGo)
open Knut.FactsAgree.TransCheck (openGo closeGo balanceGo)
open Knut.FactsAgree.TransJournal (OpenRel CloseRel BalRel AssertRel DayRel DirRel)
open Knut.FactsAgree.TransJPrinter

/-! ## the loops of `Print` over the directives of one day -/

theorem Print_range2_agrees (cur : String → Bool) (j : journal.Journal) (day : journal.Day) :
    ∀ (gps : List price.Price) (ps : List Knut.Price) (p : printer.Printer), AllRel (PriceRel cur) gps ps →
      (∀ x ∈ ps, DateOK x.date) →
      journal.Print.range2 j day gps p =
        .ok (.next (wrote p (String.join (ps.map (fun x => JournalPrinter.printPrice x ++ "\n"))))) := by
  intro gps ps p h
  induction h generalizing p with
  | nil => intro _; simp [journal.Print.range2, wrote_empty]
  | @cons g x gs xs hg _ ih =>
    intro hd
    unfold journal.Print.range2
    have hdir : DirRel cur (.Price g) (.price x) := hg
    simp only [PrintDirectiveLn_agrees cur p _ _ hdir (hd x (by simp)), Outcome.bind, Option.isSome_none, Bool.false_eq_true,
      if_false, ih _ (fun y hy => hd y (by simp [hy])), wrote_wrote, printDirective, List.map_cons, String.join_cons]

theorem Print_range3_agrees (j : journal.Journal) (day : journal.Day) :
    ∀ (gos : List open_.Open) (os : List Knut.Open) (p : printer.Printer), AllRel OpenRel gos os →
      (∀ x ∈ os, DateOK x.date) →
      journal.Print.range3 j day gos p =
        .ok (.next (wrote p (String.join (os.map (fun x => JournalPrinter.printOpen x ++ "\n"))))) := by
  intro gos os p h
  induction h generalizing p with
  | nil => intro _; simp [journal.Print.range3, wrote_empty]
  | @cons g x gs xs hg _ ih =>
    intro hd
    unfold journal.Print.range3
    have hdir : DirRel (fun _ => false) (.Open g) (.opening x) := hg
    simp only [PrintDirectiveLn_agrees _ p _ _ hdir (hd x (by simp)), Outcome.bind, Option.isSome_none, Bool.false_eq_true,
      if_false, ih _ (fun y hy => hd y (by simp [hy])), wrote_wrote, printDirective, List.map_cons, String.join_cons]

theorem Print_range4_agrees (cur : String → Bool) (j : journal.Journal) (day : journal.Day) :
    ∀ (gts : List transaction.Transaction) (ts : List Knut.Transaction) (p : printer.Printer), AllRel (TRel cur) gts ts →
      (∀ x ∈ ts, DateOK x.date) →
      journal.Print.range4 j day gts p =
        .ok (.next (wrote p (String.join (ts.map (fun x => JournalPrinter.printTx p.padding.toNat x ++ "\n"))))) := by
  intro gts ts p h
  induction h generalizing p with
  | nil => intro _; simp [journal.Print.range4, wrote_empty]
  | @cons g x gs xs hg _ ih =>
    intro hd
    unfold journal.Print.range4
    have hdir : DirRel cur (.Transaction g) (.tx x) := hg
    simp only [PrintDirectiveLn_agrees cur p _ _ hdir (hd x (by simp)), Outcome.bind, Option.isSome_none, Bool.false_eq_true,
      if_false, ih _ (fun y hy => hd y (by simp [hy])), wrote_wrote, wrote_padding, printDirective, List.map_cons,
      String.join_cons]

theorem Print_range6_agrees (j : journal.Journal) (day : journal.Day) :
    ∀ (gcs : List close.Close) (cs : List Knut.Close) (p : printer.Printer), AllRel CloseRel gcs cs →
      (∀ x ∈ cs, DateOK x.date) →
      journal.Print.range6 j day gcs p =
        .ok (.next (wrote p (String.join (cs.map (fun x => JournalPrinter.printClose x ++ "\n"))))) := by
  intro gcs cs p h
  induction h generalizing p with
  | nil => intro _; simp [journal.Print.range6, wrote_empty]
  | @cons g x gs xs hg _ ih =>
    intro hd
    unfold journal.Print.range6
    have hdir : DirRel (fun _ => false) (.Close g) (.closing x) := hg
    simp only [PrintDirectiveLn_agrees _ p _ _ hdir (hd x (by simp)), Outcome.bind, Option.isSome_none, Bool.false_eq_true,
      if_false, ih _ (fun y hy => hd y (by simp [hy])), wrote_wrote, printDirective, List.map_cons, String.join_cons]

/-- the loop over the assertions of a day: `k` assertions are already printed; a multi-line assertion that is not the last of
the day is followed by a blank line -/
theorem Print_range5_agrees (cur : String → Bool) (j : journal.Journal) (day : journal.Day) :
    ∀ (gas : List assertion.Assertion) (as : List Knut.Assertion) (k : Nat) (p : printer.Printer), AllRel (AssertRel cur) gas as →
      (∀ x ∈ as, DateOK x.date) → day.Assertions.length = k + gas.length →
      journal.Print.range5 j day gas (k : Int) p = .ok (.next (wrote p (JournalPrinter.printAssertions as))) := by
  intro gas as k p h
  induction h generalizing k p with
  | nil => intro _ _; simp [journal.Print.range5, wrote_empty, JournalPrinter.printAssertions]
  | @cons g x gs xs hg hrest ih =>
    intro hd hlen
    unfold journal.Print.range5
    have hdir : DirRel cur (.Assertion g) (.assertion x) := hg
    have hbl : g.Balances.length = x.balances.length := TransProcess.AllRel_length hg.2
    have hk : ((k : Int) + 1) = ((k + 1 : Nat) : Int) := by omega
    have hl := TransProcess.AllRel_length hrest
    simp only [PrintDirectiveLn_agrees cur p _ _ hdir (hd x (by simp)), Outcome.bind, Option.isSome_none, Bool.false_eq_true,
      if_false, len, hk, printDirective, Write_agrees]
    cases hrest with
    | nil =>
      have hc : ¬ ((k : Int) < (day.Assertions.length : Int) - 1) := by simp at hlen; omega
      simp only [hc, decide_false, Bool.and_false, Bool.false_eq_true, if_false]
      rw [ih (k + 1) _ (fun y hy => hd y (by simp [hy])) (by simp at hlen ⊢; omega)]
      simp only [wrote_wrote, JournalPrinter.printAssertions, String.append_empty]
    | @cons g2 x2 gs2 xs2 hg2 hrest2 =>
      have hc : ((k : Int) < (day.Assertions.length : Int) - 1) := by simp at hlen; omega
      by_cases h1 : x.balances.length = 1
      · have h1' : ((g.Balances.length : Int) = 1) := by omega
        simp only [h1', decide_true, Bool.not_true, Bool.false_and, Bool.false_eq_true, if_false]
        rw [ih (k + 1) _ (fun y hy => hd y (by simp [hy])) (by simp at hlen ⊢; omega)]
        simp only [wrote_wrote, JournalPrinter.printAssertions, h1, bne_self_eq_false, Bool.false_eq_true, if_false,
          String.append_empty, String.append_assoc]
      · have h1' : ¬ ((g.Balances.length : Int) = 1) := by omega
        have h1b : (x.balances.length != 1) = true := by simp [h1]
        simp only [h1', decide_false, Bool.not_false, hc, decide_true, Bool.and_self, if_true, Option.isSome_none,
          Bool.false_eq_true, if_false]
        rw [ih (k + 1) _ (fun y hy => hd y (by simp [hy])) (by simp at hlen ⊢; omega)]
        simp only [wrote_wrote, JournalPrinter.printAssertions, h1b, if_true, String.append_assoc]

/-! ## the loop of `Print` over the days -/

/-- the text of one day with its transactions in the order given (the model's `printDay` sorts them first) -/
def printDayRaw (pad : Nat) (d : Knut.Day) : String :=
  String.join (d.prices.map (fun p => JournalPrinter.printPrice p ++ "\n")) ++ (if d.prices.isEmpty then "" else "\n") ++
  String.join (d.openings.map (fun o => JournalPrinter.printOpen o ++ "\n")) ++ (if d.openings.isEmpty then "" else "\n") ++
  String.join (d.transactions.map (fun t => JournalPrinter.printTx pad t ++ "\n")) ++
  JournalPrinter.printAssertions d.assertions ++ (if d.assertions.isEmpty then "" else "\n") ++
  String.join (d.closings.map (fun c => JournalPrinter.printClose c ++ "\n")) ++ (if d.closings.isEmpty then "" else "\n")

theorem printDay_eq (pad : Nat) (d : Knut.Day) :
    JournalPrinter.printDay pad d = printDayRaw pad { d with transactions := JournalPrinter.sortTxs d.transactions } := rfl

/-- every date of the day is printed as `fmtDate` prints it -/
structure DayDatesOK (d : Knut.Day) : Prop where
  prices : ∀ x ∈ d.prices, DateOK x.date
  openings : ∀ x ∈ d.openings, DateOK x.date
  transactions : ∀ x ∈ d.transactions, DateOK x.date
  assertions : ∀ x ∈ d.assertions, DateOK x.date
  closings : ∀ x ∈ d.closings, DateOK x.date

theorem ite_ok_next {σ ρ : Type} (c : Prop) [Decidable c] (a b : σ) :
    (if c then (GoSem.Outcome.ok (Flow.next a) : GoSem.Outcome (Flow σ ρ)) else GoSem.Outcome.ok (Flow.next b)) =
      GoSem.Outcome.ok (Flow.next (if c then a else b)) := by
  split <;> rfl

theorem ite_wrote (c : Prop) [Decidable c] (p : printer.Printer) :
    (if c then wrote p "\n" else p) = wrote p (if c then "\n" else "") := by
  split <;> simp [wrote_empty]

theorem ite_wrote2 (c : Prop) [Decidable c] (p : printer.Printer) (a : String) :
    (if c then wrote p (a ++ "\n") else wrote p a) = wrote p (a ++ if c then "\n" else "") := by
  split <;> simp

theorem blank_eq {α β : Type} (gs : List α) (xs : List β) (h : gs.length = xs.length) :
    (if decide (len gs > (0 : Int)) = true then "\n" else "") = (if xs.isEmpty then "" else "\n") := by
  cases xs with
  | nil => simp at h; simp [h]
  | cons x xs =>
    have : gs ≠ [] := by intro e; simp [e] at h
    simp [len, this]

theorem Print_range1_agrees (cur : String → Bool) (j : journal.Journal) :
    ∀ (gds : List journal.Day) (ds : List Knut.Day) (p : printer.Printer), AllRel (DayRel cur) gds ds →
      (∀ d ∈ ds, DayDatesOK d) →
      journal.Print.range1 j gds p = .ok (.next (wrote p (String.join (ds.map (printDayRaw p.padding.toNat))))) := by
  intro gds ds p h
  induction h generalizing p with
  | nil => intro _; simp [journal.Print.range1, wrote_empty]
  | @cons g d gs ds hg _ ih =>
    intro hd
    have hok := hd d (by simp)
    have h5 : ∀ q, journal.Print.range5 j g g.Assertions 0 q =
        .ok (.next (wrote q (JournalPrinter.printAssertions d.assertions))) := fun q => by
      have := Print_range5_agrees cur j g _ _ 0 q hg.assertions hok.assertions (by simp)
      simpa using this
    unfold journal.Print.range1
    simp only [Print_range2_agrees cur j g _ _ p hg.prices hok.prices, h5, Outcome.bind, Write_agrees, Option.isSome_none,
      Bool.false_eq_true, if_false, ite_ok_next, ite_wrote, ite_wrote2, wrote_wrote, wrote_padding,
      Print_range3_agrees j g _ _ _ hg.openings hok.openings,
      Print_range4_agrees cur j g _ _ _ hg.transactions hok.transactions,
      Print_range6_agrees j g _ _ _ hg.closings hok.closings,
      blank_eq _ _ (TransProcess.AllRel_length hg.prices), blank_eq _ _ (TransProcess.AllRel_length hg.openings),
      blank_eq _ _ (TransProcess.AllRel_length hg.assertions), blank_eq _ _ (TransProcess.AllRel_length hg.closings)]
    rw [ih _ (fun y hy => hd y (by simp [hy]))]
    simp only [wrote_wrote, wrote_padding, List.map_cons, String.join_cons, printDayRaw, String.append_assoc]

/-! ## `Print` after the call of `j.Process(Sort(), paddingUpdater)` -/

/-- **`Print`, second half**: once `j.Process` has returned the journal `j'` and left the printer `p'` (the parameter `ext1`), the days
of `j'` are printed in their order with the padding of `p'`; the translated function returns the text of the sink, the journal
(which `Process` has modified in place) and no error -/
theorem Print_of_processed (cur : String → Bool) (w : String) (j j' : journal.Journal) (p' : printer.Printer) (ds' : List Knut.Day)
    (hr : AllRel (DayRel cur) j'.Days ds') (hd : ∀ d ∈ ds', DayDatesOK d) :
    journal.Print w j (j', p', none) =
      .ok (p'.writer ++ String.join (ds'.map (printDayRaw p'.padding.toNat)), j', none) := by
  unfold journal.Print
  simp only [Option.isSome_none, Bool.false_eq_true, if_false, Outcome.bind, Print_range1_agrees cur j' _ _ p' hr hd, wrote_writer]

/-- an error of `j.Process` is returned; nothing is printed -/
theorem Print_process_error (w : String) (j j' : journal.Journal) (p' : printer.Printer) (e : Error) :
    journal.Print w j (j', p', some e) = .ok (p'.writer, j', some e) := by
  simp [journal.Print, Outcome.bind]

/-! ## `transaction.Compare` on Go transactions with arbitrary `Src` pointers -/

/-- a Go transaction stands for the model transaction, with the description exactly as the model has it (`TRel` also admits the
description after `Builder.Build` replaced its quotes; `journal.Sort` compares descriptions, so here it must be the model's) -/
def TRelE (cur : String → Bool) (g : transaction.Transaction) (t : Knut.Transaction) : Prop :=
  TRel cur g t ∧ g.Description = t.description

def eraseP (g : posting.Posting) : posting.Posting := { g with Src := ⟨0⟩ }
def eraseT (g : transaction.Transaction) : transaction.Transaction :=
  { g with Src := ⟨0⟩, Postings := g.Postings.map eraseP }

theorem index_map {α β : Type} (f : α → β) (xs : List α) (i : Int) :
    index (xs.map f) i = match index xs i with
      | .ok v => .ok (f v)
      | .panic m => .panic m
      | .outOfFuel => .outOfFuel := by
  unfold index
  by_cases h : i < 0
  · simp [h]
  · simp only [h, if_false, List.getElem?_map]
    cases xs[i.toNat]? <;> rfl

theorem eraseT_Postings (t : transaction.Transaction) : (eraseT t).Postings = t.Postings.map eraseP := rfl

theorem len_map {α β : Type} (f : α → β) (xs : List α) : len (xs.map f) = len xs := by simp [len]

theorem Compare_loop_erase (t u : transaction.Transaction) :
    ∀ (fuel : Nat) (i : Int), transaction.Compare.loop1 (eraseT t) (eraseT u) fuel i = transaction.Compare.loop1 t u fuel i := by
  intro fuel
  induction fuel with
  | zero =>
    intro i
    unfold transaction.Compare.loop1
    simp only [eraseT_Postings, len_map]
  | succ n ih =>
    intro i
    unfold transaction.Compare.loop1
    simp only [eraseT_Postings, len_map, index_map, ih]
    by_cases hc : (decide (i < len t.Postings) && decide (i < len u.Postings)) = true
    · simp only [hc, if_true]
      cases index t.Postings i with
      | ok a =>
        cases index u.Postings i with
        | ok b => rfl
        | panic m => rfl
        | outOfFuel => rfl
      | panic m => rfl
      | outOfFuel => rfl
    · simp only [hc, Bool.false_eq_true, if_false]

/-- `transaction.Compare` does not read the `Src` pointers -/
theorem Compare_erase (t u : transaction.Transaction) :
    transaction.Compare (eraseT t) (eraseT u) = transaction.Compare t u := by
  unfold transaction.Compare
  simp only [Compare_loop_erase, eraseT_Postings, len_map]
  rfl

theorem eraseP_of_rel (cur : String → Bool) : ∀ {gps : List posting.Posting} {ps : List Knut.Posting},
    AllRel (PRel cur) gps ps → gps.map eraseP = ps.map (postingGo cur ⟨0⟩)
  | _, _, .nil => rfl
  | _, _, .cons hab hrest => by
    unfold PRel at hab
    simp only [List.map_cons, eraseP_of_rel cur hrest]
    rw [hab]
    rfl

theorem eraseT_of_rel (cur : String → Bool) {g : transaction.Transaction} {t : Knut.Transaction} (h : TRelE cur g t) :
    eraseT g = txGo cur ⟨0⟩ ⟨0⟩ t := by
  obtain ⟨⟨hd, _, hps, htg⟩, hdesc⟩ := h
  have hp : g.Postings.map eraseP = t.postings.map (postingGo cur ⟨0⟩) := eraseP_of_rel cur hps
  obtain ⟨src, date, desc, posts, tgs⟩ := g
  simp only [eraseT, txGo, transaction.Transaction.mk.injEq, true_and] at *
  exact ⟨hd, hdesc, hp, htg⟩

/-- **`transaction.Compare`** on Go transactions that stand for `t` and `u` (every `Src` arbitrary) is the model's `cmpTx` -/
theorem Compare_rel (cur : String → Bool) {g h : transaction.Transaction} {t u : Knut.Transaction}
    (hg : TRelE cur g t) (hh : TRelE cur h u) :
    transaction.Compare g h = .ok (ordGo (JournalPrinter.cmpTx t u)) := by
  rw [← Compare_erase, eraseT_of_rel cur hg, eraseT_of_rel cur hh, Compare_agrees]

/-! ## `j.Process(Sort(), paddingUpdater)`

`Journal.Process` runs the processors over the days through `cpr.Seq` (goroutines: C19) and `Processor.Process` dispatches on
function-typed fields holding closures: neither is in the translated subset.  As in `TransProcess`, `Processor.Process` is the
hand-written `processDay`; `Journal.Process` with two processors is `processDays`: every day goes through the first and then the
second processor, the days in order (the stages of `cpr.Seq` share no state, so their interleaving cannot show).  The closures
themselves are translated: `journal.Sort_.DayEnd` and `journal.Print.paddingUpdater.Transaction`. -/

/-- what `sort.Slice` may return for `compare.Sort(xs, transaction.Compare)`: a permutation of `xs` in which no later element is
`Smaller` than an earlier one (`less(i, j) = Compare(ts[i], ts[j]) == Smaller`) -/
structure SortOK (srt : List transaction.Transaction → List transaction.Transaction) (xs : List transaction.Transaction) : Prop where
  perm : (srt xs).Perm xs
  sorted : (srt xs).Pairwise (fun a b => transaction.Compare b a ≠ .ok (-1))

/-- the processor `Sort()` returns -/
def sortProc (srt : List transaction.Transaction → List transaction.Transaction) : TransProcess.Proc journal.Sort_.State :=
  { DayEnd := some (fun st d => .ok (journal.Sort_.DayEnd st d srt)) }

/-- the closure record `paddingUpdater` of `Print`: its state is the captured printer -/
def padProc : TransProcess.Proc printer.Printer :=
  { Transaction := some (fun p t => .ok ((journal.Print.paddingUpdater.Transaction p t).1, t, (journal.Print.paddingUpdater.Transaction p t).2)) }

example : journal.Sort_.callbacks = ["DayEnd"] := rfl
example : journal.Sort_.externals = ["DayEnd.ext1 = compare.Sort(d.Transactions, transaction.Compare) [sort.Slice as a function of the slice: SOME permutation sorted by github.com/sboehler/knut/lib/model/transaction.Compare]"] := rfl

/-- `Journal.Process(Sort(), paddingUpdater)` over the days that are left; `done`: the days already processed -/
def processDays (srt : List transaction.Transaction → List transaction.Transaction) :
    journal.Sort_.State → printer.Printer → List journal.Day → List journal.Day →
      GoSem.Outcome (printer.Printer × List journal.Day × Option Error)
  | _, p, [], done => .ok (p, done, none)
  | s, p, d :: rest, done =>
    (TransProcess.processDay (sortProc srt) s d).bind fun r1 =>
      if r1.2.2.isSome then .ok (p, done ++ r1.2.1 :: rest, r1.2.2)
      else (TransProcess.processDay padProc p r1.2.1).bind fun r2 =>
        if r2.2.2.isSome then .ok (r2.1, done ++ r2.2.1 :: rest, r2.2.2)
        else processDays srt r1.1 r2.1 rest (done ++ [r2.2.1])

/-- the parameter `ext1` of the translated `Print`: the journal and the printer after `j.Process(Sort(), paddingUpdater)`, and its
result -/
def processExt (srt : List transaction.Transaction → List transaction.Transaction) (j : journal.Journal) (p : printer.Printer) :
    GoSem.Outcome (journal.Journal × printer.Printer × Option Error) :=
  (processDays srt journal.Sort_.init p j.Days []).bind fun r => .ok ({ j with Days := r.2.1 }, r.1, r.2.2)

theorem sortDay (srt : List transaction.Transaction → List transaction.Transaction) (s : journal.Sort_.State) (d : journal.Day) :
    TransProcess.processDay (sortProc srt) s d = .ok (⟨⟩, { d with Transactions := srt d.Transactions }, none) := by
  simp [TransProcess.processDay, TransProcess.DayStep.andThen, TransProcess.optStep, TransProcess.pricesStep,
    TransProcess.opensStep, TransProcess.txStep, TransProcess.assertStep, TransProcess.closeStep, TransProcess.DayStep.skip,
    sortProc, Outcome.bind, journal.Sort_.DayEnd]

theorem padUpdater_eq (p : printer.Printer) (t : transaction.Transaction) :
    journal.Print.paddingUpdater.Transaction p t = (printer.Printer.UpdatePadding p t, none) := rfl

theorem forEachE_pad : ∀ (ts : List transaction.Transaction) (p : printer.Printer) (done : List transaction.Transaction),
    TransProcess.forEachE (fun p t => (GoSem.Outcome.ok (printer.Printer.UpdatePadding p t, t, none) :
        GoSem.Outcome (printer.Printer × transaction.Transaction × Option Error)))
      p ts done = .ok (ts.foldl printer.Printer.UpdatePadding p, done ++ ts, none)
  | [], p, done => by simp [TransProcess.forEachE]
  | t :: rest, p, done => by
    simp only [TransProcess.forEachE, Outcome.bind, Option.isSome_none, Bool.false_eq_true, if_false,
      forEachE_pad rest, List.foldl_cons, List.append_assoc, List.singleton_append]

theorem padDay (p : printer.Printer) (d : journal.Day) :
    TransProcess.processDay padProc p d = .ok (d.Transactions.foldl printer.Printer.UpdatePadding p, d, none) := by
  simp [TransProcess.processDay, TransProcess.DayStep.andThen, TransProcess.optStep, TransProcess.pricesStep,
    TransProcess.opensStep, TransProcess.txStep, TransProcess.assertStep, TransProcess.closeStep, TransProcess.DayStep.skip,
    TransProcess.onTransactions, padProc, Outcome.bind, padUpdater_eq, forEachE_pad]

/-- `Process(Sort(), paddingUpdater)`: every day's transactions are replaced by what `sort.Slice` returns for them, and the printer
has seen every transaction (in that order); no error -/
theorem processDays_agrees (srt : List transaction.Transaction → List transaction.Transaction) :
    ∀ (gds : List journal.Day) (s : journal.Sort_.State) (p : printer.Printer) (done : List journal.Day),
      processDays srt s p gds done =
        .ok (gds.foldl (fun p d => (srt d.Transactions).foldl printer.Printer.UpdatePadding p) p,
          done ++ gds.map (fun d => { d with Transactions := srt d.Transactions }), none)
  | [], s, p, done => by simp [processDays]
  | d :: rest, s, p, done => by
    simp only [processDays, sortDay, padDay, Outcome.bind, Option.isSome_none, Bool.false_eq_true, if_false,
      processDays_agrees srt rest, List.foldl_cons, List.map_cons, List.append_assoc, List.singleton_append]

/-! ## from the sorted Go transactions to the model's `sortTxs` -/

theorem AllRel_perm {α β : Type} {R : α → β → Prop} {gs' gs : List α} (hp : gs'.Perm gs) :
    ∀ {xs : List β}, AllRel R gs xs → ∃ xs', AllRel R gs' xs' ∧ xs'.Perm xs := by
  induction hp with
  | nil => intro xs h; exact ⟨xs, h, List.Perm.refl _⟩
  | @cons a l1 l2 _ ih =>
    intro xs h
    cases h with
    | @cons _ x _ xs2 hax hrest =>
      obtain ⟨xs1, h1, hp1⟩ := ih hrest
      exact ⟨x :: xs1, .cons hax h1, hp1.cons x⟩
  | @swap a b l =>
    intro xs h
    cases h with
    | @cons _ x _ xs2 hbx hrest =>
      cases hrest with
      | @cons _ y _ xs3 hay hrest2 =>
        exact ⟨y :: x :: xs3, .cons hay (.cons hbx hrest2), List.Perm.swap x y xs3⟩
  | @trans l1 l2 l3 _ _ ih1 ih2 =>
    intro xs h
    obtain ⟨xs2, h2, hp2⟩ := ih2 h
    obtain ⟨xs1, h1, hp1⟩ := ih1 h2
    exact ⟨xs1, h1, hp1.trans hp2⟩

theorem AllRel_pairwise {α β : Type} {R : α → β → Prop} {P : α → α → Prop} {Q : β → β → Prop}
    (hPQ : ∀ a b x y, R a x → R b y → P a b → Q x y) :
    ∀ {gs : List α} {xs : List β}, AllRel R gs xs → gs.Pairwise P → xs.Pairwise Q
  | _, _, .nil, _ => List.Pairwise.nil
  | _, _, .cons hax hrest, hp => by
    have hc := List.pairwise_cons.mp hp
    refine List.pairwise_cons.mpr ⟨?_, AllRel_pairwise hPQ hrest hc.2⟩
    intro y hy
    -- y is related to some b of the rest
    have : ∀ {gs : List α} {xs : List β}, AllRel R gs xs → y ∈ xs → ∃ b ∈ gs, R b y := by
      intro gs xs h
      induction h with
      | nil => intro hm; cases hm
      | cons hby _ ih =>
        intro hm
        rcases List.mem_cons.mp hm with e | hm'
        · subst e; exact ⟨_, List.mem_cons_self, hby⟩
        · obtain ⟨b, hb, hr⟩ := ih hm'
          exact ⟨b, List.mem_cons_of_mem _ hb, hr⟩
    obtain ⟨b, hb, hby⟩ := this hrest hy
    exact hPQ _ _ _ _ hax hby (hc.1 b hb)

/-- Go's "not Smaller the other way round" is the model's `leTx` -/
theorem le_of_not_smaller (cur : String → Bool) {ga gb : transaction.Transaction} {x y : Knut.Transaction}
    (hx : TRelE cur ga x) (hy : TRelE cur gb y) (h : transaction.Compare gb ga ≠ .ok (-1)) : JournalPrinter.leTx x y = true := by
  rw [Compare_rel cur hy hx] at h
  unfold JournalPrinter.leTx
  have hsw := Std.OrientedCmp.eq_swap (cmp := JournalPrinter.cmpTx) (a := x) (b := y)
  cases hc : JournalPrinter.cmpTx y x with
  | lt => rw [hc] at h; exact absurd rfl h
  | eq => rw [hsw, hc]; rfl
  | gt => rw [hsw, hc]; rfl

/-- the `@performance` line of a transaction -/
def targetsLine (tg : Option (List Knut.Commodity)) : String :=
  match tg with
  | some tg => "@performance(" ++ String.intercalate "," tg ++ ")\n"
  | none => ""

theorem printTx_targets (pad : Nat) (t : Knut.Transaction) :
    JournalPrinter.printTx pad t = targetsLine t.targets ++ JournalPrinter.printTx pad { t with targets := none } := by
  cases h : t.targets <;> simp [JournalPrinter.printTx, targetsLine, h, String.append_assoc]

/-- transactions that `transaction.Compare` does not tell apart and that carry the same targets are printed alike -/
theorem printTx_of_eq {x y : Knut.Transaction} (h : JournalPrinter.cmpTx x y = .eq) (ht : x.targets = y.targets) (pad : Nat) :
    JournalPrinter.printTx pad x = JournalPrinter.printTx pad y := by
  rw [printTx_targets pad x, printTx_targets pad y, ht, Knut.Layout.cmpTx_eq_print h pad]

/-- within a day, transactions that compare equal carry the same `@performance` targets (otherwise the unstable `sort.Slice` shows:
the model's own note on `sortTxs`) -/
def TargetsOK (d : Knut.Day) : Prop :=
  ∀ x ∈ d.transactions, ∀ y ∈ d.transactions, JournalPrinter.cmpTx x y = .eq → x.targets = y.targets

theorem lines_of_pointwise (pad : Nat) : ∀ {l1 l2 : List Knut.Transaction},
    List.Forall₂ (fun x y => JournalPrinter.cmpTx x y = .eq ∧ x.targets = y.targets) l1 l2 →
    String.join (l1.map (fun t => JournalPrinter.printTx pad t ++ "\n")) =
      String.join (l2.map (fun t => JournalPrinter.printTx pad t ++ "\n"))
  | _, _, .nil => rfl
  | _, _, .cons h t => by
    simp only [List.map_cons, String.join_cons, printTx_of_eq h.1 h.2 pad, lines_of_pointwise pad t]

theorem pointwise_targets (d : Knut.Day) (ht : TargetsOK d) : ∀ {l1 l2 : List Knut.Transaction},
    List.Forall₂ (fun x y => JournalPrinter.leTx x y = true ∧ JournalPrinter.leTx y x = true) l1 l2 →
    (∀ x ∈ l1, x ∈ d.transactions) → (∀ y ∈ l2, y ∈ d.transactions) →
    List.Forall₂ (fun x y => JournalPrinter.cmpTx x y = .eq ∧ x.targets = y.targets) l1 l2
  | _, _, .nil, _, _ => .nil
  | _, _, .cons hxy t, h1, h2 => by
    have he := Knut.Layout.cmpTx_eq_of_le hxy.1 hxy.2
    refine .cons ⟨he, ht _ (h1 _ (by simp)) _ (h2 _ (by simp)) he⟩ ?_
    exact pointwise_targets d ht t (fun a ha => h1 a (by simp [ha])) (fun a ha => h2 a (by simp [ha]))

/-- a sorted permutation of the day's transactions is printed as the model's `sortTxs` of them -/
theorem sorted_perm_lines (pad : Nat) (d : Knut.Day) (ht : TargetsOK d) (ts' : List Knut.Transaction)
    (hp : ts'.Perm d.transactions) (hs : ts'.Pairwise (fun a b => JournalPrinter.leTx a b = true)) :
    String.join (ts'.map (fun t => JournalPrinter.printTx pad t ++ "\n")) =
      String.join ((JournalPrinter.sortTxs d.transactions).map (fun t => JournalPrinter.printTx pad t ++ "\n")) := by
  have hperm : ts'.Perm (JournalPrinter.sortTxs d.transactions) := hp.trans (List.mergeSort_perm _ _).symm
  have hpw := Knut.Layout.sorted_perm_pointwise JournalPrinter.leTx JournalPrinter.leTx_trans Knut.Layout.leTx_refl _ _ hs
    (JournalPrinter.sortTxs_sorted d.transactions) hperm
  exact lines_of_pointwise pad (pointwise_targets d ht hpw (fun x hx => hp.mem_iff.mp hx)
    (fun y hy => (List.mergeSort_perm _ _).mem_iff.mp hy))

/-! ## `Print`: the whole text -/

/-- a Go day stands for the model day, the descriptions of its transactions exactly the model's -/
structure DayRelE (cur : String → Bool) (g : journal.Day) (d : Knut.Day) : Prop where
  rel : DayRel cur g d
  exact : AllRel (TRelE cur) g.Transactions d.transactions

theorem AllRel_imp {α β : Type} {R S : α → β → Prop} (h : ∀ a b, R a b → S a b) :
    ∀ {as : List α} {bs : List β}, AllRel R as bs → AllRel S as bs
  | _, _, .nil => .nil
  | _, _, .cons hab t => .cons (h _ _ hab) (AllRel_imp h t)

/-- the day after `Sort`: its transactions stand for a sorted permutation `ts'` of the model's -/
def SortedOf (d' d : Knut.Day) : Prop :=
  ∃ ts', d' = { d with transactions := ts' } ∧ ts'.Perm d.transactions ∧
    ts'.Pairwise (fun a b => JournalPrinter.leTx a b = true)

theorem sortedDay (cur : String → Bool) (srt : List transaction.Transaction → List transaction.Transaction)
    {g : journal.Day} {d : Knut.Day} (hs : SortOK srt g.Transactions) (h : DayRelE cur g d) :
    ∃ d', DayRel cur { g with Transactions := srt g.Transactions } d' ∧ SortedOf d' d := by
  obtain ⟨ts', hE, hperm⟩ := AllRel_perm hs.perm h.exact
  refine ⟨{ d with transactions := ts' }, ?_, ts', rfl, hperm, ?_⟩
  · exact ⟨h.rel.date, h.rel.prices, h.rel.assertions, h.rel.openings, AllRel_imp (fun _ _ r => r.1) hE, h.rel.closings⟩
  · exact AllRel_pairwise (P := fun a b => transaction.Compare b a ≠ .ok (-1)) (Q := fun x y => JournalPrinter.leTx x y = true)
      (fun a b x y hax hby hab => le_of_not_smaller cur hax hby hab) hE hs.sorted

theorem sortedDays (cur : String → Bool) (srt : List transaction.Transaction → List transaction.Transaction) :
    ∀ {gds : List journal.Day} {ds : List Knut.Day}, (∀ g ∈ gds, SortOK srt g.Transactions) → AllRel (DayRelE cur) gds ds →
      ∃ ds', AllRel (DayRel cur) (gds.map (fun d => { d with Transactions := srt d.Transactions })) ds' ∧
        List.Forall₂ SortedOf ds' ds
  | _, _, _, .nil => ⟨[], .nil, .nil⟩
  | _, _, hs, .cons hgd hrest => by
    obtain ⟨d', hd', hs'⟩ := sortedDay cur srt (hs _ (by simp)) hgd
    obtain ⟨ds', hds', hss'⟩ := sortedDays cur srt (fun g hg => hs g (by simp [hg])) hrest
    exact ⟨d' :: ds', .cons hd' hds', .cons hs' hss'⟩

theorem padTxs (cur : String → Bool) : ∀ {gts : List transaction.Transaction} {ts : List Knut.Transaction},
    AllRel (TRel cur) gts ts → ∀ (p : printer.Printer), 0 ≤ p.padding →
      gts.foldl printer.Printer.UpdatePadding p = withPad p (ts.foldl padTx p.padding.toNat)
  | _, _, .nil, p, h0 => by simp [withPad_self p h0]
  | _, _, .cons hgt hrest, p, h0 => by
    rw [List.foldl_cons, List.foldl_cons, UpdatePadding_agrees cur p _ _ hgt h0, padTxs cur hrest _ (by simp [withPad])]
    simp [withPad_withPad]

theorem padDays (cur : String → Bool) : ∀ {gds : List journal.Day} {ds : List Knut.Day},
    AllRel (DayRel cur) gds ds → ∀ (p : printer.Printer), 0 ≤ p.padding →
      gds.foldl (fun p d => d.Transactions.foldl printer.Printer.UpdatePadding p) p =
        withPad p (ds.foldl (fun m d => d.transactions.foldl padTx m) p.padding.toNat)
  | _, _, .nil, p, h0 => by simp [withPad_self p h0]
  | _, _, .cons hgd hrest, p, h0 => by
    rw [List.foldl_cons, List.foldl_cons, padTxs cur hgd.transactions p h0, padDays cur hrest _ (by simp [withPad])]
    simp [withPad_withPad]

theorem printDay_of_sorted (pad : Nat) {d' d : Knut.Day} (h : SortedOf d' d) (ht : TargetsOK d) :
    printDayRaw pad d' = JournalPrinter.printDay pad d := by
  obtain ⟨ts', rfl, hp, hs⟩ := h
  unfold printDayRaw JournalPrinter.printDay
  simp only [sorted_perm_lines pad d ht ts' hp hs]

theorem printDays_of_sorted (pad : Nat) : ∀ {ds' ds : List Knut.Day}, List.Forall₂ SortedOf ds' ds → (∀ d ∈ ds, TargetsOK d) →
    ds'.map (printDayRaw pad) = ds.map (JournalPrinter.printDay pad)
  | _, _, .nil, _ => rfl
  | _, _, .cons h t, ht => by
    simp only [List.map_cons, printDay_of_sorted pad h (ht _ (by simp)),
      printDays_of_sorted pad t (fun d hd => ht d (by simp [hd]))]

theorem datesOK_of_sorted : ∀ {ds' ds : List Knut.Day}, List.Forall₂ SortedOf ds' ds → (∀ d ∈ ds, DayDatesOK d) →
    ∀ d ∈ ds', DayDatesOK d
  | _, _, .nil, _ => fun d hd => by cases hd
  | _, _, .cons h t, hok => by
    intro d hd
    rcases List.mem_cons.mp hd with e | hd'
    · subst e
      obtain ⟨ts', rfl, hp, _⟩ := h
      have := hok _ (List.mem_cons_self)
      exact ⟨this.prices, this.openings, fun x hx => this.transactions x (hp.mem_iff.mp hx), this.assertions, this.closings⟩
    · exact datesOK_of_sorted t (fun d hd => hok d (by simp [hd])) d hd'

theorem padding_of_sorted {ds' ds : List Knut.Day} (h : List.Forall₂ SortedOf ds' ds) :
    ds'.foldl (fun m d => d.transactions.foldl padTx m) 0 = JournalPrinter.padding ds := by
  have hp : List.Forall₂ (fun d d' : Knut.Day => d.transactions.Perm d'.transactions) ds' ds :=
    Knut.Layout.forall₂_imp (fun a b hab => by obtain ⟨ts', rfl, hp, _⟩ := hab; exact hp) h
  exact Knut.Layout.padding_perm hp 0

/-- **`journal.Print`** (what `knut print` and every importer write): for a Go journal whose days stand for the model's `days`
(every `Src` pointer arbitrary), for EVERY function `srt` that `sort.Slice` may be on the days' transactions (`SortOK`: a permutation sorted by `transaction.Compare`),
with `ext1` the journal, the printer and the result that `j.Process(Sort(), paddingUpdater)` leaves (`processExt`: the translated
closures run by the hand-written `processDay`), the translated `Print` appends exactly `JournalPrinter.print days` to the sink `w`
and returns no error — provided the dates have non-negative years and transactions of one day that compare equal carry the same
`@performance` targets. -/
theorem PrintJournal_agrees (cur : String → Bool) (srt : List transaction.Transaction → List transaction.Transaction)
    (w : String) (gds : List journal.Day) (days : List Knut.Day) (hs : ∀ g ∈ gds, SortOK srt g.Transactions)
    (hr : AllRel (DayRelE cur) gds days) (hd : ∀ d ∈ days, DayDatesOK d) (ht : ∀ d ∈ days, TargetsOK d) :
    ∃ e, processExt srt ⟨gds⟩ (printer.New w) = .ok e ∧ e.2.2 = none ∧
      journal.Print w ⟨gds⟩ e = .ok (w ++ JournalPrinter.print days, e.1, none) := by
  obtain ⟨ds', hds', hsorted⟩ := sortedDays cur srt hs hr
  have hfold : gds.foldl (fun p d => (srt d.Transactions).foldl printer.Printer.UpdatePadding p) (printer.New w) =
      withPad (printer.New w) (JournalPrinter.padding days) := by
    have := padDays cur hds' (printer.New w) (by simp [printer.New])
    rw [List.foldl_map] at this
    rw [this]
    simp only [New_agrees, Int.toNat_zero, padding_of_sorted hsorted]
  refine ⟨(⟨gds.map (fun d => { d with Transactions := srt d.Transactions })⟩,
    withPad (printer.New w) (JournalPrinter.padding days), none), ?_, rfl, ?_⟩
  · simp only [processExt, processDays_agrees, Outcome.bind, hfold, List.nil_append]
  · rw [Print_of_processed cur w _ _ _ ds' hds' (datesOK_of_sorted hsorted hd)]
    simp only [withPad_padding, printDays_of_sorted _ hsorted ht, JournalPrinter.print]
    rfl

/-! ## non-vacuity: a day with a price, an opening, two transactions (out of order) and a two-balance assertion -/

def exTx (d : Int) (desc : String) (q : Rat) : transaction.Transaction :=
  ⟨⟨1⟩, d, desc, [⟨⟨2⟩, -q, 0, accountGo ⟨["Assets", "Bank"]⟩, accountGo ⟨["Expenses", "Food"]⟩, ⟨"CHF", true⟩⟩,
                   ⟨⟨2⟩, q, 0, accountGo ⟨["Expenses", "Food"]⟩, accountGo ⟨["Assets", "Bank"]⟩, ⟨"CHF", true⟩⟩], none⟩

def exDay : journal.Day :=
  { Date := 738885, Prices := [⟨⟨0⟩, 738885, ⟨"USD", true⟩, 9/10, ⟨"CHF", true⟩⟩],
    Assertions := [⟨⟨0⟩, 738885, [⟨⟨0⟩, accountGo ⟨["Assets", "Bank"]⟩, 10, ⟨"CHF", true⟩⟩, ⟨⟨0⟩, accountGo ⟨["Assets", "Bank"]⟩, 1, ⟨"USD", true⟩⟩]⟩],
    Openings := [⟨⟨0⟩, 738885, accountGo ⟨["Assets", "Bank"]⟩⟩], Transactions := [exTx 738885 "b" 5, exTx 738885 "a" 7],
    Closings := [], Normalized := GoZero.zero, Performance := GoZero.zero }

/-- `sort.Slice` on this day: the two transactions swapped (the only sorted permutation) -/
def exSort (xs : List transaction.Transaction) : List transaction.Transaction := xs.reverse

example : SortOK exSort exDay.Transactions := by
  refine ⟨List.reverse_perm _, ?_⟩
  decide +kernel

/-- the translated closures run by `processDays`, then the translated `Print`: the text of the day -/
example : ((processExt exSort ⟨[exDay]⟩ (printer.New "")).bind (fun e => journal.Print "" ⟨[exDay]⟩ e)).bind (fun r => .ok r.1)
    = .ok "2024-01-01 price USD 0.9 CHF\n\n2024-01-01 open Assets:Bank\n\n2024-01-01 \"a\"\nAssets:Bank   Expenses:Food          7 CHF\n\n2024-01-01 \"b\"\nAssets:Bank   Expenses:Food          5 CHF\n\n2024-01-01 balance\nAssets:Bank 10 CHF\nAssets:Bank 1 USD\n\n" := by
  decide +kernel

end Knut.FactsAgree.TransJPrinter2
