import Knut.Properties.C20Go5
import Knut.FactsAgree.TransWeightsQueryOrder
/-!
# C20 over the Go pipeline of `knut portfolio weights` including `weights.Query.Execute`, WITHOUT the order hypothesis `hord`

`C20Go5.C20_weights_process_query_go` kept the hypothesis `hord`/`OrdRel`: on each day that reaches the query,
`dict.SortedKeys(V1, commodity.Compare)` visits the commodities in the order in which the model lists `v1`.  The model lists `v1` in
INSERTION order (`Performance.valuesDay`), so `hord` does not hold in general (`hord_fails`: a `v1` listed `[B, A]`).  It is replaced
here by what `FactsAgree/TransWeightsQueryOrder` proves from `DayRelW` alone (the lookups of `V1` agree, its keys are converted model
keys, no key twice — what the translated `ComputeValues` establishes):

* **`C20_weights_process_query_go_perm`**: whenever the model's `weightAdds f ds` succeeds with `adds`, the four translated stages succeed
  for every admissible family of iteration orders, and the query run over the days `out` that reach it hands to the translated
  `Report.Add` a PERMUTATION `adds'` of the model's `adds`: the report afterwards is `addAll r adds'`, and `adds'` is the model's own
  `queryFrom` on the days with `v1` re-listed by commodity name (`sortDP`).  No hypothesis on orders is left.
* as far as the REPORT is concerned the permutation does not show: **`nodeWeight_perm`**, **`wsum_perm`**, **`ownSum_perm`** (the weight of
  every node on every date — what `C20Go.C20_nodeWeight_is_wsum_go` ties the Go tree's cells to), **`childSegs_perm`**,
  **`sortKey_perm`** (the children of a node as a set and their sort keys), **`top_sums_to_one_perm`** (the top-level weights of `adds'`
  add up to 1 on every date, `C20.C20_top_sums_to_one` carried over).
-/
namespace Knut.C20Go6
open Knut Knut.GoSem Knut.Performance Knut.Weights Knut.PortfolioSpec Knut.Pipeline
open Knut.Generated.Go
open Knut.FactsAgree.TransPosting (commodityGo)
open Knut.FactsAgree.TransPerformance (perfDaysV valuedDays UEq)
open Knut.FactsAgree.TransProcess (AllRel)
open Knut.FactsAgree.TransProcessAllReturns
open Knut.FactsAgree.TransProcessAllWeights
open Knut.FactsAgree.TransMapping (ruleGo ruleOf ruleOf_ruleGo ruleGo_ok RuleOK)
open Knut.FactsAgree.TransWeightsQuery (goQuery)
open Knut.FactsAgree.TransWeightsQueryOrder (Query_days_agrees sortDP sortV)
open Knut.FactsAgree.TransWeights (addAll)

/-- **the Go pipeline of `knut portfolio weights` with the query, no order hypothesis**: the report receives a permutation of the
model's adds (each day's adds in the order of `commodity.Compare`) -/
theorem C20_weights_process_query_go_perm (cur : String → Bool) (f : WFlags) (hv : f.valuation = none) (ds : List Directive)
    (adds : List Add) (h : weightAdds f ds = .ok (some adds)) :
    ∃ (part : Knut.Partition) (days : List Knut.Day) (ms : List (Int × List Knut.Transaction)),
      setup f.toFlags ds = .ok (part, days) ∧ valuedDays f.toFlags.cfg ({} : PState).bal days = some ms ∧
      (∀ (P : RetPar), RetParOK cur f.toFlags.cfg P →
        ∀ (cf : performance.Calculator.ComputeFlows.State) (pf : performance.Perf.State)
          (gdays : List journal.Day), AllRel (DayRelP cur) gdays days →
          ∃ out, processAllWeights P (weightsInit cur f.toFlags.cfg cf pf) gdays = some out ∧
            AllRel (DayRelW cur) out (perfDaysV f.toFlags.cfg ([], []) ms) ∧
            ∀ (q : weights.Query) (r : weights.Report), UEq cur q.Universe f.classes → q.Mapping = f.mapping.map ruleGo →
              ∃ q' adds', adds'.Perm adds ∧
                queryFrom f.mapping part.endDates f.classes ((perfDaysV f.toFlags.cfg ([], []) ms).map sortDP) = some adds' ∧
                goQuery part.endDates (q, r) out = GoSem.Outcome.bind (addAll r adds') (fun r' => .ok (q', r'))) := by
  obtain ⟨part, days, ms, hs, hms, hq, hgo, _, _⟩ := C20Go4.C20_weights_process_go_partial cur f hv ds adds h
  refine ⟨part, days, ms, hs, hms, ?_⟩
  intro P hP cf pf gdays hdays
  obtain ⟨out, hout, hrel⟩ := hgo P hP cf pf gdays hdays
  refine ⟨out, hout, hrel, ?_⟩
  intro q r hu hmap
  have hm : ∀ r ∈ q.Mapping, RuleOK r := by
    intro r hr
    rw [hmap] at hr
    obtain ⟨m, _, rfl⟩ := List.mem_map.mp hr
    exact ruleGo_ok m
  have key := Query_days_agrees cur part.endDates out _ hrel q r f.classes hu hm
  rw [hmap, C20Go5.map_ruleOf_ruleGo, hq] at key
  obtain ⟨q', adds', hp, hq', hgo', _, _⟩ := key
  exact ⟨q', adds', hp, hq', hgo'⟩

/-! ### the permutation does not show in the report -/

theorem below_perm {a b : List Add} (hp : a.Perm b) (π : List String) : (below a π).Perm (below b π) := hp.filter _

theorem isEmpty_perm {α : Type} {a b : List α} (hp : a.Perm b) : a.isEmpty = b.isEmpty := by
  have := hp.length_eq
  cases a <;> cases b <;> simp at this ⊢

/-- the weight of a node on a date -/
theorem nodeWeight_perm {a b : List Add} (hp : a.Perm b) (π : List String) (D : Int) : nodeWeight a π D = nodeWeight b π D := by
  unfold nodeWeight
  have h1 : ((below a π).filter (fun x => decide (x.date = D))).Perm ((below b π).filter (fun x => decide (x.date = D))) :=
    (below_perm hp π).filter _
  simp only [isEmpty_perm h1, MapSum.sum_perm (h1.map (·.weight))]

theorem wsum_perm {a b : List Add} (hp : a.Perm b) (π : List String) (D : Int) : wsum a π D = wsum b π D := by
  unfold wsum
  exact MapSum.sum_perm ((((below_perm hp π).filter _)).map _)

theorem ownSum_perm {a b : List Add} (hp : a.Perm b) (π : List String) (D : Int) : ownSum a π D = ownSum b π D := by
  unfold ownSum
  exact MapSum.sum_perm ((hp.filter _).map _)

/-- the sort key of a node (`SortWeighted`) -/
theorem sortKey_perm {a b : List Add} (hp : a.Perm b) (π : List String) : sortKey a π = sortKey b π := by
  unfold sortKey
  rw [MapSum.sum_perm ((below_perm hp π).map (·.weight))]

theorem mem_dedup (l : List String) (s : String) : s ∈ dedup l ↔ s ∈ l := by
  induction l with
  | nil => simp [dedup]
  | cons x xs ih =>
    simp only [dedup, List.mem_cons, List.mem_filter, ih, decide_eq_true_eq]
    constructor
    · rintro (h | ⟨h, _⟩)
      · exact .inl h
      · exact .inr h
    · intro h
      by_cases e : s = x
      · exact .inl e
      · rcases h with h | h
        · exact .inl h
        · exact .inr ⟨h, e⟩

/-- the children of a node: the same segments -/
theorem childSegs_perm {a b : List Add} (hp : a.Perm b) (π : List String) (s : String) : s ∈ childSegs a π ↔ s ∈ childSegs b π := by
  unfold childSegs
  rw [mem_dedup, mem_dedup]
  exact ((below_perm hp π).filterMap _).mem_iff

theorem rooted_perm {a b : List Add} (hp : a.Perm b) : rooted a = rooted b := by
  unfold rooted
  rw [Bool.eq_iff_iff]
  simp only [List.all_eq_true]
  exact ⟨fun h x hx => h x (hp.mem_iff.mpr hx), fun h x hx => h x (hp.mem_iff.mp hx)⟩

theorem nodup_dedup (l : List String) : (dedup l).Nodup := by
  induction l with
  | nil => exact List.nodup_nil
  | cons x xs ih =>
    simp only [dedup, List.nodup_cons, List.mem_filter, decide_eq_true_eq]
    exact ⟨fun h => h.2 rfl, List.Pairwise.sublist List.filter_sublist ih⟩

theorem childSegs_perm_list {a b : List Add} (hp : a.Perm b) (π : List String) : (childSegs a π).Perm (childSegs b π) := by
  have hn : ∀ c : List Add, (childSegs c π).Nodup := fun c => by unfold childSegs; exact nodup_dedup _
  rw [List.perm_ext_iff_of_nodup (hn a) (hn b)]
  exact childSegs_perm hp π

/-- **the top-level weights of the adds the Go report receives add up to 1 on every date** (`C20.C20_top_sums_to_one` carried over the
permutation) -/
theorem top_sums_to_one_perm (f : WFlags) (ds : List Directive) (adds adds' : List Add) (h : weightAdds f ds = .ok (some adds))
    (hp : adds'.Perm adds) (hr : rooted adds' = true) :
    ∀ D ∈ adds'.map (·.date), ((childSegs adds' []).map (fun s => wsum adds' [s] D)).sum = 1 := by
  intro D hD
  have hD' : D ∈ adds.map (·.date) := (hp.map _).mem_iff.mp hD
  have key := C20.C20_top_sums_to_one f ds adds h (by rw [← rooted_perm hp]; exact hr) D hD'
  have hf : (fun s => wsum adds' [s] D) = (fun s => wsum adds [s] D) := by
    funext s; exact wsum_perm hp [s] D
  rw [hf, MapSum.sum_perm ((childSegs_perm_list hp []).map _)]
  exact key

/-! ### Non-vacuity and the reason for the restatement -/

/-- the order hypothesis of `C20Go5` fails on a model `v1` that is not listed by name: re-listing changes it -/
theorem hord_fails : sortV [("B", 1), ("A", 2)] ≠ [("B", 1), ("A", 2)] := by
  intro h
  have h2 : (sortV [("B", 1), ("A", 2)]).map Prod.fst = ["B", "A"] := by rw [h]; rfl
  have hs : ((sortV [("B", 1), ("A", 2)]).map Prod.fst).Pairwise (fun a b => decide (a ≤ b) = true) := by
    rw [List.pairwise_map]
    apply List.pairwise_mergeSort
    · intro a b c h1 h2
      simp only [decide_eq_true_eq] at h1 h2 ⊢
      exact String.le_trans h1 h2
    · intro a b
      simp only [Bool.or_eq_true, decide_eq_true_eq]
      exact String.le_total a.1 b.1
  rw [h2] at hs
  simp only [List.pairwise_cons, List.mem_cons, List.not_mem_nil, or_false, forall_eq] at hs
  exact absurd hs.1 (by decide)

/-- the hypothesis `weightAdds … = ok (some adds)` is satisfiable (the journal without directives, `C20Go4.weightAdds_empty`; on a
NON-EMPTY journal the four stages before the query succeed with concrete admissible parameters: `C20Go4.ex_weights_pipeline`) -/
example (cur : String → Bool) : ∃ part days ms, setup ({ to := 10, from? := some 1 } : WFlags).toFlags [] = .ok (part, days) ∧
    valuedDays ({ to := 10, from? := some 1 } : WFlags).toFlags.cfg ({} : PState).bal days = some ms := by
  obtain ⟨part, days, ms, h1, h2, _⟩ := C20_weights_process_query_go_perm cur _ rfl _ _ C20Go4.weightAdds_empty
  exact ⟨part, days, ms, h1, h2⟩

end Knut.C20Go6

