import Knut.Properties.C20Go
/-!
# C20 on the generated definitions: the returns clause, PARTIAL — with its remaining hypotheses listed

`Properties/C20Go.lean` proves `C20_returns_every_period_go` — what the translated `ComputeValues`, `ComputeFlows` and `Perf` print is
the model's `returns f ds`, one line per period end — but the theorem carries hypotheses that are NOT consequences of the command's
flags and journal, and its name does not say so.  This module restates it under the name it should have,
**`C20_returns_every_period_go_partial`**, with everything that follows from `returns f ds = .ok lines` DISCHARGED:

* `hs : setup f ds = .ok (part, days)` — discharged: a successful `returns` has a successful `setup` (the partition `part` and the days
  `days`, with the period end days registered before `Build`: `Builder.ensureDays part.endDates`, `C20.C20_returns_every_period`);
* `hms : valuedDays f.cfg {} days = some ms` — discharged: a successful `returns` has a successful `perfFrom`, hence every day's
  `valuedDay` (`ComputePrices`/`check`/`Valuate` in the model) succeeds (`valuedDays_of_perfFrom`).

`part`, `days`, `ms` are therefore GIVEN by the theorem (existentially, determined by `f` and `ds`), not assumed.  What STAYS a
hypothesis, and why the theorem is partial:

1. **`hin` (`DayIn`, with `hlen`)**: the Go days that reach `ComputeValues`/`ComputeFlows`, with their iteration orders, stand for the
   valued days `ms` of the model — date, `Performance == nil`, transactions (`TRel`), and admissible orders for the day's maps.  This is
   what the translated stages `ComputePrices`, `check`, `Valuate` leave; per day they are proved equal to the model
   (`FactsAgree/TransProcess.lean`), and for `knut balance` they are composed over a whole journal
   (`FactsAgree/TransProcessAllBalance.lean`), but NOT for the processor list of `knut portfolio returns`.
2. **`hds`**: the captured set `ds` of `Perf` (`set.FromSlice(j.Days(part.EndDates()))`, `j.Days` is not translated: an `ext` result)
   holds exactly the period end days.
3. **`hdef`**: every day inside the reported span has a defined factor (`V0 + inflow ≠ 0`).  Where it is undefined Go divides by zero
   in `float64` and prints `NaN`/`±Inf`; the translated run stops there (`F64.undefined`, `GoSem/Float.lean`) and the model says `none`:
   nothing is claimed about the Go code after such a division.  This is a limit of the reading of `float64`, not of the composition.
4. the reading "exact arithmetic" of `float64` itself (assumption of C20, `GoSem/Float.lean`).

`C20Go.C20_returns_every_period_go` stays as it is (this module does not edit it); cite THIS theorem.
-/
namespace Knut.C20Go2
open Knut Knut.GoSem Knut.Performance Knut.PortfolioSpec
open Knut.Generated.Go
open Knut.FactsAgree.TransPerformance
open Knut.C20Go (dateOf)

/-- a successful `perfFrom` has a successful `valuedDay` on every day -/
theorem valuedDays_of_perfFrom (cfg : Performance.Cfg) : ∀ (days : List Knut.Day) (ps : Performance.PState) (perfs : List Performance.DayPerf),
    Performance.perfFrom cfg ps days = .ok perfs → ∃ ms, valuedDays cfg ps.bal days = some ms := by
  intro days
  induction days with
  | nil => intro ps perfs _; exact ⟨[], rfl⟩
  | cons d rest ih =>
    intro ps perfs h
    rw [perfFrom_eq] at h
    simp only [valuedDays]
    cases hv : Performance.valuedDay cfg ps.bal d with
    | error e => simp [hv] at h
    | ok r =>
      obtain ⟨bal, txs⟩ := r
      simp only [hv] at h
      cases hr : Performance.perfFrom cfg (Performance.PState.mk bal (Performance.valuesDay cfg ps.values txs)
          (Performance.valuesDay cfg ps.values txs)) rest with
      | error e => simp [hr] at h
      | ok r' =>
        obtain ⟨ms, hms⟩ := ih _ r' hr
        exact ⟨(d.date, txs) :: ms, by simp [hms]⟩

/-- a successful `returns` has a successful `setup` and successful valued days -/
theorem returns_ok_parts (f : Flags) (ds : List Directive) (lines : List (Int × Option Rat)) (h : returns f ds = .ok lines) :
    ∃ part days ms, setup f ds = .ok (part, days) ∧ valuedDays f.cfg ({} : PState).bal days = some ms := by
  unfold returns at h
  cases hs : setup f ds with
  | panic s => simp [hs] at h
  | error e => simp [hs] at h
  | ok r =>
    obtain ⟨part, days⟩ := r
    simp only [hs] at h
    cases hp : perfFrom f.cfg {} days with
    | error e => simp [hp] at h
    | ok perfs =>
      obtain ⟨ms, hms⟩ := valuedDays_of_perfFrom f.cfg days {} perfs hp
      exact ⟨part, days, ms, rfl, hms⟩

/-- **what the translated pipeline prints is `returns`, one line per period — PARTIAL** in `hin`/`hlen` (the Go days before the two
processors stand for the model's valued days), `hds` (the captured set of period end days) and `hdef` (no division by zero inside the
span); see the header.  The partition, the days and the valued days are those of the command's own setup. -/
theorem C20_returns_every_period_go_partial (cur : String → Bool) (f : Flags) (ds : List Directive) (lines : List (Int × Option Rat))
    (h : returns f ds = .ok lines) :
    ∃ (part : Knut.Partition) (days : List Knut.Day) (ms : List (Int × List Knut.Transaction)),
      setup f ds = .ok (part, days) ∧ valuedDays f.cfg ({} : PState).bal days = some ms ∧
      ∀ (ds0 : set.Set Int), (∀ x, set.Set.Has ds0 x = part.endDates.contains x) → ∀ (j : journal.Builder)
        (xs : List (journal.Day × DayOrders)),
        (∀ (i : Nat) (h1 : i < xs.length) (h2 : i < ms.length),
          DayIn cur f.cfg ((ms.take i).foldl (fun v m => Performance.valuesDay f.cfg v m.2) []) xs[i] ms[i]) →
        xs.length = ms.length →
        (∀ dp ∈ perfDaysV f.cfg ([], []) ms, (Performance.perfSpan part).contains dp.date = true → (Performance.factor dp).isSome) →
        ∃ gds r' out, goDays (calcGo cur f.cfg) (performance.Calculator.ComputeValues.init (calcGo cur f.cfg),
            performance.Calculator.ComputeFlows.init (calcGo cur f.cfg)) xs = .ok gds ∧
          perfRun (Knut.FactsAgree.TransDate.partitionGo part)
              (performance.Perf.init j (Knut.FactsAgree.TransDate.partitionGo part) ds0) gds =
            .ok ⟨ds0, part.startDates, r', out⟩ ∧
          out = lines.map lineGo ∧
          out.map dateOf = part.endDates.filter (fun e => part.span.contains e) ∧
          (part.span.start ≤ part.span.stop → out.map dateOf = part.endDates) := by
  obtain ⟨part, days, ms, hs, hms⟩ := returns_ok_parts f ds lines h
  refine ⟨part, days, ms, hs, hms, ?_⟩
  intro ds0 hds j xs hin hlen hdef
  exact C20Go.C20_returns_every_period_go cur f ds lines h part days hs ms hms ds0 hds j xs hin hlen hdef

/-! ### Non-vacuity: a journal without directives — `returns` succeeds, so the theorem applies; no day reaches the processors (`xs = []`:
the hypotheses `hin`, `hdef` hold trivially when there is no valued day) and nothing is printed -/
theorem returns_empty : returns { to := 10, from? := some 1 } [] = .ok [] := by rfl

example (cur : String → Bool) : ∃ part days ms, setup { to := 10, from? := some 1 } [] = .ok (part, days) ∧
    valuedDays ({ to := 10, from? := some 1 } : Flags).cfg ({} : PState).bal days = some ms := by
  obtain ⟨part, days, ms, h1, h2, _⟩ := C20_returns_every_period_go_partial cur _ _ _ returns_empty
  exact ⟨part, days, ms, h1, h2⟩

end Knut.C20Go2
