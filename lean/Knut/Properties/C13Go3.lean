import Knut.Properties.C13
import Knut.FactsAgree.TransImportSupercardRun
/-!
# C13 (the row clauses) on the generated per-record function of `ch.supercard`

`Properties/C13.lean` states the row clauses about the hand model `Import.Supercard.run`; `FactsAgree/TransImportSupercardRun.lean`
proves that `parse` — the TRANSLATED `supercard.parser.readLine` (regenerated from /repo on every run) folded over the results of the
`encoding/csv.Reader` as the Go `parser.parse` (`checkFirstLine`, `skipHeader`, the loop) folds it — computes that model
(`run_agrees`, index panic included).  This module composes them: the clauses are stated about what the fold of the generated function
leaves in the parser's `journal.Builder`.

Hypotheses, all about what stays outside the translation: the reader delivers the records `recs` of the file (`deliveries`: the first
record is read with `FieldsPerRecord = 2`, the second with 13 — another length comes with `csv.ErrFieldCount` —, the rest unchecked;
`io.EOF` after the last); `ext2` = `Commodities().Get` as a function of the name (`h2v`: the interned commodity of every VALID name;
`h2e`: an error other than `io.EOF` for an invalid one); `ext3` = the interned `Expenses:TBD`; the parser starts with the fresh builder
(`journal.New`, `New_agrees`) and the account of the `--account` flag.  Unlike `ch.swisscard2` no hypothesis on the records is needed:
where the model panics (a record of fewer than five fields) the fold panics too, so it does not return nil.
-/
namespace Knut.C13Go3
open Knut Knut.Import Knut.Spec.Import Knut.Proofs.Import
open Knut.GoSem Knut.Generated.Go
open Knut.FactsAgree.TransAccount Knut.FactsAgree.TransPosting Knut.FactsAgree.TransJournal
open Knut.FactsAgree.TransImportSupercardRun

/-- where the fold of the translated `readLine` returns nil, the model run succeeded and the Go builder stands for the model's -/
theorem parse_ok_run (cur : String → Bool) (acct : Account) (ext2 : String → commodity.Commodity × Option Error)
    (ext3 : account.Account)
    (h2v : ∀ s, validCommodity s = true → ext2 s = (commodityGo cur s, none))
    (h2e : ∀ s, validCommodity s = false → ∃ e, (ext2 s).2 = some e ∧ e ≠ eof) (h3 : ext3 = accountGo tbd)
    (recs : List Rec) (p p' : supercard.parser) (hb : BEquiv cur p.builder {}) (hacct : p.account = accountGo acct)
    (h : parse ext2 ext3 p (deliveries recs) = .ok (p', none)) :
    ∃ ds, Supercard.run acct recs = .ok ds ∧ BEquiv cur p'.builder (Builder.ofList ds) := by
  have ha := run_agrees cur acct ext2 ext3 h2v h2e h3 recs p {} hb hacct
  cases hrun : Supercard.run acct recs with
  | ok ds =>
    rw [hrun] at ha
    obtain ⟨q, hq, _, hbq⟩ := ha
    rw [h] at hq
    cases hq
    exact ⟨ds, rfl, hbq⟩
  | error =>
    rw [hrun] at ha
    obtain ⟨q, e, hq⟩ := ha
    rw [h] at hq
    cases hq
  | panic =>
    rw [hrun] at ha
    obtain ⟨m, hm⟩ := ha
    rw [h] at hm
    cases hm

/-- **`C13_supercard` on the generated function**: when the fold of the translated `readLine` over the file's records returns nil, the
builder it leaves stands for `Builder.ofList ds` of directives `ds` that are `Faithful` to the statement's items — every booking record
after `sep=` and the header (an account number, not `Saldovortrag`, not eleven fields) ↦ exactly one transaction on `Einkaufsdatum`
raising the card account by `Gutschrift` resp. lowering it by `Belastung` in `Währung`, nothing else -/
theorem C13_supercard_go (cur : String → Bool) (acct : Account) (hne : acct ≠ tbd)
    (ext2 : String → commodity.Commodity × Option Error) (ext3 : account.Account)
    (h2v : ∀ s, validCommodity s = true → ext2 s = (commodityGo cur s, none))
    (h2e : ∀ s, validCommodity s = false → ∃ e, (ext2 s).2 = some e ∧ e ≠ eof) (h3 : ext3 = accountGo tbd)
    (recs : List Rec) (p p' : supercard.parser) (hb : BEquiv cur p.builder {}) (hacct : p.account = accountGo acct)
    (h : parse ext2 ext3 p (deliveries recs) = .ok (p', none)) :
    ∃ ds, BEquiv cur p'.builder (Builder.ofList ds) ∧ Faithful acct (supercard recs) ds := by
  obtain ⟨ds, hrun, hbq⟩ := parse_ok_run cur acct ext2 ext3 h2v h2e h3 recs p p' hb hacct h
  exact ⟨ds, hbq, C13.C13_supercard acct hne recs ds hrun⟩

/-- **`C13_supercard_wellformed` on the generated function**: every directive the fold added is well-formed -/
theorem C13_supercard_wellformed_go (cur : String → Bool) (acct : Account) (ha : AccOK acct)
    (ext2 : String → commodity.Commodity × Option Error) (ext3 : account.Account)
    (h2v : ∀ s, validCommodity s = true → ext2 s = (commodityGo cur s, none))
    (h2e : ∀ s, validCommodity s = false → ∃ e, (ext2 s).2 = some e ∧ e ≠ eof) (h3 : ext3 = accountGo tbd)
    (recs : List Rec) (p p' : supercard.parser) (hb : BEquiv cur p.builder {}) (hacct : p.account = accountGo acct)
    (h : parse ext2 ext3 p (deliveries recs) = .ok (p', none)) :
    ∃ ds, BEquiv cur p'.builder (Builder.ofList ds) ∧ ∀ d ∈ ds, wellFormed alnum d = true := by
  obtain ⟨ds, hrun, hbq⟩ := parse_ok_run cur acct ext2 ext3 h2v h2e h3 recs p p' hb hacct h
  exact ⟨ds, hbq, C13.C13_supercard_wellformed acct ha recs ds hrun⟩

/-- both clauses about ONE directive list, with the count reading: one transaction per booking record -/
theorem C13_supercard_go_all (cur : String → Bool) (acct : Account) (hne : acct ≠ tbd) (ha : AccOK acct)
    (ext2 : String → commodity.Commodity × Option Error) (ext3 : account.Account)
    (h2v : ∀ s, validCommodity s = true → ext2 s = (commodityGo cur s, none))
    (h2e : ∀ s, validCommodity s = false → ∃ e, (ext2 s).2 = some e ∧ e ≠ eof) (h3 : ext3 = accountGo tbd)
    (recs : List Rec) (p p' : supercard.parser) (hb : BEquiv cur p.builder {}) (hacct : p.account = accountGo acct)
    (h : parse ext2 ext3 p (deliveries recs) = .ok (p', none)) :
    ∃ ds, BEquiv cur p'.builder (Builder.ofList ds) ∧ Faithful acct (supercard recs) ds ∧
      (∀ d ∈ ds, wellFormed alnum d = true) ∧ ds.length = (supercard recs).length := by
  obtain ⟨ds, hrun, hbq⟩ := parse_ok_run cur acct ext2 ext3 h2v h2e h3 recs p p' hb hacct h
  have hf := C13.C13_supercard acct hne recs ds hrun
  exact ⟨ds, hbq, hf, C13.C13_supercard_wellformed acct ha recs ds hrun, (C13.C13_count acct _ ds hf)⟩

/-- conversely the fold succeeds wherever the model run does -/
theorem parse_succeeds_of_run (cur : String → Bool) (acct : Account) (ext2 : String → commodity.Commodity × Option Error)
    (ext3 : account.Account)
    (h2v : ∀ s, validCommodity s = true → ext2 s = (commodityGo cur s, none))
    (h2e : ∀ s, validCommodity s = false → ∃ e, (ext2 s).2 = some e ∧ e ≠ eof) (h3 : ext3 = accountGo tbd)
    (recs : List Rec) (ds : List Directive) (hrun : Supercard.run acct recs = .ok ds)
    (p : supercard.parser) (hb : BEquiv cur p.builder {}) (hacct : p.account = accountGo acct) :
    ∃ p', parse ext2 ext3 p (deliveries recs) = .ok (p', none) ∧ BEquiv cur p'.builder (Builder.ofList ds) := by
  have ha := run_agrees cur acct ext2 ext3 h2v h2e h3 recs p {} hb hacct
  rw [hrun] at ha
  obtain ⟨q, hq, _, hbq⟩ := ha
  exact ⟨q, hq, hbq⟩

/-- the fold never returns nil on a file on which the model fails or panics: `parse` rejects (or panics) exactly where the model does -/
theorem parse_nil_iff_run_ok (cur : String → Bool) (acct : Account) (ext2 : String → commodity.Commodity × Option Error)
    (ext3 : account.Account)
    (h2v : ∀ s, validCommodity s = true → ext2 s = (commodityGo cur s, none))
    (h2e : ∀ s, validCommodity s = false → ∃ e, (ext2 s).2 = some e ∧ e ≠ eof) (h3 : ext3 = accountGo tbd)
    (recs : List Rec) (p : supercard.parser) (hb : BEquiv cur p.builder {}) (hacct : p.account = accountGo acct) :
    (∃ p', parse ext2 ext3 p (deliveries recs) = .ok (p', none)) ↔ ∃ ds, Supercard.run acct recs = .ok ds := by
  constructor
  · rintro ⟨p', h⟩
    obtain ⟨ds, hrun, _⟩ := parse_ok_run cur acct ext2 ext3 h2v h2e h3 recs p p' hb hacct h
    exact ⟨ds, hrun⟩
  · rintro ⟨ds, hrun⟩
    obtain ⟨p', hp, _⟩ := parse_succeeds_of_run cur acct ext2 ext3 h2v h2e h3 recs ds hrun p hb hacct
    exact ⟨p', hp⟩

/-! ### Non-vacuity: a statement with a `Saldovortrag` record, a booking (a quote and runs of blanks in the free text), a credit, a
total line of eleven fields -/
def stmt : List Rec :=
  [["sep=", ""], ["h0", "h1", "h2", "h3", "h4", "h5", "h6", "h7", "h8", "h9", "h10", "h11", "h12"],
   ["1", "2", "N", "", "Saldovortrag"],
   ["1", "2", "N", "06.07.2024", "say \"hi\"   x", "Food", "72.60", "CHF", "", "CHF", "72.60", "", "07.07.2024"],
   ["1", "2", "N", "07.07.2024", "refund", "", "5.00", "EUR", "", "EUR", "", "5.00", "08.07.2024"],
   ["", "", "", "", "Total", "", "", "", "", "", ""]]

example : supercard stmt = [.booking 739072 [("CHF", -(363/5 : Rat))], .booking 739073 [("EUR", 5)]] := by decide +kernel

example : ∃ p' ds, parse (getGo (fun _ => true)) (accountGo tbd) ⟨accountGo C13.card, journal.New⟩ (deliveries stmt) = .ok (p', none) ∧
    BEquiv (fun _ => true) p'.builder (Builder.ofList ds) ∧ Faithful C13.card (supercard stmt) ds ∧ ds.length = 2 := by
  have hok : (match Supercard.run C13.card stmt with | .ok _ => true | _ => false) = true := by decide +kernel
  cases hrun : Supercard.run C13.card stmt with
  | ok ds =>
    obtain ⟨p', hp, hbq⟩ := parse_succeeds_of_run (fun _ => true) C13.card (getGo (fun _ => true)) (accountGo tbd)
      (getGo_valid _) (getGo_invalid _) rfl _ ds hrun ⟨accountGo C13.card, journal.New⟩ (New_agrees _) rfl
    have hf := C13.C13_supercard C13.card (by decide) stmt ds hrun
    refine ⟨p', ds, hp, hbq, hf, ?_⟩
    rw [C13.C13_count _ _ _ hf]
    decide +kernel
  | error => rw [hrun] at hok; cases hok
  | panic => rw [hrun] at hok; cases hok

end Knut.C13Go3
