import Knut.Model.Accrual
/-!
# Specification of C10 — accruals move amounts in time without creating or losing money

Stated over what is observable: the original transaction (its postings, date, description), the
`@accrue` annotation, and the list of generated transactions.  `accrualOK` is the executable
predicate the monitor evaluates on the real code's output.
-/
namespace Knut.Spec
open Knut Knut.Accrual

/-- total quantity booked on account `a` in commodity `c` by a list of postings -/
def booked (a : Account) (c : Commodity) : List Posting → Rat
  | [] => 0
  | p :: ps => (if p.account = a ∧ p.commodity = c then p.quantity else 0) + booked a c ps

/-- … by a list of transactions -/
def bookedTxs (a : Account) (c : Commodity) : List Transaction → Rat
  | [] => 0
  | t :: ts => booked a c t.postings + bookedTxs a c ts

/-- a generated transaction balances: exactly two postings that are negations of each other
(same commodity, mirrored accounts, opposite quantities), one side being the accrual account -/
def balancedPair (acc : Account) (t : Transaction) : Bool :=
  match t.postings with
  | [p, q] =>
    decide (p.commodity = q.commodity) && decide (p.quantity = -q.quantity) &&
    decide (p.account = q.other) && decide (q.account = p.other) &&
    (decide (p.account = acc) || decide (q.account = acc))
  | _ => false

/-- the (account, commodity) pairs mentioned by postings -/
def positionsOf (ps : List Posting) : List (Account × Commodity) := ps.map (fun p => (p.account, p.commodity))

/-- conservation for every account (the accrual account included: it ends with what the original
transaction booked on it, i.e. zero if the original does not touch it) -/
def conservedB (orig : List Posting) (gen : List Transaction) : Bool :=
  (positionsOf orig ++ positionsOf (gen.flatMap (·.postings))).eraseDups.all
    (fun ac => decide (bookedTxs ac.1 ac.2 gen = booked ac.1 ac.2 orig))

/-- the expected dates: every income/expense posting gives one transaction per period of the accrual
window, dated at the period ends in order; every other posting one transaction on the original date.
Checked in lockstep with the original postings; each generated transaction must book the posting's
account and commodity. -/
def datesB (date : Int) (ends : List Int) : List Posting → List Transaction → Bool
  | [], gen => gen.isEmpty
  | p :: ps, gen =>
    let k := if p.account.isIE then ends.length else 1
    let want := if p.account.isIE then ends else [date]
    let mine := gen.take k
    decide (mine.map (·.date) = want) &&
    mine.all (fun t => t.postings.any (fun q => decide (q.account = p.account ∧ q.commodity = p.commodity))) &&
    datesB date ends ps (gen.drop k)

/-- **the property predicate of C10**: `orig` = postings of the original transaction, `date` its date,
`a` the annotation (with `start ≤ end`), `gen` the generated transactions -/
def accrualOK (orig : List Posting) (date : Int) (a : Addon) (gen : List Transaction) : Bool :=
  gen.all (balancedPair a.account) &&
  conservedB orig gen &&
  datesB date ((periodsOf ⟨a.start, a.stop⟩ a.interval 0).map (·.stop)) orig gen

end Knut.Spec
