import Knut.Syntax.Parser
/-!
# Model of `lib/syntax/printer` (the part used by `format`) and of `commands.formatRunner.formatFile`

Output is a byte string. Every field is re-rendered from `Range.Extract()` of the *original* text; a slice out of
range is Go's slice-bounds panic and the explicit outcome `none` here (`Properties/C08.lean` shows it is never
reached for a tree the parser returned). `fmt`'s `%-*s` / `%10s` pad with spaces to a width counted in runes
(`utf8.RuneCountInString`).
-/
namespace Knut.Syntax
open Knut.Utf8

abbrev Bytes := List UInt8

/-- bytes of an ASCII literal of the printer's format strings -/
def lit (s : String) : Bytes := s.toList.map (fun c => UInt8.ofNat c.toNat)

/-- `utf8.RuneCountInString` -/
def runeCount (bs : Bytes) : Nat := (decodeAll bs).length

def spaces (n : Nat) : Bytes := List.replicate n 32

/-- `%-*s` with width `w` -/
def padRight (w : Nat) (s : Bytes) : Bytes := s ++ spaces (w - runeCount s)
/-- `%*s` with width `w` -/
def padLeft (w : Nat) (s : Bytes) : Bytes := spaces (w - runeCount s) ++ s

/-- `strings.Join(parts, ",")` -/
def joinComma : List Bytes → Bytes
  | [] => []
  | [a] => a
  | a :: rest => a ++ lit "," ++ joinComma rest

/-- `Printer.printAccrual` -/
def printAccrual (text : Bytes) (a : Accrual) : Option Bytes := do
  let iv ← a.interval.range.extract text
  let d0 ← a.start.range.extract text
  let d1 ← a.stop.range.extract text
  let acc ← a.account.range.extract text
  pure (lit "@accrue " ++ iv ++ lit " " ++ d0 ++ lit " " ++ d1 ++ lit " " ++ acc ++ lit "\n")

/-- `Printer.printPosting` followed by the `"\n"` that `printTransaction` writes after it -/
def printPosting (text : Bytes) (padding : Nat) (b : Booking) : Option Bytes := do
  let cr ← b.credit.range.extract text
  let db ← b.debit.range.extract text
  let q ← b.quantity.range.extract text
  let c ← b.commodity.range.extract text
  pure (padRight padding cr ++ lit " " ++ padRight padding db ++ lit " " ++ padLeft 10 q ++ lit " " ++ c ++ lit "\n")

/-- `Printer.printTransaction` -/
def printTransaction (text : Bytes) (padding : Nat) (t : Transaction) : Option Bytes := do
  let accr ← if !t.addons.accrual.range.empty then printAccrual text t.addons.accrual else pure []
  let perf ← if !t.addons.performance.range.empty then do
      let ts ← t.addons.performance.targets.mapM (fun c => c.range.extract text)
      pure (lit "@performance(" ++ joinComma ts ++ lit ")\n")
    else pure []
  let date ← t.date.range.extract text
  let desc ← t.description.content.extract text
  let bookings ← t.bookings.mapM (printPosting text padding)
  pure (accr ++ perf ++ date ++ lit " \"" ++ desc ++ lit "\"" ++ lit "\n" ++ bookings.flatten)

/-- `Printer.printOpen` -/
def printOpen (text : Bytes) (o : Open) : Option Bytes := do
  let date ← o.date.range.extract text
  let acc ← o.account.range.extract text
  pure (date ++ lit " open " ++ acc)

/-- `Printer.printClose` -/
def printClose (text : Bytes) (c : Close) : Option Bytes := do
  let date ← c.date.range.extract text
  let acc ← c.account.range.extract text
  pure (date ++ lit " close " ++ acc)

/-- `Printer.printPrice` -/
def printPrice (text : Bytes) (p : Price) : Option Bytes := do
  let date ← p.date.range.extract text
  let c ← p.commodity.range.extract text
  let pr ← p.price.range.extract text
  let t ← p.target.range.extract text
  pure (date ++ lit " price " ++ c ++ lit " " ++ pr ++ lit " " ++ t)

/-- `Printer.printInclude` -/
def printInclude (text : Bytes) (i : Include) : Option Bytes := do
  let p ← i.includePath.content.extract text
  pure (lit "include \"" ++ p ++ lit "\"")

def printBalanceFields (text : Bytes) (b : Balance) : Option Bytes := do
  let acc ← b.account.range.extract text
  let q ← b.quantity.range.extract text
  let c ← b.commodity.range.extract text
  pure (acc ++ lit " " ++ q ++ lit " " ++ c)

/-- `Printer.printAssertion`: one balance on the same line, otherwise one per line -/
def printAssertion (text : Bytes) (a : Assertion) : Option Bytes := do
  let date ← a.date.range.extract text
  match a.balances with
  | [b] => do
    let f ← printBalanceFields text b
    pure (date ++ lit " balance" ++ lit " " ++ f)
  | bs => do
    let lines ← bs.mapM (fun b => do let f ← printBalanceFields text b; pure (f ++ lit "\n"))
    pure (date ++ lit " balance" ++ lit "\n" ++ lines.flatten)

/-- `Printer.printDirective` -/
def printDirective (text : Bytes) (padding : Nat) (d : Directive) : Option Bytes :=
  match d.body with
  | .transaction t => printTransaction text padding t
  | .open o => printOpen text o
  | .close c => printClose text c
  | .assertion a => printAssertion text a
  | .include i => printInclude text i
  | .price p => printPrice text p

/-- the contribution of one directive to `Printer.Initialize` -/
def paddingOf (text : Bytes) (d : Directive) : Option Nat :=
  match d.body with
  | .transaction t =>
    t.bookings.foldlM (fun (m : Nat) b => do
      let cr ← b.credit.range.extract text
      let db ← b.debit.range.extract text
      pure (max (max m (runeCount cr)) (runeCount db))) 0
  | _ => some 0

/-- `Printer.Initialize`: the widest account (in runes) over all bookings of all transactions -/
def initPadding (text : Bytes) (ds : List Directive) : Option Nat :=
  ds.foldlM (fun (m : Nat) d => do let k ← paddingOf text d; pure (max m k)) 0

/-- `text[a:b]` with Go's bounds check -/
def sliceChecked (text : Bytes) (a b : Nat) : Option Bytes :=
  if a ≤ b ∧ b ≤ text.length then some ((text.drop a).take (b - a)) else none

/-- the loop of `Printer.Format` -/
def formatLoop (text : Bytes) (padding : Nat) : Nat → List Directive → Option Bytes
  | pos, [] => sliceChecked text pos text.length
  | pos, d :: ds => do
    let gap ← sliceChecked text pos d.range.start
    let r ← printDirective text padding d
    let rest ← formatLoop text padding d.range.stop ds
    pure (gap ++ r ++ rest)

/-- `Printer.Format` / `syntax.FormatFile`: `none` = a slice bound was violated (Go would panic) -/
def format (text : Bytes) (f : File) : Option Bytes := do
  let padding ← initPadding text f.directives
  formatLoop text padding 0 f.directives

/-- outcome of `knut format FILE` for one file: exit status and the bytes of the file afterwards.
`parse` first, format into a buffer, then replace the file (`atomic.WriteFile`, modelled in C18). -/
inductive FormatOutcome where
  /-- exit 0, file replaced by the formatted text -/
  | written (content : Bytes)
  /-- exit 1 with the parser's error, file not touched -/
  | rejected (e : Err)
  /-- a slice-bounds panic in the printer -/
  | panic
  deriving Repr

/-- `formatRunner.formatFile` -/
def formatFile (path : String) (text : Bytes) : FormatOutcome :=
  match parseText path text with
  | .error e => .rejected e
  | .ok f =>
    match format text f with
    | some out => .written out
    | none => .panic

/-- the file content after `knut format` -/
def FormatOutcome.fileAfter (before : Bytes) : FormatOutcome → Bytes
  | .written c => c
  | .rejected _ => before
  | .panic => before

end Knut.Syntax
