import Knut.Model.Balance
/-!
# Lemmas for C03 (quantitative mark-to-market bound)

* `trunc_close` – `Truncate(n)` moves a value toward zero by less than `10⁻ⁿ` (over `Rat`, from the scaled-integer
  bounds of `scaledTrunc`);
* a single-position valuation trace (`DayStep`, `St`, `stepDay`, `run`) mirroring `Valuate.DayStart`/`Valuate.Posting`
  for one position `(a, c)`, `c ≠ V`: adjustment `Truncate₈((p_d − p_{d−1})·Q_{d−1})` unless the position is closed or
  the price did not move, bookings valued `Truncate₈(q·p_d)` unless `q = 0`;
* `run_bound` – the induction over days composing the telescoping identity with the per-truncation bound;
* `adjustStep_eq`, `adjustment_posting_value`, `valuePostings_sum` – the terms of the trace are the terms the model
  (`Balance.adjustStep`, `Balance.valuePosting`) computes.
-/
namespace Knut.MTM
open Knut Knut.Dec

/-- the unit of the `n`-th decimal place -/
def ulp (n : Nat) : Rat := 1 / (10 : Rat) ^ n

theorem p10_pos (n : Nat) : (0 : Rat) < (10 : Rat) ^ n := Rat.pow_pos (by decide)

theorem ulp_pos (n : Nat) : 0 < ulp n := by
  unfold ulp
  rw [Rat.div_def, Rat.one_mul]
  exact Rat.inv_pos.mpr (p10_pos n)

theorem ulp_mul (n : Nat) : ulp n * (10 : Rat) ^ n = 1 := by
  unfold ulp
  exact Rat.div_mul_cancel (Rat.ne_of_gt (p10_pos n))

/-- general `n` version of `C03_trunc_error` -/
theorem scaledTrunc_bounds (n : Nat) (r : Rat) :
    let s := r.num * pow10 n
    (0 ≤ s → scaledTrunc n r * r.den ≤ s ∧ s < (scaledTrunc n r + 1) * r.den) ∧
    (s ≤ 0 → s ≤ scaledTrunc n r * r.den ∧ (scaledTrunc n r - 1) * r.den < s) := by
  intro s
  have hd : (0 : Int) < r.den := by have := r.den_pos; omega
  unfold scaledTrunc
  show (0 ≤ s → s.tdiv r.den * r.den ≤ s ∧ s < (s.tdiv r.den + 1) * r.den) ∧
    (s ≤ 0 → s ≤ s.tdiv r.den * r.den ∧ (s.tdiv r.den - 1) * r.den < s)
  have key := Int.tmod_add_tdiv_mul s r.den
  have h2 := Int.tmod_lt_of_pos s hd
  have e1 : (s.tdiv r.den + 1) * (r.den : Int) = s.tdiv r.den * r.den + r.den := by rw [Int.add_mul, Int.one_mul]
  have e2 : (s.tdiv r.den - 1) * (r.den : Int) = s.tdiv r.den * r.den - r.den := by rw [Int.sub_mul, Int.one_mul]
  rw [e1, e2]
  generalize s.tdiv r.den * (r.den : Int) = m at key
  constructor
  · intro hs
    have h3 : 0 ≤ s.tmod r.den := Int.tmod_nonneg _ hs
    constructor <;> omega
  · intro hs
    have h3 : s.tmod r.den ≤ 0 := by
      have := Int.tmod_nonneg (r.den : Int) (a := -s) (by omega)
      rw [Int.neg_tmod] at this; omega
    have h4 : -(r.den : Int) < s.tmod r.den := by
      have := Int.tmod_lt_of_pos (-s) hd
      rw [Int.neg_tmod] at this; omega
    constructor <;> omega

theorem trunc_mul_p10 (n : Nat) (r : Rat) : trunc n r * (10 : Rat) ^ n = (scaledTrunc n r : Rat) := by
  unfold trunc
  rw [Rat.mkRat_eq_div, Rat.natCast_pow]
  exact Rat.div_mul_cancel (Rat.ne_of_gt (p10_pos n))

theorem mul_den (r : Rat) : r * (r.den : Rat) = (r.num : Rat) := by
  have h : r = (r.num : Rat) / ((r.den : Nat) : Rat) := by
    rw [← Rat.mkRat_eq_div, Rat.mkRat_self]
  have hd : ((r.den : Nat) : Rat) ≠ 0 := Rat.ne_of_gt (Rat.natCast_pos.mpr r.den_pos)
  calc r * (r.den : Rat) = (r.num : Rat) / ((r.den : Nat) : Rat) * (r.den : Rat) := by rw [← h]
    _ = r.num := Rat.div_mul_cancel hd

theorem pow10_cast (n : Nat) : ((pow10 n : Int) : Rat) = (10 : Rat) ^ n := by
  unfold pow10
  rw [Rat.intCast_pow]; rfl

theorem trunc_nonneg_case (n : Nat) (r : Rat) (h : 0 ≤ r) :
    trunc n r ≤ r ∧ r < trunc n r + ulp n := by
  have hD : (0 : Rat) < (r.den : Rat) := Rat.natCast_pos.mpr r.den_pos
  have hP := p10_pos n
  have hPD : (0 : Rat) < (10 : Rat) ^ n * (r.den : Rat) := Rat.mul_pos hP hD
  have hs : 0 ≤ r.num * pow10 n := Int.mul_nonneg (Rat.num_nonneg.mpr h) (by unfold pow10; exact Int.pow_nonneg (by decide))
  obtain ⟨h1, h2⟩ := (scaledTrunc_bounds n r).1 hs
  have c1 := Rat.intCast_le_intCast.mpr h1
  have c2 := Rat.intCast_lt_intCast.mpr h2
  rw [Rat.intCast_mul, Rat.intCast_mul, pow10_cast, ← trunc_mul_p10, ← mul_den r, Rat.intCast_natCast] at c1
  rw [Rat.intCast_mul, Rat.intCast_mul, pow10_cast, Rat.intCast_add, ← trunc_mul_p10, ← mul_den r, Rat.intCast_natCast] at c2
  have u := ulp_mul n
  constructor
  · apply Rat.le_of_mul_le_mul_right _ hPD
    grind
  · apply Rat.lt_of_mul_lt_mul_right _ (Rat.le_of_lt hPD)
    have : (trunc n r + ulp n) * ((10 : Rat) ^ n * (r.den : Rat)) = (trunc n r * (10 : Rat) ^ n + 1) * (r.den : Rat) := by
      grind
    rw [this]
    grind


theorem trunc_neg' (n : Nat) (r : Rat) : trunc n (-r) = -trunc n r := by
  unfold trunc scaledTrunc
  rw [Rat.neg_mkRat]
  simp only [Rat.neg_num, Rat.neg_den, Int.neg_mul, Int.neg_tdiv]

theorem trunc_nonpos_case (n : Nat) (r : Rat) (h : r ≤ 0) :
    r ≤ trunc n r ∧ trunc n r - ulp n < r := by
  have h' : 0 ≤ -r := by grind
  obtain ⟨h1, h2⟩ := trunc_nonneg_case n (-r) h'
  rw [trunc_neg'] at h1 h2
  constructor <;> grind

/-- truncation error -/
def terr (n : Nat) (r : Rat) : Rat := trunc n r - r

/-- **`Truncate(n)` is close**: it moves a value toward zero by less than one unit of the `n`-th decimal -/
theorem trunc_close (n : Nat) (r : Rat) :
    (0 ≤ r → -ulp n < trunc n r - r ∧ trunc n r - r ≤ 0) ∧
    (r ≤ 0 → 0 ≤ trunc n r - r ∧ trunc n r - r < ulp n) := by
  constructor
  · intro h
    obtain ⟨h1, h2⟩ := trunc_nonneg_case n r h
    constructor <;> grind
  · intro h
    obtain ⟨h1, h2⟩ := trunc_nonpos_case n r h
    constructor <;> grind

theorem trunc_close_both (n : Nat) (r : Rat) : -ulp n < trunc n r - r ∧ trunc n r - r < ulp n := by
  have hu := ulp_pos n
  rcases Rat.le_total (a := 0) (b := r) with h | h
  · obtain ⟨h1, h2⟩ := (trunc_close n r).1 h
    constructor <;> grind
  · obtain ⟨h1, h2⟩ := (trunc_close n r).2 h
    constructor <;> grind

theorem abs_lt_of {x y : Rat} (h1 : -y < x) (h2 : x < y) : x.abs < y := by
  unfold Rat.abs; split <;> grind

theorem abs_le_of {x y : Rat} (h1 : -y ≤ x) (h2 : x ≤ y) : x.abs ≤ y := by
  unfold Rat.abs; split <;> grind

theorem trunc_close_abs (n : Nat) (r : Rat) : (trunc n r - r).abs < 1 / (10 : Rat) ^ n :=
  abs_lt_of (trunc_close_both n r).1 (trunc_close_both n r).2

/-! ## single-position valuation trace -/

/-- one day of one position `(a, c)`, `c ≠ V`: yesterday's and today's price of `c` in `V` and the signed
quantities booked today -/
structure DayStep where
  pPrev : Rat
  pCur : Rat
  qs : List Rat
  deriving Repr

/-- running value `W`, running quantity `Q`, number of truncations so far -/
structure St where
  W : Rat := 0
  Q : Rat := 0
  steps : Nat := 0
  deriving DecidableEq, Repr

/-- `Valuate.DayStart` for the position: nothing if closed or the price did not move -/
def adjSkipped (Q pPrev pCur : Rat) : Prop := Q = 0 ∨ pCur - pPrev = 0

instance (Q pPrev pCur : Rat) : Decidable (adjSkipped Q pPrev pCur) := by unfold adjSkipped; infer_instance

def adjustment (Q pPrev pCur : Rat) : Rat :=
  if adjSkipped Q pPrev pCur then 0 else trunc 8 ((pCur - pPrev) * Q)

/-- `Valuate.Posting` for the day's bookings: zero quantities are not valued -/
def booked (pCur : Rat) (qs : List Rat) : Rat :=
  ((qs.filter (fun q => q ≠ 0)).map (fun q => trunc 8 (q * pCur))).sum

def stepDay (s : St) (d : DayStep) : St :=
  { W := s.W + adjustment s.Q d.pPrev d.pCur + booked d.pCur d.qs,
    Q := s.Q + d.qs.sum,
    steps := s.steps + (if adjSkipped s.Q d.pPrev d.pCur then 0 else 1) + (d.qs.filter (fun q => q ≠ 0)).length }

def run (s : St) (ds : List DayStep) : St := ds.foldl stepDay s

/-- yesterday's price of each day is the previous day's price of today; `p0` is the price before the first day -/
def Consistent (p0 : Rat) : List DayStep → Prop
  | [] => True
  | d :: ds => d.pPrev = p0 ∧ Consistent d.pCur ds

def lastPrice (p0 : Rat) : List DayStep → Rat
  | [] => p0
  | d :: ds => lastPrice d.pCur ds

theorem adjustment_err (Q pPrev pCur : Rat) :
    -((if adjSkipped Q pPrev pCur then 0 else 1 : Nat) : Rat) * ulp 8 ≤ adjustment Q pPrev pCur - (pCur - pPrev) * Q ∧
    adjustment Q pPrev pCur - (pCur - pPrev) * Q ≤ ((if adjSkipped Q pPrev pCur then 0 else 1 : Nat) : Rat) * ulp 8 := by
  unfold adjustment
  split
  · rename_i h
    have : (pCur - pPrev) * Q = 0 := by
      rcases h with h | h
      · rw [h, Rat.mul_zero]
      · rw [h, Rat.zero_mul]
    rw [this]
    constructor <;> simp <;> grind
  · obtain ⟨h1, h2⟩ := trunc_close_both 8 ((pCur - pPrev) * Q)
    constructor <;> simp <;> grind

theorem booked_err (p : Rat) (qs : List Rat) :
    -(((qs.filter (fun q => q ≠ 0)).length : Nat) : Rat) * ulp 8 ≤ booked p qs - (qs.map (· * p)).sum ∧
    booked p qs - (qs.map (· * p)).sum ≤ (((qs.filter (fun q => q ≠ 0)).length : Nat) : Rat) * ulp 8 := by
  unfold booked
  induction qs with
  | nil => simp; grind
  | cons q rest ih =>
    by_cases hq : q = 0
    · subst hq
      simp only [ne_eq, not_true_eq_false, decide_false, Bool.false_eq_true, not_false_eq_true,
        List.filter_cons_of_neg, List.map_cons, List.sum_cons, Rat.zero_mul, Rat.zero_add]
      exact ih
    · have hf : (q :: rest).filter (fun q => q ≠ 0) = q :: rest.filter (fun q => q ≠ 0) := by
        simp [hq]
      rw [hf]
      simp only [List.map_cons, List.sum_cons, List.length_cons, Rat.natCast_add]
      obtain ⟨h1, h2⟩ := trunc_close_both 8 (q * p)
      obtain ⟨i1, i2⟩ := ih
      constructor <;> grind


/-- the exact identity behind mark-to-market (same as `C03_telescope`) -/
theorem telescope (Qprev pPrev pCur : Rat) (qs : List Rat) :
    Qprev * pPrev + (pCur - pPrev) * Qprev + (qs.map (· * pCur)).sum = (Qprev + qs.sum) * pCur := by
  induction qs with
  | nil => simp; grind
  | cons q rest ih =>
    simp only [List.map_cons, List.sum_cons] at ih ⊢
    grind

/-- deviation of the running value from the exact mark-to-market value at price `p` -/
def dev (s : St) (p : Rat) : Rat := s.W - s.Q * p

theorem stepDay_bound (s : St) (d : DayStep) :
    -(((stepDay s d).steps : Rat) - (s.steps : Rat)) * ulp 8 ≤ dev (stepDay s d) d.pCur - dev s d.pPrev ∧
    dev (stepDay s d) d.pCur - dev s d.pPrev ≤ (((stepDay s d).steps : Rat) - (s.steps : Rat)) * ulp 8 := by
  obtain ⟨a1, a2⟩ := adjustment_err s.Q d.pPrev d.pCur
  obtain ⟨b1, b2⟩ := booked_err d.pCur d.qs
  have t := telescope s.Q d.pPrev d.pCur d.qs
  unfold dev stepDay
  simp only [Rat.natCast_add]
  generalize (((if adjSkipped s.Q d.pPrev d.pCur then 0 else 1 : Nat) : Rat)) = ka at a1 a2 ⊢
  generalize (((d.qs.filter (fun q => q ≠ 0)).length : Nat) : Rat) = kb at b1 b2 ⊢
  generalize adjustment s.Q d.pPrev d.pCur = A at a1 a2 ⊢
  generalize booked d.pCur d.qs = B at b1 b2 ⊢
  generalize (d.qs.map (· * d.pCur)).sum = S at b1 b2 t
  constructor <;> grind

theorem steps_mono (s : St) (ds : List DayStep) : s.steps ≤ (run s ds).steps := by
  induction ds generalizing s with
  | nil => exact Nat.le_refl _
  | cons d ds ih =>
    have := ih (stepDay s d)
    unfold run at this ⊢
    simp only [List.foldl_cons]
    have h : s.steps ≤ (stepDay s d).steps := by unfold stepDay; simp only; omega
    omega

/-- **windowed bound**: over any consistent stretch of days the change of the running value differs from the change
of the exact mark-to-market value by at most one unit of the 8th decimal per truncation -/
theorem run_bound (p0 : Rat) (ds : List DayStep) (s : St) (hc : Consistent p0 ds) :
    -(((run s ds).steps : Rat) - (s.steps : Rat)) * ulp 8 ≤ dev (run s ds) (lastPrice p0 ds) - dev s p0 ∧
    dev (run s ds) (lastPrice p0 ds) - dev s p0 ≤ (((run s ds).steps : Rat) - (s.steps : Rat)) * ulp 8 := by
  induction ds generalizing s p0 with
  | nil =>
    unfold run lastPrice
    simp only [List.foldl_nil]
    constructor <;> grind
  | cons d ds ih =>
    obtain ⟨hp, hc'⟩ := hc
    obtain ⟨i1, i2⟩ := ih d.pCur (stepDay s d) hc'
    obtain ⟨s1, s2⟩ := stepDay_bound s d
    rw [hp] at s1 s2
    have hr : run s (d :: ds) = run (stepDay s d) ds := rfl
    have hl : lastPrice p0 (d :: ds) = lastPrice d.pCur ds := rfl
    rw [hr, hl]
    constructor <;> grind


theorem natCast_sub_of_le {m n : Nat} (h : m ≤ n) : ((n - m : Nat) : Rat) = (n : Rat) - (m : Rat) := by
  obtain ⟨k, rfl⟩ := Nat.exists_eq_add_of_le h
  rw [Nat.add_sub_cancel_left, Rat.natCast_add]
  grind

theorem mul_ulp (k : Rat) (n : Nat) : k * ulp n = k / (10 : Rat) ^ n := by
  unfold ulp
  rw [Rat.div_def, Rat.div_def, Rat.one_mul]

theorem valuationAccount_not_AL (a : Account) : (valuationAccountFor a).isAL = false := by
  unfold valuationAccountFor Account.isAL Account.type? AccountType.ofName
  simp

theorem ne_valuationAccount (a : Account) (h : a.isAL = true) : a ≠ valuationAccountFor a := by
  intro he
  have := valuationAccount_not_AL a
  rw [← he, h] at this
  cases this

/-- in a value adjustment of amount `g` for account `a`, the posting on `a` carries quantity 0 and value `g` -/
theorem adjustment_posting_value (a : Account) (c : Commodity) (g : Rat) (hal : a.isAL = true) :
    ∀ p ∈ postingBuild (valuationAccountFor a) a c 0 g, p.account = a → p.quantity = 0 ∧ p.value = g ∧ p.commodity = c := by
  intro p hp hacc
  have hne := ne_valuationAccount a hal
  unfold postingBuild at hp
  simp only [List.mem_cons, List.not_mem_nil, or_false] at hp
  by_cases hg : g < 0
  · simp [hg] at hp
    rcases hp with rfl | rfl
    · simp
    · exact absurd hacc.symm hne
  · simp [hg] at hp
    rcases hp with rfl | rfl
    · exact absurd hacc.symm hne
    · simp

/-- the adjustment transaction of one position is `adjustment` of the trace model -/
theorem adjustStep_eq (v : Commodity) (date : Int) (prev cur : Option Prices.NPrices)
    (acc : List Transaction) (a : Account) (c : Commodity) (q pp cp : Rat)
    (hc : c ≠ v) (hal : a.isAL = true)
    (hp : Balance.lookupPrice prev c = .ok pp) (hcur : Balance.lookupPrice cur c = .ok cp) :
    Balance.adjustStep v date prev cur acc ((a, c), q) =
      .ok (if adjSkipped q pp cp then acc else
        acc ++ [{ date := date, description := "Adjust value of " ++ c ++ " in account " ++ a.name,
                  postings := postingBuild (valuationAccountFor a) a c 0 (adjustment q pp cp),
                  targets := some [c] }]) := by
  unfold Balance.adjustStep adjustment adjSkipped
  by_cases hq : q = 0
  · simp [hq]
  · have : (decide (c = v) || !a.isAL || decide (q = 0)) = false := by simp [hc, hal, hq]
    simp only [this, Bool.false_eq_true, if_false]
    simp only [bind, Except.bind, hp, hcur, hq, false_or]
    by_cases hd : cp - pp = 0
    · simp [hd]
    · simp only [hd, if_false]; rfl

/-- the values given to a day's bookings on one position sum to `booked` of the trace model -/
theorem valuePostings_sum (v : Commodity) (cur : Option Prices.NPrices) (c : Commodity) (pr : Rat)
    (hc : c ≠ v) (hcur : Balance.lookupPrice cur c = .ok pr) :
    ∀ (ps ps' : List Posting), (∀ p ∈ ps, p.commodity = c ∧ p.value = 0) →
      ps.mapM (Balance.valuePosting v cur) = .ok ps' →
      (ps'.map (·.value)).sum = booked pr (ps.map (·.quantity)) ∧ ps'.map (·.quantity) = ps.map (·.quantity)
  | [], ps', _, h => by
    simp only [List.mapM_nil, pure, Except.pure] at h
    injection h with h; subst h
    exact ⟨rfl, rfl⟩
  | p :: rest, ps', hall, h => by
    simp only [List.mapM_cons, bind, Except.bind] at h
    cases hp : Balance.valuePosting v cur p with
    | error e => rw [hp] at h; cases h
    | ok p' =>
      rw [hp] at h; simp only at h
      cases hr : rest.mapM (Balance.valuePosting v cur) with
      | error e => rw [hr] at h; cases h
      | ok rest' =>
        rw [hr] at h; simp only [pure, Except.pure] at h
        injection h with h; subst h
        obtain ⟨ih1, ih2⟩ := valuePostings_sum v cur c pr hc hcur rest rest' (fun x hx => hall x (List.mem_cons_of_mem _ hx)) hr
        obtain ⟨hpc, hpv⟩ := hall p List.mem_cons_self
        unfold Balance.valuePosting at hp
        unfold booked at ih1 ⊢
        by_cases hq : p.quantity = 0
        · simp only [hq, if_true] at hp; injection hp with hp; subst hp
          simp only [List.map_cons, List.sum_cons, hpv, Rat.zero_add, ih1, ih2, hq, and_true]
          simp
        · rw [hpc] at hp
          simp only [hq, hc, if_false, bind, Except.bind, hcur] at hp
          injection hp with hp; subst hp
          simp only [List.map_cons, List.sum_cons, ih1, ih2, and_true]
          simp [hq]; rfl
/-- non-vacuity example used in `Properties/C03Bound.lean` -/
def exampleTrace : List DayStep :=
  [⟨0, 1/3, [1]⟩, ⟨1/3, 2/3, [2, 0]⟩, ⟨2/3, 123456789/1000000000, [-1]⟩]

end Knut.MTM
