import Knut.Generated.Facts
/-! The COMMAND SURFACE of the two commands that write formatted journals, `knut format` (`cmd/commands/format.go`) and
`knut infer` (`cmd/commands/infer.go`), extracted from the sources on every run (`harness/facts_c08.go` says how the flags are
read off the syntax trees), is the reviewed one: the surface against which the C08 streams `cli`, `flags` and `flags-infer`
were written and for which `Model/…formatFile` (parse; on an error nothing is written; otherwise the whole formatted buffer
replaces the file) describes everything the command can do.

* `format` has NO flags and takes any number of files: `formatFile` is the whole command, once per argument.
* `infer` has `--account`, `-a` (string, default `Expenses:TBD`), `--inplace`, `-i` (bool), `--training-file`, `-t` (string, required) and
  exactly one argument.
* no command under `cmd/` defines persistent flags, so none is inherited.

A flag added to either command (or a helper that is handed the `*cobra.Command`, entry type `delegated`) breaks this module and
is reported by name (`census-new-site C08 …`).  The stream `flags` explores such a flag at once - all subsets of up to three of
the boolean flags `--help` offers, judged by the property's predicates on what is on disk afterwards - but what the flag is
meant to do, and hence whether the model still describes the command, has to be reviewed: then this expectation (and its
mirror `c08ReviewedFlags` in `harness/facts_c08.go`) is updated. -/
namespace Knut.FactsAgree.C08

/-- (name, shorthand, type, default as written in the source, "required" or "") -/
abbrev Flag := String × String × String × String × String

def reviewedFormatFlags : List Flag := []

def reviewedInferFlags : List Flag :=
  [("account", "a", "string", "\"Expenses:TBD\"", ""),
   ("inplace", "i", "bool", "false", ""),
   ("training-file", "t", "string", "\"\"", "required")]

theorem format_flags : Generated.c08FormatFlags = reviewedFormatFlags := by decide
theorem format_args : Generated.c08FormatArgs = "" := by decide
theorem infer_flags : Generated.c08InferFlags = reviewedInferFlags := by decide
theorem infer_args : Generated.c08InferArgs = "cobra.MatchAll(cobra.ExactArgs(1), cobra.OnlyValidArgs)" := by decide
theorem no_persistent_flags : Generated.c08PersistentFlagSites = 0 := by decide

/-- the surface of the seeded change C08-i (gofmt-style `--list`, `--diff`, `--write`) is not the reviewed one -/
example : ([("diff", "d", "bool", "false", ""), ("list", "l", "bool", "false", ""), ("write", "w", "bool", "false", "")] : List Flag)
    ≠ reviewedFormatFlags := by decide

end Knut.FactsAgree.C08
