import Knut.Generated.TransParser
import Knut.Syntax.Parser
import Knut.FactsAgree.TransScanner
/-!
# The translated `lib/syntax/parser` agrees with the model parser (`Knut/Syntax/Parser.lean`)

`Knut/Generated/TransParser.lean` is regenerated from /repo's `parser.go` on every run (`harness/trans_syntax*.go`).  The Go parser is
the scanner (embedded) plus the `Callback` field; `goParser text path cb s` is the Go parser that belongs to the model state `s` of a
scan of `text` (simulation relation of `TransScanner.lean`).  For every method:

  `Inv text fuel s → Agree text path cb conv (Go.method fuel (goParser text path cb s) …) (model.method … s)`

`Inv` = the simulation invariant `SimOK` and `fuel` above the number of unread tokens (every loop of the translation runs on that fuel:
the theorems prove it adequate — no `outOfFuel`, no slice panic).  `Agree`: on success the same state and the converted tree value
(`conv`), on an error the same state and the same error chain (`goErr`); next to an error Go also returns a partially filled tree, which
the model does not describe (it is existentially quantified here).  Loops and conditionals whose branches join in `Flow` are related by
`FlowAgree` (`agree_flow`, `flow_flow`).
-/
namespace Knut.FactsAgree.TransParser
open Knut Knut.GoSem Knut.Syntax Knut.Utf8
open Knut.Generated.Go
open Knut.FactsAgree.TransScanner

/-- the Go parser in the model state `s` of a scan of `text`; `cb` is the `Callback` field (nil or not) -/
def goParser (text : Bytes) (path : String) (cb : Syn.Proc) (s : St) : parser.Parser :=
  { Scanner := goScanner text path s, Callback := cb }

@[simp] theorem goParser_Scanner (text : Bytes) (path : String) (cb : Syn.Proc) (s : St) :
    (goParser text path cb s).Scanner = goScanner text path s := rfl

@[simp] theorem goParser_with (text : Bytes) (path : String) (cb : Syn.Proc) (s s' : St) :
    { goParser text path cb s with Scanner := goScanner text path s' } = goParser text path cb s' := rfl

/-- decoding splits along a token prefix -/
theorem decodeAll_split : ∀ (c : List Tok) (bs : List UInt8) (r : List Tok), decodeAll bs = c ++ r →
    r = decodeAll (bs.drop (wsum c)) := by
  intro c
  induction c with
  | nil => intro bs r h; simpa using h.symm
  | cons t ts ih =>
    intro bs r h
    obtain ⟨_, _, hrest, _, _⟩ := decodeAll_eq_cons (t := t) (rest := ts ++ r) (by simpa using h)
    have := ih _ _ hrest.symm
    rw [this, List.drop_drop]
    simp

/-- the simulation invariant is kept by consuming tokens -/
theorem SimOK.ext {text : Bytes} {s s' : St} (h : SimOK text s) (he : Ext s s') : SimOK text s' := by
  obtain ⟨c, hc, ho⟩ := he
  obtain ⟨hle, hk⟩ := h
  rcases hk with hk | ⟨hk, hoff⟩
  · rw [hc] at hk
    have hr := decodeAll_split c _ _ hk.symm
    rw [List.drop_drop] at hr
    have hlen : wsum c + wsum s'.toks = text.length - s.off := by
      have := congrArg wsum hk
      rw [wsum_append, wsum_decodeAll, List.length_drop] at this
      exact this
    refine ⟨by omega, Or.inl ?_⟩
    rw [hr, ho]
  · rw [hc] at hk
    cases c with
    | nil =>
      simp only [List.nil_append] at hk
      simp only [wsum_nil, Nat.add_zero] at ho
      exact ⟨by omega, Or.inr ⟨hk, by omega⟩⟩
    | cons t ts =>
      have hts : ts = [] ∧ s'.toks = [] ∧ t = eofTok := by
        simp only [List.cons_append, List.cons.injEq, List.append_eq_nil_iff] at hk
        exact ⟨hk.2.1, hk.2.2, hk.1⟩
      obtain ⟨h1, h2, h3⟩ := hts
      subst h1 h3
      simp only [wsum_cons, wsum_nil, eofTok, List.length_nil, Nat.add_zero] at ho
      refine ⟨by omega, Or.inl ?_⟩
      rw [h2, ho, hoff]
      simp

/-- what every agreement theorem assumes of the state: it is in the simulation and the fuel exceeds the number of unread tokens -/
def Inv (text : Bytes) (fuel : Nat) (s : St) : Prop := SimOK text s ∧ s.toks.length < fuel

theorem Inv.ext {text : Bytes} {fuel : Nat} {s s' : St} (h : Inv text fuel s) (he : Ext s s') : Inv text fuel s' :=
  ⟨SimOK.ext h.1 he, by have := he.length_le; have := h.2; omega⟩

/-- **agreement** of the outcome of a translated parser method with the model's result: the same state, the same value resp. the same
error chain; next to an error Go also returns a partially filled value `pv`, which the model does not describe -/
def Agree {α β} (text : Bytes) (path : String) (cb : Syn.Proc) (conv : α → β)
    (out : Outcome (parser.Parser × β × directives.GoError)) (res : Res α) : Prop :=
  match res with
  | .ok a s' => out = .ok (goParser text path cb s', conv a, .nil)
  | .err e s' => e ≠ [] ∧ ∃ pv, out = .ok (goParser text path cb s', pv, goErr text path e)

theorem agree_err {α β} {text : Bytes} {path : String} {cb : Syn.Proc} {conv : α → β} {p : parser.Parser} {pv : β}
    {g : directives.GoError} {e : Err} {s' : St} (hne : e ≠ []) (hp : p = goParser text path cb s') (hg : g = goErr text path e) :
    Agree text path cb conv (.ok (p, pv, g)) (.err e s') := by
  subst hp hg; exact ⟨hne, pv, rfl⟩

theorem agree_ok {α β} {text : Bytes} {path : String} {cb : Syn.Proc} {conv : α → β} {p : parser.Parser} {v : β}
    {g : directives.GoError} {a : α} {s' : St} (hp : p = goParser text path cb s') (hv : v = conv a) (hg : g = .nil) :
    Agree text path cb conv (.ok (p, v, g)) (.ok a s') := by
  subst hp hv hg; rfl

/-- a scanner call from an invariant state: either it succeeded (and the new state is in the invariant) or it failed -/
theorem scan_step {text : Bytes} {path : String} {fuel : Nat} {s : St} {start : Nat}
    {call : Outcome (scanner.Scanner × directives.Range × directives.GoError)} {r1 : Res Syntax.Range}
    (h : call = .ok (goResR text path start r1) ∧ Post text r1) (hinv : Inv text fuel s) (hext : Ext s r1.st) :
    (∃ x s', r1 = .ok x s' ∧ call = .ok (goScanner text path s', goRange text path x, .nil) ∧ Inv text fuel s') ∨
    (∃ e s', r1 = .err e s' ∧ e ≠ [] ∧
      call = .ok (goScanner text path s', goRange text path ⟨start, s'.off⟩, goErr text path e)) := by
  cases hr : r1 with
  | ok x s' =>
    rw [hr] at h hext
    exact Or.inl ⟨x, s', rfl, h.1, hinv.ext hext⟩
  | err e s' =>
    rw [hr] at h
    exact Or.inr ⟨e, s', rfl, h.2.2 e s' rfl, h.1⟩

/-- the same for a call of a translated parser method -/
theorem parse_step {α β} {text : Bytes} {path : String} {cb : Syn.Proc} {fuel : Nat} {s : St} {conv : α → β}
    {call : Outcome (parser.Parser × β × directives.GoError)} {r1 : Res α}
    (h : Agree text path cb conv call r1) (hinv : Inv text fuel s) (hext : Ext s r1.st) :
    (∃ a s', r1 = .ok a s' ∧ call = .ok (goParser text path cb s', conv a, .nil) ∧ Inv text fuel s') ∨
    (∃ e s' pv, r1 = .err e s' ∧ e ≠ [] ∧ call = .ok (goParser text path cb s', pv, goErr text path e)) := by
  cases hr : r1 with
  | ok a s' =>
    rw [hr] at h hext
    exact Or.inl ⟨a, s', rfl, h, hinv.ext hext⟩
  | err e s' =>
    rw [hr] at h
    obtain ⟨hne, pv, hc⟩ := h
    exact Or.inr ⟨e, s', pv, rfl, hne, hc⟩


/-! ### the predicates -/

theorem nat_beq (a b : Nat) : (a == b) = decide (a = b) := by
  by_cases h : a = b <;> simp [h]
theorem nat_bne (a b : Nat) : (a != b) = !decide (a = b) := by
  by_cases h : a = b <;> simp [h]

theorem dom_cases {r : Nat} (h : r < 0x200000 ∨ r = EOF) : (goRune r = (r : Int) ∧ r < 0x200000) ∨ (goRune r = -1 ∧ r = EOF) := by
  rcases h with h | h
  · exact Or.inl ⟨goRune_of_lt (by omega), h⟩
  · exact Or.inr ⟨by rw [h]; exact goRune_EOF, h⟩

theorem pred_IsDigit : PredAgrees Syn.IsDigit isDigit := by
  intro r h
  rcases dom_cases h with ⟨h1, _⟩ | ⟨h1, h2⟩
  · rw [h1]; simp [Syn.IsDigit]
  · rw [h1, h2, eof_not_digit]; rfl

theorem pred_IsLetter : PredAgrees Syn.IsLetter isLetter := by
  intro r h
  rcases dom_cases h with ⟨h1, _⟩ | ⟨h1, h2⟩
  · rw [h1]; simp [Syn.IsLetter]
  · rw [h1, h2, eof_not_letter]; rfl

theorem pred_isAlphanumeric : PredAgrees parser.isAlphanumeric isAlphanumeric := by
  intro r h
  simp only [parser.isAlphanumeric, isAlphanumeric, pred_IsLetter r h, pred_IsDigit r h]

theorem go_isWhitespace {r : Nat} (h : r < 0x200000 ∨ r = EOF) : parser.isWhitespace (goRune r) = isWhitespace r := by
  rcases dom_cases h with ⟨h1, h2⟩ | ⟨h1, h2⟩
  · rw [h1]; simp only [parser.isWhitespace, isWhitespace]
    have e1 : ((r : Int) = 32) ↔ r = 32 := by omega
    have e2 : ((r : Int) = 9) ↔ r = 9 := by omega
    have e3 : ((r : Int) = 13) ↔ r = 13 := by omega
    simp [e1, e2, e3, nat_beq, nat_bne]
  · rw [h1, h2]; decide

theorem pred_isWhitespace : PredAgrees parser.isWhitespace isWhitespace := fun _ h => go_isWhitespace h

theorem go_isNewline {r : Nat} (h : r < 0x200000 ∨ r = EOF) : parser.isNewline (goRune r) = isNewline r := by
  rcases dom_cases h with ⟨h1, h2⟩ | ⟨h1, h2⟩
  · rw [h1]; simp only [parser.isNewline, isNewline]
    have e1 : ((r : Int) = 10) ↔ r = 10 := by omega
    simp [e1, nat_beq, nat_bne]
  · rw [h1, h2]; decide

theorem go_isWhitespaceOrNewline {r : Nat} (h : r < 0x200000 ∨ r = EOF) :
    parser.isWhitespaceOrNewline (goRune r) = isWhitespaceOrNewline r := by
  simp only [parser.isWhitespaceOrNewline, isWhitespaceOrNewline, go_isNewline h, go_isWhitespace h]

theorem pred_notNewlineOrEOF : PredAgrees (fun r => !parser.isNewlineOrEOF r) (fun r => !isNewlineOrEOF r) := by
  intro r h
  rcases dom_cases h with ⟨h1, h2⟩ | ⟨h1, h2⟩
  · simp only [h1, parser.isNewlineOrEOF, isNewlineOrEOF, EOF]
    have e1 : ((r : Int) = 10) ↔ r = 10 := by omega
    have e2 : ¬ ((r : Int) = -1) := by omega
    have e3 : ¬ (r = 0xFFFFFFFF) := by omega
    simp [e1, e2, e3, nat_beq, nat_bne]
  · simp only [h1, h2]; decide

theorem pred_ne (c : Nat) (hc : c < 0x200000) : PredAgrees (fun r => !decide (r = (c : Int))) (fun r => r != c) := by
  intro r h
  rcases dom_cases h with ⟨h1, h2⟩ | ⟨h1, h2⟩
  · simp only [h1]
    have e1 : ((r : Int) = (c : Int)) ↔ r = c := by omega
    simp [e1, nat_beq, nat_bne]
  · have e1 : ¬ ((-1 : Int) = (c : Int)) := by omega
    have e2 : ¬ (EOF = c) := by simp only [EOF]; omega
    simp [h2, goRune_EOF, e1, e2, nat_beq, nat_bne]

/-- `p.Current() == c` for an ordinary rune `c` -/
theorem cur_eq_lit {text : Bytes} {s : St} (h : SimOK text s) (ci : Int) (c : Nat) (hci : ci = (c : Int)) (hc : c < 0x200000) :
    (goRune (cur s) = ci) ↔ cur s = c := by
  subst hci
  rcases dom_cases h.cur_dom with ⟨h1, h2⟩ | ⟨h1, h2⟩
  · rw [h1]; omega
  · rw [h1, h2]; simp only [EOF]; omega

end Knut.FactsAgree.TransParser
