import Knut.Proofs.ImportIB
/-!
# C13: every directive an importer emits is well-formed (accounts and commodities are valid names, transactions have
bookings in pairs): the hypotheses of the print-then-parse round trip
-/
set_option linter.unusedSimpArgs false
namespace Knut.Proofs.Import
open Knut Knut.Import Knut.Spec.Import

/-- the character class of the registry and of the parser -/
abbrev alnum (r : Nat) : Bool := Syntax.isAlphanumeric r

/-- all directives of a list are well-formed -/
def WF (ds : List Directive) : Prop := ∀ d ∈ ds, wellFormed alnum d = true

theorem WF_nil : WF [] := by intro d hd; simp at hd
theorem WF_append {xs ys : List Directive} (hx : WF xs) (hy : WF ys) : WF (xs ++ ys) := by
  intro d hd
  simp only [List.mem_append] at hd
  rcases hd with h | h
  · exact hx d h
  · exact hy d h
theorem WF_cons {x : Directive} {xs : List Directive} (hx : wellFormed alnum x = true) (hy : WF xs) : WF (x :: xs) := by
  intro d hd
  simp only [List.mem_cons] at hd
  rcases hd with h | h
  · subst h; exact hx
  · exact hy d h
theorem WF_single {x : Directive} (hx : wellFormed alnum x = true) : WF [x] := WF_cons hx WF_nil

/-- an account the registry accepts (what `accountFlag` checks) -/
def AccOK (a : Account) : Prop := Spec.Import.validAccount alnum a = true
def ComOK (c : Commodity) : Prop := validName c alnum = true

theorem accOK_of_flag {s : String} {a : Account} (h : accountFlag s = .ok a) : AccOK a := by
  unfold accountFlag at h
  simp only at h
  split at h
  · simp at h; subst h
    rename_i hv
    unfold AccOK Spec.Import.validAccount
    unfold Import.validAccount at hv
    cases hseg : (Account.ofName s).segments with
    | nil => simp [hseg] at hv
    | cons t rest => simp [hseg] at hv ⊢; exact ⟨hv.1, fun x hx => by simpa [validName, validSegment] using hv.2 x hx⟩
  · cases h

theorem accOK_tbd : AccOK tbd := by unfold AccOK; decide +kernel

theorem accOK_valuation {a : Account} (h : AccOK a) : AccOK (Knut.Import.valuationAccountFor a) := by
  unfold AccOK Spec.Import.validAccount at h ⊢
  unfold Knut.Import.valuationAccountFor
  cases hseg : a.segments with
  | nil => simp [hseg] at h
  | cons t rest =>
    simp [hseg] at h ⊢
    exact ⟨by decide +kernel, h.2⟩

theorem comOK_of_get {s : String} {c : Commodity} (h : getCommodity s = .ok c) : ComOK c := by
  obtain ⟨h1, h2⟩ := getCommodity_eq_ok h
  subst h1; exact h2
theorem comOK_of_must {s : String} {c : Commodity} (h : mustCommodity s = .ok c) : ComOK c := by
  obtain ⟨h1, h2⟩ := mustCommodity_eq_ok h
  subst h1; exact h2
theorem comOK_chf : ComOK "CHF" := by unfold ComOK; decide +kernel

/-- a posting builder with valid names -/
def PBOK (b : PB) : Prop := AccOK b.credit ∧ AccOK b.debit ∧ ComOK b.commodity

theorem buildPostings_ok : ∀ (bs : List PB), (∀ b ∈ bs, PBOK b) →
    (buildPostings bs).length % 2 = 0 ∧
    ∀ p ∈ buildPostings bs, Spec.Import.validAccount alnum p.account = true ∧ Spec.Import.validAccount alnum p.other = true ∧
      validName p.commodity alnum = true := by
  intro bs
  induction bs with
  | nil => intro _; simp [buildPostings]
  | cons b bs ih =>
    intro h
    have hb := h b (by simp)
    obtain ⟨h1, h2⟩ := ih (fun x hx => h x (by simp [hx]))
    have e : buildPostings (b :: bs) = postingBuild b.credit b.debit b.commodity b.quantity ++ buildPostings bs := by
      simp [buildPostings]
    rw [e]
    refine ⟨?_, ?_⟩
    · simp only [List.length_append]
      have : (postingBuild b.credit b.debit b.commodity b.quantity).length = 2 := by simp [postingBuild]
      omega
    · intro p hp
      simp only [List.mem_append] at hp
      rcases hp with hp | hp
      · unfold postingBuild at hp
        simp only [List.mem_cons, List.not_mem_nil, or_false] at hp
        rcases hp with hp | hp <;> subst hp <;> simp only <;> split <;> exact ⟨by first | exact hb.1 | exact hb.2.1, by first | exact hb.2.1 | exact hb.1, hb.2.2⟩
      · exact h2 p hp

/-- the description stored by `transaction.Builder.Build` contains no double quote -/
theorem replaceQuotes_no_quote (s : String) : (replaceQuotes s).toList.all (fun c => c != '"') = true := by
  unfold replaceQuotes
  simp only [String.toList_ofList, List.all_eq_true, List.mem_map]
  rintro c ⟨x, _, rfl⟩
  by_cases hx : x = '"'
  · subst hx; decide
  · have : (x == '"') = false := by simpa using hx
    simp [this, hx]

theorem mkTx_wf (d : Int) (desc : String) (bs : List PB) (tg : Option (List Commodity)) (hne : bs ≠ [])
    (hb : ∀ b ∈ bs, PBOK b) (htg : ∀ t ∈ tg.getD [], ComOK t) : wellFormed alnum (mkTx d desc bs tg) = true := by
  obtain ⟨h1, h2⟩ := buildPostings_ok bs hb
  unfold mkTx wellFormed
  simp only [Bool.and_eq_true, Bool.not_eq_true', List.isEmpty_eq_false_iff, beq_iff_eq]
  refine ⟨⟨⟨⟨replaceQuotes_no_quote desc, buildPostings_ne_nil hne⟩, h1⟩, ?_⟩, ?_⟩
  · simp only [List.all_eq_true]
    intro p hp
    obtain ⟨a, b, c⟩ := h2 p hp
    simp [a, b, c]
  · cases tg with
    | none => rfl
    | some ts => simp only [List.all_eq_true]; intro t ht; exact htg t (by simpa using ht)

theorem mapRows_wf {f : Rec → Res (List Directive)} (h : ∀ r ds, f r = .ok ds → WF ds) :
    ∀ rs ds, mapRows f rs = .ok ds → WF ds := by
  intro rs
  induction rs with
  | nil => intro ds hd; simp [mapRows] at hd; subst hd; exact WF_nil
  | cons r rs ih =>
    intro ds hd
    simp only [mapRows] at hd
    obtain ⟨d1, h1, hd⟩ := Res.bind_eq_ok hd
    obtain ⟨d2, h2, hd⟩ := Res.bind_eq_ok hd
    simp at hd
    subst hd
    exact WF_append (h r d1 h1) (ih d2 h2)

theorem wf_assertion (d : Int) (a : Account) (q : Rat) (c : Commodity) (ha : AccOK a) (hc : ComOK c) :
    wellFormed alnum (.assertion { date := d, balances := [⟨a, q, c⟩] }) = true := by
  unfold AccOK at ha; unfold ComOK at hc
  simp [wellFormed, ha, hc]

/-! ## cards -/

theorem swisscard2_wf (acct : Account) (ha : AccOK acct) (recs : List Rec) (ds : List Directive)
    (h : Swisscard2.run acct recs = .ok ds) : WF ds := by
  unfold Swisscard2.run at h
  cases recs with
  | nil => cases h
  | cons hd rows =>
    simp only at h
    split at h
    · cases h
    · refine mapRows_wf ?_ rows ds h
      intro r ds h
      unfold Swisscard2.row at h
      split at h
      · cases h
      · obtain ⟨d, hd, h⟩ := Res.bind_eq_ok h
        obtain ⟨c, hc, h⟩ := Res.bind_eq_ok h
        obtain ⟨q, hq, h⟩ := Res.bind_eq_ok h
        simp at h; subst h
        have := comOK_of_must hc
        exact WF_single (mkTx_wf _ _ _ _ (by simp) (by simp [PBOK, ha, accOK_tbd, this]) (by simp))

theorem swisscard_wf (acct : Account) (ha : AccOK acct) (recs : List Rec) (ds : List Directive)
    (h : Swisscard.run acct recs = .ok ds) : WF ds := by
  refine mapRows_wf ?_ recs ds h
  intro r ds h
  unfold Swisscard.row at h
  split at h
  · cases h
  · obtain ⟨f0, hf0, h⟩ := Res.bind_eq_ok h
    split at h
    · simp at h; subst h; exact WF_nil
    · obtain ⟨f1, hf1, h⟩ := Res.bind_eq_ok h
      split at h
      · simp at h; subst h; exact WF_nil
      · split at h
        · cases h
        · obtain ⟨d, hd, h⟩ := Res.bind_eq_ok h
          obtain ⟨q, hq, h⟩ := Res.bind_eq_ok h
          simp at h; subst h
          exact WF_single (mkTx_wf _ _ _ _ (by simp) (by simp [PBOK, ha, accOK_tbd, comOK_chf]) (by simp))

theorem supercard_wf (acct : Account) (ha : AccOK acct) (recs : List Rec) (ds : List Directive)
    (h : Supercard.run acct recs = .ok ds) : WF ds := by
  unfold Supercard.run at h
  match recs, h with
  | first :: header :: rows, h =>
    simp only at h
    split at h
    · cases h
    · split at h
      · cases h
      · split at h
        · cases h
        · refine mapRows_wf ?_ rows ds h
          intro r ds h
          unfold Supercard.row at h
          obtain ⟨text, htext, h⟩ := Res.bind_eq_ok h
          split at h
          · simp at h; subst h; exact WF_nil
          · split at h
            · simp at h; subst h; exact WF_nil
            · split at h
              · cases h
              · obtain ⟨d, hd, h⟩ := Res.bind_eq_ok h
                obtain ⟨q, hq, h⟩ := Res.bind_eq_ok h
                obtain ⟨c, hc, h⟩ := Res.bind_eq_ok h
                simp at h; subst h
                have := comOK_of_get hc
                exact WF_single (mkTx_wf _ _ _ _ (by simp) (by simp [PBOK, ha, accOK_tbd, this]) (by simp))
  | [first], h => simp only at h; split at h <;> cases h
  | [], h => cases h

theorem cumulus_wf (acct : Account) (ha : AccOK acct) (recs : List Rec) (ds : List Directive)
    (h : Cumulus.run acct recs = .ok ds) : WF ds := by
  unfold Cumulus.run at h
  obtain ⟨ps, _, h⟩ := Res.bind_eq_ok h
  simp at h; subst h
  intro d hd
  simp only [List.mem_map] at hd
  obtain ⟨p, _, hp⟩ := hd
  subst hp
  unfold Cumulus.toTx
  exact mkTx_wf _ _ _ _ (by simp) (by simp [PBOK, ha, accOK_tbd, comOK_chf]) (by simp)

/-! ## bank accounts -/

theorem postfinance_wf (acct : Account) (ha : AccOK acct) (recs : List Rec) (ds : List Directive)
    (h : Postfinance.run acct recs = .ok ds) : WF ds := by
  have hb : ∀ (cur : Commodity), ComOK cur → ∀ (rs : List Rec) (ds : List Directive) (rest : List Rec),
      Postfinance.bookings acct cur rs = .ok (ds, rest) → WF ds := by
    intro cur hcur rs
    induction rs with
    | nil => intro ds rest h; simp [Postfinance.bookings] at h
    | cons r rs ih =>
      intro ds rest h
      unfold Postfinance.bookings at h
      split at h
      · simp at h
        obtain ⟨h2, _⟩ := h
        subst h2; exact WF_nil
      · obtain ⟨d, hd, h⟩ := Res.bind_eq_ok h
        obtain ⟨q, hq, h⟩ := Res.bind_eq_ok h
        obtain ⟨⟨ds', rest'⟩, hrec, h⟩ := Res.bind_eq_ok h
        simp at h
        obtain ⟨h2, _⟩ := h
        subst h2
        exact WF_cons (mkTx_wf _ _ _ _ (by simp) (by simp [PBOK, ha, accOK_tbd, hcur]) (by simp)) (ih _ _ hrec)
  unfold Postfinance.run at h
  obtain ⟨⟨o, rest⟩, hkv, h⟩ := Res.bind_eq_ok h
  obtain ⟨c, hc, h⟩ := Res.bind_eq_ok h
  obtain ⟨⟨ds', rest'⟩, hbk, h⟩ := Res.bind_eq_ok h
  simp only at h hc hbk
  split at h
  · simp at h
    subst h
    have hcur : ComOK c := by
      cases o with
      | none => simp [Postfinance.currencyOf] at hc; subst hc; exact comOK_chf
      | some s => simp [Postfinance.currencyOf] at hc; exact comOK_of_get hc
    exact hb c hcur _ _ _ hbk
  · cases h

theorem revolut2_wf (acct fee : Account) (ha : AccOK acct) (hf : AccOK fee) (recs : List Rec) (ds : List Directive)
    (h : Revolut2.run acct fee recs = .ok ds) : WF ds := by
  -- every balance key carries a valid commodity
  have hrow : ∀ (r : Rec) (t : Directive) (k : Int × Commodity) (bal : Rat),
      Revolut2.row acct fee r = .ok (some (t, k, bal)) → wellFormed alnum t = true ∧ ComOK k.2 := by
    intro r t k bal h
    unfold Revolut2.row at h
    split at h
    · cases h
    · split at h
      · simp at h
      · obtain ⟨d, hd, h⟩ := Res.bind_eq_ok h
        obtain ⟨c, hc, h⟩ := Res.bind_eq_ok h
        obtain ⟨q, hq, h⟩ := Res.bind_eq_ok h
        obtain ⟨f, hf', h⟩ := Res.bind_eq_ok h
        obtain ⟨b, hb, h⟩ := Res.bind_eq_ok h
        simp at h
        obtain ⟨h1, h2, h3⟩ := h
        subst h1 h2 h3
        have hcom := comOK_of_get hc
        refine ⟨mkTx_wf _ _ _ _ (by simp) ?_ (by simp), hcom⟩
        by_cases hz : f = 0
        · simp [hz, PBOK, ha, accOK_tbd, hcom]
        · simp [hz, PBOK, ha, hf, accOK_tbd, hcom]
  have hset : ∀ (m : List ((Int × Commodity) × Rat)) (k : Int × Commodity) (v : Rat), (∀ e ∈ m, ComOK e.1.2) → ComOK k.2 →
      ∀ e ∈ Revolut2.setBalance m k v, ComOK e.1.2 := by
    intro m k v
    induction m with
    | nil => intro _ hk e he; simp [Revolut2.setBalance] at he; subst he; exact hk
    | cons x m ih =>
      intro hm hk e he
      obtain ⟨k', v'⟩ := x
      unfold Revolut2.setBalance at he
      split at he
      · simp only [List.mem_cons] at he
        rcases he with he | he
        · subst he; exact hk
        · exact hm e (by simp [he])
      · simp only [List.mem_cons] at he
        rcases he with he | he
        · subst he; exact hm _ (by simp)
        · exact ih (fun e he => hm e (by simp [he])) hk e he
  have hrows : ∀ (rs : List Rec) (m m' : List ((Int × Commodity) × Rat)) (ds : List Directive), (∀ e ∈ m, ComOK e.1.2) →
      Revolut2.rows acct fee m rs = .ok (ds, m') → WF ds ∧ ∀ e ∈ m', ComOK e.1.2 := by
    intro rs
    induction rs with
    | nil => intro m m' ds hm h; simp [Revolut2.rows] at h; obtain ⟨h1, h2⟩ := h; subst h1 h2; exact ⟨WF_nil, hm⟩
    | cons r rs ih =>
      intro m m' ds hm h
      unfold Revolut2.rows at h
      obtain ⟨o, ho, h⟩ := Res.bind_eq_ok h
      cases o with
      | none => exact ih _ _ _ hm h
      | some x =>
        obtain ⟨t, k, bal⟩ := x
        simp only at h
        obtain ⟨⟨ds', m''⟩, hrec, h⟩ := Res.bind_eq_ok h
        simp at h
        obtain ⟨h1, h2⟩ := h
        subst h1 h2
        obtain ⟨hw, hk⟩ := hrow r t k bal ho
        obtain ⟨i1, i2⟩ := ih _ _ _ (hset m k bal hm hk) hrec
        exact ⟨WF_cons hw i1, i2⟩
  have hins : ∀ (e : (Int × Commodity) × Rat) (l : List ((Int × Commodity) × Rat)), ∀ x ∈ Revolut2.insertKey e l, x = e ∨ x ∈ l := by
    intro e l
    induction l with
    | nil => intro x hx; simp [Revolut2.insertKey] at hx; exact Or.inl hx
    | cons y l ih =>
      intro x hx
      unfold Revolut2.insertKey at hx
      split at hx
      · simp only [List.mem_cons] at hx
        rcases hx with hx | hx | hx
        · exact Or.inl hx
        · exact Or.inr (by simp [hx])
        · exact Or.inr (by simp [hx])
      · simp only [List.mem_cons] at hx
        rcases hx with hx | hx
        · exact Or.inr (by simp [hx])
        · rcases ih x hx with h | h
          · exact Or.inl h
          · exact Or.inr (by simp [h])
  have hsort : ∀ (m : List ((Int × Commodity) × Rat)), ∀ x ∈ Revolut2.sortKeys m, x ∈ m := by
    intro m
    induction m with
    | nil => intro x hx; simp [Revolut2.sortKeys] at hx
    | cons y m ih =>
      intro x hx
      have : Revolut2.sortKeys (y :: m) = Revolut2.insertKey y (Revolut2.sortKeys m) := by simp [Revolut2.sortKeys]
      rw [this] at hx
      rcases hins y _ x hx with h | h
      · simp [h]
      · simp [ih x h]
  unfold Revolut2.run at h
  cases recs with
  | nil => cases h
  | cons hd rs =>
    simp only at h
    split at h
    · cases h
    · split at h
      · cases h
      · obtain ⟨⟨ds', m⟩, hr, h⟩ := Res.bind_eq_ok h
        simp at h; subst h
        obtain ⟨h1, h2⟩ := hrows rs [] m ds' (by simp) hr
        refine WF_append h1 ?_
        intro d hd
        simp only [List.mem_map] at hd
        obtain ⟨e, he, hd⟩ := hd
        subst hd
        exact wf_assertion _ _ _ _ ha (h2 e (hsort m e he))

theorem revolut_wf (acct : Account) (ha : AccOK acct) (recs : List Rec) (ds : List Directive)
    (h : Revolut.run acct recs = .ok ds) : WF ds := by
  have hcombi : ∀ (f : String) (c : Commodity) (a : Rat), Revolut.combi f = .ok (c, a) → ComOK c := by
    intro f c a h
    unfold Revolut.combi at h
    split at h
    · obtain ⟨c1, hc1, h⟩ := Res.bind_eq_ok h
      obtain ⟨a1, ha1, h⟩ := Res.bind_eq_ok h
      simp at h
      rw [← h.1]; exact comOK_of_get hc1
    · cases h
  have hval := accOK_valuation ha
  have hrow : ∀ (cur : Commodity), ComOK cur → ∀ (n : Nat) (prev : Int) (r : Rec) (d : Int) (ds : List Directive),
      Revolut.row acct cur n prev r = .ok (d, ds) → WF ds := by
    intro cur hcur n prev r d ds h
    unfold Revolut.row at h
    split at h
    · cases h
    · split at h
      · cases h
      · obtain ⟨d', hd, h⟩ := Res.bind_eq_ok h
        obtain ⟨as, has, h⟩ := Res.bind_eq_ok h
        obtain ⟨q, hq, h⟩ := Res.bind_eq_ok h
        have has' : WF as := by
          split at has
          · obtain ⟨b, hb, has⟩ := Res.bind_eq_ok has
            simp at has; subst has
            exact WF_single (wf_assertion _ _ _ _ ha hcur)
          · simp at has; subst has; exact WF_nil
        simp only at h
        split at h
        · obtain ⟨⟨oc, oq⟩, hco, h⟩ := Res.bind_eq_ok h
          simp at h
          obtain ⟨_, h2⟩ := h
          subst h2
          have := hcombi _ _ _ hco
          exact WF_append has' (WF_single (mkTx_wf _ _ _ _ (by simp) (by simp [PBOK, ha, hval, hcur, this]) (by simp)))
        · split at h
          · obtain ⟨⟨oc, oq⟩, hco, h⟩ := Res.bind_eq_ok h
            simp at h
            obtain ⟨_, h2⟩ := h
            subst h2
            have := hcombi _ _ _ hco
            exact WF_append has' (WF_single (mkTx_wf _ _ _ _ (by simp) (by simp [PBOK, ha, hval, hcur, this]) (by simp)))
          · simp at h
            obtain ⟨_, h2⟩ := h
            subst h2
            exact WF_append has' (WF_single (mkTx_wf _ _ _ _ (by simp) (by simp [PBOK, ha, accOK_tbd, hcur]) (by simp)))
  have hrows : ∀ (cur : Commodity), ComOK cur → ∀ (n : Nat) (rs : List Rec) (prev : Int) (ds : List Directive),
      Revolut.rows acct cur n prev rs = .ok ds → WF ds := by
    intro cur hcur n rs
    induction rs with
    | nil => intro prev ds h; simp [Revolut.rows] at h; subst h; exact WF_nil
    | cons r rs ih =>
      intro prev ds h
      unfold Revolut.rows at h
      obtain ⟨⟨d, ds1⟩, hr, h⟩ := Res.bind_eq_ok h
      obtain ⟨ds2, hrec, h⟩ := Res.bind_eq_ok h
      simp at h; subst h
      exact WF_append (hrow cur hcur n prev r d ds1 hr) (ih d ds2 hrec)
  unfold Revolut.run at h
  cases recs with
  | nil => cases h
  | cons hd rs =>
    simp only at h
    split at h
    · cases h
    · split at h
      · cases h
      · obtain ⟨c, hc, h⟩ := Res.bind_eq_ok h
        exact hrows c (comOK_of_get hc) 9 rs 0 ds h

theorem wise_wf (acct feeAcct trading : Account) (ha : AccOK acct) (hf : AccOK feeAcct) (ht : AccOK trading)
    (recs : List Rec) (ds : List Directive) (h : Wise.run acct feeAcct trading recs = .ok ds) : WF ds := by
  have hfee : ∀ (amount currency : String) (ps : List PB), Wise.fee acct feeAcct amount currency = .ok ps → ∀ b ∈ ps, PBOK b := by
    intro amount currency ps h
    unfold Wise.fee at h
    split at h
    · split at h
      · cases h
      · split at h
        · simp at h; subst h; simp
        · obtain ⟨c, hc, h⟩ := Res.bind_eq_ok h
          simp at h; subst h
          simp [PBOK, ha, hf, comOK_of_must hc]
    · simp at h; subst h; simp
  unfold Wise.run at h
  cases recs with
  | nil => cases h
  | cons hd rs =>
    simp only at h
    split at h
    · cases h
    · split at h
      · cases h
      · refine mapRows_wf ?_ rs ds h
        intro r ds h
        unfold Wise.row at h
        split at h
        · cases h
        · obtain ⟨d, hd, h⟩ := Res.bind_eq_ok h
          split at h
          · simp at h; subst h; exact WF_nil
          · obtain ⟨f1, hf1, h⟩ := Res.bind_eq_ok h
            obtain ⟨f2, hf2, h⟩ := Res.bind_eq_ok h
            obtain ⟨sa, hsa, h⟩ := Res.bind_eq_ok h
            obtain ⟨ta, hta, h⟩ := Res.bind_eq_ok h
            obtain ⟨sc, hsc, h⟩ := Res.bind_eq_ok h
            obtain ⟨tc, htc, h⟩ := Res.bind_eq_ok h
            have c1 := comOK_of_must hsc
            have c2 := comOK_of_must htc
            have p1 := hfee _ _ _ hf1
            have p2 := hfee _ _ _ hf2
            have pb2 : ∀ (x y : PB), PBOK x → PBOK y → ∀ b ∈ f1 ++ (f2 ++ [x, y]), PBOK b := by
              intro x y hx hy b hb
              simp only [List.mem_append, List.mem_cons, List.not_mem_nil, or_false] at hb
              rcases hb with hb | hb | hb | hb
              · exact p1 b hb
              · exact p2 b hb
              · subst hb; exact hx
              · subst hb; exact hy
            have pb1 : ∀ (x : PB), PBOK x → ∀ b ∈ f1 ++ (f2 ++ [x]), PBOK b := by
              intro x hx b hb
              simp only [List.mem_append, List.mem_cons, List.not_mem_nil, or_false] at hb
              rcases hb with hb | hb | hb
              · exact p1 b hb
              · exact p2 b hb
              · subst hb; exact hx
            have hconv : ∀ desc, wellFormed alnum (mkTx d desc (f1 ++ (f2 ++ [⟨acct, trading, sc, sa⟩, ⟨trading, acct, tc, ta⟩]))) = true :=
              fun desc => mkTx_wf _ _ _ _ (by simp) (pb2 _ _ ⟨ha, ht, c1⟩ ⟨ht, ha, c2⟩) (by simp)
            simp only at h
            split at h
            · split at h
              · simp at h; subst h
                exact WF_cons (hconv _) (WF_single (mkTx_wf _ _ _ _ (by simp) (by simp [PBOK, ha, accOK_tbd, c2]) (by simp)))
              · split at h
                · simp at h; subst h
                  exact WF_cons (hconv _) (WF_single (mkTx_wf _ _ _ _ (by simp) (by simp [PBOK, ha, accOK_tbd, c2]) (by simp)))
                · split at h
                  · simp at h; subst h
                    exact WF_single (hconv _)
                  · cases h
            · split at h
              · simp at h; subst h
                exact WF_single (mkTx_wf _ _ _ _ (by simp) (pb1 _ ⟨ha, accOK_tbd, c1⟩) (by simp))
              · split at h
                · simp at h; subst h
                  exact WF_single (mkTx_wf _ _ _ _ (by simp) (pb1 _ ⟨accOK_tbd, ha, c1⟩) (by simp))
                · split at h
                  · simp at h; subst h; exact WF_nil
                  · cases h

theorem viac_wf (com : Commodity) (hcom : ComOK com) (fromDay : Int) : ∀ (es : List (String × String)) (ds : List Directive),
    Viac.run com fromDay es = .ok ds → WF ds := by
  intro es
  induction es with
  | nil => intro ds h; simp [Viac.run] at h; subst h; exact WF_nil
  | cons e es ih =>
    intro ds h
    unfold Viac.run at h
    obtain ⟨d1, h1, h⟩ := Res.bind_eq_ok h
    obtain ⟨d2, h2, h⟩ := Res.bind_eq_ok h
    simp at h; subst h
    refine WF_append ?_ (ih d2 h2)
    unfold Viac.entry at h1
    obtain ⟨d, hd, h1⟩ := Res.bind_eq_ok h1
    split at h1
    · simp at h1; subst h1; exact WF_nil
    · obtain ⟨v, hv, h1⟩ := Res.bind_eq_ok h1
      split at h1
      · simp at h1; subst h1; exact WF_nil
      · simp at h1; subst h1
        refine WF_single ?_
        unfold ComOK at hcom
        have : validName "CHF" alnum = true := comOK_chf
        simp [wellFormed, hcom, this]

/-! ## brokers -/

/-- all six flag accounts are valid names -/
structure AcctsValid (a : Swissquote.Accts) : Prop where
  account : AccOK a.account
  dividend : AccOK a.dividend
  tax : AccOK a.tax
  fee : AccOK a.fee
  interest : AccOK a.interest
  trading : AccOK a.trading

theorem swissquote_toRow_ok {l : Rec} {r : Swissquote.Row} (h : Swissquote.toRow l = .ok r) :
    ComOK r.currency ∧ ∀ s, r.symbol = some s → ComOK s := by
  unfold Swissquote.toRow at h
  obtain ⟨d, hd, h⟩ := Res.bind_eq_ok h
  obtain ⟨sym, hsym, h⟩ := Res.bind_eq_ok h
  obtain ⟨quantity, hq, h⟩ := Res.bind_eq_ok h
  obtain ⟨price, hp, h⟩ := Res.bind_eq_ok h
  obtain ⟨fee, hf, h⟩ := Res.bind_eq_ok h
  obtain ⟨interest, hi, h⟩ := Res.bind_eq_ok h
  obtain ⟨net, hn, h⟩ := Res.bind_eq_ok h
  obtain ⟨balance, hb, h⟩ := Res.bind_eq_ok h
  obtain ⟨currency, hc, h⟩ := Res.bind_eq_ok h
  simp at h; subst h
  refine ⟨comOK_of_get hc, ?_⟩
  intro s hs
  simp only at hs
  split at hsym
  · obtain ⟨c, hc', hsym⟩ := Res.bind_eq_ok hsym
    simp at hsym
    rw [← hsym] at hs
    simp at hs
    rw [← hs]; exact comOK_of_get hc'
  · simp at hsym; rw [← hsym] at hs; cases hs

theorem swissquote_wf (a : Swissquote.Accts) (v : AcctsValid a) (recs : List Rec) (ds : List Directive)
    (h : Swissquote.run a recs = .ok ds) : WF ds := by
  have hstep : ∀ (last : Option Swissquote.Row) (r : Swissquote.Row) (last' : Option Swissquote.Row) (ds : List Directive),
      (∀ l, last = some l → ComOK l.currency) → ComOK r.currency → (∀ s, r.symbol = some s → ComOK s) →
      Swissquote.step a last r = .ok (last', ds) → WF ds ∧ ∀ l, last' = some l → ComOK l.currency := by
    intro last r last' ds hl hc hs h
    unfold Swissquote.step at h
    split at h
    · split at h
      · cases h
      · rename_i sym hsym
        simp at h
        obtain ⟨h1, h2⟩ := h
        subst h1 h2
        have := hs sym hsym
        exact ⟨WF_single (mkTx_wf _ _ _ _ (by simp) (by simp [PBOK, v.account, v.trading, v.fee, hc, this])
          (by simp [hc, this])), hl⟩
    · split at h
      · split at h
        · simp at h
          obtain ⟨h1, h2⟩ := h
          subst h1 h2
          exact ⟨WF_nil, fun l hl' => by simp at hl'; subst hl'; exact hc⟩
        · rename_i _ l
          simp at h
          obtain ⟨h1, h2⟩ := h
          subst h1 h2
          have := hl l rfl
          exact ⟨WF_single (mkTx_wf _ _ _ _ (by simp) (by simp [PBOK, v.account, v.trading, hc, this])
            (by simp [hc, this])), fun l hl' => by simp at hl'⟩
      · split at h
        · cases h
        · split at h
          · split at h
            · cases h
            · rename_i sym hsym
              simp at h
              obtain ⟨h1, h2⟩ := h
              subst h1 h2
              have := hs sym hsym
              refine ⟨WF_single (mkTx_wf _ _ _ _ (by simp) ?_ (by simp [this])), fun l hl' => by simp at hl'⟩
              by_cases hz : r.fee = 0
              · simp [hz, PBOK, v.account, v.dividend, hc]
              · simp [hz, PBOK, v.account, v.dividend, v.tax, hc]
          · split at h
            · simp at h
              obtain ⟨h1, h2⟩ := h
              subst h1 h2
              exact ⟨WF_single (mkTx_wf _ _ _ _ (by simp) (by simp [PBOK, v.account, v.fee, hc]) (by simp)),
                fun l hl' => by simp at hl'⟩
            · split at h
              · simp at h
                obtain ⟨h1, h2⟩ := h
                subst h1 h2
                exact ⟨WF_single (mkTx_wf _ _ _ _ (by simp) (by simp [PBOK, v.account, accOK_tbd, hc]) (by simp)),
                  fun l hl' => by simp at hl'⟩
              · split at h
                · simp at h
                  obtain ⟨h1, h2⟩ := h
                  subst h1 h2
                  exact ⟨WF_single (mkTx_wf _ _ _ _ (by simp) (by simp [PBOK, v.account, v.interest, hc]) (by simp [hc])),
                    fun l hl' => by simp at hl'⟩
                · simp at h
                  obtain ⟨h1, h2⟩ := h
                  subst h1 h2
                  exact ⟨WF_single (mkTx_wf _ _ _ _ (by simp) (by simp [PBOK, v.account, accOK_tbd, hc]) (by simp)),
                    fun l hl' => by simp at hl'⟩
  have hrows : ∀ (ls : List Rec) (last : Option Swissquote.Row) (ds : List Directive), (∀ l, last = some l → ComOK l.currency) →
      Swissquote.rows a last ls = .ok ds → WF ds := by
    intro ls
    induction ls with
    | nil => intro last ds _ h; simp [Swissquote.rows] at h; subst h; exact WF_nil
    | cons l ls ih =>
      intro last ds hl h
      unfold Swissquote.rows at h
      split at h
      · cases h
      · obtain ⟨r, hr, h⟩ := Res.bind_eq_ok h
        obtain ⟨⟨last', ds1⟩, hst, h⟩ := Res.bind_eq_ok h
        obtain ⟨ds2, hrec, h⟩ := Res.bind_eq_ok h
        simp at h; subst h
        obtain ⟨hc, hs⟩ := swissquote_toRow_ok hr
        obtain ⟨w1, hl'⟩ := hstep last r last' ds1 hl hc hs hst
        exact WF_append w1 (ih last' ds2 hl' hrec)
  unfold Swissquote.run at h
  cases recs with
  | nil => cases h
  | cons hd ls =>
    simp only at h
    split at h
    · cases h
    · exact hrows ls none ds (fun l hl => by cases hl) h

/-- state invariant of the interactivebrokers reader: the base currency, once read, is a valid commodity -/
def StOK (st : IB.St) : Prop := ∀ b, st.base = some b → ComOK b

/-- a parser keeps the invariant and emits well-formed directives only -/
def Keeps (p : IB.St → Rec → Res IB.Out) : Prop :=
  ∀ st r st' ds, StOK st → p st r = .ok (some (st', ds)) → StOK st' ∧ WF ds

theorem comOK_fld {r : Rec} {i : Nat} {c : Commodity} (h : (fld r i).bind getCommodity = .ok c) : ComOK c :=
  comOK_of_get (fld_bind h)

theorem keeps_base : Keeps IB.parseBaseCurrency := by
  intro st r st' ds hst h
  unfold IB.parseBaseCurrency at h
  obtain ⟨b, hb, h⟩ := Res.bind_eq_ok h
  split at h
  · simp at h
  · obtain ⟨v, hv, h⟩ := Res.bind_eq_ok h
    obtain ⟨c, hc, h⟩ := Res.bind_eq_ok h
    simp at h
    obtain ⟨h1, h2⟩ := h
    subst h1 h2
    exact ⟨fun b hb => by simp at hb; subst hb; exact comOK_of_get hc, WF_nil⟩

theorem keeps_period : Keeps IB.parsePeriod := by
  intro st r st' ds hst h
  unfold IB.parsePeriod at h
  obtain ⟨b, hb, h⟩ := Res.bind_eq_ok h
  split at h
  · simp at h
  · obtain ⟨v, hv, h⟩ := Res.bind_eq_ok h
    obtain ⟨d0, hd0, h⟩ := Res.bind_eq_ok h
    obtain ⟨_, _, h⟩ := Res.bind_eq_ok h
    obtain ⟨d1, hd1, h⟩ := Res.bind_eq_ok h
    obtain ⟨dt, hdt, h⟩ := Res.bind_eq_ok h
    simp at h
    obtain ⟨h1, h2⟩ := h
    subst h1 h2
    exact ⟨fun b hb => hst b (by simpa using hb), WF_nil⟩

theorem keeps_forex (a : Swissquote.Accts) (v : AcctsValid a) : Keeps (IB.parseForex a) := by
  intro st r st' ds hst h
  unfold IB.parseForex at h
  obtain ⟨b, hb, h⟩ := Res.bind_eq_ok h
  split at h
  · simp at h
  · split at h
    · cases h
    · rename_i base hbase
      obtain ⟨cur, hcur, h⟩ := Res.bind_eq_ok h
      obtain ⟨sym, hsym, h⟩ := Res.bind_eq_ok h
      obtain ⟨stock, hstock, h⟩ := Res.bind_eq_ok h
      obtain ⟨d, hd, h⟩ := Res.bind_eq_ok h
      obtain ⟨qty, hqty, h⟩ := Res.bind_eq_ok h
      obtain ⟨price, hprice, h⟩ := Res.bind_eq_ok h
      obtain ⟨proceeds, hproc, h⟩ := Res.bind_eq_ok h
      obtain ⟨fee, hfee, h⟩ := Res.bind_eq_ok h
      simp at h
      obtain ⟨h1, h2⟩ := h
      subst h1 h2
      have c1 := comOK_fld hcur
      have c2 := comOK_of_get hstock
      have c3 := hst base hbase
      refine ⟨hst, WF_single (mkTx_wf _ _ _ _ (by simp) ?_ (by simp [c1, c2]))⟩
      by_cases hz : fee = 0
      · simp [hz, PBOK, v.account, v.trading, c1, c2]
      · simp [hz, PBOK, v.account, v.trading, v.fee, c1, c2, c3]

theorem keeps_trade (a : Swissquote.Accts) (v : AcctsValid a) : Keeps (IB.parseTrade a) := by
  intro st r st' ds hst h
  unfold IB.parseTrade at h
  obtain ⟨b, hb, h⟩ := Res.bind_eq_ok h
  split at h
  · simp at h
  · obtain ⟨cur, hcur, h⟩ := Res.bind_eq_ok h
    obtain ⟨stock, hstock, h⟩ := Res.bind_eq_ok h
    obtain ⟨d, hd, h⟩ := Res.bind_eq_ok h
    obtain ⟨qty, hqty, h⟩ := Res.bind_eq_ok h
    obtain ⟨price, hprice, h⟩ := Res.bind_eq_ok h
    obtain ⟨proceeds, hproc, h⟩ := Res.bind_eq_ok h
    obtain ⟨fee, hfee, h⟩ := Res.bind_eq_ok h
    simp at h
    obtain ⟨h1, h2⟩ := h
    subst h1 h2
    have c1 := comOK_fld hcur
    have c2 := comOK_fld hstock
    exact ⟨hst, WF_single (mkTx_wf _ _ _ _ (by simp) (by simp [PBOK, v.account, v.trading, v.fee, c1, c2]) (by simp [c1, c2]))⟩

theorem keeps_deposit (a : Swissquote.Accts) (v : AcctsValid a) : Keeps (IB.parseDeposit a) := by
  intro st r st' ds hst h
  unfold IB.parseDeposit at h
  obtain ⟨b, hb, h⟩ := Res.bind_eq_ok h
  split at h
  · simp at h
  · obtain ⟨cur, hcur, h⟩ := Res.bind_eq_ok h
    obtain ⟨d, hd, h⟩ := Res.bind_eq_ok h
    obtain ⟨q, hq, h⟩ := Res.bind_eq_ok h
    simp at h
    obtain ⟨h1, h2⟩ := h
    subst h1 h2
    have c1 := comOK_fld hcur
    exact ⟨hst, WF_single (mkTx_wf _ _ _ _ (by simp) (by simp [PBOK, v.account, accOK_tbd, c1]) (by simp))⟩

theorem mem_takeWhile_imp {α : Type} (p : α → Bool) : ∀ (l : List α) (x : α), x ∈ l.takeWhile p → p x = true := by
  intro l
  induction l with
  | nil => intro x hx; simp at hx
  | cons a l ih =>
    intro x hx
    simp only [List.takeWhile_cons] at hx
    split at hx
    · simp only [List.mem_cons] at hx
      rcases hx with hx | hx
      · subst hx; assumption
      · exact ih x hx
    · simp at hx

theorem firstAlnumRun_ok (s : String) (h : firstAlnumRun s ≠ "") : ComOK (firstAlnumRun s) := by
  unfold ComOK validName
  have hall : (firstAlnumRun s).toList.all (fun c => alnum c.toNat) = true := by
    unfold firstAlnumRun
    simp only [String.toList_ofList, List.all_eq_true]
    intro c hc
    have := mem_takeWhile_imp _ _ _ hc
    -- ASCII letters and digits are alphanumeric for the registry
    have hascii : ∀ n : Fin 128, (isAlnumA (Char.ofNat n.val) = true → alnum n.val = true) := by decide +kernel
    have hlt : c.toNat < 128 := by
      unfold isAlnumA isAlphaA isDig at this
      simp only [Bool.or_eq_true, Bool.and_eq_true, decide_eq_true_eq] at this
      rcases this with (⟨_, h2⟩ | ⟨_, h2⟩) | ⟨_, h2⟩ <;> exact Nat.lt_of_le_of_lt h2 (by decide)
    have := hascii ⟨c.toNat, hlt⟩ (by simpa [Char.ofNat_toNat] using this)
    exact this
  have hne : (firstAlnumRun s).isEmpty = false := by
    cases hb : (firstAlnumRun s).isEmpty with
    | false => rfl
    | true => exact absurd (by simpa [String.isEmpty_iff] using hb) h
  simp [hne, hall]

theorem keeps_dividend (a : Swissquote.Accts) (v : AcctsValid a) : Keeps (IB.parseDividend a) := by
  intro st r st' ds hst h
  unfold IB.parseDividend at h
  obtain ⟨b, hb, h⟩ := Res.bind_eq_ok h
  split at h
  · simp at h
  · obtain ⟨cur, hcur, h⟩ := Res.bind_eq_ok h
    obtain ⟨d, hd, h⟩ := Res.bind_eq_ok h
    obtain ⟨q, hq, h⟩ := Res.bind_eq_ok h
    obtain ⟨desc, hdesc, h⟩ := Res.bind_eq_ok h
    simp only at h
    split at h
    · cases h
    · rename_i hsym
      simp at h
      obtain ⟨h1, h2⟩ := h
      subst h1 h2
      have c1 := comOK_fld hcur
      have c2 := firstAlnumRun_ok desc hsym
      exact ⟨hst, WF_single (mkTx_wf _ _ _ _ (by simp) (by simp [PBOK, v.account, v.dividend, c1]) (by simp [c2]))⟩

theorem keeps_interest (a : Swissquote.Accts) (v : AcctsValid a) : Keeps (IB.parseInterest a) := by
  intro st r st' ds hst h
  unfold IB.parseInterest at h
  obtain ⟨b, hb, h⟩ := Res.bind_eq_ok h
  split at h
  · simp at h
  · obtain ⟨cur, hcur, h⟩ := Res.bind_eq_ok h
    obtain ⟨d, hd, h⟩ := Res.bind_eq_ok h
    obtain ⟨q, hq, h⟩ := Res.bind_eq_ok h
    obtain ⟨desc, hdesc, h⟩ := Res.bind_eq_ok h
    simp at h
    obtain ⟨h1, h2⟩ := h
    subst h1 h2
    have c1 := comOK_fld hcur
    exact ⟨hst, WF_single (mkTx_wf _ _ _ _ (by simp) (by simp [PBOK, v.account, v.interest, c1]) (by simp [c1]))⟩

theorem keeps_withholding (a : Swissquote.Accts) (v : AcctsValid a) : Keeps (IB.parseWithholdingTax a) := by
  intro st r st' ds hst h
  unfold IB.parseWithholdingTax at h
  obtain ⟨b, hb, h⟩ := Res.bind_eq_ok h
  split at h
  · simp at h
  · obtain ⟨desc, hdesc, h⟩ := Res.bind_eq_ok h
    obtain ⟨cur, hcur, h⟩ := Res.bind_eq_ok h
    obtain ⟨d, hd, h⟩ := Res.bind_eq_ok h
    obtain ⟨q, hq, h⟩ := Res.bind_eq_ok h
    simp only at h
    split at h
    · cases h
    · rename_i hsym
      simp at h
      obtain ⟨h1, h2⟩ := h
      subst h1 h2
      have c1 := comOK_fld hcur
      have c2 := firstAlnumRun_ok desc hsym
      exact ⟨hst, WF_single (mkTx_wf _ _ _ _ (by simp) (by simp [PBOK, v.account, v.tax, c1]) (by simp [c2]))⟩

theorem keeps_positions (a : Swissquote.Accts) (v : AcctsValid a) : Keeps (IB.createAssertions a) := by
  intro st r st' ds hst h
  unfold IB.createAssertions at h
  obtain ⟨b, hb, h⟩ := Res.bind_eq_ok h
  split at h
  · simp at h
  · split at h
    · cases h
    · obtain ⟨sym, hsym, h⟩ := Res.bind_eq_ok h
      obtain ⟨q, hq, h⟩ := Res.bind_eq_ok h
      simp at h
      obtain ⟨h1, h2⟩ := h
      subst h1 h2
      exact ⟨hst, WF_single (wf_assertion _ _ _ _ v.account (comOK_fld hsym))⟩

theorem keeps_forexBalances (a : Swissquote.Accts) (v : AcctsValid a) : Keeps (IB.createCurrencyAssertions a) := by
  intro st r st' ds hst h
  unfold IB.createCurrencyAssertions at h
  obtain ⟨b, hb, h⟩ := Res.bind_eq_ok h
  split at h
  · simp at h
  · split at h
    · cases h
    · obtain ⟨sym, hsym, h⟩ := Res.bind_eq_ok h
      obtain ⟨q, hq, h⟩ := Res.bind_eq_ok h
      simp at h
      obtain ⟨h1, h2⟩ := h
      subst h1 h2
      exact ⟨hst, WF_single (wf_assertion _ _ _ _ v.account (comOK_fld hsym))⟩

theorem tryAll_keeps {ps : List (IB.St → Rec → Res IB.Out)} (h : ∀ p ∈ ps, Keeps p) (st : IB.St) (r : Rec) (st' : IB.St)
    (ds : List Directive) (hst : StOK st) (hrun : IB.tryAll ps st r = .ok (st', ds)) : StOK st' ∧ WF ds := by
  induction ps with
  | nil => simp [IB.tryAll] at hrun; obtain ⟨h1, h2⟩ := hrun; subst h1 h2; exact ⟨hst, WF_nil⟩
  | cons p ps ih =>
    unfold IB.tryAll at hrun
    obtain ⟨o, ho, hrun⟩ := Res.bind_eq_ok hrun
    cases o with
    | some x =>
      obtain ⟨st1, ds1⟩ := x
      simp at hrun
      obtain ⟨h1, h2⟩ := hrun
      subst h1 h2
      exact h p (by simp) st r _ _ hst ho
    | none => exact ih (fun q hq => h q (by simp [hq])) hrun

theorem interactivebrokers_wf (a : Swissquote.Accts) (v : AcctsValid a) (recs : List Rec) (ds : List Directive)
    (h : IB.run a recs = .ok ds) : WF ds := by
  have hall : ∀ p ∈ IB.parsers a, Keeps p := by
    intro p hp
    simp only [IB.parsers, List.mem_cons, List.not_mem_nil, or_false] at hp
    rcases hp with rfl | rfl | rfl | rfl | rfl | rfl | rfl | rfl | rfl | rfl
    · exact keeps_base
    · exact keeps_period
    · exact keeps_forex a v
    · exact keeps_trade a v
    · exact keeps_deposit a v
    · exact keeps_dividend a v
    · exact keeps_interest a v
    · exact keeps_withholding a v
    · exact keeps_positions a v
    · exact keeps_forexBalances a v
  have hrows : ∀ (rs : List Rec) (st : IB.St) (ds : List Directive), StOK st → IB.run' a st rs = .ok ds → WF ds := by
    intro rs
    induction rs with
    | nil => intro st ds _ h; simp [IB.run'] at h; subst h; exact WF_nil
    | cons r rs ih =>
      intro st ds hst h
      unfold IB.run' at h
      obtain ⟨⟨st1, ds1⟩, hstep, h⟩ := Res.bind_eq_ok h
      obtain ⟨ds2, hrec, h⟩ := Res.bind_eq_ok h
      simp at h; subst h
      obtain ⟨h1, h2⟩ := tryAll_keeps hall st r st1 ds1 hst hstep
      exact WF_append h2 (ih st1 ds2 h1 hrec)
  exact hrows recs {} ds (fun b hb => by simp at hb) h

end Knut.Proofs.Import
