import Knut.Proofs.MTMPos
/-!
# C03: the rendered rows of a report with `-s` (commodity column; per-commodity lines)

With `-s regex` the table has a commodity column.  A row whose account name does not match keeps one value line
(`nodeRows_valued_dc`); a row whose account name matches shows one line per commodity with a non-zero sum in some
column (`nodeRows_show`): the line of commodity `c` shows the per-column sums of the inserts in `c` (running totals in a
cumulative report), and a commodity without a line has all per-column sums zero.
-/
namespace Knut.MTM
open Knut Knut.Dec
open Knut.Table (Cell)
open Knut.BalanceReport

/-- the numeric cells of one value line of `Renderer.render` -/
def numCells (diff neg : Bool) (ends : List Int) (f : Int → Rat) : List Cell :=
  (ends.foldl (fun (acc : List Cell × Rat) d =>
      let v := f d
      let (shown, total) := if diff then (v, acc.2) else (acc.2 + v, acc.2 + v)
      (acc.1 ++ [Cell.num (if neg then -shown else shown)], total)) ([], 0)).1

/-- what column `k` of a value line shows -/
def shownAt (diff : Bool) (ends : List Int) (f : Int → Rat) (k : Nat) : Rat :=
  if diff then f (ends.getD k 0) else ((ends.take (k + 1)).map f).sum

theorem numCells_false (neg : Bool) (ends : List Int) (f : Int → Rat) :
    numCells false neg ends f = (cumList f 0 ends).map (fun x => Cell.num (if neg then -x else x)) := by
  have h := nums_cumulative neg f ends [] 0
  rw [List.nil_append] at h
  exact h

theorem numCells_true (neg : Bool) (ends : List Int) (f : Int → Rat) :
    numCells true neg ends f = ends.map (fun d => Cell.num (if neg then -(f d) else f d)) := by
  have h := nums_diff neg f ends [] 0
  rw [List.nil_append] at h
  exact h

theorem numCells_spec (diff neg : Bool) (ends : List Int) (f : Int → Rat) :
    (numCells diff neg ends f).length = ends.length ∧
    ∀ (k : Nat) (hk : k < ends.length) (hk' : k < (numCells diff neg ends f).length),
      cellVal (numCells diff neg ends f)[k] = (if neg then -(shownAt diff ends f k) else shownAt diff ends f k) := by
  cases diff with
  | false =>
    generalize hX : numCells false neg ends f = X
    rw [numCells_false] at hX
    subst hX
    refine ⟨by rw [List.length_map, cumList_length], ?_⟩
    intro k hk hk'
    rw [List.getElem_map, cumList_getElem _ _ _ _ hk, Rat.zero_add]
    unfold shownAt
    simp only [Bool.false_eq_true, if_false]
    cases neg <;> rfl
  | true =>
    generalize hX : numCells true neg ends f = X
    rw [numCells_true] at hX
    subst hX
    refine ⟨by rw [List.length_map], ?_⟩
    intro k hk hk'
    rw [List.getElem_map]
    unfold shownAt
    simp only [if_true, List.getD_eq_getElem?_getD, List.getElem?_eq_getElem hk, Option.getD_some]
    cases neg <;> rfl

/-- the commodity cell of a value line -/
def commCellOf (rc : RenderCfg) (c : Option Commodity) : Cell :=
  match c with
  | some x => Cell.text x.toList .left 0
  | none => match rc.valuation with
    | some v => Cell.text v.toList .left 0
    | none => Cell.empty

theorem renderVals_eq (rc : RenderCfg) (dc : Bool) (indent : Nat) (name : String) (neg : Bool)
    (coms : List (Option Commodity)) (cell : Option Commodity → Int → Rat) :
    renderVals rc dc indent name neg coms cell =
      if coms.isEmpty then
        [Cell.text name.toList .left indent :: List.replicate ((if dc then 1 else 0) + rc.endDates.length) .empty]
      else
        coms.zipIdx.map (fun (c, i) =>
          (if i = 0 then Cell.text name.toList .left indent else Cell.empty) ::
            (if dc then [commCellOf rc c] else []) ++ numCells rc.diff neg rc.endDates (cell c)) := by
  unfold renderVals
  simp only
  split
  · have : 1 + (if dc = true then 1 else 0) + rc.endDates.length - 1 = (if dc = true then 1 else 0) + rc.endDates.length := by
      omega
    rw [this]
  · rfl

/-! ### one value line, with or without the commodity column -/

/-- **the row of an account whose name `-s` does not match, in a valued report**: one row: name cell, the commodity
cell if the table has the column, then one cell per column showing `shownAt` (per-column sums in a `--diff` report,
running totals otherwise; sign flipped in the income/expense/equity section) -/
theorem nodeRows_valued_dc (rc : RenderCfg) (dc : Bool) (hv : rc.valuation.isSome = true) (es : List Entry) (neg : Bool)
    (path : List String) (indent : Nat) (hshow : rc.showCommodities (⟨path⟩ : Account).name = false) :
    ∃ (cc cells : List Cell),
      nodeRows rc dc es neg (path, indent) = [Cell.text (path.getLast?.getD "").toList .left indent :: (cc ++ cells)] ∧
      cc.length = (if dc then 1 else 0) ∧
      cells.length = rc.endDates.length ∧
      ∀ (k : Nat) (hk : k < rc.endDates.length) (hk' : k < cells.length),
        cellVal cells[k] =
          (if neg then -(shownAt rc.diff rc.endDates (cellAt (own es path) false none) k)
           else shownAt rc.diff rc.endDates (cellAt (own es path) false none) k) := by
  unfold nodeRows
  have hby : (rc.valuation.isNone || rc.showCommodities (⟨path⟩ : Account).name) = false := by
    rw [hshow]
    cases hval : rc.valuation with
    | none => rw [hval] at hv; cases hv
    | some x => rfl
  simp only [hby]
  generalize own es path = mine
  rw [renderVals_eq]
  rcases valsCommodities_valued mine with ⟨h0, hz⟩ | h1
  · rw [h0]
    simp only [List.isEmpty_nil, if_true]
    refine ⟨List.replicate (if dc then 1 else 0) .empty, List.replicate rc.endDates.length .empty, ?_,
      List.length_replicate, List.length_replicate, ?_⟩
    · rw [List.replicate_append_replicate]
    · intro k hk hk'
      rw [List.getElem_replicate]
      have : shownAt rc.diff rc.endDates (cellAt mine false none) k = 0 := by
        unfold shownAt
        split
        · exact hz _
        · exact sum_map_zero _ _ (fun d _ => hz d)
      rw [this]
      split
      · show (0 : Rat) = -0; grind
      · rfl
  · rw [h1]
    simp only [List.isEmpty_cons, Bool.false_eq_true, if_false, List.zipIdx_cons, List.zipIdx_nil, List.map_cons,
      List.map_nil, if_true]
    obtain ⟨n1, n2⟩ := numCells_spec rc.diff neg rc.endDates (cellAt mine false none)
    refine ⟨if dc then [commCellOf rc none] else [], numCells rc.diff neg rc.endDates (cellAt mine false none), rfl, ?_, n1, ?_⟩
    · cases dc <;> rfl
    · intro k hk hk'
      exact n2 k hk hk'

/-! ### per-commodity lines -/

theorem valsCommodities_some (es : List Entry) : ∀ x ∈ valsCommodities es true, ∃ c, x = some c := by
  intro x hx
  unfold valsCommodities at hx
  simp only [if_true] at hx
  rw [(List.mergeSort_perm _ _).mem_iff, List.mem_eraseDups] at hx
  obtain ⟨k, hk, rfl⟩ := List.mem_map.mp hx
  have hk' := (List.mem_filter.mp hk).1
  rw [List.mem_eraseDups] at hk'
  obtain ⟨e, _, rfl⟩ := List.mem_map.mp hk'
  exact ⟨e.commodity, rfl⟩

/-- a commodity without a line has all per-column sums zero -/
theorem valsCommodities_zero (es : List Entry) (c : Commodity) (h : some c ∉ valsCommodities es true) :
    ∀ d, cellAt es true (some c) d = 0 := by
  intro d
  apply Classical.byContradiction
  intro hne
  apply h
  unfold valsCommodities
  simp only [if_true]
  rw [(List.mergeSort_perm _ _).mem_iff, List.mem_eraseDups]
  refine List.mem_map.mpr ⟨(some d, some c), ?_, rfl⟩
  rw [List.mem_filter]
  constructor
  · rw [List.mem_eraseDups]
    -- some insert carries the key, otherwise the sum is empty
    apply Classical.byContradiction
    intro hno
    apply hne
    unfold cellAt
    have : es.filter (fun e => decide (e.date = some d) && decide ((if true = true then some e.commodity else none) = some c)) = [] := by
      rw [List.filter_eq_nil_iff]
      intro e he hc
      apply hno
      simp only [if_true, Bool.and_eq_true, decide_eq_true_eq, Option.some.injEq] at hc
      exact List.mem_map.mpr ⟨e, he, by rw [hc.1, hc.2]⟩
    rw [this]
    rfl
  · unfold cellAt at hne
    simpa using hne

theorem cell_text_inj {x c : Commodity} (h : Cell.text x.toList .left 0 = Cell.text c.toList .left 0) : x = c := by
  injection h with h1 _ _
  exact String.toList_inj.mp h1

/-- **the lines of an account whose name `-s` matches, in a valued report**: the block of rows starts with the name cell;
every line of commodity `c` in it shows `shownAt` of the per-column sums of the inserts in `c`; a commodity without a
line has all per-column sums zero -/
theorem nodeRows_show (rc : RenderCfg) (es : List Entry) (neg : Bool)
    (path : List String) (indent : Nat) (hshow : rc.showCommodities (⟨path⟩ : Account).name = true) :
    (∃ rest tail, nodeRows rc true es neg (path, indent) =
      (Cell.text (path.getLast?.getD "").toList .left indent :: rest) :: tail) ∧
    (∀ (c : Commodity) (first : Cell) (cells : List Cell),
      (first :: Cell.text c.toList .left 0 :: cells) ∈ nodeRows rc true es neg (path, indent) →
      cells.length = rc.endDates.length ∧
      ∀ (k : Nat) (hk : k < rc.endDates.length) (hk' : k < cells.length),
        cellVal cells[k] =
          (if neg then -(shownAt rc.diff rc.endDates (cellAt (own es path) true (some c)) k)
           else shownAt rc.diff rc.endDates (cellAt (own es path) true (some c)) k)) ∧
    (∀ (c : Commodity), (∀ (first : Cell) (cells : List Cell),
        (first :: Cell.text c.toList .left 0 :: cells) ∉ nodeRows rc true es neg (path, indent)) →
      ∀ d, cellAt (own es path) true (some c) d = 0) := by
  unfold nodeRows
  have hby : (rc.valuation.isNone || rc.showCommodities (⟨path⟩ : Account).name) = true := by rw [hshow]; simp
  simp only [hby]
  generalize own es path = mine
  rw [renderVals_eq]
  generalize hcoms : valsCommodities mine true = coms
  have hsome : ∀ x ∈ coms, ∃ c, x = some c := by rw [← hcoms]; exact valsCommodities_some mine
  cases coms with
  | nil =>
    simp only [List.isEmpty_nil, if_true]
    refine ⟨⟨_, [], rfl⟩, ?_, ?_⟩
    · intro c first cells hm
      rw [List.mem_singleton] at hm
      injection hm with _ h2
      rw [← List.replicate_append_replicate] at h2
      simp only [List.replicate_one, List.singleton_append] at h2
      injection h2 with h3 _
      cases h3
    · intro c _ d
      exact valsCommodities_zero mine c (by rw [hcoms]; exact List.not_mem_nil) d
  | cons c0 crest =>
    simp only [List.isEmpty_cons, Bool.false_eq_true, if_false, if_true]
    refine ⟨⟨_, _, by rw [List.zipIdx_cons, List.map_cons]; rfl⟩, ?_, ?_⟩
    · intro c first cells hm
      obtain ⟨⟨x, i⟩, hxi, hrow⟩ := List.mem_map.mp hm
      simp only at hrow
      injection hrow with _ h2
      injection h2 with h3 h4
      have hx : x ∈ c0 :: crest := by
        have := List.mem_zipIdx hxi
        rw [this.2.2]
        exact List.getElem_mem _
      obtain ⟨x', rfl⟩ := hsome x hx
      have hxc : x' = c := cell_text_inj h3
      subst hxc
      obtain ⟨n1, n2⟩ := numCells_spec rc.diff neg rc.endDates (cellAt mine true (some x'))
      rw [← h4]
      exact ⟨n1, n2⟩
    · intro c hno d
      apply valsCommodities_zero mine c _ d
      rw [hcoms]
      intro hmem
      obtain ⟨i, hi, hget⟩ := List.mem_iff_getElem.mp hmem
      have hz : (some c, i) ∈ (c0 :: crest).zipIdx := by
        rw [List.mem_zipIdx_iff_getElem?]
        rw [List.getElem?_eq_getElem hi, hget]
      exact hno _ _ (List.mem_map.mpr ⟨(some c, i), hz, rfl⟩)

/-! ### per-commodity sums as running totals of a position -/

theorem cellAt_com (es : List Entry) (c : Commodity) (d : Int) :
    cellAt es true (some c) d = cellAt (es.filter (fun e => decide (e.commodity = c))) false none d := by
  unfold cellAt
  rw [List.filter_filter]
  congr 1
  apply List.filter_congr
  intro e _
  by_cases h1 : e.date = some d <;> by_cases h2 : e.commodity = c <;> simp [h1, h2]

theorem own_filter (es : List Entry) (p : Entry → Bool) (path : List String) :
    own (es.filter p) path = (own es path).filter p := by
  unfold own
  rw [List.filter_filter, List.filter_filter]
  apply List.filter_congr
  intro e _
  exact Bool.and_comm _ _

theorem accCum_filter_com (a : Account) (c : Commodity) (es : List Entry) (D : Int) :
    accCum a (es.filter (fun e => decide (e.commodity = c))) D = posCum a c es D := by
  unfold accCum posCum selCum posQ dateLe
  rw [List.filter_filter]
  congr 1
  apply List.filter_congr
  intro e _
  by_cases h1 : e.account = a <;> by_cases h2 : e.commodity = c <;> simp [h1, h2] <;> rfl

/-! ### what a column shows, as a difference of running totals -/

/-- the eve of column `k`: in a `--diff` report the previous period end (the day before the window start for the first
column), in a cumulative report the day before the window start -/
def eveOf (diff : Bool) (start : Int) (ends : List Int) (k : Nat) : Int :=
  if diff then (match k with | 0 => start - 1 | j + 1 => ends.getD j 0) else start - 1

theorem rat_sub_zero' (x : Rat) : x - 0 = x := by grind

/-- **a column of an account row shows the running total at its period end minus the running total at its eve** -/
theorem shownAt_delta (a : Account) (es : List Entry) (ends : List Int) (hinc : List.Pairwise (· < ·) ends)
    (hdates : ∀ e ∈ es, e.account = a → ∀ D', e.date = some D' → D' ∈ ends) (diff : Bool) (start : Int)
    (hz : accCum a es (start - 1) = 0) (k : Nat) (hk : k < ends.length) :
    shownAt diff ends (cellAt (own es a.segments) false none) k =
      accCum a es ends[k] - accCum a es (eveOf diff start ends k) := by
  unfold shownAt eveOf
  cases diff with
  | false =>
    simp only [Bool.false_eq_true, if_false]
    rw [cum_eq_accCum a es ends hinc hdates k hk, hz, rat_sub_zero']
  | true =>
    simp only [if_true, List.getD_eq_getElem?_getD, List.getElem?_eq_getElem hk, Option.getD_some]
    cases k with
    | zero =>
      simp only
      rw [diff_eq_accCum_zero a es ends hinc hdates hk, hz, rat_sub_zero']
    | succ j =>
      have hj : j < ends.length := by omega
      simp only [List.getElem?_eq_getElem hj, Option.getD_some]
      exact diff_eq_accCum_sub a es ends hinc hdates j hk

theorem eveOf_isEve (cfg : BalCfg) (ends : List Int) (he : cfg.periods.map (·.stop) = ends)
    (hinc : List.Pairwise (· < ·) ends) (hin : ∀ D ∈ ends, cfg.span.contains D = true) (diff : Bool)
    (k : Nat) (hk : k < ends.length) : IsEve cfg (eveOf diff cfg.span.start ends k) ends[k] := by
  unfold eveOf IsEve
  cases diff with
  | false => left; rfl
  | true =>
    cases k with
    | zero => left; rfl
    | succ j =>
      right
      have hj : j < ends.length := by omega
      simp only [if_true, List.getD_eq_getElem?_getD, List.getElem?_eq_getElem hj, Option.getD_some]
      refine ⟨by rw [he]; exact List.getElem_mem hj, ?_, hin _ (List.getElem_mem hj)⟩
      exact List.pairwise_iff_getElem.mp hinc j (j + 1) hj hk (by omega)

theorem posCum_al (a : Account) (hal : a.isAL = true) (c : Commodity) (es : List Entry) (D : Int) :
    posCum a c (es.filter (fun e => e.account.isAL)) D = posCum a c es D := by
  unfold posCum selCum
  rw [List.filter_filter]
  congr 1
  apply List.filter_congr
  intro e _
  by_cases h : e.account = a
  · simp [h, hal]
  · simp [h]

/-- **a column of a commodity line shows the running total of the position at the period end minus that at the eve** -/
theorem shownAt_delta_pos (a : Account) (c : Commodity) (es : List Entry) (ends : List Int)
    (hinc : List.Pairwise (· < ·) ends)
    (hdates : ∀ e ∈ es, e.account = a → ∀ D', e.date = some D' → D' ∈ ends) (diff : Bool) (start : Int)
    (hz : posCum a c es (start - 1) = 0) (k : Nat) (hk : k < ends.length) :
    shownAt diff ends (cellAt (own es a.segments) true (some c)) k =
      posCum a c es ends[k] - posCum a c es (eveOf diff start ends k) := by
  have hfun : cellAt (own es a.segments) true (some c) =
      cellAt (own (es.filter (fun e => decide (e.commodity = c))) a.segments) false none := by
    funext d
    rw [cellAt_com, own_filter]
  rw [hfun, shownAt_delta a (es.filter (fun e => decide (e.commodity = c))) ends hinc
    (fun e he => hdates e (List.mem_filter.mp he).1) diff start (by rw [accCum_filter_com]; exact hz) k hk,
    accCum_filter_com, accCum_filter_com]

end Knut.MTM
