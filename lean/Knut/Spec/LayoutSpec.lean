import Knut.Model.Commands
/-!
# C05 at the level a user sees it: from the files on disk to the bytes on standard output

`journalOf fs root` is the list of model directives the commands work on: the recursive loader (`Loader.load` with the
parser model) returns the files, `elabFile` (`model.FromStream`, accrual expansion included) turns each of them into
directives, and the lists are concatenated in the loader's order. `Commands.fromPath` is this function
(`fromPath_eq_journalOf`, by definition); `checkOn`, `balanceOn`, `printOn` are what `check`, `balance` and `print` do
with the directive list, so that `Cmd.run c fs f` factors through `journalOf` (`Proofs/LayoutFactor.lean`).

`PrintEquiv` is the relation between two printed journals the property grants to `print`: the same days, per day the
same directives per kind as multisets, and the transactions — which `journal.Print` sorts — in the same order up to
transactions that `transaction.Compare` does not distinguish.
-/
namespace Knut.Layout
open Knut Knut.Loader Knut.Commands

/-- a loaded file: its path, its bytes and its syntax tree -/
abbrev LoadedFile := Path × (Commands.Bytes × Syntax.File)

/-- `model.FromStream` on the loaded files in the given order, concatenated -/
def journalOfFiles (files : List LoadedFile) : Except CmdOutcome (List Directive) :=
  (files.mapM (fun pf => elabFile pf.2)).map List.flatten

/-- **the directives of the journal rooted at `root`**, in the order `Cmd.run` uses: load (includes followed
recursively), elaborate every file, concatenate. `.error` carries the outcome of the failing command. -/
def journalOf (fs : FileSys) (root : Path) : Except CmdOutcome (List Directive) :=
  match load fs parseForLoader root with
  | .error _ => .error (.error "loading")
  | .ok files => journalOfFiles files

/-- `knut check [--write]` on the directives -/
def checkOn (write : Bool) (ds : List Directive) : CmdOutcome :=
  match checkWrite {} (Builder.ofList ds).build with
  | .error _ => .error "processing"
  | .ok as => if write then .ok (JournalPrinter.print (Builder.ofList as).build) else .ok ""

/-- `knut balance <flags>` on the directives (the valuation flag is examined first) -/
def balanceOn (bf : BalanceFlags) (ds : Except CmdOutcome (List Directive)) : CmdOutcome :=
  match commodityFlag bf.valuation with
  | .error o => o
  | .ok v =>
    match ds with
    | .error o => o
    | .ok ds => BalanceCmd.run { bf with valuation := v } ds

/-- `knut print` on the directives -/
def printOn (ds : List Directive) : CmdOutcome :=
  match Check.run (Builder.ofList ds).build with
  | .error _ => .error "processing"
  | .ok _ => .ok (JournalPrinter.print (Builder.ofList ds).build)

/-- what `check`, `balance` and `print` do once the journal is read: they see the file system through `journalOf`
only, and of the flags everything but the path -/
def onJournal (c : Command) (f : Flags) (j : Except CmdOutcome (List Directive)) : CmdOutcome :=
  match c with
  | .check => (match j with | .error o => o | .ok ds => checkOn f.write ds)
  | .balance => balanceOn f.balance j
  | .print => (match j with | .error o => o | .ok ds => printOn ds)
  | _ => .error "not a journal command"

/-- what `journal.Print` may change between two layouts, for one day -/
structure DayPrintEquiv (d d' : Day) : Prop where
  date : d.date = d'.date
  prices : d.prices.Perm d'.prices
  openings : d.openings.Perm d'.openings
  assertions : d.assertions.Perm d'.assertions
  closings : d.closings.Perm d'.closings
  /-- the same transactions … -/
  txs : (JournalPrinter.sortTxs d.transactions).Perm (JournalPrinter.sortTxs d'.transactions)
  /-- … printed in the same order up to transactions that compare equal: position by position the two printed
  sequences hold transactions `transaction.Compare` does not distinguish -/
  txsOrder : ∀ p ∈ (JournalPrinter.sortTxs d.transactions).zip (JournalPrinter.sortTxs d'.transactions),
    JournalPrinter.cmpTx p.1 p.2 = .eq

/-- what `journal.Print` may change between two layouts: nothing but the order within a (day, kind) block; the column
width of the postings is the same -/
structure PrintEquiv (j j' : List Day) : Prop where
  length : j.length = j'.length
  /-- day by day -/
  days : ∀ p ∈ j.zip j', DayPrintEquiv p.1 p.2
  padding : JournalPrinter.padding j = JournalPrinter.padding j'

/-! ## Layouts: a journal written as a tree of files

The constructive side of the property (`Properties/C05Layout.lean`, `C05_split`): take directives, distribute them in any
way over the files of an include tree, write every file with the functions of `journal.Print`; the journal the commands
load from the root is a permutation of the directives. -/

/-- a directive as `journal.Print` writes it, with the line break that ends it (a blank line ends an assertion with
several balances, as in `printAssertions`); `pad` is the column width of the posting lines -/
def dirText (pad : Nat) : Directive → String
  | .price p => JournalPrinter.printPrice p ++ "\n"
  | .opening o => JournalPrinter.printOpen o ++ "\n"
  | .closing c => JournalPrinter.printClose c ++ "\n"
  | .tx t => JournalPrinter.printTx pad t ++ "\n"
  | .assertion a => JournalPrinter.printAssertion a ++ "\n" ++ (if a.balances.length = 1 then "" else "\n")

/-- an include directive: `include "<spelling>"` and a line break -/
def incText (spelling : String) : String := "include \"" ++ spelling ++ "\"\n"

mutual
/-- a file of the layout: the path under which the loader reads it, and its items -/
inductive LTree where
  | node (path : Path) (items : LItems)
/-- the items of a file in text order: a directive, or an include (its spelling in the text, the included file) -/
inductive LItems where
  | nil
  | dir (x : Directive) (rest : LItems)
  | inc (spelling : String) (child : LTree) (rest : LItems)
end

def LTree.path : LTree → Path
  | .node p _ => p

def LTree.items : LTree → LItems
  | .node _ items => items

/-- the items of a file from a plain list -/
def LItems.ofList : List (Directive ⊕ (String × LTree)) → LItems
  | [] => .nil
  | .inl x :: rest => .dir x (LItems.ofList rest)
  | .inr (sp, c) :: rest => .inc sp c (LItems.ofList rest)

/-- the text of a file -/
def LItems.text (pad : Nat) : LItems → String
  | .nil => ""
  | .dir x rest => dirText pad x ++ rest.text pad
  | .inc sp _ rest => incText sp ++ rest.text pad

/-- the directives written in the file itself, in text order -/
def LItems.own : LItems → List Directive
  | .nil => []
  | .dir x rest => x :: rest.own
  | .inc _ _ rest => rest.own

/-- the includes of the file, in text order -/
def LItems.incs : LItems → List (String × LTree)
  | .nil => []
  | .dir _ rest => rest.incs
  | .inc sp c rest => (sp, c) :: rest.incs

mutual
/-- all files of the layout, depth first (the order of `Loader.load`) -/
def LTree.nodes : LTree → List (Path × LItems)
  | .node p items => (p, items) :: items.childNodes
def LItems.childNodes : LItems → List (Path × LItems)
  | .nil => []
  | .dir _ rest => rest.childNodes
  | .inc _ c rest => c.nodes ++ rest.childNodes
end

mutual
/-- the directives in reading order: those of an included file where the `include` stands -/
def LTree.reading : LTree → List Directive
  | .node _ items => items.reading
def LItems.reading : LItems → List Directive
  | .nil => []
  | .dir x rest => x :: rest.reading
  | .inc _ c rest => c.reading ++ rest.reading
end

/-- the bytes of a text file -/
def fileBytes (s : String) : Loader.Bytes := s.toUTF8.data.toList

/-- the files on disk: path and content -/
def LTree.files (pad : Nat) (t : LTree) : List (Path × Loader.Bytes) :=
  t.nodes.map (fun n => (n.1, fileBytes (n.2.text pad)))

/-- the file system that holds exactly the files of the layout -/
def LTree.fs (pad : Nat) (t : LTree) : FileSys := FileSys.ofList (t.files pad)

/-- all directives of the layout in the order the commands see them: file by file, depth first -/
def LTree.journal (t : LTree) : List Directive := t.nodes.flatMap (fun n => n.2.own)

/-- the include edges: including file, spelling of the path in its text, path of the included file -/
def LTree.edges (t : LTree) : List (Path × String × Path) :=
  t.nodes.flatMap (fun n => n.2.incs.map (fun i => (n.1, i.1, i.2.path)))

end Knut.Layout
