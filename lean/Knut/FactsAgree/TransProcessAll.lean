import Knut.Properties.C19
import Knut.FactsAgree.TransProcess
/-!
# The sequential meaning of `Journal.Process(p1 … pn)` on the translated closures

`Journal.Process` (lib/journal/journal.go) hands the days to `cpr.Seq(ctx, j.Days, p1.Process, …, pn.Process)`: one goroutine per
processor, unbuffered channels.  `cpr.Seq` is **not translated** (goroutines, channels).  Its meaning is taken from the transition
system `Knut.Pipeline` (`Model/Pipeline.lean`): by `C19.C19_confluent` EVERY schedule of that system that ends successfully delivers
exactly `Pipeline.seqRun S` — stage 1 over all days in order, then stage 2 over the output of stage 1, … .  This module makes the
instantiation explicit (this stays a stated modelling step):

* a stage function is `stageOf (processDay proc)`: the translated closures of ONE processor folded over a day in the order of
  `Processor.Process` (`TransProcess.processDay`), an error value, a panic and `outOfFuel` all being failures of the stage (`PErr`);
* `Pipeline.Sys` wants ONE type of private stage states: the record of the states of all processors of the call, stage `k` reads and
  writes its own field only (`liftStage`);
* a processor that is nil (`ComputePrices(nil)`, `Valuate(reg, nil)`, `CloseAccounts(…, false, …)`) is left out by `Journal.Process`:
  here the identity stage `idStage`, which passes every day on unchanged (`seqStage_id`).

Generic part (this module): `seqStage_cons` (a stage over a list, item by item), **`seqStage_fuse`**: running stage `f` over all items
and then stage `g` over its output is running `f` then `g` on every item in turn, with the pair of the two private states — the
step from the stage-major `seqRun` to the day-major formulation of the hand-written models (`Balance.run`, `Beancount.processFrom`:
"day by day, each day through all stages") — and `seqStage_lift` (a stage that works on one field of the record).
-/
namespace Knut.FactsAgree.TransProcessAll
open Knut Knut.GoSem Knut.Pipeline
open Knut.Generated.Go
open Knut.FactsAgree.TransProcess

/-- why a stage stopped: the error value a callback returned, a Go panic, or the translation's fuel ran out -/
inductive PErr where
  | err (e : Error)
  | panic (msg : String)
  | outOfFuel

/-- a translated per-day function as a stage function of `Pipeline.Sys` -/
def stageOf {σ : Type} (f : DayStep σ) : σ → journal.Day → Except PErr (σ × journal.Day) := fun st d =>
  match f st d with
  | .ok (st', d', none) => .ok (st', d')
  | .ok (_, _, some e) => .error (.err e)
  | .panic m => .error (.panic m)
  | .outOfFuel => .error .outOfFuel

theorem stageOf_ok {σ : Type} {f : DayStep σ} {st st' : σ} {d d' : journal.Day} (h : f st d = .ok (st', d', none)) :
    stageOf f st d = .ok (st', d') := by
  unfold stageOf; rw [h]

variable {σ τ ρ α ε : Type}

/-- the stage of a nil processor -/
def idStage : σ → α → Except ε (σ × α) := fun s a => .ok (s, a)

theorem seqStage_nil (f : σ → α → Except ε (σ × α)) (s : σ) : seqStage f s ([] : List α) = some [] := rfl

/-- a stage over a list, item by item -/
theorem seqStage_cons (f : σ → α → Except ε (σ × α)) (s : σ) (a : α) (l : List α) :
    seqStage f s (a :: l) =
      match f s a with
      | .ok (s', a') => (seqStage f s' l).map (a' :: ·)
      | .error _ => none := by
  unfold seqStage
  simp only [List.length_cons]
  rw [proc_cons]
  cases f s a with
  | error e => rfl
  | ok r =>
    obtain ⟨s', a'⟩ := r
    simp only
    cases proc f s' l l.length <;> rfl

theorem seqStage_id (s : σ) : ∀ l : List α, seqStage (idStage (ε := ε)) s l = some l := by
  intro l
  induction l with
  | nil => rfl
  | cons a l ih => rw [seqStage_cons]; simp [idStage, ih]

/-- two stages on one item, with the pair of their private states -/
def fuse (f : σ → α → Except ε (σ × α)) (g : τ → α → Except ε (τ × α)) : σ × τ → α → Except ε ((σ × τ) × α) := fun st a =>
  match f st.1 a with
  | .error e => .error e
  | .ok (s', a') =>
    match g st.2 a' with
    | .error e => .error e
    | .ok (t', a'') => .ok ((s', t'), a'')

/-- **stage-major = item-major**: stage `f` over all items, then stage `g` over its whole output, succeeds exactly when `f` then `g`
on every item in turn does, with the same output -/
theorem seqStage_fuse (f : σ → α → Except ε (σ × α)) (g : τ → α → Except ε (τ × α)) :
    ∀ (l : List α) (s : σ) (t : τ), (seqStage f s l).bind (seqStage g t) = seqStage (fuse f g) (s, t) l := by
  intro l
  induction l with
  | nil => intro s t; rfl
  | cons a l ih =>
    intro s t
    rw [seqStage_cons, seqStage_cons]
    unfold fuse
    cases hf : f s a with
    | error e => simp
    | ok r =>
      obtain ⟨s', a'⟩ := r
      simp only
      cases hg : g t a' with
      | error e =>
        simp only
        cases seqStage f s' l with
        | none => rfl
        | some o => simp [seqStage_cons, hg]
      | ok r2 =>
        obtain ⟨t', a''⟩ := r2
        simp only
        have := ih s' t'
        unfold fuse at this
        rw [← this]
        cases seqStage f s' l with
        | none => rfl
        | some o => simp [seqStage_cons, hg]

/-- a stage that reads and writes one field of a record of states -/
def liftStage (get : ρ → σ) (set : ρ → σ → ρ) (f : σ → α → Except ε (σ × α)) : ρ → α → Except ε (ρ × α) := fun S a =>
  match f (get S) a with
  | .ok (s', a') => .ok (set S s', a')
  | .error e => .error e

theorem seqStage_lift (get : ρ → σ) (set : ρ → σ → ρ) (hgs : ∀ S s, get (set S s) = s) (f : σ → α → Except ε (σ × α)) :
    ∀ (l : List α) (S : ρ), seqStage (liftStage get set f) S l = seqStage f (get S) l := by
  intro l
  induction l with
  | nil => intro S; rfl
  | cons a l ih =>
    intro S
    rw [seqStage_cons, seqStage_cons]
    cases hf : f (get S) a with
    | error e => simp [liftStage, hf]
    | ok r =>
      obtain ⟨s', a'⟩ := r
      have : liftStage get set f S a = .ok (set S s', a') := by simp [liftStage, hf]
      rw [this]
      simp only
      rw [ih, hgs]

/-- the item-major run spelled out: the state after all items and the items as they leave -/
def runDays (f : σ → α → Except ε (σ × α)) : σ → List α → Except ε (σ × List α)
  | s, [] => .ok (s, [])
  | s, a :: l =>
    match f s a with
    | .error e => .error e
    | .ok (s', a') =>
      match runDays f s' l with
      | .error e => .error e
      | .ok (s'', l') => .ok (s'', a' :: l')

theorem seqStage_of_runDays {f : σ → α → Except ε (σ × α)} :
    ∀ {l : List α} {s s' : σ} {out : List α}, runDays f s l = .ok (s', out) → seqStage f s l = some out := by
  intro l
  induction l with
  | nil => intro s s' out h; simp only [runDays] at h; injection h with h; injection h with _ h; subst h; rfl
  | cons a l ih =>
    intro s s' out h
    rw [seqStage_cons]
    simp only [runDays] at h
    cases hf : f s a with
    | error e => rw [hf] at h; cases h
    | ok r =>
      obtain ⟨s1, a'⟩ := r
      rw [hf] at h
      simp only at h ⊢
      cases hr : runDays f s1 l with
      | error e => rw [hr] at h; cases h
      | ok r2 =>
        obtain ⟨s2, l'⟩ := r2
        rw [hr] at h
        simp only at h
        injection h with h; injection h with _ h; subst h
        rw [ih hr]; rfl

theorem runDays_of_seqStage {f : σ → α → Except ε (σ × α)} :
    ∀ {l : List α} {s : σ} {out : List α}, seqStage f s l = some out → ∃ s', runDays f s l = .ok (s', out) := by
  intro l
  induction l with
  | nil => intro s out h; rw [seqStage_nil] at h; injection h with h; subst h; exact ⟨s, rfl⟩
  | cons a l ih =>
    intro s out h
    rw [seqStage_cons] at h
    cases hf : f s a with
    | error e => rw [hf] at h; cases h
    | ok r =>
      obtain ⟨s1, a'⟩ := r
      rw [hf] at h
      simp only at h
      cases hs : seqStage f s1 l with
      | none => rw [hs] at h; cases h
      | some o =>
        rw [hs] at h
        simp only [Option.map_some, Option.some.injEq] at h
        subst h
        obtain ⟨s2, h2⟩ := ih hs
        exact ⟨s2, by simp only [runDays, hf, h2]⟩

/-! ### `C19_confluent`, restated for a system whose stages are given as a function of the stage number: what every successful
schedule of `cpr.Seq` delivers is `seqRun` -/

theorem seq_meaning {S : Sys σ α ε} {s : St σ α ε} (h : Reach S s) (hd : s.done S) : seqRun S = some s.out :=
  Knut.C19.C19_confluent h hd

end Knut.FactsAgree.TransProcessAll
