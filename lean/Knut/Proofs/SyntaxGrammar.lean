import Knut.Proofs.SyntaxLex
/-!
# The lexical classes of the fields, both directions (helper lemmas for C08)

For each leaf parser (`parseDate`, `parseCommodity`, `parseDecimal`, `parseAccount`, `parseInterval`, the content
of a quoted string): a predicate on token lists, *soundness* (what a successful call consumed is in the class) and
*completeness* (on `c ++ r` with `c` in the class and a harmless first token of `r` the call consumes exactly `c`).
-/
namespace Knut.Syntax
open Knut.Utf8
set_option linter.unusedVariables false

/-! ### facts about the regenerated character tables -/
theorem alnum_colon : isAlphanumeric 58 = false := by decide +kernel
theorem alnum_space : isAlphanumeric 32 = false := by decide +kernel
theorem alnum_tab : isAlphanumeric 9 = false := by decide +kernel
theorem alnum_cr : isAlphanumeric 13 = false := by decide +kernel
theorem alnum_nl : isAlphanumeric 10 = false := by decide +kernel
theorem alnum_comma : isAlphanumeric 44 = false := by decide +kernel
theorem alnum_rparen : isAlphanumeric 41 = false := by decide +kernel
theorem alnum_dollar : isAlphanumeric 36 = false := by decide +kernel
theorem alnum_at : isAlphanumeric 64 = false := by decide +kernel
theorem digit_minus : isDigit 45 = false := by decide +kernel
theorem digit_dot : isDigit 46 = false := by decide +kernel
theorem digit_space : isDigit 32 = false := by decide +kernel

theorem ws_cases {x : Nat} (h : isWhitespaceOrNewline x = true) : x = 10 ∨ x = 32 ∨ x = 9 ∨ x = 13 := by
  simp only [isWhitespaceOrNewline, isNewline, isWhitespace, Bool.or_eq_true, beq_iff_eq] at h
  omega

theorem ws_not_alnum {x : Nat} (h : isWhitespaceOrNewline x = true) : isAlphanumeric x = false := by
  rcases ws_cases h with h | h | h | h <;> subst h
  · exact alnum_nl
  · exact alnum_space
  · exact alnum_tab
  · exact alnum_cr

theorem alnum_of_digit {x : Nat} (h : isDigit x = true) : isAlphanumeric x = true := by simp [isAlphanumeric, h]
theorem alnum_of_letter {x : Nat} (h : isLetter x = true) : isAlphanumeric x = true := by simp [isAlphanumeric, h]
theorem not_digit_of_not_alnum {x : Nat} (h : isAlphanumeric x = false) : isDigit x = false := by
  simp only [isAlphanumeric, Bool.or_eq_false_iff] at h; exact h.2
theorem not_letter_of_not_alnum {x : Nat} (h : isAlphanumeric x = false) : isLetter x = false := by
  simp only [isAlphanumeric, Bool.or_eq_false_iff] at h; exact h.1

theorem HeadValid.cons {t : Tok} {r : List Tok} (h : t.invalid = false) : HeadValid (t :: r) := by
  intro x rest e; simp only [List.cons.injEq] at e; rw [← e.1]; exact h

theorem HeadNot.cons {p : Nat → Bool} {t : Tok} {r : List Tok} (h : p t.r = false) : HeadNot p (t :: r) := by
  intro x rest e; simp only [List.cons.injEq] at e; rw [← e.1]; exact h

theorem HeadNot.mono {p q : Nat → Bool} {r : List Tok} (h : HeadNot p r) (hpq : ∀ x, p x = false → q x = false) :
    HeadNot q r := fun t rest e => hpq _ (h t rest e)

/-- the state reached from `⟨off, c ++ r⟩` by consuming `c` -/
theorem consumed_mk (off : Nat) (c r : List Tok) : Consumed ⟨off, c ++ r⟩ c ⟨off + wsum c, r⟩ := ⟨rfl, rfl⟩

/-- a successful call from `s` that consumed `c`: the input was `c ++ rest` -/
theorem st_eq_of_consumed {s s' : St} {c : List Tok} (h : Consumed s c s') : s = ⟨s.off, c ++ s'.toks⟩ := by
  cases s with
  | mk off toks => simp only [St.mk.injEq, true_and]; exact h.1

/-! ### dates -/

/-- `dddd-dd-dd` -/
def IsDate (c : List Tok) : Prop :=
  ∃ d1 d2 d3 d4 h1 d5 d6 h2 d7 d8, c = [d1, d2, d3, d4, h1, d5, d6, h2, d7, d8] ∧
    isDigit d1.r = true ∧ isDigit d2.r = true ∧ isDigit d3.r = true ∧ isDigit d4.r = true ∧ h1.r = 45 ∧
    isDigit d5.r = true ∧ isDigit d6.r = true ∧ h2.r = 45 ∧ isDigit d7.r = true ∧ isDigit d8.r = true

theorem parseDate_sound {s : St} {d : Date} {s' : St} (h : parseDate s = .ok d s') (hv : HeadValid s.toks) :
    ∃ c, Consumed s c s' ∧ IsDate c ∧ Valid c ∧ HeadValid s'.toks ∧ d = ⟨⟨s.off, s'.off⟩⟩ := by
  have hd := parseDate_ok h
  unfold parseDate at h
  simp only [Res.bind_eq_ok] at h
  obtain ⟨_, s1, g1, _, s2, g2, _, s3, g3, _, s4, g4, _, s5, g5, _, s6, g6, _, s7, g7, _, s8, g8, _, s9, g9, _, s10, g10, h⟩ := h
  injection h with _ hs
  subst hs
  obtain ⟨t1, c1, p1, _, v1⟩ := readCharacterWith_okV g1
  obtain ⟨t2, c2, p2, _, v2⟩ := readCharacterWith_okV g2
  obtain ⟨t3, c3, p3, _, v3⟩ := readCharacterWith_okV g3
  obtain ⟨t4, c4, p4, _, v4⟩ := readCharacterWith_okV g4
  obtain ⟨t5, c5, p5, _, v5⟩ := readCharacter_okV g5
  obtain ⟨t6, c6, p6, _, v6⟩ := readCharacterWith_okV g6
  obtain ⟨t7, c7, p7, _, v7⟩ := readCharacterWith_okV g7
  obtain ⟨t8, c8, p8, _, v8⟩ := readCharacter_okV g8
  obtain ⟨t9, c9, p9, _, v9⟩ := readCharacterWith_okV g9
  obtain ⟨t10, c10, p10, _, v10⟩ := readCharacterWith_okV g10
  have hc := c1.trans (c2.trans (c3.trans (c4.trans (c5.trans (c6.trans (c7.trans (c8.trans (c9.trans c10))))))))
  simp only [List.cons_append, List.nil_append] at hc
  refine ⟨_, hc, ⟨t1, t2, t3, t4, t5, t6, t7, t8, t9, t10, rfl, p1, p2, p3, p4, p5, p6, p7, p8, p9, p10⟩, ?_, v10, hd⟩
  have w1 := hv t1 _ c1.1
  have w2 := v1 t2 _ c2.1
  have w3 := v2 t3 _ c3.1
  have w4 := v3 t4 _ c4.1
  have w5 := v4 t5 _ c5.1
  have w6 := v5 t6 _ c6.1
  have w7 := v6 t7 _ c7.1
  have w8 := v7 t8 _ c8.1
  have w9 := v8 t9 _ c9.1
  have w10 := v9 t10 _ c10.1
  intro x hx
  simp only [List.mem_cons, List.not_mem_nil, or_false] at hx
  rcases hx with rfl | rfl | rfl | rfl | rfl | rfl | rfl | rfl | rfl | rfl <;> assumption

theorem parseDate_complete {c : List Tok} (hc : IsDate c) (hv : Valid c) (off : Nat) (r : List Tok) (hr : HeadValid r) :
    parseDate ⟨off, c ++ r⟩ = .ok ⟨⟨off, off + wsum c⟩⟩ ⟨off + wsum c, r⟩ := by
  obtain ⟨d1, d2, d3, d4, h1, d5, d6, h2, d7, d8, rfl, p1, p2, p3, p4, p5, p6, p7, p8, p9, p10⟩ := hc
  have w : ∀ t ∈ [d1, d2, d3, d4, h1, d5, d6, h2, d7, d8], t.invalid = false := hv
  simp only [List.mem_cons, List.not_mem_nil, or_false, forall_eq_or_imp, forall_eq] at w
  obtain ⟨w1, w2, w3, w4, w5, w6, w7, w8, w9, w10⟩ := w
  unfold parseDate
  simp only [List.cons_append, List.nil_append, Res.bind]
  rw [readCharacterWith_complete _ _ _ _ _ p1 (HeadValid.cons w2)]; simp only
  rw [readCharacterWith_complete _ _ _ _ _ p2 (HeadValid.cons w3)]; simp only
  rw [readCharacterWith_complete _ _ _ _ _ p3 (HeadValid.cons w4)]; simp only
  rw [readCharacterWith_complete _ _ _ _ _ p4 (HeadValid.cons w5)]; simp only
  rw [readCharacter_complete _ _ _ _ p5 (HeadValid.cons w6)]; simp only
  rw [readCharacterWith_complete _ _ _ _ _ p6 (HeadValid.cons w7)]; simp only
  rw [readCharacterWith_complete _ _ _ _ _ p7 (HeadValid.cons w8)]; simp only
  rw [readCharacter_complete _ _ _ _ p8 (HeadValid.cons w9)]; simp only
  rw [readCharacterWith_complete _ _ _ _ _ p9 (HeadValid.cons w10)]; simp only
  rw [readCharacterWith_complete _ _ _ _ _ p10 hr]
  simp [rng, wsum, Nat.add_assoc]

/-! ### commodities -/

/-- one or more letters or digits -/
def IsCommodity (c : List Tok) : Prop := c ≠ [] ∧ All isAlphanumeric c

theorem parseCommodity_sound {s : St} {x : Commodity} {s' : St} (h : parseCommodity s = .ok x s') (hv : HeadValid s.toks) :
    ∃ c, Consumed s c s' ∧ IsCommodity c ∧ Valid c ∧ HeadValid s'.toks ∧ x = ⟨⟨s.off, s'.off⟩⟩ ∧
      HeadNot isAlphanumeric s'.toks := by
  have hd := parseCommodity_ok h
  unfold parseCommodity at h
  simp only [Res.bind_eq_ok] at h
  obtain ⟨_, s1, g1, h⟩ := h
  injection h with _ hs
  subst hs
  obtain ⟨c, hne, hc, hp, hvc, hv1, _, hn⟩ := readWhile1_okV g1 hv
  exact ⟨c, hc, ⟨hne, hp⟩, hvc, hv1, hd, hn⟩

theorem parseCommodity_complete {c : List Tok} (hc : IsCommodity c) (hv : Valid c) (off : Nat) (r : List Tok)
    (hr : HeadValid r) (hn : HeadNot isAlphanumeric r) :
    parseCommodity ⟨off, c ++ r⟩ = .ok ⟨⟨off, off + wsum c⟩⟩ ⟨off + wsum c, r⟩ := by
  unfold parseCommodity
  simp only [Res.bind]
  rw [readWhile1_complete _ _ off c r hc.1 hc.2 hv hr hn]
  simp [rng]

end Knut.Syntax

namespace Knut.Syntax
open Knut.Utf8
set_option linter.unusedVariables false

theorem cur_cons (off : Nat) (t : Tok) (r : List Tok) : cur ⟨off, t :: r⟩ = t.r := rfl
theorem cur_nil (off : Nat) : cur ⟨off, []⟩ = EOF := rfl

/-- the current rune of `⟨off, r⟩` is not `x` when the head of `r` is not (`x` an ordinary rune) -/
theorem cur_ne_of_headNot {x off : Nat} {r : List Tok} (hx : x ≠ EOF) (h : HeadNot (fun y => y == x) r) :
    (cur ⟨off, r⟩ == x) = false := by
  cases r with
  | nil => simp only [cur_nil, beq_eq_false_iff_ne]; exact fun e => hx e.symm
  | cons t rest => simpa [cur_cons] using h t rest rfl

/-! ### decimals -/

def SignOK (sign : List Tok) : Prop := sign = [] ∨ ∃ m, sign = [m] ∧ m.r = 45
def FracOK (frac : List Tok) : Prop := frac = [] ∨ ∃ dot fr, frac = dot :: fr ∧ dot.r = 46 ∧ fr ≠ [] ∧ All isDigit fr

/-- `-?d+(.d+)?` -/
def IsDecimal (c : List Tok) : Prop :=
  ∃ sign int frac, c = sign ++ int ++ frac ∧ SignOK sign ∧ int ≠ [] ∧ All isDigit int ∧ FracOK frac

theorem parseDecimal_sound {s : St} {x : Decimal} {s' : St} (h : parseDecimal s = .ok x s') (hv : HeadValid s.toks) :
    ∃ c, Consumed s c s' ∧ IsDecimal c ∧ Valid c ∧ HeadValid s'.toks ∧ x = ⟨⟨s.off, s'.off⟩⟩ := by
  have hd := parseDecimal_ok h
  unfold parseDecimal at h
  simp only [Res.bind_eq_ok] at h
  obtain ⟨_, s1, g1, _, s2, g2, h⟩ := h
  -- the optional sign
  have hsign : ∃ sign, Consumed s sign s1 ∧ SignOK sign ∧ Valid sign ∧ HeadValid s1.toks := by
    split at g1
    · simp only [Res.bind_eq_ok] at g1
      obtain ⟨_, t1, k1, k2⟩ := g1
      injection k2 with _ k2
      subst k2
      obtain ⟨m, cm, pm, _, vm⟩ := readCharacter_okV k1
      exact ⟨[m], cm, Or.inr ⟨m, rfl, pm⟩, Valid.cons (hv m _ cm.1) Valid.nil, vm⟩
    · injection g1 with _ k2
      subst k2
      exact ⟨[], Consumed.refl _, Or.inl rfl, Valid.nil, hv⟩
  obtain ⟨sign, csign, osign, vsign, hv1⟩ := hsign
  obtain ⟨int, hne, cint, pint, vint, hv2, _, _⟩ := readWhile1_okV g2 hv1
  split at h
  · injection h with _ hs
    subst hs
    refine ⟨sign ++ int ++ [], ?_, ⟨sign, int, [], rfl, osign, hne, pint, Or.inl rfl⟩, ?_, hv2, hd⟩
    · simpa using csign.trans cint
    · simpa using vsign.append vint
  · simp only [Res.bind_eq_ok] at h
    obtain ⟨_, s3, g3, _, s4, g4, h⟩ := h
    injection h with _ hs
    subst hs
    obtain ⟨dot, cdot, pdot, _, hv3⟩ := readCharacter_okV g3
    obtain ⟨fr, hne4, cfr, pfr, vfr, hv4, _, _⟩ := readWhile1_okV g4 hv3
    refine ⟨sign ++ int ++ (dot :: fr), ?_, ⟨sign, int, dot :: fr, rfl, osign, hne, pint,
      Or.inr ⟨dot, fr, rfl, pdot, hne4, pfr⟩⟩, ?_, hv4, hd⟩
    · have := (csign.trans cint).trans (cdot.trans cfr)
      simpa using this
    · exact (vsign.append vint).append (Valid.cons (hv2 dot _ cdot.1) vfr)

theorem parseDecimal_complete {c : List Tok} (hc : IsDecimal c) (hv : Valid c) (off : Nat) (r : List Tok)
    (hr : HeadValid r) (hn : HeadNot isDigit r) (hdot : HeadNot (fun y => y == 46) r) :
    parseDecimal ⟨off, c ++ r⟩ = .ok ⟨⟨off, off + wsum c⟩⟩ ⟨off + wsum c, r⟩ := by
  obtain ⟨sign, int, frac, rfl, osign, hne, pint, ofrac⟩ := hc
  have vsign : Valid sign := hv.left.left
  have vint : Valid int := hv.left.right
  have vfrac : Valid frac := hv.right
  obtain ⟨i0, irest, hint⟩ : ∃ i0 irest, int = i0 :: irest := by
    cases int with
    | nil => exact absurd rfl hne
    | cons a b => exact ⟨a, b, rfl⟩
  have hi0 : isDigit i0.r = true := pint i0 (by rw [hint]; exact List.mem_cons_self)
  have hi045 : (i0.r == 45) = false := by
    simp only [beq_eq_false_iff_ne]
    intro e; rw [e, digit_minus] at hi0; cases hi0
  -- after the integer part
  have tailStep : ∀ off1, (readWhile1 "a digit" isDigit ⟨off1, int ++ (frac ++ r)⟩).bind (annotate "parsing decimal" off) (fun _ s =>
      if cur s != 46 then Res.ok (Decimal.mk (rng off s)) s
      else (readCharacter 46 s).bind (annotate "parsing decimal" off) fun _ s =>
        (readWhile1 "a digit" isDigit s).bind (annotate "parsing decimal" off) fun _ s => .ok ⟨rng off s⟩ s) =
      .ok ⟨⟨off, off1 + wsum int + wsum frac⟩⟩ ⟨off1 + wsum int + wsum frac, r⟩ := by
    intro off1
    rcases ofrac with hf | ⟨dot, fr, hf, pdot, hnefr, pfr⟩
    · subst hf
      simp only [List.nil_append, wsum_nil, Nat.add_zero]
      rw [readWhile1_complete _ _ off1 int r hne pint vint hr hn]
      simp only [Res.bind]
      have : (cur ⟨off1 + wsum int, r⟩ != 46) = true := by
        have := cur_ne_of_headNot (off := off1 + wsum int) (by decide : (46 : Nat) ≠ EOF) hdot
        simp only [bne, this, Bool.not_false]
      simp [this, rng]
    · subst hf
      have vdot : dot.invalid = false := vfrac.head
      have vfr : Valid fr := vfrac.tail
      have hnd : HeadNot isDigit (dot :: fr ++ r) := HeadNot.cons (by rw [pdot]; exact digit_dot)
      rw [readWhile1_complete _ _ off1 int (dot :: fr ++ r) hne pint vint (HeadValid.cons vdot) hnd]
      simp only [Res.bind, List.cons_append]
      have : (cur ⟨off1 + wsum int, dot :: (fr ++ r)⟩ != 46) = false := by simp [cur_cons, pdot]
      simp only [this, Bool.false_eq_true, if_false]
      rw [readCharacter_complete 46 _ dot (fr ++ r) pdot (HeadValid.append vfr hr)]
      simp only
      rw [readWhile1_complete _ _ _ fr r hnefr pfr vfr hr hn]
      simp [rng, wsum, Nat.add_assoc]
  unfold parseDecimal
  rcases osign with hs | ⟨m, hs, pm⟩
  · subst hs
    simp only [List.nil_append, List.append_assoc, wsum_nil, Nat.zero_add]
    have hcur : (cur ⟨off, int ++ (frac ++ r)⟩ == 45) = false := by rw [hint]; simpa [cur_cons] using hi045
    simp only [hcur, Bool.false_eq_true, if_false, Res.bind]
    have := tailStep off
    simp only [Res.bind] at this
    rw [this]
    simp [wsum_append, Nat.add_assoc]
  · subst hs
    simp only [List.cons_append, List.nil_append, List.append_assoc]
    have hcur : (cur ⟨off, m :: (int ++ (frac ++ r))⟩ == 45) = true := by simp [cur_cons, pm]
    simp only [hcur, if_true]
    rw [readCharacter_complete 45 off m (int ++ (frac ++ r)) pm (HeadValid.append vint (HeadValid.append vfrac hr))]
    simp only [Res.bind]
    have := tailStep (off + m.bytes.length)
    simp only [Res.bind] at this
    rw [this]
    simp [wsum_append, wsum, Nat.add_assoc]

end Knut.Syntax

namespace Knut.Syntax
open Knut.Utf8
set_option linter.unusedVariables false

/-! ### accounts -/

/-- `(:segment)*` -/
inductive SegTail : List Tok → Prop where
  | nil : SegTail []
  | cons (colon : Tok) (seg rest : List Tok) : colon.r = 58 → seg ≠ [] → All isAlphanumeric seg → SegTail rest →
      SegTail (colon :: seg ++ rest)

/-- `$letters` (a macro) or `segment(:segment)*` -/
def IsAccount (isMacro : Bool) (c : List Tok) : Prop :=
  if isMacro then ∃ d ls, c = d :: ls ∧ d.r = 36 ∧ ls ≠ [] ∧ All isLetter ls
  else ∃ a tl, c = a ++ tl ∧ a ≠ [] ∧ All isAlphanumeric a ∧ SegTail tl

theorem SegTail.headNot {tl r : List Tok} (h : SegTail tl) (hr : HeadNot isAlphanumeric r) :
    HeadNot isAlphanumeric (tl ++ r) := by
  cases h with
  | nil => simpa using hr
  | cons colon seg rest hc _ _ _ => exact HeadNot.cons (by rw [hc]; exact alnum_colon)

theorem accountLoop_sound {start : Nat} {s : St} {a : Account} {s' : St} (h : accountLoop start s = .ok a s')
    (hv : HeadValid s.toks) (hna : HeadNot isAlphanumeric s.toks) :
    ∃ tl, Consumed s tl s' ∧ SegTail tl ∧ Valid tl ∧ HeadValid s'.toks ∧ HeadNot isAlphanumeric s'.toks ∧
      HeadNot (fun y => y == 58) s'.toks := by
  fun_induction accountLoop start s with
  | case1 s hc =>
    injection h with _ h2
    subst h2
    refine ⟨[], Consumed.refl _, SegTail.nil, Valid.nil, hv, hna, ?_⟩
    intro t rest e
    simp only [cur, e, bne_iff_ne, ne_eq] at hc
    simpa using hc
  | case2 s hc e s1 h1 => cases h
  | case3 s hc x s1 h1 e s2 h2 => cases h
  | case4 s hc x s1 h1 y s2 h2 ih =>
    obtain ⟨colon, cc, pc, _, v1⟩ := readCharacter_okV h1
    obtain ⟨seg, hne, cs, ps, vs, v2, _, hn2⟩ := readWhile1_okV h2 v1
    obtain ⟨tl, ct, st, vt, v3, hn3, h58⟩ := ih h v2 hn2
    refine ⟨colon :: seg ++ tl, ?_, SegTail.cons colon seg tl pc hne ps st, ?_, v3, hn3, h58⟩
    · have := cc.trans (cs.trans ct)
      simpa using this
    · exact Valid.cons (hv colon _ cc.1) (vs.append vt)

theorem parseAccount_sound {s : St} {a : Account} {s' : St} (h : parseAccount s = .ok a s') (hv : HeadValid s.toks) :
    ∃ c, Consumed s c s' ∧ IsAccount a.isMacro c ∧ Valid c ∧ HeadValid s'.toks ∧ a.range = ⟨s.off, s'.off⟩ := by
  obtain ⟨m, hm⟩ := parseAccount_ok h
  unfold parseAccount at h
  simp only at h
  split at h
  · simp only [Res.bind_eq_ok] at h
    obtain ⟨_, s1, g1, _, s2, g2, h⟩ := h
    injection h with h1 h2
    subst h2
    obtain ⟨d, cd, pd, _, v1⟩ := readCharacter_okV g1
    obtain ⟨ls, hne, cl, pl, vl, v2, _, _⟩ := readWhile1_okV g2 v1
    refine ⟨d :: ls, ?_, ?_, Valid.cons (hv d _ cd.1) vl, v2, by rw [hm]⟩
    · simpa using cd.trans cl
    · rw [← h1]
      simp only [IsAccount, if_true]
      exact ⟨d, ls, rfl, pd, hne, pl⟩
  · simp only [Res.bind_eq_ok] at h
    obtain ⟨_, s1, g1, h⟩ := h
    obtain ⟨a0, hne, ca, pa, va, v1, _, hn1⟩ := readWhile1_okV g1 hv
    obtain ⟨tl, ct, st, vt, v2, _, _⟩ := accountLoop_sound h v1 hn1
    have hmac := accountLoop_ok h
    refine ⟨a0 ++ tl, ca.trans ct, ?_, va.append vt, v2, by rw [hm]⟩
    rw [hmac]
    simp only [IsAccount, Bool.false_eq_true, if_false]
    exact ⟨a0, tl, rfl, hne, pa, st⟩

theorem accountLoop_complete {tl : List Tok} (ht : SegTail tl) (hv : Valid tl) (start off : Nat) (r : List Tok)
    (hr : HeadValid r) (hn : HeadNot isAlphanumeric r) (h58 : HeadNot (fun y => y == 58) r) :
    accountLoop start ⟨off, tl ++ r⟩ = .ok ⟨⟨start, off + wsum tl⟩, false⟩ ⟨off + wsum tl, r⟩ := by
  induction ht generalizing off with
  | nil =>
    rw [accountLoop_eq]
    have := cur_ne_of_headNot (off := off) (by decide : (58 : Nat) ≠ EOF) h58
    simp only [List.nil_append, bne, this, Bool.not_false, if_true, wsum_nil, Nat.add_zero, rng]
  | cons colon seg rest pc hne ps st ih =>
    have vc : colon.invalid = false := hv.head
    have vseg : Valid seg := (hv.tail).left
    have vrest : Valid rest := (hv.tail).right
    rw [accountLoop_eq]
    have e : colon :: seg ++ rest ++ r = colon :: (seg ++ (rest ++ r)) := by simp
    rw [e]
    have hc : (cur ⟨off, colon :: (seg ++ (rest ++ r))⟩ != 58) = false := by simp [cur_cons, pc]
    simp only [hc, Bool.false_eq_true, if_false]
    rw [readCharacter_complete 58 off colon (seg ++ (rest ++ r)) pc (HeadValid.append vseg (HeadValid.append vrest hr))]
    simp only [Res.bind]
    rw [readWhile1_complete _ _ _ seg (rest ++ r) hne ps vseg (HeadValid.append vrest hr) (st.headNot hn)]
    simp only
    rw [ih vrest]
    simp [wsum_append, Nat.add_assoc]

theorem parseAccount_complete {isMacro : Bool} {c : List Tok} (hc : IsAccount isMacro c) (hv : Valid c) (off : Nat)
    (r : List Tok) (hr : HeadValid r) (hn : HeadNot isAlphanumeric r) (h58 : HeadNot (fun y => y == 58) r) :
    parseAccount ⟨off, c ++ r⟩ = .ok ⟨⟨off, off + wsum c⟩, isMacro⟩ ⟨off + wsum c, r⟩ := by
  unfold parseAccount
  cases isMacro with
  | true =>
    simp only [IsAccount, if_true] at hc
    obtain ⟨d, ls, rfl, pd, hne, pl⟩ := hc
    have hcur : (cur ⟨off, d :: (ls ++ r)⟩ == 36) = true := by simp [cur_cons, pd]
    simp only [List.cons_append, hcur, if_true]
    rw [readCharacter_complete 36 off d (ls ++ r) pd (HeadValid.append hv.tail hr)]
    simp only [Res.bind]
    rw [readWhile1_complete _ _ _ ls r hne pl hv.tail hr (hn.mono fun x => not_letter_of_not_alnum)]
    simp [rng, wsum, Nat.add_assoc]
  | false =>
    simp only [IsAccount, Bool.false_eq_true, if_false] at hc
    obtain ⟨a, tl, rfl, hne, pa, st⟩ := hc
    obtain ⟨a0, arest, ha⟩ : ∃ a0 arest, a = a0 :: arest := by
      cases a with
      | nil => exact absurd rfl hne
      | cons x y => exact ⟨x, y, rfl⟩
    have ha0 : isAlphanumeric a0.r = true := pa a0 (by rw [ha]; exact List.mem_cons_self)
    have hcur : (cur ⟨off, a ++ (tl ++ r)⟩ == 36) = false := by
      rw [ha]
      simp only [List.cons_append, cur_cons, beq_eq_false_iff_ne]
      intro e; rw [e, alnum_dollar] at ha0; cases ha0
    simp only [List.append_assoc, hcur, Bool.false_eq_true, if_false]
    rw [readWhile1_complete _ _ off a (tl ++ r) hne pa hv.left (HeadValid.append hv.right hr) (st.headNot hn)]
    simp only [Res.bind]
    rw [accountLoop_complete st hv.right off (off + wsum a) r hr hn h58]
    simp [wsum_append, Nat.add_assoc]

/-! ### intervals -/

def intervalKeywords : List String := ["daily", "weekly", "monthly", "quarterly"]

/-- one of the four interval keywords -/
def IsInterval (c : List Tok) : Prop := ∃ kw ∈ intervalKeywords, c.map (·.r) = runesOf kw

theorem parseInterval_sound {s : St} {x : Interval} {s' : St} (h : parseInterval s = .ok x s') (hv : HeadValid s.toks) :
    ∃ c, Consumed s c s' ∧ IsInterval c ∧ Valid c ∧ HeadValid s'.toks ∧ x = ⟨⟨s.off, s'.off⟩⟩ := by
  have hd := parseInterval_ok h
  unfold parseInterval at h
  simp only [Res.bind_eq_ok] at h
  obtain ⟨⟨r, kw⟩, s1, g1, h⟩ := h
  injection h with _ hs
  subst hs
  obtain ⟨hm, c, hc, hr, _, vc, v1⟩ := readAlternative_okV g1 hv
  exact ⟨c, hc, ⟨kw, hm, hr⟩, vc, v1, hd⟩

theorem readAltL_skip (all : List String) (s : St) (a : String) (rest : List String)
    (h : ∃ e, readString a s = .err e s) : readAltL all s (a :: rest) = readAltL all s rest := by
  obtain ⟨e, he⟩ := h
  simp only [readAltL, he]

theorem readAltL_hit (all : List String) (s : St) (a : String) (rest : List String) (r : Range) (s' : St)
    (h : readString a s = .ok r s') : readAltL all s (a :: rest) = .ok (r, a) s' := by
  simp only [readAltL, h]

theorem cur_of_runes {c : List Tok} {off : Nat} {r : List Tok} {ch : Nat} {chs : List Nat}
    (h : c.map (·.r) = ch :: chs) : cur ⟨off, c ++ r⟩ = ch ∧ atEOF ⟨off, c ++ r⟩ = false := by
  cases c with
  | nil => simp at h
  | cons t ts =>
    simp only [List.map_cons, List.cons.injEq] at h
    exact ⟨by simp [cur_cons, h.1], rfl⟩

theorem parseInterval_complete {c : List Tok} (hc : IsInterval c) (hv : Valid c) (off : Nat) (r : List Tok)
    (hr : HeadValid r) :
    parseInterval ⟨off, c ++ r⟩ = .ok ⟨⟨off, off + wsum c⟩⟩ ⟨off + wsum c, r⟩ := by
  obtain ⟨kw, hm, hk⟩ := hc
  have hit := readString_complete kw off c r hk hv hr
  unfold parseInterval
  simp only [intervalKeywords, List.mem_cons, List.not_mem_nil, or_false] at hm
  have key : readAlternative ["daily", "weekly", "monthly", "quarterly"] ⟨off, c ++ r⟩ =
      .ok (⟨off, off + wsum c⟩, kw) ⟨off + wsum c, r⟩ := by
    unfold readAlternative
    rcases hm with rfl | rfl | rfl | rfl
    · have ⟨hc0, he⟩ := cur_of_runes (off := off) (r := r) (hk.trans (by decide : runesOf "daily" = 100 :: [97, 105, 108, 121]))
      simp only [he, Bool.false_eq_true, if_false]
      exact readAltL_hit _ _ _ _ _ _ hit
    · have ⟨hc0, he⟩ := cur_of_runes (off := off) (r := r) (hk.trans (by decide : runesOf "weekly" = 119 :: [101, 101, 107, 108, 121]))
      simp only [he, Bool.false_eq_true, if_false]
      rw [readAltL_skip _ _ _ _ (readString_mismatch "daily" _ 100 [97, 105, 108, 121] (by decide) (by rw [hc0]; decide))]
      exact readAltL_hit _ _ _ _ _ _ hit
    · have ⟨hc0, he⟩ := cur_of_runes (off := off) (r := r) (hk.trans (by decide : runesOf "monthly" = 109 :: [111, 110, 116, 104, 108, 121]))
      simp only [he, Bool.false_eq_true, if_false]
      rw [readAltL_skip _ _ _ _ (readString_mismatch "daily" _ 100 [97, 105, 108, 121] (by decide) (by rw [hc0]; decide))]
      rw [readAltL_skip _ _ _ _ (readString_mismatch "weekly" _ 119 [101, 101, 107, 108, 121] (by decide) (by rw [hc0]; decide))]
      exact readAltL_hit _ _ _ _ _ _ hit
    · have ⟨hc0, he⟩ := cur_of_runes (off := off) (r := r) (hk.trans (by decide : runesOf "quarterly" = 113 :: [117, 97, 114, 116, 101, 114, 108, 121]))
      simp only [he, Bool.false_eq_true, if_false]
      rw [readAltL_skip _ _ _ _ (readString_mismatch "daily" _ 100 [97, 105, 108, 121] (by decide) (by rw [hc0]; decide))]
      rw [readAltL_skip _ _ _ _ (readString_mismatch "weekly" _ 119 [101, 101, 107, 108, 121] (by decide) (by rw [hc0]; decide))]
      rw [readAltL_skip _ _ _ _ (readString_mismatch "monthly" _ 109 [111, 110, 116, 104, 108, 121] (by decide) (by rw [hc0]; decide))]
      exact readAltL_hit _ _ _ _ _ _ hit
  rw [key]
  simp [Res.bind, rng]

/-! ### quoted strings -/

/-- the content of a quoted string: anything but a double quote -/
def IsContent (c : List Tok) : Prop := All (fun r => r != 34) c

theorem parseQuotedString_sound {s : St} {q : QuotedString} {s' : St} (h : parseQuotedString s = .ok q s')
    (hv : HeadValid s.toks) :
    ∃ q1 c q2, Consumed s (q1 :: c ++ [q2]) s' ∧ q1.r = 34 ∧ q2.r = 34 ∧ IsContent c ∧ Valid (q1 :: c ++ [q2]) ∧
      HeadValid s'.toks ∧ q.range = ⟨s.off, s'.off⟩ ∧
      q.content = ⟨s.off + q1.bytes.length, s.off + q1.bytes.length + wsum c⟩ := by
  unfold parseQuotedString at h
  simp only [Res.bind_eq_ok] at h
  obtain ⟨_, s1, g1, content, s2, g2, _, s3, g3, h⟩ := h
  injection h with h1 h2
  subst h2
  obtain ⟨q1, c1, p1, _, v1⟩ := readCharacter_okV g1
  obtain ⟨c, c2, p2, vc, v2, hr2, _⟩ := readWhile_okV g2 v1
  obtain ⟨q2, c3, p3, _, v3⟩ := readCharacter_okV g3
  refine ⟨q1, c, q2, ?_, p1, p3, p2, ?_, v3, by rw [← h1]; rfl, ?_⟩
  · have := c1.trans (c2.trans c3)
    simpa using this
  · exact Valid.cons (hv q1 _ c1.1) (vc.append (Valid.cons (v2 q2 _ c3.1) Valid.nil))
  · rw [← h1]
    simp only
    rw [hr2, c2.2, c1.2]
    simp

theorem parseQuotedString_complete {c : List Tok} (hc : IsContent c) (q1 q2 : Tok) (h1 : q1.r = 34) (h2 : q2.r = 34)
    (hv : Valid (q1 :: c ++ [q2])) (off : Nat) (r : List Tok) (hr : HeadValid r) :
    parseQuotedString ⟨off, q1 :: c ++ q2 :: r⟩ =
      .ok ⟨⟨off, off + q1.bytes.length + wsum c + q2.bytes.length⟩, ⟨off + q1.bytes.length, off + q1.bytes.length + wsum c⟩⟩
        ⟨off + q1.bytes.length + wsum c + q2.bytes.length, r⟩ := by
  have vc : Valid c := (hv.tail).left
  have vq2 : q2.invalid = false := ((hv.tail).right).head
  unfold parseQuotedString
  simp only [List.cons_append]
  rw [readCharacter_complete 34 off q1 (c ++ q2 :: r) h1 (HeadValid.append vc (HeadValid.cons vq2))]
  simp only [Res.bind]
  rw [readWhile_complete _ _ c (q2 :: r) hc vc (HeadValid.cons vq2) (HeadNot.cons (by simp [h2]))]
  simp only
  rw [readCharacter_complete 34 _ q2 r h2 hr]
  simp [rng]

end Knut.Syntax
