import Knut.FactsAgree.TransPerformance
import Knut.FactsAgree.TransTransaction
import Knut.FactsAgree.TransDate
import Knut.FactsAgree.TransProcess
/-!
# The translated `lib/journal/performance` agrees with the model, part 2: `split`, `ComputeFlows`, `Perf`

| Go | theorem | model |
|---|---|---|
| `split` (a `range` over the map of flows) | `split_range_agrees`, `split_agrees` | `posPart`, `negPart`: for EVERY iteration order that reaches each key once, the sum of `in` grows by the positive flows and the sum of `out` by the negative ones |
| `ComputeFlows.DayStart` | `ComputeFlows_DayStart_agrees` | — (the day's `Performance`, or a new one) |
| `ComputeFlows.Transaction` | `ComputeFlows_step_agrees` (one posting = `txFlowStep`), `ComputeFlows_Transaction_agrees` | `txFlows` and one step of `dayFlows` |
| `ComputeFlows.DayEnd` | `ComputeFlows_DayEnd_agrees` | `DayPerf.portfolioFlows` (its positive and negative part) |
| `Perf.DayEnd`, `Perf` over the days | `Perf_DayEnd_agrees`, `Perf_days_agrees`, `Perf_days_undefined` | `perfLines` |

The model keeps of the maps `Inflow`/`Outflow` only their sums (`DayPerf.inflow/outflow`) and ignores `InternalInflow`/`InternalOutflow`,
which the code computes but never reads: the theorems say nothing about those two maps (except that computing them does not panic:
the divisor `float64(len(tgts))` is not zero where it is used).  In exact arithmetic no result depends on an iteration order.
-/
namespace Knut.FactsAgree.TransPerformance
open Knut Knut.GoSem Knut.MapSum
open Knut.Generated.Go
open Knut.FactsAgree.TransAccount Knut.FactsAgree.TransPosting Knut.FactsAgree.TransTransaction
open Knut.FactsAgree.TransCheck (commodityGo_inj)
open Knut.FactsAgree.TransDate (partitionGo)

/-! ## `split` -/

/-- the positive part of a flow -/
def posOf (x : Rat) : Rat := if 0 < x then x else 0
/-- the negative part of a flow -/
def negOf (x : Rat) : Rat := if x < 0 then x else 0

theorem posPart_eq_msum (m : AMap Knut.Commodity Rat) : Performance.posPart m = msum posOf m := by
  unfold Performance.posPart msum
  rw [sum_filter, List.map_map]
  congr 1
  apply List.map_congr_left
  intro e _
  simp [posOf]

theorem negPart_eq_msum (m : AMap Knut.Commodity Rat) : Performance.negPart m = msum negOf m := by
  unfold Performance.negPart msum
  rw [sum_filter, List.map_map]
  congr 1
  apply List.map_congr_left
  intro e _
  simp [negOf]

/-- the loop of `split` in ANY order: the sum of `in` grows by the positive flows of the keys reached, the sum of `out` by the negative
ones; no key twice afterwards either -/
theorem split_range_agrees (flows : AMap commodity.Commodity Rat) :
    ∀ (o : List commodity.Commodity) (i u : AMap commodity.Commodity Rat), NodupKeys i → NodupKeys u →
      NodupKeys (performance.split.range1 flows o i u).1 ∧ NodupKeys (performance.split.range1 flows o i u).2 ∧
      total (performance.split.range1 flows o i u).1 = total i + (o.map (contrib posOf flows)).sum ∧
      total (performance.split.range1 flows o i u).2 = total u + (o.map (contrib negOf flows)).sum := by
  intro o
  induction o with
  | nil => intro i u hi hu; simp [performance.split.range1, hi, hu, Rat.add_zero]
  | cons k o ih =>
    intro i u hi hu
    unfold performance.split.range1
    cases hf : AMap.find? flows k with
    | none =>
      simp only [Option.isSome_none, Bool.not_false, if_true, List.map_cons, sum_cons, contrib, hf]
      obtain ⟨h1, h2, h3, h4⟩ := ih i u hi hu
      refine ⟨h1, h2, ?_, ?_⟩
      · rw [h3]; grind
      · rw [h4]; grind
    | some f =>
      simp only [Option.isSome_some, Bool.not_true, Bool.false_eq_true, if_false, AMap.get, hf, Option.getD_some, zero_rat,
        List.map_cons, sum_cons, contrib]
      by_cases hp : (0 : Rat) < f
      · have hnn : ¬ f < 0 := Rat.not_lt.mpr (Rat.le_of_lt hp)
        simp only [gt_iff_lt, hp, decide_true, if_true]
        obtain ⟨h1, h2, h3, h4⟩ := ih (AMap.set i k ((AMap.find? i k).getD 0 + f)) u (nodupKeys_set _ _ _ hi) hu
        refine ⟨h1, h2, ?_, ?_⟩
        · rw [h3]
          have := total_set_add i k f
          simp only [AMap.get] at this
          rw [this]; simp only [posOf, hp, if_true]; grind
        · rw [h4]; simp only [negOf, hnn, if_false]; grind
      · simp only [gt_iff_lt, hp, decide_false, Bool.false_eq_true, if_false]
        by_cases hn : f < 0
        · simp only [hn, decide_true, if_true]
          obtain ⟨h1, h2, h3, h4⟩ := ih i (AMap.set u k ((AMap.find? u k).getD 0 + f)) hi (nodupKeys_set _ _ _ hu)
          refine ⟨h1, h2, ?_, ?_⟩
          · rw [h3]; simp only [posOf, hp, if_false]; grind
          · rw [h4]
            have := total_set_add u k f
            simp only [AMap.get] at this
            rw [this]; simp only [negOf, hn, if_true]; grind
        · simp only [hn, decide_false, Bool.false_eq_true, if_false]
          obtain ⟨h1, h2, h3, h4⟩ := ih i u hi hu
          refine ⟨h1, h2, ?_, ?_⟩
          · rw [h3]; simp only [posOf, hp, if_false]; grind
          · rw [h4]; simp only [negOf, hn, if_false]; grind

/-- **`split`** for EVERY iteration order `o` of the keys of `flows` (each key once): the sum of `in` grows by the positive flows, the
sum of `out` by the negative ones -/
theorem split_agrees (flows : AMap commodity.Commodity Rat) (hf : NodupKeys flows) (o : List commodity.Commodity) (ho : o.Nodup)
    (hall : ∀ k, (AMap.find? flows k).isSome → k ∈ o) (i u : AMap commodity.Commodity Rat) (hi : NodupKeys i) (hu : NodupKeys u) :
    NodupKeys (performance.split flows i u o).1 ∧ NodupKeys (performance.split flows i u o).2 ∧
      total (performance.split flows i u o).1 = total i + msum posOf flows ∧
      total (performance.split flows i u o).2 = total u + msum negOf flows := by
  have h := split_range_agrees flows o i u hi hu
  rw [osum_eq_msum posOf flows o hf ho hall, osum_eq_msum negOf flows o hf ho hall] at h
  exact h

/-- `split` in an arbitrary order: the maps stay without repeated keys (used for the internal flows, which the model ignores) -/
theorem split_nodup (flows : AMap commodity.Commodity Rat) (o : List commodity.Commodity) (i u : AMap commodity.Commodity Rat)
    (hi : NodupKeys i) (hu : NodupKeys u) :
    NodupKeys (performance.split flows i u o).1 ∧ NodupKeys (performance.split flows i u o).2 :=
  ⟨(split_range_agrees flows o i u hi hu).1, (split_range_agrees flows o i u hi hu).2.1⟩

/-! ## `ComputeFlows` -/

example : performance.Calculator.ComputeFlows.callbacks = ["DayStart", "Transaction", "DayEnd"] := rfl
example : performance.Calculator.ComputeFlows.nonNil = [] := rfl
/-- the two pointer copies that the translation reads as copies of the value: `DayStart` takes the day's `*Performance` into the captured
variable, `DayEnd` stores it back into the day; in between only the closures of this processor run on the day (`Processor.Process`
finishes a day before the next stage sees it), so the object is not read through the day's pointer while the copy is being updated -/
example : performance.Calculator.ComputeFlows.externals =
    ["DayStart.copy performance = d.Performance [a pointer copied as a value: exact while the object is not read through the other pointer before the copy is stored back]",
     "DayEnd.copy d.Performance = performance [a pointer copied as a value: exact while the object is not read through the other pointer before the copy is stored back]"] := rfl

/-- **`ComputeFlows.DayStart`**: the flows of the portfolio start at 0; the captured `performance` is the day's, or a new one -/
theorem ComputeFlows_DayStart_agrees (st : performance.Calculator.ComputeFlows.State) (d : journal.Day) :
    performance.Calculator.ComputeFlows.DayStart st d =
      ({ portfolioFlows := 0, performance := some (d.Performance.getD GoZero.zero) }, none) := by
  unfold performance.Calculator.ComputeFlows.DayStart
  cases hp : d.Performance <;> simp

@[simp] theorem bind_ok' {α β : Type} (a : α) (f : α → GoSem.Outcome β) : GoSem.Outcome.bind (.ok a) f = f a := rfl
@[simp] theorem bind_panic' {α β : Type} (m : String) (f : α → GoSem.Outcome β) :
    GoSem.Outcome.bind (GoSem.Outcome.panic m : GoSem.Outcome α) f = .panic m := rfl

/-- a fold in the monad that steps along a model fold (the elements related one by one) -/
theorem foldlE_rel {σ α β μ ρ : Type} (F : σ → α → GoSem.Outcome σ) (step : μ → β → μ) (R : σ → μ → Prop) (rel : α → β → Prop)
    (hstep : ∀ s m a b, R s m → rel a b → ∃ s', F s a = .ok s' ∧ R s' (step m b)) :
    ∀ (as : List α) (bs : List β), TransProcess.AllRel rel as bs → ∀ (s : σ) (m : μ), R s m →
      ∀ (K : σ → GoSem.Outcome ρ) (P : GoSem.Outcome ρ → Prop),
      (∀ s', R s' (bs.foldl step m) → P (K s')) → P (GoSem.Outcome.bind (foldlE F s as) K) := by
  intro as bs hrel
  induction hrel with
  | nil => intro s m hR K P hK; exact hK s hR
  | @cons a b as bs hab _ ih =>
    intro s m hR K P hK
    obtain ⟨s', hs', hR'⟩ := hstep s m a b hR hab
    simp only [foldlE, hs', GoSem.Outcome.bind]
    exact ih s' (step m b) hR' K P hK

/-- a fold in the monad whose steps never fail does not fail -/
theorem foldlE_ok {σ α : Type} (F : σ → α → GoSem.Outcome σ) (hstep : ∀ s a, ∃ s', F s a = .ok s') :
    ∀ (l : List α) (s : σ), ∃ s', foldlE F s l = .ok s' := by
  intro l
  induction l with
  | nil => intro s; exact ⟨s, rfl⟩
  | cons a l ih =>
    intro s
    obtain ⟨s', hs'⟩ := hstep s a
    simp only [foldlE, hs', GoSem.Outcome.bind]
    exact ih s'

/-- the loop state of `ComputeFlows.Transaction` (portfolio flows, flows, internal flows) against the model's accumulator: the flows per
commodity by lookups, the portfolio flows as the change since the start of the transaction; nothing about the internal flows -/
def FlowRel (cur : String → Bool) (pf0 : Rat) (s : Rat × AMap commodity.Commodity Rat × AMap commodity.Commodity Rat)
    (m : AMap Knut.Commodity Rat × Rat) : Prop :=
  s.1 = pf0 + m.2 ∧ PEq cur s.2.1 m.1

theorem getD_map_len (cur : String → Bool) (l : List Knut.Commodity) : ((l.map (commodityGo cur)).length : Int) = (l.length : Int) := by
  simp

/-- **`ComputeFlows.Transaction`**: the flows of the transaction per commodity (`txFlows`) are split into the day's `Inflow` and `Outflow`
(their sums grow by `posPart` and `negPart`), the portfolio flows change as in the model; for EVERY iteration order `o1` of the flows
(each key once) and every order `o2` of the internal flows; never an error, never a panic, no division by zero -/
theorem ComputeFlows_Transaction_agrees (cur : String → Bool) (cfg : Performance.Cfg) (pf : Rat) (perf : journal.Performance)
    (hin : NodupKeys perf.Inflow) (hout : NodupKeys perf.Outflow) (hii : NodupKeys perf.InternalInflow) (hio : NodupKeys perf.InternalOutflow)
    (t : Knut.Transaction) (hcur : ∀ l, t.targets = some l → ∀ c ∈ l, cur c = false) (tg : transaction.Transaction)
    (htr : TransProcess.TRel cur tg t)
    (o1 o2 : List commodity.Commodity) (ho1 : o1.Nodup)
    (hc1 : ∀ c, (AMap.find? (Performance.txFlows cfg t).1 c).isSome → commodityGo cur c ∈ o1) :
    ∃ perf', performance.Calculator.ComputeFlows.Transaction (calcGo cur cfg) ⟨pf, some perf⟩ tg o1 o2 =
        .ok (⟨pf + (Performance.txFlows cfg t).2, some perf'⟩, none) ∧
      perf'.V0 = perf.V0 ∧ perf'.V1 = perf.V1 ∧ perf'.PortfolioInflow = perf.PortfolioInflow ∧
      perf'.PortfolioOutflow = perf.PortfolioOutflow ∧
      NodupKeys perf'.Inflow ∧ NodupKeys perf'.Outflow ∧ NodupKeys perf'.InternalInflow ∧ NodupKeys perf'.InternalOutflow ∧
      total perf'.Inflow = total perf.Inflow + Performance.posPart (Performance.txFlows cfg t).1 ∧
      total perf'.Outflow = total perf.Outflow + Performance.negPart (Performance.txFlows cfg t).1 := by
  obtain ⟨_, _, hps, htgts⟩ := htr
  unfold performance.Calculator.ComputeFlows.Transaction
  have htg := pickTargets_agrees cur (calcGo cur cfg).Valuation t.targets hcur
  simp only [htgts, htg, zero_rat]
  refine foldlE_rel _ (Performance.txFlowStep cfg (Performance.pickTargets t.targets)) (FlowRel cur pf) (TransProcess.PRel cur) ?_
    tg.Postings t.postings hps _ (([] : AMap Knut.Commodity Rat), (0 : Rat)) ?_ _
    (fun r => ∃ perf' : journal.Performance, r = GoSem.Outcome.ok ((⟨pf + (Performance.txFlows cfg t).2, some perf'⟩ :
        performance.Calculator.ComputeFlows.State), (none : Option Error)) ∧
      perf'.V0 = perf.V0 ∧ perf'.V1 = perf.V1 ∧ perf'.PortfolioInflow = perf.PortfolioInflow ∧
      perf'.PortfolioOutflow = perf.PortfolioOutflow ∧
      NodupKeys perf'.Inflow ∧ NodupKeys perf'.Outflow ∧ NodupKeys perf'.InternalInflow ∧ NodupKeys perf'.InternalOutflow ∧
      total perf'.Inflow = total perf.Inflow + Performance.posPart (Performance.txFlows cfg t).1 ∧
      total perf'.Outflow = total perf.Outflow + Performance.negPart (Performance.txFlows cfg t).1) ?_
  · -- one posting
    intro s m pg p hR hpg
    obtain ⟨pf1, fl, intf⟩ := s
    obtain ⟨hpf, hfl⟩ := hR
    simp only at hpf hfl
    rw [show pg = postingGo cur pg.Src p from hpg]
    simp only [postingGo, isPortfolioAccount_agrees, bind_ok', Performance.txFlowStep, Performance.pickTargets]
    by_cases h1 : Performance.isPortfolio cfg p.account = true
    · simp only [h1, Bool.not_true, Bool.false_eq_true, if_false]
      by_cases h2 : Performance.isPortfolio cfg p.other = true
      · simp only [h2, if_true]; exact ⟨_, rfl, hpf, hfl⟩
      · simp only [h2, Bool.false_eq_true, if_false, F64.ofDecimal2_fst]
        rcases htgt : t.targets with _ | l
        · -- no annotation: a regular flow
          simp only [Option.map_none, Option.getD_none, len, List.length_nil, Int.natCast_zero, Int.reduceEq, decide_false,
            Bool.false_eq_true, if_false, Option.isNone_none, if_true, reduceCtorEq]
          refine ⟨_, rfl, hpf, ?_⟩
          have hg : AMap.get fl (commodityGo cur p.commodity) 0 = AMap.get m.1 p.commodity 0 := by
            simp only [AMap.get, hfl.lookup]
          simp only [hg]
          exact MEquiv_set (cinj cur) hfl _ _
        · simp only [Option.map_some, Option.getD_some, len, List.length_map, Option.isNone_some, Bool.false_eq_true, if_false]
          rcases l with _ | ⟨x, l⟩
          · -- @performance(): the portfolio as a whole
            simp only [List.length_nil, Int.natCast_zero, Int.reduceEq, decide_false, Bool.false_eq_true, if_false, decide_true, if_true,
              Option.some.injEq, List.nil_eq, reduceCtorEq]
            refine ⟨_, rfl, ?_, hfl⟩
            simp only [hpf]; grind
          · rcases l with _ | ⟨y, l⟩
            · -- one target
              simp only [List.length_cons, List.length_nil, Nat.zero_add, Int.natCast_one, decide_true, if_true, List.map_cons, List.map_nil,
                index, Int.lt_irrefl, if_false, Int.toNat_zero, List.getElem?_cons_zero, Option.some.injEq, List.cons.injEq, and_true]
              by_cases hx : x = p.commodity
              · subst hx
                simp only [bind_ok', decide_true, if_true]
                exact ⟨_, rfl, hpf, hfl⟩
              · have hx' : ¬ commodityGo cur x = commodityGo cur p.commodity := fun e => hx (commodityGo_inj cur e)
                have hl : ((1 : Int) : Rat) ≠ 0 := by decide
                simp only [bind_ok', hx', hx, decide_false, Bool.false_eq_true, if_false, Int.reduceEq, foldlE, F64.divE_ne hl]
                exact ⟨_, rfl, hpf, hfl⟩
            · -- several targets: re-allocated among them (internal flows only)
              have hlen : ¬ (((l.length + 1 + 1 : Nat) : Int) = 1) := by omega
              have hlen0 : ¬ (((l.length + 1 + 1 : Nat) : Int) = 0) := by omega
              simp only [List.length_cons, hlen, hlen0, decide_false, Bool.false_eq_true, if_false, Option.some.injEq, List.cons.injEq,
                reduceCtorEq, and_false]
              have hl : (((l.length + 1 + 1 : Nat) : Int) : Rat) ≠ 0 := by
                intro h
                have : ((l.length + 1 + 1 : Nat) : Int) = 0 := by exact_mod_cast h
                omega
              obtain ⟨r, hr⟩ := foldlE_ok
                (fun (st12 : AMap commodity.Commodity Rat) (el13 : commodity.Commodity) =>
                  GoSem.Outcome.bind (F64.divE p.value (((l.length + 1 + 1 : Nat) : Int) : Rat)) (fun t15 =>
                    GoSem.Outcome.ok (AMap.set st12 el13 (AMap.get st12 el13 (0 : Rat) - t15))))
                (by intro s a; simp only [F64.divE_ne hl, bind_ok']; exact ⟨_, rfl⟩)
                (List.map (commodityGo cur) (x :: y :: l))
                (AMap.set intf (commodityGo cur p.commodity) (AMap.get intf (commodityGo cur p.commodity) 0 + p.value))
              simp only [hr, bind_ok']
              exact ⟨_, rfl, hpf, hfl⟩
    · simp only [h1, Bool.not_false, if_true]; exact ⟨_, rfl, hpf, hfl⟩
  · exact ⟨(Rat.add_zero pf).symm, MEquiv_nil _⟩
  · -- after the loop: the two calls of `split`
    intro s' hR
    obtain ⟨pf1, fl, intf⟩ := s'
    obtain ⟨hpf, hfl⟩ := hR
    simp only at hpf hfl
    simp only [derefE_some, bind_ok']
    have hall : ∀ k, (AMap.find? fl k).isSome → k ∈ o1 := by
      intro k hk
      obtain ⟨c, rfl⟩ := hfl.keys k hk
      rw [hfl.lookup c] at hk
      exact hc1 c hk
    obtain ⟨a1, a2, a3, a4⟩ := split_agrees fl hfl.gnodup o1 ho1 hall perf.Inflow perf.Outflow hin hout
    obtain ⟨b1, b2⟩ := split_nodup intf o2 perf.InternalInflow perf.InternalOutflow hii hio
    refine ⟨{ perf with
        Inflow := (performance.split fl perf.Inflow perf.Outflow o1).fst
        Outflow := (performance.split fl perf.Inflow perf.Outflow o1).snd
        InternalInflow := (performance.split intf perf.InternalInflow perf.InternalOutflow o2).fst
        InternalOutflow := (performance.split intf perf.InternalInflow perf.InternalOutflow o2).snd },
      ?_, rfl, rfl, rfl, rfl, a1, a2, b1, b2, ?_, ?_⟩
    · rw [hpf]; rfl
    · rw [a3, msum_congr (cinj cur) posOf _ _ hfl, posPart_eq_msum]; rfl
    · rw [a4, msum_congr (cinj cur) negOf _ _ hfl, negPart_eq_msum]; rfl

/-- **`ComputeFlows.DayEnd`**: the positive and the negative part of the day's portfolio flows, and the `Performance` back into the day -/
theorem ComputeFlows_DayEnd_agrees (pf : Rat) (perf : journal.Performance) (d : journal.Day) :
    performance.Calculator.ComputeFlows.DayEnd ⟨pf, some perf⟩ d =
      .ok (⟨pf, some { perf with PortfolioInflow := F64.max 0 pf, PortfolioOutflow := F64.min 0 pf }⟩,
        { d with Performance := some { perf with PortfolioInflow := F64.max 0 pf, PortfolioOutflow := F64.min 0 pf } }, none) := by
  unfold performance.Calculator.ComputeFlows.DayEnd
  simp [Outcome.bind]

theorem ComputeFlows_DayEnd_nil (pf : Rat) (d : journal.Day) :
    performance.Calculator.ComputeFlows.DayEnd ⟨pf, none⟩ d = .panic nilDeref := rfl

/-! ## `Perf` -/

example : performance.Perf.callbacks = ["DayEnd"] := rfl
example : performance.Perf.nonNil = [] := rfl
/-- `ds` is the set of the period end days registered in the builder; a `*journal.Day` as an element of the set is its date
(the builder holds one `*Day` per date) -/
example : performance.Perf.externals = ["init.ext1 = set.FromSlice(j.Days(part.EndDates()))"] := rfl

/-- the initial state: the start dates of the partition, a running product of 1, nothing printed -/
theorem Perf_init_agrees (j : journal.Builder) (part : Knut.Partition) (ds : set.Set Int) :
    performance.Perf.init j (partitionGo part) ds = ⟨ds, part.startDates, 1, []⟩ := by
  simp [performance.Perf.init, TransDate.StartDates_agrees]

/-- what `Perf` prints on a period end day: `fmt.Printf("%v: %0.1f%%\n", d.Date, 100*(running-1))` with its exact operands (the rounding
to one decimal of the binary float is outside the exact-arithmetic reading and is not interpreted) -/
def perfLine (d : Int) (x : Rat) : Stdout.PrintfCall := { format := "%v: %0.1f%%\n", args := [.time d, .float (100 * x)] }

/-- the two tests of `Perf.DayEnd` (`part.Contains(d.Date)`, not before the first reported period) are `perfSpan` -/
theorem perfSpan_contains (part : Knut.Partition) (t : Int) :
    (Performance.perfSpan part).contains t =
      (part.span.contains t && !(match part.startDates with | [] => false | s :: _ => decide (t < s))) := by
  unfold Performance.perfSpan
  cases part.startDates with
  | nil => simp
  | cons s rest =>
    simp only [Knut.Period.contains]
    by_cases h1 : part.span.start < s
    · by_cases h2 : t < s <;> by_cases h3 : t < part.span.start <;> by_cases h4 : t > part.span.stop <;>
        simp [h1, h2, h3, h4] <;> omega
    · by_cases h2 : t < s <;> by_cases h3 : t < part.span.start <;> by_cases h4 : t > part.span.stop <;>
        simp [h1, h2, h3, h4] <;> omega

/-- **`Perf.DayEnd`** = one step of `perfLines`: a day outside the reported span is skipped; otherwise the running product takes the
day's factor (`Performance`), and on a period end day the return of the period is printed and the product starts again at 1.  An
undefined factor (division by zero) ends the translated run with `F64.undefined` — Go prints `NaN`/`±Inf` for that period and goes
on, which the model's `perfLines` describes (`none`, then `some 1`) and the translation does not -/
theorem Perf_DayEnd_agrees (cur : String → Bool) (part : Knut.Partition) (ds : set.Set Int)
    (hds : ∀ x, set.Set.Has ds x = part.endDates.contains x) (r : Rat) (out : List Stdout.PrintfCall)
    (d : journal.Day) (p : journal.Performance) (dp : Performance.DayPerf) (hp : d.Performance = some p) (hrel : PerfRel cur p dp)
    (hdate : d.Date = dp.date) :
    performance.Perf.DayEnd (partitionGo part) ⟨ds, part.startDates, r, out⟩ d =
      if !(Performance.perfSpan part).contains dp.date then .ok (⟨ds, part.startDates, r, out⟩, none)
      else match Performance.factor dp with
        | none => .panic F64.undefined
        | some f =>
          if part.endDates.contains dp.date then .ok (⟨ds, part.startDates, 1, out ++ [perfLine dp.date (r * f - 1)]⟩, none)
          else .ok (⟨ds, part.startDates, r * f, out⟩, none) := by
  unfold performance.Perf.DayEnd
  simp only [TransDate.Partition_Contains_agrees, perfSpan_contains, hdate, hp, Performance_agrees cur hrel, hds,
    Knut.Partition.contains]
  by_cases hc : part.span.contains dp.date = true
  · simp only [hc, Bool.not_true, Bool.false_eq_true, if_false, Bool.true_and]
    cases hs : part.startDates with
    | nil =>
      simp only [len, List.length_nil, Int.natCast_zero, gt_iff_lt, Int.lt_irrefl, decide_false, Bool.false_eq_true, if_false,
        bind_ok', Bool.not_false, Bool.not_true]
      cases Performance.factor dp with
      | none => rfl
      | some f =>
        simp only [bind_ok']
        by_cases he : part.endDates.contains dp.date = true
        · simp only [he, if_true, perfLine]
        · simp only [he, Bool.false_eq_true, if_false]
    | cons s0 rest =>
      have hl : (0 : Int) < ((rest.length + 1 : Nat) : Int) := by omega
      simp only [len, List.length_cons, gt_iff_lt, hl, decide_true, if_true, index, Int.lt_irrefl, if_false, Int.toNat_zero,
        List.getElem?_cons_zero, bind_ok', Time.Before]
      by_cases hb : dp.date < s0
      · simp only [hb, decide_true, if_true, Bool.not_true, Bool.not_false]
      · simp only [hb, decide_false, Bool.false_eq_true, if_false, Bool.not_false, Bool.not_true]
        cases Performance.factor dp with
        | none => rfl
        | some f =>
          simp only [bind_ok']
          by_cases he : part.endDates.contains dp.date = true
          · simp only [he, if_true, perfLine]
          · simp only [he, Bool.false_eq_true, if_false]
  · simp only [hc, Bool.not_false, if_true, Bool.false_and]

/-- a day of the Go journal after `ComputeValues` and `ComputeFlows` stands for the model's `DayPerf` -/
def DayRel (cur : String → Bool) (d : journal.Day) (dp : Performance.DayPerf) : Prop :=
  d.Date = dp.date ∧ ∃ p, d.Performance = some p ∧ PerfRel cur p dp

/-- `Perf.DayEnd` day after day (it never returns an error; `Processor.Process` stops at a panic) -/
def perfRun (partG : date.Partition) : performance.Perf.State → List journal.Day → GoSem.Outcome performance.Perf.State
  | st, [] => .ok st
  | st, d :: rest => (performance.Perf.DayEnd partG st d).bind fun r => perfRun partG r.1 rest

/-- a line of `perfLines` as the recorded `Printf` call -/
def lineGo (l : Int × Option Rat) : Stdout.PrintfCall := perfLine l.1 (l.2.getD 0)

/-- **`Perf` over the days** = `perfLines`, when every day inside the reported span has a defined factor: what is printed is the
model's lines, in order, with their exact values -/
theorem Perf_days_agrees (cur : String → Bool) (part : Knut.Partition) (ds : set.Set Int)
    (hds : ∀ x, set.Set.Has ds x = part.endDates.contains x) :
    ∀ (days : List journal.Day) (dps : List Performance.DayPerf), TransProcess.AllRel (DayRel cur) days dps →
      (∀ dp ∈ dps, (Performance.perfSpan part).contains dp.date = true → (Performance.factor dp).isSome) →
      ∀ (r : Rat) (out : List Stdout.PrintfCall), ∃ r',
        perfRun (partitionGo part) ⟨ds, part.startDates, r, out⟩ days =
          .ok ⟨ds, part.startDates, r', out ++ (Performance.perfLines (Performance.perfSpan part) part.endDates (some r) dps).map lineGo⟩ := by
  intro days dps hrel
  induction hrel with
  | nil => intro _ r out; exact ⟨r, by simp [perfRun, Performance.perfLines]⟩
  | @cons d dp days dps hd _ ih =>
    intro hdef r out
    obtain ⟨hdate, p, hp, hpr⟩ := hd
    have hdef' : ∀ dp' ∈ dps, (Performance.perfSpan part).contains dp'.date = true → (Performance.factor dp').isSome :=
      fun dp' h => hdef dp' (List.mem_cons_of_mem _ h)
    simp only [perfRun, Perf_DayEnd_agrees cur part ds hds r out d p dp hp hpr hdate, Performance.perfLines]
    by_cases hc : (Performance.perfSpan part).contains dp.date = true
    · have hsome := hdef dp (List.mem_cons_self ..) hc
      obtain ⟨f, hf⟩ := Option.isSome_iff_exists.1 hsome
      simp only [hc, Bool.not_true, Bool.false_eq_true, if_false, hf, Performance.mulOpt]
      by_cases he : part.endDates.contains dp.date = true
      · simp only [he, if_true, bind_ok', Option.map_some, List.map_cons]
        obtain ⟨r', hr'⟩ := ih hdef' 1 (out ++ [perfLine dp.date (r * f - 1)])
        refine ⟨r', ?_⟩
        rw [hr']
        simp [lineGo, List.append_assoc]
      · simp only [he, Bool.false_eq_true, if_false, bind_ok']
        exact ih hdef' (r * f) out
    · simp only [hc, Bool.not_false, if_true, bind_ok']
      exact ih hdef' r out

/-- a day inside the reported span whose factor is undefined (division by zero) ends the translated run with `F64.undefined`, whatever
follows (the model goes on: that period's line is `none`, printed `NaN`/`±Inf` by Go) -/
theorem Perf_days_undefined (cur : String → Bool) (part : Knut.Partition) (ds : set.Set Int)
    (hds : ∀ x, set.Set.Has ds x = part.endDates.contains x) :
    ∀ (days : List journal.Day) (dps : List Performance.DayPerf), TransProcess.AllRel (DayRel cur) days dps →
      (∃ dp ∈ dps, (Performance.perfSpan part).contains dp.date = true ∧ Performance.factor dp = none) →
      ∀ (r : Rat) (out : List Stdout.PrintfCall),
        perfRun (partitionGo part) ⟨ds, part.startDates, r, out⟩ days = .panic F64.undefined := by
  intro days dps hrel
  induction hrel with
  | nil => intro h; obtain ⟨_, hm, _⟩ := h; simp at hm
  | @cons d dp days dps hd _ ih =>
    intro hex r out
    obtain ⟨hdate, p, hp, hpr⟩ := hd
    simp only [perfRun, Perf_DayEnd_agrees cur part ds hds r out d p dp hp hpr hdate]
    by_cases hc : (Performance.perfSpan part).contains dp.date = true
    · simp only [hc, Bool.not_true, Bool.false_eq_true, if_false]
      cases hf : Performance.factor dp with
      | none => rfl
      | some f =>
        have hex' : ∃ dp' ∈ dps, (Performance.perfSpan part).contains dp'.date = true ∧ Performance.factor dp' = none := by
          obtain ⟨dp', hm, h1, h2⟩ := hex
          rcases List.mem_cons.1 hm with rfl | hm
          · rw [hf] at h2; cases h2
          · exact ⟨dp', hm, h1, h2⟩
        by_cases he : part.endDates.contains dp.date = true
        · simp only [he, if_true, bind_ok']; exact ih hex' _ _
        · simp only [he, Bool.false_eq_true, if_false, bind_ok']; exact ih hex' _ _
    · have hex' : ∃ dp' ∈ dps, (Performance.perfSpan part).contains dp'.date = true ∧ Performance.factor dp' = none := by
        obtain ⟨dp', hm, h1, h2⟩ := hex
        rcases List.mem_cons.1 hm with rfl | hm
        · exact absurd h1 hc
        · exact ⟨dp', hm, h1, h2⟩
      simp only [hc, Bool.not_false, if_true, bind_ok']; exact ih hex' _ _

end Knut.FactsAgree.TransPerformance
