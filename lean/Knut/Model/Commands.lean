import Knut.Model.Loader
import Knut.Model.BalanceCmd
import Knut.Model.Beancount
import Knut.Model.Accrual
import Knut.Model.Infer
import Knut.Model.JournalPrinter
import Knut.Syntax.Parser
import Knut.Syntax.Printer
import Knut.Spec.SyntaxTree
/-!
# Outcome model of the journal-processing commands (`cmd/commands/*.go`)

`Cmd.run : Command → FileSys → Flags → CmdOutcome` composes

```
os.ReadFile / include graph     Loader.load            (this property; parser = Knut.Syntax.parseText)
model.FromStream                elabFile               (this file: dates, decimals, accounts, commodities, transaction.Create)
journal.FromModelStream         Builder.ofList         (Model/Journal.lean)
the command's processors        Check.run, BalanceCmd.run, Beancount.run, JournalPrinter.print, Syntax.formatFile, Infer.inferCmd
```

`CmdOutcome.ok` carries the bytes written to standard output; `.error` (exit status 1 and a diagnostic) and
`.panic` carry none: the commands create their writer on standard output only after the last call that can
fail (`FactsAgree/C14.lean` checks this against the source on every run), so a failing command has written
nothing. Every panic site of the modelled code is an explicit `.panic`.

Not modelled: cobra/pflag (flag syntax, unknown flags, missing positional argument), regular expressions,
`--cpuprofile`, colours, the text written by `portfolio` (only its outcome class: `Cmd.portfolioClass`),
`check --no-check`.
-/
namespace Knut.Syntax
set_option linter.unusedVariables false

/-- the loop of `ParseFile` once more, returning the directives for which `Callback` has fired when the loop is
left — with or without an error (`acc` newest first). `fileLoopSeen_fst` shows it computes `fileLoop`. -/
def fileLoopSeen (path : String) (start : Nat) (acc : List Directive) (s : St) : Res File × List Directive :=
  if hE : atEOF s then (.ok ⟨rng start s, acc.reverse⟩ s, acc.reverse)
  else
    match h1 : fileItem s with
    | .err e s1 => (.err (annotate (fileDesc path) start e s1) s1, acc.reverse)
    | .ok d s1 =>
      if hE1 : atEOF s1 then (.ok ⟨rng start s1, (pushOpt d acc).reverse⟩ s1, (pushOpt d acc).reverse)
      else
        match h2 : readRestOfWhitespaceLine s1 with
        | .err e s2 => (.err (annotate (fileDesc path) start e s2) s2, (pushOpt d acc).reverse)
        | .ok _ s2 => fileLoopSeen path start (pushOpt d acc) s2
termination_by s.toks.length
decreasing_by
  have a := ext_of_ok (fileItem_ext _) h1
  have b := readRestOfWhitespaceLine_extS s1 s2 _ (by simpa using hE1) h2
  exact (a.trans_extS b).length_lt

end Knut.Syntax

namespace Knut.Commands
open Knut.Loader (FileSys Parsed load Path LoadErr)
open Knut.Syntax (File Range Err St Res fileLoopSeen formatFile)

abbrev Bytes := List UInt8

/-! ## Text of syntax elements -/

/-- a Go string as a Lean `String`: decoded like `for _, r := range s` (an invalid byte is U+FFFD). Names of
accounts and commodities, dates and decimals accepted by the scanner are valid UTF-8; only descriptions and
include paths can contain invalid bytes, and only the model's *text* of a description then differs from Go's. -/
def strOf (bs : Bytes) : String := String.ofList ((Utf8.decodeAll bs).map (fun t => Char.ofNat t.r))

/-- `Range.Extract()`; for every element of a tree returned by the parser this is the slice
(`Knut.C07.C07_extract_is_slice`: `Extract` never violates a slice bound) -/
def textOf (text : Bytes) (r : Range) : String := strOf (Spec.Syntax.slice text r.start r.stop)

/-! ## The parser as the loader sees it -/

/-- the include paths among the given directives, in order:
`inc.IncludePath.Content.Extract()` of every `directives.Include` -/
def includePaths (text : Bytes) (ds : List Syntax.Directive) : List String :=
  ds.filterMap (fun d => match d.body with
    | .include i => some (textOf text i.includePath.content)
    | _ => none)

/-- `os.ReadFile` done, `parser.New`, `Advance`, `ParseFile` with the include callback -/
def parseForLoader (file : Path) (text : Bytes) : Parsed Err (Bytes × File) :=
  match Syntax.start (Utf8.decodeAll text) with
  | .err e _ => { includes := [], result := .error e }
  | .ok _ s =>
    let (r, seen) := fileLoopSeen file s.off [] s
    { includes := includePaths text seen,
      result := match r with
        | .ok f _ => .ok (text, f)
        | .err e _ => .error e }

/-! ## `model.FromStream`: syntax directives to model directives -/

/-- errors and panics travel in the error channel -/
abbrev M := Except CmdOutcome

def asciiDigit (c : Char) : Bool := '0' ≤ c && c ≤ '9'
def digitVal (c : Char) : Int := (c.toNat - '0'.toNat : Nat)

/-- number of days of month `m` (1..12) in year `y` -/
def daysIn (y m : Int) : Int := Date.cumDays (Date.isLeap y) (m + 1) - Date.cumDays (Date.isLeap y) m

/-- `time.Parse("2006-01-02", s)`: four, two and two ASCII digits, month 1..12, day within the month -/
def parseDate (s : String) : Option Int :=
  match s.toList with
  | [y1, y2, y3, y4, '-', m1, m2, '-', d1, d2] =>
    if [y1, y2, y3, y4, m1, m2, d1, d2].all asciiDigit then
      let y := digitVal y1 * 1000 + digitVal y2 * 100 + digitVal y3 * 10 + digitVal y4
      let m := digitVal m1 * 10 + digitVal m2
      let d := digitVal d1 * 10 + digitVal d2
      if 1 ≤ m ∧ m ≤ 12 ∧ 1 ≤ d ∧ d ≤ daysIn y m then some (Date.ofCivil y m d) else none
    else none
  | _ => none

def elabDate (text : Bytes) (d : Syntax.Date) : M Int :=
  match parseDate (textOf text d.range) with
  | some z => .ok z
  | none => .error (.error "parsing date")

/-- `decimal.NewFromString` on what the scanner accepts as a decimal -/
def elabDecimal (text : Bytes) (d : Syntax.Decimal) : M Rat :=
  match Dec.parseDec (textOf text d.range) with
  | some q => .ok q
  | none => .error (.error "parsing decimal")

/-- `reg.Accounts().Create`: the first segment must be an account type (the scanner guarantees non-empty
alphanumeric segments); a macro account (`$name`) is not an account -/
def elabAccount (text : Bytes) (a : Syntax.Account) : M Knut.Account :=
  let acc := Knut.Account.ofName (textOf text a.range)
  if acc.wf then .ok acc else .error (.error "invalid account")

/-- `reg.Commodities().Create` -/
def elabCommodity (text : Bytes) (c : Syntax.Commodity) : M Knut.Commodity :=
  let s := textOf text c.range
  if Beancount.validCommodity s then .ok s else .error (.error "invalid commodity")

/-- `date.ParseInterval` -/
def parseInterval (s : String) : Option Knut.Interval :=
  if s = "once" then some .once else if s = "daily" then some .daily else if s = "weekly" then some .weekly
  else if s = "monthly" then some .monthly else if s = "quarterly" then some .quarterly
  else if s = "yearly" then some .yearly else none

/-- a booking with the account check of `posting.Create` deferred to `Accrual.create` (which rejects a
transaction with an invalid account before anything else can go wrong in it) -/
def elabBooking (text : Bytes) (b : Syntax.Booking) : M Accrual.Booking := do
  let q ← elabDecimal text b.quantity
  let c ← elabCommodity text b.commodity
  pure ⟨Knut.Account.ofName (textOf text b.credit.range), Knut.Account.ofName (textOf text b.debit.range), q, c⟩

/-- the fields of `@accrue`; the account check is again `Accrual.create`'s -/
def elabAccrual (text : Bytes) (a : Syntax.Accrual) : M Accrual.Addon := do
  let s ← elabDate text a.start
  let e ← elabDate text a.stop
  match parseInterval (textOf text a.interval.range) with
  | none => .error (.error "parsing interval")
  | some iv => pure ⟨iv, s, e, Knut.Account.ofName (textOf text a.account.range)⟩

/-- the `@accrue` annotation of a transaction, if it has one (`!t.Addons.Accrual.Empty()`) -/
def elabAccrualOpt (text : Bytes) (t : Syntax.Transaction) : M (Option Accrual.Addon) :=
  if t.addons.accrual.range.empty then pure none else (elabAccrual text t.addons.accrual).map some

/-- the `@performance` targets of a transaction, if it has the annotation -/
def elabTargets (text : Bytes) (t : Syntax.Transaction) : M (Option (List Knut.Commodity)) :=
  if t.addons.performance.range.empty then pure none
  else (t.addons.performance.targets.mapM (elabCommodity text)).map some

/-- the parsed fields of a syntax transaction -/
def txInput (text : Bytes) (t : Syntax.Transaction) : M Accrual.TxInput := do
  let date ← elabDate text t.date
  let bks ← t.bookings.mapM (elabBooking text)
  let targets ← elabTargets text t
  let accrual ← elabAccrualOpt text t
  pure { date := date, description := textOf text t.description.content, bookings := bks,
         targets := targets, accrual := accrual }

/-- `transaction.Create`; its panic (`date.NewPartition` on a window starting at Go's zero time) is tagged -/
def elabTransaction (text : Bytes) (t : Syntax.Transaction) : M (List Knut.Directive) := do
  let inp ← txInput text t
  match Accrual.create inp with
  | .ok txs => pure (txs.map .tx)
  | .error => .error (.error "invalid transaction")
  | .panic site => .error (.panic ("accrual: " ++ site))

def elabBalance (text : Bytes) (b : Syntax.Balance) : M Knut.Balance := do
  let a ← elabAccount text b.account
  let q ← elabDecimal text b.quantity
  let c ← elabCommodity text b.commodity
  pure ⟨a, q, c⟩

/-- `model.ParseDirective` -/
def elabDirective (text : Bytes) (d : Syntax.Directive) : M (List Knut.Directive) :=
  match d.body with
  | .transaction t => elabTransaction text t
  | .open o => do
    let a ← elabAccount text o.account
    let z ← elabDate text o.date
    pure [.opening ⟨z, a⟩]
  | .close c => do
    let a ← elabAccount text c.account
    let z ← elabDate text c.date
    pure [.closing ⟨z, a⟩]
  | .assertion a => do
    let z ← elabDate text a.date
    let bs ← a.balances.mapM (elabBalance text)
    pure [.assertion ⟨z, bs⟩]
  | .price p => do
    let z ← elabDate text p.date
    let c ← elabCommodity text p.commodity
    let pr ← elabDecimal text p.price
    let t ← elabCommodity text p.target
    pure [.price ⟨z, c, pr, t⟩]
  | .include _ => pure []

/-- the goroutine of `model.FromStream` for one file -/
def elabFile (tf : Bytes × File) : M (List Knut.Directive) :=
  (tf.2.directives.mapM (elabDirective tf.1)).map List.flatten

/-! ## `journal.FromPath` -/

/-- the three stages of `journal.FromPath` (loader, `model.FromStream`, `FromModelStream`): the model directives
of all files in the loader's order, or the first error.  The stages run concurrently in Go; an error in any
stage fails the whole pipeline (C19), so the sequential composition has the same outcome class. A *panic* in
`model.FromStream` (only `transaction.Create` can panic) kills the process in Go whatever the other stages
do — unless the loader fails first and the command exits before the panicking goroutine runs: then Go's
outcome is the loader's error. The model reports the loader's error in that case, too. -/
def fromPath (fs : FileSys) (path : Path) : M (List Knut.Directive) :=
  match load fs parseForLoader path with
  | .error _ => .error (.error "loading")
  | .ok files => (files.mapM (fun pf => elabFile pf.2)).map List.flatten

/-! ## The commands -/

inductive Command where
  | check | balance | print | format | infer | transcode
  deriving DecidableEq, Repr

structure Flags where
  /-- the positional argument -/
  path : Path
  /-- the flags of `balance` (`balance.valuation` is `-v` of `balance`) -/
  balance : BalanceFlags := { to := 0 }
  /-- `check --write` -/
  write : Bool := false
  /-- `transcode -v` -/
  valuation : Option Commodity := none
  /-- `infer -a` -/
  account : String := "Expenses:TBD"
  /-- `infer -t` -/
  training : Path := ""
  /-- `infer -i` -/
  inplace : Bool := false

/-- `CommodityFlag.Value`: an absent or empty flag is no commodity; otherwise the name must be valid -/
def commodityFlag (v : Option Commodity) : M (Option Commodity) :=
  match v with
  | none => .ok none
  | some s => if s.isEmpty then .ok none else if Beancount.validCommodity s then .ok (some s) else .error (.error "invalid commodity")

/-- `CompareBalance`: by account (type order, then name), then commodity name -/
def balanceLE (a b : Knut.Balance) : Bool :=
  match JournalPrinter.cmpAccount a.account b.account with
  | .lt => true
  | .gt => false
  | .eq => decide (a.commodity ≤ b.commodity)

/-- `Checker.dayEnd` with `Write`: one assertion per day on which positions are recorded -/
def writtenAssertion (date : Int) (st : CheckState) : List Knut.Directive :=
  if st.quantities.isEmpty then []
  else [.assertion ⟨date, (st.quantities.map (fun e => (⟨e.1.1, e.2, e.1.2⟩ : Knut.Balance))).mergeSort balanceLE⟩]

/-- the checker over all days, collecting the assertions of `--write` -/
def checkWrite : CheckState → List Day → Except CheckErr (List Knut.Directive)
  | _, [] => .ok []
  | st, d :: rest => do
    let st' ← Check.day st d
    let more ← checkWrite st' rest
    .ok (writtenAssertion d.date st' ++ more)

def ofExcept (r : M CmdOutcome) : CmdOutcome :=
  match r with
  | .ok o => o
  | .error o => o

/-- `checkRunner.execute` -/
def runCheck (fs : FileSys) (f : Flags) : CmdOutcome := ofExcept do
  let ds ← fromPath fs f.path
  let days := (Builder.ofList ds).build
  match checkWrite {} days with
  | .error _ => .error (.error "processing")
  | .ok as =>
    if f.write then pure (.ok (JournalPrinter.print (Builder.ofList as).build)) else pure (.ok "")

/-- `balanceRunner.execute` -/
def runBalance (fs : FileSys) (f : Flags) : CmdOutcome := ofExcept do
  let v ← commodityFlag f.balance.valuation
  let ds ← fromPath fs f.path
  pure (BalanceCmd.run { f.balance with valuation := v } ds)

/-- `printRunner.execute` -/
def runPrint (fs : FileSys) (f : Flags) : CmdOutcome := ofExcept do
  let ds ← fromPath fs f.path
  let days := (Builder.ofList ds).build
  match Check.run days with
  | .error _ => .error (.error "processing")
  | .ok _ => pure (.ok (JournalPrinter.print days))

/-- `transcodeRunner.execute` (the valuation flag is examined before the journal is read) -/
def runTranscode (fs : FileSys) (f : Flags) : CmdOutcome := ofExcept do
  let v ← commodityFlag f.valuation
  match v with
  | none => .error (.error "missing-valuation")
  | some v =>
    let ds ← fromPath fs f.path
    pure (Beancount.run (some v) ds)

/-- `formatRunner.formatFile` for the one file given: nothing is ever written to standard output -/
def runFormat (fs : FileSys) (f : Flags) : CmdOutcome :=
  match fs.read f.path with
  | none => .error "reading"
  | some text =>
    match formatFile f.path text with
    | .written _ => .ok ""
    | .rejected _ => .error "parsing"
    | .panic => .panic "slice bounds out of range"

/-- `inferRunner.execute`: the training file is loaded with its includes, the target alone -/
def runInfer (fs : FileSys) (f : Flags) : CmdOutcome :=
  match load fs parseForLoader f.training with
  | .error _ => .error "loading"
  | .ok files =>
    match fs.read f.path with
    | none => .error "reading"
    | some target =>
      match Infer.inferCmd Infer.exactScorer (f.account.toUTF8.toList) (files.map (fun pf => (pf.1, pf.2.1))) f.path target with
      | .written out => if f.inplace then .ok "" else .ok (strOf out)
      | .rejected => .error "parsing"
      | .panic => .panic "slice bounds out of range"

namespace Cmd

/-- the outcome of `knut <command> <flags> <path>` on the file system `fs` -/
def run (c : Command) (fs : FileSys) (f : Flags) : CmdOutcome :=
  match c with
  | .check => runCheck fs f
  | .balance => runBalance fs f
  | .print => runPrint fs f
  | .format => runFormat fs f
  | .infer => runInfer fs f
  | .transcode => runTranscode fs f

end Cmd

/-! ## Outcome classes -/

inductive Class | ok | error | panic
  deriving DecidableEq, Repr

def _root_.Knut.CmdOutcome.cls : CmdOutcome → Class
  | .ok _ => .ok
  | .error _ => .error
  | .panic _ => .panic

/-- what a failed run leaves on standard output: nothing — `.error` and `.panic` carry no output -/
def _root_.Knut.CmdOutcome.stdout : CmdOutcome → String
  | .ok s => s
  | .error _ => ""
  | .panic _ => ""

/-- outcome class of `knut portfolio returns|weights` (their reports are not modelled): the valuation flag,
the journal, the partition of the window (which panics on a zero start), then the processors
`ComputePrices, check, Valuate` of the valued pipeline; the performance and weight calculators neither fail nor
are modelled. `--universe` is not modelled (absent). -/
def portfolioClass (fs : FileSys) (f : Flags) : Class := CmdOutcome.cls <| ofExcept do
  let v ← commodityFlag f.balance.valuation
  let ds ← fromPath fs f.path
  let b := Builder.ofList ds
  match newPartition (BalanceCmd.window f.balance b) f.balance.interval f.balance.last with
  | .panic s => .error (.panic s)
  | .ok part =>
    let days := (b.ensureDays part.endDates).build
    match v with
    | none =>
      match Check.run days with
      | .error _ => .error (.error "processing")
      | .ok _ => pure (.ok "")
    | some v =>
      match Beancount.processFrom v {} (days.map (fun d => d)) with
      | .error _ => .error (.error "processing")
      | .ok _ => pure (.ok "")

end Knut.Commands
