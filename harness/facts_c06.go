package main

// Census of order-sensitive sites (C06, goroutine/channel part also C19), called from extractFacts.
//
// Every non-test Go file of /repo that `go build -tags verif` compiles (main.go, cmd/**, lib/**) is parsed and
// type-checked from source (knut's packages with bodies, the standard library and the modules of go.mod
// declarations only, anything that cannot be found as an empty package) and walked for the places where the
// result of a run can depend on something else than the input:
//
//   maprange   `range` over a map-typed expression, or over the result of a function that returns a slice in
//              map order (dict.Keys, dict.Values, Set.Slice: found by c06Leaks, not by name)
//   mapcall    a call of such a function outside a range header
//   sortcall   a call of a function that sorts such a slice with a comparator it is given (dict.SortedKeys, …)
//   mapcallback a call of a function that runs a function it is given in map order (multimap Node.PostOrder), with that function
//   sort       every call of sort.Slice / sort.Sort / slices.Sort* / compare.Sort with its comparator
//   range?     `range` over an expression without a type (cannot be classified: counted as class d)
//   go, cpr    go statements, x.Go(…) of a pool / errgroup, calls of the functions of lib/common/cpr
//   chanrange, select, recv, send   channel operations
//   lock       the sequence of Lock/RLock/Unlock/RUnlock calls of a function
//   floatacc   a float `+=`, `-=`, `*=`, `/=` or `x = x + …`
//   nondet     time.Now & co., math/rand, crypto/rand, os.Getenv/Getpid/Hostname…, runtime.NumCPU/GOMAXPROCS
//
// A maprange site is classified mechanically:
//   a  (an attribute next to b/c/d, listed in `Census.translated`, so that growth of the translator changes no site) the
//      enclosing function is translated by the Go→Lean translator (Generated/Trans.lean says "translated") and its generated
//      definitions take at least as many `order` parameters as it has map ranges
//   b  the loop only appends to one slice and the first later use of that slice in the function is the first
//      argument of a sort call (the comparator is part of the fingerprint)
//   c  the loop body only performs commutative-associative accumulation (c06Body: exact decimals, ints, set
//      inserts, writes under the loop's own key, min/max), guarded by pure conditions that read nothing the loop writes
//   d  anything else; the fingerprint then carries a hash of the normalised body
// The fingerprints do not depend on line numbers, comments, the text of string literals or the names of local
// variables.  lean/Knut/FactsAgree/C06.lean holds the reviewed expectation; differences are also printed as
// `census-new-site`, `census-changed-site`, `census-gone-site` lines, which bin/check adds to the broken obligations.

import (
	"crypto/sha256"
	"fmt"
	"go/ast"
	"go/build"
	"go/parser"
	"go/token"
	"go/types"
	"os"
	"os/exec"
	"path/filepath"
	"regexp"
	"runtime"
	"sort"
	"strings"
)

// ------------------------------------------------------------------------------------------------ loading

type c06Pkg struct {
	path  string
	dir   string
	knut  bool
	files []*ast.File
	tpkg  *types.Package
	info  *types.Info
}

type c06Loader struct {
	repo     string
	goroot   string
	modcache string
	mods     [][2]string // module path, version (longest path first)
	fset     *token.FileSet
	byDir    map[string]*c06Pkg
	empty    map[string]*c06Pkg
	bctx     build.Context
	from     string // directory of the package being checked (for the vendor directory of GOROOT)
}

func c06NewLoader(repo string) *c06Loader {
	l := &c06Loader{repo: repo, fset: token.NewFileSet(), byDir: map[string]*c06Pkg{}, empty: map[string]*c06Pkg{}}
	l.goroot = runtime.GOROOT()
	if st, err := os.Stat(filepath.Join(l.goroot, "src", "fmt")); err != nil || !st.IsDir() {
		if out, err := exec.Command("go", "env", "GOROOT").Output(); err == nil {
			l.goroot = strings.TrimSpace(string(out))
		}
	}
	l.modcache = os.Getenv("GOMODCACHE")
	if l.modcache == "" {
		l.modcache = filepath.Join(os.Getenv("HOME"), "go/pkg/mod")
		if gp := os.Getenv("GOPATH"); gp != "" {
			l.modcache = filepath.Join(strings.Split(gp, string(os.PathListSeparator))[0], "pkg/mod")
		}
	}
	if data, err := os.ReadFile(filepath.Join(repo, "go.mod")); err == nil {
		re := regexp.MustCompile(`(?m)^\s*(?:require\s+)?([\w./\-~]+)\s+(v[\w.\-+]+)`)
		for _, m := range re.FindAllStringSubmatch(string(data), -1) {
			l.mods = append(l.mods, [2]string{m[1], m[2]})
		}
		sort.Slice(l.mods, func(i, j int) bool { return len(l.mods[i][0]) > len(l.mods[j][0]) })
	}
	l.bctx = build.Default
	l.bctx.GOROOT = l.goroot
	l.bctx.GOOS, l.bctx.GOARCH = "linux", "amd64"
	l.bctx.CgoEnabled = false
	l.bctx.BuildTags = []string{"verif"}
	return l
}

func c06ModEscape(s string) string {
	var b strings.Builder
	for _, r := range s {
		if r >= 'A' && r <= 'Z' {
			b.WriteByte('!')
			b.WriteRune(r + 'a' - 'A')
		} else {
			b.WriteRune(r)
		}
	}
	return b.String()
}

func c06IsDir(p string) bool {
	st, err := os.Stat(p)
	return err == nil && st.IsDir()
}

// resolve: import path ↦ directory ("" when the package cannot be found)
func (l *c06Loader) resolve(path, fromDir string) (dir string, knut bool) {
	if path == strings.TrimSuffix(trKnutPath, "/") {
		return l.repo, true
	}
	if strings.HasPrefix(path, trKnutPath) {
		return filepath.Join(l.repo, strings.TrimPrefix(path, trKnutPath)), true
	}
	inRoot := strings.HasPrefix(fromDir, l.goroot+string(filepath.Separator))
	if inRoot {
		if d := filepath.Join(l.goroot, "src", "vendor", path); c06IsDir(d) {
			return d, false
		}
	}
	if d := filepath.Join(l.goroot, "src", path); !strings.Contains(strings.Split(path, "/")[0], ".") && c06IsDir(d) {
		return d, false
	}
	for _, m := range l.mods {
		if path == m[0] || strings.HasPrefix(path, m[0]+"/") {
			d := filepath.Join(l.modcache, c06ModEscape(m[0])+"@"+m[1], strings.TrimPrefix(path, m[0]))
			if c06IsDir(d) {
				return d, false
			}
		}
	}
	return "", false
}

func (l *c06Loader) Import(path string) (*types.Package, error) {
	return l.ImportFrom(path, l.from, 0)
}

func (l *c06Loader) ImportFrom(path, fromDir string, _ types.ImportMode) (*types.Package, error) {
	if path == "unsafe" {
		return types.Unsafe, nil
	}
	return l.load(path, fromDir).tpkg, nil
}

func (l *c06Loader) emptyPkg(path string) *c06Pkg {
	if p, ok := l.empty[path]; ok {
		return p
	}
	name := path[strings.LastIndex(path, "/")+1:]
	if len(name) >= 2 && name[0] == 'v' && name[1] >= '0' && name[1] <= '9' {
		parts := strings.Split(path, "/")
		if len(parts) >= 2 {
			name = parts[len(parts)-2]
		}
	}
	p := &c06Pkg{path: path, tpkg: types.NewPackage(path, name)}
	p.tpkg.MarkComplete()
	l.empty[path] = p
	return p
}

func (l *c06Loader) load(path, fromDir string) *c06Pkg {
	dir, knut := l.resolve(path, fromDir)
	if dir == "" {
		return l.emptyPkg(path)
	}
	if p, ok := l.byDir[dir]; ok {
		if p.tpkg == nil { // import cycle (cannot happen in code that compiles)
			return l.emptyPkg(path)
		}
		return p
	}
	p := &c06Pkg{path: path, dir: dir, knut: knut}
	l.byDir[dir] = p
	bp, err := l.bctx.ImportDir(dir, 0)
	if err != nil && (bp == nil || len(bp.GoFiles) == 0) {
		delete(l.byDir, dir)
		return l.emptyPkg(path)
	}
	names := append([]string{}, bp.GoFiles...)
	sort.Strings(names)
	mode := parser.SkipObjectResolution
	for _, n := range names {
		f, err := parser.ParseFile(l.fset, filepath.Join(dir, n), nil, mode)
		if err != nil && f == nil {
			continue
		}
		p.files = append(p.files, f)
	}
	if len(p.files) == 0 {
		delete(l.byDir, dir)
		return l.emptyPkg(path)
	}
	if knut {
		p.info = &types.Info{
			Types:      map[ast.Expr]types.TypeAndValue{},
			Defs:       map[*ast.Ident]types.Object{},
			Uses:       map[*ast.Ident]types.Object{},
			Selections: map[*ast.SelectorExpr]*types.Selection{},
			Instances:  map[*ast.Ident]types.Instance{},
		}
	}
	conf := types.Config{Importer: c06From{l, dir}, FakeImportC: true, IgnoreFuncBodies: !knut, Error: func(error) {}}
	tp := types.NewPackage(path, p.files[0].Name.Name)
	_ = types.NewChecker(&conf, l.fset, tp, p.info).Files(p.files)
	p.tpkg = tp
	return p
}

type c06From struct {
	l   *c06Loader
	dir string
}

func (f c06From) Import(path string) (*types.Package, error) { return f.l.ImportFrom(path, f.dir, 0) }
func (f c06From) ImportFrom(path, _ string, m types.ImportMode) (*types.Package, error) {
	return f.l.ImportFrom(path, f.dir, m)
}

// ------------------------------------------------------------------------------------------------ census

type c06Site struct{ file, fn, kind, cls, fp string }

func (s c06Site) key() string {
	return s.file + "\x00" + s.fn + "\x00" + s.kind + "\x00" + s.cls + "\x00" + s.fp
}

type c06Func struct {
	pkg  *c06Pkg
	file string // relative to the repository
	decl *ast.FuncDecl
	name string
	obj  *types.Func

	pure     int // 0 unknown, 1 in progress, 2 pure, 3 impure
	accum    int // 0 unknown, 2 commutative accumulation into the receiver, 3 not
	leak     bool
	sortWrap int          // index of the comparator parameter, -1
	drivers  map[int]bool // indices of the function-typed parameters that are called, or handed on, inside a map range
}

type c06Census struct {
	l          *c06Loader
	funcs      map[*types.Func]*c06Func
	order      []*c06Func
	sites      []c06Site
	trans      map[string]int  // "pkgdir\x00Recv.Func" ↦ number of order parameters of the translated definitions (-1: not translated)
	translated map[string]bool // "file\x00Recv.Func": class a
	gendir     string
}

func c06FuncName(fd *ast.FuncDecl) string {
	if fd.Recv == nil || len(fd.Recv.List) != 1 {
		return fd.Name.Name
	}
	rt := fd.Recv.List[0].Type
	for {
		switch x := rt.(type) {
		case *ast.StarExpr:
			rt = x.X
			continue
		case *ast.ParenExpr:
			rt = x.X
			continue
		case *ast.IndexExpr:
			rt = x.X
			continue
		case *ast.IndexListExpr:
			rt = x.X
			continue
		}
		break
	}
	if id, ok := rt.(*ast.Ident); ok {
		return id.Name + "." + fd.Name.Name
	}
	return "?." + fd.Name.Name
}

func (c *c06Census) loadAll() {
	var dirs []string
	for _, root := range []string{"", "cmd", "lib"} {
		base := filepath.Join(c.l.repo, root)
		if root == "" {
			dirs = append(dirs, base)
			continue
		}
		filepath.WalkDir(base, func(p string, d os.DirEntry, err error) error {
			if err != nil || !d.IsDir() {
				return nil
			}
			if n := d.Name(); n == "testdata" || n == "cmdtest" || strings.HasPrefix(n, ".") || strings.HasPrefix(n, "_") {
				return filepath.SkipDir
			}
			dirs = append(dirs, p)
			return nil
		})
	}
	sort.Strings(dirs)
	for _, d := range dirs {
		rel, _ := filepath.Rel(c.l.repo, d)
		path := strings.TrimSuffix(trKnutPath, "/")
		if rel != "." {
			path = trKnutPath + filepath.ToSlash(rel)
		}
		p := c.l.load(path, "")
		if p.info == nil {
			continue
		}
		for _, f := range p.files {
			fname, _ := filepath.Rel(c.l.repo, c.l.fset.Position(f.Pos()).Filename)
			fname = filepath.ToSlash(fname)
			for _, d := range f.Decls {
				switch x := d.(type) {
				case *ast.FuncDecl:
					cf := &c06Func{pkg: p, file: fname, decl: x, name: c06FuncName(x), sortWrap: -1}
					cf.obj, _ = p.info.Defs[x.Name].(*types.Func)
					if cf.obj != nil {
						c.funcs[cf.obj] = cf
					}
					c.order = append(c.order, cf)
				case *ast.GenDecl:
					// function literals in package-level variable initialisers
					for _, sp := range x.Specs {
						vs, ok := sp.(*ast.ValueSpec)
						if !ok || len(vs.Values) == 0 || len(vs.Names) == 0 {
							continue
						}
						has := false
						for _, v := range vs.Values {
							ast.Inspect(v, func(n ast.Node) bool {
								if _, ok := n.(*ast.FuncLit); ok {
									has = true
								}
								return !has
							})
						}
						if !has {
							// still walk it for nondet uses (var start = time.Now())
							has = true
						}
						body := &ast.BlockStmt{Lbrace: vs.Pos(), Rbrace: vs.End()}
						for _, v := range vs.Values {
							body.List = append(body.List, &ast.ExprStmt{X: v})
						}
						fd := &ast.FuncDecl{Name: vs.Names[0], Type: &ast.FuncType{Func: vs.Pos(), Params: &ast.FieldList{}}, Body: body}
						c.order = append(c.order, &c06Func{pkg: p, file: fname, decl: fd, name: "var:" + vs.Names[0].Name, sortWrap: -1})
					}
				}
			}
		}
	}
}

// ------------------------------------------------------------------------------------------------ small helpers

func c06Unparen(e ast.Expr) ast.Expr {
	for {
		p, ok := e.(*ast.ParenExpr)
		if !ok {
			return e
		}
		e = p.X
	}
}

// callee: the declared function or method a call refers to (generic functions: their origin), nil for function values,
// conversions, builtins and interface methods
func c06Callee(info *types.Info, call *ast.CallExpr) *types.Func {
	fun := c06Unparen(call.Fun)
	switch x := fun.(type) {
	case *ast.IndexExpr:
		fun = c06Unparen(x.X)
	case *ast.IndexListExpr:
		fun = c06Unparen(x.X)
	}
	var id *ast.Ident
	switch x := fun.(type) {
	case *ast.Ident:
		id = x
	case *ast.SelectorExpr:
		id = x.Sel
	default:
		return nil
	}
	f, _ := info.Uses[id].(*types.Func)
	if f == nil {
		return nil
	}
	return f.Origin()
}

func c06Builtin(info *types.Info, call *ast.CallExpr) string {
	if id, ok := c06Unparen(call.Fun).(*ast.Ident); ok {
		if b, ok := info.Uses[id].(*types.Builtin); ok {
			return b.Name()
		}
	}
	return ""
}

func c06IsConversion(info *types.Info, call *ast.CallExpr) bool {
	tv, ok := info.Types[call.Fun]
	return ok && tv.IsType()
}

// qualified name of a function: "pkgpath.Name" or "pkgpath.Recv.Name"
func c06QName(f *types.Func) string {
	pkg := ""
	if f.Pkg() != nil {
		pkg = f.Pkg().Path()
	}
	sig, _ := f.Type().(*types.Signature)
	if sig != nil && sig.Recv() != nil {
		t := sig.Recv().Type()
		if p, ok := t.(*types.Pointer); ok {
			t = p.Elem()
		}
		if n, ok := t.(*types.Named); ok {
			return pkg + "." + n.Obj().Name() + "." + f.Name()
		}
		return pkg + ".?." + f.Name()
	}
	return pkg + "." + f.Name()
}

func c06Short(q string) string { // drop the module prefix and the directories of the package path
	q = strings.TrimPrefix(q, trKnutPath)
	if i := strings.LastIndex(q, "/"); i >= 0 {
		q = q[i+1:]
	}
	return q
}

func c06Under(t types.Type) types.Type {
	if t == nil {
		return nil
	}
	if tp, ok := t.(*types.TypeParam); ok {
		if ct := c06Core(tp); ct != nil {
			return ct
		}
	}
	return t.Underlying()
}

func c06Core(tp *types.TypeParam) types.Type {
	iface, ok := tp.Constraint().Underlying().(*types.Interface)
	if !ok {
		return nil
	}
	var core types.Type
	for i := 0; i < iface.NumEmbeddeds(); i++ {
		if u, ok := iface.EmbeddedType(i).(*types.Union); ok && u.Len() == 1 {
			core = u.Term(0).Type().Underlying()
		}
	}
	return core
}

func c06TypeOf(info *types.Info, e ast.Expr) types.Type {
	if tv, ok := info.Types[e]; ok && tv.Type != nil {
		if b, ok := tv.Type.(*types.Basic); ok && b.Kind() == types.Invalid {
			return nil
		}
		return tv.Type
	}
	if id, ok := e.(*ast.Ident); ok {
		if o := info.Uses[id]; o != nil {
			return o.Type()
		}
		if o := info.Defs[id]; o != nil {
			return o.Type()
		}
	}
	return nil
}

func c06IsFloat(t types.Type) bool {
	if t == nil {
		return false
	}
	b, ok := c06Under(t).(*types.Basic)
	return ok && b.Info()&types.IsFloat != 0
}

func c06IsInt(t types.Type) bool {
	if t == nil {
		return false
	}
	b, ok := c06Under(t).(*types.Basic)
	return ok && b.Info()&types.IsInteger != 0
}

func c06IsNamed(t types.Type, pkg, name string) bool {
	if t == nil {
		return false
	}
	if p, ok := t.(*types.Pointer); ok {
		t = p.Elem()
	}
	n, ok := t.(*types.Named)
	return ok && n.Obj().Name() == name && n.Obj().Pkg() != nil && n.Obj().Pkg().Path() == pkg
}

const c06DecimalPkg = "github.com/shopspring/decimal"

// root variable of an addressable expression (x, x.f, x[i], *x, x.f[i].g …)
func c06Root(info *types.Info, e ast.Expr) types.Object {
	for {
		switch x := c06Unparen(e).(type) {
		case *ast.Ident:
			if o := info.Uses[x]; o != nil {
				return o
			}
			return info.Defs[x]
		case *ast.SelectorExpr:
			if id, ok := x.X.(*ast.Ident); ok {
				if _, isPkg := info.Uses[id].(*types.PkgName); isPkg {
					return info.Uses[x.Sel]
				}
			}
			e = x.X
		case *ast.IndexExpr:
			e = x.X
		case *ast.StarExpr:
			e = x.X
		case *ast.SliceExpr:
			e = x.X
		default:
			return nil
		}
	}
}

// does the path from the root variable to the assigned location go through a pointer, map or slice?
func c06ThroughRef(info *types.Info, e ast.Expr) bool {
	for {
		switch x := c06Unparen(e).(type) {
		case *ast.Ident:
			return false
		case *ast.SelectorExpr:
			if t := c06TypeOf(info, x.X); t != nil {
				if _, ok := c06Under(t).(*types.Pointer); ok {
					return true
				}
			} else {
				return true
			}
			e = x.X
		case *ast.IndexExpr:
			if t := c06TypeOf(info, x.X); t != nil {
				if _, ok := c06Under(t).(*types.Array); !ok {
					return true
				}
			} else {
				return true
			}
			e = x.X
		default:
			return true
		}
	}
}

func c06Within(o types.Object, n ast.Node) bool {
	return o != nil && n != nil && o.Pos() >= n.Pos() && o.Pos() < n.End()
}

// ------------------------------------------------------------------------------------------------ normalised text

type c06Ser struct {
	info  *types.Info
	fn    ast.Node
	names map[types.Object]int
	b     strings.Builder
}

// ser: structural serialisation of a node; locals of the enclosing function are numbered by first occurrence, string
// literals are `S`, positions and comments do not occur
func c06Serialize(info *types.Info, fn ast.Node, n ast.Node) string {
	s := &c06Ser{info: info, fn: fn, names: map[types.Object]int{}}
	ast.Inspect(n, func(n ast.Node) bool {
		if n == nil {
			s.b.WriteByte(')')
			return true
		}
		switch x := n.(type) {
		case *ast.Ident:
			o := info.Uses[x]
			if o == nil {
				o = info.Defs[x]
			}
			_, isVar := o.(*types.Var)
			_, isLabel := o.(*types.Label)
			if o != nil && (isVar || isLabel) && c06Within(o, fn) && !(isVar && o.(*types.Var).IsField()) {
				k, ok := s.names[o]
				if !ok {
					k = len(s.names) + 1
					s.names[o] = k
				}
				fmt.Fprintf(&s.b, "($%d", k)
			} else if x.Name == "_" {
				s.b.WriteString("(_")
			} else {
				s.b.WriteString("(" + x.Name)
			}
		case *ast.BasicLit:
			if x.Kind == token.STRING {
				s.b.WriteString("(S")
			} else {
				s.b.WriteString("(" + x.Value)
			}
		case *ast.BinaryExpr:
			s.b.WriteString("(B" + x.Op.String())
		case *ast.UnaryExpr:
			s.b.WriteString("(U" + x.Op.String())
		case *ast.AssignStmt:
			s.b.WriteString("(A" + x.Tok.String())
		case *ast.IncDecStmt:
			s.b.WriteString("(I" + x.Tok.String())
		case *ast.BranchStmt:
			s.b.WriteString("(J" + x.Tok.String())
		case *ast.RangeStmt:
			s.b.WriteString("(R" + x.Tok.String())
		case *ast.ChanType:
			fmt.Fprintf(&s.b, "(Ch%d", x.Dir)
		case *ast.CallExpr:
			if x.Ellipsis.IsValid() {
				s.b.WriteString("(Call...")
			} else {
				s.b.WriteString("(Call")
			}
		case *ast.CommentGroup, *ast.Comment:
			s.b.WriteString("(")
			return true
		default:
			t := fmt.Sprintf("%T", n)
			s.b.WriteString("(" + strings.TrimPrefix(t, "*ast."))
		}
		return true
	})
	return s.b.String()
}

func c06Hash(s string) string {
	h := sha256.Sum256([]byte(s))
	return fmt.Sprintf("%x", h[:4])
}

// readable text of an expression when it mentions no local and no function literal; a parameter is `<param>`, a local
// variable is the list of the expressions assigned to it in the function (`·` = the variable itself: cmp = Combine(cmp, x)),
// anything else the `#hash` of its normal form
func (c *c06Census) exprText(f *c06Func, e ast.Expr) string {
	return c.exprTextD(f, e, 0)
}

func (c *c06Census) exprTextD(f *c06Func, e ast.Expr, depth int) string {
	info := f.pkg.info
	if id, ok := c06Unparen(e).(*ast.Ident); ok && depth < 2 {
		if v, ok := info.Uses[id].(*types.Var); ok && !v.IsField() && c06Within(v, f.decl) {
			if sig, ok := info.Defs[f.decl.Name].(*types.Func); ok {
				ps := sig.Type().(*types.Signature).Params()
				for i := 0; i < ps.Len(); i++ {
					if ps.At(i) == v {
						return "<param>"
					}
				}
			}
			var defs []string
			ast.Inspect(f.decl.Body, func(n ast.Node) bool {
				as, ok := n.(*ast.AssignStmt)
				if !ok || len(as.Lhs) != len(as.Rhs) {
					return true
				}
				for i, l := range as.Lhs {
					lid, ok := l.(*ast.Ident)
					if !ok {
						continue
					}
					o := info.Defs[lid]
					if o == nil {
						o = info.Uses[lid]
					}
					if o == types.Object(v) {
						defs = append(defs, c.exprTextSelf(f, as.Rhs[i], v, depth+1))
					}
				}
				return true
			})
			if len(defs) > 0 {
				return "local{" + strings.Join(defs, " | ") + "}"
			}
		}
	}
	return c.exprTextSelf(f, e, nil, depth)
}

// exprTextSelf: as exprText; occurrences of the variable self are written `·`
func (c *c06Census) exprTextSelf(f *c06Func, e ast.Expr, self *types.Var, depth int) string {
	info := f.pkg.info
	plain := true
	ast.Inspect(e, func(n ast.Node) bool {
		switch x := n.(type) {
		case *ast.FuncLit:
			plain = false
		case *ast.Ident:
			o := info.Uses[x]
			if v, ok := o.(*types.Var); ok && !v.IsField() && c06Within(o, f.decl) && v != self {
				plain = false
			}
		}
		return plain
	})
	if plain {
		text := strings.Join(strings.Fields(types.ExprString(e)), " ")
		if self != nil {
			text = regexp.MustCompile(`\b`+regexp.QuoteMeta(self.Name())+`\b`).ReplaceAllString(text, "·")
		}
		return text
	}
	return "#" + c06Hash(c06Serialize(info, f.decl, e))
}

// ------------------------------------------------------------------------------------------------ purity of knut's functions

var c06PurePkgs = map[string]bool{
	"strings": true, "strconv": true, "math": true, "unicode": true, "unicode/utf8": true, "path": true, "cmp": true,
	"errors": true, c06DecimalPkg: true, "math/big": false,
}

var c06PureFuncs = map[string]bool{
	"fmt.Sprintf": true, "fmt.Sprint": true, "fmt.Errorf": true, "fmt.Sprintln": true, "path/filepath.Join": true, "path/filepath.Dir": true,
	"path/filepath.Base": true, "path/filepath.Clean": true, "path/filepath.Ext": true,
	"time.Date": true, "time.Time.Year": true, "time.Time.Month": true, "time.Time.Day": true, "time.Time.Weekday": true, "time.Time.AddDate": true,
	"time.Time.Before": true, "time.Time.After": true, "time.Time.Equal": true, "time.Time.IsZero": true, "time.Time.Compare": true,
	"time.Time.Format": true, "time.Time.Unix": true, "time.Time.Add": true, "time.Time.Sub": true, "time.Time.YearDay": true, "time.Time.UTC": true,
	"time.Time.Date": true, "time.Time.Truncate": true, "time.Month.String": true, "time.Parse": true,
}

// pure: the function writes nothing but its own locals and calls only pure functions
func (c *c06Census) pureFunc(f *types.Func) bool {
	if f == nil {
		return false
	}
	q := c06QName(f)
	if f.Pkg() != nil && c06PurePkgs[f.Pkg().Path()] {
		return true
	}
	if c06PureFuncs[q] {
		return true
	}
	cf := c.funcs[f]
	if cf == nil || cf.decl.Body == nil {
		return false
	}
	switch cf.pure {
	case 1:
		return false // recursion: not pure (conservative)
	case 2:
		return true
	case 3:
		return false
	}
	cf.pure = 1
	ok := c.pureBody(cf.pkg.info, cf.decl, cf.decl.Body)
	if ok {
		cf.pure = 2
	} else {
		cf.pure = 3
	}
	return ok
}

func (c *c06Census) pureBody(info *types.Info, fn ast.Node, body ast.Node) bool {
	ok := true
	localWrite := func(lhs ast.Expr) bool {
		if id, isId := c06Unparen(lhs).(*ast.Ident); isId {
			if id.Name == "_" {
				return true
			}
			o := info.Uses[id]
			if o == nil {
				o = info.Defs[id]
			}
			return c06Within(o, fn)
		}
		r := c06Root(info, lhs)
		return c06Within(r, fn) && !c06ThroughRef(info, lhs)
	}
	ast.Inspect(body, func(n ast.Node) bool {
		if !ok {
			return false
		}
		switch x := n.(type) {
		case *ast.AssignStmt:
			for _, l := range x.Lhs {
				if !localWrite(l) {
					ok = false
				}
			}
		case *ast.IncDecStmt:
			if !localWrite(x.X) {
				ok = false
			}
		case *ast.RangeStmt:
			if x.Tok == token.ASSIGN {
				for _, l := range []ast.Expr{x.Key, x.Value} {
					if l != nil && !localWrite(l) {
						ok = false
					}
				}
			}
			if t := c06TypeOf(info, x.X); t == nil {
				ok = false
			} else if _, isChan := c06Under(t).(*types.Chan); isChan {
				ok = false
			}
		case *ast.GoStmt, *ast.SendStmt, *ast.DeferStmt, *ast.SelectStmt, *ast.FuncLit:
			ok = false
		case *ast.UnaryExpr:
			if x.Op == token.ARROW {
				ok = false
			}
		case *ast.CallExpr:
			if c06IsConversion(info, x) {
				return true
			}
			switch c06Builtin(info, x) {
			case "len", "cap", "min", "max", "make", "new", "append", "panic":
				return true
			case "":
			default:
				ok = false
				return false
			}
			if !c.pureFunc(c06Callee(info, x)) {
				ok = false
			}
		}
		return ok
	})
	return ok
}

// ------------------------------------------------------------------------------------------------ loop bodies

type c06Body struct {
	c       *c06Census
	info    *types.Info
	fn      ast.Node     // enclosing function declaration
	loop    ast.Node     // the statement whose body is analysed (locals of one iteration are declared inside it)
	keyObj  types.Object // the loop's key variable (nil: none)
	written map[types.Object]bool
	tokens  map[string]bool
	bad     map[string]bool
	appends map[types.Object]int
	puts    map[types.Object]int // writes m[key] = e under the loop's own key
	writes  map[types.Object]int // all writes per root
}

func (b *c06Body) local(o types.Object) bool { return c06Within(o, b.loop) }

func (b *c06Body) accumMethod(f *types.Func) bool {
	cf := b.c.funcs[f]
	if cf == nil || cf.decl.Body == nil || cf.decl.Recv == nil || len(cf.decl.Recv.List) != 1 || len(cf.decl.Recv.List[0].Names) != 1 {
		return false
	}
	if cf.accum != 0 {
		return cf.accum == 2
	}
	cf.accum = 3
	if len(cf.decl.Body.List) != 1 {
		return false
	}
	info := cf.pkg.info
	recv := info.Defs[cf.decl.Recv.List[0].Names[0]]
	if recv == nil {
		return false
	}
	// the body seen as the body of a loop whose only shared state is the receiver
	nb := &c06Body{c: b.c, info: info, fn: cf.decl, loop: cf.decl.Body, written: map[types.Object]bool{}, tokens: map[string]bool{}, bad: map[string]bool{},
		appends: map[types.Object]int{}, puts: map[types.Object]int{}, writes: map[types.Object]int{}}
	nb.collect(cf.decl.Body)
	for o := range nb.written {
		if o != recv {
			return false
		}
	}
	nb.stmts(cf.decl.Body.List)
	if len(nb.bad) > 0 || len(nb.appends) > 0 || len(nb.puts) > 0 {
		return false
	}
	// parameters count as loop-invariant values: fine
	cf.accum = 2
	return true
}

// collect: the roots of everything the body writes that outlives one iteration
func (b *c06Body) collect(body ast.Node) {
	mark := func(lhs ast.Expr) {
		if id, ok := c06Unparen(lhs).(*ast.Ident); ok && id.Name == "_" {
			return
		}
		r := c06Root(b.info, lhs)
		if r == nil {
			b.bad["write-through-expression"] = true
			return
		}
		if b.local(r) {
			if _, plain := c06Unparen(lhs).(*ast.Ident); plain || !c06ThroughRef(b.info, lhs) {
				return
			}
			b.bad["write-through-local-reference"] = true
			return
		}
		b.written[r] = true
		b.writes[r]++
	}
	ast.Inspect(body, func(n ast.Node) bool {
		switch x := n.(type) {
		case *ast.AssignStmt:
			for _, l := range x.Lhs {
				mark(l)
			}
		case *ast.IncDecStmt:
			mark(x.X)
		case *ast.RangeStmt:
			if x.Tok == token.ASSIGN {
				if x.Key != nil {
					mark(x.Key)
				}
				if x.Value != nil {
					mark(x.Value)
				}
			}
		case *ast.CallExpr:
			switch c06Builtin(b.info, x) {
			case "delete", "copy", "clear":
				if len(x.Args) > 0 {
					mark(x.Args[0])
				}
			}
			if f := c06Callee(b.info, x); f != nil && b.accumMethod(f) {
				if sel, ok := c06Unparen(x.Fun).(*ast.SelectorExpr); ok {
					mark(sel.X)
				}
			}
		}
		return true
	})
}

func (b *c06Body) readsWritten(e ast.Node) bool {
	reads := false
	if e == nil {
		return false
	}
	ast.Inspect(e, func(n ast.Node) bool {
		if id, ok := n.(*ast.Ident); ok {
			if o := b.info.Uses[id]; o != nil && b.written[o] {
				reads = true
			}
		}
		return !reads
	})
	return reads
}

// pure: an expression without effects whose value does not depend on what the loop writes
func (b *c06Body) pure(e ast.Expr) bool {
	if e == nil {
		return true
	}
	ok := true
	ast.Inspect(e, func(n ast.Node) bool {
		if !ok {
			return false
		}
		switch x := n.(type) {
		case *ast.FuncLit:
			ok = false
		case *ast.UnaryExpr:
			if x.Op == token.ARROW {
				ok = false
			}
		case *ast.CallExpr:
			if c06IsConversion(b.info, x) {
				return true
			}
			switch c06Builtin(b.info, x) {
			case "len", "cap", "min", "max", "make", "new":
				return true
			case "":
			default:
				ok = false
				b.bad["call:"+c06Builtin(b.info, x)] = true
				return false
			}
			f := c06Callee(b.info, x)
			if !b.c.pureFunc(f) {
				ok = false
				if f != nil {
					b.bad["call:"+c06Short(c06QName(f))] = true
				} else {
					b.bad["call:value"] = true
				}
			}
		}
		return ok
	})
	if ok && b.readsWritten(e) {
		b.bad["reads-what-the-loop-writes"] = true
		return false
	}
	return ok
}

func (b *c06Body) same(x, y ast.Expr) bool {
	return c06Serialize(b.info, b.fn, x) == c06Serialize(b.info, b.fn, y)
}

func (b *c06Body) stmts(list []ast.Stmt) {
	for _, s := range list {
		b.stmt(s)
	}
}

func c06CompareOp(info *types.Info, e ast.Expr) (x, y ast.Expr, ok bool) {
	switch c := c06Unparen(e).(type) {
	case *ast.BinaryExpr:
		switch c.Op {
		case token.LSS, token.GTR, token.LEQ, token.GEQ:
			return c.X, c.Y, true
		}
	case *ast.CallExpr:
		if sel, isSel := c06Unparen(c.Fun).(*ast.SelectorExpr); isSel && len(c.Args) == 1 {
			switch sel.Sel.Name {
			case "Before", "After", "LessThan", "GreaterThan", "LessThanOrEqual", "GreaterThanOrEqual":
				return sel.X, c.Args[0], true
			}
		}
	}
	return nil, nil, false
}

func (b *c06Body) stmt(s ast.Stmt) {
	switch x := s.(type) {
	case nil:
	case *ast.EmptyStmt:
	case *ast.BlockStmt:
		b.stmts(x.List)
	case *ast.BranchStmt:
		if x.Tok != token.CONTINUE || x.Label != nil {
			b.bad[x.Tok.String()] = true
		}
	case *ast.DeclStmt:
		if gd, ok := x.Decl.(*ast.GenDecl); ok && gd.Tok == token.VAR {
			for _, sp := range gd.Specs {
				for _, v := range sp.(*ast.ValueSpec).Values {
					b.pure(v)
				}
			}
		} else {
			b.bad["decl"] = true
		}
	case *ast.IfStmt:
		// min/max: if a < acc { acc = a }
		if x.Init == nil && x.Else == nil && len(x.Body.List) == 1 {
			if l, r, ok := c06CompareOp(b.info, x.Cond); ok {
				if as, ok := x.Body.List[0].(*ast.AssignStmt); ok && as.Tok == token.ASSIGN && len(as.Lhs) == 1 && len(as.Rhs) == 1 {
					acc, val := as.Lhs[0], as.Rhs[0]
					if (b.same(l, acc) && b.same(r, val) || b.same(r, acc) && b.same(l, val)) && !c06IsFloat(c06TypeOf(b.info, acc)) {
						root := c06Root(b.info, acc)
						if root != nil && !b.local(root) && b.writes[root] == 1 && b.pure(val) {
							b.tokens["minmax"] = true
							return
						}
					}
				}
			}
		}
		if x.Init != nil {
			b.stmt(x.Init)
		}
		b.pure(x.Cond)
		b.stmts(x.Body.List)
		b.stmt(x.Else)
	case *ast.SwitchStmt:
		if x.Init != nil {
			b.stmt(x.Init)
		}
		b.pure(x.Tag)
		for _, cc := range x.Body.List {
			cl := cc.(*ast.CaseClause)
			for _, e := range cl.List {
				b.pure(e)
			}
			b.stmts(cl.Body)
		}
	case *ast.RangeStmt:
		if t := c06TypeOf(b.info, x.X); t == nil {
			b.bad["range?"] = true
		} else if _, isChan := c06Under(t).(*types.Chan); isChan {
			b.bad["chanrange"] = true
		}
		b.pure(x.X)
		b.stmts(x.Body.List)
	case *ast.IncDecStmt:
		if c06IsInt(c06TypeOf(b.info, x.X)) {
			b.tokens["int+="] = true
			b.index(x.X)
		} else {
			b.bad["incdec"] = true
		}
	case *ast.ExprStmt:
		call, ok := c06Unparen(x.X).(*ast.CallExpr)
		if !ok {
			b.bad["expr"] = true
			return
		}
		if c06Builtin(b.info, call) == "delete" && len(call.Args) == 2 {
			if id, ok := c06Unparen(call.Args[1]).(*ast.Ident); ok && b.keyObj != nil && b.info.Uses[id] == b.keyObj {
				b.tokens["delete[k]"] = true
				return
			}
			b.bad["delete"] = true
			return
		}
		f := c06Callee(b.info, call)
		if f != nil && b.accumMethod(f) {
			b.tokens["acc:"+c06Short(c06QName(f))] = true
			for _, a := range call.Args {
				b.pure(a)
			}
			return
		}
		if f != nil {
			b.bad["call:"+c06Short(c06QName(f))] = true
		} else {
			b.bad["call:value"] = true
		}
	case *ast.AssignStmt:
		b.assign(x)
	case *ast.ReturnStmt:
		b.bad["return"] = true
	default:
		b.bad[strings.TrimPrefix(fmt.Sprintf("%T", s), "*ast.")] = true
	}
}

// index expressions on the way to the assigned location must be pure
func (b *c06Body) index(lhs ast.Expr) {
	for {
		switch x := c06Unparen(lhs).(type) {
		case *ast.IndexExpr:
			b.pure(x.Index)
			lhs = x.X
		case *ast.SelectorExpr:
			lhs = x.X
		case *ast.StarExpr:
			lhs = x.X
		default:
			return
		}
	}
}

func (b *c06Body) assign(x *ast.AssignStmt) {
	if x.Tok == token.DEFINE {
		for _, r := range x.Rhs {
			b.pure(r)
		}
		for _, l := range x.Lhs { // a redeclared variable of the enclosing scope would be a write
			if id, ok := l.(*ast.Ident); ok && id.Name != "_" && b.info.Defs[id] == nil {
				if o := b.info.Uses[id]; o != nil && !b.local(o) {
					b.bad["assign"] = true
				}
			}
		}
		return
	}
	if len(x.Lhs) != 1 || len(x.Rhs) != 1 {
		b.bad["assign"] = true
		return
	}
	lhs, rhs := x.Lhs[0], x.Rhs[0]
	if id, ok := c06Unparen(lhs).(*ast.Ident); ok && id.Name == "_" {
		b.pure(rhs)
		return
	}
	root := c06Root(b.info, lhs)
	lt := c06TypeOf(b.info, lhs)
	if root != nil && b.local(root) {
		if _, plain := c06Unparen(lhs).(*ast.Ident); plain || !c06ThroughRef(b.info, lhs) {
			// a variable of this iteration
			b.pure(rhs)
			return
		}
	}
	switch x.Tok {
	case token.ADD_ASSIGN, token.SUB_ASSIGN, token.OR_ASSIGN, token.AND_ASSIGN, token.XOR_ASSIGN:
		switch {
		case c06IsInt(lt):
			b.tokens["int+="] = true
		case c06IsFloat(lt):
			b.bad["float"+x.Tok.String()] = true
		default:
			b.bad["assign"+x.Tok.String()] = true
		}
		b.index(lhs)
		b.pure(rhs)
		return
	case token.ASSIGN:
	default:
		b.bad["assign"+x.Tok.String()] = true
		return
	}
	// x = append(x, …)
	if call, ok := c06Unparen(rhs).(*ast.CallExpr); ok && c06Builtin(b.info, call) == "append" && len(call.Args) >= 1 {
		if id, ok := c06Unparen(lhs).(*ast.Ident); ok && b.same(lhs, call.Args[0]) {
			b.appends[b.info.Uses[id]]++
			b.tokens["append"] = true
			delete(b.written, b.info.Uses[id]) // tracked separately; a condition reading the slice is caught below
			for _, a := range call.Args[1:] {
				b.pure(a)
				if b.mentions(a, b.info.Uses[id]) {
					b.bad["reads-what-the-loop-writes"] = true
				}
			}
			b.written[b.info.Uses[id]] = true
			return
		}
		b.bad["append"] = true
		return
	}
	// x = x.Add(e), x = x.Sub(e) on exact decimals; x = x + e on ints
	if call, ok := c06Unparen(rhs).(*ast.CallExpr); ok {
		if sel, ok := c06Unparen(call.Fun).(*ast.SelectorExpr); ok && len(call.Args) == 1 && b.same(sel.X, lhs) {
			if (sel.Sel.Name == "Add" || sel.Sel.Name == "Sub") && c06IsNamed(lt, c06DecimalPkg, "Decimal") {
				b.tokens["dec."+sel.Sel.Name] = true
				b.index(lhs)
				b.pure(call.Args[0])
				return
			}
		}
	}
	if bin, ok := c06Unparen(rhs).(*ast.BinaryExpr); ok && (bin.Op == token.ADD || bin.Op == token.SUB) && b.same(bin.X, lhs) {
		if c06IsInt(lt) {
			b.tokens["int+="] = true
			b.index(lhs)
			b.pure(bin.Y)
			return
		}
		if c06IsFloat(lt) {
			b.bad["float+="] = true
			return
		}
	}
	// m[k] = e under the loop's own key; m[e] = struct{}{} / true
	if ix, ok := c06Unparen(lhs).(*ast.IndexExpr); ok && root != nil {
		if _, isMap := c06Under(c06TypeOf(b.info, ix.X)).(*types.Map); isMap {
			if cl, ok := c06Unparen(rhs).(*ast.CompositeLit); ok && len(cl.Elts) == 0 {
				if st, ok := c06Under(c06TypeOf(b.info, rhs)).(*types.Struct); ok && st.NumFields() == 0 {
					b.tokens["setins"] = true
					b.index(lhs)
					return
				}
			}
			if id, ok := c06Unparen(rhs).(*ast.Ident); ok && id.Name == "true" {
				b.tokens["setins"] = true
				b.index(lhs)
				return
			}
			if id, ok := c06Unparen(ix.Index).(*ast.Ident); ok && b.keyObj != nil && b.info.Uses[id] == b.keyObj {
				b.puts[root]++
				b.tokens["put[k]"] = true
				b.index(ix.X)
				b.pure(rhs)
				return
			}
		}
	}
	b.bad["assign"] = true
}

func (b *c06Body) mentions(e ast.Node, o types.Object) bool {
	found := false
	ast.Inspect(e, func(n ast.Node) bool {
		if id, ok := n.(*ast.Ident); ok && b.info.Uses[id] == o {
			found = true
		}
		return !found
	})
	return found
}

func c06Sorted(m map[string]bool) []string {
	var res []string
	for k := range m {
		res = append(res, k)
	}
	sort.Strings(res)
	return res
}

// analyse: the body of a loop; keyObj is the loop's key variable
func (c *c06Census) analyse(f *c06Func, loop ast.Node, body *ast.BlockStmt, keyObj types.Object) *c06Body {
	b := &c06Body{c: c, info: f.pkg.info, fn: f.decl, loop: loop, keyObj: keyObj, written: map[types.Object]bool{}, tokens: map[string]bool{}, bad: map[string]bool{},
		appends: map[types.Object]int{}, puts: map[types.Object]int{}, writes: map[types.Object]int{}}
	b.collect(body)
	ast.Inspect(body, func(n ast.Node) bool {
		switch n.(type) {
		case *ast.FuncLit:
			b.bad["closure"] = true
		case *ast.GoStmt:
			b.bad["go"] = true
		case *ast.SendStmt:
			b.bad["send"] = true
		case *ast.DeferStmt:
			b.bad["defer"] = true
		case *ast.SelectStmt:
			b.bad["select"] = true
		}
		return true
	})
	b.stmts(body.List)
	// a map written under the loop's own key must not be written in any other way
	for r, n := range b.puts {
		if b.writes[r] != n {
			b.bad["put[k]-and-other-writes"] = true
		}
	}
	return b
}

// ------------------------------------------------------------------------------------------------ sorting

var c06SortFuncs = map[string]bool{
	"sort.Slice": true, "sort.SliceStable": true, "sort.Sort": true, "sort.Stable": true, "sort.Strings": true, "sort.Ints": true, "sort.Float64s": true,
	"slices.Sort": true, "slices.SortFunc": true, "slices.SortStableFunc": true,
	"golang.org/x/exp/slices.Sort": true, "golang.org/x/exp/slices.SortFunc": true, "golang.org/x/exp/slices.SortStableFunc": true,
	trKnutPath + "lib/common/compare.Sort": true,
}

// sortCall: is the call a sort of its first argument? returns the sorted expression and the comparator (nil: natural order)
func c06SortCall(info *types.Info, call *ast.CallExpr) (name string, arg ast.Expr, cmp ast.Expr, ok bool) {
	f := c06Callee(info, call)
	if f == nil || !c06SortFuncs[c06QName(f)] || len(call.Args) == 0 {
		return "", nil, nil, false
	}
	arg = c06Unparen(call.Args[0])
	for { // sort.Sort(byName(xs))
		inner, isCall := arg.(*ast.CallExpr)
		if !isCall || len(inner.Args) != 1 || !c06IsConversion(info, inner) {
			break
		}
		cmp = inner.Fun
		arg = c06Unparen(inner.Args[0])
	}
	if len(call.Args) > 1 {
		cmp = call.Args[1]
	}
	return c06Short(c06QName(f)), arg, cmp, true
}

// firstUseSorted: the first use of variable o after pos in the function is the first argument of a sort call
func (c *c06Census) firstUseSorted(f *c06Func, o types.Object, after token.Pos) (string, ast.Expr, bool) {
	info := f.pkg.info
	var first *ast.Ident
	ast.Inspect(f.decl.Body, func(n ast.Node) bool {
		if id, ok := n.(*ast.Ident); ok && id.Pos() >= after && info.Uses[id] == o {
			if first == nil || id.Pos() < first.Pos() {
				first = id
			}
		}
		return true
	})
	if first == nil {
		return "", nil, false
	}
	var name string
	var cmp ast.Expr
	found, okPath := false, true
	var stack []ast.Node
	ast.Inspect(f.decl.Body, func(n ast.Node) bool {
		if n == nil {
			stack = stack[:len(stack)-1]
			return true
		}
		stack = append(stack, n)
		if call, ok := n.(*ast.CallExpr); ok && !found {
			if nm, arg, cm, isSort := c06SortCall(info, call); isSort && arg == ast.Expr(first) {
				name, cmp, found = nm, cm, true
				// the sort must not be conditional: every branching or looping statement around it also contains what filled the slice;
				// the one exception is `if cmp != nil { sort(xs, cmp) }` (Amounts.Index), recorded in the fingerprint
				for _, anc := range stack[:len(stack)-1] {
					switch a := anc.(type) {
					case *ast.IfStmt, *ast.SwitchStmt, *ast.TypeSwitchStmt, *ast.ForStmt, *ast.RangeStmt, *ast.SelectStmt, *ast.FuncLit, *ast.CaseClause, *ast.CommClause:
						if a.Pos() < after && a.End() >= after {
							continue
						}
						if is, isIf := a.(*ast.IfStmt); isIf && is.Init == nil && cm != nil {
							if be, isBin := c06Unparen(is.Cond).(*ast.BinaryExpr); isBin && be.Op == token.NEQ {
								if nilId, isNil := c06Unparen(be.Y).(*ast.Ident); isNil && nilId.Name == "nil" && c06Serialize(info, f.decl, be.X) == c06Serialize(info, f.decl, cm) {
									name += "(if non-nil)"
									continue
								}
							}
						}
						okPath = false
					}
				}
			}
		}
		return true
	})
	return name, cmp, found && okPath
}

func (c *c06Census) sorterText(f *c06Func, name string, cmp ast.Expr) string {
	if cmp == nil {
		return name
	}
	return name + " by " + c.exprText(f, cmp)
}

// ------------------------------------------------------------------------------------------------ functions that hand out map order

// functions outside /repo that return the keys or values of a map in map order
var c06ExternLeaks = map[string]bool{
	"maps.Keys": true, "maps.Values": true, "maps.All": true,
	"golang.org/x/exp/maps.Keys": true, "golang.org/x/exp/maps.Values": true,
}

// leakCall: the call returns a slice in map order; distinct: its elements are pairwise different (keys of a map, elements of a set)
func (c *c06Census) leakCall(info *types.Info, e ast.Expr) (name string, distinct bool, ok bool) {
	call, isCall := c06Unparen(e).(*ast.CallExpr)
	if !isCall {
		return "", false, false
	}
	f := c06Callee(info, call)
	if f == nil {
		return "", false, false
	}
	q := c06QName(f)
	if c06ExternLeaks[q] {
		return c06Short(q), strings.HasSuffix(q, ".Keys"), true
	}
	if cf := c.funcs[f]; cf != nil && cf.leak {
		return c06Short(q), cf.name == "Keys" || strings.HasSuffix(cf.name, ".Slice"), true
	}
	return "", false, false
}

func (c *c06Census) isMapRange(info *types.Info, rs *ast.RangeStmt) bool {
	if t := c06TypeOf(info, rs.X); t != nil {
		if _, ok := c06Under(t).(*types.Map); ok {
			return true
		}
	}
	_, _, ok := c.leakCall(info, rs.X)
	return ok
}

// computeLeaks: fixpoint of "returns, unsorted, a slice that a map range appended to or that a leaking function returned";
// a function that sorts such a slice with a comparator PARAMETER and returns it is a sorting wrapper
func (c *c06Census) computeLeaks() {
	for changed := true; changed; {
		changed = false
		for _, f := range c.order {
			if f.obj == nil || f.decl.Body == nil || f.leak {
				continue
			}
			info := f.pkg.info
			cand := map[types.Object]token.Pos{} // slice variable ↦ end of the statement that filled it in map order
			direct := false
			ast.Inspect(f.decl.Body, func(n ast.Node) bool {
				switch x := n.(type) {
				case *ast.FuncLit:
					return false
				case *ast.RangeStmt:
					if c.isMapRange(info, x) {
						b := c.analyse(f, x, x.Body, nil)
						for o := range b.appends {
							if !c06Within(o, x) {
								cand[o] = x.End()
							}
						}
					}
				case *ast.AssignStmt:
					if _, _, isLeak := c.leakCall(info, x.Rhs[0]); len(x.Lhs) == 1 && len(x.Rhs) == 1 && isLeak {
						if id, ok := x.Lhs[0].(*ast.Ident); ok {
							o := info.Defs[id]
							if o == nil {
								o = info.Uses[id]
							}
							if o != nil {
								cand[o] = x.End()
							}
						}
					}
				case *ast.ReturnStmt:
					for _, r := range x.Results {
						if _, _, isLeak := c.leakCall(info, r); isLeak {
							direct = true
						}
					}
				}
				return true
			})
			leak, wrap := direct, -1
			for o, pos := range cand {
				returned := false
				ast.Inspect(f.decl.Body, func(n ast.Node) bool {
					if r, ok := n.(*ast.ReturnStmt); ok {
						for _, e := range r.Results {
							if id, ok := c06Unparen(e).(*ast.Ident); ok && info.Uses[id] == o {
								returned = true
							}
						}
						if len(r.Results) == 0 { // named result
							if sig, ok := f.obj.Type().(*types.Signature); ok {
								for i := 0; i < sig.Results().Len(); i++ {
									if sig.Results().At(i) == o {
										returned = true
									}
								}
							}
						}
					}
					return true
				})
				if !returned {
					continue
				}
				if _, cmp, sorted := c.firstUseSorted(f, o, pos); sorted {
					if id, ok := c06Unparen(cmp).(*ast.Ident); ok && cmp != nil {
						sig := f.obj.Type().(*types.Signature)
						for i := 0; i < sig.Params().Len(); i++ {
							if sig.Params().At(i) == info.Uses[id] {
								wrap = i
							}
						}
					}
					continue
				}
				leak = true
			}
			if leak && !f.leak {
				f.leak, changed = true, true
			}
			if wrap >= 0 && f.sortWrap != wrap {
				f.sortWrap, changed = wrap, true
			}
		}
	}
}

// computeSortWraps: a function that hands one of its parameters on as the comparator of a sort (compare.Sort(xs, cmp),
// dict.SortedKeys(m, cmp), n.Sort(f) → dict.SortedValues(n.Children, f)) is a sorting wrapper: its calls are `sortcall` sites
func (c *c06Census) computeSortWraps() {
	for changed := true; changed; {
		changed = false
		for _, f := range c.order {
			if f.obj == nil || f.decl.Body == nil || f.sortWrap >= 0 {
				continue
			}
			info := f.pkg.info
			sig := f.obj.Type().(*types.Signature)
			paramIndex := func(e ast.Expr) int {
				id, ok := c06Unparen(e).(*ast.Ident)
				if !ok || e == nil {
					return -1
				}
				for i := 0; i < sig.Params().Len(); i++ {
					if sig.Params().At(i) == info.Uses[id] {
						return i
					}
				}
				return -1
			}
			ast.Inspect(f.decl.Body, func(n ast.Node) bool {
				call, ok := n.(*ast.CallExpr)
				if !ok {
					return true
				}
				if _, _, cmp, isSort := c06SortCall(info, call); isSort && cmp != nil {
					if i := paramIndex(cmp); i >= 0 {
						f.sortWrap = i
					}
				}
				if g := c.funcs[c06Callee(info, call)]; g != nil && g.sortWrap >= 0 && g.sortWrap < len(call.Args) {
					if i := paramIndex(call.Args[g.sortWrap]); i >= 0 {
						f.sortWrap = i
					}
				}
				return true
			})
			if f.sortWrap >= 0 {
				changed = true
			}
		}
	}
}

// computeDrivers: a function that, inside a map range, calls one of its function-typed parameters or hands it on to another
// call (multimap Node.PostOrder: `for _, ch := range n.Children { ch.PostOrder(f) }`) runs the caller's function in map order:
// every call of it is a `mapcallback` site with the function it is given
func (c *c06Census) computeDrivers() {
	for _, f := range c.order {
		if f.obj == nil || f.decl.Body == nil {
			continue
		}
		info := f.pkg.info
		sig := f.obj.Type().(*types.Signature)
		funcParam := func(e ast.Expr) int {
			id, ok := c06Unparen(e).(*ast.Ident)
			if !ok {
				return 0
			}
			for i := 0; i < sig.Params().Len(); i++ {
				if sig.Params().At(i) == info.Uses[id] {
					if _, isFunc := c06Under(sig.Params().At(i).Type()).(*types.Signature); isFunc {
						return i + 1
					}
				}
			}
			return 0
		}
		ast.Inspect(f.decl.Body, func(n ast.Node) bool {
			rs, ok := n.(*ast.RangeStmt)
			if !ok || !c.isMapRange(info, rs) {
				return true
			}
			ast.Inspect(rs.Body, func(m ast.Node) bool {
				call, ok := m.(*ast.CallExpr)
				if !ok {
					return true
				}
				mark := func(i int) {
					if i > 0 {
						if f.drivers == nil {
							f.drivers = map[int]bool{}
						}
						f.drivers[i-1] = true
					}
				}
				mark(funcParam(call.Fun))
				for _, a := range call.Args {
					mark(funcParam(a))
				}
				return true
			})
			return true
		})
	}
}

// computeDriversTransitive: handing a function-typed parameter on to a driver's driven position makes a driver as well (SumBy → SumIntoBy)
func (c *c06Census) computeDriversTransitive() {
	for changed := true; changed; {
		changed = false
		for _, f := range c.order {
			if f.obj == nil || f.decl.Body == nil {
				continue
			}
			info := f.pkg.info
			sig := f.obj.Type().(*types.Signature)
			ast.Inspect(f.decl.Body, func(n ast.Node) bool {
				call, ok := n.(*ast.CallExpr)
				if !ok {
					return true
				}
				g := c.funcs[c06Callee(info, call)]
				if g == nil {
					return true
				}
				for i, a := range call.Args {
					id, ok := c06Unparen(a).(*ast.Ident)
					if !ok || !g.drivers[i] {
						continue
					}
					for j := 0; j < sig.Params().Len(); j++ {
						if sig.Params().At(j) == info.Uses[id] && !f.drivers[j] {
							if f.drivers == nil {
								f.drivers = map[int]bool{}
							}
							f.drivers[j] = true
							changed = true
						}
					}
				}
				return true
			})
		}
	}
}

// funcLitOf: the function literal an argument denotes (directly, or a local variable that is assigned one literal once)
func (c *c06Census) funcLitOf(f *c06Func, e ast.Expr) *ast.FuncLit {
	info := f.pkg.info
	switch x := c06Unparen(e).(type) {
	case *ast.FuncLit:
		return x
	case *ast.Ident:
		v, ok := info.Uses[x].(*types.Var)
		if !ok || !c06Within(v, f.decl) {
			return nil
		}
		var lits []*ast.FuncLit
		n := 0
		ast.Inspect(f.decl.Body, func(m ast.Node) bool {
			as, ok := m.(*ast.AssignStmt)
			if !ok || len(as.Lhs) != len(as.Rhs) {
				return true
			}
			for i, l := range as.Lhs {
				if lid, ok := l.(*ast.Ident); ok && (info.Defs[lid] == types.Object(v) || info.Uses[lid] == types.Object(v)) {
					n++
					if fl, ok := c06Unparen(as.Rhs[i]).(*ast.FuncLit); ok {
						lits = append(lits, fl)
					}
				}
			}
			return true
		})
		if n == 1 && len(lits) == 1 {
			return lits[0]
		}
	}
	return nil
}

// ------------------------------------------------------------------------------------------------ the translator's index

func (c *c06Census) loadTrans() {
	c.trans = map[string]int{}
	idx, err := os.ReadFile(filepath.Join(c.gendir, "Trans.lean"))
	if err != nil {
		return
	}
	translated := map[string]bool{}
	re := regexp.MustCompile(`\("(\w+)", "([^"]+)", "translated"\)`)
	for _, m := range re.FindAllStringSubmatch(string(idx), -1) {
		translated[m[1]+"\x00"+m[2]] = true
	}
	texts := map[string][]string{}
	orderRe := regexp.MustCompile(`\(order\d+ :`)
	for _, u := range trUnits {
		for _, fn := range u.funcs {
			parts := strings.Split(fn, ".")
			for i := range parts {
				parts[i] = trMangle(parts[i])
			}
			lean := strings.Join(parts, ".")
			if !translated[u.mod+"\x00"+lean] {
				c.trans[u.pkg+"\x00"+fn] = -1
				continue
			}
			if _, ok := texts[u.mod]; !ok {
				data, _ := os.ReadFile(filepath.Join(c.gendir, "Trans"+u.mod+".lean"))
				texts[u.mod] = strings.Split(string(data), "\n")
			}
			n := 0
			for _, line := range texts[u.mod] {
				rest := ""
				for _, kw := range []string{"def ", "partial def ", "private def "} {
					if strings.HasPrefix(line, kw) {
						rest = strings.TrimPrefix(line, kw)
					}
				}
				if rest == "" {
					continue
				}
				name := rest
				if i := strings.IndexAny(rest, " :"); i >= 0 {
					name = rest[:i]
				}
				if name != lean && !strings.HasPrefix(name, lean+".") {
					continue
				}
				helper := false
				for _, seg := range strings.Split(strings.TrimPrefix(name, lean), ".") {
					if regexp.MustCompile(`^(range|loop|post|cmp)\d+$`).MatchString(seg) {
						helper = true
					}
				}
				if helper {
					continue
				}
				n += len(orderRe.FindAllString(line, -1))
			}
			c.trans[u.pkg+"\x00"+fn] = n
		}
	}
}

// ------------------------------------------------------------------------------------------------ the walk

var c06Nondet = map[string]map[string]bool{
	"time":         {"Now": true, "Since": true, "Until": true, "After": true, "Tick": true, "NewTimer": true, "NewTicker": true, "AfterFunc": true, "Sleep": true},
	"os":           {"Getenv": true, "LookupEnv": true, "Environ": true, "Getpid": true, "Getppid": true, "Hostname": true, "Getwd": true, "UserHomeDir": true, "TempDir": true, "MkdirTemp": true, "CreateTemp": true, "Getuid": true, "Executable": true},
	"runtime":      {"NumCPU": true, "GOMAXPROCS": true, "NumGoroutine": true, "Gosched": true},
	"math/rand":    nil,
	"math/rand/v2": nil,
	"crypto/rand":  nil,
}

func (c *c06Census) add(f *c06Func, kind, cls, fp string) {
	fp = strings.NewReplacer("\"", "'", "\\", "/", "\n", " ", "\t", " ").Replace(fp)
	c.sites = append(c.sites, c06Site{f.file, f.name, kind, cls, fp})
}

func (c *c06Census) walkFunc(f *c06Func) {
	if f.decl.Body == nil {
		return
	}
	info := f.pkg.info
	pkgdir := filepath.ToSlash(filepath.Dir(f.file))
	// map ranges of the function (for class a)
	nMap := 0
	ast.Inspect(f.decl.Body, func(n ast.Node) bool {
		if rs, ok := n.(*ast.RangeStmt); ok && c.isMapRange(info, rs) {
			nMap++
		}
		return true
	})
	orders, known := c.trans[pkgdir+"\x00"+f.name]
	classA := known && orders >= nMap && orders > 0
	var locks []string
	var stack []ast.Node
	inLoop := func() string { // innermost enclosing loop or closure
		for i := len(stack) - 2; i >= 0; i-- {
			switch x := stack[i].(type) {
			case *ast.RangeStmt:
				if c.isMapRange(info, x) {
					return "maprange"
				}
				if t := c06TypeOf(info, x.X); t != nil {
					if _, ok := c06Under(t).(*types.Chan); ok {
						return "chanrange"
					}
				}
				return "range"
			case *ast.ForStmt:
				return "for"
			case *ast.FuncLit:
				return "closure"
			}
		}
		return "straight"
	}
	inRangeHeader := map[ast.Node]bool{}
	inComm := map[ast.Node]bool{}
	ast.Inspect(f.decl.Body, func(n ast.Node) bool {
		if n == nil {
			stack = stack[:len(stack)-1]
			return true
		}
		stack = append(stack, n)
		switch x := n.(type) {
		case *ast.RangeStmt:
			t := c06TypeOf(info, x.X)
			var keyObj types.Object
			if id, ok := x.Key.(*ast.Ident); ok && id.Name != "_" {
				keyObj = info.Defs[id]
			}
			over := "?"
			if t != nil {
				over = types.TypeString(t, func(p *types.Package) string { return p.Name() })
			}
			switch {
			case t == nil && !c.isMapRange(info, x):
				c.add(f, "range?", "d", "over "+c.exprText(f, x.X)+" h="+c06Hash(c06Serialize(info, f.decl, x.Body)))
			case c.isMapRange(info, x):
				if name, distinct, ok := c.leakCall(info, x.X); ok {
					over = "call " + name
					keyObj = nil // the key of a slice range is an index
					if id, ok := x.Value.(*ast.Ident); ok && id.Name != "_" && distinct {
						keyObj = info.Defs[id] // the elements of Keys / Slice are pairwise different
					}
					inRangeHeader[c06Unparen(x.X)] = true
				}
				b := c.analyse(f, x, x.Body, keyObj)
				toks := strings.Join(c06Sorted(b.tokens), ",")
				if classA {
					c.translated[f.file+"\x00"+f.name] = true
				}
				switch {
				case len(b.bad) == 0 && len(b.appends) == 1:
					var o types.Object
					for o = range b.appends {
					}
					if name, cmp, ok := c.firstUseSorted(f, o, x.End()); ok && !c06Within(o, x) {
						c.add(f, "maprange", "b", "over "+over+"; "+toks+" then "+c.sorterText(f, name, cmp))
					} else {
						c.add(f, "maprange", "d", "over "+over+"; "+toks+" unsorted h="+c06Hash(c06Serialize(info, f.decl, x.Body)))
					}
				case len(b.bad) == 0 && len(b.appends) == 0:
					c.add(f, "maprange", "c", "over "+over+"; "+toks)
				default:
					all := append(c06Sorted(b.tokens), c06Sorted(b.bad)...)
					c.add(f, "maprange", "d", "over "+over+"; "+strings.Join(all, ",")+" h="+c06Hash(c06Serialize(info, f.decl, x.Body)))
				}
			default:
				if _, ok := c06Under(t).(*types.Chan); ok {
					c.add(f, "chanrange", "-", "over "+over+" in "+inLoop())
				}
			}
		case *ast.GoStmt:
			target := "func"
			if _, ok := c06Unparen(x.Call.Fun).(*ast.FuncLit); !ok {
				target = c.exprText(f, x.Call.Fun)
			}
			c.add(f, "go", "-", "go "+target+" in "+inLoop())
		case *ast.SelectStmt:
			var cases []string
			for _, cc := range x.Body.List {
				cl := cc.(*ast.CommClause)
				inComm[cl.Comm] = true
				switch s := cl.Comm.(type) {
				case nil:
					cases = append(cases, "default")
				case *ast.SendStmt:
					cases = append(cases, "send")
				case *ast.ExprStmt:
					cases = append(cases, "recv"+c06DoneSuffix(s.X))
					inComm[c06Unparen(s.X)] = true
				case *ast.AssignStmt:
					if len(s.Rhs) == 1 {
						cases = append(cases, "recv"+c06DoneSuffix(s.Rhs[0]))
						inComm[c06Unparen(s.Rhs[0])] = true
					}
				}
			}
			sort.Strings(cases)
			c.add(f, "select", "-", strings.Join(cases, ",")+" in "+inLoop())
		case *ast.SendStmt:
			if !inComm[x] {
				c.add(f, "send", "-", "in "+inLoop())
			}
		case *ast.UnaryExpr:
			if x.Op == token.ARROW && !inComm[x] {
				c.add(f, "recv", "-", "in "+inLoop())
			}
		case *ast.AssignStmt:
			if len(x.Lhs) == 1 && len(x.Rhs) == 1 && c06IsFloat(c06TypeOf(info, x.Lhs[0])) {
				op := ""
				switch x.Tok {
				case token.ADD_ASSIGN, token.SUB_ASSIGN, token.MUL_ASSIGN, token.QUO_ASSIGN:
					op = x.Tok.String()
				case token.ASSIGN:
					if bin, ok := c06Unparen(x.Rhs[0]).(*ast.BinaryExpr); ok {
						ls := c06Serialize(info, f.decl, x.Lhs[0])
						if c06Serialize(info, f.decl, bin.X) == ls || c06Serialize(info, f.decl, bin.Y) == ls {
							op = bin.Op.String() + "="
						}
					}
				}
				if op != "" {
					ctx := inLoop()
					cls := "s"
					for i := len(stack) - 2; i >= 0; i-- {
						if rs, ok := stack[i].(*ast.RangeStmt); ok {
							if c.isMapRange(info, rs) {
								cls = "d"
							} else if t := c06TypeOf(info, rs.X); t == nil {
								cls = "d"
							} else if _, isChan := c06Under(t).(*types.Chan); isChan {
								cls = "d"
							}
						}
					}
					shape := "var"
					switch c06Unparen(x.Lhs[0]).(type) {
					case *ast.IndexExpr:
						shape = "element"
					case *ast.SelectorExpr:
						shape = "field"
					}
					c.add(f, "floatacc", cls, op+" "+shape+" in "+ctx)
				}
			}
		case *ast.SelectorExpr:
			if id, ok := x.X.(*ast.Ident); ok {
				if pn, ok := info.Uses[id].(*types.PkgName); ok {
					path := pn.Imported().Path()
					if names, listed := c06Nondet[path]; listed && (names == nil || names[x.Sel.Name]) {
						if _, isType := info.Uses[x.Sel].(*types.TypeName); !isType {
							c.add(f, "nondet", "-", path+"."+x.Sel.Name)
						}
					}
				}
			}
		case *ast.CallExpr:
			// lock operations
			if sel, ok := c06Unparen(x.Fun).(*ast.SelectorExpr); ok {
				switch sel.Sel.Name {
				case "Lock", "Unlock", "RLock", "RUnlock":
					if len(x.Args) == 0 {
						op := sel.Sel.Name
						if len(stack) >= 2 {
							if _, isDefer := stack[len(stack)-2].(*ast.DeferStmt); isDefer {
								op = "defer " + op
							}
						}
						locks = append(locks, op)
					}
				case "Go":
					if len(x.Args) == 1 && c06Callee(info, x) == nil || c.funcs[c06Callee(info, x)] == nil {
						recv := "?"
						if t := c06TypeOf(info, sel.X); t != nil {
							recv = types.TypeString(t, func(p *types.Package) string { return p.Name() })
						}
						c.add(f, "go", "-", recv+".Go in "+inLoop())
					}
				}
			}
			callee := c06Callee(info, x)
			if callee != nil && callee.Pkg() != nil && callee.Pkg().Path() == trKnutPath+"lib/common/cpr" && pkgdir != "lib/common/cpr" {
				c.add(f, "cpr", "-", "cpr."+callee.Name()+" in "+inLoop())
			}
			if _, _, isLeak := c.leakCall(info, x); isLeak || c.funcs[callee] != nil {
				cf := c.funcs[callee]
				if cf == nil {
					cf = &c06Func{sortWrap: -1}
				}
				if isLeak && !inRangeHeader[n] {
					// result sorted before use?
					cls, fp := "d", "call "+c06Short(c06QName(callee))+" unsorted"
					if len(stack) >= 2 {
						switch p := stack[len(stack)-2].(type) {
						case *ast.AssignStmt:
							if len(p.Lhs) == 1 && len(p.Rhs) == 1 {
								if id, ok := p.Lhs[0].(*ast.Ident); ok {
									o := info.Defs[id]
									if o == nil {
										o = info.Uses[id]
									}
									if name, cmp, ok := c.firstUseSorted(f, o, p.End()); ok {
										cls, fp = "b", "call "+c06Short(c06QName(callee))+" then "+c.sorterText(f, name, cmp)
									}
								}
							}
						case *ast.CallExpr:
							if name, arg, cmp, ok := c06SortCall(info, p); ok && arg == ast.Expr(x) {
								cls, fp = "b", "call "+c06Short(c06QName(callee))+" then "+c.sorterText(f, name, cmp)
							}
						}
					}
					c.add(f, "mapcall", cls, fp)
				}
				if cf.sortWrap >= 0 && cf.sortWrap < len(x.Args) {
					cls := "b"
					if id, ok := c06Unparen(x.Args[cf.sortWrap]).(*ast.Ident); ok && id.Name == "nil" {
						cls = "d" // no comparator: the wrapper hands out map order
					}
					c.add(f, "sortcall", cls, c06Short(c06QName(callee))+" by "+c.exprText(f, x.Args[cf.sortWrap]))
				}
			}
			if name, _, cmp, ok := c06SortCall(info, x); ok {
				c.add(f, "sort", "-", c.sorterText(f, name, cmp))
			}
			// a function run in map order by a driver (PostOrder); the comparator of a sorting wrapper is a `sortcall` site already
			var driven []int
			if cf := c.funcs[callee]; cf != nil {
				for i := range x.Args {
					if cf.drivers[i] && i != cf.sortWrap {
						driven = append(driven, i)
					}
				}
			}
			for _, di := range driven {
				arg := x.Args[di]
				if id, ok := c06Unparen(arg).(*ast.Ident); ok && id.Name == "nil" {
					continue
				}
				forwarded := false
				if id, ok := c06Unparen(arg).(*ast.Ident); ok {
					if sig, ok := info.Defs[f.decl.Name].(*types.Func); ok {
						ps := sig.Type().(*types.Signature).Params()
						for i := 0; i < ps.Len(); i++ {
							if ps.At(i) == info.Uses[id] {
								forwarded = true // the enclosing function is a driver itself; its callers are the sites
							}
						}
					}
				}
				if !forwarded {
					name := c06Short(c06QName(callee))
					if lit := c.funcLitOf(f, arg); lit != nil {
						b := c.analyse(f, lit, lit.Body, nil)
						delete(b.bad, "closure")
						toks := strings.Join(c06Sorted(b.tokens), ",")
						if classA {
							c.translated[f.file+"\x00"+f.name] = true
						}
						switch {
						case len(b.bad) == 0 && len(b.appends) == 0:
							c.add(f, "mapcallback", "c", name+" with a function literal; "+toks)
						default:
							all := append(c06Sorted(b.tokens), c06Sorted(b.bad)...)
							c.add(f, "mapcallback", "d", name+" with a function literal; "+strings.Join(all, ",")+" h="+c06Hash(c06Serialize(info, f.decl, lit.Body)))
						}
					} else {
						c.add(f, "mapcallback", "d", name+" with "+c.exprText(f, arg))
					}
				}
			}
		}
		return true
	})
	if len(locks) > 0 {
		// with the statement shape of facts_c19.go (lookups, writes and returns between the lock operations, top level of the body)
		shape := c19Shape(f.decl.Body.List)
		for i, tok := range shape { // `return as.getOrCreatePath`: drop the receiver's name
			if strings.HasPrefix(tok, "return ") {
				shape[i] = "return " + tok[strings.LastIndex(tok, ".")+1:]
				if !strings.Contains(tok, ".") {
					shape[i] = tok
				}
			}
		}
		c.add(f, "lock", "-", strings.Join(locks, " ")+"; shape: "+strings.Join(shape, " "))
	}
}

func c06DoneSuffix(e ast.Expr) string {
	if u, ok := c06Unparen(e).(*ast.UnaryExpr); ok && u.Op == token.ARROW {
		if call, ok := c06Unparen(u.X).(*ast.CallExpr); ok {
			if sel, ok := c06Unparen(call.Fun).(*ast.SelectorExpr); ok && sel.Sel.Name == "Done" {
				return ":Done"
			}
		}
	}
	return ""
}

// ------------------------------------------------------------------------------------------------ output

func c06LeanName(file string) string {
	var b strings.Builder
	for _, r := range file {
		if r >= 'a' && r <= 'z' || r >= 'A' && r <= 'Z' || r >= '0' && r <= '9' {
			b.WriteRune(r)
		} else {
			b.WriteByte('_')
		}
	}
	return b.String()
}

func c06SiteLean(s c06Site) string {
	return fmt.Sprintf("(%s, %s, %s, %s, %s)", leanStr(s.file), leanStr(s.fn), leanStr(s.kind), leanStr(s.cls), leanStr(s.fp))
}

var c06ConcKinds = map[string]bool{"go": true, "cpr": true, "chanrange": true, "select": true, "recv": true, "send": true, "lock": true}

// the module of lean/Knut/FactsAgree that holds the reviewed expectation of a site
func (s c06Site) module() string {
	if c06ConcKinds[s.kind] {
		return "C06Conc"
	}
	return "C06"
}

func c06WriteList(b *strings.Builder, head string, items []string) {
	b.WriteString(head + " := [\n")
	for i, it := range items {
		sep := ","
		if i == len(items)-1 {
			sep = ""
		}
		b.WriteString("  " + it + sep + "\n")
	}
	b.WriteString("]\n\n")
}

// extractCensusC06 writes <gendir>/Census.lean and prints the differences to the reviewed expectations of
// FactsAgree/C06.lean (order, float and clock sites) and FactsAgree/C06Conc.lean (goroutines, channels, locks)
func extractCensusC06(repo, gendir string) {
	// a failure of the census must not take the other properties' facts down with it: it leaves a census that matches no expectation
	defer func() {
		if r := recover(); r != nil {
			msg := strings.NewReplacer("\"", "'", "\\", "/", "\n", " ").Replace(fmt.Sprint(r))
			stub := "/- GENERATED by `harness extract`: the census FAILED -/\nnamespace Knut.Generated.Census\nabbrev Site := String × String × String × String × String\n" +
				"def files : List (String × Nat) := [(\"census extraction failed: " + msg + "\", 0)]\ndef concFiles : List (String × Nat) := files\ndef all : List Site := []\ndef concAll : List Site := []\ndef classD : List Site := []\ndef translated : List (String × String) := []\nend Knut.Generated.Census\n"
			_ = os.WriteFile(filepath.Join(gendir, "Census.lean"), []byte(stub), 0o644)
			fmt.Printf("census-new-site C06 (census extraction failed): %s\n", msg)
			fmt.Printf("census-new-site C06Conc (census extraction failed): %s\n", msg)
		}
	}()
	c := &c06Census{l: c06NewLoader(repo), funcs: map[*types.Func]*c06Func{}, gendir: gendir, translated: map[string]bool{}}
	c.loadAll()
	c.loadTrans()
	c.computeLeaks()
	c.computeSortWraps()
	c.computeDrivers()
	c.computeDriversTransitive()
	for _, f := range c.order {
		c.walkFunc(f)
	}
	sort.SliceStable(c.sites, func(i, j int) bool { return c.sites[i].key() < c.sites[j].key() })
	var b strings.Builder
	b.WriteString("/- GENERATED by `harness extract` (harness/facts_c06.go) from the Go sources of /repo on every run of bin/check. Do not edit.\n")
	b.WriteString("   The census of order-sensitive sites: (file, function, kind, class, fingerprint); see harness/facts_c06.go for the kinds and classes.\n")
	b.WriteString("   `<file>`: map ranges, calls handing out or sorting map order, sorts, float accumulation, clock/environment; `conc_<file>`: goroutines, channels, locks. -/\n")
	b.WriteString("namespace Knut.Generated.Census\n\nabbrev Site := String × String × String × String × String\n\n")
	fmt.Fprintf(&b, "/-- functions (and package-level initialisers) of /repo that were walked -/\ndef functionsWalked : Nat := %d\n\n", len(c.order))
	for _, mod := range []string{"C06", "C06Conc"} {
		prefix, filesName := "", "files"
		if mod == "C06Conc" {
			prefix, filesName = "conc_", "concFiles"
		}
		byFile := map[string][]string{}
		var files []string
		for _, s := range c.sites {
			if s.module() != mod {
				continue
			}
			if _, ok := byFile[s.file]; !ok {
				files = append(files, s.file)
			}
			byFile[s.file] = append(byFile[s.file], c06SiteLean(s))
		}
		var counts []string
		for _, f := range files {
			c06WriteList(&b, "def "+prefix+c06LeanName(f)+" : List Site", byFile[f])
			counts = append(counts, fmt.Sprintf("(%s, %d)", leanStr(f), len(byFile[f])))
		}
		b.WriteString("/-- every file with at least one such site, with the number of its sites -/\n")
		c06WriteList(&b, "def "+filesName+" : List (String × Nat)", counts)
		allName := map[string]string{"C06": "all", "C06Conc": "concAll"}[mod]
		b.WriteString("/-- all these sites -/\ndef " + allName + " : List Site :=\n  ")
		for i, f := range files {
			if i > 0 {
				b.WriteString(" ++ ")
			}
			b.WriteString(prefix + c06LeanName(f))
		}
		if len(files) == 0 {
			b.WriteString("[]")
		}
		b.WriteString("\n\n")
	}
	var tr []string
	for k := range c.translated {
		parts := strings.SplitN(k, "\x00", 2)
		tr = append(tr, fmt.Sprintf("(%s, %s)", leanStr(parts[0]), leanStr(parts[1])))
	}
	sort.Strings(tr)
	b.WriteString("/-- class a: the functions with map ranges (or functions run in map order) that the Go→Lean translator covers with every iteration\n    order as an explicit parameter of the generated definitions (Generated/Trans.lean says `translated`): (file, function) -/\n")
	c06WriteList(&b, "def translated : List (String × String)", tr)
	var ds []string
	for _, s := range c.sites {
		if s.cls == "d" {
			ds = append(ds, c06SiteLean(s))
		}
	}
	b.WriteString("/-- the sites of class d (not classified mechanically as harmless) -/\n")
	c06WriteList(&b, "def classD : List Site", ds)
	b.WriteString("end Knut.Generated.Census\n")
	path := filepath.Join(gendir, "Census.lean")
	if old, err := os.ReadFile(path); err != nil || string(old) != b.String() {
		tmp := path + ".tmp"
		if err := os.WriteFile(tmp, []byte(b.String()), 0o644); err != nil {
			fatalf("%v", err)
		}
		if err := os.Rename(tmp, path); err != nil {
			fatalf("%v", err)
		}
	}
	for _, mod := range []string{"C06", "C06Conc"} {
		c.diffExpectation(mod, filepath.Join(filepath.Dir(gendir), "FactsAgree", mod+".lean"))
	}
}

// diffExpectation: the reviewed tables of FactsAgree/<mod>.lean are 5-tuples of string literals, one per line, before the
// marker `-- ALLOWLIST-SECTION` (the allowlist repeats the class-d sites). Differences are printed as
// `census-new-site <mod> <file>:<func>: …`, `census-changed-site …` (same file, function and kind), `census-gone-site …`.
func (c *c06Census) diffExpectation(mod, path string) {
	data, err := os.ReadFile(path)
	if err != nil {
		return
	}
	text := string(data)
	if i := strings.Index(text, "-- ALLOWLIST-SECTION"); i >= 0 {
		text = text[:i]
	}
	re := regexp.MustCompile(`(?m)^\s*\("([^"]*)", "([^"]*)", "([^"]*)", "([^"]*)", "([^"]*)"\)`)
	expected := map[string]int{}
	var exp []c06Site
	for _, m := range re.FindAllStringSubmatch(text, -1) {
		s := c06Site{m[1], m[2], m[3], m[4], m[5]}
		exp = append(exp, s)
		expected[s.key()]++
	}
	var extra []c06Site
	for _, s := range c.sites {
		if s.module() != mod {
			continue
		}
		if expected[s.key()] > 0 {
			expected[s.key()]--
		} else {
			extra = append(extra, s)
		}
	}
	var missing []c06Site
	for _, s := range exp {
		if expected[s.key()] > 0 {
			expected[s.key()]--
			missing = append(missing, s)
		}
	}
	used := make([]bool, len(missing))
	for _, s := range extra {
		match := -1
		for i, m := range missing {
			if !used[i] && m.file == s.file && m.fn == s.fn && m.kind == s.kind {
				match = i
				break
			}
		}
		if match >= 0 {
			used[match] = true
			m := missing[match]
			fmt.Printf("census-changed-site %s %s:%s: %s class %s [%s] (reviewed: class %s [%s])\n", mod, s.file, s.fn, s.kind, s.cls, s.fp, m.cls, m.fp)
		} else {
			fmt.Printf("census-new-site %s %s:%s: %s class %s [%s]\n", mod, s.file, s.fn, s.kind, s.cls, s.fp)
		}
	}
	for i, m := range missing {
		if !used[i] {
			fmt.Printf("census-gone-site %s %s:%s: %s class %s [%s]\n", mod, m.file, m.fn, m.kind, m.cls, m.fp)
		}
	}
}
