import Knut.Generated.Facts
import Knut.Model.Accrual
/-! The constants extracted from `lib/model/transaction/transaction.go` and the parser on every run
agree with what the accrual model assumes. -/
namespace Knut.FactsAgree.C10
open Knut

/-- `amount, rem := p.Quantity.QuoRem(n, 1)` -/
theorem quoRem_precision : Generated.accrualQuoRemPrecision = Accrual.quoRemPlaces := by decide
/-- the intervals the parser admits after `@accrue` -/
theorem interval_domain : Generated.intervalKeywords = ["daily", "weekly", "monthly", "quarterly"] := by decide
theorem addon_keywords : Generated.addonKeywords = ["@performance", "@accrue"] := by decide

end Knut.FactsAgree.C10
