import Knut.Properties.C04
import Knut.FactsAgree.TransCheck
import Knut.Generated.Facts
/-!
# C04 on the generated definitions

The theorems of `Properties/C04.lean` are about the model checker `Check.run`; `FactsAgree/TransCheck.lean` proves the four methods
translated from `/repo`'s `lib/journal/check/check.go` (`Checker.open`, `posting`, `balance`, `close`) equal to the model's steps
through the state equivalence `StEquiv` — `close` **for every iteration order** of the map `ch.quantities`.  This module composes them.

The object of every statement is `runGo cur src ord days`: the GENERATED methods, started on the state `Checker.Check()` creates
(`initGo`: default options, empty map, empty set), folded over the days of a journal in the order of `Processor.Process` (`Open` for every
opening; `Posting` for every posting of every transaction; `Balance` for every balance of every assertion; `Close` for every closing;
no `DayEnd`: `Write` is false), stopping at the first error.  The translated error value keeps the message class only, so the fold
records next to it the directive of the failing call (what `check.Error` wraps in Go).

Parameters that stay: `cur` (the `IsCurrency` flag of every commodity name), `src` (the `Src` pointer given to every directive: no
translated method reads it), and `ord : Checker → Close → List Key` — **the iteration order of `range ch.quantities` in each call of
`close`**, an arbitrary function of the whole state and the directive; the only hypothesis is `OrdOK ord`: the order reaches every key
of the map (it may repeat keys and contain others).
-/
namespace Knut.C04Go
open Knut Knut.Spec
open Knut.Generated.Go
open Knut.FactsAgree.TransCheck Knut.FactsAgree.TransPosting Knut.FactsAgree.TransAccount

/-- result of a run of the translated checker: the final state, or the error value and the directive of the failing call -/
abbrev GoRes := Except (GoSem.Error × Knut.Directive) check.Checker

/-- the state `Checker.Check()` starts from (default options) -/
def initGo : check.Checker :=
  { Write := false, NoCheck := false, quantities := [], accounts := set.New, assertions := [] }

/-- the iteration order of `range ch.quantities` in a call of `close` reaches every key of the map -/
def OrdOK (ord : check.Checker → Knut.Close → List amounts.Key) : Prop :=
  ∀ g c k, (Knut.AMap.find? g.quantities k).isSome → k ∈ ord g c

def stepOpen (src : GoSem.Ref) (g : check.Checker) (o : Knut.Open) : GoRes :=
  match check.Checker.open_ g (openGo src o) with
  | (g', none) => .ok g'
  | (_, some e) => .error (e, .opening o)

def stepPosting (cur : String → Bool) (src : GoSem.Ref) (g : check.Checker) (t : Knut.Transaction) (p : Knut.Posting) : GoRes :=
  match check.Checker.posting g (Knut.FactsAgree.TransTransaction.txGo cur src src t) (postingGo cur src p) with
  | (g', none) => .ok g'
  | (_, some e) => .error (e, .tx t)

def stepBalance (cur : String → Bool) (src : GoSem.Ref) (g : check.Checker) (a : Knut.Assertion) (b : Knut.Balance) : GoRes :=
  match check.Checker.balance g ⟨src, a.date, a.balances.map (balanceGo cur src)⟩ (balanceGo cur src b) with
  | none => .ok g
  | some e => .error (e, .assertion a)

def stepClose (src : GoSem.Ref) (ord : check.Checker → Knut.Close → List amounts.Key) (g : check.Checker) (c : Knut.Close) : GoRes :=
  match check.Checker.close g (closeGo src c) (ord g c) with
  | (g', none) => .ok g'
  | (_, some e) => .error (e, .closing c)

/-- `Processor.Process(d)` with the checker's callbacks -/
def dayGo (cur : String → Bool) (src : GoSem.Ref) (ord : check.Checker → Knut.Close → List amounts.Key)
    (g : check.Checker) (d : Knut.Day) : GoRes := do
  let g ← d.openings.foldlM (stepOpen src) g
  let g ← d.transactions.foldlM (fun g t => t.postings.foldlM (fun g p => stepPosting cur src g t p) g) g
  let g ← d.assertions.foldlM (fun g a => a.balances.foldlM (fun g b => stepBalance cur src g a b) g) g
  d.closings.foldlM (stepClose src ord) g

/-- the order of the blocks of `Processor.Process`, as the fact extractor reads it from the current source: `dayGo` follows it (`Posting`
and `Balance` nest inside the `Transaction` and `Assertion` blocks; the checker sets no `DayStart`, `Price`, `Transaction`, `Assertion`
callback, and `DayEnd` only with `Write`).  A reordering of the blocks in `journal.go` breaks this example. -/
example : Knut.Generated.processorCallbackOrder = ["DayStart", "Price", "Open", "Transaction", "Assertion", "Close", "DayEnd"] := rfl

/-- the translated checker over a whole journal -/
def runGo (cur : String → Bool) (src : GoSem.Ref) (ord : check.Checker → Knut.Close → List amounts.Key) (days : List Knut.Day) : GoRes :=
  days.foldlM (dayGo cur src ord) initGo

/-- the message of the Go error is the message of the model's error kind (`Checker.posting` words "not open" with the account) -/
def MsgOK (e : GoSem.Error) (k : CheckErrKind) : Prop :=
  e.msg = msgOf k ∨ (k = .notOpen ∧ e.msg = "account %s is not open")

/-- errors correspond: the same directive, the message of the same kind -/
def ErrGo (x : GoSem.Error × Knut.Directive) (err : CheckErr) : Prop := x.2 = err.directive ∧ MsgOK x.1 err.kind

theorem initGo_equiv (cur : String → Bool) : StEquiv cur initGo {} := by
  refine ⟨rfl, ?_, ?_, ?_, ?_⟩
  · intro a; simp [initGo, set.New, set.Set.Has]
  · intro p; simp [initGo]
  · intro k hk; simp [initGo] at hk
  · simp

theorem sim_open (cur : String → Bool) (src : GoSem.Ref) {g : check.Checker} {st : CheckState} (h : StEquiv cur g st) (o : Knut.Open) :
    Sim (StEquiv cur) ErrGo (stepOpen src g o) (Check.openAcc st o) := by
  have := open_agrees cur h src o
  unfold stepOpen
  cases hg : check.Checker.open_ g (openGo src o) with
  | mk g' e =>
    rw [hg] at this
    cases hm : Check.openAcc st o with
    | ok st' => rw [hm] at this; cases e <;> simp at this ⊢; exact this
    | error err =>
      rw [hm] at this
      cases e with
      | none => simp at this
      | some e =>
        simp at this ⊢
        refine ⟨?_, Or.inl this.2⟩
        unfold Check.openAcc at hm
        split at hm
        · injection hm with hm; rw [← hm]
        · cases hm

theorem sim_posting (cur : String → Bool) (src : GoSem.Ref) {g : check.Checker} {st : CheckState} (h : StEquiv cur g st)
    (t : Knut.Transaction) (p : Knut.Posting) :
    Sim (StEquiv cur) ErrGo (stepPosting cur src g t p) (Check.posting st t p) := by
  have := posting_agrees cur h src src src t p
  unfold stepPosting
  cases hg : check.Checker.posting g (Knut.FactsAgree.TransTransaction.txGo cur src src t) (postingGo cur src p) with
  | mk g' e =>
    rw [hg] at this
    cases hm : Check.posting st t p with
    | ok st' => rw [hm] at this; cases e <;> simp at this ⊢; exact this
    | error err =>
      rw [hm] at this
      cases e with
      | none => simp at this
      | some e =>
        simp at this ⊢
        refine ⟨?_, Or.inr ⟨this.2.2, this.2.1⟩⟩
        unfold Check.posting at hm
        split at hm
        · injection hm with hm; rw [← hm]
        · split at hm <;> cases hm

theorem sim_balance (cur : String → Bool) (src : GoSem.Ref) {g : check.Checker} {st : CheckState} (h : StEquiv cur g st)
    (a : Knut.Assertion) (b : Knut.Balance) :
    Sim (StEquiv cur) ErrGo (stepBalance cur src g a b) (Check.balance st a b) := by
  have := balance_agrees cur h src src a b
  unfold stepBalance
  cases hg : check.Checker.balance g ⟨src, a.date, a.balances.map (balanceGo cur src)⟩ (balanceGo cur src b) with
  | none =>
    rw [hg] at this
    cases hm : Check.balance st a b with
    | ok st' => rw [hm] at this; simp at this ⊢; rw [this]; exact h
    | error err => rw [hm] at this; simp at this
  | some e =>
    rw [hg] at this
    cases hm : Check.balance st a b with
    | ok st' => rw [hm] at this; simp at this
    | error err =>
      rw [hm] at this
      simp at this ⊢
      refine ⟨?_, Or.inl this⟩
      unfold Check.balance at hm
      split at hm
      · injection hm with hm; rw [← hm]
      · split at hm
        · injection hm with hm; rw [← hm]
        · cases hm

theorem sim_close (cur : String → Bool) (src : GoSem.Ref) {ord : check.Checker → Knut.Close → List amounts.Key} (ho : OrdOK ord)
    {g : check.Checker} {st : CheckState} (h : StEquiv cur g st) (c : Knut.Close) :
    Sim (StEquiv cur) ErrGo (stepClose src ord g c) (Check.close st c) := by
  have := close_agrees cur h src c (ord g c) (ho g c)
  unfold stepClose
  cases hg : check.Checker.close g (closeGo src c) (ord g c) with
  | mk g' e =>
    rw [hg] at this
    cases hm : Check.close st c with
    | ok st' => rw [hm] at this; cases e <;> simp at this ⊢; exact this
    | error err =>
      rw [hm] at this
      cases e with
      | none => simp at this
      | some e =>
        simp at this ⊢
        refine ⟨?_, Or.inl this⟩
        unfold Check.close at hm
        split at hm
        · injection hm with hm; rw [← hm]
        · split at hm
          · injection hm with hm; rw [← hm]
          · cases hm

theorem sim_day (cur : String → Bool) (src : GoSem.Ref) {ord : check.Checker → Knut.Close → List amounts.Key} (ho : OrdOK ord)
    (g : check.Checker) (st : CheckState) (d : Knut.Day) (h : StEquiv cur g st) :
    Sim (StEquiv cur) ErrGo (dayGo cur src ord g d) (Check.day st d) := by
  unfold dayGo Check.day
  apply bind_sim (R := StEquiv cur)
  · exact foldlM_sim _ _ _ _ _ (fun g st o _ hr => sim_open cur src hr o) g st h
  · intro g st h
    apply bind_sim (R := StEquiv cur)
    · apply foldlM_sim _ _ _ _ _ _ g st h
      intro g st t _ hr
      exact foldlM_sim _ _ _ _ _ (fun g st p _ hr => sim_posting cur src hr t p) g st hr
    · intro g st h
      apply bind_sim (R := StEquiv cur)
      · apply foldlM_sim _ _ _ _ _ _ g st h
        intro g st a _ hr
        exact foldlM_sim _ _ _ _ _ (fun g st b _ hr => sim_balance cur src hr a b) g st hr
      · intro g st h
        exact foldlM_sim _ _ _ _ _ (fun g st c _ hr => sim_close cur src ho hr c) g st h

/-- **the bridge**: the translated checker, for every admissible family of iteration orders, simulates the model checker: both
accept (in equivalent states) or both stop at the same directive with the message of the same kind -/
theorem runGo_agrees (cur : String → Bool) (src : GoSem.Ref) {ord : check.Checker → Knut.Close → List amounts.Key} (ho : OrdOK ord)
    (days : List Knut.Day) : Sim (StEquiv cur) ErrGo (runGo cur src ord days) (Check.run days) := by
  unfold runGo Check.run
  exact foldlM_sim _ _ _ _ _ (fun g st d _ hr => sim_day cur src ho g st d hr) _ _ (initGo_equiv cur)

/-- **refinement**: the translated checker and the strict lifecycle specification give the same verdict on every journal, and on
rejection the failing call is the call on the first directive the specification rejects -/
theorem C04_refines_go (cur : String → Bool) (src : GoSem.Ref) {ord : check.Checker → Knut.Close → List amounts.Key} (ho : OrdOK ord)
    (days : List Knut.Day) :
    Sim (fun _ _ => True) (fun x d => x.2 = d) (runGo cur src ord days) (verdict true days) := by
  have h1 := runGo_agrees cur src ho days
  have h2 := C04.C04_refines days
  cases hg : runGo cur src ord days with
  | ok g =>
    rw [hg] at h1
    cases hm : Check.run days with
    | ok st =>
      rw [hm] at h2
      cases hv : verdict true days with
      | ok s => trivial
      | error d => rw [hv] at h2; exact absurd h2 (by simp [Sim])
    | error err => rw [hm] at h1; exact absurd h1 (by simp [Sim])
  | error x =>
    rw [hg] at h1
    cases hm : Check.run days with
    | ok st => rw [hm] at h1; exact absurd h1 (by simp [Sim])
    | error err =>
      rw [hm] at h1 h2
      cases hv : verdict true days with
      | ok s => rw [hv] at h2; exact absurd h2 (by simp [Sim])
      | error d =>
        rw [hv] at h2
        simp only [Sim, ErrGo, ErrRel] at h1 h2 ⊢
        rw [h1.1, h2]

/-- accept ⇔ strict-well-formed -/
theorem C04_accept_iff_strict_go (cur : String → Bool) (src : GoSem.Ref) {ord : check.Checker → Knut.Close → List amounts.Key}
    (ho : OrdOK ord) (days : List Knut.Day) : (runGo cur src ord days).isOk = (verdict true days).isOk := by
  have := C04_refines_go cur src ho days
  cases h1 : runGo cur src ord days <;> cases h2 : verdict true days <;> rw [h1, h2] at this <;>
    simp_all [Sim, Except.isOk, Except.toBool]

/-- **the verdict does not depend on the iteration orders** (nor on `cur`, `src`): any two admissible runs accept or reject together,
at the same directive -/
theorem C04_order_irrelevant_go (cur cur' : String → Bool) (src src' : GoSem.Ref)
    {ord ord' : check.Checker → Knut.Close → List amounts.Key} (ho : OrdOK ord) (ho' : OrdOK ord') (days : List Knut.Day) :
    Sim (fun _ _ => True) (fun x y => x.2 = y.2) (runGo cur src ord days) (runGo cur' src' ord' days) := by
  have h1 := C04_refines_go cur src ho days
  have h2 := C04_refines_go cur' src' ho' days
  cases a : runGo cur src ord days <;> cases b : runGo cur' src' ord' days <;> cases c : verdict true days <;>
    rw [a, c] at h1 <;> rw [b, c] at h2 <;> simp_all [Sim]

/-- **diagnostic names the offender**: when the translated checker stops, the failing call is the call on the first directive
the specification rejects, and its message is the message of the model's error -/
theorem C04_names_offender_go (cur : String → Bool) (src : GoSem.Ref) {ord : check.Checker → Knut.Close → List amounts.Key}
    (ho : OrdOK ord) (days : List Knut.Day) (e : GoSem.Error) (d : Knut.Directive)
    (h : runGo cur src ord days = .error (e, d)) :
    verdict true days = .error d ∧ ∃ err, Check.run days = .error err ∧ err.directive = d ∧ MsgOK e err.kind := by
  have h1 := runGo_agrees cur src ho days
  rw [h] at h1
  cases hm : Check.run days with
  | ok st => rw [hm] at h1; exact absurd h1 (by simp [Sim])
  | error err =>
    rw [hm] at h1
    simp only [Sim, ErrGo] at h1
    refine ⟨?_, err, rfl, h1.1.symm, h1.2⟩
    rw [h1.1]
    exact C04.C04_names_offender days err hm

/-- **soundness w.r.t. the property text**: a journal the translated checker accepts is well-formed -/
theorem C04_sound_go (cur : String → Bool) (src : GoSem.Ref) {ord : check.Checker → Knut.Close → List amounts.Key} (ho : OrdOK ord)
    (days : List Knut.Day) (h : (runGo cur src ord days).isOk = true) : wellFormed days = true := by
  apply C04.C04_sound
  rw [C04.C04_accept_iff_strict, ← C04_accept_iff_strict_go cur src ho]
  exact h

/-- **completeness (partial)**: a well-formed journal without non-zero assertions on non-A/L accounts is accepted by the translated
checker.  The full statement is false for the code (`C04_nonAL_assertion_rejected_go`; known finding `assertion-on-non-AL-account`). -/
theorem C04_complete_go_partial (cur : String → Bool) (src : GoSem.Ref) {ord : check.Checker → Knut.Close → List amounts.Key}
    (ho : OrdOK ord) (days : List Knut.Day) (hn : C04.NoNonzeroNonALAssertion days) (h : wellFormed days = true) :
    (runGo cur src ord days).isOk = true := by
  rw [C04_accept_iff_strict_go cur src ho, ← C04.C04_accept_iff_strict]
  exact C04.C04_complete_partial days hn h

/-- the witness of the finding, on the translated checker: a well-formed journal with a correct running balance asserted on an
expense account is rejected, at the assertion -/
theorem C04_nonAL_assertion_rejected_go (cur : String → Bool) (src : GoSem.Ref) {ord : check.Checker → Knut.Close → List amounts.Key}
    (ho : OrdOK ord) : (runGo cur src ord C04.nonALJournal).isOk = false := by
  rw [C04_accept_iff_strict_go cur src ho, ← C04.C04_accept_iff_strict]
  exact C04.C04_nonAL_assertion_rejected

/-! ### Non-vacuity: an admissible order exists (the keys of the map as they stand), and the translated checker runs -/

/-- the map's own key list: one admissible iteration order -/
def ordKeys : check.Checker → Knut.Close → List amounts.Key := fun g _ => g.quantities.map Prod.fst

theorem ordKeys_ok : OrdOK ordKeys := by
  intro g c k hk
  unfold ordKeys
  cases hf : Knut.AMap.find? g.quantities k with
  | none => simp [hf] at hk
  | some v => exact List.mem_map.mpr ⟨(k, v), mem_of_find? hf, rfl⟩

/-- … and its reverse another -/
theorem ordKeys_reverse_ok : OrdOK (fun g c => (ordKeys g c).reverse) := by
  intro g c k hk
  exact List.mem_reverse.mpr (ordKeys_ok g c k hk)

example : (runGo (fun _ => false) ⟨0⟩ ordKeys C04.okJournal).isOk = true := by
  rw [C04_accept_iff_strict_go _ _ ordKeys_ok, ← C04.C04_accept_iff_strict]
  decide +kernel

example : (runGo (fun _ => false) ⟨0⟩ ordKeys C04.okJournal).isOk = true := by decide +kernel

/-- the message and the directive of a failed run -/
def errOf : GoRes → Option (String × Knut.Directive)
  | .ok _ => none
  | .error (e, d) => some (e.msg, d)

example : errOf (runGo (fun _ => false) ⟨0⟩ ordKeys C04.nonALJournal) =
    some ("failed assertion: %s has position: %s %s", .assertion ⟨1, [⟨⟨["Expenses", "X"]⟩, 5, "CHF"⟩]⟩) := by decide +kernel

end Knut.C04Go
