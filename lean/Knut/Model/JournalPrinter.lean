import Knut.Model.Journal
import Knut.Model.BalanceReport
/-!
# Model of `journal.Print` and `lib/journal/printer` (the printer of *model* directives)

`knut print`, `check --write` and all importers print through this code.
-/
namespace Knut.JournalPrinter
open Knut

def fmtDate := BalanceReport.fmtDate

/-- `compare.Ordered` on strings: byte-wise = code-point-wise lexicographic -/
def cmpStr (a b : String) : Ordering := compare a b

def cmpRat (a b : Rat) : Ordering := if a < b then .lt else if b < a then .gt else .eq

/-- `account.Compare`: type, then name -/
def cmpAccount (a b : Account) : Ordering :=
  let ta : Nat := (a.type?.map (·.ord)).getD 9
  let tb : Nat := (b.type?.map (·.ord)).getD 9
  if ta < tb then .lt else if tb < ta then .gt else cmpStr a.name b.name

/-- `posting.Compare` -/
def cmpPosting (p q : Posting) : Ordering :=
  (cmpAccount p.account q.account).then <| (cmpAccount p.other q.other).then <|
  (cmpRat p.quantity q.quantity).then <| (cmpRat p.value q.value).then (cmpStr p.commodity q.commodity)

def cmpPostings : List Posting → List Posting → Ordering
  | [], [] => .eq
  | [], _ :: _ => .lt
  | _ :: _, [] => .gt
  | p :: ps, q :: qs => (cmpPosting p q).then (cmpPostings ps qs)

/-- `transaction.Compare`: date, description, postings pairwise, number of postings -/
def cmpTx (t u : Transaction) : Ordering :=
  (compare t.date u.date).then <| (cmpStr t.description u.description).then (cmpPostings t.postings u.postings)

/-- `journal.Sort`: `sort.Slice` is not stable; transactions that compare equal print identically unless
their `@performance` targets differ. The model sorts stably. -/
def sortTxs (ts : List Transaction) : List Transaction := ts.mergeSort (fun a b => cmpTx a b != .gt)

def runeLen (s : String) : Nat := s.length

/-- `Printer.UpdatePadding` over all transactions -/
def padding (days : List Day) : Nat :=
  days.foldl (fun m d => d.transactions.foldl (fun m t => t.postings.foldl (fun m p =>
    max m (max (runeLen p.account.name) (runeLen p.other.name))) m) m) 0

def padRight (s : String) (w : Nat) : String := s ++ String.ofList (List.replicate (w - runeLen s) ' ')
def padLeft (s : String) (w : Nat) : String := String.ofList (List.replicate (w - runeLen s) ' ') ++ s

/-- `printPosting`: `%-*s %-*s %10s %s` of Other, Account, Quantity, Commodity -/
def printPosting (pad : Nat) (p : Posting) : String :=
  padRight p.other.name pad ++ " " ++ padRight p.account.name pad ++ " " ++ padLeft (Dec.showDec p.quantity) 10 ++ " " ++ p.commodity

def everyOther : List Posting → List Posting
  | _ :: b :: rest => b :: everyOther rest
  | _ => []

/-- `strings.ReplaceAll(desc, "\"", "'")`: one ASCII byte replaced by another, character by character -/
def descText (s : String) : String := String.ofList (s.toList.map (fun c => if c == '"' then '\'' else c))

/-- `printTransaction` (the description's double quotes are printed as single quotes) -/
def printTx (pad : Nat) (t : Transaction) : String :=
  (match t.targets with
   | some tg => "@performance(" ++ String.intercalate "," tg ++ ")\n"
   | none => "") ++
  fmtDate t.date ++ " \"" ++ descText t.description ++ "\"\n" ++
  String.join ((everyOther t.postings).map (fun p => printPosting pad p ++ "\n"))

def printOpen (o : Open) : String := fmtDate o.date ++ " open " ++ o.account.name
def printClose (c : Close) : String := fmtDate c.date ++ " close " ++ c.account.name
def printPrice (p : Price) : String :=
  fmtDate p.date ++ " price " ++ p.commodity ++ " " ++ Dec.showDec p.price ++ " " ++ p.target

def printAssertion (a : Assertion) : String :=
  fmtDate a.date ++ " balance" ++
  (match a.balances with
   | [b] => " " ++ b.account.name ++ " " ++ Dec.showDec b.quantity ++ " " ++ b.commodity
   | bs => String.join (bs.map (fun b => "\n" ++ b.account.name ++ " " ++ Dec.showDec b.quantity ++ " " ++ b.commodity)))

def printAssertions : List Assertion → String
  | [] => ""
  | [a] => printAssertion a ++ "\n"
  | a :: rest => printAssertion a ++ "\n" ++ (if a.balances.length != 1 then "\n" else "") ++ printAssertions rest

/-- one day of `journal.Print` -/
def printDay (pad : Nat) (d : Day) : String :=
  String.join (d.prices.map (fun p => printPrice p ++ "\n")) ++ (if d.prices.isEmpty then "" else "\n") ++
  String.join (d.openings.map (fun o => printOpen o ++ "\n")) ++ (if d.openings.isEmpty then "" else "\n") ++
  String.join ((sortTxs d.transactions).map (fun t => printTx pad t ++ "\n")) ++
  printAssertions d.assertions ++ (if d.assertions.isEmpty then "" else "\n") ++
  String.join (d.closings.map (fun c => printClose c ++ "\n")) ++ (if d.closings.isEmpty then "" else "\n")

/-- `journal.Print` -/
def print (days : List Day) : String := String.join (days.map (printDay (padding days)))

end Knut.JournalPrinter
