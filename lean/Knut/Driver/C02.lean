import Knut.Driver.Balance
import Knut.Model.FromSyntax
/-! Driver ops of C02's text stream: `knut balance` on journal TEXT spread over a main file and included files.
`c02text <flags> <file>*` runs the pipeline model, `c02text-spec <flags> <file>*` renders the ledger specification;
a file is `<hex path>:<hex bytes>`, the first one is the main file, paths are relative to its directory.
Every file goes through the parser model and `FromSyntax` (`model.ParseDirective`): a directive that parses but is
rejected by the conversion (impossible date, account without an account type, `@accrue` ending before it starts, …),
a syntax error or an include that cannot be read anywhere in the include tree fails the whole load. -/
namespace Knut.Driver.C02
open Knut Knut.Wire Knut.Driver

/-- `filepath.Dir` of a relative slash path, as a prefix to put in front of an include path ("" or "a/b/") -/
def dirPrefix (p : String) : String :=
  match (splitOn p '/').reverse with
  | [] => ""
  | _ :: revDirs => String.join (revDirs.reverse.map (· ++ "/"))

def combine : FromSyntax.Loaded → FromSyntax.Loaded → FromSyntax.Loaded
  | .panic s, _ => .panic s
  | _, .panic s => .panic s
  | .error, _ => .error
  | _, .error => .error
  | .ok a, .ok b => .ok (a ++ b)

/-- `syntax.ParseFileRecursively` + `model.FromStream`: the directives of the file and of everything it includes
(order between files: the file's own directives first; the real order is a schedule, the report does not depend on it).
`fuel` bounds the include depth (an include cycle is an error in the real code as well). -/
def loadFile (files : List (String × List UInt8)) : Nat → String → FromSyntax.Loaded
  | 0, _ => .error
  | fuel + 1, path =>
    match files.lookup path with
    | none => .error
    | some text =>
      match Syntax.parseText path text with
      | .error _ => .error
      | .ok f =>
        match f.directives.mapM (FromSyntax.item text) with
        | none => FromSyntax.loadFailed (FromSyntax.okPrefix (FromSyntax.item text) f.directives)
        | some items =>
          let incs := items.filterMap (fun it => match it with | .includeFile p => some p | _ => none)
          incs.foldl (fun acc p => combine acc (loadFile files fuel (dirPrefix path ++ p))) (FromSyntax.loadItems items)

def parseFile (s : String) : Option (String × List UInt8) :=
  match splitOn s ':' with
  | [n, b] => do
    let n ← unhexStr n
    let b ← unhexBytes b
    pure (n, b.toList)
  | _ => none

def run (spec : Bool) (fl : String) (fs : List String) : String :=
  match Balance.parseFlags fl, fs.mapM parseFile with
  | some f, some ((main, text) :: rest) =>
    match loadFile ((main, text) :: rest) (rest.length + 2) main with
    | .error => "error load"
    | .panic s => "panic " ++ hexStr s
    | .ok ds =>
      if spec then (if f.valuation.isSome then "unsupported" else Balance.outcome (BalanceCmd.runSpec f ds))
      else Balance.outcome (BalanceCmd.run f ds)
  | none, _ => "bad-flags"
  | _, _ => "bad-files"

def handle (fields : List String) : Option String :=
  match fields with
  | "c02text" :: fl :: fs => some (run false fl fs)
  | "c02text-spec" :: fl :: fs => some (run true fl fs)
  | _ => none

end Knut.Driver.C02
