import Knut.Proofs.SyntaxFile
/-!
# Scanner primitives, both directions (helper lemmas for C08)

*Soundness with validity*: a successful call consumed tokens `c` that are all validly encoded (given that the
current token was), and leaves a valid current token.
*Completeness*: on an input `c ++ r` of the right shape, with a suitable first token of `r`, the call succeeds,
consumes exactly `c`, and returns the range `[off, off + width c)`.
-/
namespace Knut.Syntax
open Knut.Utf8
set_option linter.unusedVariables false

/-- all tokens validly encoded -/
def Valid (c : List Tok) : Prop := ∀ t ∈ c, t.invalid = false
/-- the first token, if any, validly encoded (`Advance` onto it does not fail) -/
def HeadValid (r : List Tok) : Prop := ∀ t rest, r = t :: rest → t.invalid = false
/-- the first token, if any, does not satisfy `p` -/
def HeadNot (p : Nat → Bool) (r : List Tok) : Prop := ∀ t rest, r = t :: rest → p t.r = false
/-- all runes satisfy `p` -/
def All (p : Nat → Bool) (c : List Tok) : Prop := ∀ t ∈ c, p t.r = true

theorem Valid.nil : Valid [] := by intro t h; cases h
theorem Valid.cons {t : Tok} {c : List Tok} (h1 : t.invalid = false) (h2 : Valid c) : Valid (t :: c) := by
  intro x hx
  rcases List.mem_cons.mp hx with h | h
  · rw [h]; exact h1
  · exact h2 x h
theorem Valid.append {a b : List Tok} (h1 : Valid a) (h2 : Valid b) : Valid (a ++ b) := by
  intro x hx
  rcases List.mem_append.mp hx with h | h
  · exact h1 x h
  · exact h2 x h
theorem Valid.left {a b : List Tok} (h : Valid (a ++ b)) : Valid a := fun t ht => h t (List.mem_append_left _ ht)
theorem Valid.right {a b : List Tok} (h : Valid (a ++ b)) : Valid b := fun t ht => h t (List.mem_append_right _ ht)
theorem Valid.head {t : Tok} {c : List Tok} (h : Valid (t :: c)) : t.invalid = false := h t List.mem_cons_self
theorem Valid.tail {t : Tok} {c : List Tok} (h : Valid (t :: c)) : Valid c := fun x hx => h x (List.mem_cons_of_mem _ hx)
theorem Valid.headValid {c : List Tok} (h : Valid c) : HeadValid c := by
  intro t rest e; subst e; exact h.head
theorem All.nil {p : Nat → Bool} : All p [] := by intro t h; cases h
theorem All.append {p : Nat → Bool} {a b : List Tok} (h1 : All p a) (h2 : All p b) : All p (a ++ b) := by
  intro x hx
  rcases List.mem_append.mp hx with h | h
  · exact h1 x h
  · exact h2 x h

theorem HeadValid.nil : HeadValid [] := by intro t r h; cases h
theorem HeadNot.nil {p : Nat → Bool} : HeadNot p [] := by intro t r h; cases h

/-- the head of `c ++ r` is valid if `c` is valid and the head of `r` is -/
theorem HeadValid.append {c r : List Tok} (hc : Valid c) (hr : HeadValid r) : HeadValid (c ++ r) := by
  cases c with
  | nil => simpa using hr
  | cons t ts => intro x rest e; simp only [List.cons_append, List.cons.injEq] at e; rw [← e.1]; exact hc.head

/-! ### `Advance` -/

theorem advanceTok_ok_iff (off : Nat) (t : Tok) (rest : List Tok) (h : HeadValid rest) :
    advanceTok off t rest = .ok () ⟨off + t.bytes.length, rest⟩ := by
  unfold advanceTok
  cases rest with
  | nil => rfl
  | cons u r =>
    have := h u r rfl
    simp [this]

theorem advanceTok_ok_valid {off : Nat} {t : Tok} {rest : List Tok} {u : Unit} {s' : St}
    (h : advanceTok off t rest = .ok u s') : HeadValid rest := by
  unfold advanceTok at h
  cases rest with
  | nil => exact HeadValid.nil
  | cons x r =>
    simp only at h
    split at h
    · cases h
    · rename_i hx
      intro t' r' e
      simp only [List.cons.injEq] at e
      rw [← e.1]
      simpa using hx

theorem advance_complete (off : Nat) (t : Tok) (rest : List Tok) (h : HeadValid rest) :
    advance ⟨off, t :: rest⟩ = .ok () ⟨off + t.bytes.length, rest⟩ := by
  simp only [advance]
  exact advanceTok_ok_iff off t rest h

theorem advance_ok_valid {s : St} {u : Unit} {s' : St} (h : advance s = .ok u s') : HeadValid s'.toks := by
  unfold advance at h
  split at h
  · cases h
  · rename_i t rest heq
    have := advanceTok_ok h
    subst this
    exact advanceTok_ok_valid h

/-! ### `ReadWhile` -/

theorem readWhileL_okV (p : Nat → Bool) (start off : Nat) (toks : List Tok) (r : Range) (s' : St)
    (h : readWhileL p start off toks = .ok r s') (hv : HeadValid toks) :
    ∃ c, toks = c ++ s'.toks ∧ s'.off = off + wsum c ∧ All p c ∧ Valid c ∧ HeadValid s'.toks ∧
      r = ⟨start, s'.off⟩ ∧ HeadNot p s'.toks := by
  induction toks generalizing off with
  | nil =>
    simp only [readWhileL] at h
    injection h with h1 h2
    subst h1 h2
    exact ⟨[], by simp, by simp, All.nil, Valid.nil, HeadValid.nil, rfl, HeadNot.nil⟩
  | cons t rest ih =>
    rw [readWhileL] at h
    split at h
    · rename_i hp
      split at h
      · rename_i u s1 ha
        have hr := advanceTok_ok_valid ha
        obtain ⟨c, h1, h2, h3, h4, h5, h6, h7⟩ := ih _ h hr
        refine ⟨t :: c, by simp [h1], by simp [h2]; omega, ?_, Valid.cons (hv t rest rfl) h4, h5, h6, h7⟩
        intro x hx
        rcases List.mem_cons.mp hx with hx | hx
        · rw [hx]; exact hp
        · exact h3 x hx
      · cases h
    · rename_i hp
      injection h with h1 h2
      subst h1 h2
      refine ⟨[], by simp, by simp, All.nil, Valid.nil, hv, rfl, ?_⟩
      intro t' rest' heq
      simp only [List.cons.injEq] at heq
      rw [← heq.1]
      simpa using hp

theorem readWhile_okV {p : Nat → Bool} {s : St} {r : Range} {s' : St} (h : readWhile p s = .ok r s')
    (hv : HeadValid s.toks) :
    ∃ c, Consumed s c s' ∧ All p c ∧ Valid c ∧ HeadValid s'.toks ∧ r = ⟨s.off, s'.off⟩ ∧ HeadNot p s'.toks := by
  obtain ⟨c, h1, h2, h3, h4, h5, h6, h7⟩ := readWhileL_okV p s.off s.off s.toks r s' h hv
  exact ⟨c, ⟨h1, h2⟩, h3, h4, h5, h6, h7⟩

theorem readWhile1_okV {desc : String} {p : Nat → Bool} {s : St} {r : Range} {s' : St}
    (h : readWhile1 desc p s = .ok r s') (hv : HeadValid s.toks) :
    ∃ c, c ≠ [] ∧ Consumed s c s' ∧ All p c ∧ Valid c ∧ HeadValid s'.toks ∧ r = ⟨s.off, s'.off⟩ ∧ HeadNot p s'.toks := by
  have hlt := (readWhile1_extS desc p s s' r h).length_lt
  unfold readWhile1 at h
  split at h
  · cases h
  · split at h
    · cases h
    · obtain ⟨c, h1, h2, h3, h4, h5, h6, h7⟩ := readWhileL_okV p s.off s.off s.toks r s' h hv
      refine ⟨c, ?_, ⟨h1, h2⟩, h3, h4, h5, h6, h7⟩
      intro hc
      subst hc
      simp only [List.nil_append] at h1
      rw [h1] at hlt
      omega

theorem readWhileL_complete (p : Nat → Bool) (start off : Nat) (c r : List Tok)
    (hp : All p c) (hv : Valid c) (hr : HeadValid r) (hn : HeadNot p r) :
    readWhileL p start off (c ++ r) = .ok ⟨start, off + wsum c⟩ ⟨off + wsum c, r⟩ := by
  induction c generalizing off with
  | nil =>
    simp only [List.nil_append, wsum_nil, Nat.add_zero]
    cases r with
    | nil => rfl
    | cons t rest =>
      rw [readWhileL]
      simp [hn t rest rfl]
  | cons t ts ih =>
    simp only [List.cons_append]
    rw [readWhileL]
    have h1 : p t.r = true := hp t List.mem_cons_self
    simp only [h1, if_true]
    rw [advanceTok_ok_iff off t (ts ++ r) (HeadValid.append hv.tail hr)]
    simp only
    rw [ih (off + t.bytes.length) (fun x hx => hp x (List.mem_cons_of_mem _ hx)) hv.tail]
    simp [Nat.add_assoc]

theorem readWhile_complete (p : Nat → Bool) (off : Nat) (c r : List Tok)
    (hp : All p c) (hv : Valid c) (hr : HeadValid r) (hn : HeadNot p r) :
    readWhile p ⟨off, c ++ r⟩ = .ok ⟨off, off + wsum c⟩ ⟨off + wsum c, r⟩ :=
  readWhileL_complete p off off c r hp hv hr hn

theorem readWhile1_complete (desc : String) (p : Nat → Bool) (off : Nat) (c r : List Tok) (hne : c ≠ [])
    (hp : All p c) (hv : Valid c) (hr : HeadValid r) (hn : HeadNot p r) :
    readWhile1 desc p ⟨off, c ++ r⟩ = .ok ⟨off, off + wsum c⟩ ⟨off + wsum c, r⟩ := by
  cases c with
  | nil => exact absurd rfl hne
  | cons t ts =>
    have h1 : p t.r = true := hp t List.mem_cons_self
    have e1 : atEOF ⟨off, t :: ts ++ r⟩ = false := rfl
    have e2 : cur ⟨off, t :: ts ++ r⟩ = t.r := rfl
    unfold readWhile1
    rw [e1, e2, h1]
    simp only [Bool.false_eq_true, if_false, Bool.not_true]
    exact readWhileL_complete p off off (t :: ts) r hp hv hr hn

/-! ### single characters -/

theorem readCharacter_okV {x : Nat} {s : St} {r : Range} {s' : St} (h : readCharacter x s = .ok r s') :
    ∃ t, Consumed s [t] s' ∧ t.r = x ∧ r = ⟨s.off, s'.off⟩ ∧ HeadValid s'.toks := by
  obtain ⟨t, h1, h2, h3⟩ := readCharacter_ok h
  refine ⟨t, h1, h2, h3, ?_⟩
  unfold readCharacter at h
  split at h
  · cases h
  · split at h
    · cases h
    · split at h
      · rename_i u s1 ha
        injection h with _ h2
        subst h2
        exact advance_ok_valid ha
      · cases h

theorem readCharacterWith_okV {desc : String} {p : Nat → Bool} {s : St} {r : Range} {s' : St}
    (h : readCharacterWith desc p s = .ok r s') :
    ∃ t, Consumed s [t] s' ∧ p t.r = true ∧ r = ⟨s.off, s'.off⟩ ∧ HeadValid s'.toks := by
  obtain ⟨t, h1, h2, h3⟩ := readCharacterWith_ok h
  refine ⟨t, h1, h2, h3, ?_⟩
  unfold readCharacterWith at h
  split at h
  · cases h
  · split at h
    · cases h
    · split at h
      · rename_i u s1 ha
        injection h with _ h2
        subst h2
        exact advance_ok_valid ha
      · cases h

theorem readCharacter_complete (x off : Nat) (t : Tok) (r : List Tok) (ht : t.r = x) (hr : HeadValid r) :
    readCharacter x ⟨off, t :: r⟩ = .ok ⟨off, off + t.bytes.length⟩ ⟨off + t.bytes.length, r⟩ := by
  have e1 : atEOF ⟨off, t :: r⟩ = false := rfl
  have e2 : cur ⟨off, t :: r⟩ = t.r := rfl
  unfold readCharacter
  rw [e1, e2, ht, advance_complete off t r hr]
  simp [rng]

theorem readCharacterWith_complete (desc : String) (p : Nat → Bool) (off : Nat) (t : Tok) (r : List Tok)
    (ht : p t.r = true) (hr : HeadValid r) :
    readCharacterWith desc p ⟨off, t :: r⟩ = .ok ⟨off, off + t.bytes.length⟩ ⟨off + t.bytes.length, r⟩ := by
  have e1 : atEOF ⟨off, t :: r⟩ = false := rfl
  have e2 : cur ⟨off, t :: r⟩ = t.r := rfl
  unfold readCharacterWith
  rw [e1, e2, ht, advance_complete off t r hr]
  simp [rng]

/-! ### keywords -/

theorem readStringL_okV (str : String) (start : Nat) (chs : List Nat) (s : St) (x : Range) (s' : St)
    (h : readStringL str start chs s = .ok x s') (hv : HeadValid s.toks) :
    ∃ c, Consumed s c s' ∧ c.map (·.r) = chs ∧ x = ⟨start, s'.off⟩ ∧ Valid c ∧ HeadValid s'.toks := by
  induction chs generalizing s with
  | nil =>
    simp only [readStringL] at h
    injection h with h1 h2
    subst h2
    exact ⟨[], by simp [Consumed], rfl, by rw [← h1]; rfl, Valid.nil, hv⟩
  | cons ch chs ih =>
    simp only [readStringL] at h
    split at h
    · cases h
    · rename_i hc
      split at h
      · rename_i u s1 ha
        obtain ⟨t, ht⟩ := advance_ok ha
        have hv1 := advance_ok_valid ha
        obtain ⟨c, hc1, hc2, hc3, hc4, hc5⟩ := ih s1 h hv1
        refine ⟨t :: c, ht.trans hc1, ?_, hc3, Valid.cons (hv t _ ht.1) hc4, hc5⟩
        have := cur_of_consumed ht
        simp only [bne_iff_ne, ne_eq, Decidable.not_not] at hc
        simp [hc2, hc, this]
      · cases h

theorem readString_okV {str : String} {s : St} {x : Range} {s' : St} (h : readString str s = .ok x s')
    (hv : HeadValid s.toks) :
    ∃ c, Consumed s c s' ∧ c.map (·.r) = runesOf str ∧ x = ⟨s.off, s'.off⟩ ∧ Valid c ∧ HeadValid s'.toks :=
  readStringL_okV str s.off (runesOf str) s x s' h hv

theorem readAlternative_okV {ss : List String} {s : St} {x : Range} {t : String} {s' : St}
    (h : readAlternative ss s = .ok (x, t) s') (hv : HeadValid s.toks) :
    t ∈ ss ∧ ∃ c, Consumed s c s' ∧ c.map (·.r) = runesOf t ∧ x = ⟨s.off, s'.off⟩ ∧ Valid c ∧ HeadValid s'.toks := by
  have ⟨hm, hr⟩ := readAlternative_ok ss s x t s' h
  exact ⟨hm, readString_okV hr hv⟩

theorem readStringL_complete (str : String) (start off : Nat) (c r : List Tok)
    (hv : Valid c) (hr : HeadValid r) :
    readStringL str start (c.map (·.r)) ⟨off, c ++ r⟩ = .ok ⟨start, off + wsum c⟩ ⟨off + wsum c, r⟩ := by
  induction c generalizing off with
  | nil => simp [readStringL, rng]
  | cons t ts ih =>
    have e2 : cur ⟨off, t :: (ts ++ r)⟩ = t.r := rfl
    simp only [List.map_cons, List.cons_append, readStringL]
    rw [e2, advance_complete off t (ts ++ r) (HeadValid.append hv.tail hr)]
    simp only [bne_self_eq_false, Bool.false_eq_true, if_false]
    rw [ih (off + t.bytes.length) hv.tail]
    simp [Nat.add_assoc]

theorem readString_complete (str : String) (off : Nat) (c r : List Tok) (hs : c.map (·.r) = runesOf str)
    (hv : Valid c) (hr : HeadValid r) :
    readString str ⟨off, c ++ r⟩ = .ok ⟨off, off + wsum c⟩ ⟨off + wsum c, r⟩ := by
  unfold readString
  rw [← hs]
  exact readStringL_complete str off off c r hv hr

/-- an alternative whose first rune differs from the current one fails at once -/
theorem readString_mismatch (str : String) (s : St) (ch : Nat) (chs : List Nat) (hs : runesOf str = ch :: chs)
    (hc : ch ≠ cur s) : ∃ e, readString str s = .err e s := by
  unfold readString
  rw [hs]
  have : (ch != cur s) = true := by simpa using hc
  refine ⟨[Frame.at ("while reading " ++ quoteStr str) (rng s.off s)], ?_⟩
  simp only [readStringL, this, if_true]

end Knut.Syntax
