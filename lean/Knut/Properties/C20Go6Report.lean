import Knut.Properties.C20Go6
import Knut.Proofs.ReportPerm
/-!
# The rendered weights report is a function of the MULTISET of adds (C20)

`C20Go6.C20_weights_process_query_go_perm`: the Go query hands the report a permutation `adds'` of the model's `adds`.
**`report_perm`**: the model's rendered report (`Weights.report`: the date columns and all rows, for both sort modes) of permuted
adds is THE SAME — every piece of the renderer sums (`nodeWeight`, `sortKey`), or deduplicates and then sorts with a total order
(`childSegs`/`sortedChildren`, `reportDates`), or takes a maximum (`maxDepth`).  Hence **`C20_weights_report_go`**: `report adds' = report adds`
for the `adds'` of the Go run.
-/
namespace Knut.C20Go6
open Knut Knut.GoSem Knut.Performance Knut.Weights Knut.PortfolioSpec Knut.Pipeline
open Knut.Generated.Go
open Knut.FactsAgree.TransPerformance (perfDaysV valuedDays UEq)
open Knut.FactsAgree.TransProcess (AllRel)
open Knut.FactsAgree.TransProcessAllReturns
open Knut.FactsAgree.TransProcessAllWeights
open Knut.FactsAgree.TransMapping (ruleGo)
open Knut.FactsAgree.TransWeightsQuery (goQuery)
open Knut.FactsAgree.TransWeights (addAll)

theorem cmpStr_le (a b : String) : (cmpStr a b != .gt) = decide (a ≤ b) := by
  unfold cmpStr
  simp only [compare, String.compare, compareOfLessAndEq]
  by_cases h1 : a < b
  · have : a ≤ b := String.not_lt.mp (String.lt_asymm h1)
    simp [h1, this]
  · by_cases h2 : a = b
    · subst h2; simp
    · have h3 : ¬ a ≤ b := fun h => h2 (String.le_antisymm h (String.not_lt.mp h1))
      simp [h1, h2, h3]

theorem sortedChildren_eq (adds : List Add) (alpha : Bool) (π : List String) :
    sortedChildren adds alpha π =
      if alpha then (childSegs adds π).mergeSort (fun a b => decide (a ≤ b))
      else (childSegs adds π).mergeSort (ReportPerm.lexLE (fun s => sortKey adds (π ++ [s]))) := by
  unfold sortedChildren
  simp only [cmpStr_le]
  rfl

theorem sortedChildren_perm {a b : List Add} (hp : a.Perm b) (alpha : Bool) (π : List String) :
    sortedChildren a alpha π = sortedChildren b alpha π := by
  rw [sortedChildren_eq, sortedChildren_eq]
  have hk : (fun s => sortKey a (π ++ [s])) = (fun s => sortKey b (π ++ [s])) := by
    funext s; exact sortKey_perm hp _
  rw [hk]
  cases alpha with
  | true =>
    simp only [if_true]
    exact ReportPerm.sort_perm_eq _ ReportPerm.strLE_trans ReportPerm.strLE_total ReportPerm.strLE_antisymm _ _
      (childSegs_perm_list hp π)
  | false =>
    simp only [Bool.false_eq_true, if_false]
    exact ReportPerm.sort_perm_eq _ (ReportPerm.lexLE_trans _) (ReportPerm.lexLE_total _) (ReportPerm.lexLE_antisymm _) _ _
      (childSegs_perm_list hp π)

theorem renderNodes_perm {a b : List Add} (hp : a.Perm b) (alpha : Bool) (dates : List Int) :
    ∀ (fuel : Nat) (π : List String) (depth : Nat), renderNodes a alpha dates fuel π depth = renderNodes b alpha dates fuel π depth := by
  intro fuel
  induction fuel with
  | zero => intro π depth; rfl
  | succ n ih =>
    intro π depth
    simp only [renderNodes, sortedChildren_perm hp alpha π]
    congr 1
    funext s
    rw [ih]
    congr 2
    apply List.map_congr_left
    intro d _
    rw [nodeWeight_perm hp]

theorem insertSorted_comm (x y : Int) : ∀ b : List Int, insertSorted y (insertSorted x b) = insertSorted x (insertSorted y b) := by
  intro b
  by_cases h3 : x = y
  · subst h3; rfl
  have h4 : ¬ y = x := fun h => h3 h.symm
  induction b with
  | nil =>
    by_cases h1 : x < y
    · have h2 : ¬ y < x := by omega
      simp [insertSorted, h1, h2, h4]
    · have h2 : y < x := by omega
      simp [insertSorted, h1, h2, h3]
  | cons z rest ih =>
    by_cases h1 : x < y <;> by_cases h2 : y < x <;> by_cases hx1 : x < z <;> by_cases hx2 : x = z <;>
      by_cases hy1 : y < z <;> by_cases hy2 : y = z <;> (try subst hx2) <;> (try subst hy2) <;>
      first | omega | simp [insertSorted, *]

theorem reportDates_perm {a b : List Add} (hp : a.Perm b) : reportDates a = reportDates b := by
  unfold reportDates
  exact ReportPerm.foldl_comm_perm _ (fun acc x y => insertSorted_comm x y acc) (hp.map _) []

theorem maxDepth_perm {a b : List Add} (hp : a.Perm b) : maxDepth a = maxDepth b := by
  unfold maxDepth
  exact ReportPerm.foldl_comm_perm _ (fun acc x y => by omega) (hp.map _) 0

/-- **the rendered report does not depend on the order of the adds** -/
theorem report_perm {a b : List Add} (hp : a.Perm b) (alpha : Bool) : report a alpha = report b alpha := by
  unfold report
  simp only [reportDates_perm hp, maxDepth_perm hp, renderNodes_perm hp]

/-- **the Go pipeline of `knut portfolio weights` with the query, no order hypothesis, at the level of the rendered report**: the
adds `adds'` the Go report receives render (model `Weights.report`, both sort modes) exactly as the model's `adds` -/
theorem C20_weights_report_go (cur : String → Bool) (f : WFlags) (hv : f.valuation = none) (ds : List Directive)
    (adds : List Add) (h : weightAdds f ds = .ok (some adds)) :
    ∃ (part : Knut.Partition) (days : List Knut.Day) (ms : List (Int × List Knut.Transaction)),
      setup f.toFlags ds = .ok (part, days) ∧ valuedDays f.toFlags.cfg ({} : PState).bal days = some ms ∧
      (∀ (P : RetPar), RetParOK cur f.toFlags.cfg P →
        ∀ (cf : performance.Calculator.ComputeFlows.State) (pf : performance.Perf.State)
          (gdays : List journal.Day), AllRel (DayRelP cur) gdays days →
          ∃ out, processAllWeights P (weightsInit cur f.toFlags.cfg cf pf) gdays = some out ∧
            ∀ (q : weights.Query) (r : weights.Report), UEq cur q.Universe f.classes → q.Mapping = f.mapping.map ruleGo →
              ∃ q' adds', goQuery part.endDates (q, r) out = GoSem.Outcome.bind (addAll r adds') (fun r' => .ok (q', r')) ∧
                adds'.Perm adds ∧ ∀ alpha, report adds' alpha = report adds alpha) := by
  obtain ⟨part, days, ms, hs, hms, hgo⟩ := C20_weights_process_query_go_perm cur f hv ds adds h
  refine ⟨part, days, ms, hs, hms, ?_⟩
  intro P hP cf pf gdays hdays
  obtain ⟨out, hout, _, hq⟩ := hgo P hP cf pf gdays hdays
  refine ⟨out, hout, ?_⟩
  intro q r hu hmap
  obtain ⟨q', adds', hp, _, hgo'⟩ := hq q r hu hmap
  exact ⟨q', adds', hgo', hp, fun alpha => report_perm hp alpha⟩

/-! ### Non-vacuity: a permutation that is not the identity renders alike -/
example : report [⟨["a"], 1, 1⟩, ⟨["b"], 1, 2⟩] false = report [⟨["b"], 1, 2⟩, ⟨["a"], 1, 1⟩] false :=
  report_perm (List.Perm.swap _ _ _) false

end Knut.C20Go6
