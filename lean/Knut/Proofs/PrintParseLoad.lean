import Knut.Proofs.PrintParseFields
/-!
# Loading a text that is a rendering of items: the parse, and the elaboration of each directive from its field view
-/
namespace Knut.Syntax
open Knut.Utf8 Knut.Spec.Syntax
set_option linter.unusedVariables false

theorem items_canon_shape {items : List Item} (padding : Nat) (h : ItemsShape items) : Canon (outToks padding items) := by
  induction items with
  | nil => exact Canon.nil
  | cons i rest ih =>
    cases i with
    | gap c w nl =>
      unfold ItemsShape at h
      obtain ⟨_, _, _, _, _, hc, _, _, hrest⟩ := h
      simp only [outToks, Item.out]
      exact hc.append (ih hrest)
    | dir D d v w nl =>
      unfold ItemsShape at h
      obtain ⟨_, vcan, _, _, _, cr, _, hrest⟩ := h
      simp only [outToks, Item.out]
      exact ((canon_renderT padding v vcan).append cr).append (ih hrest)

/-- **parsing a rendering of items**: the text parses, and the directives have exactly the field views of the items -/
theorem parse_rendered_items (padding : Nat) (path : String) (items : List Item) (h : ItemsShape items) :
    ∃ f2, parseText path (flat (outToks padding items)) = .ok f2 ∧
      f2.directives.mapM (viewDirective (flat (outToks padding items))) = some ((viewsOf items).map DirT.bytes) := by
  have hdec : decodeAll (flat (outToks padding items)) = outToks padding items :=
    decodeAll_flat _ (items_canon_shape padding h)
  obtain ⟨items2, f2, s2', hr, hrun, hdirs, hitems2⟩ := fileLoop_replay_shape padding path items h 0 [] 0
  simp only [List.reverse_nil, List.nil_append] at hdirs
  obtain ⟨r1, r2, r3, r4⟩ := hr.facts
  have hG2 : Good (flat (outToks padding items)) ⟨0, outToks padding items⟩ := by
    have := good_start (flat (outToks padding items))
    rwa [hdec] at this
  have i3' := hitems2 _ hG2
  refine ⟨f2, ?_, ?_⟩
  · unfold parseText
    rw [hdec, start_complete _ (outToks_headValid_shape padding h)]
    simp only [parseFile, hrun]
  · rw [hdirs, items_views i3', r3]

end Knut.Syntax

namespace Knut.FromSyntax
open Knut Knut.Syntax Knut.Utf8
set_option linter.unusedVariables false

/-! ### elaboration of a directive as a function of its field view -/

def accountV (bs : Bytes) : Option Account := do
  let s ← utf8 bs
  let acc := Account.ofName s
  if acc.wf then some acc else none

def decimalV (bs : Bytes) : Option Rat :=
  if bs.all (fun b => asciiDigit b || b = 45 || b = 46) then (utf8 bs).bind Dec.parseDec else none

def bookingV (b : BookingV) : Option Accrual.Booking := do
  let cr ← accountV b.credit
  let dr ← accountV b.debit
  let q ← decimalV b.quantity
  let c ← utf8 b.commodity
  pure ⟨cr, dr, q, c⟩

def balanceV (b : BalanceV) : Option Balance := do
  let acc ← accountV b.account
  let q ← decimalV b.quantity
  let c ← utf8 b.commodity
  pure ⟨acc, q, c⟩

def accrualV (a : AccrualV) : Option Accrual.Addon := do
  let ivs ← utf8 a.interval
  let iv ← interval ivs
  let s ← parseDate a.start
  let e ← parseDate a.stop
  let acc ← accountV a.account
  pure ⟨iv, s, e, acc⟩

def itemV : DirV → Option Item
  | .open d a => do
    let acc ← accountV a
    let dt ← parseDate d
    pure (.opening ⟨dt, acc⟩)
  | .close d a => do
    let acc ← accountV a
    let dt ← parseDate d
    pure (.closing ⟨dt, acc⟩)
  | .price d c p t => do
    let dt ← parseDate d
    let c ← utf8 c
    let pr ← decimalV p
    let t ← utf8 t
    pure (.price ⟨dt, c, pr, t⟩)
  | .assertion d bs => do
    let dt ← parseDate d
    let bals ← bs.mapM balanceV
    pure (.assertion ⟨dt, bals⟩)
  | .include p => do
    let p ← utf8 p
    pure (.includeFile p)
  | .transaction accr perf d desc bks => do
    let dt ← parseDate d
    let desc ← utf8 desc
    let bks ← bks.mapM bookingV
    let targets ← (match perf with
      | none => some none
      | some ts => (ts.mapM utf8).map some)
    let accrual ← (match accr with
      | none => some none
      | some a => (accrualV a).map some)
    pure (.tx { date := dt, description := desc, bookings := bks, targets := targets, accrual := accrual })

theorem account_of_extract {text : Bytes} {a : Syntax.Account} {bs : Bytes} (h : a.range.extract text = some bs) :
    account text a = accountV bs := by
  simp [account, accountV, fieldStr, field, h]

theorem decimal_of_extract {text : Bytes} {r : Syntax.Range} {bs : Bytes} (h : r.extract text = some bs) :
    decimal text r = decimalV bs := by
  simp [decimal, decimalV, field, h]

theorem fieldStr_of_extract {text : Bytes} {r : Syntax.Range} {bs : Bytes} (h : r.extract text = some bs) :
    fieldStr text r = utf8 bs := by
  simp [fieldStr, field, h]

theorem date_of_extract {text : Bytes} {d : Syntax.Date} {bs : Bytes} (h : d.range.extract text = some bs) :
    date text d = parseDate bs := by
  simp [date, field, h]

theorem booking_of_view {text : Bytes} {b : Syntax.Booking} {w : BookingV} (h : viewBooking text b = some w) :
    booking text b = bookingV w := by
  simp only [viewBooking, Option.bind_eq_bind, Option.bind_eq_some_iff, Option.pure_def, Option.some.injEq] at h
  obtain ⟨cr, h1, db, h2, q, h3, c, h4, rfl⟩ := h
  simp [booking, bookingV, account_of_extract h1, account_of_extract h2, decimal_of_extract h3, fieldStr_of_extract h4]

theorem mapM_congr_view {α β γ} {f : α → Option β} {g : α → Option γ} {k : β → Option γ} {l : List α} {ws : List β}
    (h : l.mapM f = some ws) (hk : ∀ a w, f a = some w → g a = k w) : l.mapM g = ws.mapM k := by
  induction l generalizing ws with
  | nil => simp at h; subst h; rfl
  | cons a l ih =>
    simp only [List.mapM_cons, Option.bind_eq_bind, Option.bind_eq_some_iff, Option.pure_def, Option.some.injEq] at h
    obtain ⟨w, hw, ws', hws, rfl⟩ := h
    simp [List.mapM_cons, hk a w hw, ih hws]

theorem item_of_view {text : Bytes} {d : Syntax.Directive} {w : DirV} (h : viewDirective text d = some w) :
    item text d = itemV w := by
  unfold viewDirective at h
  unfold item
  cases hb : d.body with
  | «open» o =>
    simp only [hb, Option.bind_eq_bind, Option.bind_eq_some_iff, Option.pure_def, Option.some.injEq] at h ⊢
    obtain ⟨dt, h1, acc, h2, rfl⟩ := h
    simp [itemV, account_of_extract h2, date_of_extract h1]
  | close o =>
    simp only [hb, Option.bind_eq_bind, Option.bind_eq_some_iff, Option.pure_def, Option.some.injEq] at h ⊢
    obtain ⟨dt, h1, acc, h2, rfl⟩ := h
    simp [itemV, account_of_extract h2, date_of_extract h1]
  | price p =>
    simp only [hb, Option.bind_eq_bind, Option.bind_eq_some_iff, Option.pure_def, Option.some.injEq] at h ⊢
    obtain ⟨dt, h1, c, h2, pr, h3, t, h4, rfl⟩ := h
    simp [itemV, date_of_extract h1, fieldStr_of_extract h2, decimal_of_extract h3, fieldStr_of_extract h4]
  | «include» i =>
    simp only [hb, Option.bind_eq_bind, Option.bind_eq_some_iff, Option.pure_def, Option.some.injEq] at h ⊢
    obtain ⟨pth, h1, rfl⟩ := h
    simp [itemV, fieldStr_of_extract h1]
  | assertion a =>
    simp only [hb, Option.bind_eq_bind, Option.bind_eq_some_iff, Option.pure_def, Option.some.injEq] at h ⊢
    obtain ⟨dt, h1, bs, h2, rfl⟩ := h
    have hm : a.balances.mapM (fun b => do
        let acc ← account text b.account
        let q ← decimal text b.quantity.range
        let c ← fieldStr text b.commodity.range
        pure (⟨acc, q, c⟩ : Balance)) = bs.mapM balanceV := by
      apply mapM_congr_view h2
      intro b wv hv
      simp only [viewBalance, Option.bind_eq_bind, Option.bind_eq_some_iff, Option.pure_def, Option.some.injEq] at hv
      obtain ⟨acc, g1, q, g2, c, g3, rfl⟩ := hv
      simp [balanceV, account_of_extract g1, decimal_of_extract g2, fieldStr_of_extract g3]
    simp only [Option.bind_eq_bind, Option.pure_def] at hm
    simp only [itemV, date_of_extract h1, Option.bind_eq_bind, Option.pure_def]
    rw [hm]
  | transaction t =>
    simp only [hb] at h ⊢
    unfold viewTransaction at h
    have hbk : ∀ bks, t.bookings.mapM (viewBooking text) = some bks → t.bookings.mapM (booking text) = bks.mapM bookingV :=
      fun bks h3 => mapM_congr_view h3 (fun b wv hv => booking_of_view hv)
    have htg : ∀ ts, t.addons.performance.targets.mapM (fun (c : Syntax.Commodity) => c.range.extract text) = some ts →
        t.addons.performance.targets.mapM (fun (c : Syntax.Commodity) => fieldStr text c.range) = ts.mapM utf8 :=
      fun ts hts => mapM_congr_view (k := utf8) hts (fun c wv hv => fieldStr_of_extract hv)
    have hac : ∀ av, viewAccrual text t.addons.accrual = some av →
        (do
          let ivs ← fieldStr text t.addons.accrual.interval.range
          let iv ← interval ivs
          let s ← date text t.addons.accrual.start
          let e ← date text t.addons.accrual.stop
          let acc ← account text t.addons.accrual.account
          pure (some (⟨iv, s, e, acc⟩ : Accrual.Addon))) = (accrualV av).map some := by
      intro av hav
      simp only [viewAccrual, Option.bind_eq_bind, Option.bind_eq_some_iff, Option.pure_def, Option.some.injEq] at hav
      obtain ⟨iv, g1, d0, g2, d1, g3, ac, g4, rfl⟩ := hav
      simp only [accrualV, fieldStr_of_extract g1, date_of_extract g2, date_of_extract g3, account_of_extract g4,
        Option.bind_eq_bind, Option.pure_def]
      cases utf8 iv with
      | none => rfl
      | some s =>
        simp only [Option.bind_some]
        cases interval s with
        | none => rfl
        | some i =>
          simp only [Option.bind_some]
          cases parseDate d0 with
          | none => rfl
          | some x =>
            simp only [Option.bind_some]
            cases parseDate d1 with
            | none => rfl
            | some y =>
              simp only [Option.bind_some]
              cases accountV ac <;> rfl
    cases heA : t.addons.accrual.range.empty <;> cases heP : t.addons.performance.range.empty <;>
      simp only [heA, heP, Bool.not_false, Bool.not_true, Bool.false_eq_true, if_false, if_true, Option.bind_eq_bind,
        Option.bind_eq_some_iff, Option.pure_def, Option.some.injEq, Option.map_eq_some_iff] at h
    · obtain ⟨_, ⟨av, hav, rfl⟩, _, ⟨ts, hts, rfl⟩, dt, h1, desc, h2, bks, h3, rfl⟩ := h
      have := hac av hav
      simp only [Option.bind_eq_bind, Option.pure_def] at this
      simp only [itemV, date_of_extract h1, fieldStr_of_extract h2, hbk bks h3, htg ts hts, this, Option.bind_eq_bind,
        Option.pure_def, Bool.false_eq_true, if_false]
    · obtain ⟨_, ⟨av, hav, rfl⟩, _, rfl, dt, h1, desc, h2, bks, h3, rfl⟩ := h
      have := hac av hav
      simp only [Option.bind_eq_bind, Option.pure_def] at this
      simp only [itemV, date_of_extract h1, fieldStr_of_extract h2, hbk bks h3, this, Option.bind_eq_bind,
        Option.pure_def, Bool.false_eq_true, if_false, if_true]
    · obtain ⟨_, rfl, _, ⟨ts, hts, rfl⟩, dt, h1, desc, h2, bks, h3, rfl⟩ := h
      simp only [itemV, date_of_extract h1, fieldStr_of_extract h2, hbk bks h3, htg ts hts, Option.bind_eq_bind,
        Option.pure_def, Bool.false_eq_true, if_false, if_true]
    · obtain ⟨_, rfl, _, rfl, dt, h1, desc, h2, bks, h3, rfl⟩ := h
      simp only [itemV, date_of_extract h1, fieldStr_of_extract h2, hbk bks h3, Option.bind_eq_bind,
        Option.pure_def, if_true]

theorem okPrefix_congr_view {α β γ} {f : α → Option β} {g : α → Option γ} {k : β → Option γ} {l : List α} {ws : List β}
    (h : l.mapM f = some ws) (hk : ∀ a w, f a = some w → g a = k w) : okPrefix g l = okPrefix k ws := by
  induction l generalizing ws with
  | nil => simp at h; subst h; rfl
  | cons a l ih =>
    simp only [List.mapM_cons, Option.bind_eq_bind, Option.bind_eq_some_iff, Option.pure_def, Option.some.injEq] at h
    obtain ⟨w, hw, ws', hws, rfl⟩ := h
    simp only [okPrefix, hk a w hw, ih hws]

theorem okPrefix_map {α β γ} (k : β → Option γ) (m : α → β) (l : List α) :
    okPrefix k (l.map m) = okPrefix (fun a => k (m a)) l := by
  induction l with
  | nil => rfl
  | cons a l ih => simp only [List.map_cons, okPrefix, ih]

/-- **loading a rendering of items**: parse and per-directive elaboration, as a function of the items' field views -/
theorem loadText_rendered (padding : Nat) (path : String) (items : List Syntax.Item) (h : ItemsShape items) :
    loadText path (flat (outToks padding items)) =
      (match (viewsOf items).mapM (fun v => itemV v.bytes) with
       | none => loadFailed (okPrefix (fun v => itemV v.bytes) (viewsOf items))
       | some its => loadItems its) := by
  obtain ⟨f2, hp, hv⟩ := parse_rendered_items padding path items h
  unfold loadText
  rw [hp]
  simp only
  have : f2.directives.mapM (item (flat (outToks padding items))) = ((viewsOf items).map DirT.bytes).mapM itemV :=
    mapM_congr_view hv (fun d w hw => item_of_view hw)
  have hpre : okPrefix (item (flat (outToks padding items))) f2.directives = okPrefix itemV ((viewsOf items).map DirT.bytes) :=
    okPrefix_congr_view hv (fun d w hw => item_of_view hw)
  rw [this, hpre, List.mapM_map, okPrefix_map]
  rfl

end Knut.FromSyntax
