package main

import (
	"fmt"
	"os"
	"path/filepath"
	"strings"
	"time"
)

// Stream "sizes" of C18: in-place rewrites of LARGE files. Sizes just above powers of two (64 KiB, 1 MiB, 32 MiB; the
// thorough tier adds 64 MiB) — the places where readers with a buffer or a limit behave differently.  The file consists
// mostly of long comment lines between transactions, so that a cut at an arbitrary byte usually falls into a comment and
// leaves a prefix that still parses.  Expected after `knut format` (and `knut infer -i`): exit 0, every comment line and
// every directive of the input still there (formatting changes spacing inside directives only), and a second run changes
// nothing.  (Seeded change C18-e read journals through a 32 MiB io.LimitReader and wrote the truncated text back.)
func (c *Ctx) c18Sizes() {
	if c.KnutBin == "" {
		return
	}
	sizes := []int{1 << 16, 1 << 20, 1 << 25}
	if c.Thorough() {
		sizes = append(sizes, 1<<12, 1<<13, 1<<24, 1<<26)
	}
	dir := filepath.Join(c.WorkDir, "sizes")
	os.MkdirAll(dir, 0o755)
	defer os.RemoveAll(dir)
	for i, sz := range sizes {
		for v, cmdName := range []string{"format", "infer"} {
			idx := i*2 + v
			if !c.Want("sizes", idx) {
				continue
			}
			if cmdName == "infer" && sz > 1<<25 {
				continue
			}
			r := c.Rng("sizes", idx)
			var b strings.Builder
			b.WriteString("2020-01-01 open Assets:Bank\n2020-01-01 open Expenses:Food\n2020-01-01 open Expenses:TBD\n\n")
			ntx, ncomment := 0, 0
			for b.Len() < sz+r.Range(1, 4000) {
				for k := r.Range(1, 4); k > 0; k-- {
					fmt.Fprintf(&b, "# %s\n", strings.Repeat(Pick(r, []string{"note ", "- ", "receipt 123 "}), r.Range(10, 60)))
					ncomment++
				}
				b.WriteString("\n")
				fmt.Fprintf(&b, "2020-01-02   \"payment %d\"\nAssets:Bank     Expenses:%s   %d.50   CHF\n\n", ntx, Pick(r, []string{"Food", "TBD"}), 1+r.Intn(900))
				ntx++
			}
			text := b.String()
			path := filepath.Join(dir, fmt.Sprintf("big%d.knut", idx))
			os.WriteFile(path, []byte(text), 0o644)
			argv := []string{"format", path}
			if cmdName == "infer" {
				argv = []string{"infer", "-i", "-t", path, path}
			}
			count := func(s string) (int, int) {
				return strings.Count(s, "\n2020-01-02 "), strings.Count(s, "\n# ")
			}
			c.Evals++
			in := map[string]any{"argv": strings.Join(argv[:1], " ") + " <file>", "file": fmt.Sprintf("%d bytes: %d transactions, %d comment lines of 50-700 bytes", len(text), ntx, ncomment)}
			c.Class(fmt.Sprintf("sizes/%s/2^%d", cmdName, log2(sz)))
			code, _, stderr := runKnut(c.KnutBin, 120*time.Second, nil, argv...)
			after, _ := os.ReadFile(path)
			if !c.Monitor("sizes", idx, "a large journal is rewritten in place (exit 0)", in, code == 0, fmt.Sprintf("exit %d: %s", code, clip(stderr))) {
				os.Remove(path)
				continue
			}
			t1, c1 := count(string(after))
			c.Monitor("sizes", idx, "C18 complete new contents: no directive and no comment line is lost by the rewrite", in, t1 == ntx && c1 == ncomment && len(after) > len(text)/2,
				fmt.Sprintf("before: %d bytes, %d transactions, %d comment lines; after: %d bytes, %d transactions, %d comment lines", len(text), ntx, ncomment, len(after), t1, c1))
			code2, _, stderr2 := runKnut(c.KnutBin, 120*time.Second, nil, argv...)
			again, _ := os.ReadFile(path)
			c.Monitor("sizes", idx, "a second rewrite changes nothing", in, code2 == 0 && string(again) == string(after), fmt.Sprintf("exit %d %s; %d vs %d bytes", code2, clip(stderr2), len(again), len(after)))
			os.Remove(path)
		}
	}
}

func log2(n int) int {
	k := 0
	for n > 1 {
		n >>= 1
		k++
	}
	return k
}
