import Knut.Model.Commands
import Knut.Proofs.Loader
import Knut.Proofs.Accrual
import Knut.Proofs.TableLayout
import Knut.Properties.C08
import Knut.Proofs.InferFormat
/-! Helper lemmas for C14: which stages of the command model can end in a panic. -/
namespace Knut.Commands
open Knut

/-- `m` does not end in a panic -/
def NoPanic {α : Type} (m : M α) : Prop := ∀ s, m ≠ .error (.panic s)

theorem NoPanic.ok {α : Type} (a : α) : NoPanic (.ok a : M α) := fun _ h => by cases h
theorem NoPanic.pure {α : Type} (a : α) : NoPanic (pure a : M α) := fun _ h => by cases h
theorem NoPanic.err {α : Type} (w : String) : NoPanic (.error (.error w) : M α) := fun _ h => by cases h

theorem NoPanic.bind' {α β : Type} {m : M α} {f : α → M β} (h1 : NoPanic m) (h2 : ∀ a, m = .ok a → NoPanic (f a)) :
    NoPanic (m >>= f) := by
  intro s h
  cases m with
  | error e =>
    have : (Except.error e : M β) = .error (.panic s) := h
    cases this; exact h1 s rfl
  | ok a => exact h2 a rfl s h

theorem NoPanic.bind {α β : Type} {m : M α} {f : α → M β} (h1 : NoPanic m) (h2 : ∀ a, NoPanic (f a)) :
    NoPanic (m >>= f) := NoPanic.bind' h1 (fun a _ => h2 a)

theorem NoPanic.map {α β : Type} {m : M α} (f : α → β) (h : NoPanic m) : NoPanic (f <$> m) := by
  intro s hs
  cases m with
  | error e =>
    have : (Except.error e : M β) = .error (.panic s) := hs
    cases this; exact h s rfl
  | ok a => cases hs

theorem NoPanic.map' {α β : Type} {m : M α} (f : α → β) (h : NoPanic m) : NoPanic (m.map f) := by
  intro s hs
  cases m with
  | error e =>
    have : (Except.error e : M β) = .error (.panic s) := hs
    cases this; exact h s rfl
  | ok a => cases hs

theorem NoPanic.mapM {α β : Type} {f : α → M β} : ∀ {l : List α}, (∀ x ∈ l, NoPanic (f x)) → NoPanic (l.mapM f)
  | [], _ => by simpa using NoPanic.pure _
  | x :: xs, h => by
    rw [List.mapM_cons]
    refine NoPanic.bind (h x List.mem_cons_self) fun b => ?_
    refine NoPanic.bind (NoPanic.mapM fun y hy => h y (List.mem_cons_of_mem _ hy)) fun bs => ?_
    exact NoPanic.pure _

theorem elabDate_noPanic (text : Bytes) (d : Syntax.Date) : NoPanic (elabDate text d) := by
  unfold elabDate; split
  · exact NoPanic.ok _
  · exact NoPanic.err _

theorem elabDecimal_noPanic (text : Bytes) (d : Syntax.Decimal) : NoPanic (elabDecimal text d) := by
  unfold elabDecimal; split
  · exact NoPanic.ok _
  · exact NoPanic.err _

theorem elabAccount_noPanic (text : Bytes) (a : Syntax.Account) : NoPanic (elabAccount text a) := by
  unfold elabAccount; simp only; split
  · exact NoPanic.ok _
  · exact NoPanic.err _

theorem elabCommodity_noPanic (text : Bytes) (c : Syntax.Commodity) : NoPanic (elabCommodity text c) := by
  unfold elabCommodity; simp only; split
  · exact NoPanic.ok _
  · exact NoPanic.err _

theorem elabBooking_noPanic (text : Bytes) (b : Syntax.Booking) : NoPanic (elabBooking text b) := by
  unfold elabBooking
  exact NoPanic.bind (elabDecimal_noPanic _ _) fun _ => NoPanic.bind (elabCommodity_noPanic _ _) fun _ => NoPanic.pure _

theorem elabAccrual_noPanic (text : Bytes) (a : Syntax.Accrual) : NoPanic (elabAccrual text a) := by
  unfold elabAccrual
  refine NoPanic.bind (elabDate_noPanic _ _) fun _ => NoPanic.bind (elabDate_noPanic _ _) fun _ => ?_
  split
  · exact NoPanic.err _
  · exact NoPanic.pure _

theorem elabAccrualOpt_noPanic (text : Bytes) (t : Syntax.Transaction) : NoPanic (elabAccrualOpt text t) := by
  unfold elabAccrualOpt; split
  · exact NoPanic.pure _
  · exact NoPanic.map' _ (elabAccrual_noPanic _ _)

theorem elabTargets_noPanic (text : Bytes) (t : Syntax.Transaction) : NoPanic (elabTargets text t) := by
  unfold elabTargets; split
  · exact NoPanic.pure _
  · exact NoPanic.map' _ (NoPanic.mapM fun _ _ => elabCommodity_noPanic _ _)

theorem txInput_noPanic (text : Bytes) (t : Syntax.Transaction) : NoPanic (txInput text t) := by
  unfold txInput
  refine NoPanic.bind (elabDate_noPanic _ _) fun _ => ?_
  refine NoPanic.bind (NoPanic.mapM fun _ _ => elabBooking_noPanic _ _) fun _ => ?_
  refine NoPanic.bind (elabTargets_noPanic _ _) fun _ => ?_
  exact NoPanic.bind (elabAccrualOpt_noPanic _ _) fun _ => NoPanic.pure _

/-- the start date of the parsed annotation is the parsed start date -/
theorem elabAccrual_start {text : Bytes} {a : Syntax.Accrual} {ad : Accrual.Addon} (h : elabAccrual text a = .ok ad) :
    parseDate (textOf text a.start.range) = some ad.start := by
  unfold elabAccrual elabDate at h
  cases h1 : parseDate (textOf text a.start.range) with
  | none => simp [h1, bind, Except.bind] at h
  | some z =>
    cases h2 : parseDate (textOf text a.stop.range) with
    | none => simp [h1, h2, bind, Except.bind] at h
    | some e =>
      simp only [h1, h2, bind, Except.bind] at h
      split at h
      · cases h
      · cases h; rfl

/-- the accrual of the parsed transaction is the parsed annotation -/
theorem txInput_accrual {text : Bytes} {t : Syntax.Transaction} {inp : Accrual.TxInput} (h : txInput text t = .ok inp) :
    elabAccrualOpt text t = .ok inp.accrual := by
  unfold txInput at h
  simp only [bind, Except.bind] at h
  split at h
  · cases h
  · split at h
    · cases h
    · split at h
      · cases h
      · split at h
        · cases h
        · next ac hac => cases h; exact hac

/-- `transaction.Create` panics only in `date.NewPartition`, and only for a window starting at Go's zero time -/
theorem create_noPanic (inp : Accrual.TxInput) (h : ∀ ad, inp.accrual = some ad → ad.start ≠ 0) :
    ∀ s, Accrual.create inp ≠ .panic s := by
  intro s
  unfold Accrual.create
  split
  · intro hh; cases hh
  · simp only
    cases ha : inp.accrual with
    | none => intro hh; cases hh
    | some ad =>
      simp only [Accrual.expand]
      split
      · intro hh; cases hh
      · split
        · intro hh; cases hh
        · next hle =>
          obtain ⟨txs, hx⟩ := Accrual.expandLoop_ok
            { date := inp.date, description := inp.description, postings := Accrual.postingsOf inp.bookings, targets := inp.targets }
            ad (Accrual.postingsOf inp.bookings) (h ad ha) (by omega)
          rw [hx]; intro hh; cases hh

/-- the guard of the known finding, per transaction: its `@accrue` window (if any) does not start on
0001-01-01 (day 0, Go's zero `time.Time`) -/
def accrualStartsLater (text : Bytes) (t : Syntax.Transaction) : Prop :=
  t.addons.accrual.range.empty = false → parseDate (textOf text t.addons.accrual.start.range) ≠ some 0

theorem elabTransaction_noPanic (text : Bytes) (t : Syntax.Transaction) (g : accrualStartsLater text t) :
    NoPanic (elabTransaction text t) := by
  unfold elabTransaction
  refine NoPanic.bind' (txInput_noPanic _ _) fun inp hinp => ?_
  have hacc := txInput_accrual hinp
  have hcreate : ∀ s, Accrual.create inp ≠ .panic s := by
    apply create_noPanic
    intro ad had
    rw [had] at hacc
    unfold elabAccrualOpt at hacc
    cases he : t.addons.accrual.range.empty with
    | true => simp [he] at hacc; cases hacc
    | false =>
      simp only [he, Bool.false_eq_true, if_false] at hacc
      cases hx : elabAccrual text t.addons.accrual with
      | error e => rw [hx] at hacc; cases hacc
      | ok ad' =>
        rw [hx] at hacc
        have : ad' = ad := by cases hacc; rfl
        subst this
        have hs := elabAccrual_start hx
        intro h0
        exact g he (by rw [hs, h0])
  cases hc : Accrual.create inp with
  | ok txs => exact NoPanic.pure _
  | error => exact NoPanic.err _
  | panic site => exact absurd hc (hcreate site)


/-! ### files and the journal -/

theorem elabBalance_noPanic (text : Bytes) (b : Syntax.Balance) : NoPanic (elabBalance text b) := by
  unfold elabBalance
  exact NoPanic.bind (elabAccount_noPanic _ _) fun _ => NoPanic.bind (elabDecimal_noPanic _ _) fun _ =>
    NoPanic.bind (elabCommodity_noPanic _ _) fun _ => NoPanic.pure _

/-- the guard of the known finding for one file: no `@accrue` window starts on 0001-01-01 -/
def fileGuard (tf : Bytes × Syntax.File) : Prop :=
  ∀ d ∈ tf.2.directives, ∀ t, d.body = .transaction t → accrualStartsLater tf.1 t

theorem elabDirective_noPanic (text : Bytes) (d : Syntax.Directive)
    (g : ∀ t, d.body = .transaction t → accrualStartsLater text t) : NoPanic (elabDirective text d) := by
  unfold elabDirective
  split
  · next t ht => exact elabTransaction_noPanic text t (g t ht)
  · exact NoPanic.bind (elabAccount_noPanic _ _) fun _ => NoPanic.bind (elabDate_noPanic _ _) fun _ => NoPanic.pure _
  · exact NoPanic.bind (elabAccount_noPanic _ _) fun _ => NoPanic.bind (elabDate_noPanic _ _) fun _ => NoPanic.pure _
  · exact NoPanic.bind (elabDate_noPanic _ _) fun _ =>
      NoPanic.bind (NoPanic.mapM fun _ _ => elabBalance_noPanic _ _) fun _ => NoPanic.pure _
  · exact NoPanic.bind (elabDate_noPanic _ _) fun _ => NoPanic.bind (elabCommodity_noPanic _ _) fun _ =>
      NoPanic.bind (elabDecimal_noPanic _ _) fun _ => NoPanic.bind (elabCommodity_noPanic _ _) fun _ => NoPanic.pure _
  · exact NoPanic.pure _

theorem elabFile_noPanic (tf : Bytes × Syntax.File) (g : fileGuard tf) : NoPanic (elabFile tf) := by
  unfold elabFile
  exact NoPanic.map' _ (NoPanic.mapM fun d hd => elabDirective_noPanic _ d (g d hd))

/-- the guard of the known finding `accrual-window-starting-0001-01-01` for a journal: in no file of the include
graph does an `@accrue` window start on 0001-01-01 -/
def AccrualGuard (fs : Loader.FileSys) (path : Loader.Path) : Prop :=
  ∀ files, Loader.load fs parseForLoader path = .ok files → ∀ pf ∈ files, fileGuard pf.2

theorem fromPath_noPanic (fs : Loader.FileSys) (path : Loader.Path) (g : AccrualGuard fs path) :
    NoPanic (fromPath fs path) := by
  unfold fromPath
  cases h : Loader.load fs parseForLoader path with
  | error e => exact NoPanic.err _
  | ok files =>
    exact NoPanic.map' _ (NoPanic.mapM fun pf hpf => elabFile_noPanic _ (g files h pf hpf))

/-- an error of the loader is an error of `journal.FromPath` -/
theorem fromPath_load_error (fs : Loader.FileSys) (path : Loader.Path) {e : Loader.LoadErr Syntax.Err}
    (h : Loader.load fs parseForLoader path = .error e) : fromPath fs path = .error (.error "loading") := by
  unfold fromPath; rw [h]

/-! ### outcome of a command from the outcome of its `do` block -/

theorem ofExcept_noPanic (m : M CmdOutcome) (h1 : NoPanic m) (h2 : ∀ o, m = .ok o → ∀ s, o ≠ .panic s) :
    ∀ s, ofExcept m ≠ .panic s := by
  intro s
  cases m with
  | ok o => exact h2 o rfl s
  | error o => intro h; exact h1 s (by simp only [ofExcept] at h; rw [h])

theorem bind_error_error {α β : Type} {m : M α} {f : α → M β} {w : String} (h : m = .error (.error w)) :
    (m >>= f) = .error (.error w) := by rw [h]; rfl

/-! ### the table of the balance report fits its width -/

open Knut.Table

theorem foldl_fst_length {σ γ α : Type} (step : List α × σ → γ → List α × σ)
    (h : ∀ st d, ((step st d).1).length = st.1.length + 1) :
    ∀ (l : List γ) (st : List α × σ), (l.foldl step st).1.length = st.1.length + l.length
  | [], st => by simp
  | d :: ds, st => by
    simp only [List.foldl_cons]
    rw [foldl_fst_length step h ds, h]
    simp; omega

theorem renderVals_length (rc : RenderCfg) (dc : Bool) (indent : Nat) (name : String) (neg : Bool)
    (coms : List (Option Commodity)) (cell : Option Commodity → Int → Rat) :
    ∀ row ∈ BalanceReport.renderVals rc dc indent name neg coms cell,
      row.length = 1 + (if dc then 1 else 0) + rc.endDates.length := by
  intro row hrow
  unfold BalanceReport.renderVals at hrow
  simp only at hrow
  split at hrow
  · simp only [List.mem_singleton] at hrow
    subst hrow
    simp only [List.length_cons, List.length_replicate]
    omega
  · obtain ⟨p, _, rfl⟩ := List.mem_map.mp hrow
    simp only [List.length_cons, List.length_append]
    rw [foldl_fst_length]
    · cases dc <;> simp <;> omega
    · intro st d
      simp only
      split <;> simp

theorem nodeRows_length (rc : RenderCfg) (dc : Bool) (es : List Entry) (neg : Bool) (node : List String × Nat) :
    ∀ row ∈ BalanceReport.nodeRows rc dc es neg node, row.length = 1 + (if dc then 1 else 0) + rc.endDates.length := by
  intro row hrow
  unfold BalanceReport.nodeRows at hrow
  exact renderVals_length _ _ _ _ _ _ _ row hrow

theorem table_rows_length (rc : RenderCfg) (es : List Entry) :
    ∀ row ∈ (BalanceReport.table rc es).rows,
      row.length = 1 + (if (rc.valuation.isNone || rc.hasShowCommodities) then 1 else 0) + rc.endDates.length := by
  intro row hrow
  unfold BalanceReport.table at hrow
  simp only [List.mem_append, List.mem_cons, List.mem_flatMap, List.not_mem_nil, or_false] at hrow
  have hrep : ∀ c : Cell, (List.replicate ((1 + if (rc.valuation.isNone || rc.hasShowCommodities) = true then 1 else 0) + rc.endDates.length) c).length
      = 1 + (if (rc.valuation.isNone || rc.hasShowCommodities) then 1 else 0) + rc.endDates.length := by
    intro c; simp
  have hsect : ∀ (es' : List Entry) (neg : Bool),
      (∃ a, a ∈ BalanceReport.sortedChildren rc es' (BalanceReport.maxDepth es') [] ∧
        ((∃ a_1, (a_1 = ([a], 0) ∨ a_1 ∈ BalanceReport.walk rc es' (BalanceReport.maxDepth es') [a] 2) ∧
            row ∈ BalanceReport.nodeRows rc (rc.valuation.isNone || rc.hasShowCommodities) es' neg a_1) ∨
          row = List.replicate ((1 + if (rc.valuation.isNone || rc.hasShowCommodities) = true then 1 else 0) + rc.endDates.length) Cell.empty)) →
      row.length = 1 + (if (rc.valuation.isNone || rc.hasShowCommodities) then 1 else 0) + rc.endDates.length := by
    rintro es' neg ⟨a, _, h | h⟩
    · obtain ⟨n, _, hn⟩ := h
      exact nodeRows_length _ _ _ _ _ row hn
    · rw [h]; exact hrep _
  rcases hrow with ((((((((h | h | h) | h) | h) | h) | h) | h) | h) | h) | h
  · rw [h]; exact hrep _
  · rw [h]; cases (rc.valuation.isNone || rc.hasShowCommodities) <;> simp <;> omega
  · rw [h]; exact hrep _
  · exact hsect _ _ h
  · exact renderVals_length _ _ _ _ _ _ _ row h
  · rw [h]; exact hrep _
  · exact hsect _ _ h
  · exact renderVals_length _ _ _ _ _ _ _ row h
  · rw [h]; exact hrep _
  · exact renderVals_length _ _ _ _ _ _ _ row h
  · rw [h]; exact hrep _

theorem table_width (rc : RenderCfg) (es : List Entry) :
    (BalanceReport.table rc es).width = 1 + (if (rc.valuation.isNone || rc.hasShowCommodities) then 1 else 0) + rc.endDates.length := by
  unfold BalanceReport.table Table.width
  simp only
  cases (rc.valuation.isNone || rc.hasShowCommodities) <;> simp [Table.groupColumns] <;> omega

/-- every row of the balance report has exactly as many cells as the table has columns: the text renderer's
`widths[i]` and `row.cells[0]` are in range -/
theorem table_rows_fit (rc : RenderCfg) (es : List Entry) :
    ∀ row ∈ (BalanceReport.table rc es).rows, row ≠ [] ∧ row.length ≤ (BalanceReport.table rc es).width := by
  intro row hrow
  have h1 := table_rows_length rc es row hrow
  have h2 := table_width rc es
  constructor
  · intro h; rw [h] at h1; simp at h1; omega
  · omega

theorem renderText_table_noPanic (r : Renderer) (rc : RenderCfg) (es : List Entry) :
    ∀ s, Table.renderText r (BalanceReport.table rc es) ≠ .panic s := by
  intro s
  obtain ⟨ls, hls⟩ := (renderLines_ok_iff r _).mpr (table_rows_fit rc es)
  simp [Table.renderText, hls]


/-! ### the commands -/

theorem bind_eq_ok {α β : Type} {m : M α} {f : α → M β} {b : β} (h : (m >>= f) = .ok b) :
    ∃ a, m = .ok a ∧ f a = .ok b := by
  cases m with
  | error e => cases h
  | ok a => exact ⟨a, rfl, h⟩

theorem commodityFlag_noPanic (v : Option Commodity) : NoPanic (commodityFlag v) := by
  unfold commodityFlag
  split
  · exact NoPanic.ok _
  · split
    · exact NoPanic.ok _
    · split
      · exact NoPanic.ok _
      · exact NoPanic.err _

/-- `balanceRunner.execute` after the journal is built panics only in `date.NewPartition` on a window that starts at
Go's zero time -/
theorem balanceRun_noPanic (f : BalanceFlags) (ds : List Directive)
    (hw : (BalanceCmd.window f (Builder.ofList ds)).start ≠ 0) : ∀ s, BalanceCmd.run f ds ≠ .panic s := by
  intro s
  unfold BalanceCmd.run BalanceCmd.entries
  simp only [newPartition, hw, if_false]
  split
  · next o heq =>
    split at heq
    · cases heq; intro h; cases h
    · cases heq
  · next es part heq =>
    split
    · intro h; cases h
    · split
      · intro h; cases h
      · next s' hs' => exact absurd hs' (renderText_table_noPanic _ _ _ s')

theorem beancountRun_noPanic (v : Option Commodity) (ds : List Directive) : ∀ s, Beancount.run v ds ≠ .panic s := by
  intro s
  unfold Beancount.run
  split
  · intro h; cases h
  · split
    · intro h; cases h
    · split
      · intro h; cases h
      · split <;> (intro h; cases h)

/-- the guard of the known finding `transaction-dated-0001-01-01`: the report window, clipped to the journal, does
not start on 0001-01-01 (it does exactly if no `--from` later than that is given and the journal's earliest
transaction is dated 0001-01-01 or earlier) -/
def WindowGuard (fs : Loader.FileSys) (f : Flags) : Prop :=
  ∀ ds, fromPath fs f.path = .ok ds → (BalanceCmd.window f.balance (Builder.ofList ds)).start ≠ 0

theorem runCheck_noPanic (fs : Loader.FileSys) (f : Flags) (g : AccrualGuard fs f.path) : ∀ s, runCheck fs f ≠ .panic s := by
  unfold runCheck
  apply ofExcept_noPanic
  · refine NoPanic.bind (fromPath_noPanic fs f.path g) fun ds => ?_
    simp only
    split
    · exact NoPanic.err _
    · split <;> exact NoPanic.pure _
  · intro o ho s
    obtain ⟨ds, _, h2⟩ := bind_eq_ok ho
    simp only at h2
    split at h2
    · cases h2
    · split at h2 <;> (cases h2; intro h; cases h)

theorem runPrint_noPanic (fs : Loader.FileSys) (f : Flags) (g : AccrualGuard fs f.path) : ∀ s, runPrint fs f ≠ .panic s := by
  unfold runPrint
  apply ofExcept_noPanic
  · refine NoPanic.bind (fromPath_noPanic fs f.path g) fun ds => ?_
    simp only
    split
    · exact NoPanic.err _
    · exact NoPanic.pure _
  · intro o ho s
    obtain ⟨ds, _, h2⟩ := bind_eq_ok ho
    simp only at h2
    split at h2
    · cases h2
    · cases h2; intro h; cases h

theorem runTranscode_noPanic (fs : Loader.FileSys) (f : Flags) (g : AccrualGuard fs f.path) :
    ∀ s, runTranscode fs f ≠ .panic s := by
  unfold runTranscode
  apply ofExcept_noPanic
  · refine NoPanic.bind (commodityFlag_noPanic _) fun v => ?_
    split
    · exact NoPanic.err _
    · exact NoPanic.bind (fromPath_noPanic fs f.path g) fun ds => NoPanic.pure _
  · intro o ho s
    obtain ⟨v, _, h2⟩ := bind_eq_ok ho
    split at h2
    · cases h2
    · obtain ⟨ds, _, h3⟩ := bind_eq_ok h2
      cases h3
      exact beancountRun_noPanic _ _ s

theorem runBalance_noPanic (fs : Loader.FileSys) (f : Flags) (g : AccrualGuard fs f.path) (w : WindowGuard fs f) :
    ∀ s, runBalance fs f ≠ .panic s := by
  unfold runBalance
  apply ofExcept_noPanic
  · exact NoPanic.bind (commodityFlag_noPanic _) fun v => NoPanic.bind (fromPath_noPanic fs f.path g) fun ds => NoPanic.pure _
  · intro o ho s
    obtain ⟨v, _, h2⟩ := bind_eq_ok ho
    obtain ⟨ds, hds, h3⟩ := bind_eq_ok h2
    cases h3
    exact balanceRun_noPanic { f.balance with valuation := v } ds (w ds hds) s

theorem runFormat_noPanic (fs : Loader.FileSys) (f : Flags) : ∀ s, runFormat fs f ≠ .panic s := by
  intro s
  unfold runFormat
  split
  · intro h; cases h
  · next text _ =>
    cases hp : Syntax.parseText f.path text with
    | error e => simp [Syntax.formatFile, hp]
    | ok file =>
      obtain ⟨out, _, hf⟩ := Knut.C08.C08_format_total hp
      simp [hf]

end Knut.Commands

namespace Knut.Syntax

theorem fileLoopSeen_fst (path : String) (start : Nat) (acc : List Directive) (s : St) :
    (fileLoopSeen path start acc s).1 = fileLoop path start acc s := by
  fun_induction fileLoopSeen path start acc s with
  | case1 acc s hE => rw [fileLoop_eq]; simp [hE]
  | case2 acc s hE e s1 h1 => rw [fileLoop_eq]; simp [hE, h1, Res.bind]
  | case3 acc s hE d s1 h1 hE1 => rw [fileLoop_eq]; simp [hE, h1, Res.bind, hE1]
  | case4 acc s hE d s1 h1 hE1 e s2 h2 => rw [fileLoop_eq]; simp [hE, h1, Res.bind, hE1, h2]
  | case5 acc s hE d s1 h1 hE1 u s2 h2 ih => rw [fileLoop_eq]; simp [hE, h1, Res.bind, hE1, h2, ih]

end Knut.Syntax

namespace Knut.Commands
open Knut Knut.Syntax Knut.Infer

/-- the loader's parser is `syntax.ParseFile`'s: same tree, same error -/
theorem parseForLoader_result (file : Loader.Path) (text : Bytes) :
    (parseForLoader file text).result = (match parseText file text with | .ok f => .ok (text, f) | .error e => .error e) := by
  unfold parseForLoader parseText parseFile
  cases hs : Syntax.start (Utf8.decodeAll text) with
  | err e s => rfl
  | ok u s =>
    simp only
    have := fileLoopSeen_fst file s.off [] s
    cases hl : fileLoopSeen file s.off [] s with
    | mk r seen =>
      rw [hl] at this
      simp only at this
      rw [← this]
      cases r <;> rfl

theorem mapM_option_all {α β : Type} (g : α → Option β) : ∀ (l : List α), (∀ x ∈ l, (g x).isSome = true) → (l.mapM g).isSome = true
  | [], _ => rfl
  | x :: xs, h => by
    have h1 := h x List.mem_cons_self
    have h2 := mapM_option_all g xs (fun y hy => h y (List.mem_cons_of_mem _ hy))
    cases hx : g x with
    | none => rw [hx] at h1; cases h1
    | some b =>
      cases hxs : xs.mapM g with
      | none => rw [hxs] at h2; cases h2
      | some bs => simp [List.mapM_cons, hx, hxs]

theorem mapM_option_mem {α β : Type} (g : α → Option β) : ∀ (l : List α) (ys : List β), l.mapM g = some ys →
    ∀ y ∈ ys, ∃ x ∈ l, g x = some y
  | [], ys, h, y, hy => by simp at h; subst h; cases hy
  | x :: xs, ys, h, y, hy => by
    simp only [List.mapM_cons] at h
    cases hx : g x with
    | none => simp [hx] at h
    | some b =>
      cases hxs : xs.mapM g with
      | none => simp [hx, hxs] at h
      | some bs =>
        simp [hx, hxs] at h
        subst h
        rcases List.mem_cons.mp hy with rfl | hin
        · exact ⟨x, List.mem_cons_self, hx⟩
        · obtain ⟨x', hx', hg⟩ := mapM_option_mem g xs bs hxs y hin
          exact ⟨x', List.mem_cons_of_mem _ hx', hg⟩

theorem mapM_option_each {α β : Type} (g : α → Option β) : ∀ (l : List α), (l.mapM g).isSome = true → ∀ x ∈ l, (g x).isSome = true
  | [], _, x, hx => by cases hx
  | a :: as, h, x, hx => by
    simp only [List.mapM_cons] at h
    cases ha : g a with
    | none => simp [ha] at h
    | some b =>
      cases has : as.mapM g with
      | none => simp [ha, has] at h
      | some bs =>
        rcases List.mem_cons.mp hx with rfl | hin
        · simp [ha]
        · exact mapM_option_each g as (by simp [has]) x hin

/-- what `Model.Update` extracts is among what the formatter extracts -/
theorem viewT_isSome_of_viewTransaction (text : Bytes) (t : Syntax.Transaction) (h : (viewTransaction text t).isSome = true) :
    (viewT text t).isSome = true := by
  unfold viewTransaction at h
  unfold viewT
  cases hd : t.description.content.extract text with
  | none => simp [hd] at h
  | some desc =>
    cases hb : t.bookings.mapM (viewBooking text) with
    | none => simp [hd, hb] at h
    | some bs =>
      have hall := mapM_option_each _ _ (by simp [hb] : (t.bookings.mapM (viewBooking text)).isSome = true)
      have : (t.bookings.mapM fun b => (viewBooking text b).map fun v => (⟨b.credit.isMacro, b.debit.isMacro, v⟩ : TBooking)).isSome = true := by
        apply mapM_option_all
        intro b hbm
        have := hall b hbm
        cases hv : viewBooking text b with
        | none => rw [hv] at this; cases this
        | some v => simp
      cases hm : (t.bookings.mapM fun b => (viewBooking text b).map fun v => (⟨b.credit.isMacro, b.debit.isMacro, v⟩ : TBooking)) with
      | none => rw [hm] at this; cases this
      | some tb => simp

/-- the training transactions of a file the parser accepted can be extracted (no slice bound is violated) -/
theorem fileTxs_total {path : String} {text : Bytes} {f : Syntax.File} (h : parseText path text = .ok f) :
    (fileTxs text f).isSome = true := by
  obtain ⟨out, ho, _⟩ := Knut.C08.C08_format_total h
  obtain ⟨_, _, _, hsome, _⟩ := Knut.C08.C08_reparse_same_fields h ho
  have hall := mapM_option_each _ _ hsome
  unfold fileTxs
  apply mapM_option_all
  intro t ht
  obtain ⟨d, hd, hdt⟩ := List.mem_filterMap.mp ht
  have hv := hall d hd
  unfold viewDirective at hv
  split at hdt
  · next t' hb =>
    cases hdt
    rw [hb] at hv
    exact viewT_isSome_of_viewTransaction text _ hv
  · cases hdt

theorem runInfer_noPanic (fs : Loader.FileSys) (f : Flags) : ∀ s, runInfer fs f ≠ .panic s := by
  intro s
  unfold runInfer
  cases hl : Loader.load fs parseForLoader f.training with
  | error e => intro h; cases h
  | ok files =>
    simp only
    cases hr : fs.read f.path with
    | none => intro h; cases h
    | some target =>
      simp only
      unfold inferCmd
      cases hm : (files.map (fun pf => (pf.1, pf.2.1))).mapM (fun pt => (parseText pt.1 pt.2).toOption.map fun f => (pt.2, f)) with
      | none => intro h; cases h
      | some tfs =>
        simp only
        have htx : (tfs.mapM (fun tf => fileTxs tf.1 tf.2)).isSome = true := by
          apply mapM_option_all
          intro tf htf
          obtain ⟨pt, _, hpt⟩ := mapM_option_mem _ _ _ hm tf htf
          cases hp : parseText pt.1 pt.2 with
          | error e => simp [hp, Except.toOption] at hpt
          | ok g =>
            simp [hp, Except.toOption] at hpt
            subst hpt
            exact fileTxs_total hp
        cases hx : tfs.mapM (fun tf => fileTxs tf.1 tf.2) with
        | none => rw [hx] at htx; cases htx
        | some txss =>
          simp only
          cases hp : parseText f.path target with
          | error e => intro h; cases h
          | ok g =>
            simp only
            obtain ⟨out, ho, _⟩ := Knut.C08.C08_format_total hp
            have := formatWith_isSome ((train f.account.toUTF8.toList txss.flatten).inferDir exactScorer) target g
            rw [ho] at this
            unfold inferFormat
            cases hf : formatWith ((train f.account.toUTF8.toList txss.flatten).inferDir exactScorer) target g with
            | none => rw [hf] at this; cases this
            | some o => simp only; split <;> (intro h; cases h)


theorem cls_ne_panic {o : CmdOutcome} (h : ∀ s, o ≠ .panic s) : CmdOutcome.cls o ≠ .panic := by
  cases o with
  | ok s => intro h'; cases h'
  | error w => intro h'; cases h'
  | panic s => exact absurd rfl (h s)

theorem portfolioClass_noPanic (fs : Loader.FileSys) (f : Flags) (g : AccrualGuard fs f.path) (w : WindowGuard fs f) :
    portfolioClass fs f ≠ .panic := by
  unfold portfolioClass
  apply cls_ne_panic
  apply ofExcept_noPanic
  · refine NoPanic.bind (commodityFlag_noPanic _) fun v => ?_
    refine NoPanic.bind' (fromPath_noPanic fs f.path g) fun ds hds => ?_
    simp only [newPartition, w ds hds, if_false]
    split
    · split
      · exact NoPanic.err _
      · exact NoPanic.pure _
    · split
      · exact NoPanic.err _
      · exact NoPanic.pure _
  · intro o ho s
    obtain ⟨v, _, h2⟩ := bind_eq_ok ho
    obtain ⟨ds, hds, h3⟩ := bind_eq_ok h2
    simp only [newPartition, w ds hds, if_false] at h3
    split at h3
    · split at h3
      · cases h3
      · cases h3; intro h; cases h
    · split at h3
      · cases h3
      · cases h3; intro h; cases h

/-! ### an error of the loader is an error of the command -/

theorem runCheck_load_error (fs : Loader.FileSys) (f : Flags) {e : Loader.LoadErr Syntax.Err}
    (h : Loader.load fs parseForLoader f.path = .error e) : runCheck fs f = .error "loading" := by
  unfold runCheck; rw [fromPath_load_error fs f.path h]; rfl

theorem runPrint_load_error (fs : Loader.FileSys) (f : Flags) {e : Loader.LoadErr Syntax.Err}
    (h : Loader.load fs parseForLoader f.path = .error e) : runPrint fs f = .error "loading" := by
  unfold runPrint; rw [fromPath_load_error fs f.path h]; rfl

theorem commodityFlag_cases (v : Option Commodity) :
    (∃ c, commodityFlag v = .ok c) ∨ commodityFlag v = .error (.error "invalid commodity") := by
  unfold commodityFlag
  split
  · exact Or.inl ⟨_, rfl⟩
  · split
    · exact Or.inl ⟨_, rfl⟩
    · split
      · exact Or.inl ⟨_, rfl⟩
      · exact Or.inr rfl

theorem runBalance_load_error (fs : Loader.FileSys) (f : Flags) {e : Loader.LoadErr Syntax.Err}
    (h : Loader.load fs parseForLoader f.path = .error e) : ∃ w, runBalance fs f = .error w := by
  unfold runBalance; rw [fromPath_load_error fs f.path h]
  rcases commodityFlag_cases f.balance.valuation with ⟨c, hc⟩ | hc <;> rw [hc] <;> exact ⟨_, rfl⟩

theorem runTranscode_load_error (fs : Loader.FileSys) (f : Flags) {e : Loader.LoadErr Syntax.Err}
    (h : Loader.load fs parseForLoader f.path = .error e) : ∃ w, runTranscode fs f = .error w := by
  unfold runTranscode
  rcases commodityFlag_cases f.valuation with ⟨c, hc⟩ | hc <;> rw [hc]
  · cases c with
    | none => exact ⟨_, rfl⟩
    | some v => simp only [fromPath_load_error fs f.path h]; exact ⟨_, rfl⟩
  · exact ⟨_, rfl⟩

theorem runInfer_load_error (fs : Loader.FileSys) (f : Flags) {e : Loader.LoadErr Syntax.Err}
    (h : Loader.load fs parseForLoader f.training = .error e) : runInfer fs f = .error "loading" := by
  unfold runInfer; rw [h]

/-- `m` does not carry a success value in its error channel -/
def NoOk {α : Type} (m : M α) : Prop := ∀ s, m ≠ .error (.ok s)

theorem NoOk.ok {α : Type} (a : α) : NoOk (.ok a : M α) := fun _ h => by cases h
theorem NoOk.pure {α : Type} (a : α) : NoOk (pure a : M α) := fun _ h => by cases h
theorem NoOk.err {α : Type} (w : String) : NoOk (.error (.error w) : M α) := fun _ h => by cases h

theorem NoOk.bind' {α β : Type} {m : M α} {f : α → M β} (h1 : NoOk m) (h2 : ∀ a, m = .ok a → NoOk (f a)) :
    NoOk (m >>= f) := by
  intro s h
  cases m with
  | error e =>
    have : (Except.error e : M β) = .error (.ok s) := h
    cases this; exact h1 s rfl
  | ok a => exact h2 a rfl s h

theorem NoOk.bind {α β : Type} {m : M α} {f : α → M β} (h1 : NoOk m) (h2 : ∀ a, NoOk (f a)) :
    NoOk (m >>= f) := NoOk.bind' h1 (fun a _ => h2 a)

theorem NoOk.map {α β : Type} {m : M α} (f : α → β) (h : NoOk m) : NoOk (f <$> m) := by
  intro s hs
  cases m with
  | error e =>
    have : (Except.error e : M β) = .error (.ok s) := hs
    cases this; exact h s rfl
  | ok a => cases hs

theorem NoOk.map' {α β : Type} {m : M α} (f : α → β) (h : NoOk m) : NoOk (m.map f) := by
  intro s hs
  cases m with
  | error e =>
    have : (Except.error e : M β) = .error (.ok s) := hs
    cases this; exact h s rfl
  | ok a => cases hs

theorem NoOk.mapM {α β : Type} {f : α → M β} : ∀ {l : List α}, (∀ x ∈ l, NoOk (f x)) → NoOk (l.mapM f)
  | [], _ => by simpa using NoOk.pure _
  | x :: xs, h => by
    rw [List.mapM_cons]
    refine NoOk.bind (h x List.mem_cons_self) fun b => ?_
    refine NoOk.bind (NoOk.mapM fun y hy => h y (List.mem_cons_of_mem _ hy)) fun bs => ?_
    exact NoOk.pure _

theorem elabDate_noOk (text : Bytes) (d : Syntax.Date) : NoOk (elabDate text d) := by
  unfold elabDate; split
  · exact NoOk.ok _
  · exact NoOk.err _

theorem elabDecimal_noOk (text : Bytes) (d : Syntax.Decimal) : NoOk (elabDecimal text d) := by
  unfold elabDecimal; split
  · exact NoOk.ok _
  · exact NoOk.err _

theorem elabAccount_noOk (text : Bytes) (a : Syntax.Account) : NoOk (elabAccount text a) := by
  unfold elabAccount; simp only; split
  · exact NoOk.ok _
  · exact NoOk.err _

theorem elabCommodity_noOk (text : Bytes) (c : Syntax.Commodity) : NoOk (elabCommodity text c) := by
  unfold elabCommodity; simp only; split
  · exact NoOk.ok _
  · exact NoOk.err _

theorem elabBooking_noOk (text : Bytes) (b : Syntax.Booking) : NoOk (elabBooking text b) := by
  unfold elabBooking
  exact NoOk.bind (elabDecimal_noOk _ _) fun _ => NoOk.bind (elabCommodity_noOk _ _) fun _ => NoOk.pure _

theorem elabAccrual_noOk (text : Bytes) (a : Syntax.Accrual) : NoOk (elabAccrual text a) := by
  unfold elabAccrual
  refine NoOk.bind (elabDate_noOk _ _) fun _ => NoOk.bind (elabDate_noOk _ _) fun _ => ?_
  split
  · exact NoOk.err _
  · exact NoOk.pure _

theorem elabAccrualOpt_noOk (text : Bytes) (t : Syntax.Transaction) : NoOk (elabAccrualOpt text t) := by
  unfold elabAccrualOpt; split
  · exact NoOk.pure _
  · exact NoOk.map' _ (elabAccrual_noOk _ _)

theorem elabTargets_noOk (text : Bytes) (t : Syntax.Transaction) : NoOk (elabTargets text t) := by
  unfold elabTargets; split
  · exact NoOk.pure _
  · exact NoOk.map' _ (NoOk.mapM fun _ _ => elabCommodity_noOk _ _)

theorem txInput_noOk (text : Bytes) (t : Syntax.Transaction) : NoOk (txInput text t) := by
  unfold txInput
  refine NoOk.bind (elabDate_noOk _ _) fun _ => ?_
  refine NoOk.bind (NoOk.mapM fun _ _ => elabBooking_noOk _ _) fun _ => ?_
  refine NoOk.bind (elabTargets_noOk _ _) fun _ => ?_
  exact NoOk.bind (elabAccrualOpt_noOk _ _) fun _ => NoOk.pure _

theorem elabBalance_noOk (text : Bytes) (b : Syntax.Balance) : NoOk (elabBalance text b) := by
  unfold elabBalance
  exact NoOk.bind (elabAccount_noOk _ _) fun _ => NoOk.bind (elabDecimal_noOk _ _) fun _ =>
    NoOk.bind (elabCommodity_noOk _ _) fun _ => NoOk.pure _

theorem elabTransaction_noOk (text : Bytes) (t : Syntax.Transaction) : NoOk (elabTransaction text t) := by
  unfold elabTransaction
  refine NoOk.bind (txInput_noOk _ _) fun inp => ?_
  cases Accrual.create inp with
  | ok txs => exact NoOk.pure _
  | error => exact NoOk.err _
  | panic site => intro s h; cases h

theorem elabDirective_noOk (text : Bytes) (d : Syntax.Directive) : NoOk (elabDirective text d) := by
  unfold elabDirective
  split
  · exact elabTransaction_noOk text _
  · exact NoOk.bind (elabAccount_noOk _ _) fun _ => NoOk.bind (elabDate_noOk _ _) fun _ => NoOk.pure _
  · exact NoOk.bind (elabAccount_noOk _ _) fun _ => NoOk.bind (elabDate_noOk _ _) fun _ => NoOk.pure _
  · exact NoOk.bind (elabDate_noOk _ _) fun _ =>
      NoOk.bind (NoOk.mapM fun _ _ => elabBalance_noOk _ _) fun _ => NoOk.pure _
  · exact NoOk.bind (elabDate_noOk _ _) fun _ => NoOk.bind (elabCommodity_noOk _ _) fun _ =>
      NoOk.bind (elabDecimal_noOk _ _) fun _ => NoOk.bind (elabCommodity_noOk _ _) fun _ => NoOk.pure _
  · exact NoOk.pure _

theorem elabFile_noOk (tf : Bytes × Syntax.File) : NoOk (elabFile tf) := by
  unfold elabFile
  exact NoOk.map' _ (NoOk.mapM fun d _ => elabDirective_noOk _ d)

/-- an error of `journal.FromPath` is an error or a panic, never a success value -/
theorem fromPath_noOk (fs : Loader.FileSys) (path : Loader.Path) : NoOk (fromPath fs path) := by
  unfold fromPath
  cases h : Loader.load fs parseForLoader path with
  | error e => exact NoOk.err _
  | ok files => exact NoOk.map' _ (NoOk.mapM fun pf _ => elabFile_noOk _)

theorem mapM_error_of_mem {α β : Type} {f : α → M β} : ∀ {l : List α} {x : α} {e : CmdOutcome},
    x ∈ l → f x = .error e → ∃ e', l.mapM f = .error e'
  | y :: ys, x, e, hx, he => by
    rw [List.mapM_cons]
    cases hy : f y with
    | error e1 => exact ⟨e1, rfl⟩
    | ok b =>
      rcases List.mem_cons.mp hx with rfl | hin
      · rw [hy] at he; cases he
      · obtain ⟨e', h'⟩ := mapM_error_of_mem (l := ys) hin he
        refine ⟨e', ?_⟩
        rw [h']
        rfl

/-- an error while elaborating any loaded file (invalid date, amount, account, commodity, accrual) is an error of
`journal.FromPath` -/
theorem fromPath_error_of_file (fs : Loader.FileSys) (path : Loader.Path) :
    ∀ files, Loader.load fs parseForLoader path = .ok files → ∀ pf ∈ files, ∀ e, elabFile pf.2 = .error e →
      ∃ e', fromPath fs path = .error e' := by
  intro files hl pf hpf e he
  obtain ⟨e', h'⟩ := mapM_error_of_mem (f := fun (pf : Loader.Path × Bytes × Syntax.File) => elabFile pf.2) hpf he
  refine ⟨e', ?_⟩
  simp only [fromPath, hl, h']
  rfl

theorem ofExcept_bind_error {α : Type} {m : M α} {f : α → M CmdOutcome} {e : CmdOutcome} (h : m = .error e) :
    ofExcept (m >>= f) = e := by rw [h]; rfl

theorem commodityFlag_noOk (v : Option Commodity) : NoOk (commodityFlag v) := by
  rcases commodityFlag_cases v with ⟨c, hc⟩ | hc <;> rw [hc]
  · exact NoOk.ok _
  · exact NoOk.err _

theorem cls_ne_ok_of_error {m : M CmdOutcome} {e : CmdOutcome} (h : m = .error e) (he : ∀ s, e ≠ .ok s) :
    (ofExcept m).cls ≠ .ok := by
  subst h
  cases e with
  | ok s => exact absurd rfl (he s)
  | error w => intro h'; cases h'
  | panic s => intro h'; cases h'

theorem fromPath_error_not_ok (fs : Loader.FileSys) (path : Loader.Path) {e : CmdOutcome}
    (h : fromPath fs path = .error e) : ∀ s, e ≠ .ok s :=
  fun s hs => fromPath_noOk fs path s (by rw [h, hs])

/-- a journal command whose `journal.FromPath` fails does not succeed -/
theorem runCheck_fromPath_error (fs : Loader.FileSys) (f : Flags) {e : CmdOutcome} (h : fromPath fs f.path = .error e) :
    (runCheck fs f).cls ≠ .ok := by
  unfold runCheck
  exact cls_ne_ok_of_error (e := e) (by rw [h]; rfl) (fromPath_error_not_ok fs f.path h)

theorem runPrint_fromPath_error (fs : Loader.FileSys) (f : Flags) {e : CmdOutcome} (h : fromPath fs f.path = .error e) :
    (runPrint fs f).cls ≠ .ok := by
  unfold runPrint
  exact cls_ne_ok_of_error (e := e) (by rw [h]; rfl) (fromPath_error_not_ok fs f.path h)

theorem runBalance_fromPath_error (fs : Loader.FileSys) (f : Flags) {e : CmdOutcome} (h : fromPath fs f.path = .error e) :
    (runBalance fs f).cls ≠ .ok := by
  unfold runBalance
  rcases commodityFlag_cases f.balance.valuation with ⟨c, hc⟩ | hc
  · exact cls_ne_ok_of_error (e := e) (by rw [hc, h]; rfl) (fromPath_error_not_ok fs f.path h)
  · rw [hc]; intro h'; cases h'

theorem runTranscode_fromPath_error (fs : Loader.FileSys) (f : Flags) {e : CmdOutcome} (h : fromPath fs f.path = .error e) :
    (runTranscode fs f).cls ≠ .ok := by
  unfold runTranscode
  rcases commodityFlag_cases f.valuation with ⟨c, hc⟩ | hc
  · rw [hc]
    cases c with
    | none => intro h'; cases h'
    | some v => exact cls_ne_ok_of_error (e := e) (by rw [h]; rfl) (fromPath_error_not_ok fs f.path h)
  · rw [hc]; intro h'; cases h'

end Knut.Commands
