/-!
# In-place rewrites: `formatFile`, `infer --inplace` and `natefinch/atomic.WriteFile` as a file-system state machine

`commands.formatRunner.formatFile` and `commands.inferRunner.execute` read the target, parse it, render the
result completely into a `bytes.Buffer` and hand that buffer to `atomic.WriteFile(target, &buf)`
(github.com/natefinch/atomic v1.0.1), whose operation sequence is

    TempFile(dir, base)          openat(O_CREAT|O_EXCL, 0600) of a fresh name next to the target
    io.Copy(f, r)                write(2) until everything is written or an error occurs
    f.Sync()                     fsync
    f.Close()                    close
    os.Stat(target)              absent: skip the mode copy;  other error: fail
    os.Stat(temp)
    os.Chmod(temp, mode)         only if the modes differ
    os.Rename(temp, target)      (preceded by an lstat of the target whose error is ignored)
    on any error:  os.Remove(temp), its own error ignored

The file system is a finite map path ↦ (content, mode).  A *scenario* says which operation fails (injected
error), what the file-size limit is (a write that exceeds it writes up to the limit and then fails) and
whether the clean-up `Remove` fails too.  The model returns *every* intermediate state (a crash — the process
is killed — leaves the file system in one of them; a write that is cut short passes through every prefix
length), the final state and the outcome.
-/
namespace Knut.AtomicWrite

abbrev Path := String
abbrev Bytes := List UInt8

structure File where
  content : Bytes
  mode : Nat
  deriving DecidableEq, Repr

/-- the directory: association list, first match counts -/
abbrev FS := List (Path × File)

def FS.get (fs : FS) (p : Path) : Option File :=
  match fs with
  | [] => none
  | (q, f) :: rest => if q = p then some f else FS.get rest p

def FS.del (fs : FS) (p : Path) : FS :=
  match fs with
  | [] => []
  | (q, f) :: rest => if q = p then FS.del rest p else (q, f) :: FS.del rest p

def FS.set (fs : FS) (p : Path) (f : File) : FS := (p, f) :: FS.del fs p

/-- the operations that can fail, in program order -/
inductive Op
  | read | parse | createTemp | write | fsync | close | statTarget | statTemp | chmod | rename | unlink
  deriving DecidableEq, Repr

def Op.name : Op → String
  | .read => "read" | .parse => "parse" | .createTemp => "createTemp" | .write => "write" | .fsync => "fsync"
  | .close => "close" | .statTarget => "statTarget" | .statTemp => "statTemp" | .chmod => "chmod"
  | .rename => "rename" | .unlink => "unlink"

/-- the operation sequence of `atomic.WriteFile` (compared with the calls extracted from the pinned source) -/
def writeFileOps : List String := ["TempFile", "Copy", "Sync", "Close", "Stat", "Stat", "Chmod", "ReplaceFile"]

structure Scenario where
  /-- the operation whose system call returns an injected error -/
  fault : Option Op := none
  /-- RLIMIT_FSIZE in bytes: a write beyond it stores the bytes up to the limit, then fails (EFBIG) -/
  limit : Option Nat := none
  /-- the `os.Remove(temp)` of the error path fails too (its error is ignored by the code) -/
  unlinkFails : Bool := false
  deriving Repr

inductive Outcome
  | ok
  | error (op : Op)
  deriving DecidableEq, Repr

structure Run where
  /-- every file-system state the run passes through, in order (the first is the initial state); a function of
  `Unit` so that running the model for its result does not build the (quadratically large) list -/
  states : Unit → List FS
  final : FS
  outcome : Outcome

/-- error path of `WriteFile`: the deferred `os.Remove(temp)` -/
def cleanup (sc : Scenario) (tmp : Path) (states : Unit → List FS) (fs : FS) (op : Op) : Run :=
  if sc.unlinkFails then { states := states, final := fs, outcome := .error op }
  else { states := fun _ => states () ++ [FS.del fs tmp], final := FS.del fs tmp, outcome := .error op }

/-- how many bytes of `new` reach the temp file -/
def written (sc : Scenario) (new : Bytes) : Nat :=
  if sc.fault = some .write then 0
  else match sc.limit with
    | none => new.length
    | some l => min l new.length

/-- the states up to the end of `io.Copy`: initial, temp created, then the temp file growing byte by byte
up to the `written sc new` bytes that reach it -/
def copyStates (sc : Scenario) (tmp : Path) (new : Bytes) (fs0 : FS) : List FS :=
  [fs0, FS.set fs0 tmp ⟨[], 0o600⟩] ++
    (List.range (written sc new + 1)).map (fun j => FS.set fs0 tmp ⟨new.take j, 0o600⟩)

/-- `atomic.WriteFile(target, new)`; `tmp` is the fresh name `TempFile` picked -/
def writeFile (sc : Scenario) (tmp target : Path) (new : Bytes) (fs0 : FS) : Run :=
  -- TempFile
  if sc.fault = some .createTemp then { states := fun _ => [fs0], final := fs0, outcome := .error .createTemp } else
  -- io.Copy
  let k := written sc new
  let fs2 := FS.set fs0 tmp ⟨new.take k, 0o600⟩
  let st2 : Unit → List FS := fun _ => copyStates sc tmp new fs0
  if k < new.length ∨ sc.fault = some .write then cleanup sc tmp st2 fs2 .write else
  if sc.fault = some .fsync then cleanup sc tmp st2 fs2 .fsync else
  if sc.fault = some .close then cleanup sc tmp st2 fs2 .close else
  -- copy the mode of the target
  if sc.fault = some .statTarget then cleanup sc tmp st2 fs2 .statTarget else
  match FS.get fs2 target with
  | none =>
    -- no original file: keep 0600
    if sc.fault = some .rename then cleanup sc tmp st2 fs2 .rename else
    let fs4 := FS.set (FS.del fs2 tmp) target ⟨new, 0o600⟩
    { states := fun _ => st2 () ++ [fs4], final := fs4, outcome := .ok }
  | some old =>
    if sc.fault = some .statTemp then cleanup sc tmp st2 fs2 .statTemp else
    if sc.fault = some .chmod ∧ old.mode ≠ 0o600 then cleanup sc tmp st2 fs2 .chmod else
    let fs3 := FS.set fs2 tmp ⟨new, old.mode⟩
    if sc.fault = some .rename then cleanup sc tmp (fun _ => st2 () ++ [fs3]) fs3 .rename else
    let fs4 := FS.set (FS.del fs3 tmp) target ⟨new, old.mode⟩
    { states := fun _ => st2 () ++ [fs3, fs4], final := fs4, outcome := .ok }

/-- `formatFile` / `infer -i` on one target: read, parse + render (`render = none`: parse error), write.
`render` is the formatter resp. the inference + formatter; it is a parameter here (its model is C08's / C15's). -/
def rewriteFile (render : Bytes → Option Bytes) (sc : Scenario) (tmp target : Path) (fs : FS) : Run :=
  if sc.fault = some .read then { states := fun _ => [fs], final := fs, outcome := .error .read } else
  match FS.get fs target with
  | none => { states := fun _ => [fs], final := fs, outcome := .error .read }
  | some f =>
    match render f.content with
    | none => { states := fun _ => [fs], final := fs, outcome := .error .parse }
    | some new => writeFile sc tmp target new fs

structure Job where
  sc : Scenario
  tmp : Path
  target : Path

/-- `knut format f1 f2 …`: every file is handled on its own (`iter.Map`); the model runs them one after the
other (they touch disjoint paths, see `C18_files_independent`) -/
def rewriteAll (render : Bytes → Option Bytes) : List Job → FS → FS × List Outcome
  | [], fs => (fs, [])
  | j :: js, fs =>
    let r := rewriteFile render j.sc j.tmp j.target fs
    let rest := rewriteAll render js r.final
    (rest.1, r.outcome :: rest.2)

/-- the outcome of `writeFile` as a function of the scenario, the new content and the old target alone -/
def writeOutcome (sc : Scenario) (new : Bytes) (old : Option File) : Outcome :=
  if sc.fault = some .createTemp then .error .createTemp else
  if written sc new < new.length ∨ sc.fault = some .write then .error .write else
  if sc.fault = some .fsync then .error .fsync else
  if sc.fault = some .close then .error .close else
  if sc.fault = some .statTarget then .error .statTarget else
  match old with
  | none => if sc.fault = some .rename then .error .rename else .ok
  | some o =>
    if sc.fault = some .statTemp then .error .statTemp else
    if sc.fault = some .chmod ∧ o.mode ≠ 0o600 then .error .chmod else
    if sc.fault = some .rename then .error .rename else .ok

/-- the command's exit status: 0 iff every file succeeded -/
def exitOK (os : List Outcome) : Bool := os.all (fun o => o == .ok)

/-! ### the property predicate (evaluated on the real file system after a real run) -/

def isOld (old observed : Option File) : Bool := observed == old

def isNew (old : Option File) (new : Option Bytes) (observed : Option File) : Bool :=
  match new, observed with
  | some n, some f => f.content == n && (match old with | some o => f.mode == o.mode | none => f.mode == 0o600)
  | _, _ => false

/-- `old`: the target before the command (`none`: did not exist); `new`: what a fault-free run writes
(`none`: the file does not parse, so nothing may be written); `observed`: the target after the run;
`status`: `some true` — this file's rewrite reported success, `some false` — it reported an error,
`none` — not known (several files, the command failed).
All-or-nothing: old or new, never anything else; success means new; an error means old. -/
def allOrNothing (old : Option File) (new : Option Bytes) (observed : Option File) (status : Option Bool) : Bool :=
  (isOld old observed || isNew old new observed) &&
  (match status with
   | some true => isNew old new observed
   | some false => isOld old observed
   | none => true) &&
  (new.isSome || isOld old observed)

/-- no stray files: the directory holds exactly the names it held before -/
def sameNames (before after : List Path) : Bool :=
  before.all (fun p => after.contains p) && after.all (fun p => before.contains p)

end Knut.AtomicWrite
