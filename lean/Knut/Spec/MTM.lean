import Knut.Model.Balance
/-!
# Mark-to-market specification (property C03)

`mtm v days a D` = Σ over commodities of (running quantity of `a` on day `D`) × (price on day `D`),
computed directly from the journal: quantities by summation over all bookings dated ≤ `D`, prices by
normalising the declarations dated ≤ `D` (`Prices.normalize`, property C12).  No truncation anywhere:
the report may deviate by at most 10⁻⁸ per valuation step (`stepBound`, proved in `Properties/C03Report.lean`).
`bookingValue` / `flowAt`: the bookings of an account valued at the price of their own day (income, expenses, equity).
-/
namespace Knut.Spec
open Knut

def userPostings (days : List Day) : List (Int × Posting) :=
  days.flatMap (fun d => d.transactions.flatMap (fun t => t.postings.map (fun p => (t.date, p))))

/-- running quantity of position (a, c) at the end of day `D` -/
def qtyAt (days : List Day) (a : Account) (c : Commodity) (D : Int) : Rat :=
  (((userPostings days).filter (fun (d, p) => decide (d ≤ D) && p.account = a && p.commodity = c)).map (fun x => x.2.quantity)).sum

/-- the price graph after all declarations dated ≤ `D`; `none` if a zero price was declared -/
def graphAt (days : List Day) (D : Int) : Option Prices.Prices :=
  (days.filter (fun d => d.date ≤ D)).foldlM (fun g d =>
    d.prices.foldlM (fun g p => Prices.insert g ⟨p.commodity, p.price, p.target⟩) g) []

/-- normalised prices in `v` on day `D` (`none` before the first price declaration, as in `ComputePrices`) -/
def pricesAt (v : Commodity) (days : List Day) (D : Int) : Option Prices.NPrices :=
  if (days.filter (fun d => d.date ≤ D)).all (fun d => d.prices.isEmpty) then none
  else (graphAt days D).map (fun g => Prices.normalize g v)

def commoditiesOf (days : List Day) (a : Account) : List Commodity :=
  (((userPostings days).filter (fun (_, p) => p.account = a)).map (fun x => x.2.commodity)).eraseDups

/-- exact mark-to-market value of account `a` at the end of day `D`; `none` if a needed price is missing -/
def mtm (v : Commodity) (days : List Day) (a : Account) (D : Int) : Option Rat :=
  (commoditiesOf days a).foldlM (fun acc c =>
    let q := qtyAt days a c D
    if q = 0 then some acc
    else if c = v then some (acc + q)
    else match pricesAt v days D with
      | none => none
      | some np => (Prices.find c np).map (fun p => acc + q * p)) 0

/-- (superseded by `stepBound`, kept for reference: the generous count the monitor used before the bound was proved)
number of valuation steps that can each lose < 10⁻⁸: bookings on `a` dated in `(F, D]` plus one
revaluation per (day with a price declaration in `(F, D]`, commodity of `a`) -/
def steps (days : List Day) (a : Account) (F D : Int) : Nat :=
  ((userPostings days).filter (fun (d, p) => decide (F < d) && decide (d ≤ D) && p.account = a)).length +
  ((days.filter (fun d => decide (F < d.date) && decide (d.date ≤ D) && !d.prices.isEmpty)).length + 1) * (commoditiesOf days a).length

/-- truncations inside `(F, D]` on the position `(a, c)`, as an explicit function of the journal: one per non-zero
booking on it, at most one revaluation per day carrying a price declaration; none in the valuation commodity itself
(`Properties/C03Report.lean` proves that the pipeline's step count is at most this) -/
def stepCount (v : Commodity) (days : List Day) (a : Account) (F D : Int) (c : Commodity) : Nat :=
  if c = v then 0 else
    ((userPostings days).filter (fun (d, p) => decide (F < d) && decide (d ≤ D) && decide (p.account = a) &&
        decide (p.commodity = c) && decide (p.quantity ≠ 0))).length +
    (days.filter (fun d => decide (F < d.date) && decide (d.date ≤ D) && !d.prices.isEmpty)).length

/-- the bound of the whole account row: the sum over the account's commodities -/
def stepBound (v : Commodity) (days : List Day) (a : Account) (F D : Int) : Nat :=
  ((commoditiesOf days a).map (stepCount v days a F D)).sum

/-- the value `Valuate` gives a booking on its own day `d`: the quantity itself in the valuation commodity, else
`Truncate₈(quantity × normalised price of the declarations dated ≤ d)`; `none` if there is no such price -/
def bookingValue (v : Commodity) (days : List Day) (d : Int) (p : Posting) : Option Rat :=
  if p.quantity = 0 then some 0
  else if p.commodity = v then some p.quantity
  else match pricesAt v days d with
    | none => none
    | some np => (Prices.find p.commodity np).map (fun pr => Prices.multiply p.quantity pr)

/-- the bookings on account `b` dated in `(F, D]`, each valued at the price of its own day, summed -/
def flowAt (v : Commodity) (days : List Day) (b : Account) (F D : Int) : Option Rat :=
  (((userPostings days).filter (fun (x : Int × Posting) => decide (F < x.1) && decide (x.1 ≤ D) && decide (x.2.account = b))).mapM
    (fun x => bookingValue v days x.1 x.2)).map List.sum

/-- the bookings on the accounts selected by `sel` dated in `(F, D]`, each valued at the price of its own day, summed
(`flowAt v days b` is `flowSel v days (· = b)`) -/
def flowSel (v : Commodity) (days : List Day) (sel : Account → Bool) (F D : Int) : Option Rat :=
  (((userPostings days).filter (fun (x : Int × Posting) => decide (F < x.1) && decide (x.1 ≤ D) && sel x.2.account)).mapM
    (fun x => bookingValue v days x.1 x.2)).map List.sum

def alAccounts (days : List Day) : List Account :=
  (((userPostings days).map (fun x => x.2.account)).filter (·.isAL)).eraseDups

/-- the asset/liability accounts of the journal whose value adjustments are booked against the income account `g`
(`Registry.ValuationAccountFor`: `Income:` + the account's path without its first segment) -/
def mirrored (days : List Day) (g : Account) : List Account :=
  (alAccounts days).filter (fun a => decide (valuationAccountFor a = g))

/-- … and their bookings in `(F, D]` valued at booking-day prices, summed over the accounts -/
def flowOver (v : Commodity) (days : List Day) (S : List Account) (F D : Int) : Option Rat :=
  (S.mapM (fun a => flowAt v days a F D)).map List.sum

/-! ### mapped / collapsed rows (`-m`, `--remap`, `--account`) and per-commodity rows (`-s`) -/

/-- the accounts of the journal selected by `sel` (for a report row `r`: the accounts that pass `--account` and that
`--remap` followed by `-m` turns into `r`), each once -/
def sourceAccounts (sel : Account → Bool) (days : List Day) : List Account :=
  (((userPostings days).map (fun x => x.2.account)).eraseDups).filter sel

/-- exact mark-to-market value of a set of accounts: the sum of `mtm` over them; `none` if one of them is undefined -/
def mtmOver (v : Commodity) (days : List Day) (S : List Account) (D : Int) : Option Rat :=
  (S.mapM (fun a => mtm v days a D)).map List.sum

/-- the step bound of a set of accounts: the sum of `stepBound` over them -/
def stepBoundOver (v : Commodity) (days : List Day) (S : List Account) (F D : Int) : Nat :=
  (S.map (fun a => stepBound v days a F D)).sum

/-- exact value of the single position `(a, c)` at the end of day `D`: quantity × normalised price (the quantity itself
in the valuation commodity, 0 for an empty position); `none` if the position is open and has no price -/
def mtmPos (v : Commodity) (days : List Day) (a : Account) (c : Commodity) (D : Int) : Option Rat :=
  let q := qtyAt days a c D
  if q = 0 then some 0
  else if c = v then some q
  else match pricesAt v days D with
    | none => none
    | some np => (Prices.find c np).map (fun p => q * p)

/-- … summed over a set of accounts -/
def mtmPosOver (v : Commodity) (days : List Day) (S : List Account) (c : Commodity) (D : Int) : Option Rat :=
  (S.mapM (fun a => mtmPos v days a c D)).map List.sum

def stepCountOver (v : Commodity) (days : List Day) (S : List Account) (F D : Int) (c : Commodity) : Nat :=
  (S.map (fun a => stepCount v days a F D c)).sum

end Knut.Spec
