import Knut.Model.BalanceCmd
/-!
# Model of `lib/journal/performance` and `knut portfolio returns` (exact arithmetic)

The Go code computes with `float64`; the model computes with exact rationals (`Rat`). What a float computation
cannot deliver exactly (rounding, summation order) is outside the model; a division by zero, which yields
`±Inf`/`NaN` in Go, is the explicit outcome `none` ("undefined") here.

Pipeline of both portfolio commands (cmd/commands/portfolio): the period end days are registered in the builder,
then per day `ComputePrices(v)`, `check`, `Valuate(v)` (the stages of `Knut.Model.Balance`; without `-v` the first and
the last are absent and all values are 0), `ComputeValues`, then `ComputeFlows` + `Perf` (returns) or the weights
query (see `Knut.Model.Weights`).
-/
namespace Knut.Performance
open Knut

/-- `performance.Calculator` -/
structure Cfg where
  valuation : Option Commodity := none
  accountFilter : String → Bool := fun _ => true
  commodityFilter : String → Bool := fun _ => true

/-- `Calculator.isPortfolioAccount` -/
def isPortfolio (cfg : Cfg) (a : Account) : Bool := a.isAL && cfg.accountFilter a.name

/-- `ComputePrices, check, Valuate` on one day: the day's transactions, valued and with the value adjustments -/
def valuedDay (cfg : Cfg) (st : BalState) (d : Day) : Except BalErr (BalState × List Transaction) :=
  match cfg.valuation with
  | none => do
    let st ← Balance.checkStage st d
    .ok (st, d.transactions)
  | some v => do
    let st ← Balance.pricesDay v st d
    let st ← Balance.checkStage st d
    Balance.valuateDay v st d

/-- `ComputeValues.Posting`: the running value per commodity of the portfolio accounts; zero entries are deleted -/
def valuesStep (cfg : Cfg) (vals : AMap Commodity Rat) (p : Posting) : AMap Commodity Rat :=
  if !cfg.commodityFilter p.commodity then vals
  else if !isPortfolio cfg p.account then vals
  else
    let nv := vals.get p.commodity 0 + p.value
    if nv = 0 then vals.erase p.commodity else vals.set p.commodity nv

def valuesDay (cfg : Cfg) (vals : AMap Commodity Rat) (txs : List Transaction) : AMap Commodity Rat :=
  txs.foldl (fun v t => t.postings.foldl (valuesStep cfg) v) vals

/-- `pickTargets`: `Commodity.IsCurrency` is never set by the command line (`TagCurrency` has no caller), so a non-empty
target list is returned as it is; `none` = no `@performance` annotation, `some []` = `@performance()` -/
def pickTargets (tg : Option (List Commodity)) : Option (List Commodity) := tg

/-- flows of one transaction: regular flows per commodity, and the change of `portfolioFlows`
(`InternalInflow/InternalOutflow` are computed by the code but never read) -/
def txFlowStep (cfg : Cfg) (tg : Option (List Commodity)) (acc : AMap Commodity Rat × Rat) (p : Posting) : AMap Commodity Rat × Rat :=
  if !isPortfolio cfg p.account then acc
  else if isPortfolio cfg p.other then acc
  else if tg = some [p.commodity] then acc
  else match tg with
    | none => (acc.1.set p.commodity (acc.1.get p.commodity 0 + p.value), acc.2)
    | some [] => (acc.1, acc.2 - p.value)
    | some _ => acc

def txFlows (cfg : Cfg) (t : Transaction) : AMap Commodity Rat × Rat :=
  t.postings.foldl (txFlowStep cfg (pickTargets t.targets)) ([], 0)

def sumVals (m : AMap Commodity Rat) : Rat := (m.map (·.2)).sum

/-- `journal.Performance` of one day, as far as `Performance()` reads it: the sums of V0, V1, Inflow, Outflow and the
portfolio flows; `split` adds a transaction's positive per-commodity flows to Inflow and the negative ones to Outflow -/
structure DayPerf where
  date : Int
  v0 : AMap Commodity Rat
  v1 : AMap Commodity Rat
  inflow : Rat          -- Σ Inflow (≥ 0)
  outflow : Rat         -- Σ Outflow (≤ 0)
  portfolioFlows : Rat
  deriving Repr

def posPart (m : AMap Commodity Rat) : Rat := ((m.map (·.2)).filter (fun f => decide (0 < f))).sum
def negPart (m : AMap Commodity Rat) : Rat := ((m.map (·.2)).filter (fun f => decide (f < 0))).sum

/-- `ComputeFlows` over the day's transactions -/
def dayFlows (cfg : Cfg) (txs : List Transaction) : Rat × Rat × Rat :=
  txs.foldl (fun (acc : Rat × Rat × Rat) t =>
    let f := txFlows cfg t
    (acc.1 + posPart f.1, acc.2.1 + negPart f.1, acc.2.2 + f.2)) (0, 0, 0)

/-- `performance.Performance`: the day's growth factor `(V1 − outflow) / (V0 + inflow)`; `none` = division by zero -/
def factor (p : DayPerf) : Option Rat :=
  let v0 := sumVals p.v0
  let v1 := sumVals p.v1
  let inflow := (if 0 < p.portfolioFlows then p.portfolioFlows else 0) + p.inflow
  let outflow := (if p.portfolioFlows < 0 then p.portfolioFlows else 0) + p.outflow
  if v0 = v1 ∧ inflow = 0 ∧ outflow = 0 then some 1
  else if v0 + inflow = 0 then none
  else some ((v1 - outflow) / (v0 + inflow))

/-- state carried from day to day -/
structure PState where
  bal : BalState := {}
  values : AMap Commodity Rat := []     -- `ComputeValues`: values
  prev : AMap Commodity Rat := []       -- `ComputeValues`: prev (V1 of the previous day)

/-- one day through `ComputePrices, check, Valuate, ComputeValues, ComputeFlows` -/
def perfDay (cfg : Cfg) (ps : PState) (d : Day) : Except BalErr (PState × DayPerf) := do
  let (bal, txs) ← valuedDay cfg ps.bal d
  let vals := valuesDay cfg ps.values txs
  let fl := dayFlows cfg txs
  .ok ({ bal := bal, values := vals, prev := vals },
       { date := d.date, v0 := ps.prev, v1 := vals, inflow := fl.1, outflow := fl.2.1, portfolioFlows := fl.2.2 })

def perfFrom (cfg : Cfg) : PState → List Day → Except BalErr (List DayPerf)
  | _, [] => .ok []
  | ps, d :: rest => do
    let (ps', p) ← perfDay cfg ps d
    let r ← perfFrom cfg ps' rest
    .ok (p :: r)

/-- product in `Option Rat` (an undefined factor makes the running product undefined until it is reset) -/
def mulOpt (a b : Option Rat) : Option Rat :=
  match a, b with
  | some x, some y => some (x * y)
  | _, _ => none

/-- `performance.Perf`: chain the factors of the days inside the window, report and reset on period end days -/
def perfLines (span : Period) (endDates : List Int) : Option Rat → List DayPerf → List (Int × Option Rat)
  | _, [] => []
  | running, p :: rest =>
    if !span.contains p.date then perfLines span endDates running rest
    else
      let r := mulOpt running (factor p)
      if endDates.contains p.date then (p.date, r.map (· - 1)) :: perfLines span endDates (some 1) rest
      else perfLines span endDates r rest

def absR (x : Rat) : Rat := if x < 0 then -x else x

/-- the day's denominator `V0 + inflow` vanishes, exactly or up to one millionth of its operands, while the operands do
not (or all of them are zero: an empty portfolio): the exact factor is undefined, 1 by the code's special case, or decided
by the last truncated digits of the values, and the float64 arithmetic
of the code prints whatever its rounding residues give (`NaN`, `-100.0%`, `0.5%` …).  Used by the harness to tell the
known finding `returns-meaningless-when-start-value-plus-inflow-vanishes` from anything else. -/
def illConditioned (p : DayPerf) : Bool :=
  let v0 := sumVals p.v0
  let inflow := (if 0 < p.portfolioFlows then p.portfolioFlows else 0) + p.inflow
  decide (absR (v0 + inflow) * 1000000 ≤ absR v0 + absR inflow)

/-- the magnitude of the numbers the float64 arithmetic of one day adds up: the absolute values of the day's valued
postings on portfolio accounts (`ComputeFlows` sums them as floats) -/
def dayGross (cfg : Cfg) (txs : List Transaction) : Rat :=
  (((txs.flatMap (·.postings)).filter (fun p => isPortfolio cfg p.account)).map (fun p => absR p.value)).sum

def sumAbs (m : AMap Commodity Rat) : Rat := (m.map (fun e => absR e.2)).sum

/-- the day's denominator `V0 + inflow` is not zero but ten orders of magnitude below the numbers it is computed from (the
per-commodity values and the day's posting values): it is a truncation residue of offsetting positions (e.g. a portfolio
of ±265 000 CHF whose total is −0.00000001 CHF), and the rounding errors of the float64 sums (≈ 10⁻¹⁶ of the operands)
become visible in the printed tenth of a percent.  Second class of the known findings about meaningless returns
(`returns-meaningless-when-start-value-is-rounding-residue`). -/
def residueConditioned (p : DayPerf) (gross : Rat) : Bool :=
  let v0 := sumVals p.v0
  let inflow := (if 0 < p.portfolioFlows then p.portfolioFlows else 0) + p.inflow
  decide (absR (v0 + inflow) * 10000000000 ≤ sumAbs p.v0 + sumAbs p.v1 + gross)

/-- the `dayGross` of every day of a run (same traversal as `perfFrom`) -/
def grossFrom (cfg : Cfg) : PState → List Day → List Rat
  | _, [] => []
  | ps, d :: rest =>
    match valuedDay cfg ps.bal d with
    | .error _ => []
    | .ok (_, txs) =>
      match perfDay cfg ps d with
      | .error _ => []
      | .ok (ps', _) => dayGross cfg txs :: grossFrom cfg ps' rest

/-- per printed line of `perfLines`: does the period contain an ill-conditioned day (1), or else a day whose denominator
is a rounding residue (2)? (same traversal; the days come with their `dayGross`) -/
def condLines (span : Period) (endDates : List Int) : Nat → List (DayPerf × Rat) → List Nat
  | _, [] => []
  | running, (p, g) :: rest =>
    if !span.contains p.date then condLines span endDates running rest
    else
      let r := if running = 1 || illConditioned p then 1 else if running = 2 || residueConditioned p g then 2 else 0
      if endDates.contains p.date then r :: condLines span endDates 0 rest
      else condLines span endDates r rest

/-- the flags of `knut portfolio returns` (and the window flags of `weights`) -/
structure Flags where
  valuation : Option Commodity := none
  from? : Option Int := none
  to : Int
  last : Int := 0
  interval : Interval := .once
  accountFilter : String → Bool := fun _ => true
  commodityFilter : String → Bool := fun _ => true

def Flags.cfg (f : Flags) : Cfg :=
  { valuation := f.valuation, accountFilter := f.accountFilter, commodityFilter := f.commodityFilter }

inductive Res (α : Type) where
  | ok (a : α)
  | error (what : String)
  | panic (site : String)

/-- the partition of the command and the days of the built journal (with the period end days registered) -/
def setup (f : Flags) (ds : List Directive) : Res (Partition × List Day) :=
  let b := Builder.ofList ds
  match newPartition (Period.clip ⟨f.from?.getD 0, f.to⟩ ⟨b.min, b.max⟩) f.interval f.last with
  | Outcome.panic s => Res.panic s
  | Outcome.ok part => Res.ok (part, (b.ensureDays part.endDates).build)

/-- the days `Perf` looks at: inside the span of the partition and — since the repair `32cd4f9` — not before the first
reported period (`--last n` drops the earlier periods but not the span): `part.Contains(d) && !d.Before(starts[0])` -/
def perfSpan (part : Partition) : Period :=
  match part.startDates with
  | [] => part.span
  | s :: _ => ⟨if part.span.start < s then s else part.span.start, part.span.stop⟩

/-- `knut portfolio returns`: one `(period end, return)` per printed line; `none` is printed as `NaN`/`±Inf` -/
def returns (f : Flags) (ds : List Directive) : Res (List (Int × Option Rat)) :=
  match setup f ds with
  | .panic s => .panic s
  | .error e => .error e
  | .ok (part, days) =>
    match perfFrom f.cfg {} days with
    | .error _ => .error "processing"
    | .ok perfs => .ok (perfLines (perfSpan part) part.endDates (some 1) perfs)

/-- the conditioning class of the lines of `returns` (0 well-conditioned, 1 `illConditioned`, 2 `residueConditioned`) -/
def returnsCond (f : Flags) (ds : List Directive) : List Nat :=
  match setup f ds with
  | .ok (part, days) =>
    match perfFrom f.cfg {} days with
    | .ok perfs => condLines (perfSpan part) part.endDates 0 (perfs.zip (grossFrom f.cfg {} days))
    | .error _ => []
  | _ => []

end Knut.Performance
