package main

import (
	"encoding/csv"
	"fmt"
	"math"
	"math/big"
	"os"
	"path/filepath"
	"sort"
	"strconv"
	"strings"
	"time"

	"github.com/sboehler/knut/lib/common/date"
)

func init() { runners["C20"] = runC20 }

// ---------------------------------------------------------------- flags of `knut portfolio weights|returns`

type c20Uni struct {
	Class string   // "A:B"
	Coms  []string // commodities of the class
}

type c20Flags struct {
	Val       string
	From, To  int // 0 = absent (To is always set)
	Last      int
	Interval  int
	Acc, Com  []string
	Map       []MapRuleF
	SortAlpha bool
	Universe  []c20Uni // the classes of the journal's commodities
	UniText   string   // stream `universe`: the text of the universe file (Universe = what it declares for the journal's commodities)
}

func (f c20Flags) windowArgs() []string {
	var a []string
	if f.Val != "" {
		a = append(a, "-v", f.Val)
	}
	if f.From != 0 {
		a = append(a, "--from", fmtDate(f.From))
	}
	a = append(a, "--to", fmtDate(f.To))
	if f.Last != 0 {
		a = append(a, "--last", itoa(f.Last))
	}
	if f.Interval > 0 {
		a = append(a, intervalFlag[f.Interval])
	}
	for _, s := range f.Acc {
		a = append(a, "--account", s)
	}
	for _, s := range f.Com {
		a = append(a, "--commodity", s)
	}
	return a
}

func (f c20Flags) weightsArgs(universePath string) []string {
	a := f.windowArgs()
	for _, m := range f.Map {
		v := fmt.Sprintf("%d", m.Level)
		if m.Suffix != 0 {
			v = fmt.Sprintf("%d:%d", m.Level, m.Suffix)
		}
		if m.Regex != "" {
			v += "," + m.Regex
		}
		a = append(a, "-m", v)
	}
	if f.SortAlpha {
		a = append(a, "-a")
	}
	if len(f.Universe) > 0 || f.UniText != "" {
		a = append(a, "--universe", universePath)
	}
	return a
}

// balanceArgs: the valued balance over the same period ends, cumulative from the journal start (no --from / --last).
func (f c20Flags) balanceArgs() []string {
	a := []string{"--color=false", "--csv", "-s", "."}
	if f.Val != "" {
		a = append(a, "-v", f.Val)
	}
	a = append(a, "--to", fmtDate(f.To))
	if f.Interval > 0 {
		a = append(a, intervalFlag[f.Interval])
	}
	for _, s := range f.Acc {
		a = append(a, "--account", s)
	}
	for _, s := range f.Com {
		a = append(a, "--commodity", s)
	}
	return a
}

func (f c20Flags) universeYAML() string {
	if f.UniText != "" {
		return f.UniText
	}
	var b strings.Builder
	for _, u := range f.Universe {
		fmt.Fprintf(&b, "%q: [%s]\n", u.Class, strings.Join(u.Coms, ", "))
	}
	return b.String()
}

func (f c20Flags) Wire() string {
	var kv []string
	if f.Val != "" {
		kv = append(kv, "val="+f.Val)
	}
	if f.From != 0 {
		kv = append(kv, "from="+itoa(f.From))
	}
	kv = append(kv, "to="+itoa(f.To), "last="+itoa(f.Last), "iv="+itoa(f.Interval), "sort="+b2s(f.SortAlpha))
	if len(f.Acc) > 0 {
		kv = append(kv, "acc="+hexList(f.Acc))
	}
	if len(f.Com) > 0 {
		kv = append(kv, "com="+hexList(f.Com))
	}
	if len(f.Map) > 0 {
		parts := make([]string, len(f.Map))
		for i, m := range f.Map {
			p := "*"
			if m.Regex != "" {
				p = Hex(m.Regex)
			}
			parts[i] = fmt.Sprintf("%d:%d:%s", m.Level, m.Suffix, p)
		}
		kv = append(kv, "map="+strings.Join(parts, ","))
	}
	if len(f.Universe) > 0 {
		var parts []string
		for _, u := range f.Universe {
			for _, com := range u.Coms {
				segs := append(strings.Split(u.Class, ":"), com)
				hs := make([]string, len(segs))
				for i, s := range segs {
					hs[i] = Hex(s)
				}
				parts = append(parts, Hex(com)+":"+strings.Join(hs, "/"))
			}
		}
		kv = append(kv, "uni="+strings.Join(parts, ","))
	}
	return strings.Join(kv, ";")
}

// ---------------------------------------------------------------- case

type c20Case struct {
	Stream string
	Idx    int
	J      *Journal
	Text   string
	F      c20Flags
	U      *c20UFile // stream `universe`: the generated universe file
	Tags   []string
	Files  []c20File  // stream `split`: the journal as a tree of included files (Files[0] is the root)
	Envs   [][]string // stream `split`: the environments (schedule seed, GOMAXPROCS) of the runs of this case
	Env    []string   // … of this run
	RunNo  int

	RetCode             int
	RetOut, RetErr      string
	WCode               int
	WCsv, WErr          string
	WTxtCode            int
	WTxt                string
	BalCode             int
	BalOut              string
	ConstPrices, NoAnno bool
}

func (tc *c20Case) Input() map[string]any {
	in := map[string]any{"journal": tc.Text,
		"returns_args": "portfolio returns " + strings.Join(tc.F.windowArgs(), " ") + " FILE",
		"weights_args": "portfolio weights --csv " + strings.Join(tc.F.weightsArgs("UNIVERSE"), " ") + " FILE",
		"balance_args": "balance " + strings.Join(tc.F.balanceArgs(), " ") + " FILE",
		"universe":     tc.F.universeYAML(), "wire_flags": tc.F.Wire(), "wire_journal": tc.J.Wire()}
	if tc.Files != nil {
		var fs []map[string]any
		for _, f := range tc.Files {
			fs = append(fs, map[string]any{"file": f.Rel, "text": f.Body, "leading_comment_bytes": f.Pad})
		}
		in["files"], in["run"], in["env"] = fs, tc.RunNo, strings.Join(tc.Env, " ")
		in["note"] = "FILE is the first of `files`, the others are included from it; the outcome may depend on the goroutine schedule (which file's directives reach the journal builder first): a replay runs the case under all its environments"
	}
	if tc.U != nil {
		// the file is regenerated from (seed, stream, index, tier); a long one is shown shortened
		in["universe"] = c20UElide(tc.U.Text)
		in["universe_bytes"], in["universe_longest_line"], in["universe_shape"] = len(tc.U.Text), tc.U.LongLine, tc.U.Shape
		in["universe_must_be_rejected"] = tc.U.Invalid
		var decl []string
		for _, u := range tc.F.Universe {
			decl = append(decl, c20Clip(u.Class, 200)+": "+strings.Join(u.Coms, " "))
		}
		in["universe_declares_for_the_journal"] = decl
	}
	return in
}

func c20Span(j *Journal) (lo, hi int) {
	lo, hi = 1<<30, 0
	for _, d := range j.Dirs {
		lo, hi = min(lo, d.Date), max(hi, d.Date)
	}
	if hi == 0 {
		lo, hi = 737000, 737100
	}
	return
}

func c20GenCase(c *Ctx, stream string, i int) *c20Case {
	r := c.Rng(stream, i)
	val := Pick(r, []string{"CHF", "CHF", "USD", "EUR"})
	o := JGenOpts{MaxAccounts: r.Range(3, 8), MaxDays: r.Range(2, 10), Unicode: r.Chance(1, 4), BaseDay: 737000 + r.Intn(1500),
		SpanDays: Pick(r, []int{3, 20, 45, 100, 200, 400, 800}), ManyDecimals: r.Chance(1, 4), Prices: true, Valuation: val, ChainPrices: r.Chance(1, 4)}
	switch stream {
	case "malformed":
		o.Mutate = r.Chance(1, 2)
		o.DropPrices = r.Chance(1, 2)
	}
	j, tags := GenJournal(r, o)
	tc := &c20Case{Stream: stream, Idx: i, J: j, Tags: tags}
	lo, hi := c20Span(j)
	// price changes on later days (also on days without other directives)
	constPrices := stream == "external" || (stream == "portfolio" && r.Chance(1, 6))
	if constPrices {
		// keep only the first day's prices: prices never change
		var out []JDir
		for _, d := range j.Dirs {
			if d.Kind != 'p' || d.Date == lo {
				out = append(out, d)
			}
		}
		j.Dirs = out
		tc.Tags = append(tc.Tags, "constant-prices")
	} else {
		var prices []JDir
		for _, d := range j.Dirs {
			if d.Kind == 'p' {
				prices = append(prices, d)
			}
		}
		for k := r.Range(0, 6); k > 0 && len(prices) > 0; k-- {
			pd := Pick(r, prices)
			pd.Date = lo + r.Intn(hi-lo+20)
			pd.Price = fmt.Sprintf("%d.%0*d", r.Range(1, 300), r.Range(1, 3), r.Range(1, 9))
			j.Dirs = append(j.Dirs, pd)
		}
	}
	tc.ConstPrices = constPrices
	if stream == "mixed" {
		// disturbances (price changes, @performance annotations) only inside one window [a, b] of the journal's span: the
		// periods outside it satisfy the hypotheses of the 0%-clause one by one, the journal as a whole does not
		a := lo + r.Intn(hi-lo+1)
		b := a + r.Intn((hi-lo)/3+2)
		var out []JDir
		for _, d := range j.Dirs {
			if d.Date < a || d.Date > b {
				d.Targets = nil
				if d.Kind == 'p' && d.Date != lo {
					continue
				}
			}
			out = append(out, d)
		}
		j.Dirs = out
		tc.Tags = append(tc.Tags, "disturbances-in-one-window")
	}
	if stream == "external" || stream == "noflow" || (stream != "mixed" && r.Chance(1, 2)) {
		// no @performance annotations: every transaction is an external flow, an internal transfer, or irrelevant
		for k := range j.Dirs {
			j.Dirs[k].Targets = nil
		}
		tc.Tags = append(tc.Tags, "no-annotations")
	}
	if stream == "annotated" {
		c20Annotate(r, j, tc, val)
	}
	if stream == "noflow" {
		// all transactions on the first day, afterwards only price changes
		var out []JDir
		for _, d := range j.Dirs {
			if d.Kind == 'p' || d.Date == lo || d.Kind == 'o' {
				out = append(out, d)
			}
		}
		j.Dirs = out
		tc.Tags = append(tc.Tags, "no-flows-after-first-day")
	}
	if stream != "noflow" && r.Chance(1, 3) {
		c20CloseOut(r, j, tc)
	}
	tc.NoAnno = true
	for _, d := range j.Dirs {
		if d.Targets != nil {
			tc.NoAnno = false
		}
	}
	lo, hi = c20Span(j)
	accounts, coms := journalNames(j)
	var f c20Flags
	if !(stream == "malformed" && r.Chance(1, 4)) {
		f.Val = val
	}
	f.To = hi + r.Range(-(hi-lo)/3, 45)
	if r.Chance(1, 3) {
		f.From = lo + r.Range(-5, (hi-lo)/2+3)
	}
	if stream == "malformed" && f.From > 0 && r.Chance(1, 6) {
		f.From, f.To = f.To+1, f.From
	}
	f.Interval = Pick(r, []int{0, 1, 2, 2, 3, 3, 3, 4, 5})
	if hi-lo > 150 && f.Interval == 1 {
		f.Interval = 3
	}
	if (stream == "mixed" || stream == "annotated") && f.Interval == 0 {
		f.Interval = 3 // several periods
	}
	if r.Chance(1, 5) {
		f.Last = r.Range(1, 4)
	}
	if r.Chance(1, 5) {
		var al []string
		for _, a := range accounts {
			if c16IsAL(a) {
				al = append(al, a)
			}
		}
		f.Acc = []string{genPattern(r, append(al, "Assets"))}
	}
	if r.Chance(1, 6) && len(coms) > 0 {
		f.Com = []string{"^" + Pick(r, coms) + "$"}
		if r.Chance(1, 2) && len(coms) > 1 {
			f.Com[0] += "|^" + Pick(r, coms) + "$"
		}
	}
	f.SortAlpha = r.Chance(1, 2)
	if r.Chance(1, 2) && len(coms) > 0 {
		classes := []string{"Equity", "Equity:US", "Equity:CH", "Cash", "Cash:Foreign:Near", "Alt:Metal:Gold:Phys", "Bonds:Gov"}
		assigned := map[string]bool{}
		for k := r.Range(1, 3); k > 0; k-- {
			u := c20Uni{Class: Pick(r, classes)}
			for _, com := range coms {
				if !assigned[com] && r.Chance(1, 2) {
					assigned[com] = true
					u.Coms = append(u.Coms, com)
				}
			}
			dup := false
			for _, x := range f.Universe {
				dup = dup || x.Class == u.Class
			}
			if len(u.Coms) > 0 && !dup {
				f.Universe = append(f.Universe, u)
			}
		}
		if stream == "malformed" && r.Chance(1, 6) && len(f.Universe) > 0 {
			// a commodity classified twice: the universe file is rejected
			f.Universe = append(f.Universe, c20Uni{Class: "Twice", Coms: []string{f.Universe[0].Coms[0]}})
			tc.Tags = append(tc.Tags, "universe-duplicate")
		}
	}
	if r.Chance(1, 3) {
		paths := []string{"Other"}
		for _, u := range f.Universe {
			for _, com := range u.Coms {
				paths = append(paths, u.Class+":"+com)
			}
		}
		for _, com := range coms {
			paths = append(paths, "Other:"+com)
		}
		for k := r.Range(1, 2); k > 0; k-- {
			m := MapRuleF{Level: r.Range(1, 3)}
			if r.Chance(1, 8) {
				m.Level = 0
			}
			if r.Chance(1, 3) {
				m.Suffix = r.Range(1, 2)
			}
			if r.Chance(2, 3) {
				m.Regex = genPattern(r, paths)
			}
			f.Map = append(f.Map, m)
		}
	}
	if stream == "annotated" && r.Chance(3, 4) {
		// mostly the plain commands: the ratio monitor needs the balance of the same accounts and commodities
		f.Acc, f.Com, f.Map = nil, nil, nil
	}
	tc.F = f
	if stream == "universe" {
		c20ApplyUniverse(c, tc)
	}
	if stream == "split" {
		c20Split(c, tc)
	}
	tc.Text, _ = j.Text()
	return tc
}

// c20CloseOut empties every asset/liability position of one commodity (or of all) against an expense account, on a
// later day of its own: the day's postings all bring a holding to exactly zero.
func c20CloseOut(r *RNG, j *Journal, tc *c20Case) {
	_, hi := c20Span(j)
	type key struct{ acc, com string }
	bal := map[key]*big.Rat{}
	closed := map[string]bool{}
	other := ""
	add := func(a, com string, q *big.Rat) {
		if !c16IsAL(a) {
			return
		}
		k := key{a, com}
		if bal[k] == nil {
			bal[k] = new(big.Rat)
		}
		bal[k].Add(bal[k], q)
	}
	for _, d := range j.Dirs {
		switch d.Kind {
		case 'c':
			closed[d.Account] = true
		case 'o':
			if strings.HasPrefix(d.Account, "Expenses") && other == "" {
				other = d.Account
			}
		case 't':
			if d.Accrual != nil {
				return
			}
			for _, b := range d.Bookings {
				q, ok := new(big.Rat).SetString(b.Qty)
				if !ok {
					return
				}
				add(b.Debit, b.Com, q)
				add(b.Credit, b.Com, new(big.Rat).Neg(q))
			}
		}
	}
	lo, _ := c20Span(j)
	if other == "" {
		other = "Expenses:CloseOut"
		j.Dirs = append(j.Dirs, JDir{Kind: 'o', Date: lo, Account: other})
	}
	var keys []key
	for k, v := range bal {
		if v.Sign() != 0 && !closed[k.acc] {
			keys = append(keys, k)
		}
	}
	sort.Slice(keys, func(a, b int) bool { return keys[a].acc+"|"+keys[a].com < keys[b].acc+"|"+keys[b].com })
	if len(keys) == 0 {
		return
	}
	only := ""
	if r.Chance(2, 3) {
		only = Pick(r, keys).com
	}
	day := hi + r.Range(1, 40)
	tx := JDir{Kind: 't', Date: day, Desc: "close out"}
	for _, k := range keys {
		if only != "" && k.com != only {
			continue
		}
		v := bal[k]
		if v.Sign() > 0 {
			tx.Bookings = append(tx.Bookings, JBook{Credit: k.acc, Debit: other, Qty: c20DecString(v), Com: k.com})
		} else {
			tx.Bookings = append(tx.Bookings, JBook{Credit: other, Debit: k.acc, Qty: c20DecString(new(big.Rat).Neg(v)), Com: k.com})
		}
	}
	j.Dirs = append(j.Dirs, tx)
	// something to report afterwards as well
	if r.Chance(1, 2) {
		j.Dirs = append(j.Dirs, JDir{Kind: 'o', Date: day + r.Range(1, 60), Account: "Expenses:After" + itoa(r.Intn(100))})
	}
	tc.Tags = append(tc.Tags, "close-out")
}

// c20Annotate (stream `annotated`): transactions that cross the portfolio's boundary (income / expense <-> asset / liability) and
// carry a drawn @performance annotation: exactly the valuation commodity (once, twice, three times), the valuation commodity
// together with another one (quoted in it, or quoted nowhere), another commodity alone, the posting's own commodity, the empty
// list; booked in the valuation commodity or in another one, in either direction, with positive or negative quantities, on days
// with and without other directives. In two cases of three the journal is `quiet` from a drawn day on: every boundary-crossing
// transaction from that day on (the generator's own too) carries a NON-EMPTY annotation, so that the periods after it are periods
// without flows (a transaction marked as a performance effect on named commodities is no deposit and no withdrawal) and have to
// report end value / start value - 1 (`ratio_without_flows`); otherwise the annotated transactions stand among genuine external
// flows and `@performance()` portfolio flows, and the returns are compared with the model.
func c20Annotate(r *RNG, j *Journal, tc *c20Case, val string) {
	lo, hi := c20Span(j)
	_, coms := journalNames(j)
	opened, closed := map[string]int{}, map[string]bool{}
	for _, d := range j.Dirs {
		switch d.Kind {
		case 'o':
			if _, has := opened[d.Account]; !has {
				opened[d.Account] = d.Date
			}
		case 'c':
			closed[d.Account] = true
		}
	}
	for _, a := range []string{"Income:Yield", "Expenses:Charges", "Assets:Yielding"} {
		if _, has := opened[a]; !has {
			opened[a] = lo
			j.Dirs = append(j.Dirs, JDir{Kind: 'o', Date: lo, Account: a})
		}
	}
	var names []string
	for a := range opened {
		if !closed[a] {
			names = append(names, a)
		}
	}
	sort.Strings(names)
	var others []string // commodities other than the valuation commodity (the generator quotes them in it, directly or through a chain)
	for _, com := range coms {
		if com != val {
			others = append(others, com)
		}
	}
	draw := func(own string, nonEmpty bool) *[]string {
		x, y := "UNQ", "UNQ" // quoted nowhere
		if len(others) > 0 {
			x = Pick(r, others)
		}
		var tg []string
		switch r.Intn(14) {
		case 0, 1, 2:
			tg = []string{val}
		case 3:
			tg = []string{val, val}
		case 4:
			tg = []string{val, val, val}
		case 5:
			tg = []string{val, x}
		case 6:
			tg = []string{x, val}
		case 7:
			tg = []string{x}
		case 8:
			tg = []string{y}
		case 9:
			tg = []string{val, y}
		case 10:
			tg = []string{own}
		case 11:
			tg = []string{own, own}
		default:
			tg = []string{}
			if nonEmpty {
				tg = []string{own, val}
			}
		}
		return &tg
	}
	quiet := r.Chance(2, 3)
	from := lo + r.Intn(hi-lo+1)
	if quiet {
		for k := range j.Dirs {
			d := &j.Dirs[k]
			if d.Kind != 't' || d.Date < from || len(d.Bookings) == 0 {
				continue
			}
			crossing := false
			for _, bk := range d.Bookings {
				crossing = crossing || c16IsAL(bk.Credit) != c16IsAL(bk.Debit)
			}
			if crossing && (d.Targets == nil || len(*d.Targets) == 0) {
				d.Targets = draw(d.Bookings[0].Com, true)
			}
		}
		tc.Tags = append(tc.Tags, "annotated-quiet-tail")
	}
	for k := r.Range(1, 6); k > 0; k-- {
		day := from + r.Intn(hi-from+40)
		var al, ie []string
		for _, a := range names {
			if opened[a] <= day {
				if c16IsAL(a) {
					al = append(al, a)
				} else {
					ie = append(ie, a)
				}
			}
		}
		if len(al) == 0 || len(ie) == 0 {
			continue
		}
		t := JDir{Kind: 't', Date: day, Desc: Pick(r, []string{"interest", "dividend", "fee", "custody charge", "tax refund"})}
		for nb := Pick(r, []int{1, 1, 1, 2}); nb > 0; nb-- {
			com := val
			if r.Chance(1, 2) && len(coms) > 0 {
				com = Pick(r, coms)
			}
			q := Pick(r, []string{"110", "12.5", "0.75", "-40", "1500", "3.333", "250.00"})
			if r.Chance(1, 3) {
				q = fmt.Sprintf("%d.%02d", r.Intn(900), r.Intn(100))
			}
			bk := JBook{Credit: Pick(r, ie), Debit: Pick(r, al), Qty: q, Com: com}
			if r.Chance(1, 3) {
				bk.Credit, bk.Debit = bk.Debit, bk.Credit
			}
			t.Bookings = append(t.Bookings, bk)
		}
		if quiet || r.Chance(5, 6) {
			t.Targets = draw(t.Bookings[0].Com, quiet)
		}
		j.Dirs = append(j.Dirs, t)
	}
	tc.Tags = append(tc.Tags, "annotated-boundary-crossing")
}

// c20DecString: exact decimal literal of a rational with a power-of-ten denominator
func c20DecString(v *big.Rat) string {
	for n := 0; n <= 40; n++ {
		s := v.FloatString(n)
		if x, ok := new(big.Rat).SetString(s); ok && x.Cmp(v) == 0 {
			return s
		}
	}
	return v.FloatString(40)
}

func (tc *c20Case) run(c *Ctx, dir string) {
	base := filepath.Join(dir, fmt.Sprintf("%s%dr%d", tc.Stream, tc.Idx+1000000, tc.RunNo))
	path := base + ".knut"
	upath := base + ".yaml"
	if tc.Files != nil {
		tree := base + ".d"
		defer os.RemoveAll(tree)
		for _, f := range tc.Files {
			full := filepath.Join(tree, f.Rel)
			os.MkdirAll(filepath.Dir(full), 0o755)
			os.WriteFile(full, []byte(f.Text()), 0o644)
		}
		path = filepath.Join(tree, tc.Files[0].Rel)
	} else {
		os.WriteFile(path, []byte(tc.Text), 0o644)
	}
	if len(tc.F.Universe) > 0 || tc.F.UniText != "" {
		os.WriteFile(upath, []byte(tc.F.universeYAML()), 0o644)
	}
	to := 20 * time.Second
	tc.RetCode, tc.RetOut, tc.RetErr = runKnut(c.KnutBin, to, tc.Env, append(append([]string{"portfolio", "returns"}, tc.F.windowArgs()...), path)...)
	wa := tc.F.weightsArgs(upath)
	tc.WCode, tc.WCsv, tc.WErr = runKnut(c.KnutBin, to, tc.Env, append(append([]string{"portfolio", "weights", "--csv"}, wa...), path)...)
	if tc.WCode == 0 {
		tc.WTxtCode, tc.WTxt, _ = runKnut(c.KnutBin, to, tc.Env, append(append([]string{"portfolio", "weights", "--color=false", "--digits", "4"}, wa...), path)...)
		if tc.F.Val != "" {
			tc.BalCode, tc.BalOut, _ = runKnut(c.KnutBin, to, tc.Env, append(append([]string{"balance"}, tc.F.balanceArgs()...), path)...)
		}
	}
	os.Remove(path)
	os.Remove(upath)
}

func c20Outcome(code int, stdout, stderr string) string {
	switch {
	case strings.Contains(stderr, "panic:") || strings.Contains(stderr, "goroutine "):
		return "panic"
	case code == 0:
		return "ok"
	case code == -2:
		return "timeout"
	default:
		return "error"
	}
}

// ---------------------------------------------------------------- parsing the real outputs

type c20Line struct {
	Day   int
	Text  string  // the printed number, e.g. "2.2"
	Val   float64 // NaN / ±Inf for an undefined return
	Undef bool
}

func c20ParseReturns(out string) ([]c20Line, error) {
	var res []c20Line
	for _, l := range strings.Split(strings.TrimRight(out, "\n"), "\n") {
		if l == "" {
			continue
		}
		const mid = " 00:00:00 +0000 UTC: "
		k := strings.Index(l, mid)
		if k != 10 || !strings.HasSuffix(l, "%") {
			return nil, fmt.Errorf("bad returns line %q", l)
		}
		t, err := time.Parse("2006-01-02", l[:10])
		if err != nil {
			return nil, fmt.Errorf("bad date in %q", l)
		}
		num := strings.TrimSuffix(l[k+len(mid):], "%")
		v, err := strconv.ParseFloat(num, 64)
		if err != nil {
			return nil, fmt.Errorf("bad number in %q", l)
		}
		res = append(res, c20Line{Day: dayNum(t), Text: num, Val: v, Undef: math.IsNaN(v) || math.IsInf(v, 0)})
	}
	return res, nil
}

type c20Row struct {
	Depth int
	Name  string
	Cells []string // "" or a decimal fraction
}

// c20ParseWeights reads the CSV output (names, fractions with 6 decimals) and takes the depth of each row from the
// text rendering of the same report (indentation of the name column, two blanks per level).
func c20ParseWeights(csvOut, txtOut string) (dates []int, rows []c20Row, err error) {
	recs, err := csv.NewReader(strings.NewReader(csvOut)).ReadAll()
	if err != nil {
		return nil, nil, err
	}
	if len(recs) == 0 || len(recs[0]) == 0 || recs[0][0] != "Commodity" {
		return nil, nil, fmt.Errorf("no header")
	}
	for _, d := range recs[0][1:] {
		t, err := time.Parse("2006-01-02", d)
		if err != nil {
			return nil, nil, fmt.Errorf("bad date %q", d)
		}
		dates = append(dates, dayNum(t))
	}
	var depths []int
	seps := 0
	for _, l := range strings.Split(txtOut, "\n") {
		if strings.HasPrefix(l, "+-") {
			seps++
			continue
		}
		if seps != 2 || !strings.HasPrefix(l, "| ") {
			continue
		}
		body := l[2:]
		n := 0
		for n < len(body) && body[n] == ' ' {
			n++
		}
		depths = append(depths, n/2)
	}
	for i, rec := range recs[1:] {
		if len(rec) != len(dates)+1 {
			return nil, nil, fmt.Errorf("row %d has %d fields", i, len(rec))
		}
		row := c20Row{Name: rec[0], Cells: rec[1:]}
		for _, cell := range row.Cells {
			if cell != "" {
				if _, err := strconv.ParseFloat(cell, 64); err != nil {
					return nil, nil, fmt.Errorf("bad cell %q", cell)
				}
			}
		}
		if i < len(depths) {
			row.Depth = depths[i]
		} else {
			return nil, nil, fmt.Errorf("text rendering has %d rows, csv has more", len(depths))
		}
		rows = append(rows, row)
	}
	if len(depths) != len(rows) {
		return nil, nil, fmt.Errorf("text rendering has %d rows, csv has %d", len(depths), len(rows))
	}
	return dates, rows, nil
}

func c20Cell(s string) float64 {
	if s == "" {
		return 0
	}
	v, _ := strconv.ParseFloat(s, 64)
	return v
}

// c20ParseBalance sums, per date column and commodity, the rows of the asset/liability section of `balance --csv -s .`,
// and reads the `Total (A+L)` row.
func c20ParseBalance(out string) (dates []int, perCom map[string][]float64, total []float64, err error) {
	exact := map[string][]*big.Rat{}
	defer func() {
		for com, rs := range exact {
			vals := make([]float64, len(rs))
			for k, r := range rs {
				vals[k], _ = r.Float64()
			}
			perCom[com] = vals
		}
	}()
	recs, err := csv.NewReader(strings.NewReader(out)).ReadAll()
	if err != nil {
		return nil, nil, nil, err
	}
	if len(recs) == 0 || len(recs[0]) < 2 || recs[0][0] != "Account" || recs[0][1] != "Comm" {
		return nil, nil, nil, fmt.Errorf("unexpected balance header %v", recs)
	}
	for _, d := range recs[0][2:] {
		t, perr := time.Parse("2006-01-02", d)
		if perr != nil {
			return nil, nil, nil, fmt.Errorf("bad date %q", d)
		}
		dates = append(dates, dayNum(t))
	}
	perCom = map[string][]float64{}
	for _, rec := range recs[1:] {
		if len(rec) != len(dates)+2 {
			return nil, nil, nil, fmt.Errorf("bad balance row %v", rec)
		}
		vals := make([]float64, len(dates))
		for k, cell := range rec[2:] {
			vals[k] = c20Cell(cell)
		}
		if rec[0] == "Total (A+L)" {
			total = vals
			return
		}
		if rec[1] == "" {
			continue
		}
		acc := exact[rec[1]]
		if acc == nil {
			acc = make([]*big.Rat, len(dates))
			for k := range acc {
				acc[k] = new(big.Rat)
			}
		}
		for k, cell := range rec[2:] {
			if cell != "" {
				if q, ok := new(big.Rat).SetString(cell); ok {
					acc[k].Add(acc[k], q)
				}
			}
		}
		exact[rec[1]] = acc
	}
	return nil, nil, nil, fmt.Errorf("no Total (A+L) row")
}

// ---------------------------------------------------------------- model answers

func c20Rat(s string) (*big.Rat, bool) {
	r, ok := new(big.Rat).SetString(s)
	return r, ok
}

// c20Round formats an exact rational with n decimals (half away from zero).
func c20Round(r *big.Rat, n int) string { return r.FloatString(n) }

// c20Partition computes the command's partition with the real date package (the code C11 verifies).
func c20Partition(j *Journal, f c20Flags) (ends []int, starts []int, spanStart int, ok bool) {
	defer func() {
		if r := recover(); r != nil {
			ok = false
		}
	}()
	mn, mx := date.Date(9999, 12, 31), time.Time{}
	for _, d := range j.Dirs {
		t := dayTime(d.Date)
		if d.Kind == 't' || d.Kind == 'p' {
			if mx.Before(t) {
				mx = t
			}
		}
		if d.Kind == 't' && mn.After(t) {
			mn = t
		}
	}
	per := date.Period{End: dayTime(f.To)}
	if f.From != 0 {
		per.Start = dayTime(f.From)
	}
	per = per.Clip(date.Period{Start: mn, End: mx})
	p := date.NewPartition(per, intervals[f.Interval], f.Last)
	for _, t := range p.EndDates() {
		ends = append(ends, dayNum(t))
	}
	for _, t := range p.StartDates() {
		starts = append(starts, dayNum(t))
	}
	return ends, starts, dayNum(per.Start), true
}

// ---------------------------------------------------------------- checks

func c20Check(c *Ctx, bt *Batch, tc *c20Case, agreed *bool) {
	c.Evals++
	in := tc.Input()
	for _, t := range tc.Tags {
		c.Tag(t)
	}
	wire := tc.J.Wire()
	fw := tc.F.Wire()
	retOutcome := c20Outcome(tc.RetCode, tc.RetOut, tc.RetErr)
	wOutcome := c20Outcome(tc.WCode, tc.WCsv, tc.WErr)
	sig := fmt.Sprintf("iv%d", tc.F.Interval)
	for _, x := range []struct {
		on bool
		s  string
	}{{tc.F.Val == "", "/noval"}, {tc.F.From != 0, "/from"}, {tc.F.Last != 0, "/last"}, {len(tc.F.Acc) > 0, "/acc"}, {len(tc.F.Com) > 0, "/com"},
		{len(tc.F.Universe) > 0, "/uni"}, {tc.U != nil, "/file"}, {tc.U != nil && tc.U.Invalid != "", "/invalid"}, {len(tc.F.Map) > 0, "/map"}, {tc.F.SortAlpha, "/alpha"}, {tc.ConstPrices, "/constp"}, {tc.NoAnno, "/noanno"}} {
		if x.on {
			sig += x.s
		}
	}
	c.Class(fmt.Sprintf("c20/%s/%s/%s/%s/n%s", tc.Stream, retOutcome, wOutcome, sig, bucket(len(tc.J.Dirs))))
	if tc.Idx < 2 && tc.Stream == "portfolio" {
		c.Sample(map[string]any{"input": in, "returns": tc.RetOut, "weights_csv": tc.WCsv})
	}

	ends, starts, spanStart, partOK := c20Partition(tc.J, tc.F)

	// ------------------------------------------------ returns
	var lines []c20Line
	var perr error
	if retOutcome == "ok" {
		lines, perr = c20ParseReturns(tc.RetOut)
		c.Monitor(tc.Stream, tc.Idx, "returns_readable", in, perr == nil, fmt.Sprintf("%v\n%s", perr, tc.RetOut))
	} else if retOutcome == "error" {
		c.Tag("returns-rejected")
	}
	illCond := map[int]bool{} // period ends the model marks as ill-conditioned (filled when the model answers)
	bt.Add(func(model string) {
		if model == "unsupported" {
			c.Tag("model-unsupported")
			return
		}
		impl := retOutcome
		mcanon := strings.Fields(model)[0]
		if retOutcome == "ok" && perr == nil && strings.HasPrefix(model, "ok ") {
			// compare date by date; the numbers after rounding the exact value to the printed digit, one unit tolerance
			var ib, mb []string
			for _, l := range lines {
				ib = append(ib, fmt.Sprintf("%s:%s", fmtDate(l.Day), l.Text))
			}
			ml := strings.Split(strings.TrimPrefix(model, "ok "), ",")
			if ml[0] == "-" {
				ml = nil
			}
			for k, e := range ml {
				p := strings.SplitN(e, ":", 2)
				day, _ := strconv.Atoi(p[0])
				s := "undefined"
				if strings.HasSuffix(p[1], "!") || strings.HasSuffix(p[1], "~") {
					// "!": the period has a day on which V0 + inflow vanishes (exactly or up to 1e-6 of its operands): the exact
					// return is undefined or rests on the last truncated digits, the float64 division prints anything.
					// "~": … a day on which V0 + inflow is a truncation residue, ten orders of magnitude below the values and
					// posting values it is computed from: the rounding errors of the float64 sums show in the printed digit
					knownKey, knownWhat := "returns-meaningless-when-start-value-plus-inflow-vanishes", "a day of the period has V0 + inflow = 0 up to 1e-6 of its operands"
					if strings.HasSuffix(p[1], "~") {
						knownKey, knownWhat = "returns-meaningless-when-start-value-is-rounding-residue", "a day of the period has a denominator V0 + inflow that is 1e-10 of the values and posting values it is computed from"
						c.Tag("residue-conditioned-return")
					}
					p[1] = strings.TrimSuffix(strings.TrimSuffix(p[1], "!"), "~")
					illCond[day] = true
					if k < len(lines) && lines[k].Day == day {
						exactText := "undefined"
						if p[1] != "undef" {
							r, _ := c20Rat(p[1])
							exactText = c20Round(new(big.Rat).Mul(r, big.NewRat(100, 1)), 1)
						}
						c.Tag("ill-conditioned-return")
						if lines[k].Text != exactText && !(p[1] == "undef" && lines[k].Undef) {
							c.MonitorKnown(tc.Stream, tc.Idx, "return of a period with a vanishing denominator", in,
								fmt.Sprintf("%s: printed %s%%, exact value %s (%s)\n%s", fmtDate(day), lines[k].Text, exactText, knownWhat, tc.RetOut),
								knownKey)
						}
						mb = append(mb, fmt.Sprintf("%s:%s", fmtDate(day), lines[k].Text))
						continue
					}
				}
				if p[1] != "undef" {
					r, _ := c20Rat(p[1])
					pct := new(big.Rat).Mul(r, big.NewRat(100, 1))
					s = c20Round(pct, 1)
					if k < len(lines) && lines[k].Day == day && !lines[k].Undef {
						exact, _ := pct.Float64()
						if math.Abs(lines[k].Val-exact) <= 0.1+1e-9*math.Abs(exact) {
							s = lines[k].Text
						}
					}
				} else if k < len(lines) && lines[k].Day == day && (lines[k].Undef || math.Abs(lines[k].Val) > 1e9) {
					s = lines[k].Text // NaN / ±Inf (or an astronomically large number from a denominator that is zero up to rounding)
					c.Tag("undefined-return")
				}
				mb = append(mb, fmt.Sprintf("%s:%s", fmtDate(day), s))
			}
			impl, mcanon = "ok "+strings.Join(ib, ","), "ok "+strings.Join(mb, ",")
		}
		if !c.Compare(tc.Stream, tc.Idx, "returns", in, impl, mcanon) {
			*agreed = false
			f := &c.Findings[len(c.Findings)-1]
			f.Impl = clip(fmt.Sprintf("exit %d\n%s\n%s", tc.RetCode, tc.RetOut, tc.RetErr))
			f.Model = clip(model + "\n(canonical: " + mcanon + ")")
		}
	}, "returns", fw, wire)

	if retOutcome == "ok" && perr == nil && partOK {
		// one line per period of the requested partition, dated with the period's end
		var got []string
		for _, l := range lines {
			got = append(got, fmtDate(l.Day))
		}
		var want []string
		for k, e := range ends {
			if starts[k] <= e { // an inverted window has one empty period (C11), which holds no day
				want = append(want, fmtDate(e))
			}
		}
		c.Monitor(tc.Stream, tc.Idx, "returns_every_period", in, strings.Join(got, ",") == strings.Join(want, ","),
			fmt.Sprintf("period ends of the partition: %v\nlines printed: %v\n%s", want, got, tc.RetOut))
		// 0% when prices never change and no transaction is annotated (only external flows and internal transfers)
		if tc.ConstPrices && tc.NoAnno {
			bt.Add(func(string) { // after the model's answer: periods it marks ill-conditioned are reported there
				var bad []string
				for _, l := range lines {
					if !l.Undef && math.Abs(l.Val) > 0.1 && !illCond[l.Day] {
						bad = append(bad, fmtDate(l.Day)+": "+l.Text+"%")
					}
				}
				switch {
				case len(bad) == 0:
					c.Monitor(tc.Stream, tc.Idx, "zero_when_only_external_flows", in, true, "")
				case len(tc.F.Com) > 0:
					c.MonitorKnown(tc.Stream, tc.Idx, "zero_when_only_external_flows", in, "non-zero return with unchanged prices and only external flows: "+strings.Join(bad, ", ")+"\n"+tc.RetOut,
						"returns-commodity-filter-counts-filtered-flows")
				default:
					c.Monitor(tc.Stream, tc.Idx, "zero_when_only_external_flows", in, false, "non-zero return with unchanged prices and only external flows: "+strings.Join(bad, ", ")+"\n"+tc.RetOut)
				}
			}, "returns", fw, wire)
		}
	}

	// 0% for every SINGLE period in which the prices of what is held rest and every transaction is plain: the driver
	// evaluates the hypotheses of C20_zero_period_of_monitor per period (Performance.calmPeriods), the real line must be 0.0%
	if retOutcome == "ok" && perr == nil {
		bt.Add(func(model string) {
			if !strings.HasPrefix(model, "ok ") {
				return
			}
			calm := map[int]bool{}
			if body := strings.TrimPrefix(model, "ok "); body != "-" {
				for _, e := range strings.Split(body, ",") {
					p := strings.SplitN(e, ":", 2)
					day, _ := strconv.Atoi(p[0])
					calm[day] = len(p) == 2 && p[1] == "1"
				}
			}
			var bad []string
			n, other := 0, 0
			for _, l := range lines {
				if !calm[l.Day] {
					other++
					continue
				}
				if l.Undef || illCond[l.Day] {
					continue
				}
				n++
				if math.Abs(l.Val) > 0.1 {
					bad = append(bad, fmtDate(l.Day)+": "+l.Text+"%")
				}
			}
			if n == 0 {
				return
			}
			c.Tag("calm-period-checked")
			if other > 0 {
				c.Tag("calm-period-among-others")
			}
			detail := "non-zero return for a period in which the prices of the commodities held rest and every transaction is plain: " + strings.Join(bad, ", ") + "\n" + tc.RetOut
			switch {
			case len(bad) == 0:
				c.Monitor(tc.Stream, tc.Idx, "zero_period_when_calm", in, true, "")
			case len(tc.F.Com) > 0:
				c.MonitorKnown(tc.Stream, tc.Idx, "zero_period_when_calm", in, detail, "returns-commodity-filter-counts-filtered-flows")
			default:
				c.Monitor(tc.Stream, tc.Idx, "zero_period_when_calm", in, false, detail)
			}
		}, "calm", fw, wire)
	}

	// ------------------------------------------------ weights
	if tc.U != nil {
		c.Class(fmt.Sprintf("c20/universe-file/%s/file%s/line%s/invalid=%v/%s", tc.U.Profile, c20USizeClass(len(tc.U.Text)), c20USizeClass(tc.U.LongLine), tc.U.Invalid != "", wOutcome))
		if tc.U.Invalid != "" {
			// a universe file that cannot be loaded as a whole is not used in part: the command fails
			c.Monitor(tc.Stream, tc.Idx, "universe_file_is_used_whole_or_rejected", in, wOutcome != "ok",
				fmt.Sprintf("the universe file has to be rejected (%s), but the command exits 0\n%s", tc.U.Invalid, tc.WCsv))
			return
		}
	}
	if wOutcome != "ok" {
		if wOutcome == "error" {
			c.Tag("weights-rejected")
		}
		bt.Add(func(model string) {
			if model == "unsupported" || tagged(tc.Tags, "universe-duplicate") || tagged(tc.Tags, "universe-invalid") {
				return
			}
			if !c.Compare(tc.Stream, tc.Idx, "weights", in, wOutcome, strings.Fields(model)[0]) {
				*agreed = false
				c.Findings[len(c.Findings)-1].Impl = clip(fmt.Sprintf("exit %d\n%s\n%s", tc.WCode, tc.WCsv, tc.WErr))
			}
		}, "weights", fw, wire)
		return
	}
	wdates, rows, werr := c20ParseWeights(tc.WCsv, tc.WTxt)
	if !c.Monitor(tc.Stream, tc.Idx, "weights_readable", in, werr == nil && tc.WTxtCode == 0, fmt.Sprintf("%v\n%s\n%s", werr, tc.WCsv, tc.WTxt)) {
		return
	}
	undefinedReal := false
	for _, r := range rows {
		for _, cell := range r.Cells {
			if v := c20Cell(cell); math.IsNaN(v) || math.IsInf(v, 0) {
				undefinedReal = true
			}
		}
	}
	tol := 2e-6
	// paths of the real rows
	paths := make([]string, len(rows))
	{
		var stack []string
		for i, r := range rows {
			if r.Depth > len(stack) {
				r.Depth = len(stack)
			}
			stack = append(stack[:r.Depth], r.Name)
			paths[i] = strings.Join(stack, "\x1f")
		}
	}
	children := func(i int) []int {
		var res []int
		for k := i + 1; k < len(rows) && rows[k].Depth > rows[i].Depth; k++ {
			if rows[k].Depth == rows[i].Depth+1 {
				res = append(res, k)
			}
		}
		return res
	}
	if tc.U != nil && len(tc.F.Map) == 0 && !undefinedReal {
		c20CheckDeclaredGroups(c, tc, in, wdates, rows, paths, children, tol)
	}
	bt.Add(func(model string) {
		if model == "unsupported" {
			return
		}
		if model == "ok undefined" {
			c.Tag("undefined-weights")
			c.Compare(tc.Stream, tc.Idx, "weights", in, fmt.Sprintf("undefined=%v", undefinedReal), "undefined=true")
			return
		}
		if !strings.HasPrefix(model, "ok ") {
			if !c.Compare(tc.Stream, tc.Idx, "weights", in, "ok", strings.Fields(model)[0]) {
				*agreed = false
			}
			return
		}
		parts := strings.Split(strings.TrimPrefix(model, "ok "), ";")
		prefixFree := strings.Contains(parts[0], "prefixfree=1")
		rooted := strings.Contains(parts[0], "rooted=1")
		// canonical forms: dates, then rows keyed by path (siblings in alphabetical order unless -a is given, in which
		// case the order itself is compared); numbers: the exact value rounded to 6 decimals, replaced by the real
		// text when within two units of the last digit
		type mrow struct {
			depth int
			name  string
			cells []string
		}
		var mrows []mrow
		if parts[2] != "-" {
			for _, rs := range strings.Split(parts[2], "|") {
				f := strings.Split(rs, "~")
				d, _ := strconv.Atoi(f[0])
				var cells []string
				if f[2] != "-" || len(wdates) > 0 {
					cells = strings.Split(f[2], ",")
				}
				mrows = append(mrows, mrow{d, UnHex(f[1]), cells})
			}
		}
		mpaths := make([]string, len(mrows))
		{
			var stack []string
			for i, r := range mrows {
				stack = append(stack[:min(r.depth, len(stack))], r.name)
				mpaths[i] = strings.Join(stack, "\x1f")
			}
		}
		realByPath := map[string]int{}
		for i, p := range paths {
			realByPath[p] = i
		}
		canonReal := make([]string, len(rows))
		for i, r := range rows {
			var cells []string
			for _, cell := range r.Cells {
				if c20Cell(cell) == 0 {
					cell = ""
				}
				cells = append(cells, cell)
			}
			canonReal[i] = strings.ReplaceAll(paths[i], "\x1f", ":") + "=" + strings.Join(cells, ",")
		}
		canonModel := make([]string, len(mrows))
		for i, r := range mrows {
			ri, has := realByPath[mpaths[i]]
			var cells []string
			for k, cell := range r.cells {
				s := ""
				if cell != "-" {
					q, _ := c20Rat(cell)
					s = c20Round(q, 6)
					if has && k < len(rows[ri].Cells) {
						exact, _ := q.Float64()
						if rc := rows[ri].Cells[k]; math.Abs(c20Cell(rc)-exact) <= tol {
							s = rc
						}
					}
					if v, _ := strconv.ParseFloat(s, 64); v == 0 {
						s = ""
					}
				}
				cells = append(cells, s)
			}
			canonModel[i] = strings.ReplaceAll(mpaths[i], "\x1f", ":") + "=" + strings.Join(cells, ",")
		}
		if !tc.F.SortAlpha {
			sort.Strings(canonReal)
			sort.Strings(canonModel)
		}
		var ds []string
		for _, d := range wdates {
			ds = append(ds, itoa(d))
		}
		md := parts[1]
		if md == "-" {
			md = ""
		}
		if !c.Compare(tc.Stream, tc.Idx, "weights", in, strings.Join(ds, ",")+"\n"+strings.Join(canonReal, "\n"), md+"\n"+strings.Join(canonModel, "\n")) {
			*agreed = false
			f := &c.Findings[len(c.Findings)-1]
			f.Impl = clip(f.Impl + "\n--- csv\n" + tc.WCsv)
		}
		// group weight = sum of its members (when no node carries own weight besides its children)
		if prefixFree && !undefinedReal {
			var bad []string
			for i := range rows {
				ch := children(i)
				if len(ch) == 0 {
					continue
				}
				for k := range wdates {
					sum := 0.0
					for _, x := range ch {
						sum += c20Cell(rows[x].Cells[k])
					}
					if math.Abs(sum-c20Cell(rows[i].Cells[k])) > tol*float64(len(ch)+1) {
						bad = append(bad, fmt.Sprintf("%s on %s: %s vs members %f", rows[i].Name, fmtDate(wdates[k]), rows[i].Cells[k], sum))
					}
				}
			}
			c.Monitor(tc.Stream, tc.Idx, "group_weight_is_sum_of_members", in, len(bad) == 0, strings.Join(bad, "; ")+"\n"+tc.WTxt)
		}
		// the top level sums to 100%
		if rooted && !undefinedReal {
			var bad []string
			n := 0
			for k := range wdates {
				sum := 0.0
				n = 0
				for _, r := range rows {
					if r.Depth == 0 {
						sum += c20Cell(r.Cells[k])
						n++
					}
				}
				if math.Abs(sum-1) > tol*float64(n+1) {
					bad = append(bad, fmt.Sprintf("%s: %f", fmtDate(wdates[k]), sum))
				}
			}
			c.Monitor(tc.Stream, tc.Idx, "top_level_sums_to_one", in, len(bad) == 0, strings.Join(bad, "; ")+"\n"+tc.WTxt)
		}
	}, "weights", fw, wire)

	// weighted order: siblings by decreasing total weight
	if !tc.F.SortAlpha && !undefinedReal {
		var bad []string
		byParent := map[string][]int{}
		for i := range rows {
			parent := ""
			if k := strings.LastIndex(paths[i], "\x1f"); k >= 0 {
				parent = paths[i][:k]
			}
			byParent[parent+"\x1f"+itoa(rows[i].Depth)] = append(byParent[parent+"\x1f"+itoa(rows[i].Depth)], i)
		}
		for _, sibs := range byParent {
			for k := 1; k < len(sibs); k++ {
				a, b := 0.0, 0.0
				for x := range wdates {
					a += c20Cell(rows[sibs[k-1]].Cells[x])
					b += c20Cell(rows[sibs[k]].Cells[x])
				}
				if b > a+tol*float64(len(wdates)+1) {
					bad = append(bad, rows[sibs[k-1]].Name+" before "+rows[sibs[k]].Name)
				}
			}
		}
		c.Monitor(tc.Stream, tc.Idx, "weighted_order", in, len(bad) == 0, strings.Join(bad, "; ")+"\n"+tc.WTxt)
	}

	// the period end days of the partition are the only possible columns
	if partOK {
		endSet := map[int]bool{}
		for _, e := range ends {
			endSet[e] = true
		}
		ok := true
		for _, d := range wdates {
			ok = ok && endSet[d]
		}
		c.Monitor(tc.Stream, tc.Idx, "weights_columns_are_period_ends", in, ok, fmt.Sprintf("period ends %v, columns %v", ends, wdates))
	}

	// agreement with `knut balance -v V --csv -s .`: weight(c, D) = value(c, D) / total(D)
	if tc.F.Val != "" && tc.BalCode == 0 && len(tc.F.Map) == 0 && !undefinedReal {
		bdates, perCom, total, berr := c20ParseBalance(tc.BalOut)
		if berr != nil {
			c.Tag("balance-unreadable")
		} else {
			bcol := map[int]int{}
			for k, d := range bdates {
				bcol[d] = k
			}
			var bad []string
			seen := map[string]bool{}
			checked := 0
			for i, r := range rows {
				if len(children(i)) > 0 {
					continue // a group
				}
				seen[r.Name] = true
				for k, d := range wdates {
					bk, has := bcol[d]
					if !has {
						bad = append(bad, fmt.Sprintf("no balance column for %s", fmtDate(d)))
						continue
					}
					if total[bk] == 0 {
						continue
					}
					var v float64
					if vals := perCom[r.Name]; vals != nil {
						v = vals[bk]
					}
					want := v / total[bk]
					checked++
					if math.Abs(want-c20Cell(r.Cells[k])) > tol {
						bad = append(bad, fmt.Sprintf("%s on %s: weight %s, balance %g / %g = %f", r.Name, fmtDate(d), r.Cells[k], v, total[bk], want))
					}
				}
			}
			// a commodity with a non-zero asset/liability value on a reported date must have a row
			for com, vals := range perCom {
				for _, d := range wdates {
					if bk, has := bcol[d]; has && vals[bk] != 0 && !seen[com] {
						bad = append(bad, fmt.Sprintf("%s has value %g on %s but no weight row", com, vals[bk], fmtDate(d)))
					}
				}
			}
			// … and a reported date must be one on which the portfolio has a value; every end date with a value is reported
			if partOK {
				for _, e := range ends {
					bk, has := bcol[e]
					if !has {
						continue
					}
					any := false
					for _, vals := range perCom {
						any = any || vals[bk] != 0
					}
					isCol := false
					for _, d := range wdates {
						isCol = isCol || d == e
					}
					if any && !isCol {
						bad = append(bad, fmt.Sprintf("period end %s has asset/liability values in the balance but no weights column", fmtDate(e)))
					}
				}
			}
			if checked > 0 {
				c.Tag("weights-vs-balance")
			}
			c.Monitor(tc.Stream, tc.Idx, "weights_agree_with_valued_balance", in, len(bad) == 0, strings.Join(bad, "; ")+"\n--- weights\n"+tc.WCsv+"--- balance\n"+tc.BalOut)

			// returns without flows: a period in which no transaction is booked returns end value / start value - 1
			if retOutcome == "ok" && perr == nil && partOK && len(lines) == len(ends) {
				// days with a transaction that crosses the portfolio's boundary (C20_ratio_period_without_flows: transactions
				// that stay inside the portfolio, or outside it, are no flows); with --account every transaction that touches
				// an asset/liability account counts. A boundary-crossing transaction that carries a NON-EMPTY @performance annotation
				// is a performance effect on the named commodities, not a flow (only `@performance()` and un-annotated ones are):
				// whatever the targets are - the valuation commodity alone, several, the posting's own or another commodity
				txDays := map[int]bool{}
				markedDays := map[int]bool{}
				for _, d := range tc.J.Dirs {
					if d.Kind != 't' {
						continue
					}
					marked := d.Targets != nil && len(*d.Targets) > 0
					for _, bk := range d.Bookings {
						cr, dr := c16IsAL(bk.Credit), c16IsAL(bk.Debit)
						if (cr != dr && !marked) || (len(tc.F.Acc) > 0 && (cr || dr)) {
							txDays[d.Date] = true
						} else if cr != dr {
							markedDays[d.Date] = true
						}
					}
				}
				var badR []string
				known := false
				for k := range ends {
					s, e := starts[k], ends[k]
					flow := false
					for d := range txDays {
						flow = flow || (d >= s && d <= e)
					}
					if flow || lines[k].Undef {
						continue
					}
					// start value: the balance at the day before the period start = the previous period end of the balance partition
					bkE, hasE := bcol[e]
					bkS, hasS := bcol[s-1]
					if !hasE || !hasS || math.Abs(total[bkS]) < 1e-6 {
						continue
					}
					want := 100 * (total[bkE]/total[bkS] - 1)
					c.Tag("ratio-period-checked")
					for d := range markedDays {
						if d >= s && d <= e {
							c.Tag("ratio-period-with-performance-effects")
							break
						}
					}
					if math.Abs(want-lines[k].Val) > 0.1+1e-6*math.Abs(want) {
						msg := fmt.Sprintf("period %s..%s without flows: printed %s%%, end/start-1 = %g/%g-1 = %.3f%%", fmtDate(s), fmtDate(e), lines[k].Text, total[bkE], total[bkS], want)
						if k == 0 && tc.F.Last > 0 && s > spanStart {
							known = true
							c.MonitorKnown(tc.Stream, tc.Idx, "ratio_without_flows", in, msg+"\n"+tc.RetOut, "returns-last-folds-earlier-periods")
						} else {
							badR = append(badR, msg)
						}
					}
				}
				_ = known
				c.Monitor(tc.Stream, tc.Idx, "ratio_without_flows", in, len(badR) == 0, strings.Join(badR, "; ")+"\n"+tc.RetOut+"--- balance\n"+tc.BalOut)
			}
		}
	}
}

// ---------------------------------------------------------------- stream `split`: the journal over several included files

type c20File struct {
	Rel  string
	Pad  int    // bytes of comment lines in front of the body (files of different sizes take different times to parse)
	Body string // includes and directives
}

func (f c20File) Text() string {
	const line = "# ---------------------------------------------------------------------------\n"
	var b strings.Builder
	for b.Len() < f.Pad {
		b.WriteString(line)
	}
	b.WriteString(f.Body)
	return b.String()
}

// c20Split turns a case into a journal tree. The directives of the journal are what the single-file streams generate plus
// accounts that are opened LATER than the first day: on the period end days of the requested partition (days that otherwise
// hold nothing, or a price, or a transaction) and on arbitrary days inside and after the span, some of them used by a
// transaction afterwards. The directives are then laid out over 2-4 files the way journals are kept: accounts in one
// file, prices and transactions in others (by kind), one file per stretch of dates, or at random; in date order inside a
// file or in the order of the generator; the root holds directives of its own or only includes; members included from
// the root or in a chain; some files carry a long leading comment. Every case runs 2-3 times: plain and under
// KNUT_VERIF_SEED / GOMAXPROCS settings, since the files are parsed and converted concurrently and the order in which
// their directives reach journal.Builder is up to the schedule. The model and all monitors see the union of the
// directives: a report must not depend on the file a directive stands in, nor on the arrival order.
func c20Split(c *Ctx, tc *c20Case) {
	r := c.Rng(tc.Stream+"/files", tc.Idx)
	j := tc.J
	lo, hi := c20Span(j)
	priced := []string{}
	for _, d := range j.Dirs {
		if d.Kind == 'p' {
			priced = append(priced, d.Com)
		}
	}
	if tc.F.Val != "" {
		priced = append(priced, tc.F.Val)
	}
	n := 0
	late := func(day int) {
		n++
		top := Pick(r, []string{"Assets", "Assets", "Assets", "Liabilities", "Expenses", "Income"})
		acc := fmt.Sprintf("%s:Late%d", top, n)
		j.Dirs = append(j.Dirs, JDir{Kind: 'o', Date: day, Account: acc})
		if c16IsAL(acc) && len(priced) > 0 && r.Chance(1, 3) {
			// … and used: funded from an account of its own, so that no other balance changes
			src := fmt.Sprintf("Income:LateSource%d", n)
			j.Dirs = append(j.Dirs, JDir{Kind: 'o', Date: day, Account: src},
				JDir{Kind: 't', Date: day + r.Range(0, 1)*r.Range(0, 40), Desc: "late funding",
					Bookings: []JBook{{Credit: src, Debit: acc, Qty: fmt.Sprintf("%d.%02d", r.Range(1, 5000), r.Intn(100)), Com: Pick(r, priced)}}})
		}
	}
	ends, _, _, ok := c20Partition(j, tc.F)
	onEnds := r.Intn(4) // 0: no account is opened on a period end; 1: on every end; 2, 3: on some
	if ok && onEnds > 0 {
		for k, e := range ends {
			if k < 200 && (onEnds == 1 || r.Chance(2, 3)) {
				late(e)
			}
		}
		tc.Tags = append(tc.Tags, "opens-on-period-ends")
	}
	for k := r.Range(0, 3); k > 0; k-- {
		late(lo + r.Intn(hi-lo+30))
	}

	// ---- layout
	nf := r.Range(2, 4)
	assign := make([]int, len(j.Dirs))
	layout := Pick(r, []string{"by-kind", "by-kind", "by-date", "random"})
	switch layout {
	case "by-kind":
		fp, ft, ft2 := r.Range(1, nf-1), r.Range(1, nf-1), r.Range(1, nf-1)
		mid := lo + r.Intn(hi-lo+1)
		for i, d := range j.Dirs {
			switch {
			case d.Kind == 'o':
				assign[i] = 0
			case d.Kind == 'p':
				assign[i] = fp
			case d.Date > mid:
				assign[i] = ft2
			default:
				assign[i] = ft
			}
		}
	case "by-date":
		cuts := make([]int, nf-1)
		for k := range cuts {
			cuts[k] = lo + r.Intn(hi-lo+2)
		}
		sort.Ints(cuts)
		perm := c20Perm(r, nf)
		for i, d := range j.Dirs {
			k := 0
			for k < len(cuts) && d.Date >= cuts[k] {
				k++
			}
			assign[i] = perm[k]
		}
	default:
		// the price directives of one date stay together, in their order: of two quotes of a pair on one day the later one
		// counts, and which is later is up to the schedule when they come from different files (known finding
		// valued-reports-same-day-requote-across-files, C06)
		priceFile := map[int]int{}
		for i, d := range j.Dirs {
			assign[i] = r.Intn(nf)
			if d.Kind == 'p' {
				if k, ok := priceFile[d.Date]; ok {
					assign[i] = k
				}
				priceFile[d.Date] = assign[i]
			}
		}
	}
	sorted := r.Chance(2, 3)
	rootHolds := r.Chance(1, 2) // the root holds the directives of file 0 itself, or it only includes
	chain := r.Chance(1, 4)
	incFirst := r.Chance(1, 2)
	var members []c20File
	for k := 0; k < nf; k++ {
		var ds []JDir
		for i, d := range j.Dirs {
			if assign[i] == k {
				ds = append(ds, d)
			}
		}
		if sorted {
			sort.SliceStable(ds, func(a, b int) bool { return ds[a].Date < ds[b].Date })
		}
		var b strings.Builder
		for _, d := range ds {
			b.WriteString(d.Text())
			b.WriteString("\n")
		}
		f := c20File{Rel: fmt.Sprintf("%s%d.knut", Pick(r, []string{"f", "sub/f", "sub/deep/f"}), k), Body: b.String()}
		if r.Chance(1, 3) {
			f.Pad = Pick(r, []int{300, 5000, 70000, 300000})
		}
		members = append(members, f)
	}
	// order of the include lines
	order := c20Perm(r, nf)
	inc := func(from, to string) string {
		rel, _ := filepath.Rel(filepath.Dir(from), to)
		return fmt.Sprintf("include \"%s\"\n\n", rel)
	}
	var files []c20File
	if rootHolds {
		root := members[order[0]]
		root.Rel = "main.knut"
		members[order[0]] = root
	} else {
		members = append(members, c20File{Rel: "main.knut"})
		order = append([]int{nf}, order...)
	}
	for pos, k := range order {
		f := members[k]
		var incs string
		for q := pos + 1; q < len(order); q++ {
			if (chain && q == pos+1) || (!chain && pos == 0) {
				incs += inc(f.Rel, members[order[q]].Rel)
			}
		}
		if incFirst {
			f.Body = incs + f.Body
		} else {
			f.Body += incs
		}
		files = append(files, f)
	}
	tc.Files = files
	tc.Envs = [][]string{nil}
	for k := r.Range(1, 2); k > 0; k-- {
		env := []string{fmt.Sprintf("KNUT_VERIF_SEED=%d", r.Range(1, 100000))}
		if p := Pick(r, []string{"", "1", "2", "16"}); p != "" {
			env = append(env, "GOMAXPROCS="+p)
		}
		tc.Envs = append(tc.Envs, env)
	}
	tc.Env = tc.Envs[0]
	tc.Tags = append(tc.Tags, "split-"+layout, fmt.Sprintf("split-files%d", len(files)))
	if sorted {
		tc.Tags = append(tc.Tags, "split-date-order")
	}
}

func c20Perm(r *RNG, n int) []int {
	p := make([]int, n)
	for i := range p {
		p[i] = i
	}
	for i := n - 1; i > 0; i-- {
		k := r.Intn(i + 1)
		p[i], p[k] = p[k], p[i]
	}
	return p
}

func tagged(tags []string, t string) bool {
	for _, x := range tags {
		if x == t {
			return true
		}
	}
	return false
}

func runC20(c *Ctx) {
	dir := filepath.Join(c.WorkDir, "c20")
	os.MkdirAll(dir, 0o755)
	runStream := func(stream string, lo, hi int) (disagree int) {
		for a := lo; a < hi; a += 4000 {
			var cases []*c20Case
			for i := a; i < min(a+4000, hi); i++ {
				if c.Want(stream, i) {
					tc := c20GenCase(c, stream, i)
					cases = append(cases, tc)
					for k := 1; k < len(tc.Envs); k++ { // the same case under another schedule
						again := *tc
						again.RunNo, again.Env = k, tc.Envs[k]
						cases = append(cases, &again)
					}
				}
			}
			parallelFor(len(cases), 16, func(k int) { cases[k].run(c, dir) })
			bt := c.NewBatch()
			flags := make([]bool, len(cases))
			for k, tc := range cases {
				flags[k] = true
				c20Check(c, bt, tc, &flags[k])
			}
			bt.Flush()
			for _, ok := range flags {
				if !ok {
					disagree++
				}
			}
		}
		return
	}
	n := c.N(3000, 80000)
	d := runStream("portfolio", 0, n)
	d += runStream("external", 0, n/3)
	d += runStream("noflow", 0, n/3)
	d += runStream("malformed", 0, n/4)
	d += runStream("mixed", 0, n/4)
	for a, nu := 0, c.N(400, 1500); a < nu; a += 400 { // in portions: the universe files are large
		d += runStream("universe", a, min(a+400, nu))
	}
	d += runStream("split", 0, c.N(300, 6000))
	d += runStream("annotated", 0, c.N(500, 10000))
	runC20UniverseReader(c, c.N(500, 3000))
	runDecStream(c, c.N(2000, 20000))
	if d > 0 && !c.Replay {
		c.Notes = append(c.Notes, fmt.Sprintf("directed search: %d disagreements, %d additional cases", d, 3*n))
		runStream("portfolio", n, 3*n)
		runStream("noflow", n/3, n)
	} else if c.Replay && c.OnlyIndex >= n/3 && (c.OnlyStr == "portfolio" || c.OnlyStr == "noflow") {
		runStream(c.OnlyStr, c.OnlyIndex, c.OnlyIndex+1)
	}
}
