import Knut.Generated.TransParser
import Knut.Syntax.Parser
import Knut.FactsAgree.TransScanner
/-!
# The translated `lib/syntax/parser` agrees with the model parser (`Knut/Syntax/Parser.lean`)

`Knut/Generated/TransParser.lean` is regenerated from /repo's `parser.go` on every run (`harness/trans_syntax*.go`).  The Go parser is
the scanner (embedded) plus the `Callback` field; `goParser text path cb s` is the Go parser that belongs to the model state `s` of a
scan of `text` (simulation relation of `TransScanner.lean`).  For every method:

  `Inv text fuel s → Agree text path cb conv (Go.method fuel (goParser text path cb s) …) (model.method … s)`

`Inv` = the simulation invariant `SimOK` and `fuel` above the number of unread tokens (every loop of the translation runs on that fuel:
the theorems prove it adequate — no `outOfFuel`, no slice panic).  `Agree`: on success the same state and the converted tree value
(`conv`), on an error the same state and the same error chain (`goErr`); next to an error Go also returns a partially filled tree, which
the model does not describe (it is existentially quantified here).  Loops and conditionals whose branches join in `Flow` are related by
`FlowAgree` (`agree_flow`, `flow_flow`).
-/
namespace Knut.FactsAgree.TransParser
open Knut Knut.GoSem Knut.Syntax Knut.Utf8
open Knut.Generated.Go
open Knut.FactsAgree.TransScanner

/-- the Go parser in the model state `s` of a scan of `text`; `cb` is the `Callback` field (nil or not) -/
def goParser (text : Bytes) (path : String) (cb : Syn.Proc) (s : St) : parser.Parser :=
  { Scanner := goScanner text path s, Callback := cb }

@[simp] theorem goParser_Scanner (text : Bytes) (path : String) (cb : Syn.Proc) (s : St) :
    (goParser text path cb s).Scanner = goScanner text path s := rfl

@[simp] theorem goParser_with (text : Bytes) (path : String) (cb : Syn.Proc) (s s' : St) :
    { goParser text path cb s with Scanner := goScanner text path s' } = goParser text path cb s' := rfl

/-- decoding splits along a token prefix -/
theorem decodeAll_split : ∀ (c : List Tok) (bs : List UInt8) (r : List Tok), decodeAll bs = c ++ r →
    r = decodeAll (bs.drop (wsum c)) := by
  intro c
  induction c with
  | nil => intro bs r h; simpa using h.symm
  | cons t ts ih =>
    intro bs r h
    obtain ⟨_, _, hrest, _, _⟩ := decodeAll_eq_cons (t := t) (rest := ts ++ r) (by simpa using h)
    have := ih _ _ hrest.symm
    rw [this, List.drop_drop]
    simp

/-- the simulation invariant is kept by consuming tokens -/
theorem SimOK.ext {text : Bytes} {s s' : St} (h : SimOK text s) (he : Ext s s') : SimOK text s' := by
  obtain ⟨c, hc, ho⟩ := he
  obtain ⟨hle, hk⟩ := h
  rcases hk with hk | ⟨hk, hoff⟩
  · rw [hc] at hk
    have hr := decodeAll_split c _ _ hk.symm
    rw [List.drop_drop] at hr
    have hlen : wsum c + wsum s'.toks = text.length - s.off := by
      have := congrArg wsum hk
      rw [wsum_append, wsum_decodeAll, List.length_drop] at this
      exact this
    refine ⟨by omega, Or.inl ?_⟩
    rw [hr, ho]
  · rw [hc] at hk
    cases c with
    | nil =>
      simp only [List.nil_append] at hk
      simp only [wsum_nil, Nat.add_zero] at ho
      exact ⟨by omega, Or.inr ⟨hk, by omega⟩⟩
    | cons t ts =>
      have hts : ts = [] ∧ s'.toks = [] ∧ t = eofTok := by
        simp only [List.cons_append, List.cons.injEq, List.append_eq_nil_iff] at hk
        exact ⟨hk.2.1, hk.2.2, hk.1⟩
      obtain ⟨h1, h2, h3⟩ := hts
      subst h1 h3
      simp only [wsum_cons, wsum_nil, eofTok, List.length_nil, Nat.add_zero] at ho
      refine ⟨by omega, Or.inl ?_⟩
      rw [h2, ho, hoff]
      simp

/-- what every agreement theorem assumes of the state: it is in the simulation and the fuel exceeds the number of unread tokens -/
def Inv (text : Bytes) (fuel : Nat) (s : St) : Prop := SimOK text s ∧ s.toks.length < fuel

theorem Inv.ext {text : Bytes} {fuel : Nat} {s s' : St} (h : Inv text fuel s) (he : Ext s s') : Inv text fuel s' :=
  ⟨SimOK.ext h.1 he, by have := he.length_le; have := h.2; omega⟩

/-- **agreement** of the outcome of a translated parser method with the model's result: the same state, the same value resp. the same
error chain; next to an error Go also returns a partially filled value `pv`, which the model does not describe -/
def Agree {α β} (text : Bytes) (path : String) (cb : Syn.Proc) (conv : α → β)
    (out : Outcome (parser.Parser × β × directives.GoError)) (res : Res α) : Prop :=
  match res with
  | .ok a s' => out = .ok (goParser text path cb s', conv a, .nil)
  | .err e s' => e ≠ [] ∧ ∃ pv, out = .ok (goParser text path cb s', pv, goErr text path e)

theorem agree_err {α β} {text : Bytes} {path : String} {cb : Syn.Proc} {conv : α → β} {p : parser.Parser} {pv : β}
    {g : directives.GoError} {e : Err} {s' : St} (hne : e ≠ []) (hp : p = goParser text path cb s') (hg : g = goErr text path e) :
    Agree text path cb conv (.ok (p, pv, g)) (.err e s') := by
  subst hp hg; exact ⟨hne, pv, rfl⟩

theorem agree_ok {α β} {text : Bytes} {path : String} {cb : Syn.Proc} {conv : α → β} {p : parser.Parser} {v : β}
    {g : directives.GoError} {a : α} {s' : St} (hp : p = goParser text path cb s') (hv : v = conv a) (hg : g = .nil) :
    Agree text path cb conv (.ok (p, v, g)) (.ok a s') := by
  subst hp hv hg; rfl

/-- a scanner call from an invariant state: either it succeeded (and the new state is in the invariant) or it failed -/
theorem scan_step {text : Bytes} {path : String} {fuel : Nat} {s : St} {start : Nat}
    {call : Outcome (scanner.Scanner × directives.Range × directives.GoError)} {r1 : Res Syntax.Range}
    (h : call = .ok (goResR text path start r1) ∧ Post text r1) (hinv : Inv text fuel s) (hext : Ext s r1.st) :
    (∃ x s', r1 = .ok x s' ∧ call = .ok (goScanner text path s', goRange text path x, .nil) ∧ Inv text fuel s') ∨
    (∃ e s', r1 = .err e s' ∧ e ≠ [] ∧
      call = .ok (goScanner text path s', goRange text path ⟨start, s'.off⟩, goErr text path e)) := by
  cases hr : r1 with
  | ok x s' =>
    rw [hr] at h hext
    exact Or.inl ⟨x, s', rfl, h.1, hinv.ext hext⟩
  | err e s' =>
    rw [hr] at h
    exact Or.inr ⟨e, s', rfl, h.2.2 e s' rfl, h.1⟩

/-- the same for a call of a translated parser method -/
theorem parse_step {α β} {text : Bytes} {path : String} {cb : Syn.Proc} {fuel : Nat} {s : St} {conv : α → β}
    {call : Outcome (parser.Parser × β × directives.GoError)} {r1 : Res α}
    (h : Agree text path cb conv call r1) (hinv : Inv text fuel s) (hext : Ext s r1.st) :
    (∃ a s', r1 = .ok a s' ∧ call = .ok (goParser text path cb s', conv a, .nil) ∧ Inv text fuel s') ∨
    (∃ e s' pv, r1 = .err e s' ∧ e ≠ [] ∧ call = .ok (goParser text path cb s', pv, goErr text path e)) := by
  cases hr : r1 with
  | ok a s' =>
    rw [hr] at h hext
    exact Or.inl ⟨a, s', rfl, h, hinv.ext hext⟩
  | err e s' =>
    rw [hr] at h
    obtain ⟨hne, pv, hc⟩ := h
    exact Or.inr ⟨e, s', pv, rfl, hne, hc⟩


/-! ### the predicates -/

theorem nat_beq (a b : Nat) : (a == b) = decide (a = b) := by
  by_cases h : a = b <;> simp [h]
theorem nat_bne (a b : Nat) : (a != b) = !decide (a = b) := by
  by_cases h : a = b <;> simp [h]

theorem dom_cases {r : Nat} (h : r < 0x200000 ∨ r = EOF) : (goRune r = (r : Int) ∧ r < 0x200000) ∨ (goRune r = -1 ∧ r = EOF) := by
  rcases h with h | h
  · exact Or.inl ⟨goRune_of_lt (by omega), h⟩
  · exact Or.inr ⟨by rw [h]; exact goRune_EOF, h⟩

theorem pred_IsDigit : PredAgrees Syn.IsDigit isDigit := by
  intro r h
  rcases dom_cases h with ⟨h1, _⟩ | ⟨h1, h2⟩
  · rw [h1]; simp [Syn.IsDigit]
  · rw [h1, h2, eof_not_digit]; rfl

theorem pred_IsLetter : PredAgrees Syn.IsLetter isLetter := by
  intro r h
  rcases dom_cases h with ⟨h1, _⟩ | ⟨h1, h2⟩
  · rw [h1]; simp [Syn.IsLetter]
  · rw [h1, h2, eof_not_letter]; rfl

theorem pred_isAlphanumeric : PredAgrees parser.isAlphanumeric isAlphanumeric := by
  intro r h
  simp only [parser.isAlphanumeric, isAlphanumeric, pred_IsLetter r h, pred_IsDigit r h]

theorem go_isWhitespace {r : Nat} (h : r < 0x200000 ∨ r = EOF) : parser.isWhitespace (goRune r) = isWhitespace r := by
  rcases dom_cases h with ⟨h1, h2⟩ | ⟨h1, h2⟩
  · rw [h1]; simp only [parser.isWhitespace, isWhitespace]
    have e1 : ((r : Int) = 32) ↔ r = 32 := by omega
    have e2 : ((r : Int) = 9) ↔ r = 9 := by omega
    have e3 : ((r : Int) = 13) ↔ r = 13 := by omega
    simp [e1, e2, e3, nat_beq, nat_bne]
  · rw [h1, h2]; decide

theorem pred_isWhitespace : PredAgrees parser.isWhitespace isWhitespace := fun _ h => go_isWhitespace h

theorem go_isNewline {r : Nat} (h : r < 0x200000 ∨ r = EOF) : parser.isNewline (goRune r) = isNewline r := by
  rcases dom_cases h with ⟨h1, h2⟩ | ⟨h1, h2⟩
  · rw [h1]; simp only [parser.isNewline, isNewline]
    have e1 : ((r : Int) = 10) ↔ r = 10 := by omega
    simp [e1, nat_beq, nat_bne]
  · rw [h1, h2]; decide

theorem go_isWhitespaceOrNewline {r : Nat} (h : r < 0x200000 ∨ r = EOF) :
    parser.isWhitespaceOrNewline (goRune r) = isWhitespaceOrNewline r := by
  simp only [parser.isWhitespaceOrNewline, isWhitespaceOrNewline, go_isNewline h, go_isWhitespace h]

theorem pred_notNewlineOrEOF : PredAgrees (fun r => !parser.isNewlineOrEOF r) (fun r => !isNewlineOrEOF r) := by
  intro r h
  rcases dom_cases h with ⟨h1, h2⟩ | ⟨h1, h2⟩
  · simp only [h1, parser.isNewlineOrEOF, isNewlineOrEOF, EOF]
    have e1 : ((r : Int) = 10) ↔ r = 10 := by omega
    have e2 : ¬ ((r : Int) = -1) := by omega
    have e3 : ¬ (r = 0xFFFFFFFF) := by omega
    simp [e1, e2, e3, nat_beq, nat_bne]
  · simp only [h1, h2]; decide

theorem pred_ne (c : Nat) (hc : c < 0x200000) : PredAgrees (fun r => !decide (r = (c : Int))) (fun r => r != c) := by
  intro r h
  rcases dom_cases h with ⟨h1, h2⟩ | ⟨h1, h2⟩
  · simp only [h1]
    have e1 : ((r : Int) = (c : Int)) ↔ r = c := by omega
    simp [e1, nat_beq, nat_bne]
  · have e1 : ¬ ((-1 : Int) = (c : Int)) := by omega
    have e2 : ¬ (EOF = c) := by simp only [EOF]; omega
    simp [h2, goRune_EOF, e1, e2, nat_beq, nat_bne]

/-- `p.Current() == c` for an ordinary rune `c` -/
theorem cur_eq_lit {text : Bytes} {s : St} (h : SimOK text s) (ci : Int) (c : Nat) (hci : ci = (c : Int)) (hc : c < 0x200000) :
    (goRune (cur s) = ci) ↔ cur s = c := by
  subst hci
  rcases dom_cases h.cur_dom with ⟨h1, h2⟩ | ⟨h1, h2⟩
  · rw [h1]; omega
  · rw [h1, h2]; simp only [EOF]; omega


/-! ### agreement inside loops and joined conditionals -/

section
variable {text : Bytes} {path : String} {cb : Syn.Proc} {fuel : Nat} {s : St}

/-- agreement of a Go loop / joined conditional (fall through with the state `emb c s1` | return) with a model computation `A` -/
def FlowAgree {β γ σ : Type} (text : Bytes) (path : String) (cb : Syn.Proc) (fuel : Nat) (emb : γ → St → σ)
    (X : Outcome (Flow σ (parser.Parser × β × directives.GoError))) (A : Res γ) : Prop :=
  match A with
  | .ok c s1 => X = .ok (Flow.next (emb c s1)) ∧ Inv text fuel s1
  | .err e s1 => e ≠ [] ∧ ∃ pv, X = .ok (Flow.ret (goParser text path cb s1, pv, goErr text path e))

theorem flow_ok {β γ σ : Type} {emb : γ → St → σ} {st : σ} {c : γ} {s1 : St} (hst : st = emb c s1) (hi : Inv text fuel s1) :
    FlowAgree (β := β) text path cb fuel emb (.ok (Flow.next st)) (.ok c s1) := by
  subst hst; exact ⟨rfl, hi⟩

theorem flow_err {β γ σ : Type} {emb : γ → St → σ} {p : parser.Parser} {pv : β} {g : directives.GoError} {e : Err} {s1 : St}
    (hne : e ≠ []) (hp : p = goParser text path cb s1) (hg : g = goErr text path e) :
    FlowAgree text path cb fuel emb (.ok (Flow.ret (p, pv, g))) (.err e s1 : Res γ) := by
  subst hp hg; exact ⟨hne, pv, rfl⟩

/-- function level: a `Flow` outcome followed by the rest of the function; the model's prefix `A` passes its error through -/
theorem agree_flow {α β γ σ : Type} {conv : α → β} {emb : γ → St → σ}
    {J : Flow σ (parser.Parser × β × directives.GoError) → Outcome (parser.Parser × β × directives.GoError)}
    {X : Outcome (Flow σ (parser.Parser × β × directives.GoError))} {A : Res γ} {f : γ → St → Res α}
    (hX : FlowAgree text path cb fuel emb X A)
    (hK : ∀ c s1, Inv text fuel s1 → A = .ok c s1 → Agree text path cb conv (J (Flow.next (emb c s1))) (f c s1))
    (hJ : ∀ v, J (Flow.ret v) = .ok v) :
    Agree text path cb conv (X.bind J) (A.bind (fun e _ => e) f) := by
  cases A with
  | ok c s1 =>
    obtain ⟨hx, hi⟩ := hX
    rw [hx]
    exact hK c s1 hi rfl
  | err e s1 =>
    obtain ⟨hne, pv, hx⟩ := hX
    rw [hx]
    simp only [Outcome.bind, hJ, Res.bind]
    exact agree_err hne rfl rfl

/-- inside a loop or a join: a `Flow` outcome followed by the rest of the body -/
theorem flow_flow {β γ γ' σ σ' : Type} {emb : γ → St → σ} {emb' : γ' → St → σ'}
    {J : Flow σ (parser.Parser × β × directives.GoError) → Outcome (Flow σ' (parser.Parser × β × directives.GoError))}
    {X : Outcome (Flow σ (parser.Parser × β × directives.GoError))} {A : Res γ} {f : γ → St → Res γ'}
    (hX : FlowAgree text path cb fuel emb X A)
    (hK : ∀ c s1, Inv text fuel s1 → A = .ok c s1 → FlowAgree text path cb fuel emb' (J (Flow.next (emb c s1))) (f c s1))
    (hJ : ∀ v, J (Flow.ret v) = .ok (Flow.ret v)) :
    FlowAgree text path cb fuel emb' (X.bind J) (A.bind (fun e _ => e) f) := by
  cases A with
  | ok c s1 =>
    obtain ⟨hx, hi⟩ := hX
    rw [hx]
    exact hK c s1 hi rfl
  | err e s1 =>
    obtain ⟨hne, pv, hx⟩ := hX
    rw [hx]
    simp only [Outcome.bind, hJ, Res.bind]
    exact flow_err hne rfl rfl

theorem Res.bind_assoc_id {α β γ} (r : Res α) (on : Err → St → Err) (f : α → St → Res β) (g : β → St → Res γ) :
    (r.bind on f).bind (fun e _ => e) g = r.bind on (fun a s => (f a s).bind (fun e _ => e) g) := by
  cases r <;> rfl

theorem annotate_ne (desc : String) (start : Nat) (e : Err) (s : St) : annotate desc start e s ≠ [] := by
  simp [annotate]

theorem cur_eof' (h : Inv text fuel s) : goRune (cur s) = -1 ↔ atEOF s = true := h.1.cur_eof

@[simp] theorem obind_ok {α β : Type} (a : α) (f : α → Outcome β) : Outcome.bind (.ok a) f = f a := rfl
@[simp] theorem rbind_ok {α β} (a : α) (s : St) (on : Err → St → Err) (f : α → St → Res β) : (Res.ok a s).bind on f = f a s := rfl
@[simp] theorem rbind_err {α β} (e : Err) (s : St) (on : Err → St → Err) (f : α → St → Res β) :
    (Res.err e s : Res α).bind on f = .err (on e s) s := rfl

/-! ### tactics for one call -/

/-- closes the error case of a call (function level or inside a loop/join): Go returns `s.Annotate(err)`, the model
`annotate desc start e s'` -/
macro "call_err " hne:term : tactic =>
  `(tactic| (simp only [obind_ok, rbind_ok, rbind_err, goParser_with, goParser_Scanner, decide_eq_true_eq, (goErr_ne_nil _ _ $hne), not_false_eq_true,
      decide_true, decide_false, Bool.not_false, Bool.not_true, if_true, if_false, go_Range, go_Annotate, go_Scope]; first | exact agree_err (annotate_ne _ _ _ _) rfl rfl | exact agree_err $hne rfl rfl | exact flow_err (annotate_ne _ _ _ _) rfl rfl | exact flow_err $hne rfl rfl))

/-- reduces the success case of a call -/
macro "go_ok" : tactic =>
  `(tactic| simp only [obind_ok, rbind_ok, rbind_err, goParser_with, goParser_Scanner, decide_true, Bool.not_true, Bool.false_eq_true, if_false,
      go_Range, go_Scope, go_Current])

/-- a call of a translated parser method: the error case is closed, the success case continues with the new state -/
macro "pcall " t:term " , " hinv:term " , " ext:term " => " a:ident s:ident hm:ident h:ident : tactic =>
  `(tactic| (rcases parse_step $t $hinv $ext with ⟨$a:ident, $s:ident, $hm:ident, hc, $h:ident⟩ | ⟨e, $s:ident, pv, $hm:ident, hne, hc⟩; rotate_left; (· (rw [hc, $hm:ident]; call_err hne)); rw [hc, $hm:ident]; go_ok))

/-- a call of a scanner method -/
macro "scall " t:term " , " hinv:term " , " ext:term " => " a:ident s:ident hm:ident h:ident : tactic =>
  `(tactic| (rcases scan_step $t $hinv $ext with ⟨$a:ident, $s:ident, $hm:ident, hc, $h:ident⟩ | ⟨e, $s:ident, $hm:ident, hne, hc⟩; rotate_left; (· (rw [hc, $hm:ident]; call_err hne)); rw [hc, $hm:ident]; go_ok))

/-- `ReadCharacter` with a literal rune -/
theorem ReadCharacter_lit (h : SimOK text s) (ci : Int) (c : Nat) (hci : ci = (c : Int)) (hc : c < 2 ^ 31) :
    scanner.Scanner.ReadCharacter (goScanner text path s) ci = .ok (goResR text path s.off (readCharacter c s)) ∧
      Post text (readCharacter c s) := by
  have := ReadCharacter_agrees (path := path) h (r := c) (by omega)
  rw [goRune_of_lt hc] at this
  subst hci
  exact this

/-! ### the small readers -/

/-- `Parser.readWhitespace1` -/
theorem readWhitespace1_agrees (h : Inv text fuel s) :
    Agree text path cb (goRange text path) (parser.Parser.readWhitespace1 fuel (goParser text path cb s)) (readWhitespace1 s) := by
  unfold parser.Parser.readWhitespace1 readWhitespace1
  simp only [goParser_Scanner, go_Scope, go_Current, go_Range, go_isWhitespaceOrNewline h.1.cur_dom, decide_eq_true_eq, cur_eof' h]
  by_cases hc : (!isWhitespaceOrNewline (cur s) && !atEOF s) = true
  · have hc' : (!isWhitespaceOrNewline (cur s) && !decide (atEOF s = true)) = true := by simpa using hc
    rw [if_pos hc', if_pos hc]
    exact agree_err (by simp) rfl (by simp [goErr_single, goFrame, rng, Fmt_c_goRune h.1.cur_lt])
  · have hc' : ¬ ((!isWhitespaceOrNewline (cur s) && !decide (atEOF s = true)) = true) := by simpa using hc
    rw [if_neg hc', if_neg hc]
    rcases scan_step (ReadWhile_agrees (path := path) h.1 h.2 pred_isWhitespace) h (readWhile_ext _ _) with
      ⟨x, s1, hm, hcall, h1⟩ | ⟨e, s1, hm, hne, hcall⟩
    · rw [hcall, hm]; exact agree_ok rfl rfl rfl
    · rw [hcall, hm]; exact agree_err hne rfl rfl

/-- `Parser.readRestOfWhitespaceLine` -/
theorem readRestOfWhitespaceLine_agrees (h : Inv text fuel s) :
    Agree text path cb (goRange text path) (parser.Parser.readRestOfWhitespaceLine fuel (goParser text path cb s))
      (readRestOfWhitespaceLine s) := by
  unfold parser.Parser.readRestOfWhitespaceLine readRestOfWhitespaceLine
  simp only [goParser_Scanner, go_Scope]
  scall (ReadWhile_agrees (path := path) h.1 h.2 pred_isWhitespace), h, (readWhile_ext _ _) => x1 s1 hm1 h1
  simp only [decide_eq_true_eq, cur_eof' h1]
  by_cases hE : atEOF s1 = true
  · simp only [hE, if_true]; exact agree_ok rfl rfl rfl
  · simp only [hE, if_false, Bool.false_eq_true]
    scall (ReadCharacter_lit (path := path) h1.1 10 10 rfl (by decide)), h1, (readCharacter_ext _ _) => x2 s2 hm2 h2
    exact agree_ok rfl rfl rfl

/-- `Parser.readComment` -/
theorem readComment_agrees (h : Inv text fuel s) :
    Agree text path cb (goRange text path) (parser.Parser.readComment fuel (goParser text path cb s)) (readComment s) := by
  unfold parser.Parser.readComment readComment
  simp only [goParser_Scanner, go_Scope]
  have hq : ∀ t ∈ ["*", "//", "#"], Plain t := by decide
  have hA := ReadAlternative_agrees (path := path) h.1 ["*", "//", "#"] hq
  simp only [List.map_cons, List.map_nil] at hA
  rw [hA.1]
  cases hm : readAlternative ["*", "//", "#"] s with
  | err e s1 =>
    have hne := hA.2.2 e s1 hm
    simp only [Res.map, goResR]
    call_err hne
  | ok rt s1 =>
    have h1 : Inv text fuel s1 := h.ext (ext_of_ok (readAlternative_ext _ _) hm)
    simp only [Res.map, goResR]
    go_ok
    scall (ReadWhile_agrees (path := path) h1.1 h1.2 pred_notNewlineOrEOF), h1, (readWhile_ext _ _) => x2 s2 hm2 h2
    exact agree_ok rfl rfl rfl

/-! ### conversions of the syntax tree -/

def goCommodity (text : Bytes) (path : String) (c : Syntax.Commodity) : directives.Commodity := ⟨goRange text path c.range⟩
def goDate (text : Bytes) (path : String) (d : Syntax.Date) : directives.Date := ⟨goRange text path d.range⟩
def goDecimal (text : Bytes) (path : String) (d : Syntax.Decimal) : directives.Decimal := ⟨goRange text path d.range⟩
def goInterval (text : Bytes) (path : String) (d : Syntax.Interval) : directives.Interval := ⟨goRange text path d.range⟩
def goAccount (text : Bytes) (path : String) (a : Syntax.Account) : directives.Account := ⟨goRange text path a.range, a.isMacro⟩
def goQuoted (text : Bytes) (path : String) (q : Syntax.QuotedString) : directives.QuotedString :=
  ⟨goRange text path q.range, goRange text path q.content⟩

/-! ### the leaf parsers -/

/-- `Parser.parseCommodity` -/
theorem parseCommodity_agrees (h : Inv text fuel s) :
    Agree text path cb (goCommodity text path) (parser.Parser.parseCommodity fuel (goParser text path cb s)) (parseCommodity s) := by
  unfold parser.Parser.parseCommodity parseCommodity
  simp only [goParser_Scanner, go_Scope]
  scall (ReadWhile1_agrees (path := path) h.1 h.2 "a letter or a digit" pred_isAlphanumeric), h, (readWhile1_ext _ _ _) => x1 s1 hm1 h1
  exact agree_ok rfl rfl rfl

/-- `Parser.parseQuotedString` -/
theorem parseQuotedString_agrees (h : Inv text fuel s) :
    Agree text path cb (goQuoted text path) (parser.Parser.parseQuotedString fuel (goParser text path cb s)) (parseQuotedString s) := by
  unfold parser.Parser.parseQuotedString parseQuotedString
  simp only [goParser_Scanner, go_Scope]
  have hp : PredAgrees (fun r : Int => !decide (r = (34 : Int))) (fun r => r != 34) := pred_ne 34 (by decide)
  scall (ReadCharacter_lit (path := path) h.1 34 34 rfl (by decide)), h, (readCharacter_ext _ _) => x1 s1 hm1 h1
  scall (ReadWhile_agrees (path := path) h1.1 h1.2 hp), h1, (readWhile_ext _ _) => x2 s2 hm2 h2
  scall (ReadCharacter_lit (path := path) h2.1 34 34 rfl (by decide)), h2, (readCharacter_ext _ _) => x3 s3 hm3 h3
  exact agree_ok rfl rfl rfl

/-- `Parser.parseInterval` -/
theorem parseInterval_agrees (h : Inv text fuel s) :
    Agree text path cb (goInterval text path) (parser.Parser.parseInterval (goParser text path cb s)) (parseInterval s) := by
  unfold parser.Parser.parseInterval parseInterval
  simp only [goParser_Scanner, go_Scope]
  have hq : ∀ t ∈ ["daily", "weekly", "monthly", "quarterly"], Plain t := by decide
  have hA := ReadAlternative_agrees (path := path) h.1 ["daily", "weekly", "monthly", "quarterly"] hq
  simp only [List.map_cons, List.map_nil] at hA
  rw [hA.1]
  cases hm : readAlternative ["daily", "weekly", "monthly", "quarterly"] s with
  | err e s1 =>
    have hne := hA.2.2 e s1 hm
    simp only [Res.map, goResR]
    call_err hne
  | ok rt s1 =>
    simp only [Res.map, goResR]
    go_ok; exact agree_ok rfl rfl rfl

/-- `Parser.parseDecimal` -/
theorem parseDecimal_agrees (h : Inv text fuel s) :
    Agree text path cb (goDecimal text path) (parser.Parser.parseDecimal fuel (goParser text path cb s)) (parseDecimal s) := by
  unfold parser.Parser.parseDecimal parseDecimal
  simp only [goParser_Scanner, go_Scope, go_Current, decide_eq_true_eq]
  refine agree_flow (fuel := fuel) (emb := fun (_ : Unit) s1 => goParser text path cb s1) ?_ ?_ (fun _ => rfl)
  · -- the optional sign
    simp only [cur_eq_lit h.1 45 45 rfl (by decide)]
    by_cases hc : cur s = 45
    · have hb : (cur s == 45) = true := by simp [hc]
      simp only [hc, if_true, hb]
      scall (ReadCharacter_lit (path := path) h.1 45 45 rfl (by decide)), h, (readCharacter_ext _ _) => x1 s1 hm1 h1
      exact flow_ok rfl h1
    · have hb : (cur s == 45) = false := by simpa using hc
      simp only [hc, hb, Bool.false_eq_true, if_false]
      exact flow_ok rfl h
  · -- the digits
    intro _ s1 h1 _
    simp only [goParser_Scanner]
    scall (ReadWhile1_agrees (path := path) h1.1 h1.2 "a digit" pred_IsDigit), h1, (readWhile1_ext _ _ _) => x2 s2 hm2 h2
    simp only [decide_eq_true_eq, cur_eq_lit h2.1 46 46 rfl (by decide)]
    by_cases hd : cur s2 = 46
    · have hb : (cur s2 != 46) = false := by simp [hd]
      simp only [hd, not_true_eq_false, decide_false, Bool.false_eq_true, if_false, hb]
      scall (ReadCharacter_lit (path := path) h2.1 46 46 rfl (by decide)), h2, (readCharacter_ext _ _) => x3 s3 hm3 h3
      scall (ReadWhile1_agrees (path := path) h3.1 h3.2 "a digit" pred_IsDigit), h3, (readWhile1_ext _ _ _) => x4 s4 hm4 h4
      exact agree_ok rfl rfl rfl
    · have hb : (cur s2 != 46) = true := by simpa using hd
      simp only [hd, not_false_eq_true, decide_true, if_true, hb]
      exact agree_ok rfl rfl rfl

/-- the loop of `parseAccount` is `accountLoop` -/
theorem parseAccount_loop_agrees (start : Nat) :
    ∀ (n : Nat) (s1 : St), Inv text fuel s1 → s1.toks.length < n →
      Agree text path cb (goAccount text path)
        (parser.Parser.parseAccount.loop1 fuel ⟨Syn.lit "parsing account", (start : Int)⟩ n (goParser text path cb s1))
        (accountLoop start s1) := by
  intro n
  induction n with
  | zero => intro s1 _ hn; omega
  | succ n ih =>
    intro s1 h1 hn
    unfold parser.Parser.parseAccount.loop1
    rw [accountLoop_eq]
    simp only [goParser_Scanner, go_Current, go_Range, decide_eq_true_eq, cur_eq_lit h1.1 58 58 rfl (by decide)]
    by_cases hd : cur s1 = 58
    · have hb : (cur s1 != 58) = false := by simp [hd]
      simp only [hd, not_true_eq_false, decide_false, Bool.false_eq_true, if_false, hb]
      scall (ReadCharacter_lit (path := path) h1.1 58 58 rfl (by decide)), h1, (readCharacter_ext _ _) => x2 s2 hm2 h2
      scall (ReadWhile1_agrees (path := path) h2.1 h2.2 "a letter or a digit" pred_isAlphanumeric), h2, (readWhile1_ext _ _ _) => x3 s3 hm3 h3
      have l2 := (readCharacter_extS _ _ _ _ hm2).length_lt
      have l3 := (ext_of_ok (readWhile1_ext _ _ _) hm3).length_le
      exact ih s3 h3 (by omega)
    · have hb : (cur s1 != 58) = true := by simpa using hd
      simp only [hd, not_false_eq_true, decide_true, if_true, hb]
      exact agree_ok rfl rfl rfl

/-- `Parser.parseAccount` -/
theorem parseAccount_agrees (h : Inv text fuel s) :
    Agree text path cb (goAccount text path) (parser.Parser.parseAccount fuel (goParser text path cb s)) (parseAccount s) := by
  unfold parser.Parser.parseAccount parseAccount
  simp only [goParser_Scanner, go_Scope, go_Current, decide_eq_true_eq, cur_eq_lit h.1 36 36 rfl (by decide)]
  by_cases hd : cur s = 36
  · have hb : (cur s == 36) = true := by simp [hd]
    simp only [hd, if_true, hb]
    scall (ReadCharacter_lit (path := path) h.1 36 36 rfl (by decide)), h, (readCharacter_ext _ _) => x2 s2 hm2 h2
    scall (ReadWhile1_agrees (path := path) h2.1 h2.2 "a letter" pred_IsLetter), h2, (readWhile1_ext _ _ _) => x3 s3 hm3 h3
    exact agree_ok rfl rfl rfl
  · have hb : (cur s == 36) = false := by simpa using hd
    simp only [hd, hb, Bool.false_eq_true, if_false]
    scall (ReadWhile1_agrees (path := path) h.1 h.2 "a letter or a digit" pred_isAlphanumeric), h, (readWhile1_ext _ _ _) => x3 s3 hm3 h3
    exact parseAccount_loop_agrees s.off fuel s3 h3 h3.2

/-! ### parseDate -/

/-- `k` digits, each error decorated -/
def digitsA (desc : String) (start : Nat) : Nat → St → Res Unit
  | 0, s => .ok () s
  | k + 1, s => (readCharacterWith "a digit" isDigit s).bind (annotate desc start) fun _ s => digitsA desc start k s

theorem digitsA_ext (desc : String) (start : Nat) : ∀ (k : Nat) (s : St), Ext s (digitsA desc start k s).st := by
  intro k
  induction k with
  | zero => intro s; exact Ext.refl _
  | succ k ih =>
    intro s
    simp only [digitsA]
    exact Res.bind_ext (readCharacterWith_ext _ _ _) fun _ s1 _ => ih s1

theorem parseDate_loop1_agrees (start : Nat) :
    ∀ (k : Nat) (n : Nat) (s1 : St), k ≤ 4 → Inv text fuel s1 → s1.toks.length < n →
      FlowAgree (β := directives.Date) text path cb fuel (fun (_ : Unit) s' => (goParser text path cb s', (4 : Int)))
        (parser.Parser.parseDate.loop1 fuel ⟨Syn.lit "parsing the date", (start : Int)⟩ n (goParser text path cb s1) ((4 - k : Nat) : Int))
        (digitsA "parsing the date" start k s1) := by
  intro k
  induction k with
  | zero =>
    intro n s1 _ h1 _
    unfold parser.Parser.parseDate.loop1
    simp only [digitsA, Nat.sub_zero, Int.lt_irrefl, decide_false, Bool.false_eq_true, if_false]
    exact flow_ok rfl h1
  | succ k ih =>
    intro n s1 hk h1 hn
    unfold parser.Parser.parseDate.loop1
    have hlt : ((4 - (k + 1) : Nat) : Int) < 4 := by omega
    simp only [hlt, decide_true, if_true, digitsA]
    obtain ⟨n', rfl⟩ : ∃ n', n = n' + 1 := ⟨n - 1, by omega⟩
    simp only [goParser_Scanner]
    scall (ReadCharacterWith_agrees (path := path) h1.1 "a digit" pred_IsDigit), h1, (readCharacterWith_ext _ _ _) => x2 s2 hm2 h2
    have l2 := (readCharacterWith_extS _ _ _ _ _ hm2).length_lt
    have hi : ((4 - (k + 1) : Nat) : Int) + 1 = ((4 - k : Nat) : Int) := by omega
    rw [hi]
    exact ih n' s2 (by omega) h2 (by omega)

theorem parseDate_loop3_agrees (start : Nat) :
    ∀ (k : Nat) (n : Nat) (s1 : St), k ≤ 2 → Inv text fuel s1 → s1.toks.length < n →
      FlowAgree (β := directives.Date) text path cb fuel (fun (_ : Unit) s' => (goParser text path cb s', (2 : Int)))
        (parser.Parser.parseDate.loop3 fuel ⟨Syn.lit "parsing the date", (start : Int)⟩ n (goParser text path cb s1) ((2 - k : Nat) : Int))
        (digitsA "parsing the date" start k s1) := by
  intro k
  induction k with
  | zero =>
    intro n s1 _ h1 _
    unfold parser.Parser.parseDate.loop3
    simp only [digitsA, Nat.sub_zero, Int.lt_irrefl, decide_false, Bool.false_eq_true, if_false]
    exact flow_ok rfl h1
  | succ k ih =>
    intro n s1 hk h1 hn
    unfold parser.Parser.parseDate.loop3
    have hlt : ((2 - (k + 1) : Nat) : Int) < 2 := by omega
    simp only [hlt, decide_true, if_true, digitsA]
    obtain ⟨n', rfl⟩ : ∃ n', n = n' + 1 := ⟨n - 1, by omega⟩
    simp only [goParser_Scanner]
    scall (ReadCharacterWith_agrees (path := path) h1.1 "a digit" pred_IsDigit), h1, (readCharacterWith_ext _ _ _) => x2 s2 hm2 h2
    have l2 := (readCharacterWith_extS _ _ _ _ _ hm2).length_lt
    have hi : ((2 - (k + 1) : Nat) : Int) + 1 = ((2 - k : Nat) : Int) := by omega
    rw [hi]
    exact ih n' s2 (by omega) h2 (by omega)

/-- `k` groups `-dd` -/
def dashDigitsA (desc : String) (start : Nat) : Nat → St → Res Unit
  | 0, s => .ok () s
  | k + 1, s =>
    (readCharacter 45 s).bind (annotate desc start) fun _ s =>
    (digitsA desc start 2 s).bind (fun e _ => e) fun _ s => dashDigitsA desc start k s

theorem parseDate_loop2_agrees (start : Nat) :
    ∀ (k : Nat) (n : Nat) (s1 : St), k ≤ 2 → Inv text fuel s1 → s1.toks.length < n →
      FlowAgree (β := directives.Date) text path cb fuel (fun (_ : Unit) s' => (goParser text path cb s', (2 : Int)))
        (parser.Parser.parseDate.loop2 fuel ⟨Syn.lit "parsing the date", (start : Int)⟩ n (goParser text path cb s1) ((2 - k : Nat) : Int))
        (dashDigitsA "parsing the date" start k s1) := by
  intro k
  induction k with
  | zero =>
    intro n s1 _ h1 _
    unfold parser.Parser.parseDate.loop2
    simp only [dashDigitsA, Nat.sub_zero, Int.lt_irrefl, decide_false, Bool.false_eq_true, if_false]
    exact flow_ok rfl h1
  | succ k ih =>
    intro n s1 hk h1 hn
    unfold parser.Parser.parseDate.loop2
    have hlt : ((2 - (k + 1) : Nat) : Int) < 2 := by omega
    simp only [hlt, decide_true, if_true, dashDigitsA]
    obtain ⟨n', rfl⟩ : ∃ n', n = n' + 1 := ⟨n - 1, by omega⟩
    simp only [goParser_Scanner]
    scall (ReadCharacter_lit (path := path) h1.1 45 45 rfl (by decide)), h1, (readCharacter_ext _ _) => x2 s2 hm2 h2
    have l2 := (readCharacter_extS _ _ _ _ hm2).length_lt
    have h3' := parseDate_loop3_agrees (text := text) (path := path) (cb := cb) start 2 fuel s2 (by omega) h2 h2.2
    change FlowAgree _ _ _ _ _ (parser.Parser.parseDate.loop3 _ _ _ _ (0 : Int)) _ at h3'
    refine flow_flow h3' ?_ (fun _ => rfl)
    intro _ s3 h3 hm3
    have l3 := (ext_of_ok (digitsA_ext _ _ _ _) hm3).length_le
    have hi : ((2 - (k + 1) : Nat) : Int) + 1 = ((2 - k : Nat) : Int) := by omega
    simp only [hi]
    exact ih n' s3 (by omega) h3 (by omega)

theorem parseDate_eq (s : St) : parseDate s =
    (digitsA "parsing the date" s.off 4 s).bind (fun e _ => e) fun _ s1 =>
    (dashDigitsA "parsing the date" s.off 2 s1).bind (fun e _ => e) fun _ s2 => .ok ⟨rng s.off s2⟩ s2 := by
  simp only [parseDate, digitsA, dashDigitsA, Res.bind_assoc_id, rbind_ok]

/-- `Parser.parseDate` -/
theorem parseDate_agrees (h : Inv text fuel s) :
    Agree text path cb (goDate text path) (parser.Parser.parseDate fuel (goParser text path cb s)) (parseDate s) := by
  rw [parseDate_eq]
  unfold parser.Parser.parseDate
  simp only [goParser_Scanner, go_Scope]
  refine agree_flow (parseDate_loop1_agrees s.off 4 fuel s (by omega) h h.2) ?_ (fun _ => rfl)
  intro _ s1 h1 _
  simp only
  refine agree_flow (parseDate_loop2_agrees s.off 2 fuel s1 (by omega) h1 h1.2) ?_ (fun _ => rfl)
  intro _ s2 h2 _
  simp only [goParser_Scanner, go_Range]
  exact agree_ok rfl rfl rfl

end

end Knut.FactsAgree.TransParser
