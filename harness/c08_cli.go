package main

import (
	"bytes"
	"encoding/hex"
	"fmt"
	"os"
	"os/exec"
	"path/filepath"
	"regexp"
	"sort"
	"strings"
	"time"
)

// Streams `flags` and `flags-infer`: the COMMAND SURFACE of the two commands that write formatted journals.
//
// The stream `cli` runs `knut format FILE...` and nothing else; a flag the command gains later is outside its vectors.  These
// streams do not know the flags in advance: on every run they read `knut format --help` / `knut infer --help` (cobra prints
// every flag with its shorthand, type and default), and for EVERY boolean flag the help offers - reviewed or not - they run
// the command with all subsets of up to three of them (long form, shorthand, clustered shorthands, `--f=true`, before / after /
// between the files, absolute and relative paths) on generated journals: not yet formatted, already formatted, unparseable,
// one file and several with the interesting one at every position, small ones and ones with a line above 64 KiB.  What the
// command leaves ON DISK is then judged by the property's own predicates, whatever the flags were meant to do:
//
//   - a file that does not parse is byte for byte what it was;
//   - a file that parses still parses, to the same directives and field bytes with the same gaps (formatOK, the Lean predicate
//     on the two real trees, and its Go mirror) - so it is the original, or a formatting of it, never less;
//   - formatting it (in process, and by a second, plain `knut format` of the same files) gives exactly what a plain format of
//     the original gives: nothing more is changed by formatting again than a plain format would have changed.
//
// A flag that by its meaning suppresses writing (--list, --check, --dry-run) leaves the original, which satisfies all of this; a
// flag combination that destroys, truncates, reorders or double-formats a file is a concrete failing input although the harness
// never heard of the flag.  Invocations that use reviewed flags only are additionally compared with what is known about them
// (plain `format`: file = syntax.FormatFile in process, exit status; `infer` with an account that does not occur: --inplace
// writes exactly the formatted target, otherwise the target is untouched and standard output is the formatted target, which is
// judged by the same predicates).  The surface itself (names, shorthands, boolean or not) is compared with the reviewed one
// (facts_c08.go, lean/Knut/FactsAgree/C08.lean), so a new flag is also reported by name.

type c08HelpFlag struct {
	Name, Short, Type, Default, Usage string
}

func (f c08HelpFlag) isBool() bool { return f.Type == "" || f.Type == "bool" }

var c08HelpLine = regexp.MustCompile(`^\s+(?:-(\S), )?--([^\s=\[]+)(\[=[^\]]*\])?(?: (\S+))?(?:\s{2,}(.*))?$`)
var c08HelpDefault = regexp.MustCompile(`\(default (.*)\)$`)

// c08ParseHelp reads the flag sections ("Flags:", "Global Flags:") of a cobra help text.
func c08ParseHelp(help string) []c08HelpFlag {
	var res []c08HelpFlag
	in := false
	for _, l := range strings.Split(help, "\n") {
		t := strings.TrimSpace(l)
		switch {
		case strings.HasSuffix(t, "Flags:"):
			in = true
			continue
		case t == "":
			in = false
			continue
		}
		if !in {
			continue
		}
		m := c08HelpLine.FindStringSubmatch(l)
		if m == nil {
			// continuation line of a wrapped usage text
			if len(res) > 0 {
				res[len(res)-1].Usage += " " + t
			}
			continue
		}
		f := c08HelpFlag{Short: m[1], Name: m[2], Type: m[4], Usage: m[5]}
		if d := c08HelpDefault.FindStringSubmatch(f.Usage); d != nil {
			f.Default = d[1]
		}
		res = append(res, f)
	}
	for i := range res {
		if d := c08HelpDefault.FindStringSubmatch(res[i].Usage); d != nil {
			res[i].Default = d[1]
		}
	}
	sort.SliceStable(res, func(i, j int) bool { return res[i].Name < res[j].Name })
	return res
}

// c08Exec runs the binary with separate standard output and standard error, standard input empty; status -2 = no end after 90 s.
func c08Exec(knut, dir string, args []string) (status int, stdout, stderr string) {
	if abs, err := filepath.Abs(knut); err == nil {
		knut = abs // the command runs inside the case's directory
	}
	cmd := exec.Command(knut, args...)
	cmd.Dir = dir
	var so, se bytes.Buffer
	cmd.Stdout, cmd.Stderr = &so, &se
	if err := cmd.Start(); err != nil {
		return -1, "", err.Error()
	}
	done := make(chan error, 1)
	go func() { done <- cmd.Wait() }()
	select {
	case err := <-done:
		if err == nil {
			return 0, so.String(), se.String()
		}
		if ee, ok := err.(*exec.ExitError); ok {
			return ee.ExitCode(), so.String(), se.String()
		}
		return -1, so.String(), err.Error()
	case <-time.After(90 * time.Second):
		cmd.Process.Kill()
		<-done
		return -2, "", "timeout"
	}
}

// c08Subsets: all subsets of at most k of the names, by size, then in order.
func c08Subsets(names []string, k int) [][]string {
	res := [][]string{{}}
	var rec func(start int, cur []string)
	for size := 1; size <= k; size++ {
		rec = func(start int, cur []string) {
			if len(cur) == size {
				res = append(res, append([]string{}, cur...))
				return
			}
			for i := start; i < len(names); i++ {
				rec(i+1, append(cur, names[i]))
			}
		}
		rec(0, nil)
	}
	return res
}

const c08FallbackUnformatted = "2020-01-01   open  A:B\n# c\n2020-01-02 \"x\"\nA:B  A:C   1 USD\n"

// c08GenFile: a text of the wanted kind; the kind is established on the real parser / formatter, not assumed.
//
//	unformatted  parses, and formatting changes at least one byte        formatted   parses, a fixed point
//	unparseable  rejected by the parser                                    longline    unformatted, with a comment line above 64 KiB
func c08GenFile(r *RNG, kind string) string {
	gen := func() string {
		if r.Chance(1, 3) {
			t, _ := synFormatStress(r)
			return t
		}
		t, _ := synJournal(r)
		return t
	}
	switch kind {
	case "unparseable":
		for k := 0; k < 30; k++ {
			var t string
			if r.Chance(1, 4) {
				t = synRaw(r)
			} else {
				t = synMutate(r, gen())
			}
			if implParse(t, c07Path).Outcome == "err" {
				return t
			}
		}
		return "2020-01-01 open\n"
	case "formatted":
		for k := 0; k < 30; k++ {
			if res := implParse(gen(), c07Path); res.Outcome == "ok" {
				if out, oc := implFormat(res); oc == "ok" {
					return out
				}
			}
		}
		return "2020-01-01 open A:B\n"
	case "longline":
		t := c08GenFile(r, "unformatted")
		long := "# " + strings.Repeat(Pick(r, []string{"a", "ab ", "é"}), r.Range(66000, 70000)) + "\n"
		var cand string
		if r.Bool() {
			cand = long + t
		} else {
			if !strings.HasSuffix(t, "\n") {
				t += "\n"
			}
			cand = t + long
		}
		if res := implParse(cand, c07Path); res.Outcome == "ok" {
			if out, oc := implFormat(res); oc == "ok" && out != cand {
				return cand
			}
		}
		return t
	}
	for k := 0; k < 30; k++ {
		t := gen()
		if res := implParse(t, c07Path); res.Outcome == "ok" {
			if out, oc := implFormat(res); oc == "ok" && out != t {
				return t
			}
		}
	}
	return c08FallbackUnformatted
}

func c08ClipHex(t string) string {
	if len(t) > 4000 {
		return hex.EncodeToString([]byte(t[:2000])) + "..."
	}
	return hex.EncodeToString([]byte(t))
}

// c08FlagArgs renders the chosen flags: long form, shorthand, clustered shorthands, explicit value; in any order.
func c08FlagArgs(r *RNG, flags []c08HelpFlag) []string {
	var units [][]string
	var shorts []string
	cluster := r.Chance(1, 3)
	for _, f := range flags {
		if !f.isBool() {
			// a value flag is passed with the default the help text names
			v := strings.Trim(f.Default, `"`)
			if r.Bool() {
				units = append(units, []string{"--" + f.Name + "=" + v})
			} else {
				units = append(units, []string{"--" + f.Name, v})
			}
			continue
		}
		if f.Default == "true" {
			units = append(units, []string{"--" + f.Name + "=false"})
			continue
		}
		switch k := r.Intn(4); {
		case f.Short != "" && cluster:
			shorts = append(shorts, f.Short)
		case f.Short != "" && k < 2:
			units = append(units, []string{"-" + f.Short})
		case k == 3:
			units = append(units, []string{"--" + f.Name + "=true"})
		default:
			units = append(units, []string{"--" + f.Name})
		}
	}
	for i := len(shorts) - 1; i > 0; i-- {
		j := r.Intn(i + 1)
		shorts[i], shorts[j] = shorts[j], shorts[i]
	}
	if len(shorts) > 0 {
		units = append(units, []string{"-" + strings.Join(shorts, "")})
	}
	for i := len(units) - 1; i > 0; i-- {
		j := r.Intn(i + 1)
		units[i], units[j] = units[j], units[i]
	}
	var args []string
	for _, u := range units {
		args = append(args, u...)
	}
	return args
}

// c08Place puts the flag arguments before, after or between the file arguments (cobra accepts all three).
func c08Place(r *RNG, flagArgs, files []string) []string {
	pairs := false
	for _, a := range flagArgs {
		if !strings.HasPrefix(a, "-") {
			pairs = true
		}
	}
	switch k := r.Intn(4); {
	case k == 0:
		return append(append([]string{}, files...), flagArgs...)
	case k == 1 && !pairs && len(flagArgs) > 0:
		res := append([]string{}, files...)
		for _, a := range flagArgs {
			p := r.Intn(len(res) + 1)
			res = append(res[:p], append([]string{a}, res[p:]...)...)
		}
		return res
	}
	return append(append([]string{}, flagArgs...), files...)
}

type c08Surface struct {
	cmd   string
	flags []c08HelpFlag
	bools []c08HelpFlag // without --help
	known map[string]bool
	raw   string
}

func (s *c08Surface) flag(name string) c08HelpFlag {
	for _, f := range s.flags {
		if f.Name == name {
			return f
		}
	}
	return c08HelpFlag{Name: name}
}

// c08Discover reads the help text of a command and compares the surface with the reviewed one.
func (x *c08run) c08Discover(stream, cmd string) *c08Surface {
	c := x.c
	var status int
	var out, errOut string
	for try := 0; try < 3; try++ {
		status, out, errOut = c08Exec(c.KnutBin, "", []string{cmd, "--help"})
		if status == 0 {
			break
		}
	}
	s := &c08Surface{cmd: cmd, raw: out, known: map[string]bool{}}
	if status != 0 {
		c.Compare(stream, -1, "`knut "+cmd+" --help` prints the flags", map[string]any{"command": cmd}, fmt.Sprintf("exit %d %s", status, clipTo(errOut, 300)), "exit 0")
		return s
	}
	s.flags = c08ParseHelp(out)
	var got, want []string
	for _, f := range s.flags {
		if f.Name == "help" {
			continue
		}
		kind := "value"
		if f.isBool() {
			kind = "bool"
			s.bools = append(s.bools, f)
		}
		got = append(got, fmt.Sprintf("--%s/-%s:%s", f.Name, f.Short, kind))
	}
	for _, f := range c08ReviewedFlags[cmd] {
		kind := "value"
		if f.Type == "bool" {
			kind = "bool"
		}
		want = append(want, fmt.Sprintf("--%s/-%s:%s", f.Name, f.Short, kind))
		s.known[f.Name] = true
	}
	sort.Strings(want)
	sort.Strings(got)
	if c.Want(stream, -1) {
		c.Compare(stream, -1, "flags of `knut "+cmd+"` (--help) vs the reviewed surface (harness/facts_c08.go, FactsAgree/C08.lean)",
			map[string]any{"command": cmd, "help": clipTo(out, 1500)}, strings.Join(got, " "), strings.Join(want, " "))
	}
	c.Extra["surface_"+cmd] = strings.Join(got, " ")
	for _, f := range s.flags {
		if !s.known[f.Name] && f.Name != "help" {
			c.Tag(stream + "/flag-outside-reviewed-surface:" + f.Name)
			if !f.isBool() && f.Default == "" {
				c.Tag(stream + "/value-flag-without-default-not-explored:" + f.Name)
			}
		}
	}
	return s
}

// c08FileJudge evaluates the property's predicates on what one invocation left of one file.
//
//	t      the text before        after   the bytes on disk afterwards        label   what ran, for the messages
//
// It returns the in-process formatting of the original ("" and false when the original does not parse).
func (x *c08run) c08FileJudge(stream string, index int, in map[string]any, path, t, after, label string) (pr synResult, fmtOrig string, parsed bool) {
	c := x.c
	c.Evals++
	pr = implParse(t, path)
	if pr.Outcome != "ok" {
		c.Monitor(stream, index, "C08_unparseable_untouched("+label+")", in, after == t, fmt.Sprintf("file before: %q file after: %q", clipTo(t, 300), clipTo(after, 300)))
		return pr, "", false
	}
	fmtOrig, oc := implFormat(pr)
	if oc != "ok" {
		c.Monitor(stream, index, "C08_format_total", in, false, oc)
		return pr, "", false
	}
	pa := implParse(after, path)
	if !c.Monitor(stream, index, "C08_reparse(the file "+label+" leaves parses)", in, pa.Outcome == "ok", fmt.Sprintf("file after: %q => %s", clipTo(after, 600), clipTo(pa.String(), 300))) {
		return pr, fmtOrig, true
	}
	mirror := c08FormatOK(t, pr, after, pa)
	detail := fmt.Sprintf("file before: %q (%d bytes, %d directives) file after: %q (%d bytes, %d directives)", clipTo(t, 500), len(t), pr.NumDirs, clipTo(after, 500), len(after), pa.NumDirs)
	if c08Work(pr, t) <= c08LeanLimit(c) && c08Work(pa, after) <= c08LeanLimit(c) {
		x.bt.Add(func(mon string) {
			c.Monitor(stream, index, "formatOK(file before vs the file "+label+" leaves: same directives and field bytes, same gaps)", in, mon == "ok", detail+" => "+mon)
			c.Compare(stream, index, "c08mon(Go mirror of formatOK)", in, mirror, mon)
		}, "c08mon", Hex(t), pr.Dump, Hex(after), pa.Dump)
		x.bt.Flush() // a few hundred cases: the answer now, so that a loss of content is the first thing reported
	} else {
		c.Monitor(stream, index, "formatOK(Go mirror; file before vs the file "+label+" leaves: same directives and field bytes, same gaps)", in, mirror == "ok", detail+" => "+mirror)
	}
	again, oc2 := implFormat(pa)
	c.Monitor(stream, index, "C08_idempotent(formatting the file "+label+" leaves = a plain format of the original)", in, oc2 == "ok" && again == fmtOrig,
		fmt.Sprintf("file after: %q formatted: %q; the original formatted: %q %s", clipTo(after, 300), clipTo(again, 300), clipTo(fmtOrig, 300), oc2))
	return pr, fmtOrig, true
}

// c08StdoutJudge: standard output that is meant to be the formatted journal, by the same predicates.
func (x *c08run) c08StdoutJudge(stream string, index int, in map[string]any, path, t string, pr synResult, stdout, label string) {
	c := x.c
	po := implParse(stdout, path)
	if !c.Monitor(stream, index, "C08_reparse(what "+label+" prints parses)", in, po.Outcome == "ok", fmt.Sprintf("standard output: %q => %s", clipTo(stdout, 600), clipTo(po.String(), 300))) {
		return
	}
	mirror := c08FormatOK(t, pr, stdout, po)
	c.Monitor(stream, index, "formatOK(Go mirror; file vs what "+label+" prints)", in, mirror == "ok", fmt.Sprintf("file: %q standard output: %q => %s", clipTo(t, 500), clipTo(stdout, 500), mirror))
	again, oc := implFormat(po)
	c.Monitor(stream, index, "C08_idempotent(what "+label+" prints)", in, oc == "ok" && again == stdout, fmt.Sprintf("standard output: %q formatted again: %q %s", clipTo(stdout, 400), clipTo(again, 400), oc))
}

func c08Scenario(r *RNG, k int) (kinds []string) {
	others := []string{"formatted", "unparseable", "formatted", "unformatted"}
	switch k % 6 {
	case 0:
		return []string{"unformatted"}
	case 1:
		return []string{"formatted"}
	case 2:
		return []string{"unparseable"}
	case 3: // several, any mixture
		for n := r.Range(2, 4); n > 0; n-- {
			kinds = append(kinds, Pick(r, []string{"unformatted", "unformatted", "formatted", "unparseable"}))
		}
		return kinds
	case 4: // several, one of them not yet formatted, at every position
		n := r.Range(2, 4)
		p := r.Intn(n)
		for i := 0; i < n; i++ {
			if i == p {
				kinds = append(kinds, "unformatted")
			} else {
				kinds = append(kinds, Pick(r, others[:3]))
			}
		}
		return kinds
	}
	return []string{"longline"}
}

// c08GenPlain: a text of the wanted kind without an include directive of its own making (the tree adds the real ones).
func c08GenPlain(r *RNG, kind string) string {
	for k := 0; k < 20; k++ {
		if t := c08GenFile(r, kind); !strings.Contains(t, "include") {
			return t
		}
	}
	switch kind {
	case "formatted":
		return "2020-01-01 open A:B\n"
	case "unparseable":
		return "2020-01-01 open\n"
	}
	return c08FallbackUnformatted
}

// c08Tree: an INCLUDE TREE on disk.  f0.knut is the root; 1-6 further files are each included by one of the files before them
// (so chains, fans and mixtures of both arise), some from a subdirectory; every file has directives, comments and white space of
// its own (not yet formatted or formatted; the last file, always a leaf, sometimes does not parse); the include lines stand at the
// beginning or at the end of the including file, in canonical or sloppy spelling.  Named on the command line: the root, sometimes
// also one of the included files (then it is reachable twice), sometimes also a file outside the tree.
func c08Tree(r *RNG) (fnames, texts, kinds []string, named []int) {
	total := r.Range(1, 6) + 1
	parent := make([]int, total)
	dirs := make([]string, total)
	fnames = make([]string, total)
	fnames[0], parent[0] = "f0.knut", -1
	for k := 1; k < total; k++ {
		parent[k] = r.Intn(k)
		if r.Chance(1, 3) {
			parent[k] = k - 1 // deep chains
		}
		d := dirs[parent[k]]
		if r.Chance(1, 3) {
			d = filepath.Join(d, fmt.Sprintf("d%d", k))
		}
		dirs[k] = d
		fnames[k] = filepath.Join(d, fmt.Sprintf("i%d.knut", k))
	}
	bodies := make([]string, total)
	kinds = make([]string, total)
	for k := 0; k < total; k++ {
		kind := Pick(r, []string{"unformatted", "unformatted", "formatted"})
		if k == total-1 && r.Chance(1, 8) {
			kind = "unparseable"
		}
		bodies[k] = c08GenPlain(r, kind)
		kinds[k] = "tree-" + kind
	}
	assemble := func(k int, body string, blank bool) string {
		head, tail := "", ""
		for j := k + 1; j < total; j++ {
			if parent[j] != k {
				continue
			}
			rel, err := filepath.Rel(filepath.Join("/", dirs[k]), filepath.Join("/", fnames[j]))
			if err != nil {
				rel = fnames[j]
			}
			line := "include " + "\"" + rel + "\"\n"
			if r.Chance(1, 2) {
				line = "include" + Pick(r, []string{"  ", "\t", "   "}) + "\"" + rel + "\"" + Pick(r, []string{"\n", " \n", "\n\n"})
			}
			if r.Chance(1, 3) {
				line = fmt.Sprintf("# file %d of the tree\n", j) + line
			}
			if r.Bool() {
				head += line
			} else {
				tail += line
			}
		}
		if tail != "" && !strings.HasSuffix(body, "\n") {
			body += "\n"
		}
		if tail != "" && blank {
			body += "\n" // after a transaction, an include line would be read as a booking
		}
		return head + body + tail
	}
	texts = make([]string, total)
	for k := 0; k < total; k++ {
		texts[k] = assemble(k, bodies[k], false)
		if kinds[k] != "tree-unparseable" && implParse(texts[k], c07Path).Outcome != "ok" {
			texts[k] = assemble(k, bodies[k], true)
		}
		if kinds[k] != "tree-unparseable" && implParse(texts[k], c07Path).Outcome != "ok" {
			texts[k] = assemble(k, c08FallbackUnformatted, true)
			kinds[k] = "tree-fallback"
		}
	}
	named = []int{0}
	if r.Chance(1, 3) {
		named = append(named, r.Range(1, total-1))
	}
	if r.Chance(1, 4) {
		fnames = append(fnames, "s.knut")
		texts = append(texts, c08GenPlain(r, "unformatted"))
		kinds = append(kinds, "unformatted")
		named = append(named, len(fnames)-1)
	}
	if len(named) > 1 && r.Bool() {
		named[0], named[len(named)-1] = named[len(named)-1], named[0]
	}
	return fnames, texts, kinds, named
}

func (x *c08run) c08WriteFiles(dir string, names, texts []string) {
	os.RemoveAll(dir)
	os.MkdirAll(dir, 0o755)
	for i, t := range texts {
		os.MkdirAll(filepath.Dir(filepath.Join(dir, names[i])), 0o755)
		if err := os.WriteFile(filepath.Join(dir, names[i]), []byte(t), 0o644); err != nil {
			fatalf("%v", err)
		}
	}
}

// c08RunTwice runs the command; after a timeout the files are written again and the command gets a second chance.
func (x *c08run) c08RunTwice(dir string, names, texts, args []string) (int, string, string) {
	status, so, se := c08Exec(x.c.KnutBin, dir, args)
	if status == -2 {
		x.c.Tag("flags/timeout-retried")
		x.c08WriteFiles(dir, names, texts)
		status, so, se = c08Exec(x.c.KnutBin, dir, args)
	}
	return status, so, se
}

// flagsFormat: `knut format` with every subset of up to three of the boolean flags its help text offers.
func (x *c08run) flagsFormat() {
	c := x.c
	const stream = "flags"
	if c.Replay && c.OnlyStr != stream {
		return
	}
	s := x.c08Discover(stream, "format")
	names := []string{}
	for _, f := range s.bools {
		names = append(names, f.Name)
	}
	subsets := c08Subsets(names, 3)
	// value flags the help text offers with a default are passed along in some cases
	var valued []c08HelpFlag
	for _, f := range s.flags {
		if !f.isBool() && f.Default != "" {
			valued = append(valued, f)
		}
	}
	n := min(max(len(subsets)*c.N(12, 72), c.N(90, 2400)), c.N(480, 12000))
	c.Extra["flags_format_subsets"] = len(subsets)
	for i := 0; i < n; i++ {
		if !c.Want(stream, i) {
			continue
		}
		r := c.Rng(stream, i)
		subset := subsets[i%len(subsets)]
		if len(subsets) > n {
			subset = subsets[r.Intn(len(subsets))]
		}
		var chosen []c08HelpFlag
		for _, nm := range subset {
			chosen = append(chosen, s.flag(nm))
		}
		for _, f := range valued {
			if r.Chance(1, 3) {
				chosen = append(chosen, f)
			}
		}
		allKnown := true
		for _, f := range chosen {
			allKnown = allKnown && s.known[f.Name]
		}
		// scenarios 6 and 7 of every eight: an include tree (every file of it is judged, named on the command line or not)
		scen := i / len(subsets)
		var kinds, texts, fnames []string
		var named []int
		if scen%8 >= 6 {
			fnames, texts, kinds, named = c08Tree(r)
			c.Tag(fmt.Sprintf("%s/tree/files%d/named%d", stream, len(fnames), len(named)))
		} else {
			kinds = c08Scenario(r, scen%8)
			for k, kind := range kinds {
				texts = append(texts, c08GenFile(r, kind))
				fnames = append(fnames, fmt.Sprintf("f%d.knut", k))
				named = append(named, k)
			}
		}
		isNamed := make([]bool, len(fnames))
		for _, k := range named {
			isNamed[k] = true
		}
		dir := filepath.Join(c.WorkDir, fmt.Sprintf("c08-%s-%d", stream, i))
		x.c08WriteFiles(dir, fnames, texts)
		relative := r.Chance(1, 3)
		paths := make([]string, len(named))
		for j, k := range named {
			if relative {
				paths[j] = fnames[k]
			} else {
				paths[j] = filepath.Join(dir, fnames[k])
			}
		}
		flagArgs := c08FlagArgs(r, chosen)
		args := append([]string{"format"}, c08Place(r, flagArgs, paths)...)
		status, stdout, stderr := x.c08RunTwice(dir, fnames, texts, args)
		label := "`knut format " + strings.Join(flagArgs, " ") + "`"
		if len(flagArgs) == 0 {
			label = "`knut format`"
		}
		base := func(k int) map[string]any {
			in := map[string]any{"command": "knut format", "flags": flagArgs, "args": c08ShowArgs(args, dir), "files": kinds, "file": k,
				"texts_hex": c08HexAll(texts), "exit": status, "stdout": clipTo(stdout, 400), "stderr": clipTo(stderr, 400)}
			if len(named) != len(fnames) {
				in["files_on_disk"] = fnames
				if k >= 0 {
					in["file_name"], in["file_named_on_command_line"] = fnames[k], isNamed[k]
				}
			}
			if k >= 0 && len(texts[k]) < 600 {
				in["file_text"] = texts[k]
			}
			return in
		}
		if status == -2 {
			c.Compare(stream, i, "the command ends", base(-1), "no end after 90 s, twice", "ends")
			os.RemoveAll(dir)
			continue
		}
		anyRejected := false
		fmts := make([]string, len(texts))
		parsedOK := make([]bool, len(texts))
		for k, t := range texts {
			in := base(k)
			b, err := os.ReadFile(filepath.Join(dir, fnames[k]))
			if err != nil {
				c.Monitor(stream, i, "C08_file_survives("+label+")", in, false, err.Error())
				continue
			}
			after := string(b)
			_, fo, ok := x.c08FileJudge(stream, i, in, filepath.Join(dir, fnames[k]), t, after, label)
			fmts[k], parsedOK[k] = fo, ok
			anyRejected = anyRejected || (!ok && isNamed[k])
			what := "left"
			if after != t {
				what = "rewritten"
			}
			c.Tag(stream + "/" + kinds[k] + "/" + what)
			if allKnown && len(flagArgs) == 0 && !isNamed[k] {
				// the plain command formats the files it is given, not the files they include
				c.Compare(stream, i, fmt.Sprintf("plain command leaves a file it was not given untouched (file %d of %d)", k, len(texts)), in, Hex(after), Hex(t))
			}
			if allKnown && ok && len(flagArgs) == 0 && isNamed[k] {
				// the plain command: exactly the in-process formatting (the model is compared on the same bytes in the stream `cli`)
				c.Compare(stream, i, fmt.Sprintf("plain command vs syntax.FormatFile in process (file %d of %d)", k, len(texts)), in, Hex(after), Hex(fo))
			}
		}
		if anyRejected {
			c.Compare(stream, i, "exit status 0 only if every file parsed", base(-1), fmt.Sprint(status == 0), "false")
		}
		if len(flagArgs) == 0 && !anyRejected {
			c.Compare(stream, i, "exit status of the plain command", base(-1), fmt.Sprint(status), "0")
		}
		// a second, plain `knut format` of the same files: nothing more is changed than a plain format of the originals changes
		st2, _, se2 := c08Exec(c.KnutBin, dir, append([]string{"format"}, paths...))
		if st2 == -2 {
			c.Tag("flags/timeout-second-run")
		} else {
			for k, t := range texts {
				if !isNamed[k] {
					continue // judged above against its own original; the second run does not name it
				}
				b, err := os.ReadFile(filepath.Join(dir, fnames[k]))
				in := base(k)
				if err != nil {
					c.Monitor(stream, i, "C08_file_survives(plain `knut format` after "+label+")", in, false, err.Error())
					continue
				}
				want := t
				if parsedOK[k] {
					want = fmts[k]
				}
				c.Monitor(stream, i, "C08_idempotent(a plain `knut format` after "+label+" leaves what a plain format of the original leaves)", in, string(b) == want,
					fmt.Sprintf("file now: %q expected: %q (exit %d %s)", clipTo(string(b), 400), clipTo(want, 400), st2, clipTo(se2, 200)))
			}
		}
		sub := strings.Join(subset, "+")
		if sub == "" {
			sub = "plain"
		}
		c.Class(fmt.Sprintf("%s/%s/%s/status%d", stream, sub, strings.Join(kinds, ","), status))
		if i < 2 {
			c.Sample(map[string]any{"stream": stream, "args": c08ShowArgs(args, dir), "files": kinds, "exit": status})
		}
		os.RemoveAll(dir)
	}
	x.bt.Flush()
}

func c08ShowArgs(args []string, dir string) []string {
	res := make([]string, len(args))
	for i, a := range args {
		res[i] = strings.Replace(a, dir+string(filepath.Separator), "<dir>/", 1)
	}
	return res
}

func c08HexAll(ts []string) []string {
	r := make([]string, len(ts))
	for i, t := range ts {
		r[i] = c08ClipHex(t)
	}
	return r
}

// flagsInfer: `knut infer`, the other command that writes syntax.FormatFile output (in place with --inplace, otherwise to standard
// output), with every subset of the boolean flags its help offers.  The account to infer never occurs in the target, so the
// directives the command prints or writes are the target's own: the predicates of `format` apply to it unchanged.
func (x *c08run) flagsInfer() {
	c := x.c
	const stream = "flags-infer"
	if c.Replay && c.OnlyStr != stream {
		return
	}
	s := x.c08Discover(stream, "infer")
	names := []string{}
	for _, f := range s.bools {
		names = append(names, f.Name)
	}
	subsets := c08Subsets(names, 3)
	var valued []c08HelpFlag
	for _, f := range s.flags {
		if !f.isBool() && f.Default != "" && f.Name != "account" && f.Name != "training-file" {
			valued = append(valued, f)
		}
	}
	n := min(max(len(subsets)*c.N(10, 60), c.N(40, 1200)), c.N(240, 6000))
	c.Extra["flags_infer_subsets"] = len(subsets)
	noInclude := func(r *RNG, kind string) string {
		for k := 0; k < 20; k++ {
			if t := c08GenFile(r, kind); !strings.Contains(t, "include") {
				return t
			}
		}
		return c08FallbackUnformatted
	}
	for i := 0; i < n; i++ {
		if !c.Want(stream, i) {
			continue
		}
		r := c.Rng(stream, i)
		subset := subsets[i%len(subsets)]
		if len(subsets) > n {
			subset = subsets[r.Intn(len(subsets))]
		}
		var chosen []c08HelpFlag
		for _, nm := range subset {
			chosen = append(chosen, s.flag(nm))
		}
		for _, f := range valued {
			if r.Chance(1, 3) {
				chosen = append(chosen, f)
			}
		}
		allKnown, inplace := true, false
		for _, f := range chosen {
			allKnown = allKnown && s.known[f.Name]
			inplace = inplace || f.Name == "inplace"
		}
		// scenarios 5 and 6: the target / the training file is the root of an include tree; every member is judged against itself
		scen := (i / len(subsets)) % 7
		kind := []string{"unformatted", "formatted", "unparseable", "unformatted", "unformatted", "unformatted", "unformatted"}[scen]
		sameFile := scen == 3
		target := c08GenFile(r, kind)
		if sameFile {
			target = noInclude(r, kind)
		}
		training := noInclude(r, Pick(r, []string{"formatted", "unformatted"}))
		var memberNames, memberTexts []string
		if scen >= 5 {
			tn, tt, _, _ := c08Tree(r)
			if scen == 5 {
				target = tt[0]
			} else {
				training = tt[0]
			}
			for k := 1; k < len(tn); k++ {
				if tn[k] != "s.knut" {
					memberNames, memberTexts = append(memberNames, tn[k]), append(memberTexts, tt[k])
				}
			}
			c.Tag(fmt.Sprintf("%s/tree-of-%s/members%d", stream, []string{"target", "training"}[scen-5], len(memberNames)))
		}
		// an account that does not occur in the target: nothing is there to be replaced
		account := "Expenses:TBD"
		explicit := scen == 4 || r.Chance(1, 4) || strings.Contains(target, account)
		if explicit {
			for k := 0; ; k++ {
				account = fmt.Sprintf("Equity:Qq%d", r.Intn(100000)+k)
				if !strings.Contains(target, account) {
					break
				}
			}
		}
		fnames, texts := []string{"target.knut", "training.knut"}, []string{target, training}
		if sameFile {
			fnames, texts = fnames[:1], texts[:1]
		}
		tf := fnames[len(fnames)-1]
		fnames, texts = append(fnames, memberNames...), append(texts, memberTexts...)
		dir := filepath.Join(c.WorkDir, fmt.Sprintf("c08-%s-%d", stream, i))
		x.c08WriteFiles(dir, fnames, texts)
		relative := r.Chance(1, 3)
		p := func(f string) string {
			if relative {
				return f
			}
			return filepath.Join(dir, f)
		}
		flagArgs := c08FlagArgs(r, chosen)
		if r.Bool() {
			flagArgs = append(flagArgs, "-t", p(tf))
		} else {
			flagArgs = append(flagArgs, "--training-file="+p(tf))
		}
		if explicit {
			flagArgs = append([]string{"--account", account}, flagArgs...)
		}
		var args []string
		if r.Bool() {
			args = append(append([]string{"infer"}, flagArgs...), p("target.knut"))
		} else {
			args = append([]string{"infer", p("target.knut")}, flagArgs...)
		}
		status, stdout, stderr := x.c08RunTwice(dir, fnames, texts, args)
		label := "`knut " + strings.Join(c08ShowArgs(args[:len(args)], dir), " ") + "`"
		in := map[string]any{"command": "knut infer", "args": c08ShowArgs(args, dir), "target": kind, "target_is_training_file": sameFile,
			"texts_hex": c08HexAll(texts), "exit": status, "stdout": clipTo(stdout, 400), "stderr": clipTo(stderr, 400)}
		if len(target) < 600 {
			in["file_text"] = target
		}
		if status == -2 {
			c.Compare(stream, i, "the command ends", in, "no end after 90 s, twice", "ends")
			os.RemoveAll(dir)
			continue
		}
		b, err := os.ReadFile(filepath.Join(dir, "target.knut"))
		if err != nil {
			c.Monitor(stream, i, "C08_file_survives("+label+")", in, false, err.Error())
			os.RemoveAll(dir)
			continue
		}
		after := string(b)
		pr, fo, ok := x.c08FileJudge(stream, i, in, filepath.Join(dir, "target.knut"), target, after, label)
		what := "left"
		if after != target {
			what = "rewritten"
		}
		c.Tag(fmt.Sprintf("%s/%s/%s", stream, kind, what))
		if !ok {
			c.Compare(stream, i, "exit status 0 only if the target parsed", in, fmt.Sprint(status == 0), "false")
		}
		if !sameFile {
			if tb, err := os.ReadFile(filepath.Join(dir, "training.knut")); err != nil || string(tb) != training {
				c.Compare(stream, i, "the training file is only read", in, "changed", "untouched")
			}
		}
		for k, mn := range memberNames {
			inK := map[string]any{}
			for key, v := range in {
				inK[key] = v
			}
			inK["files_on_disk"], inK["file_name"], inK["tree_of"] = fnames, mn, []string{"target", "training"}[scen-5]
			delete(inK, "file_text")
			if len(memberTexts[k]) < 600 {
				inK["file_text"] = memberTexts[k]
			}
			mb, err := os.ReadFile(filepath.Join(dir, mn))
			if err != nil {
				c.Monitor(stream, i, "C08_file_survives("+label+")", inK, false, err.Error())
				continue
			}
			x.c08FileJudge(stream, i, inK, filepath.Join(dir, mn), memberTexts[k], string(mb), label)
			if scen == 6 || allKnown {
				c.Compare(stream, i, "a file the target / the training file includes is only read", inK, Hex(string(mb)), Hex(memberTexts[k]))
			}
		}
		if allKnown && ok && status == 0 {
			// reviewed flags only: what they mean is known
			if inplace {
				c.Compare(stream, i, "infer --inplace (account absent) writes syntax.FormatFile of the target", in, Hex(after), Hex(fo))
			} else {
				c.Compare(stream, i, "infer without --inplace leaves the target", in, Hex(after), Hex(target))
				c.Compare(stream, i, "infer (account absent) prints syntax.FormatFile of the target", in, Hex(stdout), Hex(fo))
				x.c08StdoutJudge(stream, i, in, filepath.Join(dir, "target.knut"), target, pr, stdout, label)
			}
		}
		c.Tag(fmt.Sprintf("%s/status%d", stream, min(status, 2)))
		sub := strings.Join(subset, "+")
		if sub == "" {
			sub = "plain"
		}
		c.Class(fmt.Sprintf("%s/%s/%s/same%v/explicit%v/status%d", stream, sub, kind, sameFile, explicit, status))
		if i < 2 {
			c.Sample(map[string]any{"stream": stream, "args": c08ShowArgs(args, dir), "target": kind, "exit": status})
		}
		os.RemoveAll(dir)
	}
	x.bt.Flush()
}

// flagStreams is called from runC08.
func (x *c08run) flagStreams() {
	t0 := time.Now()
	x.flagsFormat()
	x.flagsInfer()
	x.c.Extra["flags_wall_s"] = time.Since(t0).Seconds()
}
