package main

// Constructs of the Go→Lean translator that lib/journal/beancount (beancount.Transcode, what `knut transcode` writes) needs
// (builder trans6).  They build on the reading of io.Writer that trans_units_jprinter.go introduced (the TEXT WRITTEN SO FAR).
//
//   w io.Writer (a variable)  fmt.Fprintf(w, f, …) / io.WriteString(w, s) on an expression whose STATIC type is io.Writer: the prelude's
//                        `Writer.Write w text` for the formatted text (one call of Write; (len(text), nil) as results), the variable is
//                        rebound.  A parameter of type io.Writer that is written to is handled by state passing like a pointer
//                        receiver: the function returns the new text first.  The sink is an in-memory text: no write error.
//   p := printer.New(w)  a constructor that STORES its writer argument in a field of the struct it returns (checked on its body:
//                        a single `return &T{…, f: w, …}`) makes `p.f` and `w` two names of ONE sink.  Both stay variables; after every
//                        assignment to `w` the translation adds `p := { p with f := w }`, after every assignment to `p` it adds
//                        `w := p.f` (the texts are equal at every statement boundary).  Rebinding `p` or `w` by a plain `=` is rejected.
//   regexp               a package-level `var re = regexp.MustCompile("<constant>")` that is never assigned: `re.ReplaceAllString(s, r)`
//                        with a constant replacement without `$` is the prelude function that trRegexpPrelude lists for exactly that
//                        pattern text (`[^a-zA-Z]` ↦ Regexp.replaceAllNonLetter); every other pattern is rejected.
//   strings.HasPrefix    prelude Strings.HasPrefix
//   compare.Sort(x.f, cmp)  (pinned text: sort.Slice with less = (cmp == Smaller), NOT stable) as a statement of the body of
//                        `for _, x := range ys` over a slice of pointers, cmp a translated function given by name:
//                        `x := { x with f := sort<N> cmp x.f }` where `sort<N> : (T → T → R) → List T → List T` is an EXTRA PARAMETER
//                        of the translated function: the sorting algorithm (a deterministic function of the comparator and the
//                        elements).  The agreement theorem quantifies over every `sort<N>` for which `sort<N> cmp` returns a
//                        permutation of its argument in which no element is Smaller than one before it (`SortSliceSpec`: what
//                        sort.Slice guarantees for a strict weak order); the comparator is part of the generated term, so a change
//                        of it in the Go text separates the term from the hypothesis.  Only the loop variable `x` is rebound: that
//                        the sort also reorders the object the CALLER sees through `ys` is not part of the translated result (`ys`'s
//                        base variable must not be used anywhere else in the function; the elements of `ys` are taken to be
//                        distinct objects).  Every other `compare.Sort(X, F)` is left to trans_units_jprinter.go (`X := ext<N> X`).
//   c == nil             for a PARAMETER of interned pointer type (*commodity.Commodity, *account.Account): nil is the zero value of
//                        the struct, as for fields of these types (the registry never hands out a pointer to a zero-valued object).
//                        A method call on a nil pointer does not panic in this reading: the agreement theorems are stated for
//                        non-zero values.
//   (a *T passed for a sum-type interface and compare.Sort as a function parameter were introduced by trans_units_jprinter.go; the
//   variant of compare.Sort here is the one through the value variable of a range loop.)

import (
	"go/ast"
	"go/token"
	"go/types"
	"strconv"
	"strings"
)

func init() {
	trStubEnsure("strings", "func HasPrefix(", "func HasPrefix(s, prefix string) bool")
	trStubEnsure("regexp", "type Regexp struct", "type Regexp struct{ _ int }")
	trStubEnsure("regexp", "func MustCompile(", "func MustCompile(str string) *Regexp")
	trStubEnsure("regexp", "func (re *Regexp) ReplaceAllString(", "func (re *Regexp) ReplaceAllString(src, repl string) string")
	trPrims["strings.HasPrefix"] = trPrim{lean: "Strings.HasPrefix"}
}

// trRegexpPrelude: the regular expressions (pattern text) that the prelude gives a meaning to, for ReplaceAllString
var trRegexpPrelude = map[string]string{
	"[^a-zA-Z]": "Regexp.replaceAllNonLetter",
}

// trBeanImports: prelude modules a generated unit needs for the constructs of this file
func trBeanImports(body string) []string {
	var res []string
	if strings.Contains(body, "Regexp.") || strings.Contains(body, "Strings.HasPrefix") {
		res = append(res, "import Knut.GoSem.Regexp")
	}
	return res
}

// ---------------------------------------------------------------------------------------------- io.Writer variables

// writerVarArg: the writer argument of fmt.Fprintf(w, …) / io.WriteString(w, s) when its static type is io.Writer
func trWriterVarArg(info *types.Info, x *ast.CallExpr) ast.Expr {
	sel, ok := trUnparen(x.Fun).(*ast.SelectorExpr)
	if !ok || len(x.Args) < 2 {
		return nil
	}
	if _, isSel := info.Selections[sel]; isSel {
		return nil
	}
	fo, _ := info.Uses[sel.Sel].(*types.Func)
	if fo == nil || (fo.FullName() != "fmt.Fprintf" && fo.FullName() != "io.WriteString") {
		return nil
	}
	tv, ok := info.Types[x.Args[0]]
	if !ok || tv.Type == nil || !trIsWriter(tv.Type) {
		return nil
	}
	return x.Args[0]
}

// writerVarCall: `n, err := fmt.Fprintf(w, …)` / `io.WriteString(w, s)` for an io.Writer variable: w is rebound to the text after
// the write, the results are (len(text), nil)
func (c *trCtx) writerVarCall(call *ast.CallExpr, lhs []ast.Expr, define bool, k trK) (trLines, bool) {
	w := trWriterVarArg(c.info(), call)
	if w == nil {
		return nil, false
	}
	if trBaseIdent(w) == nil {
		trFail(call.Pos(), "the writer of this call is not a variable or a field: outside the subset")
	}
	sel := trUnparen(call.Fun).(*ast.SelectorExpr)
	var text string
	if sel.Sel.Name == "WriteString" {
		if len(call.Args) != 2 {
			trFail(call.Pos(), "io.WriteString with %d arguments", len(call.Args))
		}
		text = c.expr(call.Args[1])
	} else {
		text = c.sprintf(call, 1)
	}
	if len(lhs) != 0 && len(lhs) != 2 {
		trFail(call.Pos(), "call of %s with 2 results assigned to %d targets", trSrc(call.Fun), len(lhs))
	}
	wv := c.expr(w)
	pre := c.takePre()
	st := c.fresh("r")
	if define {
		for _, l := range lhs {
			c.declare(l)
		}
	}
	targets := append([]ast.Expr{w}, lhs...)
	var body func(i int) trLines
	body = func(i int) trLines {
		if i == len(targets) {
			return k()
		}
		proj := st + strings.Repeat(".2", i)
		if i < 2 {
			proj += ".1"
		}
		return c.store(targets[i], proj, call.Pos(), func() trLines { return body(i + 1) })
	}
	return trWrapPre(pre, trLet(st, "", trOne("(Writer.Write "+wv+" "+text+")"), body(0))), true
}

// ---------------------------------------------------------------------------------------------- one sink, two names

// trWAlias: after `p := Ctor(w)`: the field `field` of p and the variable w are the same sink
type trWAlias struct {
	p, w  types.Object
	field string
}

// writerStoredField: the function is `func F(…, w io.Writer, …) *T { return &T{…, f: w, …} }`: the field f and the index of w
func (t *trTranslator) writerStoredField(tf *trFunc) (field string, param int, ok bool) {
	if tf.decl == nil || tf.decl.Recv != nil || tf.decl.Body == nil || len(tf.decl.Body.List) != 1 {
		return "", 0, false
	}
	ret, isRet := tf.decl.Body.List[0].(*ast.ReturnStmt)
	if !isRet || len(ret.Results) != 1 {
		return "", 0, false
	}
	u, isAddr := trUnparen(ret.Results[0]).(*ast.UnaryExpr)
	if !isAddr || u.Op != token.AND {
		return "", 0, false
	}
	cl, isLit := u.X.(*ast.CompositeLit)
	if !isLit {
		return "", 0, false
	}
	sig := tf.obj.Type().(*types.Signature)
	for _, el := range cl.Elts {
		kv, isKV := el.(*ast.KeyValueExpr)
		if !isKV {
			return "", 0, false
		}
		key, isID := kv.Key.(*ast.Ident)
		val, isID2 := trUnparen(kv.Value).(*ast.Ident)
		if !isID || !isID2 {
			continue
		}
		for i := 0; i < sig.Params().Len(); i++ {
			if tf.pkg.info.Uses[val] == sig.Params().At(i) && trIsWriter(sig.Params().At(i).Type()) {
				return key.Name, i, true
			}
		}
	}
	return "", 0, false
}

// writerAliasAfter: `p := Ctor(…, w, …)` with a constructor that stores w: registered once the statement is translated
func (c *trCtx) writerAliasAfter(x *ast.AssignStmt, k trK) trK {
	// a plain `=` to one of the two names of a sink would separate them
	if x.Tok == token.ASSIGN {
		for _, l := range x.Lhs {
			if id, ok := trUnparen(l).(*ast.Ident); ok {
				for _, al := range c.wAliases {
					if o := c.info().Uses[id]; o != nil && (o == al.p || o == al.w) {
						trFail(x.Pos(), "%s and %s are two names of one writer: assigning to %s is outside the subset", al.p.Name(), al.w.Name(), id.Name)
					}
				}
			}
		}
		return k
	}
	if len(x.Lhs) != 1 || len(x.Rhs) != 1 {
		return k
	}
	call, ok := trUnparen(x.Rhs[0]).(*ast.CallExpr)
	if !ok {
		return k
	}
	if c.writerMove != nil {
		return k // the writer parameter is MOVED into the local (used nowhere else): trans_units_jprinter.go
	}
	tf, recv := c.calleeOf(call)
	if tf == nil || recv != nil {
		return k
	}
	field, pi, ok := c.t.writerStoredField(tf)
	if !ok || pi >= len(call.Args) {
		return k
	}
	lid, ok1 := x.Lhs[0].(*ast.Ident)
	wid, ok2 := trUnparen(call.Args[pi]).(*ast.Ident)
	if !ok1 || !ok2 {
		trFail(x.Pos(), "%s stores its writer in the value it returns: target and writer must be variables", tf.leanName)
	}
	po, wo := c.info().Defs[lid], c.info().Uses[wid]
	if po == nil || wo == nil {
		return k
	}
	return func() trLines {
		c.wAliases = append(c.wAliases, &trWAlias{p: po, w: wo, field: field})
		return k()
	}
}

// writerSync: after an assignment to one of the two names of a sink the other one follows
func (c *trCtx) writerSync(lhs ast.Expr, k trK) trK {
	if len(c.wAliases) == 0 {
		return k
	}
	id := trBaseIdent(lhs)
	if id == nil {
		return k
	}
	o := c.info().Uses[id]
	if o == nil {
		o = c.info().Defs[id]
	}
	for _, al := range c.wAliases {
		al := al
		switch o {
		case al.w:
			return func() trLines {
				pn := c.names[al.p]
				return trLet(pn, c.leanType(al.p.Type(), lhs.Pos()), trOne("{ "+pn+" with "+trMangle(al.field)+" := "+c.names[al.w]+" }"), k())
			}
		case al.p:
			return func() trLines {
				return trLet(c.names[al.w], c.leanType(al.w.Type(), lhs.Pos()), trOne(c.names[al.p]+"."+trMangle(al.field)), k())
			}
		}
	}
	return k
}

// writerAliasClose: what assigns one name of a sink assigns the other (loop states, joins)
func (c *trCtx) writerAliasClose(assigned map[types.Object]bool) {
	for _, al := range c.wAliases {
		if assigned[al.p] || assigned[al.w] {
			assigned[al.p], assigned[al.w] = true, true
		}
	}
}

// ---------------------------------------------------------------------------------------------- regexp

// regexpCall: re.ReplaceAllString(src, repl) on a package-level regular expression with a pattern of the prelude
func (c *trCtx) regexpCall(x *ast.CallExpr) (string, bool) {
	sel, ok := trUnparen(x.Fun).(*ast.SelectorExpr)
	if !ok {
		return "", false
	}
	s, ok := c.info().Selections[sel]
	if !ok || s.Kind() != types.MethodVal {
		return "", false
	}
	fo, _ := s.Obj().(*types.Func)
	if fo == nil || fo.Pkg() == nil || fo.Pkg().Path() != "regexp" {
		return "", false
	}
	if fo.Name() != "ReplaceAllString" || len(x.Args) != 2 {
		trFail(x.Pos(), "regexp method %s is outside the subset (only ReplaceAllString)", fo.Name())
	}
	id, ok := trUnparen(sel.X).(*ast.Ident)
	if !ok {
		trFail(x.Pos(), "a regular expression that is not a package-level variable is outside the subset")
	}
	v, ok := c.info().Uses[id].(*types.Var)
	if !ok || v.Pkg() == nil || v.Parent() != v.Pkg().Scope() {
		trFail(x.Pos(), "a regular expression that is not a package-level variable is outside the subset")
	}
	pat := c.t.regexpPattern(v, x.Pos())
	lean, ok := trRegexpPrelude[pat]
	if !ok {
		trFail(x.Pos(), "the regular expression %q has no meaning in the prelude", pat)
	}
	tv := c.info().Types[x.Args[1]]
	if tv.Value == nil || strings.Contains(tv.Value.ExactString(), "$") {
		trFail(x.Args[1].Pos(), "ReplaceAllString with a replacement that is not a constant without `$` is outside the subset")
	}
	return "(" + lean + " " + c.expr(x.Args[0]) + " " + c.expr(x.Args[1]) + ")", true
}

// regexpPattern: the constant pattern of `var v = regexp.MustCompile("…")`, a variable that is never assigned and whose address is not taken
func (t *trTranslator) regexpPattern(o *types.Var, pos token.Pos) string {
	p := t.l.pkgs[o.Pkg().Path()]
	if p == nil {
		trFail(pos, "package of %s not loaded", o.Name())
	}
	var init ast.Expr
	for _, f := range p.files {
		for _, d := range f.Decls {
			gd, ok := d.(*ast.GenDecl)
			if !ok || gd.Tok != token.VAR {
				continue
			}
			for _, sp := range gd.Specs {
				vs := sp.(*ast.ValueSpec)
				for i, n := range vs.Names {
					if p.info.Defs[n] == o && len(vs.Values) == len(vs.Names) {
						init = vs.Values[i]
					}
				}
			}
		}
		ast.Inspect(f, func(n ast.Node) bool {
			switch x := n.(type) {
			case *ast.AssignStmt:
				for _, l := range x.Lhs {
					if id := trBaseIdent(l); id != nil && p.info.Uses[id] == o {
						trFail(x.Pos(), "package variable %s is assigned here: outside the subset", o.Name())
					}
				}
			case *ast.UnaryExpr:
				if x.Op == token.AND {
					if id := trBaseIdent(x.X); id != nil && p.info.Uses[id] == o {
						trFail(x.Pos(), "the address of package variable %s is taken here: outside the subset", o.Name())
					}
				}
			}
			return true
		})
	}
	call, ok := init.(*ast.CallExpr)
	if !ok || len(call.Args) != 1 {
		trFail(pos, "package variable %s is not initialised by regexp.MustCompile(<constant>)", o.Name())
	}
	sel, ok := call.Fun.(*ast.SelectorExpr)
	if !ok {
		trFail(pos, "package variable %s is not initialised by regexp.MustCompile(<constant>)", o.Name())
	}
	fo, _ := p.info.Uses[sel.Sel].(*types.Func)
	tv := p.info.Types[call.Args[0]]
	if fo == nil || fo.FullName() != "regexp.MustCompile" || tv.Value == nil {
		trFail(pos, "package variable %s is not initialised by regexp.MustCompile(<constant>)", o.Name())
	}
	s := tv.Value.ExactString()
	if len(s) >= 2 && s[0] == '"' {
		if u, err := strconv.Unquote(s); err == nil {
			return u
		}
	}
	trFail(pos, "package variable %s: pattern %s", o.Name(), s)
	return ""
}

// ---------------------------------------------------------------------------------------------- compare.Sort as a statement

func trIsCompareSort(fo *types.Func) bool {
	return fo != nil && fo.Origin().FullName() == trCompareSort // the constant of trans_units_jprinter.go
}

// sortTarget: the slice that `compare.Sort(xs, cmp)` sorts in place
func (c *trCtx) sortTarget(call *ast.CallExpr) ast.Expr {
	if fo := c.calledFunc(call); trIsCompareSort(fo) && len(call.Args) == 2 {
		return call.Args[0]
	}
	return nil
}

// rangeOfValue: the range statement of this function whose value variable is o
func (c *trCtx) rangeOfValue(o types.Object) *ast.RangeStmt {
	var rs *ast.RangeStmt
	if o == nil || c.fn.decl == nil {
		return nil
	}
	ast.Inspect(c.fn.decl.Body, func(n ast.Node) bool {
		if r, ok := n.(*ast.RangeStmt); ok && r.Value != nil {
			if id, ok := r.Value.(*ast.Ident); ok && c.info().Defs[id] == o {
				rs = r
			}
		}
		return true
	})
	return rs
}

func (c *trCtx) sortSliceStmt(call *ast.CallExpr, k trK) (trLines, bool) {
	target := c.sortTarget(call)
	if target == nil {
		return nil, false
	}
	// only a field of the value variable of an enclosing range over a slice of pointers; everything else: trans_units_jprinter.go
	sel, ok := trUnparen(target).(*ast.SelectorExpr)
	if !ok {
		return nil, false
	}
	id, ok := trUnparen(sel.X).(*ast.Ident)
	if !ok {
		return nil, false
	}
	o := c.info().Uses[id]
	if o == nil || c.rangeOfValue(o) == nil {
		return nil, false
	}
	if !c.rangeValueOverPointers(o, call.Pos()) {
		return nil, false
	}
	fo := c.calledFunc(call)
	c.t.checkPinned(fo.Origin(), call.Pos())
	sl, ok := c.typeOf(target).Underlying().(*types.Slice)
	if !ok {
		trFail(call.Pos(), "compare.Sort of a value of type %s is outside the subset", c.typeOf(target))
	}
	var cmpObj *types.Func
	switch f := trUnparen(call.Args[1]).(type) {
	case *ast.Ident:
		cmpObj, _ = c.info().Uses[f].(*types.Func)
	case *ast.SelectorExpr:
		if _, isSel := c.info().Selections[f]; !isSel {
			cmpObj, _ = c.info().Uses[f.Sel].(*types.Func)
		}
	}
	if cmpObj == nil {
		trFail(call.Args[1].Pos(), "compare.Sort with a comparator that is not a declared function given by name is outside the subset")
	}
	// the comparator: a translated function without state passing and extra parameters; it may live in the Outcome monad (a loop on
	// fuel, an index): the agreement theorem shows that it never panics
	ctf := c.t.funcs[cmpObj.Origin()]
	if ctf == nil || len(ctf.mut) > 0 || ctf.norder > 0 {
		trFail(call.Args[1].Pos(), "compare.Sort: the comparator %s is not a translated function without extra parameters", cmpObj.FullName())
	}
	c.fn.deps = append(c.fn.deps, ctf)
	cmp := c.t.qname(c.unit(), ctf.unit, ctf.leanName)
	csig := cmpObj.Type().(*types.Signature)
	rt := c.leanType(csig.Results().At(0).Type(), call.Pos())
	qrt := c.qualType(csig.Results().At(0).Type(), call.Pos())
	if ctf.effect {
		rt, qrt = "(Outcome "+rt+")", "(Outcome "+qrt+")"
	}
	et := c.leanType(sl.Elem(), call.Pos())
	qt := c.qualType(sl.Elem(), call.Pos())
	c.norder++
	n := "sort" + itoa(c.norder)
	c.extraParams = append(c.extraParams, "("+n+" : ("+et+" → "+et+" → "+rt+") → List "+et+" → List "+et+")")
	c.extraTypes = append(c.extraTypes, "("+qt+" → "+qt+" → "+qrt+") → List "+qt+" → List "+qt)
	c.externals = append(c.externals, n+" = the algorithm of sort.Slice in "+trSrcText(c.t.l.fset, call)+" [unstable: SOME permutation sorted by the comparator]")
	s, isField := c.info().Selections[sel]
	if !isField || s.Kind() != types.FieldVal || len(s.Index()) != 1 {
		trFail(call.Pos(), "compare.Sort of %s is outside the subset", trSrc(target))
	}
	val := "(" + n + " " + cmp + " " + c.expr(target) + ")"
	pre := c.takePre()
	name := c.names[o]
	return trWrapPre(pre, trLet(name, c.leanType(o.Type(), call.Pos()), trOne("{ "+name+" with "+trMangle(sel.Sel.Name)+" := "+val+" }"), k())), true
}

// rangeValueOverPointers: o is the value variable of a `for _, o := range ys` of this function with ys a slice of pointers, and the
// base variable of ys is used nowhere else in the function (so the objects of ys are reached through o only)
func (c *trCtx) rangeValueOverPointers(o types.Object, pos token.Pos) bool {
	rs := c.rangeOfValue(o)
	if rs == nil {
		return false
	}
	direct := false
	for _, s := range rs.Body.List {
		if es, ok := s.(*ast.ExprStmt); ok && es.X.Pos() == pos {
			direct = true
		}
	}
	if !direct {
		trFail(pos, "sorting through the loop variable %s inside a nested statement is outside the subset", o.Name())
	}
	sl, ok := c.typeOf(rs.X).Underlying().(*types.Slice)
	if !ok {
		return false
	}
	if _, isPtr := sl.Elem().Underlying().(*types.Pointer); !isPtr {
		return false
	}
	base := trBaseIdent(rs.X)
	if base == nil {
		trFail(pos, "the elements of %s are sorted in place through the loop variable %s: %s must be a variable or a field path", trSrc(rs.X), o.Name(), trSrc(rs.X))
	}
	bo := c.info().Uses[base]
	uses := 0
	ast.Inspect(c.fn.decl.Body, func(n ast.Node) bool {
		if id, ok := n.(*ast.Ident); ok && c.info().Uses[id] == bo {
			uses++
		}
		return true
	})
	if uses != 1 {
		trFail(pos, "an element of %s is sorted in place through the loop variable %s, and %s is used elsewhere in the function: outside the subset", trSrc(rs.X), o.Name(), base.Name)
	}
	return true
}

// ---------------------------------------------------------------------------------------------- nil, interface values

// internedParamNil: `c == nil` for a parameter of interned pointer type: nil is the zero value of the struct
func (c *trCtx) internedParamNil(other ast.Expr, op token.Token) (string, bool) {
	id, ok := trUnparen(other).(*ast.Ident)
	if !ok {
		return "", false
	}
	v, ok := c.info().Uses[id].(*types.Var)
	if !ok || !trIsInterned(v.Type()) {
		return "", false
	}
	sig := c.fn.obj.Type().(*types.Signature)
	isParam := false
	for i := 0; i < sig.Params().Len(); i++ {
		if sig.Params().At(i) == v {
			isParam = true
		}
	}
	if !isParam {
		return "", false
	}
	lt := c.leanType(v.Type(), other.Pos())
	if op == token.EQL {
		return "(decide (" + c.expr(other) + " = (GoZero.zero : " + lt + ")))", true
	}
	return "(!decide (" + c.expr(other) + " = (GoZero.zero : " + lt + ")))", true
}

// notLoopVars: the key and value variables of a range loop are bound anew by every iteration: an assignment to them inside the body
// (the rebinding of sortSliceStmt) is not part of the loop's state
func (c *trCtx) notLoopVars(x *ast.RangeStmt, state []types.Object) []types.Object {
	own := map[types.Object]bool{}
	for _, kv := range []ast.Expr{x.Key, x.Value} {
		if id, ok := kv.(*ast.Ident); ok {
			if o := c.info().Defs[id]; o != nil {
				own[o] = true
			}
		}
	}
	var res []types.Object
	for _, o := range state {
		if !own[o] {
			res = append(res, o)
		}
	}
	return res
}
