import Knut.FactsAgree.TransBalanceCmd
import Knut.Properties.C01Go
/-!
# `C01Go.QueryFor` holds of the query that `knut balance` builds

`Properties/C01Go.lean` and `C02Go.lean` state the Delta and ledger clauses about the log of `Report.Insert` calls that the translated
`Query.Into` produces, under the hypothesis `QueryFor cur cfg q w s`: "how `cmd/commands/balance.go` sets up `Where` and `Select`".
With the `journal.Query{…}` literal of `execute` translated (fragment `balanceRunner.execute.query`, `TransBalanceCmd`), the
hypothesis is a theorem: `balance_QueryFor`.

`QueryFor` speaks about the postings of ALL model accounts, also of accounts that do not start with a type word (which the registry
never creates); the registry parameters are therefore required to answer for every model account here (`getPath b.segments =
accountGo b`, `swap (accountGo b) = accountGo (swapType b)` for all `b`), not only for well-formed ones as in
`TransBalanceCmd.query_posting_model`.
-/
namespace Knut.FactsAgree.TransBalanceCmdGo
open Knut Knut.GoSem
open Knut.Generated.Go
open Knut.FactsAgree.TransAccount (accountGo)
open Knut.FactsAgree.TransPosting (postingGo commodityGo)
open Knut.FactsAgree.TransMapping
open Knut.FactsAgree.TransBalanceCmd
open Knut.FactsAgree.TransQuery (keyOf entryOf)

/-- a function value that answers `ok (w k)` on every argument IS `some (fun k => ok (w k))` -/
theorem fn_eq_of_callFn1 {α β : Type} {f : Option (α → GoSem.Outcome β)} {w : α → β}
    (h : ∀ k, callFn1 f k = GoSem.Outcome.ok (w k)) (k0 : α) : f = some (fun k => GoSem.Outcome.ok (w k)) := by
  cases f with
  | none => have := h k0; simp [callFn1] at this
  | some g =>
    congr 1
    funext k
    exact h k

/-- `shortenF` on the Go account of a model account, with a registry that knows every path -/
theorem shortenF_accountGo (m : List MapRule) (getPath : List String → account.Account)
    (hreg : ∀ b : Knut.Account, getPath b.segments = accountGo b) (a : Knut.Account) :
    shortenF m getPath (accountGo a) = optGo (shorten m a) := by
  unfold shortenF shorten
  have hname : (accountGo a).name = a.name := rfl
  have hseg : (accountGo a).segments = a.segments := rfl
  rw [hname, hseg]
  cases mappingLevel m a.name with
  | none => rfl
  | some p =>
    obtain ⟨l, sf⟩ := p
    simp only [Knut.Account.level]
    by_cases hl0 : l = 0
    · simp [hl0, optGo]
    · by_cases hsf : sf ≥ a.segments.length
      · simp [hl0, hsf, optGo]
      · by_cases hgt : l > a.segments.length - sf
        · simp [hl0, hsf, hgt, optGo]
        · simp only [hl0, hsf, hgt, if_false, optGo]
          exact hreg ⟨a.segments.take l ++ a.segments.drop (a.segments.length - sf)⟩

/-- what `Select` computes, as a pure function of the key -/
def selectF (cfg : BalCfg) (valuation : commodity.Commodity) (remapFs : List (String → Bool))
    (swap : account.Account → account.Account) (m : account.Mapping) (getPath : List String → account.Account)
    (k : amounts.Key) : amounts.Key :=
  { Date := (alignIn cfg.periods k.Date).getD 0,
    Account := shortenF (m.map ruleOf) getPath (if remapFs.any (fun f => f k.Account.name) then swap k.Account else k.Account),
    Other := GoZero.zero, Commodity := k.Commodity,
    Valuation := if valuation = GoZero.zero then GoZero.zero else k.Valuation, Description := GoZero.zero }

/-- what `Where` computes -/
def whereF (accs : Option (List (String → Bool))) (comFs : List (String → Bool)) (k : amounts.Key) : Bool :=
  accFilter accs k.Account.name && anyOrEmpty comFs k.Commodity.name

/-- **`QueryFor` of the query that `execute` builds** -/
theorem balance_QueryFor (cfg : BalCfg) (cur : String → Bool) (valuation : commodity.Commodity)
    (span : Knut.Period) (iv : Knut.Interval)
    (remapFs : List (String → Bool)) (swap : account.Account → account.Account)
    (m : account.Mapping) (getPath : List String → account.Account)
    (accs : Option (List (String → Bool))) (comFs : List (String → Bool))
    (hfl : FlagsOK cfg valuation remapFs m accs comFs)
    (hsorted : List.Pairwise (fun p q : Knut.Period => p.stop ≤ q.stop) cfg.periods) (hstop : ∀ p ∈ cfg.periods, p.stop ≠ 0)
    (hreg : ∀ b : Knut.Account, getPath b.segments = accountGo b)
    (hswap : ∀ b : Knut.Account, swap (accountGo b) = accountGo (swapType b)) :
    ∃ q, commands.balanceRunner.execute.query valuation (TransDate.partitionGo ⟨span, iv, cfg.periods⟩) (regsGo remapFs) swap m getPath
          (accs.map regsGo) (regsGo comFs) = GoSem.Outcome.ok q ∧
      Knut.C01Go.QueryFor cur cfg (journal.Query.Into.init q).query (whereF accs comFs)
        (selectF cfg valuation remapFs swap m getPath) := by
  obtain ⟨q, sh, hq, hsh, hqv, hinit, hW, hS⟩ :=
    query_agrees valuation (TransDate.partitionGo ⟨span, iv, cfg.periods⟩) remapFs swap m getPath accs comFs hfl.rules
  obtain ⟨f, hf, hft⟩ := Shorten_total m getPath hfl.rules
  have hshe : sh = f := by
    have := hsh.symm.trans hf
    injection this with this; injection this
  subst hshe
  refine ⟨q, hq, ?_⟩
  have hqq : (journal.Query.Into.init q).query = q := by rw [hinit]
  rw [hqq]
  have hSel : ∀ k, callFn1 q.Select k = GoSem.Outcome.ok (selectF cfg valuation remapFs swap m getPath k) := by
    intro k
    rw [hS, TransDate.Align_agrees_of_sorted span iv cfg.periods k.Date hsorted, Remap_agrees]
    simp only [GoSem.Outcome.bind, hft]
    rfl
  refine ⟨fn_eq_of_callFn1 (w := whereF accs comFs) hW GoZero.zero, fn_eq_of_callFn1 hSel GoZero.zero, ?_, ?_, ?_⟩
  · rw [hqv]; exact hfl.valuation
  · intro tg src p
    simp only [whereF, keyOf, postingGo]
    have h1 : (accountGo p.account).name = p.account.name := rfl
    have h2 : (commodityGo cur p.commodity).name = p.commodity := rfl
    rw [h1, h2, hfl.accounts, hfl.commodities]
  · intro tg t src p amt hdate
    have hacc : (selectF cfg valuation remapFs swap m getPath (keyOf q.Valuation tg (postingGo cur src p))).Account =
        optGo (mapAccount cfg p.account) := by
      show shortenF (m.map ruleOf) getPath
          (if remapFs.any (fun f => f p.account.name) then swap (accountGo p.account) else accountGo p.account) = _
      rw [hfl.mapping]
      have : (if remapFs.any (fun f => f p.account.name) then swap (accountGo p.account) else accountGo p.account) =
          accountGo (if remapFs.any (fun f => f p.account.name) then swapType p.account else p.account) := by
        cases remapFs.any (fun f => f p.account.name) <;> simp [hswap]
      rw [this, shortenF_accountGo _ _ hreg, mapAccount, hfl.remap]
    unfold entryOf
    rw [hacc]
    cases hma : mapAccount cfg p.account with
    | none => simp [optGo]
    | some b =>
      have hnz := Knut.C01Go.accountGo_ne_zero b
      have hd : (if (alignIn cfg.periods t.date).getD 0 = 0 then none else some ((alignIn cfg.periods t.date).getD 0)) =
          alignIn cfg.periods t.date := by
        cases ha : alignIn cfg.periods t.date with
        | none => simp
        | some d =>
          have : d ≠ 0 := by
            unfold alignIn at ha
            cases hfnd : cfg.periods.find? (fun p => !(p.stop < t.date)) with
            | none => simp [hfnd] at ha
            | some pr =>
              simp [hfnd] at ha
              rw [← ha]
              exact hstop pr (List.mem_of_find?_eq_some hfnd)
          simp [this]
      simp only [optGo, if_neg hnz, Option.map_some]
      simp only [selectF, keyOf, postingGo, hdate, hd]
      simp [accountGo, commodityGo]

open Knut.FactsAgree.TransProcess (AllRel TRel) in
/-- **the log of `knut balance`**: `Query.Into` of the query that `execute` builds, from its empty log, over the Go transactions
that reach the query stage (standing for the model transactions `ts`): no error, no panic, and the entries that `Report.Insert` keeps
are exactly the model's `queryTx` of every transaction, in order (`C01Go.queryAll_model` with `balance_QueryFor`) -/
theorem balance_queryAll (cfg : BalCfg) (cur : String → Bool) (valuation : commodity.Commodity)
    (span : Knut.Period) (iv : Knut.Interval)
    (remapFs : List (String → Bool)) (swap : account.Account → account.Account)
    (m : account.Mapping) (getPath : List String → account.Account)
    (accs : Option (List (String → Bool))) (comFs : List (String → Bool))
    (hfl : FlagsOK cfg valuation remapFs m accs comFs)
    (hsorted : List.Pairwise (fun p q : Knut.Period => p.stop ≤ q.stop) cfg.periods) (hstop : ∀ p ∈ cfg.periods, p.stop ≠ 0)
    (hreg : ∀ b : Knut.Account, getPath b.segments = accountGo b)
    (hswap : ∀ b : Knut.Account, swap (accountGo b) = accountGo (swapType b)) :
    ∃ q, commands.balanceRunner.execute.query valuation (TransDate.partitionGo ⟨span, iv, cfg.periods⟩) (regsGo remapFs) swap m getPath
          (accs.map regsGo) (regsGo comFs) = GoSem.Outcome.ok q ∧
      ∀ (tgs : List transaction.Transaction) (ts : List Knut.Transaction), AllRel (TRel cur) tgs ts →
        ∃ st', Knut.C01Go.queryAllGo (journal.Query.Into.init q) tgs = GoSem.Outcome.ok (st', none) ∧
          Knut.FactsAgree.TransReport.esOf st'.c = ts.flatMap (Balance.queryTx cfg) := by
  obtain ⟨q, hq, hfor⟩ := balance_QueryFor cfg cur valuation span iv remapFs swap m getPath accs comFs hfl hsorted hstop hreg hswap
  refine ⟨q, hq, fun tgs ts hrel => ?_⟩
  obtain ⟨st', h1, _, h3⟩ := Knut.C01Go.queryAll_model tgs ts hrel (journal.Query.Into.init q) hfor
  refine ⟨st', h1, ?_⟩
  rw [h3, Knut.FactsAgree.TransQuery.Query_init_agrees]
  simp [Knut.FactsAgree.TransReport.esOf]

end Knut.FactsAgree.TransBalanceCmdGo
