package main

// C19 — concurrent loading and processing is race-free and terminates.
//
// Streams
//   seq     in-process cpr.Seq on generated stage functions (failure specs), run in a worker process
//           (this binary re-executed with C19_WORKER set, so that the verif hooks of lib/common/cpr see
//           KNUT_VERIF_SEED / KNUT_VERIF_TRACE); result vs the model's sequential result, item-labelled
//           trace and hook trace vs the Lean acceptor
//   trace   knut commands on generated journals with KNUT_VERIF_TRACE / KNUT_VERIF_SEED: trace vs acceptor,
//           stdout / exit status vs the unperturbed run
//   race    the processor matrix under the race-instrumented binary with several seeds
//   grow    journals over hundreds of days in which accounts, commodities, positions and prices keep appearing × random
//           combinations of the report flags on balance and register, under the race detector and on the normal binary
//   dust    (c19race.go) journals whose portfolio lives on the 8-digit truncation of values (fractional lots at prices with up
//           to 8 decimals, positions closed leaving residues, multi-file) × portfolio weights / returns with every interval and
//           the other pipeline commands; every race job of every stream also runs the race binary with the hooks OFF
//   loader  include trees (valid, with errors): census of `knut print` vs the model, no-loss/no-dup monitor,
//           error trees must fail and never hang

import (
	"bytes"
	"context"
	"encoding/json"
	"fmt"
	"os"
	"os/exec"
	"path/filepath"
	"regexp"
	"runtime"
	"sort"
	"strconv"
	"strings"
	"sync"
	"syscall"
	"time"

	"github.com/sboehler/knut/lib/common/cpr"
	"github.com/sboehler/knut/lib/model/account"
	"github.com/sboehler/knut/lib/model/commodity"
)

func init() {
	runners["C19"] = runC19
	if job := os.Getenv("C19_WORKER"); job != "" {
		c19Worker(job)
		os.Exit(0)
	}
}

// ---------------------------------------------------------------- seq stream: worker side

type seqCase struct {
	Index int      `json:"index"`
	N     int      `json:"n"`
	M     int      `json:"m"`
	Spec  [][2]int `json:"spec"`  // (stage, item id) pairs on which the stage function fails
	PSeed uint64   `json:"pseed"` // perturbation inside the stage functions
	Heavy bool     `json:"heavy"` // sleep instead of yield now and then
}

type seqResult struct {
	Index   int    `json:"index"`
	Outcome string `json:"outcome"` // "ok id:v,…" | "error k:i" | "hang" | "panic …"
	LTrace  string `json:"ltrace"`  // item-labelled trace recorded by the stage functions
	Hook    string `json:"hook"`    // trace written by the verif hook for this case
}

type c19Item struct{ id, v int }

func specField(spec [][2]int) string {
	if len(spec) == 0 {
		return "-"
	}
	parts := make([]string, len(spec))
	for i, p := range spec {
		parts[i] = fmt.Sprintf("%d:%d", p[0], p[1])
	}
	return strings.Join(parts, ",")
}

func runSeqCase(sc seqCase) (outcome, ltrace string) {
	items := make([]*c19Item, sc.M)
	for i := range items {
		items[i] = &c19Item{id: i, v: i + 1}
	}
	bad := map[[2]int]bool{}
	for _, p := range sc.Spec {
		bad[p] = true
	}
	var mu sync.Mutex
	var log []string
	emit := func(s string) {
		mu.Lock()
		log = append(log, s)
		mu.Unlock()
	}
	fs := make([]func(*c19Item) error, sc.N)
	for k := 1; k <= sc.N; k++ {
		k := k
		count := 0
		r := NewRNG(sc.PSeed, "stage", k)
		perturb := func() {
			switch r.Intn(6) {
			case 0, 1:
				runtime.Gosched()
			case 2:
				if sc.Heavy {
					time.Sleep(time.Duration(r.Intn(150)) * time.Microsecond)
				}
			}
		}
		fs[k-1] = func(it *c19Item) error {
			emit(fmt.Sprintf("b%d:%d", k, it.id))
			perturb()
			if bad[[2]int{k, it.id}] {
				emit(fmt.Sprintf("f%d:%d", k, it.id))
				return fmt.Errorf("%d:%d", k, it.id)
			}
			it.v = (it.v*31 + k*7 + count) % 1000003
			count++
			perturb()
			emit(fmt.Sprintf("e%d:%d", k, it.id))
			return nil
		}
	}
	type ret struct {
		res []*c19Item
		err error
		pan any
	}
	done := make(chan ret, 1)
	go func() {
		var rt ret
		defer func() {
			if p := recover(); p != nil {
				rt.pan = p
			}
			done <- rt
		}()
		rt.res, rt.err = cpr.Seq(context.Background(), items, fs...)
	}()
	select {
	case rt := <-done:
		mu.Lock()
		lt := append([]string(nil), log...)
		mu.Unlock()
		switch {
		case rt.pan != nil:
			return fmt.Sprintf("panic %v", rt.pan), strings.Join(lt, ",")
		case rt.err != nil:
			return "error " + rt.err.Error(), strings.Join(lt, ",")
		}
		parts := make([]string, len(rt.res))
		for i, it := range rt.res {
			parts[i] = fmt.Sprintf("%d:%d", it.id, it.v)
			// the sink's result list is observed after the run: its order is the order of the sink events
			lt = append(lt, fmt.Sprintf("s:%d", it.id))
		}
		return strings.TrimSpace("ok " + strings.Join(parts, ",")), strings.Join(lt, ",")
	case <-time.After(20 * time.Second):
		mu.Lock()
		lt := strings.Join(log, ",")
		mu.Unlock()
		return "hang", lt
	}
}

func c19Worker(job string) {
	b, err := os.ReadFile(job)
	if err != nil {
		fatalf("worker: %v", err)
	}
	var cases []seqCase
	if err := json.Unmarshal(b, &cases); err != nil {
		fatalf("worker: %v", err)
	}
	tracePath := os.Getenv("KNUT_VERIF_TRACE")
	var marker *os.File
	if tracePath != "" {
		marker, _ = os.OpenFile(tracePath, os.O_APPEND|os.O_CREATE|os.O_WRONLY, 0o644)
	}
	results := make([]seqResult, 0, len(cases))
	for _, sc := range cases {
		if marker != nil {
			fmt.Fprintf(marker, "case %d\n", sc.Index)
		}
		out, lt := runSeqCase(sc)
		results = append(results, seqResult{Index: sc.Index, Outcome: out, LTrace: lt})
		if out == "hang" {
			break // goroutines of the hung run are still alive: stop here
		}
	}
	if tracePath != "" {
		if tb, err := os.ReadFile(tracePath); err == nil {
			segs := map[int][]string{}
			cur := -1
			for _, line := range strings.Split(string(tb), "\n") {
				if strings.HasPrefix(line, "case ") {
					cur, _ = strconv.Atoi(line[5:])
					continue
				}
				if line != "" {
					segs[cur] = append(segs[cur], line)
				}
			}
			for i := range results {
				results[i].Hook = strings.Join(segs[results[i].Index], "\n")
			}
		}
	}
	if err := writeJSON(job+".out", results); err != nil {
		fatalf("worker: %v", err)
	}
}

// ---------------------------------------------------------------- helpers

// hookToField turns the lines of the verif hook ("begin k", "end k", "fail k", "sink i") into the
// driver's trace field; it also checks that the sink ordinals count up from 0.
func hookToField(hook string) (field string, sinkOrdOK bool, maxStage int, sinks int) {
	var parts []string
	sinkOrdOK = true
	for _, line := range strings.Split(hook, "\n") {
		f := strings.Fields(line)
		if len(f) != 2 {
			continue
		}
		k, _ := strconv.Atoi(f[1])
		switch f[0] {
		case "begin":
			parts = append(parts, "b"+f[1])
		case "end":
			parts = append(parts, "e"+f[1])
		case "fail":
			parts = append(parts, "f"+f[1])
		case "sink":
			if k != sinks {
				sinkOrdOK = false
			}
			sinks++
			parts = append(parts, "s")
			continue
		}
		if k > maxStage {
			maxStage = k
		}
	}
	if len(parts) == 0 {
		return "-", sinkOrdOK, maxStage, sinks
	}
	return strings.Join(parts, ","), sinkOrdOK, maxStage, sinks
}

// splitRuns splits the concatenated hook trace of one process into the traces of its Seq calls:
// a "sink 0" after earlier sinks starts a new run right after the last sink before it.
func splitRuns(hook string) []string {
	lines := []string{}
	for _, l := range strings.Split(hook, "\n") {
		if l != "" {
			lines = append(lines, l)
		}
	}
	var runs []string
	start, lastSink := 0, -1
	for i, l := range lines {
		if strings.HasPrefix(l, "sink ") {
			if l == "sink 0" && lastSink >= start {
				runs = append(runs, strings.Join(lines[start:lastSink+1], "\n"))
				start = lastSink + 1
			}
			lastSink = i
		}
	}
	if start < len(lines) {
		runs = append(runs, strings.Join(lines[start:], "\n"))
	}
	return runs
}

type procResult struct {
	Exit    int
	Stdout  string
	Stderr  string
	Timeout bool
	Wall    time.Duration
}

// runProc runs a command under a watchdog. A run that exceeds its time limit is repeated once with three times the limit before
// it counts as a hang: a stall of the whole machine (a snapshot, a burst of other checks' I/O) made eight consecutive jobs of a
// thorough sweep exceed 20 s on the unchanged tree, while a command that really hangs does so again.
func runProc(timeout time.Duration, dir string, env []string, bin string, args ...string) procResult {
	res := runProcOnce(timeout, dir, env, bin, args...)
	if res.Timeout {
		time.Sleep(2 * time.Second)
		res = runProcOnce(3*timeout, dir, env, bin, args...)
	}
	return res
}

func runProcOnce(timeout time.Duration, dir string, env []string, bin string, args ...string) procResult {
	ctx, cancel := context.WithTimeout(context.Background(), timeout)
	defer cancel()
	cmd := exec.CommandContext(ctx, bin, args...)
	cmd.Dir = dir
	cmd.Env = append(os.Environ(), env...)
	cmd.SysProcAttr = &syscall.SysProcAttr{Setpgid: true}
	var so, se bytes.Buffer
	cmd.Stdout, cmd.Stderr = &so, &se
	t0 := time.Now()
	err := cmd.Run()
	res := procResult{Stdout: so.String(), Stderr: se.String(), Wall: time.Since(t0)}
	if ctx.Err() == context.DeadlineExceeded {
		res.Timeout = true
		if cmd.Process != nil {
			syscall.Kill(-cmd.Process.Pid, syscall.SIGKILL)
		}
		res.Exit = -1
		return res
	}
	if err != nil {
		if ee, ok := err.(*exec.ExitError); ok {
			res.Exit = ee.ExitCode()
		} else {
			res.Exit = -2
			res.Stderr += "\n" + err.Error()
		}
	}
	return res
}

// c19RegisterRows normalises a register report for a comparison that ignores the order of the rows: the date, printed only
// in the first row of its group, is filled into every row, then the lines are sorted.
func c19RegisterRows(out string) string {
	lines := strings.Split(out, "\n")
	prev, have := "", false
	for i, l := range lines {
		if !strings.HasPrefix(l, "|") {
			continue
		}
		j := strings.Index(l[1:], "|")
		if j < 0 {
			continue
		}
		cell := l[1 : j+1]
		if strings.TrimSpace(cell) == "" && have {
			lines[i] = "|" + prev + l[j+1:]
		} else {
			prev, have = cell, true
		}
	}
	sort.Strings(lines)
	return strings.Join(lines, "\n")
}

var reFloat = regexp.MustCompile(`-?\d+\.\d+`)

// fuzzyEqual compares two outputs whose floating point numbers may differ by two units of the last printed digit.
func fuzzyEqual(a, b string) bool {
	if reFloat.ReplaceAllString(a, "#") != reFloat.ReplaceAllString(b, "#") {
		return false
	}
	xa, xb := reFloat.FindAllString(a, -1), reFloat.FindAllString(b, -1)
	for i := range xa {
		fa, _ := strconv.ParseFloat(xa[i], 64)
		fb, _ := strconv.ParseFloat(xb[i], 64)
		digits := len(xa[i]) - strings.Index(xa[i], ".") - 1
		tol := 2.0
		for d := 0; d < digits; d++ {
			tol /= 10
		}
		if fa-fb > tol*1.0001 || fb-fa > tol*1.0001 {
			return false
		}
	}
	return true
}

// parallel runs f(0..n-1) on a bounded number of goroutines.
func parallel(n, workers int, f func(i int)) {
	var wg sync.WaitGroup
	ch := make(chan int)
	for w := 0; w < workers; w++ {
		wg.Add(1)
		go func() {
			defer wg.Done()
			for i := range ch {
				f(i)
			}
		}()
	}
	for i := 0; i < n; i++ {
		ch <- i
	}
	close(ch)
	wg.Wait()
}

func nbucket(n int) string {
	switch {
	case n == 0:
		return "0"
	case n == 1:
		return "1"
	case n <= 3:
		return "2-3"
	case n <= 8:
		return "4-8"
	}
	return ">8"
}

// ---------------------------------------------------------------- seq stream: runner side

func genSeqCase(r *RNG, index int, thorough bool) seqCase {
	sc := seqCase{Index: index, PSeed: r.Next(), Heavy: r.Chance(1, 4)}
	switch r.Intn(10) {
	case 0:
		sc.N = 0
	case 1:
		sc.N = 1
	default:
		sc.N = r.Range(2, 7)
	}
	switch r.Intn(10) {
	case 0:
		sc.M = 0
	case 1:
		sc.M = 1
	case 2:
		sc.M = r.Range(30, 80)
	default:
		sc.M = r.Range(2, 24)
	}
	if thorough && r.Chance(1, 20) {
		sc.M = r.Range(100, 400)
	}
	if sc.N > 0 && sc.M > 0 {
		switch r.Intn(10) {
		case 0, 1, 2: // one failure
			sc.Spec = [][2]int{{r.Range(1, sc.N), r.Intn(sc.M)}}
		case 3: // first item / last item, first stage / last stage
			sc.Spec = [][2]int{{Pick(r, []int{1, sc.N}), Pick(r, []int{0, sc.M - 1})}}
		case 4, 5: // several failures, some unreachable behind earlier ones
			for j := r.Range(2, 5); j > 0; j-- {
				sc.Spec = append(sc.Spec, [2]int{r.Range(1, sc.N), r.Intn(sc.M)})
			}
		case 6: // the same item fails in several stages
			it := r.Intn(sc.M)
			for k := 1; k <= sc.N; k++ {
				if r.Bool() {
					sc.Spec = append(sc.Spec, [2]int{k, it})
				}
			}
		}
	}
	return sc
}

func (c *Ctx) c19Seq() {
	n := c.N(2000, 40000)
	var cases []seqCase
	for i := 0; i < n; i++ {
		if !c.Want("seq", i) {
			continue
		}
		cases = append(cases, genSeqCase(c.Rng("seq", i), i, c.Thorough()))
	}
	var suspects []int
	if !c.Replay || c.OnlyStr == "seq" {
		suspects = c.c19SeqRun("seq", cases)
	}
	// directed search: the same pipelines (stages, items, failure spec) under many more schedules, and with every
	// single failure of the spec on its own
	var directed []seqCase
	addDirected := func(orig int) {
		base := genSeqCase(c.Rng("seq", orig), orig, c.Thorough())
		for rep := 0; rep < 40; rep++ {
			d := base
			d.Index = orig*100 + rep
			r := c.Rng("seq-directed", d.Index)
			d.PSeed = r.Next()
			d.Heavy = rep%2 == 0
			if rep >= 30 && len(base.Spec) > 0 {
				d.Spec = [][2]int{base.Spec[rep%len(base.Spec)]}
			}
			if c.Want("seq-directed", d.Index) {
				directed = append(directed, d)
			}
		}
	}
	if c.Replay && c.OnlyStr == "seq-directed" {
		addDirected(c.OnlyIndex / 100)
	} else if !c.Replay {
		if len(suspects) > 8 {
			suspects = suspects[:8]
		}
		for _, sidx := range suspects {
			addDirected(sidx)
		}
		if len(directed) > 0 {
			c.Notes = append(c.Notes, fmt.Sprintf("directed search: %d more schedules around %d pipelines on which code and model differ", len(directed), len(suspects)))
		}
	}
	if len(directed) > 0 {
		c.c19SeqRun("seq-directed", directed)
	}
}

// c19SeqRun runs the cases in worker processes and checks them; it returns the indices of the cases with a finding.
func (c *Ctx) c19SeqRun(stream string, cases []seqCase) []int {
	const batchSize = 40
	self, err := os.Executable()
	if err != nil {
		fatalf("%v", err)
	}
	var batches [][]seqCase
	for off := 0; off < len(cases); off += batchSize {
		end := off + batchSize
		if end > len(cases) {
			end = len(cases)
		}
		batches = append(batches, cases[off:end])
	}
	results := make([][]seqResult, len(batches))
	hung := make([]bool, len(batches))
	dir := filepath.Join(c.WorkDir, stream)
	os.MkdirAll(dir, 0o755)
	parallel(len(batches), 8, func(b int) {
		job := filepath.Join(dir, fmt.Sprintf("job%d.json", b))
		writeJSON(job, batches[b])
		trace := filepath.Join(dir, fmt.Sprintf("trace%d.txt", b))
		env := []string{"C19_WORKER=" + job, "KNUT_VERIF_TRACE=" + trace}
		// every third batch runs without the hook's perturbation (only the in-function one)
		if b%3 != 2 {
			env = append(env, fmt.Sprintf("KNUT_VERIF_SEED=%d", c.Seed*1000+uint64(b)+1))
		}
		pr := runProc(120*time.Second, dir, env, self)
		if pr.Timeout {
			hung[b] = true
		}
		if ob, err := os.ReadFile(job + ".out"); err == nil {
			json.Unmarshal(ob, &results[b])
		} else if !pr.Timeout {
			// the worker crashed (a panic in a goroutine of the code under test kills the process): run its cases one per process
			for _, sc := range batches[b] {
				one := filepath.Join(dir, fmt.Sprintf("job%d-%d.json", b, sc.Index))
				writeJSON(one, []seqCase{sc})
				env1 := []string{"C19_WORKER=" + one}
				if b%3 != 2 {
					env1 = append(env1, fmt.Sprintf("KNUT_VERIF_SEED=%d", c.Seed*1000+uint64(b)+1))
				}
				pr1 := runProc(60*time.Second, dir, env1, self)
				var rs []seqResult
				if ob, err := os.ReadFile(one + ".out"); err == nil {
					json.Unmarshal(ob, &rs)
				}
				if len(rs) == 1 {
					results[b] = append(results[b], rs[0])
				} else {
					out := "panic (worker crashed): " + clip(pr1.Stderr)
					if pr1.Timeout {
						out = "hang"
					}
					results[b] = append(results[b], seqResult{Index: sc.Index, Outcome: out})
				}
				os.Remove(one)
				os.Remove(one + ".out")
			}
		}
		os.Remove(job)
		os.Remove(job + ".out")
		os.Remove(trace)
	})
	bt := c.NewBatch()
	for b, batch := range batches {
		got := map[int]seqResult{}
		for _, r := range results[b] {
			got[r.Index] = r
		}
		for _, sc := range batch {
			sc := sc
			in := map[string]any{"n": sc.N, "m": sc.M, "spec": specField(sc.Spec), "pseed": sc.PSeed, "heavy": sc.Heavy}
			res, ok := got[sc.Index]
			c.Evals++
			if !ok {
				// the worker died or hung before this case
				c.Monitor(stream, sc.Index, "C19_terminates", in, !hung[b], "worker process hung (timeout) before or in this case")
				continue
			}
			shape := "none"
			if len(sc.Spec) == 1 {
				shape = "one"
			} else if len(sc.Spec) > 1 {
				shape = "many"
			}
			c.Class(fmt.Sprintf(stream+"/n%s/m%s/fail-%s/%s", nbucket(sc.N), nbucket(sc.M), shape, strings.Fields(res.Outcome + " x")[0]))
			if sc.Index < 3 {
				c.Sample(map[string]any{"stream": stream, "input": in, "impl": clip(res.Outcome), "trace": clip(res.LTrace)})
			}
			if !c.Monitor(stream, sc.Index, "C19_no_deadlock", in, res.Outcome != "hang" && !strings.HasPrefix(res.Outcome, "panic"), res.Outcome) {
				continue
			}
			implOK := strings.HasPrefix(res.Outcome, "ok")
			// (1) result vs the model's sequential result / possible errors
			bt.Add(func(model string) {
				want := model
				if !implOK && strings.HasPrefix(model, "error ") {
					// the model lists every error a schedule can report; the implementation reported one of them?
					for _, e := range strings.Split(model[6:], ",") {
						if "error "+e == res.Outcome {
							want = res.Outcome
						}
					}
				}
				c.Compare(stream, sc.Index, "c19seq", in, res.Outcome, strings.TrimSpace(want))
			}, "c19seq", itoa(sc.N), itoa(sc.M), specField(sc.Spec))
			// (2) the transition system under some schedule gives the same kind of outcome
			bt.Add(func(model string) {
				if implOK {
					c.Compare(stream, sc.Index, "c19run", in, res.Outcome, strings.TrimSpace(model))
				} else {
					c.Compare(stream, sc.Index, "c19run", in, "error", strings.Fields(model + " x")[0])
				}
			}, "c19run", itoa(sc.N), itoa(sc.M), specField(sc.Spec), itoa(int(sc.PSeed%100000)))
			// (3) property predicate on the observed schedule: labelled trace
			exit := "0"
			if implOK {
				exit = "1"
			}
			lt := res.LTrace
			if lt == "" {
				lt = "-"
			}
			bt.Add(func(mon string) {
				c.Monitor(stream, sc.Index, "C19_labelled_fifo/dependency (c19lmon)", in, mon == "ok", mon+" trace="+lt)
			}, "c19lmon", itoa(sc.N), itoa(sc.M), exit, lt)
			// (4) the hook's own trace
			field, ordOK, _, _ := hookToField(res.Hook)
			c.Monitor(stream, sc.Index, "sink ordinals", in, ordOK, res.Hook)
			bt.Add(func(mon string) {
				c.Monitor(stream, sc.Index, "C19_accept (c19mon, hook trace)", in, mon == "ok", mon+" trace="+field)
			}, "c19mon", itoa(sc.N), itoa(sc.M), exit, field)
		}
	}
	bt.Flush()
	seen := map[int]bool{}
	var suspects []int
	for _, f := range c.Findings {
		if f.Stream == stream && !seen[f.Index] {
			seen[f.Index] = true
			suspects = append(suspects, f.Index)
		}
	}
	return suspects
}

// ---------------------------------------------------------------- journals for the processor matrix

type genJournal struct {
	Text   string
	Days   int    // distinct dates
	Fault  string // "", "noprice", "unopened", "assert"
	MinDay string
	Span   int               // grow stream: last day (offset from 2020-01-01)
	Coms   []string          // grow stream: the foreign commodities
	Groups []string          // grow stream: second-level account segments
	Files  map[string]string // dust stream: further files next to journal.knut (relative path -> content) which Text includes
}

var c19Accounts = []string{"Assets:Bank", "Assets:Portfolio", "Assets:Cash:Wallet", "Liabilities:Card", "Expenses:Food", "Expenses:Rent:Flat", "Income:Salary", "Equity:Equity", "Assets:Accrued", "Expenses:Insurance"}

func c19Date(d int) string {
	return time.Date(2020, 1, 1, 0, 0, 0, 0, time.UTC).AddDate(0, 0, d).Format("2006-01-02")
}

// c19PeriodEnds lists the days (offsets from 2020-01-01) on which the periods of an accrual window [from, to] end:
// every day, Sundays, or month ends, and always the last day of the window.
func c19PeriodEnds(iv string, from, to int) []int {
	base := time.Date(2020, 1, 1, 0, 0, 0, 0, time.UTC)
	var res []int
	for x := from; x <= to; x++ {
		t := base.AddDate(0, 0, x)
		switch {
		case x == to, iv == "daily":
			res = append(res, x)
		case iv == "weekly" && t.Weekday() == time.Sunday:
			res = append(res, x)
		case iv == "monthly" && t.AddDate(0, 0, 1).Day() == 1:
			res = append(res, x)
		}
	}
	return res
}

func genProcJournal(r *RNG, fault string) genJournal {
	var b strings.Builder
	span := r.Range(3, 120)
	ndays := map[int]bool{0: true}
	for _, a := range c19Accounts {
		fmt.Fprintf(&b, "2020-01-01 open %s\n", a)
	}
	b.WriteString("\n2020-01-01 price AAA 100 CHF\n")
	if fault != "noprice" {
		b.WriteString("2020-01-01 price BBB 20.5 CHF\n")
	}
	type line struct {
		day  int
		text string
	}
	var lines []line
	nprice := r.Range(0, 8)
	for i := 0; i < nprice; i++ {
		d := r.Range(1, span)
		com := "AAA"
		if fault != "noprice" && r.Bool() {
			com = "BBB"
		}
		lines = append(lines, line{d, fmt.Sprintf("%s price %s %d.%02d CHF\n", c19Date(d), com, r.Range(5, 200), r.Intn(100))})
	}
	bank := 0
	ntx := r.Range(1, 40)
	txDays := make([]int, ntx)
	for i := range txDays {
		txDays[i] = r.Range(1, span)
		if r.Chance(1, 4) && i > 0 {
			txDays[i] = txDays[i-1] // several transactions on one day
		}
	}
	sort.Ints(txDays)
	usedBBB := false
	for i, d := range txDays {
		var t string
		switch r.Intn(7) {
		case 6:
			// an accrued expense in a priced commodity: the instalments are dated on later days, on which the price may have
			// changed (seeds C01-c / C19-d shared the posting objects of the instalments between days: Valuate writes the value
			// of a later day into a posting an earlier day's stage still reads)
			amt := r.Range(3, 400)
			iv := Pick(r, []string{"daily", "weekly", "monthly"})
			end := d + r.Range(3, 90)
			t = fmt.Sprintf("@accrue %s %s %s Assets:Accrued\n%s \"insurance %d\"\nAssets:Portfolio Expenses:Insurance %d AAA\n", iv, c19Date(d), c19Date(end), c19Date(d), i, amt)
			for _, pe := range c19PeriodEnds(iv, d, end) {
				ndays[pe] = true // the instalments are dated at the period ends
			}
			for k := r.Range(1, 4); k > 0; k-- {
				pd := r.Range(d, end)
				lines = append(lines, line{pd, fmt.Sprintf("%s price AAA %d.%02d CHF\n", c19Date(pd), r.Range(5, 200), r.Intn(100))})
			}
		case 0:
			amt := r.Range(1, 5000)
			bank += amt
			t = fmt.Sprintf("%s \"salary %d\"\nIncome:Salary Assets:Bank %d CHF\n", c19Date(d), i, amt)
		case 1:
			amt := r.Range(1, 300)
			bank -= amt
			t = fmt.Sprintf("%s \"food %d\"\nAssets:Bank Expenses:Food %d CHF\n", c19Date(d), i, amt)
		case 2:
			amt := r.Range(1, 50)
			t = fmt.Sprintf("%s \"card %d\"\nLiabilities:Card Expenses:Rent:Flat %d.50 CHF\n", c19Date(d), i, amt)
		case 3:
			amt := r.Range(1, 20)
			t = fmt.Sprintf("%s \"buy AAA %d\"\nEquity:Equity Assets:Portfolio %d AAA\n", c19Date(d), i, amt)
		case 4:
			amt := r.Range(1, 20)
			usedBBB = true
			t = fmt.Sprintf("%s \"buy BBB %d\"\nEquity:Equity Assets:Portfolio %d BBB\n", c19Date(d), i, amt)
		default:
			amt := r.Range(1, 100)
			bank -= amt
			t = fmt.Sprintf("%s \"wallet %d\"\nAssets:Bank Assets:Cash:Wallet %d CHF\n", c19Date(d), i, amt)
		}
		lines = append(lines, line{d, t})
		if r.Chance(1, 6) && (i == len(txDays)-1 || txDays[i+1] > d) { // assertions are checked at the end of the day
			lines = append(lines, line{d, fmt.Sprintf("%s balance Assets:Bank %d CHF\n", c19Date(d), bank)})
		}
	}
	if fault == "noprice" && !usedBBB {
		d := txDays[len(txDays)/2]
		lines = append(lines, line{d, fmt.Sprintf("%s \"buy BBB x\"\nEquity:Equity Assets:Portfolio 3 BBB\n", c19Date(d))})
	}
	switch fault {
	case "unopened":
		d := txDays[r.Intn(len(txDays))]
		lines = append(lines, line{d, fmt.Sprintf("%s \"ghost\"\nAssets:Bank Expenses:Ghost 1 CHF\n", c19Date(d))})
	case "assert":
		d := txDays[r.Intn(len(txDays))]
		lines = append(lines, line{d, fmt.Sprintf("%s balance Assets:Cash:Wallet 123456 CHF\n", c19Date(d))})
	}
	// file order is not date order (the builder sorts)
	for i := len(lines) - 1; i > 0; i-- {
		j := r.Intn(i + 1)
		if r.Chance(1, 3) {
			lines[i], lines[j] = lines[j], lines[i]
		}
	}
	for _, l := range lines {
		ndays[l.day] = true
		b.WriteString("\n")
		b.WriteString(l.text)
	}
	return genJournal{Text: b.String(), Days: len(ndays), Fault: fault}
}

type procCmd struct {
	Name   string
	Args   []string
	Stages []int // number of stages of every cpr.Seq call the command makes, in order
	DaysOK bool  // the number of days processed equals the number of distinct dates in the journal
	Valued bool
}

func c19Matrix(r *RNG) []procCmd {
	var cmds []procCmd
	// balance: check, [ComputePrices, Valuate], Filter, [CloseAccounts], Query
	for _, val := range []bool{false, true} {
		for _, cl := range []bool{true, false} {
			for _, mp := range []string{"", "1:1,Assets", "2,Expenses", "0,Income"} {
				for _, rm := range []string{"", "Expenses", "Assets:Cash"} {
					if !r.Chance(1, 3) && (mp != "" || rm != "") && !(mp == "1:1,Assets" && rm == "Expenses") {
						continue
					}
					args := []string{"balance", "--color=false"}
					n := 3
					if val {
						args = append(args, "-v", "CHF")
						n += 2
					}
					if !cl {
						args = append(args, "--close=false")
					} else {
						n++
					}
					if mp != "" {
						args = append(args, "-m", mp)
					}
					if rm != "" {
						args = append(args, "--remap", rm)
					}
					iv := Pick(r, []string{"", "", "--months", "--weeks", "--quarters", "--days"})
					if iv != "" {
						args = append(args, iv)
					}
					if r.Chance(1, 4) {
						args = append(args, "--csv")
					}
					if r.Chance(1, 4) {
						args = append(args, "--diff")
					}
					cmds = append(cmds, procCmd{Name: "balance", Args: args, Stages: []int{n}, DaysOK: iv == "", Valued: val})
				}
			}
		}
	}
	cmds = append(cmds,
		procCmd{Name: "print", Args: []string{"print"}, Stages: []int{1, 2}, DaysOK: true},
		procCmd{Name: "check", Args: []string{"check"}, Stages: []int{1}, DaysOK: true},
		procCmd{Name: "transcode", Args: []string{"transcode", "-v", "CHF"}, Stages: []int{4}, DaysOK: true, Valued: true},
		procCmd{Name: "returns", Args: []string{"portfolio", "returns", "-v", "CHF"}, Stages: []int{6}, Valued: true},
		procCmd{Name: "returns", Args: []string{"portfolio", "returns", "-v", "CHF", "--months"}, Stages: []int{6}, Valued: true},
		procCmd{Name: "weights", Args: []string{"portfolio", "weights", "-v", "CHF", "--csv"}, Stages: []int{5}, Valued: true},
		procCmd{Name: "weights", Args: []string{"portfolio", "weights", "-v", "CHF", "--csv", "--weeks", "-m", "1,."}, Stages: []int{5}, Valued: true},
		// account / commodity filters: one predicate value is handed to several stages of the pipeline, i.e. to several
		// goroutines (seeded change C19-e memoised the regex verdicts in a plain map inside the predicate)
		procCmd{Name: "returns", Args: []string{"portfolio", "returns", "-v", "CHF", "--weeks", "--account", "Assets"}, Stages: []int{6}, Valued: true},
		procCmd{Name: "returns", Args: []string{"portfolio", "returns", "-v", "CHF", "--account", "Portfolio|Bank", "--commodity", "AAA|CHF"}, Stages: []int{6}, Valued: true},
		procCmd{Name: "weights", Args: []string{"portfolio", "weights", "-v", "CHF", "--csv", "--months", "--account", "Assets:", "--commodity", "."}, Stages: []int{5}, Valued: true},
		procCmd{Name: "balance", Args: []string{"balance", "--color=false", "-v", "CHF", "--months", "--account", "Assets|Expenses", "--commodity", "CHF|AAA"}, Stages: []int{6}, Valued: true},
	)
	return cmds
}

type procJob struct {
	Stream  string
	Index   int
	J       genJournal
	Cmd     procCmd
	Seeds   []uint64
	Race    bool
	Long    bool // long journal: three times the usual watchdog timeouts
	base    procResult
	plain   []procResult // race jobs: runs of the race binary WITHOUT the scheduling / trace hooks (see c19RunProcJobs)
	runs    []procResult
	traces  []string
	journal string
}

func (c *Ctx) c19RunProcJobs(jobs []*procJob) {
	raceBin := c.KnutBin + ".race"
	dir := filepath.Join(c.WorkDir, "proc")
	os.MkdirAll(dir, 0o755)
	parallel(len(jobs), 12, func(i int) {
		jb := jobs[i]
		jd := filepath.Join(dir, fmt.Sprintf("%s%d", jb.Stream, jb.Index))
		os.MkdirAll(jd, 0o755)
		if os.Getenv("C19_KEEP") == "" { // development aid: keep the journals
			defer os.RemoveAll(jd)
		}
		path := filepath.Join(jd, "journal.knut")
		os.WriteFile(path, []byte(jb.J.Text), 0o644)
		for rel, text := range jb.J.Files {
			os.MkdirAll(filepath.Dir(filepath.Join(jd, rel)), 0o755)
			os.WriteFile(filepath.Join(jd, rel), []byte(text), 0o644)
		}
		args := append(append([]string{}, jb.Cmd.Args...), path)
		scale := time.Duration(1)
		if jb.Long {
			scale = 3
		}
		jb.base = runProc(scale*10*time.Second, jd, nil, c.KnutBin, args...)
		if jb.Race && !jb.base.Timeout {
			// The hooks behind KNUT_VERIF_SEED / KNUT_VERIF_TRACE take one global mutex at every push, pop, begin and end of every
			// stage. For the race detector each lock is a synchronisation: whatever stage k+1 does to day n before it logs `end`
			// happens-before everything stage k does after a later log event, so an access of a LATER stage to what an EARLIER
			// stage still uses is ordered by the instrumentation itself in most schedules and is not reported. The race binary
			// therefore also runs on the program's own synchronisation only (the rendezvous of cpr.Seq): hooks off.
			nplain := 1
			if jb.Stream == "dust" {
				nplain = 2
			}
			for k := 0; k < nplain; k++ {
				pr := runProc(scale*40*time.Second, jd, []string{"KNUT_VERIF_SEED=", "KNUT_VERIF_TRACE=", "GORACE=halt_on_error=1 exitcode=66"}, raceBin, args...)
				jb.plain = append(jb.plain, pr)
				if pr.Timeout {
					break
				}
			}
		}
		for _, s := range jb.Seeds {
			if jb.base.Timeout || (len(jb.runs) > 0 && jb.runs[len(jb.runs)-1].Timeout) {
				break // one hang is enough: do not wait for the timeout again and again
			}
			bin := c.KnutBin
			to := 10 * time.Second
			if jb.Race {
				bin = raceBin
				to = 40 * time.Second
			}
			tr := filepath.Join(jd, fmt.Sprintf("trace-%d.txt", s))
			pr := runProc(scale*to, jd, []string{fmt.Sprintf("KNUT_VERIF_SEED=%d", s), "KNUT_VERIF_TRACE=" + tr}, bin, args...)
			tb, _ := os.ReadFile(tr)
			jb.runs = append(jb.runs, pr)
			jb.traces = append(jb.traces, string(tb))
		}
	})
}

func (c *Ctx) c19CheckProcJob(bt *Batch, jb *procJob) {
	stream, i := jb.Stream, jb.Index
	c.Evals++
	in := map[string]any{"argv": jb.Cmd.Args, "journal": jb.J.Text, "fault": jb.J.Fault, "race": jb.Race}
	if len(jb.J.Files) > 0 {
		in["files"] = jb.J.Files
	}
	stripPath := func(s string) string {
		return regexp.MustCompile(`/[^\s:"]*journal\.knut`).ReplaceAllString(s, "journal.knut")
	}
	base := jb.base
	if i < 2 {
		c.Sample(map[string]any{"stream": stream, "argv": jb.Cmd.Args, "fault": jb.J.Fault, "exit": base.Exit, "stdout": clip(base.Stdout)[:min(300, len(clip(base.Stdout)))]})
	}
	c.Monitor(stream, i, "terminates (unperturbed run)", in, !base.Timeout, "timeout")
	noprice := jb.J.Fault == "noprice" || jb.J.Fault == "early" // a booking in a commodity that has no price on its day
	expectFail := jb.J.Fault == "unopened" || jb.J.Fault == "assert" || (noprice && jb.Cmd.Valued)
	// outcome model of the command: a journal with a fault in a stage makes the command fail, otherwise it succeeds
	c.Compare(stream, i, "exit-status", in, fmt.Sprintf("fail=%v", base.Exit != 0), fmt.Sprintf("fail=%v", expectFail))
	c.Class(fmt.Sprintf("%s/%s/%s/fault-%s", stream, jb.Cmd.Name, strings.Join(jb.Cmd.Args[1:], " "), jb.J.Fault))
	for _, pr := range jb.plain {
		in2 := map[string]any{"argv": jb.Cmd.Args, "journal": jb.J.Text, "fault": jb.J.Fault, "race": jb.Race, "hooks": "off", "GORACE": "halt_on_error=1 exitcode=66"}
		if len(jb.J.Files) > 0 {
			in2["files"] = jb.J.Files
		}
		if !c.Monitor(stream, i, "C19_no_deadlock (command terminates)", in2, !pr.Timeout, "timeout: the command hung") {
			continue
		}
		// a day is owned by one stage at a time: no access of two stages to the same memory without a hand-over in between
		c.Monitor(stream, i, "no data race reported (hooks off)", in2, !strings.Contains(pr.Stderr, "DATA RACE") && pr.Exit != 66, fmt.Sprintf("exit %d; stderr %s", pr.Exit, clip(pr.Stderr)))
		if !strings.Contains(pr.Stderr, "DATA RACE") { // a race report lists goroutines, too
			c.Monitor(stream, i, "no panic", in2, !strings.Contains(pr.Stderr, "panic:") && !strings.Contains(pr.Stderr, "fatal error:") && !strings.Contains(pr.Stderr, "goroutine "), clip(pr.Stderr))
		}
		c.Monitor(stream, i, "same exit status as the unperturbed run", in2, pr.Exit == base.Exit || pr.Exit == 66,
			fmt.Sprintf("exit %d vs %d; stderr %s", pr.Exit, base.Exit, clip(pr.Stderr)))
	}
	for k, pr := range jb.runs {
		seed := jb.Seeds[k]
		in2 := map[string]any{"argv": jb.Cmd.Args, "journal": jb.J.Text, "fault": jb.J.Fault, "race": jb.Race, "KNUT_VERIF_SEED": seed}
		if len(jb.J.Files) > 0 {
			in2["files"] = jb.J.Files
		}
		if !c.Monitor(stream, i, "C19_no_deadlock (command terminates)", in2, !pr.Timeout, "timeout: the command hung") {
			continue
		}
		c.Monitor(stream, i, "no data race reported", in2, !strings.Contains(pr.Stderr, "DATA RACE"), clip(pr.Stderr))
		c.Monitor(stream, i, "no panic", in2, !strings.Contains(pr.Stderr, "panic:") && !strings.Contains(pr.Stderr, "goroutine "), clip(pr.Stderr))
		c.Monitor(stream, i, "same exit status as the unperturbed run", in2, pr.Exit == base.Exit || (strings.Contains(pr.Stderr, "DATA RACE")),
			fmt.Sprintf("exit %d vs %d; stderr %s", pr.Exit, base.Exit, clip(pr.Stderr)))
		// `portfolio returns` prints inside its last stage: when an earlier stage fails, how far the last stage got
		// depends on the schedule, so on failure the outputs only have to be prefixes of one another
		sameOut := pr.Stdout == base.Stdout
		if !sameOut && pr.Exit == 0 && (jb.Cmd.Name == "returns" || jb.Cmd.Name == "weights") {
			// float64 sums over Go maps: the last printed digit (and the sign of zero) may differ from run to run
			sameOut = fuzzyEqual(pr.Stdout, base.Stdout)
		}
		if !sameOut && pr.Exit == 0 && jb.Cmd.Name == "register" {
			// the rows of one date of a register report come out in map iteration order (two plain runs of the unchanged
			// binary differ; output determinism is C06's subject, and C06 does not list register): same rows, any order
			sameOut = c19RegisterRows(pr.Stdout) == c19RegisterRows(base.Stdout)
		}
		if pr.Exit != 0 && base.Exit != 0 {
			sameOut = strings.HasPrefix(pr.Stdout, base.Stdout) || strings.HasPrefix(base.Stdout, pr.Stdout)
		}
		c.Monitor(stream, i, "same stdout as the unperturbed run", in2, sameOut, "perturbed:\n"+clip(pr.Stdout)+"\nunperturbed:\n"+clip(base.Stdout))
		if expectFail {
			// "when any stage fails ... the command returns an error ... rather than reporting success", in every schedule
			c.Monitor(stream, i, "a failing stage is never reported as success", in2, pr.Exit != 0, fmt.Sprintf("exit 0 on a journal with fault %q; stdout %s", jb.J.Fault, clip(pr.Stdout)))
		}
		if !noprice { // the missing-price message names map-ordered positions
			c.Monitor(stream, i, "error of a failing stage (same message as the unperturbed run)", in2, stripPath(pr.Stderr) == stripPath(base.Stderr) || strings.Contains(pr.Stderr, "DATA RACE"),
				"perturbed:\n"+clip(pr.Stderr)+"\nunperturbed:\n"+clip(base.Stderr))
		}
		// the logged trace, one Seq call after the other
		runs := splitRuns(jb.traces[k])
		if pr.Exit == 0 {
			c.Compare(stream, i, "number of Seq calls", in2, itoa(len(runs)), itoa(len(jb.Cmd.Stages)))
		}
		for ri, run := range runs {
			if ri >= len(jb.Cmd.Stages) {
				break
			}
			n := jb.Cmd.Stages[ri]
			field, ordOK, maxStage, sinks := hookToField(run)
			c.Monitor(stream, i, "sink ordinals", in2, ordOK, run)
			last := ri == len(runs)-1
			okRun := pr.Exit == 0 || !last
			m := jb.J.Days
			if okRun {
				c.Compare(stream, i, "stage count", in2, itoa(maxStage), itoa(n))
				if jb.Cmd.DaysOK {
					c.Compare(stream, i, "days processed", in2, itoa(sinks), itoa(jb.J.Days))
				}
				m = sinks
			} else if !jb.Cmd.DaysOK {
				m = 1 << 20 // unknown number of days: only the order constraints are checked
			}
			exit := "0"
			if okRun {
				exit = "1"
			}
			ri := ri
			bt.Add(func(mon string) {
				ok := mon == "ok"
				if mon == "ok-no-stage-failed" {
					// the command failed although no stage logged a failure: only legitimate if it failed outside the pipeline
					ok = len(runs) == 0
				}
				c.Monitor(stream, i, "C19_accept (c19mon)", in2, ok, fmt.Sprintf("%s; Seq call %d, n=%d m=%d trace=%s", mon, ri, n, m, clip(field)))
			}, "c19mon", itoa(n), itoa(m), exit, field)
		}
		if pr.Exit != 0 && expectFail {
			// a failing stage must have logged its failure
			c.Monitor(stream, i, "failure is a stage failure", in2, strings.Contains(jb.traces[k], "fail "), "no `fail` event in the trace: "+clip(jb.traces[k]))
		}
	}
}

func (c *Ctx) c19Proc(stream string, race bool, njournals, ncmds, nseeds int) {
	var jobs []*procJob
	idx := 0
	faults := []string{"", "", "", "", "noprice", "unopened", "assert"}
	for j := 0; j < njournals; j++ {
		r := c.Rng(stream, j)
		fault := Pick(r, faults)
		jr := genProcJournal(r, fault)
		cmds := c19Matrix(r)
		// every journal gets the fixed tail of the matrix in turn plus random balance variants
		for k := 0; k < ncmds; k++ {
			var pc procCmd
			if k == 0 {
				pc = cmds[len(cmds)-7+(j%7)]
			} else {
				pc = cmds[r.Intn(len(cmds)-7)]
			}
			i := idx
			idx++
			if !c.Want(stream, i) {
				continue
			}
			var seeds []uint64
			for s := 0; s < nseeds; s++ {
				seeds = append(seeds, c.Seed*7919+uint64(i*31+s)+1)
			}
			jobs = append(jobs, &procJob{Stream: stream, Index: i, J: jr, Cmd: pc, Seeds: seeds, Race: race})
		}
	}
	c.c19RunProcJobs(jobs)
	bt := c.NewBatch()
	for _, jb := range jobs {
		c.c19CheckProcJob(bt, jb)
	}
	bt.Flush()
}

// ---------------------------------------------------------------- grow stream: journals that keep growing × flag combinations
//
// The journals of the trace / race streams have ten accounts and at most forty transactions: every account, every
// valuation account and every mapped account exists after the first few days, so the stages of the per-day pipeline meet on
// the shared structures (account registry and its tree, price tables, report) only while nothing changes any more. Here a
// journal runs over hundreds of days and keeps changing what the stages share: accounts of depth 2-5 are opened (and some
// closed again) throughout, under old and new parents on every level of the tree; commodities are introduced throughout and
// re-priced (nearly) every day, so that the valuation stage books adjustments - and creates the Income:<path> valuation
// account of every new position - on day m while the later stages (closing, query with --remap / -m / filters, report) still
// work on days m-1, m-2, …. Every journal is run with random combinations of the flags that put work on shared structures
// into different stages (-v, -m level 0-4 with and without suffix and regex, several -m rules, --remap, --account /
// --commodity / --source / --dest filters, -s, intervals, --from/--to/--last, --diff, --close=false), on `balance` and
// `register`, under the race detector and on the normal binary, with perturbed schedules.

type c19gAcc struct {
	name      string
	bal       map[string]int
	protected bool // never closed, never asserted
	since     int
}

var c19gSegs = []string{"Bank", "Broker", "Dep", "Pf", "Acc", "Cash", "Sub", "Fund", "Loan", "Card"}

func c19Cents(p int) string { return fmt.Sprintf("%d.%02d", p/100, p%100) }

func genGrowJournal(r *RNG, fault string, thorough bool) genJournal {
	type line struct {
		day  int
		text string
	}
	var lines []line
	ndays := map[int]bool{}
	add := func(d int, format string, a ...any) {
		lines = append(lines, line{d, fmt.Sprintf(format, a...)})
		ndays[d] = true
	}
	span := r.Range(100, 380)
	if thorough {
		span = r.Range(100, 600) // the time of a valued run grows with days × positions held
	}
	dens := r.Range(1, 3)
	// commodities: introduced over time, (nearly) daily prices, some quoted in the first foreign commodity
	names := []string{"USD", "EUR", "AAA", "BBB", "GLD", "T1", "Q2X", "ZZZZ"}
	for i := len(names) - 1; i > 0; i-- {
		j := r.Intn(i + 1)
		names[i], names[j] = names[j], names[i]
	}
	ncom := r.Range(2, 7)
	coms := names[:ncom]
	intro := make([]int, ncom)
	prob := make([]int, ncom)
	base := make([]string, ncom)
	cur := make([]int, ncom)
	for k := range coms {
		if k > 0 {
			intro[k] = r.Range(0, span*3/4)
		}
		prob[k] = Pick(r, []int{100, 100, 85, 50})
		base[k] = "CHF"
		if k > 0 && r.Chance(1, 5) {
			base[k] = coms[0]
		}
		cur[k] = r.Range(50, 50000)
	}
	sort.Ints(intro)
	prob[0] = 100
	unpriced := -1
	if fault == "noprice" {
		unpriced = r.Range(1, ncom-1)
		base[unpriced] = "CHF"
	}
	// accounts
	counter := 0
	fresh := func() string {
		counter++
		return fmt.Sprintf("%s%d", Pick(r, c19gSegs), counter)
	}
	var open []*c19gAcc // open asset / liability accounts
	prefixes := []string{"Assets", "Assets", "Liabilities"}
	flows := map[string][]string{"Expenses": nil, "Income": nil}
	newAL := func(d int, protected bool, name string) *c19gAcc {
		if name == "" {
			p := Pick(r, prefixes)
			depth := strings.Count(p, ":") + 1
			n := r.Range(1, 3)
			if depth+n > 5 {
				n = 5 - depth
			}
			if n < 1 {
				n = 1
				p = p[:strings.LastIndex(p, ":")]
			}
			name = p
			for i := 0; i < n; i++ {
				name += ":" + fresh()
				prefixes = append(prefixes, name)
			}
		}
		od := d
		if r.Chance(1, 4) {
			od = r.Range(max(0, d-12), d) // opened some days before the first booking
		}
		add(od, "%s open %s\n", c19Date(od), name)
		a := &c19gAcc{name: name, bal: map[string]int{}, protected: protected, since: d}
		open = append(open, a)
		return a
	}
	flowAcc := func(d int, typ string) string {
		l := flows[typ]
		if len(l) > 0 && !r.Chance(1, 4) {
			return Pick(r, l)
		}
		name := typ
		if len(l) > 0 && r.Bool() {
			name = Pick(r, l) // below an existing one
			if strings.Count(name, ":") >= 3 {
				name = typ
			}
		}
		for n := r.Range(1, 2); n > 0; n-- {
			name += ":" + fresh()
		}
		add(d, "%s open %s\n", c19Date(d), name)
		flows[typ] = append(flows[typ], name)
		return name
	}
	txn := 0
	tx := func(d int, credit, debit string, qty int, com string) {
		txn++
		add(d, "%s \"t%d\"\n%s %s %d %s\n", c19Date(d), txn, credit, debit, qty, com)
	}
	add(0, "%s open Equity:Opening\n", c19Date(0))
	main := newAL(0, false, "Assets:Bank:Main")
	main.protected = true
	prepaid := newAL(0, true, "Assets:Prepaid:Src")
	add(0, "%s open Assets:Accrued\n", c19Date(0))
	tx(0, "Equity:Opening", main.name, 100000, "CHF")
	tx(0, "Equity:Opening", prepaid.name, 100000, coms[0])
	main.bal["CHF"] = 100000
	usable := func(d int) []string {
		res := []string{}
		for k, c := range coms {
			if intro[k] <= d {
				res = append(res, c)
			}
		}
		return res
	}
	held := func(a *c19gAcc) (string, bool) { // a commodity of which the account holds a positive quantity
		var cs []string
		for c, q := range a.bal {
			if q > 0 {
				cs = append(cs, c)
			}
		}
		if len(cs) == 0 {
			return "", false
		}
		sort.Strings(cs)
		return Pick(r, cs), true
	}
	faultDay := r.Range(span/3, span*2/3)
	for d := 0; d <= span; d++ {
		for k, c := range coms {
			if intro[k] > d || k == unpriced {
				continue
			}
			if intro[k] == d || r.Intn(100) < prob[k] {
				step := r.Range(-cur[k]/20-1, cur[k]/20+1)
				if step == 0 {
					step = 1
				}
				cur[k] = max(1, cur[k]+step)
				add(d, "%s price %s %s %s\n", c19Date(d), c, c19Cents(cur[k]), base[k])
			}
		}
		if unpriced >= 0 && intro[unpriced] == d {
			a := newAL(d, true, "") // the position without a price
			tx(d, "Equity:Opening", a.name, 3, coms[unpriced])
			a.bal[coms[unpriced]] += 3
		}
		if d == 0 {
			continue
		}
		var asserts [][2]string
		for ev := r.Intn(dens + 1); ev > 0; ev-- {
			cs := usable(d)
			kind := r.Intn(12)
			switch {
			case kind < 5: // a position in a new (or an old) account
				var a *c19gAcc
				if r.Chance(4, 5) || len(open) < 3 {
					a = newAL(d, false, "")
				} else {
					a = Pick(r, open)
				}
				com := Pick(r, cs)
				if r.Chance(1, 6) {
					com = "CHF"
				}
				q := r.Range(1, 500)
				tx(d, "Equity:Opening", a.name, q, com)
				a.bal[com] += q
			case kind < 7: // transfer between accounts
				from := Pick(r, open)
				to := Pick(r, open)
				com, ok := held(from)
				if !ok || from == to {
					continue
				}
				q := r.Range(1, from.bal[com])
				tx(d, from.name, to.name, q, com)
				from.bal[com] -= q
				to.bal[com] += q
			case kind < 9: // expense
				from := Pick(r, open)
				com, ok := held(from)
				if !ok {
					continue
				}
				q := r.Range(1, max(1, from.bal[com]/4))
				tx(d, from.name, flowAcc(d, "Expenses"), q, com)
				from.bal[com] -= q
			case kind < 10: // income
				to := Pick(r, open)
				com := "CHF"
				if r.Chance(1, 3) {
					com = Pick(r, cs)
				}
				q := r.Range(1, 3000)
				tx(d, flowAcc(d, "Income"), to.name, q, com)
				to.bal[com] += q
			case kind < 11: // empty an account and close it
				i := r.Intn(len(open))
				a := open[i]
				if a.protected || d-a.since < 2 {
					continue
				}
				keys := make([]string, 0, len(a.bal))
				for c := range a.bal {
					keys = append(keys, c)
				}
				sort.Strings(keys)
				for _, c := range keys {
					switch q := a.bal[c]; {
					case q > 0:
						tx(d, a.name, main.name, q, c)
						main.bal[c] += q
					case q < 0:
						tx(d, main.name, a.name, -q, c)
						main.bal[c] += q
					}
					a.bal[c] = 0
				}
				add(d, "%s close %s\n", c19Date(d), a.name)
				open = append(open[:i], open[i+1:]...)
			default:
				if r.Bool() { // an accrued expense in a priced commodity (the instalments are dated on later days)
					iv := Pick(r, []string{"daily", "weekly", "monthly"})
					end := d + r.Range(3, 60)
					txn++
					add(d, "@accrue %s %s %s Assets:Accrued\n%s \"t%d\"\n%s %s %d %s\n", iv, c19Date(d), c19Date(end), c19Date(d), txn, prepaid.name, flowAcc(d, "Expenses"), r.Range(3, 400), coms[0])
					for _, pe := range c19PeriodEnds(iv, d, end) {
						ndays[pe] = true
					}
				} else if a := Pick(r, open); !a.protected { // balance assertion (checked at the end of the day)
					keys := make([]string, 0, len(a.bal))
					for c := range a.bal {
						keys = append(keys, c)
					}
					if len(keys) > 0 {
						sort.Strings(keys)
						asserts = append(asserts, [2]string{a.name, Pick(r, keys)})
					}
				}
			}
		}
		for _, as := range asserts {
			for _, a := range open {
				if a.name == as[0] {
					add(d, "%s balance %s %d %s\n", c19Date(d), a.name, a.bal[as[1]], as[1])
				}
			}
		}
		if d == faultDay {
			switch fault {
			case "unopened":
				tx(d, main.name, "Expenses:Ghost", 1, "CHF")
			case "assert":
				add(d, "%s balance %s 123456789 CHF\n", c19Date(d), prepaid.name)
			}
		}
	}
	// file order is not date order (the builder sorts)
	for i := len(lines) - 1; i > 0; i-- {
		j := r.Intn(i + 1)
		if r.Chance(1, 3) && lines[i].day != lines[j].day {
			lines[i], lines[j] = lines[j], lines[i]
		}
	}
	var b strings.Builder
	for _, l := range lines {
		b.WriteString(l.text)
		b.WriteString("\n")
	}
	// names for the regular expressions of the flags
	var groups []string
	seen := map[string]bool{}
	for _, p := range prefixes {
		if ss := strings.Split(p, ":"); len(ss) >= 2 && !seen[ss[1]] {
			seen[ss[1]] = true
			groups = append(groups, ss[1])
		}
	}
	return genJournal{Text: b.String(), Days: len(ndays), Fault: fault, Span: span, Coms: coms, Groups: groups}
}

// genGrowCmd draws one command line for a growing journal: `balance` or `register` with a random combination of the flags
// that make the stages of the pipeline work on shared structures. force >= 0 fixes -v CHF and the -m level (so that every
// journal meets valuation with every level); everything else is drawn.
func genGrowCmd(r *RNG, jr genJournal, force int) procCmd {
	register := r.Chance(1, 4)
	val := force >= 0 || r.Chance(3, 4)
	name := "balance"
	n := 3
	if register {
		name = "register"
		n = 4
	}
	args := []string{name, "--color=false"}
	if val {
		args = append(args, "-v", "CHF")
		n += 2
	}
	rx := func() string {
		switch r.Intn(8) {
		case 0:
			return "Income"
		case 1:
			return "Assets"
		case 2:
			return "Expenses|Income"
		case 3:
			return "."
		case 4:
			return "^(Assets|Liabilities)"
		case 5:
			return Pick(r, jr.Groups)
		case 6:
			return "(Assets|Income):" + Pick(r, jr.Groups)
		}
		return "[0-9]*[02468]$"
	}
	mapRule := func(level int) string {
		s := itoa(level)
		if level > 0 && r.Chance(1, 3) {
			s += ":" + itoa(r.Range(1, 2))
		}
		if r.Chance(1, 2) {
			s += "," + rx()
		}
		return s
	}
	if force >= 0 {
		args = append(args, "-m", mapRule(force))
	} else if r.Chance(3, 4) {
		level := Pick(r, []int{0, 1, 1, 2, 2, 2, 3, 3, 3, 4, 4})
		if register && level == 0 {
			// `register -m 0[,<regex>]` maps the other account to nil and the renderer's sort dereferences it (a panic after the
			// pipeline has finished, whatever the schedule: a robustness defect of the command, not a statement of C19)
			level = 1
		}
		args = append(args, "-m", mapRule(level))
	}
	if r.Chance(1, 4) {
		args = append(args, "-m", mapRule(r.Range(1, 4))) // a second rule: the first matching rule decides
	}
	if r.Chance(1, 3) {
		args = append(args, "--remap", rx())
	}
	windowed := false
	if r.Chance(1, 2) {
		args = append(args, Pick(r, []string{"--days", "--weeks", "--months", "--quarters", "--years"}))
		windowed = true
		if r.Chance(1, 4) {
			args = append(args, "--last", itoa(r.Range(1, 6)))
		}
	}
	from := 0
	if r.Chance(1, 5) {
		from = r.Range(0, jr.Span)
		args = append(args, "--from", c19Date(from))
		windowed = true
	}
	if r.Chance(1, 5) {
		args = append(args, "--to", c19Date(r.Range(from, jr.Span+10)))
		windowed = true
	}
	if r.Chance(1, 4) {
		args = append(args, "--commodity", Pick(r, append([]string{"CHF", ".", "CHF|" + jr.Coms[0]}, jr.Coms...)))
	}
	if r.Chance(1, 8) {
		args = append(args, "-k")
	}
	if r.Chance(1, 6) {
		args = append(args, "--digits", itoa(r.Range(0, 6)))
	}
	if register {
		if r.Chance(1, 4) {
			args = append(args, "--source", rx())
		}
		if r.Chance(1, 4) {
			args = append(args, "--dest", rx())
		}
		for _, f := range []string{"-c", "-d", "-a", "-s"} {
			if r.Chance(1, 3) {
				args = append(args, f)
			}
		}
	} else {
		if r.Chance(1, 3) {
			args = append(args, "--close=false")
		} else {
			n++
		}
		if r.Chance(1, 4) {
			args = append(args, "--account", rx())
		}
		if r.Chance(1, 4) {
			args = append(args, "-s", Pick(r, append([]string{"."}, jr.Coms...)))
		}
		if r.Chance(1, 4) {
			args = append(args, "--diff")
		}
		if r.Chance(1, 5) {
			args = append(args, "--csv")
		}
		if r.Chance(1, 5) {
			args = append(args, "--sort")
		}
	}
	return procCmd{Name: name, Args: args, Stages: []int{n}, DaysOK: !windowed, Valued: val}
}

// c19Grow runs the grow stream: njournals growing journals × ncmds commands; the first four commands of a journal are -v CHF
// with -m level 1, 2, 3, 4, the others are drawn freely. Three of four jobs run under the race detector.
func (c *Ctx) c19Grow(stream string, njournals, ncmds, nseeds int) {
	var jobs []*procJob
	idx := 0
	faults := []string{"", "", "", "", "", "", "", "noprice", "unopened", "assert"}
	for j := 0; j < njournals; j++ {
		r := c.Rng(stream, j)
		jr := genGrowJournal(r, Pick(r, faults), c.Thorough())
		for k := 0; k < ncmds; k++ {
			force := -1
			if k < 4 {
				force = k + 1
			}
			pc := genGrowCmd(r, jr, force)
			i := idx
			idx++
			if !c.Want(stream, i) {
				continue
			}
			var seeds []uint64
			for s := 0; s < nseeds; s++ {
				seeds = append(seeds, c.Seed*7919+uint64(i*31+s)+1)
			}
			jobs = append(jobs, &procJob{Stream: stream, Index: i, J: jr, Cmd: pc, Seeds: seeds, Race: (j+k)%4 != 3, Long: true})
		}
	}
	c.c19RunProcJobs(jobs)
	bt := c.NewBatch()
	for _, jb := range jobs {
		c.c19CheckProcJob(bt, jb)
	}
	bt.Flush()
}

// ---------------------------------------------------------------- quote stream: the price table changes piecewise
//
// The journals of the trace / race / grow streams re-price many commodities on (nearly) every day: every price day replaces the
// whole normalized table, and a commodity gets its first price together with the daily quotes of all the others. Here the
// table changes piecewise. After an (optional) first price day a journal has days WITHOUT any price directive (they share the
// table of the last price day, while the valuation stage is still reading it one day behind the price stage) and price days
// of every composition: exactly one directive that quotes a commodity for the first time and nothing else (in CHF, in an older
// foreign commodity, in the commodity introduced just before; written `price NEW p OLD` or `price OLD p NEW`), two or three
// new commodities at once, a new commodity next to a re-quote of an old one, a plain re-quote. Valued bookings stand on the
// days just before, on and after every such day: positions in the old commodities (so that Valuate walks over the shared table at
// the start of each day and for every posting), bookings in the new commodity on the day of its first price and after, and -
// fault "early" - a booking in a commodity one to three days BEFORE its first price: every valued command must fail on it ('no
// price found'), in every schedule, however far the price stage has got ahead. Sizes: 0-8 first quotes, 2 to ~90 days.

var c19qNames = []string{"USD", "EUR", "AAPL", "GLD", "BTC", "T1", "Q2X", "ZZZZ", "NESN", "JPY", "X9", "VTI", "SEK", "MSFT"}

func genQuoteJournal(r *RNG, fault string, thorough bool) genJournal {
	type line struct {
		day  int
		text string
	}
	var lines []line
	ndays := map[int]bool{}
	add := func(d int, format string, a ...any) {
		lines = append(lines, line{d, fmt.Sprintf(format, a...)})
		ndays[d] = true
	}
	names := append([]string{}, c19qNames...)
	for i := len(names) - 1; i > 0; i-- {
		j := r.Intn(i + 1)
		names[i], names[j] = names[j], names[i]
	}
	nnew := r.Range(1, 8)
	if fault == "" && r.Chance(1, 10) {
		nnew = 0 // only re-quotes and days without prices
	}
	nold := r.Range(0, 3) // priced on day 0
	if nold == 0 && nnew == 0 {
		nold = 1
	}
	gapMax := Pick(r, []int{1, 2, 3, 3, 6, 12})
	if thorough && r.Chance(1, 4) {
		gapMax = 40
	}
	dens := r.Range(1, 4)
	// accounts
	accs := []string{"Assets:Bank", "Assets:Broker:Depot", "Assets:Cash:Wallet", "Liabilities:Card"}
	add(0, "%s open Equity:Opening\n", c19Date(0))
	add(0, "%s open Expenses:Fees\n", c19Date(0))
	add(0, "%s open Income:Salary\n", c19Date(0))
	for _, a := range accs {
		add(0, "%s open %s\n", c19Date(0), a)
	}
	groups := []string{"Bank", "Broker", "Cash", "Card"}
	nacc := 0
	account := func(d int) string {
		if r.Chance(1, 4) {
			nacc++
			g := Pick(r, groups)
			p := "Assets:"
			if g == "Card" {
				p = "Liabilities:"
			}
			a := fmt.Sprintf("%s%s:P%d", p, g, nacc)
			if g == "Broker" && r.Bool() {
				a = fmt.Sprintf("Assets:Broker:Depot:S%d", nacc)
			}
			accs = append(accs, a)
			add(d, "%s open %s\n", c19Date(d), a)
			return a
		}
		return Pick(r, accs)
	}
	txn := 0
	tx := func(d int, credit, debit string, qty int, com string) {
		txn++
		add(d, "%s \"t%d\"\n%s %s %d %s\n", c19Date(d), txn, credit, debit, qty, com)
	}
	cur := map[string]int{}
	quote := func(d int, com, base string) {
		if cur[com] == 0 {
			cur[com] = r.Range(50, 50000)
		} else {
			cur[com] = max(1, cur[com]+r.Range(-cur[com]/20-1, cur[com]/20+1))
		}
		if r.Chance(1, 6) {
			add(d, "%s price %s %s %s\n", c19Date(d), base, c19Cents(cur[com]), com) // the old commodity quoted in the new one
		} else {
			add(d, "%s price %s %s %s\n", c19Date(d), com, c19Cents(cur[com]), base)
		}
	}
	var known []string            // commodities that have a price, in the order of their first quote
	baseOf := map[string]string{} // what a commodity is quoted in
	held := map[string]int{}      // quantity in the depot
	introduce := func(d int, com string) {
		base := "CHF"
		if len(known) > 0 {
			switch r.Intn(5) {
			case 0:
				base = known[len(known)-1] // a chain: quoted in the commodity introduced last
			case 1:
				base = Pick(r, known)
			}
		}
		baseOf[com] = base
		quote(d, com, base)
		known = append(known, com)
	}
	bookings := func(d int, n int) {
		for ; n > 0; n-- {
			switch k := r.Intn(10); {
			case k < 5 && len(known) > 0: // a position in a commodity that has a price
				com := Pick(r, known)
				q := r.Range(1, 500)
				a := account(d)
				tx(d, "Equity:Opening", a, q, com)
				if a == "Assets:Broker:Depot" {
					held[com] += q
				}
			case k < 6 && len(known) > 0: // spend some of it
				com := Pick(r, known)
				if held[com] < 2 {
					continue
				}
				q := r.Range(1, held[com]/2)
				held[com] -= q
				tx(d, "Assets:Broker:Depot", "Expenses:Fees", q, com)
			case k < 8:
				tx(d, "Income:Salary", account(d), r.Range(1, 5000), "CHF")
			default:
				tx(d, "Assets:Bank", "Expenses:Fees", r.Range(1, 50), "CHF")
			}
		}
	}
	// day 0: the first price day (or none: the first quote of the journal is then a first quote of a single commodity)
	for k := 0; k < nold; k++ {
		introduce(0, names[k])
	}
	tx(0, "Equity:Opening", "Assets:Bank", 100000, "CHF")
	for _, com := range known {
		if r.Chance(2, 3) {
			tx(0, "Equity:Opening", "Assets:Broker:Depot", 1000, com)
			held[com] += 1000
		}
	}
	fresh := names[nold : nold+nnew]
	earlyAt := -1
	if fault == "early" {
		earlyAt = r.Intn(nnew)
	}
	d := 0
	for len(fresh) > 0 || d == 0 {
		// quiet days and re-quote days between two first quotes
		gap := r.Range(1, gapMax)
		lead := Pick(r, []int{1, 1, 1, 2, 3})
		n := 1 // how many commodities the next price day quotes for the first time
		if r.Chance(1, 5) {
			n = r.Range(2, 3)
		}
		n = min(n, len(fresh))
		first := nnew - len(fresh)
		early := earlyAt >= first && earlyAt < first+n // the next price day introduces the commodity that is booked too early
		if early && lead > gap {
			gap = lead
		}
		for g := 1; g < gap; g++ {
			if r.Intn(4) < dens {
				bookings(d+g, r.Range(1, dens))
			}
			if len(known) > 0 && r.Chance(1, 5) {
				com := Pick(r, known)
				quote(d+g, com, baseOf[com])
			}
		}
		d += gap
		if len(fresh) == 0 {
			break
		}
		if early {
			// the booking that has no price on its day: `lead` days before the first quote of its commodity
			tx(d-lead, "Equity:Opening", account(d-lead), r.Range(1, 50), fresh[earlyAt-first])
		}
		// the price day
		for k := 0; k < n; k++ {
			introduce(d, fresh[k])
		}
		newc := fresh[:n]
		fresh = fresh[n:]
		if len(known) > n && r.Chance(1, 6) {
			com := Pick(r, known[:len(known)-n]) // a re-quote next to the first quote
			quote(d, com, baseOf[com])
		}
		if r.Chance(1, 2) {
			tx(d, "Equity:Opening", account(d), r.Range(1, 300), newc[0]) // booked on the day of its first price
		}
		if r.Intn(4) < dens {
			bookings(d, r.Range(1, dens))
		}
	}
	for t := r.Range(0, 4); t > 0; t-- {
		d++
		bookings(d, r.Range(1, dens))
	}
	if fault == "unopened" {
		tx(r.Range(0, d), "Assets:Bank", "Expenses:Ghost", 1, "CHF")
	}
	for i := len(lines) - 1; i > 0; i-- {
		j := r.Intn(i + 1)
		if r.Chance(1, 3) && lines[i].day != lines[j].day {
			lines[i], lines[j] = lines[j], lines[i]
		}
	}
	var b strings.Builder
	for _, l := range lines {
		b.WriteString(l.text)
		b.WriteString("\n")
	}
	coms := append([]string{}, known...)
	if len(coms) == 0 {
		coms = []string{"CHF"}
	}
	return genJournal{Text: b.String(), Days: len(ndays), Fault: fault, Span: d, Coms: coms, Groups: groups}
}

// c19Quote runs the quote stream: njournals journals × ncmds valued commands (balance / register with drawn flags, transcode,
// portfolio returns / weights); three of four jobs under the race detector; all monitors of the trace / race streams apply.
func (c *Ctx) c19Quote(stream string, njournals, ncmds, nseeds int) {
	var jobs []*procJob
	idx := 0
	faults := []string{"", "", "early", "early", "unopened"}
	for j := 0; j < njournals; j++ {
		r := c.Rng(stream, j)
		jr := genQuoteJournal(r, Pick(r, faults), c.Thorough())
		tail := c19Matrix(r)
		tail = tail[len(tail)-11:]
		for k := 0; k < ncmds; k++ {
			var pc procCmd
			switch {
			case k == 0:
				pc = procCmd{Name: "balance", Args: []string{"balance", "--color=false", "-v", "CHF"}, Stages: []int{6}, DaysOK: true, Valued: true}
			case k == 1:
				pc = tail[(j+2)%len(tail)]
				for !pc.Valued {
					pc = tail[r.Intn(len(tail))]
				}
			default:
				pc = genGrowCmd(r, jr, r.Range(1, 4)) // not level 0: `register -m 0` panics in the renderer, see genGrowCmd
			}
			i := idx
			idx++
			if !c.Want(stream, i) {
				continue
			}
			var seeds []uint64
			for s := 0; s < nseeds; s++ {
				seeds = append(seeds, c.Seed*7919+uint64(i*31+s)+1)
			}
			jobs = append(jobs, &procJob{Stream: stream, Index: i, J: jr, Cmd: pc, Seeds: seeds, Race: (j+k)%4 != 3})
		}
	}
	c.c19RunProcJobs(jobs)
	bt := c.NewBatch()
	for _, jb := range jobs {
		c.c19CheckProcJob(bt, jb)
	}
	bt.Flush()
}

// ---------------------------------------------------------------- loader stream

type lDir struct {
	Day  int
	Kind int // 0 price 1 open 2 transaction 3 assertion 4 close
	ID   int
}

type lEntry struct {
	Dir     *lDir
	Include int  // file number, -1 if none
	Syntax  bool // syntax error line
	Model   bool // directive the model layer rejects (invalid account type)
}

type lFile struct {
	Path    string
	Entries []lEntry
	Missing bool // the file is referenced but does not exist
	Lay     *lLayout
}

// lLayout is the byte-level shape of a file around its entries: how the file begins, what stands between two
// entries, how the file ends (no final newline, trailing blanks, CRLF, blank lines, a comment without newline), and
// how an include line is spelled. The loader's result must not depend on any of it: the journal is the union of the
// directives of all files of the tree whatever the bytes between the directives are.
type lLayout struct {
	Head      string   // before the first entry
	Seps      []string // after entry k (k < last); a transaction gets its line end and blank line in addition
	Tail      string   // after the last entry (after Head in a file without entries)
	IncSp     []string // per entry: the blanks between `include` and the quote
	IncDot    []bool   // per entry: the include path is spelled ./path
	ExtraLast bool     // root file: the extra open line is the last directive, not the first
}

var (
	c19Heads = []string{"", "", "", "\n", "\n\n\n", " \n", "\t\r\n", "\r\n", "# head\n", "* heading\r\n\r\n", "// c\n\n", "#\n", "  \t \n\n"}
	c19Seps  = []string{"\n", "\n", "\n\n", "\n\n", "\r\n", "\r\n\r\n", " \n", "\t \r\n \n", "\n# c\n", "\n\n\n\n\n", "  \n// x\r\n* y\n", "\n#\n\n"}
	// file ends: nothing at all after the last directive, blanks only, one line end, many, a comment with and without line end
	c19Tails = []string{"", "", "", "", " ", "\t", "\r", "  \t ", "\n", "\n", "\r\n", "\n\n\n", "\n \n\t", "\n# end", "\n// end\r\n", "\n* end\r", " \n#", "\r\n\r\n "}
	c19IncSp = []string{" ", " ", " ", "  ", "\t", " \t "}
)

// c19Layout draws a layout for every file of the tree and, in some trees, moves the includes of a file to its
// beginning or its end (include as first / last / only directive).
func c19Layout(r *RNG, t *lTree) {
	mode := r.Intn(4) // 0, 1: includes stay where they are; 2: towards the end; 3: towards the beginning
	for i := range t.Files {
		f := &t.Files[i]
		if f.Missing {
			continue
		}
		if mode >= 2 && r.Bool() {
			var incs, rest []lEntry
			for _, e := range f.Entries {
				if e.Dir == nil && !e.Syntax && !e.Model {
					incs = append(incs, e)
				} else {
					rest = append(rest, e)
				}
			}
			if mode == 2 {
				f.Entries = append(rest, incs...)
			} else {
				f.Entries = append(incs, rest...)
			}
		}
		l := &lLayout{Head: Pick(r, c19Heads), Tail: Pick(r, c19Tails), ExtraLast: r.Bool()}
		plain := r.Chance(1, 4) // a quarter of the files: one line end between the entries, the file end still varies
		for range f.Entries {
			if plain {
				l.Seps = append(l.Seps, "\n")
			} else {
				l.Seps = append(l.Seps, Pick(r, c19Seps))
			}
			l.IncSp = append(l.IncSp, Pick(r, c19IncSp))
			l.IncDot = append(l.IncDot, r.Chance(1, 5))
		}
		f.Lay = l
	}
}

// c19After is what follows a directive whose text ends without a line end: sep as it is, except that a transaction
// ends only at a blank line or at the end of the file (the line after its last booking is read as another booking
// otherwise), so a blank line is put in where sep has none.
func c19After(trx, last bool, sep string) string {
	if !trx {
		return sep
	}
	nl := strings.IndexByte(sep, '\n')
	if nl < 0 {
		if last {
			return sep // blanks up to the end of the file
		}
		return sep + "\n\n"
	}
	rest := sep[nl+1:]
	if rest == "" {
		if last {
			return sep
		}
		return sep + "\n"
	}
	line := rest
	if k := strings.IndexByte(rest, '\n'); k >= 0 {
		line = rest[:k]
	}
	if strings.Trim(line, " \t\r") == "" {
		return sep
	}
	return sep[:nl+1] + "\n" + rest
}

// layField renders the layouts for the recorded input of a case.
func (t lTree) layField() string {
	var parts []string
	for i, f := range t.Files {
		if f.Lay == nil {
			continue
		}
		parts = append(parts, fmt.Sprintf("%d=%q/%q/%q/%v", i, f.Lay.Head, strings.Join(f.Lay.Seps, "|"), f.Lay.Tail, f.Lay.ExtraLast))
	}
	return strings.Join(parts, ";")
}

type lTree struct {
	Files []lFile
	Kind  string // "valid", "syntax", "model", "missing", "cycle", "dag"
}

const c19Epoch = 737424 // 2020-01-01 as a day number (0 = 0001-01-01)

func (d lDir) field() string { return fmt.Sprintf("%d:%d:%d", c19Epoch+d.Day, d.Kind, d.ID) }

func (d lDir) text() string {
	dt := c19Date(d.Day)
	switch d.Kind {
	case 0:
		return fmt.Sprintf("%s price P%d 1.5 CHF\n", dt, d.ID)
	case 1:
		return fmt.Sprintf("%s open Assets:A%d\n", dt, d.ID)
	case 2:
		return fmt.Sprintf("%s \"t%d\"\nEquity:A1 Assets:A0 %d CHF\n", dt, d.ID, d.ID%90+1)
	case 3:
		return fmt.Sprintf("%s balance Assets:A%d 0 CHF\n", dt, d.ID)
	}
	return fmt.Sprintf("%s close Assets:A%d\n", dt, d.ID)
}

func genTree(r *RNG, kind string) lTree {
	nf := r.Range(1, 9)
	if r.Chance(1, 6) {
		nf = r.Range(10, 30)
	}
	// bushy trees: the root includes many files which each include a few more, so that more loader goroutines than
	// any plausible concurrency limit are waiting for children at the same time (seeded change C19-c bounded the
	// errgroup to 16 goroutines and deadlocked on such trees)
	bushyW := 0
	if r.Chance(1, 10) {
		bushyW = r.Range(17, 48)
		nf = 1 + bushyW + bushyW*r.Range(1, 3)
	}
	t := lTree{Kind: kind}
	parent := make([]int, nf)
	dirs := []string{"", "", "sub/", "sub/deep/", "other/"}
	for i := 0; i < nf; i++ {
		t.Files = append(t.Files, lFile{Path: fmt.Sprintf("%sf%d.knut", Pick(r, dirs), i)})
		if bushyW > 0 {
			if i > bushyW {
				parent[i] = 1 + (i-bushyW-1)%bushyW
			}
			continue
		}
		if i > 0 {
			switch r.Intn(3) {
			case 0:
				parent[i] = 0 // wide
			case 1:
				parent[i] = i - 1 // deep
			default:
				parent[i] = r.Intn(i)
			}
		}
	}
	// directives: base accounts in the root, then a population distributed over the files
	add := func(f int, e lEntry) { t.Files[f].Entries = append(t.Files[f].Entries, e) }
	add(0, lEntry{Dir: &lDir{0, 1, 0}, Include: -1})
	id := 2
	var all []struct {
		f int
		e lEntry
	}
	put := func(d lDir) {
		all = append(all, struct {
			f int
			e lEntry
		}{r.Intn(nf), lEntry{Dir: &d, Include: -1}})
	}
	nd := r.Range(0, 40)
	for k := 0; k < nd; k++ {
		day := r.Range(0, 12) // few days: many directives share a day across files
		switch r.Intn(5) {
		case 0:
			put(lDir{day, 0, id})
		case 1: // an account with its whole life: open, maybe assertion, maybe close
			put(lDir{day, 1, id})
			if r.Bool() {
				put(lDir{day + r.Intn(3), 3, id})
			}
			if r.Bool() {
				put(lDir{day + 3 + r.Intn(3), 4, id})
			}
		default:
			put(lDir{day + 1, 2, id})
		}
		id++
	}
	for _, x := range all {
		add(x.f, x.e)
	}
	// includes at random positions of the parent
	for i := 1; i < nf; i++ {
		p := parent[i]
		es := t.Files[p].Entries
		pos := r.Intn(len(es) + 1)
		es = append(es[:pos:pos], append([]lEntry{{Include: i}}, es[pos:]...)...)
		t.Files[p].Entries = es
	}
	victim := r.Intn(nf)
	insertAt := func(f int, e lEntry) {
		es := t.Files[f].Entries
		pos := r.Intn(len(es) + 1)
		t.Files[f].Entries = append(es[:pos:pos], append([]lEntry{e}, es[pos:]...)...)
	}
	switch kind {
	case "syntax":
		insertAt(victim, lEntry{Syntax: true, Include: -1})
	case "model":
		insertAt(victim, lEntry{Model: true, Include: -1, Dir: &lDir{r.Intn(5), 1, 999999}})
	case "missing":
		t.Files = append(t.Files, lFile{Path: "nowhere/missing.knut", Missing: true})
		insertAt(victim, lEntry{Include: len(t.Files) - 1})
	case "cycle":
		// include an ancestor (or the file itself)
		anc := victim
		for r.Bool() && anc != 0 {
			anc = parent[anc]
		}
		insertAt(victim, lEntry{Include: anc})
	case "dag":
		// a file with prices and transactions only, included from two places: it is loaded twice
		x := lFile{Path: fmt.Sprintf("shared/f%d.knut", nf)}
		for k := r.Range(1, 4); k > 0; k-- {
			if r.Bool() {
				x.Entries = append(x.Entries, lEntry{Dir: &lDir{r.Range(0, 12), 0, id}, Include: -1})
			} else {
				x.Entries = append(x.Entries, lEntry{Dir: &lDir{r.Range(1, 12), 2, id}, Include: -1})
			}
			id++
		}
		t.Files = append(t.Files, x)
		insertAt(victim, lEntry{Include: nf})
		insertAt(r.Intn(nf), lEntry{Include: nf})
	}
	c19Layout(r, &t)
	return t
}

// the second base account is opened by an extra line of the root file (kept out of the census ids 0/1 clash)
const c19RootExtra = "2020-01-01 open Equity:A1\n"

func relPath(from, to string) string {
	rel, err := filepath.Rel(filepath.Dir(from), to)
	if err != nil {
		return to
	}
	return rel
}

func (t lTree) write(dir string) {
	for i, f := range t.Files {
		if f.Missing {
			continue
		}
		p := filepath.Join(dir, f.Path)
		os.MkdirAll(filepath.Dir(p), 0o755)
		os.WriteFile(p, []byte(t.content(i)), 0o644)
	}
}

// content is the text of file i: its entries in the file's layout.
func (t lTree) content(i int) string {
	f := t.Files[i]
	l := f.Lay
	if l == nil {
		l = &lLayout{}
	}
	var b strings.Builder
	b.WriteString(l.Head)
	extra := i == 0
	if extra && !(l.ExtraLast && len(f.Entries) > 0) {
		b.WriteString(c19RootExtra)
		extra = false
	}
	for k, e := range f.Entries {
		last := k == len(f.Entries)-1 && !extra
		sep := "\n\n"
		if k < len(l.Seps) {
			sep = l.Seps[k]
		}
		if k == len(f.Entries)-1 && f.Lay != nil {
			if !extra { // else the extra line follows
				sep = l.Tail
			}
		}
		var text string
		switch {
		case e.Syntax:
			text = "2020-01-01 opeen Assets:Oops"
		case e.Model:
			text = fmt.Sprintf("%s open Foo:Bar", c19Date(e.Dir.Day))
		case e.Dir != nil:
			text = strings.TrimSuffix(e.Dir.text(), "\n")
		default:
			sp, path := " ", relPath(f.Path, t.Files[e.Include].Path)
			if k < len(l.IncSp) {
				sp = l.IncSp[k]
				if l.IncDot[k] {
					path = "./" + path
				}
			}
			text = fmt.Sprintf("include%s\"%s\"", sp, path)
		}
		b.WriteString(text)
		b.WriteString(c19After(e.Dir != nil && !e.Model && e.Dir.Kind == 2, last, sep))
	}
	if extra {
		b.WriteString(strings.TrimSuffix(c19RootExtra, "\n"))
		b.WriteString(l.Tail)
	} else if len(f.Entries) == 0 {
		b.WriteString(l.Tail)
	}
	return b.String()
}

func (t lTree) fsField() string {
	var files []string
	for i, f := range t.Files {
		if f.Missing {
			continue
		}
		var es []string
		if i == 0 {
			es = append(es, lDir{0, 1, 1}.field2("d"))
		}
		for _, e := range f.Entries {
			switch {
			case e.Syntax:
				es = append(es, "x")
			case e.Model:
				es = append(es, e.Dir.field2("m"))
			case e.Dir != nil:
				es = append(es, e.Dir.field2("d"))
			default:
				es = append(es, fmt.Sprintf("i%d", e.Include))
			}
		}
		files = append(files, fmt.Sprintf("%d=%s", i, strings.Join(es, ",")))
	}
	return strings.Join(files, ";")
}

func (d lDir) field2(prefix string) string { return prefix + d.field() }

// allDirs is the union of the directives of all files of the tree (what "no loss, no duplicate" refers to)
func (t lTree) allDirs() []lDir {
	res := []lDir{{0, 1, 1}}
	for _, f := range t.Files {
		for _, e := range f.Entries {
			if e.Dir != nil && !e.Model {
				res = append(res, *e.Dir)
			}
		}
	}
	return res
}

var (
	rePrintLine = regexp.MustCompile(`^(\d{4}-\d{2}-\d{2}) (open|close|price|balance|"t)[^\n]*`)
	reNum       = regexp.MustCompile(`\d+`)
)

// parsePrint reads the directives out of `knut print` output, in printed order.
func parsePrint(out string) ([]lDir, error) {
	var res []lDir
	for _, line := range strings.Split(out, "\n") {
		m := rePrintLine.FindStringSubmatch(line)
		if m == nil {
			continue
		}
		t, err := time.Parse("2006-01-02", m[1])
		if err != nil {
			return nil, err
		}
		day := int(t.Sub(time.Date(2020, 1, 1, 0, 0, 0, 0, time.UTC)).Hours() / 24)
		rest := line[len(m[1])+1:]
		var kind int
		var idStr string
		switch m[2] {
		case "price":
			kind = 0
			idStr = reNum.FindString(rest) // P<id>
		case "open":
			kind = 1
			idStr = reNum.FindString(rest)
		case "\"t":
			kind = 2
			idStr = reNum.FindString(rest)
		case "balance":
			kind = 3
			idStr = reNum.FindString(rest)
		case "close":
			kind = 4
			idStr = reNum.FindString(rest)
		}
		id, err := strconv.Atoi(idStr)
		if err != nil {
			return nil, fmt.Errorf("no id in %q", line)
		}
		res = append(res, lDir{day, kind, id})
	}
	return res, nil
}

// censusOf renders directives like the driver's `census` (days in order; per kind sorted ids).
func censusOf(ds []lDir) string {
	days := map[int]*[5][]int{}
	var order []int
	for _, d := range ds {
		if days[d.Day] == nil {
			days[d.Day] = &[5][]int{}
			order = append(order, d.Day)
		}
		days[d.Day][d.Kind] = append(days[d.Day][d.Kind], d.ID)
	}
	sort.Ints(order)
	var parts []string
	for _, day := range order {
		s := itoa(c19Epoch + day)
		for k := 0; k < 5; k++ {
			ids := days[day][k]
			sort.Ints(ids)
			strs := make([]string, len(ids))
			for i, x := range ids {
				strs[i] = itoa(x)
			}
			s += fmt.Sprintf("|%d:%s", k, strings.Join(strs, ","))
		}
		parts = append(parts, s)
	}
	return strings.TrimSpace("ok " + strings.Join(parts, " "))
}

func dirsField(ds []lDir) string {
	if len(ds) == 0 {
		return "-"
	}
	parts := make([]string, len(ds))
	for i, d := range ds {
		parts[i] = d.field()
	}
	return strings.Join(parts, ",")
}

type loaderJob struct {
	Index int
	Tree  lTree
	Seeds []uint64
	Race  bool
	base  procResult
	runs  []procResult
	cat   procResult // print of the concatenated single file (valid trees)
}

var c19TreeKinds = []string{"valid", "valid", "valid", "syntax", "model", "missing", "cycle", "dag"}

func (c *Ctx) c19Loader() {
	n := c.N(320, 3000)
	var jobs []*loaderJob
	for i := 0; i < n; i++ {
		if !c.Want("loader", i) {
			continue
		}
		r := c.Rng("loader", i)
		kind := c19TreeKinds[i%len(c19TreeKinds)]
		t := genTree(r, kind)
		reps := 3
		if kind != "valid" && kind != "dag" {
			reps = 6 // error trees: many repetitions, must never hang
		}
		var seeds []uint64
		for s := 0; s < reps; s++ {
			seeds = append(seeds, c.Seed*104729+uint64(i*17+s)+1)
		}
		jobs = append(jobs, &loaderJob{Index: i, Tree: t, Seeds: seeds, Race: i%4 == 1})
	}
	var suspects []int
	if !c.Replay || c.OnlyStr == "loader" {
		suspects = c.c19LoaderRun("loader", jobs)
	}
	// directed search: the trees on which something went wrong, under many more schedules, on both binaries
	var directed []*loaderJob
	addDirected := func(orig int) {
		kind := c19TreeKinds[orig%len(c19TreeKinds)]
		for rep := 0; rep < 4; rep++ {
			idx := orig*100 + rep
			if !c.Want("loader-directed", idx) {
				continue
			}
			t := genTree(c.Rng("loader", orig), kind)
			var seeds []uint64
			for s := 0; s < 8; s++ {
				seeds = append(seeds, c.Seed*15485863+uint64(idx*11+s)+1)
			}
			directed = append(directed, &loaderJob{Index: idx, Tree: t, Seeds: seeds, Race: rep%2 == 1})
		}
	}
	if c.Replay && c.OnlyStr == "loader-directed" {
		addDirected(c.OnlyIndex / 100)
	} else if !c.Replay {
		if len(suspects) > 6 {
			suspects = suspects[:6]
		}
		for _, sidx := range suspects {
			addDirected(sidx)
		}
		if len(directed) > 0 {
			c.Notes = append(c.Notes, fmt.Sprintf("directed search: %d more runs around %d include trees on which code and model differ", len(directed)*9, len(suspects)))
		}
	}
	if len(directed) > 0 {
		c.c19LoaderRun("loader-directed", directed)
	}
}

func (c *Ctx) c19LoaderRun(stream string, jobs []*loaderJob) []int {
	raceBin := c.KnutBin + ".race"
	dir := filepath.Join(c.WorkDir, stream)
	parallel(len(jobs), 12, func(k int) {
		jb := jobs[k]
		jd := filepath.Join(dir, itoa(jb.Index))
		os.MkdirAll(jd, 0o755)
		defer os.RemoveAll(jd)
		jb.Tree.write(jd)
		root := filepath.Join(jd, jb.Tree.Files[0].Path)
		jb.base = runProc(10*time.Second, jd, nil, c.KnutBin, "print", root)
		for _, s := range jb.Seeds {
			if jb.base.Timeout || (len(jb.runs) > 0 && jb.runs[len(jb.runs)-1].Timeout) {
				break // one hang is enough
			}
			bin, to := c.KnutBin, 10*time.Second
			if jb.Race {
				bin, to = raceBin, 40*time.Second
			}
			jb.runs = append(jb.runs, runProc(to, jd, []string{fmt.Sprintf("KNUT_VERIF_SEED=%d", s)}, bin, "print", root))
		}
		if jb.Tree.Kind == "valid" {
			// the same directives in one file
			var b strings.Builder
			b.WriteString(c19RootExtra)
			for _, d := range jb.Tree.allDirs()[1:] {
				b.WriteString(d.text())
				b.WriteString("\n")
			}
			cat := filepath.Join(jd, "all.knut")
			os.WriteFile(cat, []byte(b.String()), 0o644)
			jb.cat = runProc(10*time.Second, jd, nil, c.KnutBin, "print", cat)
		}
	})
	bt := c.NewBatch()
	var after []func()
	for _, jb := range jobs {
		jb := jb
		i := jb.Index
		c.Evals++
		files := map[string]string{}
		in := map[string]any{"kind": jb.Tree.Kind, "fs": jb.Tree.fsField(), "layout": jb.Tree.layField(), "root": jb.Tree.Files[0].Path, "race": jb.Race}
		_ = files
		c.Class(fmt.Sprintf(stream+"/%s/files%s/race%v", jb.Tree.Kind, nbucket(len(jb.Tree.Files)), jb.Race))
		all := append([]procResult{jb.base}, jb.runs...)
		var implOutcomes []string
		for k, pr := range all {
			in2 := in
			if k > 0 {
				in2 = map[string]any{"kind": jb.Tree.Kind, "fs": jb.Tree.fsField(), "layout": jb.Tree.layField(), "root": jb.Tree.Files[0].Path, "race": jb.Race, "KNUT_VERIF_SEED": jb.Seeds[k-1]}
			}
			if !c.Monitor(stream, i, "C19_no_deadlock (loader terminates)", in2, !pr.Timeout, "timeout: knut print hung") {
				implOutcomes = append(implOutcomes, "hang")
				continue
			}
			c.Monitor(stream, i, "no data race reported", in2, !strings.Contains(pr.Stderr, "DATA RACE"), clip(pr.Stderr))
			c.Monitor(stream, i, "no panic", in2, !strings.Contains(pr.Stderr, "panic:") && !strings.Contains(pr.Stderr, "goroutine "), clip(pr.Stderr))
			if pr.Exit != 0 {
				c.Monitor(stream, i, "an error is reported, not success", in2, strings.TrimSpace(pr.Stderr) != "" && pr.Stdout == "", "exit "+itoa(pr.Exit)+" stdout "+clip(pr.Stdout))
				implOutcomes = append(implOutcomes, "error")
				continue
			}
			ds, err := parsePrint(pr.Stdout)
			if err != nil {
				implOutcomes = append(implOutcomes, "unparseable "+err.Error())
				continue
			}
			implOutcomes = append(implOutcomes, censusOf(ds))
			if jb.Tree.Kind == "valid" {
				// property predicate on the real output: exactly the union of the directives of all files, days in order
				obs := dirsField(ds)
				bt.Add(func(mon string) {
					c.Monitor(stream, i, "C19_no_loss_no_dup (c19loadmon)", in2, mon == "ok", mon+" observed="+clip(obs))
				}, "c19loadmon", dirsField(jb.Tree.allDirs()), obs)
			}
		}
		if i < 2 {
			c.Sample(map[string]any{"stream": stream, "input": in, "impl": clip(implOutcomes[0])})
		}
		// model vs implementation: the census (or the fact that it fails), for every run
		bt.Add(func(model string) {
			want := model
			if strings.HasPrefix(model, "error") {
				want = "error"
			}
			for k, o := range implOutcomes {
				c.Compare(stream, i, "c19load", map[string]any{"input": in, "run": k}, o, want)
			}
		}, "c19load", jb.Tree.fsField(), "0")
		if jb.Tree.Kind == "valid" && !jb.cat.Timeout {
			// after the batch, so that a failure of the property's own predicate (c19loadmon) is the first one recorded
			after = append(after, func() {
				ds, err := parsePrint(jb.cat.Stdout)
				ok := err == nil && jb.cat.Exit == 0 && censusOf(ds) == implOutcomes[0]
				c.Monitor(stream, i, "include tree loads the same journal as the concatenated file", in, ok,
					fmt.Sprintf("tree: %s\nsingle file (exit %d): %s %s", clip(implOutcomes[0]), jb.cat.Exit, clip(censusOf(ds)), clip(jb.cat.Stderr)))
			})
		}
	}
	bt.Flush()
	for _, f := range after {
		f()
	}
	seen := map[int]bool{}
	var suspects []int
	for _, f := range c.Findings {
		if f.Stream == stream && !seen[f.Index] {
			seen[f.Index] = true
			suspects = append(suspects, f.Index)
		}
	}
	return suspects
}

// ---------------------------------------------------------------- shared stream

// c19Shared: sibling files which all introduce the same new commodities and accounts at the same moment. The files are
// converted concurrently (model.FromStream) through the shared registries; the journal processed must still be the
// union of the files' directives, so the balance of the include tree is the balance of the concatenated file.
func (c *Ctx) c19Shared() {
	n := c.N(16, 100)
	reps := c.N(12, 30)
	type job struct {
		Index, Files, Comms int
		flat                procResult
		runs                []procResult
	}
	var jobs []*job
	for i := 0; i < n; i++ {
		if !c.Want("shared", i) {
			continue
		}
		r := c.Rng("shared", i)
		jobs = append(jobs, &job{Index: i, Files: r.Range(3, 12), Comms: r.Range(50, 500)})
	}
	dir := filepath.Join(c.WorkDir, "shared")
	parallel(len(jobs), 4, func(k int) {
		jb := jobs[k]
		jd := filepath.Join(dir, itoa(jb.Index))
		os.MkdirAll(jd, 0o755)
		defer os.RemoveAll(jd)
		var root, flat strings.Builder
		root.WriteString("2020-01-01 open Equity:A1\n2020-01-01 open Assets:A0\n\n")
		flat.WriteString(root.String())
		for f := 0; f < jb.Files; f++ {
			var b strings.Builder
			for k := 0; k < jb.Comms; k++ {
				fmt.Fprintf(&b, "2020-01-%02d \"t\"\nEquity:A1 Assets:A0 %d K%d\n\n", 2+f, f+1, k)
			}
			os.WriteFile(filepath.Join(jd, fmt.Sprintf("f%d.knut", f)), []byte(b.String()), 0o644)
			fmt.Fprintf(&root, "include \"f%d.knut\"\n", f)
			flat.WriteString(b.String())
		}
		os.WriteFile(filepath.Join(jd, "root.knut"), []byte(root.String()), 0o644)
		os.WriteFile(filepath.Join(jd, "flat.knut"), []byte(flat.String()), 0o644)
		jb.flat = runProc(20*time.Second, jd, nil, c.KnutBin, "balance", "flat.knut")
		for s := 0; s < reps; s++ {
			var env []string
			if s%3 == 2 { // the scheduling hook of the pipeline slows the converters down: most runs go without it
				env = []string{fmt.Sprintf("KNUT_VERIF_SEED=%d", c.Seed*7919+uint64(jb.Index*31+s)+1)}
			}
			jb.runs = append(jb.runs, runProc(20*time.Second, jd, env, c.KnutBin, "balance", "root.knut"))
		}
	})
	for _, jb := range jobs {
		c.Evals++
		c.Class(fmt.Sprintf("shared/files%s/comms%s", nbucket(jb.Files), nbucket(jb.Comms)))
		in := map[string]any{"files": jb.Files, "new_commodities_per_file": jb.Comms,
			"layout":  "root.knut opens Equity:A1 and Assets:A0 and includes f0..f<files-1>; file f books `Equity:A1 Assets:A0 <f+1> K<k>` for k < new_commodities_per_file on 2020-01-<2+f>; flat.knut is the concatenation",
			"command": "knut balance root.knut  vs  knut balance flat.knut"}
		c.Monitor("shared", jb.Index, "terminates", in, !jb.flat.Timeout, "timeout")
		for k, pr := range jb.runs {
			if !c.Monitor("shared", jb.Index, "C19_no_deadlock (command terminates)", in, !pr.Timeout, "timeout") {
				continue
			}
			ok := pr.Exit == jb.flat.Exit && pr.Stdout == jb.flat.Stdout
			c.Monitor("shared", jb.Index, "include tree balances like the concatenated file (no directive lost, duplicated or split)", in, ok,
				fmt.Sprintf("run %d exit %d: %d lines, single file exit %d: %d lines; first difference: %s", k, pr.Exit, strings.Count(pr.Stdout, "\n"), jb.flat.Exit, strings.Count(jb.flat.Stdout, "\n"), firstDiffLine(pr.Stdout, jb.flat.Stdout)))
		}
	}
}

// c19Registry: the real registries under concurrent get-or-create, in process: every goroutine resolves the same new
// names at the same time; the property predicate of C19_registry_unique / _injective on what the calls returned.
func (c *Ctx) c19Registry() {
	n := c.N(60, 600)
	for i := 0; i < n; i++ {
		if !c.Want("registry", i) {
			continue
		}
		r := c.Rng("registry", i)
		workers, names := r.Range(2, 16), r.Range(1, 300)
		c.Evals++
		c.Class(fmt.Sprintf("registry/workers%s/names%s", nbucket(workers), nbucket(names)))
		in := map[string]any{"goroutines": workers, "names": names, "what": "every goroutine calls commodity.Registry.Get(\"K<k>\") and account.Registry.Get(\"Assets:A<k>:B\") for k < names, all starting together"}
		creg, areg := commodity.NewCommodities(), account.NewRegistry()
		cres := make([][]*commodity.Commodity, workers)
		ares := make([][]*account.Account, workers)
		var wg sync.WaitGroup
		start := make(chan struct{})
		for w := 0; w < workers; w++ {
			w := w
			wg.Add(1)
			go func() {
				defer wg.Done()
				<-start
				for k := 0; k < names; k++ {
					cm, _ := creg.Get(fmt.Sprintf("K%d", k))
					ac, _ := areg.Get(fmt.Sprintf("Assets:A%d:B", k))
					cres[w] = append(cres[w], cm)
					ares[w] = append(ares[w], ac)
				}
			}()
		}
		close(start)
		wg.Wait()
		split, same := "", ""
		seenC := map[*commodity.Commodity]int{}
		seenA := map[*account.Account]int{}
		for k := 0; k < names; k++ {
			for w := 0; w < workers; w++ {
				if cres[w][k] == nil || ares[w][k] == nil {
					split = fmt.Sprintf("name %d: nil object for goroutine %d", k, w)
				} else if cres[w][k] != cres[0][k] {
					split = fmt.Sprintf("commodity K%d: goroutines 0 and %d got different objects", k, w)
				} else if ares[w][k] != ares[0][k] {
					split = fmt.Sprintf("account Assets:A%d:B: goroutines 0 and %d got different objects", k, w)
				}
			}
			if j, ok := seenC[cres[0][k]]; ok {
				same = fmt.Sprintf("commodities K%d and K%d are the same object", j, k)
			}
			if j, ok := seenA[ares[0][k]]; ok {
				same = fmt.Sprintf("accounts %d and %d are the same object", j, k)
			}
			seenC[cres[0][k]], seenA[ares[0][k]] = k, k
		}
		c.Monitor("registry", i, "C19_registry_unique (one object per name)", in, split == "", split)
		c.Monitor("registry", i, "C19_registry_injective (different names, different objects)", in, same == "", same)
	}
}

func firstDiffLine(a, b string) string {
	la, lb := strings.Split(a, "\n"), strings.Split(b, "\n")
	for i := 0; i < len(la) || i < len(lb); i++ {
		var x, y string
		if i < len(la) {
			x = la[i]
		}
		if i < len(lb) {
			y = lb[i]
		}
		if x != y {
			return fmt.Sprintf("line %d: %q vs %q", i+1, x, y)
		}
	}
	return "none"
}

// ---------------------------------------------------------------- runner

func runC19(c *Ctx) {
	if _, err := os.Stat(c.KnutBin + ".race"); err != nil {
		fatalf("race binary %s.race missing (props entry needs \"race\": True)", c.KnutBin)
	}
	// on(stream…): the stream runs in a full run, or is the one being replayed; C19_STREAMS=a,b restricts a run to some streams (development aid)
	on := func(streams ...string) bool {
		for _, s := range streams {
			if c.Replay && c.OnlyStr == s {
				return true
			}
			if only := os.Getenv("C19_STREAMS"); !c.Replay && (only == "" || strings.Contains(","+only+",", ","+s+",")) {
				return true
			}
		}
		return false
	}
	timed := func(key string, f func()) {
		t0 := time.Now()
		f()
		c.Extra[key] = time.Since(t0).Seconds()
	}
	timed("seq_s", func() {
		if on("seq", "seq-directed") {
			c.c19Seq()
		}
	})
	timed("trace_s", func() {
		if on("trace") {
			c.c19Proc("trace", false, c.N(100, 1000), c.N(5, 6), c.N(2, 3))
		}
	})
	timed("race_s", func() {
		if on("race") {
			c.c19Proc("race", true, c.N(24, 150), c.N(7, 10), c.N(2, 3))
		}
	})
	timed("grow_s", func() {
		if on("grow") {
			c.c19Grow("grow", c.N(6, 30), c.N(8, 12), c.N(2, 3))
		}
	})
	timed("quote_s", func() {
		if on("quote") {
			c.c19Quote("quote", c.N(48, 600), 3, c.N(3, 4))
		}
	})
	timed("dust_s", func() {
		if on("dust") {
			c.c19Dust("dust", c.N(10, 120), c.N(5, 7), c.N(2, 3))
		}
	})
	timed("loader_s", func() {
		if on("loader", "loader-directed") {
			c.c19Loader()
		}
	})
	timed("shared_s", func() {
		if on("shared") {
			c.c19Shared()
		}
	})
	if on("registry") {
		c.c19Registry()
	}
}
