import Knut.Proofs.PrintImportBalances
import Knut.Properties.C13
/-!
# C13 (text level) — what an importer writes parses to exactly what it built, whatever the free text contains;
with the accounts opened it is accepted and printed again unchanged

The text-level clause of C13, for ALL ELEVEN importers and all statements (record lists of any length, any field
contents), on the models: `render ds` is `journal.Print` of the journal the importer's `journal.Builder` holds
(`Model/Import/Common.lean`), `loadText` is the parser model followed by the elaboration (`Model/FromSyntax.lean`),
`printFile` is `knut print` on one file (`Proofs/PrintCommands.lean`).

* `C13_<importer>_printable` — every directive the importer emits is `PrintableDir`, the hypothesis of the
  print-then-parse round trip of C09: names valid (`C13_<importer>_wellformed`), dates in the range of `time.Parse`
  (years 0000..9999, proved for the five layouts from the model of `time.Parse`), amounts decimal rationals (proved from
  the model of `decimal.NewFromString`, closed under the negations, sums and roundings the importers do), transactions
  built by `transaction.Builder.Build`, whose quote replacement makes the description quote-free: nothing is assumed
  about the free-text fields.
* `C13_text_parses` — the emitted text parses, and loads to exactly the directives the importer built, in the order
  `journal.Print` writes them (a permutation of the order they were added in), and printing the reloaded journal gives
  the same text.
* `C13_text_reprinted_with_opens` — the file "one `open` per account dated before the first directive, blank line,
  importer output" is reproduced byte for byte by `knut print` whenever the checker accepts it;
  `C13_text_accepted_with_opens` — and the checker does accept it when the output consists of transactions and prices
  (`C13_<importer>_tx_or_price` for the eight importers without balance assertions) and the opened accounts are
  distinct and cover the accounts booked on; `C13_text_valid` combines the two; `C13_text_valid_prices_only` is the
  case without accounts (`ch.viac`).

For `revolut2`, `revolut` and `us.interactivebrokers` the output carries the statement's balance assertions; whether the
checker accepts them is a property of the STATEMENT, stated on its rows: `Consistent items` (`Proofs/PrintImportBalances.lean`)
— every balance the statement carries equals the sum, from a zero opening balance, of the amounts (less fees) of its
booking rows up to and including that day.

* `C13_text_accepted_iff_consistent` — for every import that is `Faithful` to the statement (all eleven are, `C13_<importer>`),
  an asset/liability import account and the accounts opened once before the first directive: the checker accepts opens +
  output IFF the statement is consistent; `C13_revolut2_accepted_iff`, `C13_revolut_accepted_iff`,
  `C13_interactivebrokers_accepted_iff` are the three instances.
* `C13_text_valid_iff_consistent` — hence `knut print` reproduces opens + output byte for byte if the statement is
  consistent, and fails in processing (a failed assertion) if it is not.

The real binary agrees on a consistent and on an inconsistent revolut2 statement (the two-row statement of the non-vacuity
section: accepted and reproduced; with the last balance changed: `failed assertion`).
-/
namespace Knut.C13
open Knut Knut.Import Knut.Spec.Import Knut.Proofs.Import Knut.FromSyntax Knut.JournalPrinter Knut.Utf8

/-! ## every importer emits printable directives -/

theorem C13_swisscard2_printable (acct : Account) (ha : AccOK acct) (recs : List Rec) (ds : List Directive)
    (h : Swisscard2.run acct recs = .ok ds) : ∀ d ∈ ds, PrintableDir d :=
  importer_printable (swisscard2_wf acct ha recs ds h) (swisscard2_fn true acct recs ds h)
theorem C13_swisscard_printable (acct : Account) (ha : AccOK acct) (recs : List Rec) (ds : List Directive)
    (h : Swisscard.run acct recs = .ok ds) : ∀ d ∈ ds, PrintableDir d :=
  importer_printable (swisscard_wf acct ha recs ds h) (swisscard_fn true acct recs ds h)
theorem C13_supercard_printable (acct : Account) (ha : AccOK acct) (recs : List Rec) (ds : List Directive)
    (h : Supercard.run acct recs = .ok ds) : ∀ d ∈ ds, PrintableDir d :=
  importer_printable (supercard_wf acct ha recs ds h) (supercard_fn true acct recs ds h)
theorem C13_cumulus_printable (acct : Account) (ha : AccOK acct) (recs : List Rec) (ds : List Directive)
    (h : Cumulus.run acct recs = .ok ds) : ∀ d ∈ ds, PrintableDir d :=
  importer_printable (cumulus_wf acct ha recs ds h) (cumulus_fn true acct recs ds h)
theorem C13_postfinance_printable (acct : Account) (ha : AccOK acct) (recs : List Rec) (ds : List Directive)
    (h : Postfinance.run acct recs = .ok ds) : ∀ d ∈ ds, PrintableDir d :=
  importer_printable (postfinance_wf acct ha recs ds h) (postfinance_fn true acct recs ds h)
theorem C13_revolut2_printable (acct fee : Account) (ha : AccOK acct) (hf : AccOK fee) (recs : List Rec) (ds : List Directive)
    (h : Revolut2.run acct fee recs = .ok ds) : ∀ d ∈ ds, PrintableDir d :=
  importer_printable (revolut2_wf acct fee ha hf recs ds h) (revolut2_fn acct fee recs ds h)
theorem C13_revolut_printable (acct : Account) (ha : AccOK acct) (recs : List Rec) (ds : List Directive)
    (h : Revolut.run acct recs = .ok ds) : ∀ d ∈ ds, PrintableDir d :=
  importer_printable (revolut_wf acct ha recs ds h) (revolut_fn acct recs ds h)
theorem C13_wise_printable (acct feeAcct trading : Account) (ha : AccOK acct) (hf : AccOK feeAcct) (ht : AccOK trading)
    (recs : List Rec) (ds : List Directive) (h : Wise.run acct feeAcct trading recs = .ok ds) : ∀ d ∈ ds, PrintableDir d :=
  importer_printable (wise_wf acct feeAcct trading ha hf ht recs ds h) (wise_fn true acct feeAcct trading recs ds h)
theorem C13_viac_printable (com : Commodity) (hcom : ComOK com) (fromDay : Int) (es : List (String × String))
    (ds : List Directive) (h : Viac.run com fromDay es = .ok ds) : ∀ d ∈ ds, PrintableDir d :=
  importer_printable (viac_wf com hcom fromDay es ds h) (viac_fn true com fromDay es ds h)
theorem C13_swissquote_printable (a : Swissquote.Accts) (v : AcctsValid a) (recs : List Rec) (ds : List Directive)
    (h : Swissquote.run a recs = .ok ds) : ∀ d ∈ ds, PrintableDir d :=
  importer_printable (swissquote_wf a v recs ds h) (swissquote_fn true a recs ds h)
theorem C13_interactivebrokers_printable (a : Swissquote.Accts) (v : AcctsValid a) (recs : List Rec) (ds : List Directive)
    (h : IB.run a recs = .ok ds) : ∀ d ∈ ds, PrintableDir d :=
  importer_printable (interactivebrokers_wf a v recs ds h) (interactivebrokers_fn a recs ds h)

/-! ## eight importers emit transactions and prices only -/

theorem C13_swisscard2_tx_or_price (acct : Account) (recs : List Rec) (ds : List Directive)
    (h : Swisscard2.run acct recs = .ok ds) : ∀ d ∈ ds, TxOrPrice d := fun d hd => (swisscard2_fn true acct recs ds h d hd).2 rfl
theorem C13_swisscard_tx_or_price (acct : Account) (recs : List Rec) (ds : List Directive)
    (h : Swisscard.run acct recs = .ok ds) : ∀ d ∈ ds, TxOrPrice d := fun d hd => (swisscard_fn true acct recs ds h d hd).2 rfl
theorem C13_supercard_tx_or_price (acct : Account) (recs : List Rec) (ds : List Directive)
    (h : Supercard.run acct recs = .ok ds) : ∀ d ∈ ds, TxOrPrice d := fun d hd => (supercard_fn true acct recs ds h d hd).2 rfl
theorem C13_cumulus_tx_or_price (acct : Account) (recs : List Rec) (ds : List Directive)
    (h : Cumulus.run acct recs = .ok ds) : ∀ d ∈ ds, TxOrPrice d := fun d hd => (cumulus_fn true acct recs ds h d hd).2 rfl
theorem C13_postfinance_tx_or_price (acct : Account) (recs : List Rec) (ds : List Directive)
    (h : Postfinance.run acct recs = .ok ds) : ∀ d ∈ ds, TxOrPrice d := fun d hd => (postfinance_fn true acct recs ds h d hd).2 rfl
theorem C13_wise_tx_or_price (acct feeAcct trading : Account) (recs : List Rec) (ds : List Directive)
    (h : Wise.run acct feeAcct trading recs = .ok ds) : ∀ d ∈ ds, TxOrPrice d :=
  fun d hd => (wise_fn true acct feeAcct trading recs ds h d hd).2 rfl
theorem C13_viac_tx_or_price (com : Commodity) (fromDay : Int) (es : List (String × String)) (ds : List Directive)
    (h : Viac.run com fromDay es = .ok ds) : ∀ d ∈ ds, TxOrPrice d := fun d hd => (viac_fn true com fromDay es ds h d hd).2 rfl
theorem C13_swissquote_tx_or_price (a : Swissquote.Accts) (recs : List Rec) (ds : List Directive)
    (h : Swissquote.run a recs = .ok ds) : ∀ d ∈ ds, TxOrPrice d := fun d hd => (swissquote_fn true a recs ds h d hd).2 rfl

/-! ## the text -/

/-- **the emitted text parses to exactly the directives the importer built**: it loads (parser model, elaboration,
`transaction.Create`) to the directives in the order `journal.Print` writes them - day by day; prices, transactions in
sort order, assertions - which is a permutation of the order in which the importer added them; and printing the reloaded
journal gives the same text again -/
theorem C13_text_parses (path : String) (ds : List Directive) (h : ∀ d ∈ ds, PrintableDir d) :
    ∃ ds', loadText path (strBytes (render ds)) = .ok ds' ∧ ds'.Perm ds ∧
      ds' = (Builder.ofList ds).build.flatMap (fun d => d.prices.map .price ++ d.openings.map .opening ++
        (sortTxs d.transactions).map .tx ++ d.assertions.map .assertion ++ d.closings.map .closing) ∧
      print (Builder.ofList ds').build = render ds := by
  have hj := printable_built ds h
  refine ⟨printedDirs ds, (render_loads path ds h).1, (render_loads path ds h).2, rfl, ?_⟩
  unfold printedDirs render
  rw [rebuild _ hj.shape, print_normDays]

/-- in particular the text is valid for knut's parser -/
theorem C13_text_parser_accepts (path : String) (ds : List Directive) (h : ∀ d ∈ ds, PrintableDir d) :
    ∃ f, Syntax.parseText path (strBytes (render ds)) = .ok f := by
  have := (render_loads path ds h).1
  unfold loadText at this
  split at this
  · cases this
  · exact ⟨_, by assumption⟩

/-- **re-printed unchanged once the accounts are opened**: `knut print` on "opens, blank line, importer output" writes
that file again, byte for byte, whenever the checker accepts it -/
theorem C13_text_reprinted_with_opens (path : String) (o : Int) (accts : List Account) (ds : List Directive)
    (h : ∀ d ∈ ds, PrintableDir d) (hne : accts ≠ []) (ho : PrintableDate o)
    (ha : ∀ a ∈ accts, PrintableAccount a = true) (hlt : ∀ d ∈ ds, o < d.date)
    (hacc : (Check.run (openDay o accts :: (Builder.ofList ds).build)).isOk = true) :
    printFile path (strBytes (opensText o accts ++ render ds)) = .ok (opensText o accts ++ render ds) :=
  withOpens_reprinted path o accts ds h hne ho ha hlt hacc

/-- **accepted once the accounts are opened**: transactions and prices on accounts that are opened exactly once -/
theorem C13_text_accepted_with_opens (o : Int) (accts : List Account) (ds : List Directive) (hnd : accts.Nodup)
    (hna : ∀ d ∈ ds, TxOrPrice d) (hacc : ∀ t, Directive.tx t ∈ ds → ∀ p ∈ t.postings, p.account ∈ accts) :
    (Check.run (openDay o accts :: (Builder.ofList ds).build)).isOk = true := withOpens_accepted o accts ds hnd hna hacc

/-- **the text-level clause**, for output without assertions: with every account booked on opened once on a day
before the first directive, `knut print` accepts the file and reproduces it byte for byte -/
theorem C13_text_valid (path : String) (o : Int) (accts : List Account) (ds : List Directive)
    (h : ∀ d ∈ ds, PrintableDir d) (hna : ∀ d ∈ ds, TxOrPrice d) (hne : accts ≠ []) (hnd : accts.Nodup) (ho : PrintableDate o)
    (ha : ∀ a ∈ accts, PrintableAccount a = true) (hlt : ∀ d ∈ ds, o < d.date)
    (hacc : ∀ t, Directive.tx t ∈ ds → ∀ p ∈ t.postings, p.account ∈ accts) :
    printFile path (strBytes (opensText o accts ++ render ds)) = .ok (opensText o accts ++ render ds) :=
  withOpens_reprinted path o accts ds h hne ho ha hlt (withOpens_accepted o accts ds hnd hna hacc)

/-- prices only (`ch.viac`): nothing to open, the output is accepted and reprinted as it is -/
theorem C13_text_valid_prices_only (path : String) (ds : List Directive) (h : ∀ d ∈ ds, PrintableDir d)
    (hna : ∀ d ∈ ds, TxOrPrice d) (hnt : ∀ t, Directive.tx t ∉ ds) : printFile path (strBytes (render ds)) = .ok (render ds) := by
  apply printFile_fixpoint path _ (printable_built ds h)
  obtain ⟨st', h'⟩ := days_ok (Builder.ofList ds).build {} (built_txDays ds hna) (by
    intro d hd t ht
    exact absurd (built_tx_mem ds d hd t ht) (hnt t))
  unfold Check.run
  rw [h']; rfl

/-! ## output that carries the statement's balance assertions -/

/-- **accepted iff the statement's balance column is consistent with its amounts**: for every import faithful to the
statement's items (booking rows ↦ transactions with the row's net effect on the import account, carried balances ↦
assertions on it), an asset or liability import account, every account booked on opened exactly once on a day before the
first directive, the checker accepts opens + output if and only if every balance the statement carries is the sum of the
booking rows up to and including its day, starting from zero -/
theorem C13_text_accepted_iff_consistent (o : Int) (accts : List Account) (acct : Account) (items : List Spec.Import.Item)
    (ds : List Directive) (hf : Faithful acct items ds) (hal : acct.isAL = true) (hnd : accts.Nodup) (hin : acct ∈ accts)
    (hacc : ∀ t, Directive.tx t ∈ ds → ∀ p ∈ t.postings, p.account ∈ accts) (hlt : ∀ x ∈ ds, o < x.date) :
    (Check.run (openDay o accts :: (Builder.ofList ds).build)).isOk = true ↔ Consistent items :=
  withOpens_accepted_iff o accts acct items ds hf hal hnd hin hacc hlt

/-- `revolut2`: accepted iff, per day and currency, the `Balance` of the last row is the sum of `Amount − Fee` so far -/
theorem C13_revolut2_accepted_iff (o : Int) (accts : List Account) (acct fee : Account) (recs : List Rec) (ds : List Directive)
    (h : Revolut2.run acct fee recs = .ok ds) (hacct : acct ≠ tbd) (hfee : acct ≠ fee) (hal : acct.isAL = true)
    (hnd : accts.Nodup) (hin : acct ∈ accts) (hacc : ∀ t, Directive.tx t ∈ ds → ∀ p ∈ t.postings, p.account ∈ accts)
    (hlt : ∀ x ∈ ds, o < x.date) :
    (Check.run (openDay o accts :: (Builder.ofList ds).build)).isOk = true ↔ Consistent (revolut2 recs) :=
  withOpens_accepted_iff o accts acct _ ds (C13_revolut2 acct fee hacct hfee recs ds h) hal hnd hin hacc hlt

/-- `revolut`: accepted iff the balance of the first row of each run of equal dates is the sum of all rows of that and
earlier days -/
theorem C13_revolut_accepted_iff (o : Int) (accts : List Account) (acct : Account) (recs : List Rec) (ds : List Directive)
    (h : Revolut.run acct recs = .ok ds) (hacct : acct ≠ tbd) (hval : acct ≠ valuationAccountFor acct) (hal : acct.isAL = true)
    (hnd : accts.Nodup) (hin : acct ∈ accts) (hacc : ∀ t, Directive.tx t ∈ ds → ∀ p ∈ t.postings, p.account ∈ accts)
    (hlt : ∀ x ∈ ds, o < x.date) :
    (Check.run (openDay o accts :: (Builder.ofList ds).build)).isOk = true ↔ Consistent (revolut recs) :=
  withOpens_accepted_iff o accts acct _ ds (C13_revolut acct hacct hval recs ds h) hal hnd hin hacc hlt

/-- `us.interactivebrokers`: accepted iff the open positions and cash balances the statement reports are the sums of its
trades, dividends, taxes, fees and transfers -/
theorem C13_interactivebrokers_accepted_iff (o : Int) (accts : List Account) (a : Swissquote.Accts) (ok : AcctsOK a)
    (recs : List Rec) (ds : List Directive) (h : IB.run a recs = .ok ds) (hal : a.account.isAL = true)
    (hnd : accts.Nodup) (hin : a.account ∈ accts) (hacc : ∀ t, Directive.tx t ∈ ds → ∀ p ∈ t.postings, p.account ∈ accts)
    (hlt : ∀ x ∈ ds, o < x.date) :
    (Check.run (openDay o accts :: (Builder.ofList ds).build)).isOk = true ↔ Consistent (interactivebrokers recs) :=
  withOpens_accepted_iff o accts a.account _ ds (C13_interactivebrokers a ok recs ds h) hal hnd hin hacc hlt

/-- **the text-level clause for output with assertions**: `knut print` on opens + output reproduces the file byte for byte
if the statement is consistent, and fails in processing (a failed assertion) if it is not -/
theorem C13_text_valid_iff_consistent (path : String) (o : Int) (accts : List Account) (acct : Account)
    (items : List Spec.Import.Item) (ds : List Directive) (hf : Faithful acct items ds) (h : ∀ d ∈ ds, PrintableDir d)
    (hal : acct.isAL = true) (hne : accts ≠ []) (hnd : accts.Nodup) (hin : acct ∈ accts) (ho : PrintableDate o)
    (ha : ∀ a ∈ accts, PrintableAccount a = true) (hlt : ∀ d ∈ ds, o < d.date)
    (hacc : ∀ t, Directive.tx t ∈ ds → ∀ p ∈ t.postings, p.account ∈ accts) :
    (Consistent items → printFile path (strBytes (opensText o accts ++ render ds)) = .ok (opensText o accts ++ render ds)) ∧
    (¬ Consistent items → printFile path (strBytes (opensText o accts ++ render ds)) = .error "processing") := by
  have hiff := withOpens_accepted_iff o accts acct items ds hf hal hnd hin hacc hlt
  constructor
  · intro hc
    exact withOpens_reprinted path o accts ds h hne ho ha hlt (hiff.mpr hc)
  · intro hc
    apply withOpens_rejected path o accts ds h hne ho ha hlt
    cases hr : (Check.run (openDay o accts :: (Builder.ofList ds).build)).isOk with
    | false => rfl
    | true => exact absurd (hiff.mp hr) hc

/-! ## Non-vacuity: the statement of `Properties/C13.lean` with a double quote and a separator in the free text -/

/-- the two transactions `Swisscard2.run card [hdr12, row1, row0]` yields -/
def exOut : List Directive :=
  [mkTx 739072 "say \"hi\"; x / aa / Familie / 11 / STORES / Belastung" [⟨card, tbd, "CHF", 363/5⟩],
   mkTx 739073 "zero / aa / Familie / 11 / STORES / Belastung" [⟨card, tbd, "EUR", 0⟩]]

theorem exOut_run : Swisscard2.run card [hdr12, row1, row0] = .ok exOut := by decide +kernel

theorem card_ok : AccOK card := by unfold AccOK; decide +kernel

/-- the double quotes of the statement are single quotes in the stored description, so the directive is printable -/
example : ∀ d ∈ exOut, PrintableDir d := C13_swisscard2_printable card card_ok _ _ exOut_run

/-- opened the day before, the output is accepted and reprinted byte for byte -/
example : printFile "j" (strBytes (opensText 739071 [card, tbd] ++ render exOut)) = .ok (opensText 739071 [card, tbd] ++ render exOut) :=
  C13_text_valid "j" 739071 [card, tbd] exOut (C13_swisscard2_printable card card_ok _ _ exOut_run)
    (C13_swisscard2_tx_or_price card _ _ exOut_run) (by simp) (by decide) (by decide) (by decide +kernel) (by decide +kernel)
    (by
      intro t ht
      simp only [exOut, mkTx, List.mem_cons, List.not_mem_nil, or_false, Directive.tx.injEq] at ht
      rcases ht with rfl | rfl <;> decide +kernel)

/-! ## Non-vacuity: a two-row revolut2 statement, consistent and not -/

def revolut : Account := ⟨["Assets", "Revolut"]⟩
def fees : Account := ⟨["Expenses", "Fees"]⟩
def r2hdr : Rec := ["Type", "Product", "Started Date", "Completed Date", "Description", "Amount", "Fee", "Currency", "State", "Balance"]
def r2row1 : Rec := ["TOPUP", "Current", "2023-01-02 10:00:00", "2023-01-02 10:00:01", "Top-Up", "100.00", "0.00", "CHF", "COMPLETED", "100.00"]
def r2row2 (bal : String) : Rec :=
  ["CARD_PAYMENT", "Current", "2023-01-03 09:00:00", "2023-01-03 11:00:00", "Coffee", "-4.50", "0.50", "CHF", "COMPLETED", bal]

/-- what `knut import revolut2` writes for the statement (the real binary writes the same text) -/
def exR2Out (bal : Rat) : List Directive :=
  [mkTx 738521 "Top-Up" [⟨tbd, revolut, "CHF", 100⟩],
   mkTx 738522 "Coffee" [⟨tbd, revolut, "CHF", -9/2⟩, ⟨revolut, fees, "CHF", 1/2⟩],
   .assertion ⟨738521, [⟨revolut, 100, "CHF"⟩]⟩, .assertion ⟨738522, [⟨revolut, bal, "CHF"⟩]⟩]

theorem exR2_run : Revolut2.run revolut fees [r2hdr, r2row1, r2row2 "95.00"] = .ok (exR2Out 95) := by decide +kernel
theorem exR2_run_bad : Revolut2.run revolut fees [r2hdr, r2row1, r2row2 "96.00"] = .ok (exR2Out 96) := by decide +kernel

/-- the statement whose last balance is 95.00 is consistent: 100.00 − 4.50 − 0.50 -/
theorem exR2_consistent : Consistent (revolut2 [r2hdr, r2row1, r2row2 "95.00"]) := by decide +kernel
/-- with 96.00 it is not -/
theorem exR2_inconsistent : ¬ Consistent (revolut2 [r2hdr, r2row1, r2row2 "96.00"]) := by decide +kernel

theorem exR2_accounts (bal : Rat) : ∀ t, Directive.tx t ∈ exR2Out bal → ∀ p ∈ t.postings, p.account ∈ [revolut, fees, tbd] := by
  intro t ht
  simp only [exR2Out, mkTx, List.mem_cons, List.not_mem_nil, or_false, Directive.tx.injEq, reduceCtorEq] at ht
  rcases ht with rfl | rfl <;> decide +kernel

/-- so the first is accepted once the three accounts are opened, and the second is not -/
example : (Check.run (openDay 738520 [revolut, fees, tbd] :: (Builder.ofList (exR2Out 95)).build)).isOk = true :=
  (C13_revolut2_accepted_iff 738520 [revolut, fees, tbd] revolut fees _ _ exR2_run (by decide) (by decide) (by decide)
    (by decide) (by decide) (exR2_accounts 95) (by decide +kernel)).mpr exR2_consistent

example : ¬ (Check.run (openDay 738520 [revolut, fees, tbd] :: (Builder.ofList (exR2Out 96)).build)).isOk = true :=
  fun h => exR2_inconsistent ((C13_revolut2_accepted_iff 738520 [revolut, fees, tbd] revolut fees _ _ exR2_run_bad (by decide)
    (by decide) (by decide) (by decide) (by decide) (exR2_accounts 96) (by decide +kernel)).mp h)

end Knut.C13
