package main

import (
	"fmt"
	"regexp"
	"strings"
	"time"
	"unicode/utf8"

	"github.com/sboehler/knut/lib/model/registry"
	"github.com/shopspring/decimal"
)

// ---------------------------------------------------------------- C13: the library functions the importer models rely on
//
// decimal.NewFromString, time.Parse for the five layouts, strings.TrimSpace/Fields/Trim/Replacer, the importers'
// regular expressions and the registry's name checks are modelled in Lean (Model/Import/Common.lean). These streams
// compare the models with the Go originals on structured and mutated strings.

var c13NumAlphabet = []string{"0", "1", "5", "9", "00", ".", ".", "-", "+", "e", "E", "'", ",", " ", "x", "١", "_"}

func c13GenNumString(r *RNG) string {
	var b strings.Builder
	if r.Chance(1, 3) {
		b.WriteString(Pick(r, []string{"-", "+", "-", ""}))
	}
	for i, n := 0, r.Range(0, 4); i < n; i++ {
		b.WriteString(fmt.Sprint(r.Intn(1000)))
	}
	if r.Chance(2, 3) {
		b.WriteString(".")
		for i, n := 0, r.Range(0, 3); i < n; i++ {
			b.WriteString(fmt.Sprintf("%02d", r.Intn(100)))
		}
	}
	if r.Chance(1, 5) {
		b.WriteString(Pick(r, []string{"e", "E"}) + Pick(r, []string{"", "-", "+"}) + fmt.Sprint(r.Intn(25)))
	}
	s := b.String()
	for k := r.Intn(3); k > 0; k-- {
		pos := r.Intn(len(s) + 1)
		switch r.Intn(3) {
		case 0:
			s = s[:pos] + Pick(r, c13NumAlphabet) + s[pos:]
		case 1:
			if pos < len(s) {
				s = s[:pos] + s[pos+1:]
			}
		default:
			if pos < len(s) {
				s = s[:pos] + Pick(r, c13NumAlphabet) + s[pos+1:]
			}
		}
	}
	// keep exponents small: the value is materialised on both sides
	if i := strings.IndexAny(s, "eE"); i >= 0 && len(s) > i+4 {
		s = s[:i+4]
	}
	return s
}

var c13Layouts = []struct{ id, layout string }{
	{"dmydot", "02.01.2006"}, {"dmydash", "02-01-2006"}, {"ymd", "2006-01-02"}, {"dmony", "2 Jan 2006"}, {"long", "January 2, 2006"},
}

func c13GenDateString(r *RNG, layout string) string {
	y := r.Range(1900, 2100)
	switch r.Intn(12) {
	case 0:
		y = r.Range(0, 9999)
	case 1:
		y = Pick(r, []int{0, 1, 4, 100, 400, 1600, 1900, 2000, 2100, 9999})
	}
	m := r.Range(1, 12)
	d := r.Range(1, 28)
	if r.Chance(1, 3) {
		d = r.Range(28, 31)
	}
	if r.Chance(1, 20) {
		m = Pick(r, []int{0, 13, 2, 2})
	}
	if r.Chance(1, 30) {
		d = Pick(r, []int{0, 32, 29, 30})
	}
	months := []string{"Jan", "Feb", "Mar", "Apr", "May", "Jun", "Jul", "Aug", "Sep", "Oct", "Nov", "Dec"}
	long := []string{"January", "February", "March", "April", "May", "June", "July", "August", "September", "October", "November", "December"}
	name := func(tab []string) string {
		if m < 1 || m > 12 {
			return "Foo"
		}
		s := tab[m-1]
		switch r.Intn(8) {
		case 0:
			return strings.ToLower(s)
		case 1:
			return strings.ToUpper(s)
		}
		return s
	}
	day1 := fmt.Sprint(d)
	if r.Chance(1, 4) {
		day1 = fmt.Sprintf("%02d", d)
	}
	var s string
	switch layout {
	case "02.01.2006":
		s = fmt.Sprintf("%02d.%02d.%04d", d, m, y)
	case "02-01-2006":
		s = fmt.Sprintf("%02d-%02d-%04d", d, m, y)
	case "2006-01-02":
		s = fmt.Sprintf("%04d-%02d-%02d", y, m, d)
	case "2 Jan 2006":
		s = fmt.Sprintf("%s %s %04d", day1, name(months), y)
	default:
		s = fmt.Sprintf("%s %s, %04d", name(long), day1, y)
	}
	for k := r.Intn(4) / 3 * r.Range(1, 2); k > 0; k-- {
		pos := r.Intn(len(s) + 1)
		alphabet := []string{" ", "  ", "0", "1", "9", ".", "-", ",", "x", "é", "", "", ""}
		switch r.Intn(3) {
		case 0:
			s = s[:pos] + Pick(r, alphabet) + s[pos:]
		case 1:
			if pos < len(s) {
				s = s[:pos] + s[pos+1:]
			}
		default:
			if pos < len(s) {
				s = s[:pos] + Pick(r, alphabet) + s[pos+1:]
			}
		}
	}
	if r.Chance(1, 10) {
		s += Pick(r, []string{" 10:17:49", ", 10:17:49", " ", "x"})
	}
	return s
}

var c13StrAlphabet = []string{"a", "B", "CHF", "CH", "F", "'", "\"", "=", " ", "  ", "\t", "\n", "\r", "\v", "\f", " ", "\u0085", " ", "　", "​", "1", "22", "3333", ".", "-", " - ",
	"Sold ", "Bought ", " to ", " from ", "EUR", "Paid Out (", ")", "(", "é", "Ω", "١", "日", ":", "Assets", "Expenses", "Income", "_", ";", ",", "x", "14.02.2020", "Rundungskorrektur"}

func c13GenStr(r *RNG) string {
	var b strings.Builder
	for i, n := 0, r.Range(0, 7); i < n; i++ {
		b.WriteString(Pick(r, c13StrAlphabet))
	}
	return b.String()
}

var (
	c13DateRegex  = regexp.MustCompile(`\d\d.\d\d.\d\d\d\d`)
	c13SpaceRegex = regexp.MustCompile(`\s+`)
	c13FxSell     = regexp.MustCompile(`Sold [A-Z]+ to [A-Z]+`)
	c13FxBuy      = regexp.MustCompile(`Bought [A-Z]+ from [A-Z]+`)
	c13PaidOut    = regexp.MustCompile(`Paid Out \(([A-Za-z]+)\)`)
	c13Alnum      = regexp.MustCompile("[A-Za-z0-9]+")
	c13Replacer   = strings.NewReplacer("CHF", "", "'", "")
)

func c13HexJoin(xs []string) string {
	hs := make([]string, len(xs))
	for i, x := range xs {
		hs[i] = Hex(x)
	}
	return strings.Join(hs, ",") + "."
}

func c13ImplStr(fn, s string) string {
	switch fn {
	case "trim":
		return Hex(strings.TrimSpace(s))
	case "collapse":
		return Hex(c13SpaceRegex.ReplaceAllString(s, " "))
	case "fields":
		return c13HexJoin(strings.Fields(s))
	case "trimeq":
		return Hex(strings.Trim(s, "=\""))
	case "stripchf":
		return Hex(c13Replacer.Replace(s))
	case "datere":
		return fmt.Sprint(c13DateRegex.MatchString(s))
	case "fxsell":
		return fmt.Sprint(c13FxSell.MatchString(s))
	case "fxbuy":
		return fmt.Sprint(c13FxBuy.MatchString(s))
	case "paidout":
		g := c13PaidOut.FindStringSubmatch(s)
		if len(g) != 2 {
			return "none"
		}
		return "some " + Hex(g[1])
	case "alnumrun":
		return Hex(c13Alnum.FindString(s))
	case "commodity":
		_, err := registry.New().Commodities().Get(s)
		return fmt.Sprint(err == nil)
	case "account":
		if s == "" {
			return "error" // an empty flag is "not given" (nil account), outside the model
		}
		a, err := registry.New().Accounts().Get(s)
		if err != nil {
			return "error"
		}
		return "ok " + Hex(a.Name())
	case "splitdash":
		return c13HexJoin(strings.Split(s, " - "))
	}
	return "?"
}

var c13StrFns = []string{"trim", "collapse", "fields", "trimeq", "stripchf", "datere", "fxsell", "fxbuy", "paidout", "alnumrun", "commodity", "account", "splitdash"}

func runC13Lib(c *Ctx) {
	bt := c.NewBatch()
	defer bt.Flush()
	n := c.N(20000, 300000)
	for i := 0; i < n; i++ {
		if !c.Want("lib-dec", i) {
			continue
		}
		i := i
		r := c.Rng("lib-dec", i)
		s := c13GenNumString(r)
		if !utf8.ValidString(s) {
			continue
		}
		c.Evals++
		impl := "error"
		if d, err := decimal.NewFromString(s); err == nil {
			impl = d.String()
		}
		kind := "ok"
		if impl == "error" {
			kind = "error"
		}
		c.Class(fmt.Sprintf("lib-dec/%s/exp=%v/dot=%d/sign=%v", kind, strings.ContainsAny(s, "eE"), strings.Count(s, "."), strings.ContainsAny(s, "+-")))
		bt.Add(func(model string) {
			c.Compare("lib-dec", i, "decimal.NewFromString", map[string]any{"string": s}, impl, model)
		}, "c13-dec", Hex(s))
	}
	for i := 0; i < n; i++ {
		if !c.Want("lib-date", i) {
			continue
		}
		i := i
		r := c.Rng("lib-date", i)
		l := c13Layouts[i%len(c13Layouts)]
		s := c13GenDateString(r, l.layout)
		if !utf8.ValidString(s) {
			continue
		}
		c.Evals++
		impl := "error"
		if t, err := time.Parse(l.layout, s); err == nil {
			impl = fmt.Sprint(dayNum(t))
		}
		kind := "ok"
		if impl == "error" {
			kind = "error"
		}
		c.Class(fmt.Sprintf("lib-date/%s/%s/len%d", l.id, kind, len(s)))
		bt.Add(func(model string) {
			c.Compare("lib-date", i, "time.Parse "+l.layout, map[string]any{"string": s, "layout": l.layout}, impl, model)
		}, "c13-date", l.id, Hex(s))
		if i%3 == 0 {
			// the s[:10] + Parse combination (revolut2, wise, swissquote, interactivebrokers)
			impl10 := func() (res string) {
				defer func() {
					if recover() != nil {
						res = "panic"
					}
				}()
				t, err := time.Parse(l.layout, s[:10])
				if err != nil {
					return "error"
				}
				return fmt.Sprint(dayNum(t))
			}()
			bt.Add(func(model string) {
				c.Compare("lib-date", i, "s[:10] + time.Parse "+l.layout, map[string]any{"string": s, "layout": l.layout}, impl10, model)
			}, "c13-date10", l.id, Hex(s))
		}
	}
	for i := 0; i < n; i++ {
		if !c.Want("lib-str", i) {
			continue
		}
		i := i
		r := c.Rng("lib-str", i)
		fn := c13StrFns[i%len(c13StrFns)]
		s := c13GenStr(r)
		if fn == "account" && s == "" {
			continue
		}
		c.Evals++
		impl := c13ImplStr(fn, s)
		c.Class(fmt.Sprintf("lib-str/%s/%s", fn, bucket(len(impl))))
		bt.Add(func(model string) {
			c.Compare("lib-str", i, "string function "+fn, map[string]any{"string": s, "fn": fn}, impl, model)
		}, "c13-str", fn, Hex(s))
	}
}
