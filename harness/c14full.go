package main

import (
	"bytes"
	"context"
	"fmt"
	"os"
	"os/exec"
	"path/filepath"
	"strings"
	"time"
)

// Stream "fullstdout" of C14: the report cannot be written (standard output is /dev/full). A command whose report is
// larger than its output buffer must then fail — non-zero exit status and a diagnostic — instead of claiming success
// for a report nobody received.  balance, print, transcode, check --write and portfolio weights do so on the pinned
// tree; seeded change C20-e rendered the weights table into a string and printed it with an unchecked Fprint.
// (`portfolio returns` prints with fmt.Printf line by line and has always ignored write errors: it is not part of
// this stream.)
func runC14FullStdout(c *Ctx) {
	if c.KnutBin == "" {
		return
	}
	if _, err := os.Stat("/dev/full"); err != nil {
		c.Notes = append(c.Notes, "fullstdout stream skipped: no /dev/full")
		return
	}
	n := c.N(24, 300)
	dir := filepath.Join(c.WorkDir, "c14full")
	os.MkdirAll(dir, 0o755)
	cmds := [][]string{{"balance", "--color=false"}, {"balance", "--csv", "-v", "CHF", "--months"}, {"print"}, {"transcode", "-v", "CHF"}, {"check", "--write"},
		{"portfolio", "weights", "-v", "CHF", "--csv", "--days"}, {"portfolio", "weights", "-v", "CHF", "--color=false", "--days"}}
	for i := 0; i < n; i++ {
		if !c.Want("fullstdout", i) {
			continue
		}
		r := c.Rng("fullstdout", i)
		nacc, ncom := r.Range(150, 500), r.Range(45, 90)
		var b strings.Builder
		b.WriteString("2020-01-01 open Equity:E\n")
		for k := 0; k < ncom; k++ {
			fmt.Fprintf(&b, "2020-01-01 price C%d %d.%02d CHF\n", k, r.Range(1, 300), r.Intn(100))
		}
		for k := 0; k < nacc; k++ {
			fmt.Fprintf(&b, "2020-01-01 open Assets:Account%d\n", k)
		}
		b.WriteString("\n")
		for k := 0; k < nacc; k++ {
			fmt.Fprintf(&b, "2020-01-%02d \"t%d\"\nEquity:E Assets:Account%d %d C%d\n\n", 1+k%20, k, k, 1+r.Intn(90), k%ncom)
		}
		path := filepath.Join(dir, fmt.Sprintf("j%d.knut", i))
		os.WriteFile(path, []byte(b.String()), 0o644)
		argv := append(append([]string{}, cmds[i%len(cmds)]...), path)
		run := func(full bool) (int, int, string) {
			ctx, cancel := context.WithTimeout(context.Background(), 30*time.Second)
			defer cancel()
			cmd := exec.CommandContext(ctx, c.KnutBin, argv...)
			var so, se bytes.Buffer
			cmd.Stderr = &se
			if full {
				f, err := os.OpenFile("/dev/full", os.O_WRONLY, 0)
				if err != nil {
					return -3, 0, err.Error()
				}
				defer f.Close()
				cmd.Stdout = f
			} else {
				cmd.Stdout = &so
			}
			err := cmd.Run()
			code := 0
			if err != nil {
				code = -1
				if ee, ok := err.(*exec.ExitError); ok {
					code = ee.ExitCode()
				}
			}
			return code, so.Len(), se.String()
		}
		c.Evals++
		code0, size, stderr0 := run(false)
		in := map[string]any{"argv": strings.Join(argv[:len(argv)-1], " "), "stdout": "/dev/full",
			"journal": fmt.Sprintf("%d accounts, %d priced commodities, one booking per account in January 2020", nacc, ncom), "report_bytes": size}
		c.Class(fmt.Sprintf("fullstdout/%s/size%s", strings.Join(cmds[i%len(cmds)], " "), bucket(size/4096)))
		if !c.Monitor("fullstdout", i, "the command succeeds when its output can be written", in, code0 == 0, fmt.Sprintf("exit %d: %s", code0, clip(stderr0))) {
			os.Remove(path)
			continue
		}
		if size <= 8192 {
			c.Tag("fullstdout-small-report")
			os.Remove(path)
			continue
		}
		code1, _, stderr1 := run(true)
		c.Monitor("fullstdout", i, "a report that cannot be written fails the command (non-zero exit, diagnostic)", in,
			code1 != 0 && strings.TrimSpace(stderr1) != "" && !strings.Contains(stderr1, "panic:"), fmt.Sprintf("exit %d, stderr %q", code1, clip(stderr1)))
		os.Remove(path)
	}
}
