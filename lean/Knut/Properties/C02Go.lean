import Knut.Properties.C02
import Knut.FactsAgree.TransRenderVals
import Knut.Properties.C01Go
/-!
# C02 (the ledger clause) on the generated definitions

`Properties/C02.lean` proves that, without closing, the entries behind the balance report are exactly the ledger entries of the journal
(`C02_noclose`), about the model's entry list.  In Go a row of the report is computed by `renderNode` as

  `vals := n.Value.Amounts.SumBy(nil, KeyMapper{Date: Identity, Commodity: IdentityIf(showCommodities)}.Build())`

and `render` reads `vals[DateCommodityKey(date, commodity)]`.  `Report.Insert` and `Amounts.SumBy` are translated;
`FactsAgree/TransReport.lean` (`Insert_fold_agrees`: every node of the tree holds the `Add`s of the inserts under exactly its path) and
`TransRenderVals.lean` (`SumBy_cell_model`) prove them equal to the model for EVERY iteration order.  This module composes them:

* `C02_node_cells_go`: on the report ANY log of `Insert` calls leaves, for the node at ANY path of either section tree and every
  admissible pair of iteration orders, the translated `SumBy` never panics and its cell at a column date and commodity is the model's
  `cellAt` of the entries of the inserts under exactly that path in that section;
* `C02_ledger_cells_go_partial`: these are the LEDGER entries of the journal booked on that account path, when the entries of the log
  are those of a run of the model's pipeline without valuation and closing.

**Partial** in `hlog : esOf (sec al log) = st.entries.filter (section)`: the log of `Insert` calls the translated `Query.Into` makes over a
processed journal is, per posting, proved equal to the model's `queryPosting` (`TransQuery.Query_Posting_model`), but not composed over
the journal.  Hypothesis on the log that stays: commodities interned with non-empty names.
-/
namespace Knut.C02Go
open Knut Knut.GoSem Knut.Balance
open Knut.Generated.Go
open Knut.FactsAgree.TransAmountsSum Knut.FactsAgree.TransReport Knut.FactsAgree.TransRender
open Knut.FactsAgree.TransQuery (entryOf)

/-- the report after a log of `Insert` calls on a new report -/
def reportOf (part : date.Partition) (log : Log) : balance.Report :=
  log.foldl (fun r e => balance.Report.Insert r e.1 e.2) (balance.NewReport part)

/-- the tree of a section -/
def treeOf (al : Bool) (r : balance.Report) : Node := if al then r.AL else r.EIE

theorem mem_sec {al : Bool} {log : Log} {e : amounts.Key × Rat} (h : e ∈ sec al log) : e ∈ log ∧ e.1.Account ≠ GoZero.zero := by
  unfold sec at h
  obtain ⟨h1, h2⟩ := List.mem_filter.mp h
  simp only [Bool.and_eq_true, Bool.not_eq_true', decide_eq_false_iff_not] at h2
  exact ⟨h1, h2.1⟩

theorem mem_ownL {L : Log} {p : List String} {e : amounts.Key × Rat} (h : e ∈ ownL L p) : e ∈ L :=
  (List.mem_filter.mp h).1

/-- the entries of the inserts under a path are the entries whose account has that path -/
theorem esOf_ownL (L : Log) (p : List String) :
    esOf (ownL L p) = (esOf L).filter (fun x => decide (x.account.segments = p)) := by
  induction L with
  | nil => rfl
  | cons e rest ih =>
    by_cases hz : e.1.Account = GoZero.zero
    · have h3 : esOf (e :: rest) = esOf rest := by simp [esOf, entryOf, hz]
      by_cases hp : e.1.Account.segments = p
      · have h1 : ownL (e :: rest) p = e :: ownL rest p := by simp [ownL, hp]
        have h4 : esOf (e :: ownL rest p) = esOf (ownL rest p) := by simp [esOf, entryOf, hz]
        rw [h1, h3, h4, ih]
      · have h1 : ownL (e :: rest) p = ownL rest p := by simp [ownL, hp]
        rw [h1, h3, ih]
    · obtain ⟨x, hx⟩ : ∃ x, entryOf e = some x := by simp [entryOf, hz]
      have hseg := (entryOf_segments hx).1
      have h3 : esOf (e :: rest) = x :: esOf rest := by simp [esOf, hx]
      by_cases hp : e.1.Account.segments = p
      · have h1 : ownL (e :: rest) p = e :: ownL rest p := by simp [ownL, hp]
        have h4 : esOf (e :: ownL rest p) = x :: esOf (ownL rest p) := by simp [esOf, hx]
        have hxp : x.account.segments = p := by rw [hseg]; exact hp
        rw [h1, h3, h4, ih]
        simp [hxp]
      · have h1 : ownL (e :: rest) p = ownL rest p := by simp [ownL, hp]
        have hxp : ¬ x.account.segments = p := by rw [hseg]; exact hp
        rw [h1, h3, ih]
        simp [hxp]

/-- **the cells of a row**: on the report any log of `Insert` calls leaves, at the node of any path `p` of the tree of either section,
`SumBy(nil, mapper)` over the node's amounts (what `renderNode` hands to `render`) succeeds for every admissible pair of iteration orders
and holds, at every column date and commodity, the model's cell of the entries inserted under exactly that path -/
theorem C02_node_cells_go (cur : String → Bool) (part : date.Partition) (log : Log) (al : Bool) (byCommodity : Bool)
    (hcom : ∀ e ∈ log, e.1.Commodity = Knut.FactsAgree.TransPosting.commodityGo cur e.1.Commodity.name ∧ e.1.Commodity.name ≠ "")
    (p : List String) (m : Node) (hm : MNode.nodeAt? (treeOf al (reportOf part log)) p = some m)
    {order1 order2 : List amounts.Key} (h1 : order1.Perm (AMap.keys m.Value.Amounts))
    (h2 : ∀ x, (∃ k ∈ AMap.keys m.Value.Amounts, mfR byCommodity k = x) → x ∈ order2) :
    ∃ vals, amounts.Amounts.SumBy m.Value.Amounts none (pureFn (mfR byCommodity)) order1 order2 = GoSem.Outcome.ok vals ∧
      ∀ (c : Option Knut.Commodity), (∀ s, c = some s → s ≠ "") → ∀ d : Int, d ≠ 0 →
        AMap.get vals (amounts.DateCommodityKey d (comGo cur c)) 0 =
          BalanceReport.cellAt ((esOf (sec al log)).filter (fun x => decide (x.account.segments = p))) byCommodity c d := by
  have hrep : Rep (sec al log) (treeOf al (reportOf part log)) := by
    unfold treeOf reportOf
    cases al
    · exact (Insert_fold_agrees part log).2.1
    · exact (Insert_fold_agrees part log).1
  have hloc := hrep p m hm
  rw [hloc.amounts] at h1 h2 ⊢
  obtain ⟨vals, hv, _, hcell⟩ := SumBy_cell_model cur (ownL (sec al log) p)
    (fun e he => (mem_sec (mem_ownL he)).2) (fun e he => hcom e (mem_sec (mem_ownL he)).1) byCommodity h1 h2
  refine ⟨vals, hv, fun c hc d hd => ?_⟩
  rw [hcell c hc d hd, esOf_ownL]

/-- **without closing, the cells of a row are the ledger's**: when the entries of the section's inserts are those of a run of the model's
pipeline (no valuation, no closing, consistent days), the cell is `cellAt` of the LEDGER entries of the journal in that section whose
account has the node's path -/
theorem C02_ledger_cells_go_partial (cur : String → Bool) (part : date.Partition) (log : Log) (al : Bool) (byCommodity : Bool)
    (hcom : ∀ e ∈ log, e.1.Commodity = Knut.FactsAgree.TransPosting.commodityGo cur e.1.Commodity.name ∧ e.1.Commodity.name ≠ "")
    (p : List String) (m : Node) (hm : MNode.nodeAt? (treeOf al (reportOf part log)) p = some m)
    {order1 order2 : List amounts.Key} (h1 : order1.Perm (AMap.keys m.Value.Amounts))
    (h2 : ∀ x, (∃ k ∈ AMap.keys m.Value.Amounts, mfR byCommodity k = x) → x ∈ order2)
    (cfg : BalCfg) (hv : cfg.valuation = none) (hc : cfg.close = false) (days : List Day) (hd : C02.DaysConsistent days)
    (st : BalState) (hrun : Balance.run cfg days = .ok st)
    (hlog : esOf (sec al log) = st.entries.filter (fun x => x.account.isAL == al)) :
    ∃ vals, amounts.Amounts.SumBy m.Value.Amounts none (pureFn (mfR byCommodity)) order1 order2 = GoSem.Outcome.ok vals ∧
      ∀ (c : Option Knut.Commodity), (∀ s, c = some s → s ≠ "") → ∀ d : Int, d ≠ 0 →
        AMap.get vals (amounts.DateCommodityKey d (comGo cur c)) 0 =
          BalanceReport.cellAt (((Spec.ledgerEntries cfg days).filter (fun x => x.account.isAL == al)).filter
            (fun x => decide (x.account.segments = p))) byCommodity c d := by
  obtain ⟨vals, hvals, hcell⟩ := C02_node_cells_go cur part log al byCommodity hcom p m hm h1 h2
  refine ⟨vals, hvals, fun c hcc d hdd => ?_⟩
  rw [hcell c hcc d hdd, hlog, C02.C02_noclose cfg hv hc days hd st hrun]

/-! ## with the log produced by the translated `Query.Into`

`C01Go.queryAll_model` gives the entries of the log the translated `Posting` closure produces over the transactions that reach the query
stage; `esOf_sec` splits them by section when the accounts of the keys are registry accounts (`accountGo`, or nil for a hidden one). -/

/-- the entries of a section's inserts are the entries of the log on accounts of that section -/
theorem esOf_sec (log : Log)
    (hacc : ∀ e ∈ log, e.1.Account = GoZero.zero ∨ ∃ a : Knut.Account, e.1.Account = Knut.FactsAgree.TransAccount.accountGo a)
    (al : Bool) : esOf (sec al log) = (esOf log).filter (fun x => x.account.isAL == al) := by
  induction log with
  | nil => rfl
  | cons e rest ih =>
    have ih' := ih (fun x hx => hacc x (List.mem_cons_of_mem _ hx))
    by_cases hz : e.1.Account = GoZero.zero
    · have h1 : sec al (e :: rest) = sec al rest := by simp [sec, hz]
      have h3 : esOf (e :: rest) = esOf rest := by simp [esOf, entryOf, hz]
      rw [h1, h3, ih']
    · obtain ⟨a, ha⟩ : ∃ a : Knut.Account, e.1.Account = Knut.FactsAgree.TransAccount.accountGo a := by
        rcases hacc e List.mem_cons_self with h | h
        · exact absurd h hz
        · exact h
      obtain ⟨x, hx⟩ : ∃ x, entryOf e = some x := by simp [entryOf, hz]
      have hxa : x.account = a := by
        unfold entryOf at hx
        simp only [hz, if_false, Option.some.injEq] at hx
        subst hx
        simp only [ha, Knut.FactsAgree.TransAccount.accountGo]
      have hal : account.Account.IsAL e.1.Account = a.isAL := by
        rw [ha]; exact Knut.FactsAgree.TransAccount.IsAL_agrees a
      have h3 : esOf (e :: rest) = x :: esOf rest := by simp [esOf, hx]
      by_cases hb : a.isAL = al
      · have h1 : sec al (e :: rest) = e :: sec al rest := by simp [sec, hz, hal, hb]
        have h4 : esOf (e :: sec al rest) = x :: esOf (sec al rest) := by simp [esOf, hx]
        rw [h1, h3, h4, ih']
        simp [hxa, hb]
      · have h1 : sec al (e :: rest) = sec al rest := by simp [sec, hz, hal, hb]
        rw [h1, h3, ih']
        simp [hxa, hb]

/-- **without closing, the cells of a row are the ledger's**, with the log produced by the translated `Query.Into` over Go transactions
that stand for the transactions reaching the query stage in a run of the model (no valuation, no closing).  Still partial in `hrel`
(see `C01Go.C01_delta_zero_query_go_partial`). -/
theorem C02_ledger_cells_query_go_partial (cur : String → Bool) (part : date.Partition) (al : Bool) (byCommodity : Bool)
    (cfg : BalCfg) (hv : cfg.valuation = none) (hc : cfg.close = false) (days : List Day) (hd : C02.DaysConsistent days)
    (st : BalState) (hrun : Balance.run cfg days = .ok st) (all : List Knut.Transaction) (hall : C01Go.runTxs cfg {} days = .ok all)
    (q : journal.Query) (w : amounts.Key → Bool) (s : amounts.Key → amounts.Key)
    (hq : C01Go.QueryFor cur cfg (journal.Query.Into.init q).query w s)
    (tgs : List transaction.Transaction) (hrel : Knut.FactsAgree.TransProcess.AllRel (Knut.FactsAgree.TransProcess.TRel cur) tgs all) :
    ∃ qs, C01Go.queryAllGo (journal.Query.Into.init q) tgs = .ok (qs, none) ∧
      ((∀ e ∈ qs.c, e.1.Commodity = Knut.FactsAgree.TransPosting.commodityGo cur e.1.Commodity.name ∧ e.1.Commodity.name ≠ "") →
       (∀ e ∈ qs.c, e.1.Account = GoZero.zero ∨ ∃ a : Knut.Account, e.1.Account = Knut.FactsAgree.TransAccount.accountGo a) →
        ∀ (p : List String) (m : Node), MNode.nodeAt? (treeOf al (reportOf part qs.c)) p = some m →
          ∀ (order1 order2 : List amounts.Key), order1.Perm (AMap.keys m.Value.Amounts) →
            (∀ x, (∃ k ∈ AMap.keys m.Value.Amounts, mfR byCommodity k = x) → x ∈ order2) →
            ∃ vals, amounts.Amounts.SumBy m.Value.Amounts none (pureFn (mfR byCommodity)) order1 order2 = GoSem.Outcome.ok vals ∧
              ∀ (c : Option Knut.Commodity), (∀ s, c = some s → s ≠ "") → ∀ d : Int, d ≠ 0 →
                AMap.get vals (amounts.DateCommodityKey d (comGo cur c)) 0 =
                  BalanceReport.cellAt (((Spec.ledgerEntries cfg days).filter (fun x => x.account.isAL == al)).filter
                    (fun x => decide (x.account.segments = p))) byCommodity c d) := by
  obtain ⟨qs, h1, _, he⟩ := C01Go.queryAll_model tgs all hrel (journal.Query.Into.init q) hq
  obtain ⟨all', ha', hent⟩ := C01Go.run_entries cfg days {} st hrun
  rw [hall] at ha'
  injection ha' with ha'
  subst ha'
  have hc0 : esOf (journal.Query.Into.init q).c = [] := by
    rw [Knut.FactsAgree.TransQuery.Query_init_agrees]; rfl
  have hlog : esOf qs.c = st.entries := by
    rw [he, hc0, hent]
  refine ⟨qs, h1, ?_⟩
  intro hcom hacc p m hm order1 order2 ho1 ho2
  exact C02_ledger_cells_go_partial cur part qs.c al byCommodity hcom p m hm ho1 ho2 cfg hv hc days hd st hrun
    (by rw [esOf_sec qs.c hacc al, hlog])

/-! ### Non-vacuity: the root of the A+L tree of the empty report: no amounts, every order admissible, every cell 0 -/
example : ∃ vals, amounts.Amounts.SumBy (MNode.new "" : Node).Value.Amounts none (pureFn (mfR true)) [] [] = GoSem.Outcome.ok vals ∧
    AMap.get vals (amounts.DateCommodityKey 5 (comGo (fun _ => true) (some "CHF"))) 0 = 0 := by
  have hm : MNode.nodeAt? (treeOf true (reportOf ⟨⟨1, 2⟩, 1, []⟩ [])) [] = some (MNode.new "" : Node) := rfl
  have hA : (MNode.new "" : Node).Value.Amounts = [] := rfl
  obtain ⟨vals, hv, hcell⟩ := C02_node_cells_go (fun _ => true) ⟨⟨1, 2⟩, 1, []⟩ [] true true (by intro e he; cases he) [] _ hm
    (order1 := []) (order2 := []) (by rw [hA]; exact List.Perm.refl _) (by rw [hA]; intro x ⟨k, hk, _⟩; simp [AMap.keys] at hk)
  refine ⟨vals, hv, ?_⟩
  rw [hcell (some "CHF") (by intro s hs; injection hs with hs; subst hs; decide) 5 (by decide)]
  simp [sec, esOf, BalanceReport.cellAt, BalanceReport.sumAmounts]

end Knut.C02Go
