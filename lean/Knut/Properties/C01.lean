import Knut.Proofs.Balance
/-!
# C01 — Double-entry conservation: every complete report nets to zero

`Balance.run` is the model of the balance command's processor pipeline (check, prices, valuation with
daily value adjustments, window filter, period closing, query); its result is the log of report
inserts `(column date, mapped account, commodity, amount)`.  `BalanceReport.table` renders the log.

For **every** journal whose transactions consist of posting pairs (everything the loader produces:
`Transaction.ofBookings`, and the accrual expansion of C10), **every** flag combination
(window, interval, `--last`, `--diff`, `--close`, `--remap`, `-m` with level ≥ 1, valued or not) without
account/commodity filter and without hidden accounts:

* `C01_entries_cancel`  – the amounts of the inserts selected by any predicate on (column, commodity) sum to 0;
* `C01_delta_cells_zero` – hence every value the Delta row is computed from is 0, for the per-commodity
  and for the valued (commodity-less) rendering;
* `C01_delta_row_zero` – and every numeric cell of the rendered Delta row(s) is `0`, cumulative or `--diff`.
-/
namespace Knut.C01
open Knut

/-- what the loader produces is paired -/
theorem ofBookings_paired (date : Int) (desc : String) (tg : Option (List Commodity)) (bks : List Booking) :
    TxPaired (Transaction.ofBookings date desc tg bks) := by
  unfold TxPaired Transaction.ofBookings
  simp only
  induction bks with
  | nil => exact Paired.nil
  | cons b rest ih => simp only [List.flatMap_cons]; exact (paired_postingBuild _ _ _ _ _).append ih

/-- days all of whose transactions are made of posting pairs -/
def PairedDays (days : List Day) : Prop := ∀ d ∈ days, ∀ t ∈ d.transactions, TxPaired t

theorem run_sum_zero (cfg : BalCfg) (hu : Unfiltered cfg) (κ : Option Int → Commodity → Bool) :
    ∀ (days : List Day) (st0 st : BalState), PairedDays days → sumSel κ st0.entries = 0 →
      days.foldlM (Balance.day cfg) st0 = .ok st → sumSel κ st.entries = 0 := by
  intro days
  induction days with
  | nil => intro st0 st _ h0 h; simp only [List.foldlM_nil, pure, Except.pure] at h; injection h with h; subst h; exact h0
  | cons d rest ih =>
    intro st0 st hp h0 h
    simp only [List.foldlM_cons, bind, Except.bind] at h
    cases hd : Balance.day cfg st0 d with
    | error e => rw [hd] at h; cases h
    | ok st1 =>
      rw [hd] at h; simp only at h
      have h1 := sumSel_day cfg hu κ st0 st1 d (hp d List.mem_cons_self) hd
      exact ih st1 st (fun d' hd' => hp d' (List.mem_cons_of_mem _ hd')) (by rw [h1]; exact h0) h

/-- **conservation on the report inserts** -/
theorem C01_entries_cancel (cfg : BalCfg) (hu : Unfiltered cfg) (days : List Day) (hp : PairedDays days)
    (st : BalState) (h : Balance.run cfg days = .ok st) (κ : Option Int → Commodity → Bool) :
    sumSel κ st.entries = 0 :=
  run_sum_zero cfg hu κ days {} st hp rfl h

/-- **every value behind the Delta row is zero** (per commodity: `byCom = true`; valued: `byCom = false`) -/
theorem C01_delta_cells_zero (cfg : BalCfg) (hu : Unfiltered cfg) (days : List Day) (hp : PairedDays days)
    (st : BalState) (h : Balance.run cfg days = .ok st) (byCom : Bool) (c : Option Commodity) (d : Int) :
    BalanceReport.cellAt st.entries byCom c d = 0 :=
  C01_entries_cancel cfg hu days hp st h
    (fun date com => date = some d && (if byCom then some com else none) = c)

/-- the running total over a list of zero cells stays zero: all numeric cells produced are `0` -/
theorem foldl_cells_zero (diff neg : Bool) (cell : Int → Rat) (hz : ∀ d, cell d = 0) :
    ∀ (ds : List Int) (acc : List Table.Cell × Rat), acc.2 = 0 → (∀ x ∈ acc.1, ∀ n, x = Table.Cell.num n → n = 0) →
      ∀ x ∈ (ds.foldl (fun (acc : List Table.Cell × Rat) d =>
          let v := cell d
          let (shown, total) := if diff then (v, acc.2) else (acc.2 + v, acc.2 + v)
          (acc.1 ++ [Table.Cell.num (if neg then -shown else shown)], total)) acc).1,
        ∀ n, x = Table.Cell.num n → n = 0 := by
  intro ds
  induction ds with
  | nil => intro acc _ h; simpa using h
  | cons d rest ih =>
    intro acc h2 h1
    simp only [List.foldl_cons]
    apply ih
    · simp only [hz d, h2]; split <;> simp [Rat.add_zero]
    · intro x hx n hn
      simp only [hz d, h2] at hx
      rcases List.mem_append.mp hx with hx | hx
      · exact h1 x hx n hn
      · simp only [List.mem_singleton] at hx
        rw [hx] at hn
        cases diff <;> cases neg <;> simp [Rat.add_zero] at hn <;> exact hn.symm

/-- rows rendered from an all-zero amounts table contain only `0` numbers -/
theorem renderVals_zero (rc : RenderCfg) (drawComm : Bool) (indent : Nat) (name : String) (neg : Bool)
    (coms : List (Option Commodity)) (cell : Option Commodity → Int → Rat) (hz : ∀ c d, cell c d = 0) :
    ∀ row ∈ BalanceReport.renderVals rc drawComm indent name neg coms cell, ∀ x ∈ row, ∀ n, x = Table.Cell.num n → n = 0 := by
  intro row hrow x hx n hn
  unfold BalanceReport.renderVals at hrow
  simp only at hrow
  split at hrow
  · simp only [List.mem_singleton] at hrow
    subst hrow
    rcases List.mem_cons.mp hx with hx | hx
    · rw [hx] at hn; cases hn
    · rw [List.mem_replicate] at hx; rw [hx.2] at hn; cases hn
  · simp only [List.mem_map] at hrow
    obtain ⟨⟨c, i⟩, _, hr⟩ := hrow
    subst hr
    simp only at hx
    rcases List.mem_cons.mp hx with hx | hx
    · rw [hx] at hn; split at hn <;> cases hn
    · rcases List.mem_append.mp hx with hx | hx
      · split at hx
        · simp only [List.mem_singleton] at hx
          rw [hx] at hn
          split at hn
          · cases hn
          · split at hn <;> cases hn
        · cases hx
      · exact foldl_cells_zero rc.diff neg (cell c) (hz c) rc.endDates ([], 0) rfl (by intro x hx; cases hx) x hx n hn

/-- **the rendered Delta row(s)**: every numeric cell is `0`. -/
theorem C01_delta_row_zero (cfg : BalCfg) (hu : Unfiltered cfg) (days : List Day) (hp : PairedDays days)
    (st : BalState) (h : Balance.run cfg days = .ok st) (rc : RenderCfg) (drawComm : Bool)
    (coms : List (Option Commodity)) (byCom : Bool) :
    ∀ row ∈ BalanceReport.renderVals rc drawComm 0 "Delta" false coms (BalanceReport.cellAt st.entries byCom),
      ∀ x ∈ row, ∀ n, x = Table.Cell.num n → n = 0 :=
  renderVals_zero rc drawComm 0 "Delta" false coms _ (fun c d => C01_delta_cells_zero cfg hu days hp st h byCom c d)

/-- a mapping whose rules all have level ≥ 1 (and any `--remap`) hides no account -/
theorem visible_of_levels (cfg : BalCfg) (hl : ∀ r ∈ cfg.mapping, 1 ≤ r.level) (a : Account) :
    (mapAccount cfg a).isSome = true := by
  unfold mapAccount shorten mappingLevel
  generalize (if cfg.remap a.name = true then swapType a else a) = a'
  cases hf : cfg.mapping.find? (fun r => r.test a'.name) with
  | none => rfl
  | some r =>
    have hr := hl r (List.mem_of_find?_eq_some hf)
    simp only
    have : ¬ r.level = 0 := by omega
    simp only [this, if_false]
    split
    · rfl
    · split <;> rfl

/-! Non-vacuity: a configuration without filters and mappings is `Unfiltered`, a journal of bookings is `PairedDays`. -/
example : Unfiltered { span := ⟨1, 10⟩, periods := [⟨1, 10⟩] } :=
  ⟨fun _ => rfl, fun _ => rfl, fun a => by simp [mapAccount, shorten, mappingLevel]⟩

example : PairedDays [{ date := 3, transactions := [Transaction.ofBookings 3 "x" none [⟨⟨["Equity", "E"]⟩, ⟨["Assets", "A"]⟩, 5, "CHF"⟩]] }] := by
  intro d hd t ht
  simp at hd; subst hd; simp at ht; subst ht
  exact ofBookings_paired _ _ _ _

end Knut.C01
