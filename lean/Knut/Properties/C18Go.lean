import Knut.Properties.C18
import Knut.FactsAgree.TransAtomic
/-!
# C18 on the translated `atomic.WriteFile`

`Properties/C18.lean` proves the all-or-nothing clauses about the hand-written protocol model `AtomicWrite.writeFile` (inside `rewriteFile`).
`FactsAgree/TransAtomic.lean` proves that the definition TRANSLATED from the source of `natefinch/atomic` (`Knut.Generated.Go.atomic.WriteFile`,
run from the world `(fs, scenario)`: `goRun`) ends in the model's file system with the model's outcome and passes through the model's states.
Here the clauses are restated about the translated function itself, for every file system, content, scenario and `tmp ≠ target`:

* `C18_invariant_go`        in EVERY state the translated run logs — hence after a crash at any operation and for every length at which the
                            write is cut short — the target is the old file or the complete new one (new bytes, old mode), never anything else
* `C18_error_means_old_go`  a non-nil `error` leaves every path but the temp name as it was, and removes the temp file unless the removal failed too
* `C18_ok_means_new_go`     nil means: the target holds the new bytes under the old mode (0600 if it did not exist), the temp file is gone,
                            nothing else changed
* `C18_every_prefix_is_a_state_go`  the logged states really include the temp file at every byte length that reaches the disk
* `C18_rewrite_go`          `formatFile` / `infer -i` with the translated writer in place of the model's: the clauses of `C18_invariant`,
                            `C18_error_means_old`, `C18_ok_means_new` (the read-and-render front end stays the model's: it is C08's / C15's subject)

The meaning of the operations (`GoSem/OsWorld.lean`) is the model's; what is new is that the ORDER of the operations, the error checks, the
named result and the deferred clean-up are no longer read off the library by hand but translated from it on every run.
-/
namespace Knut.C18Go
open Knut Knut.GoSem Knut.AtomicWrite Knut.FactsAgree.TransAtomic

/-- **all-or-nothing at every moment**, on the translated code -/
theorem C18_invariant_go (sc : Scenario) {tmp target : Path} (new : Bytes) (fs : FS) (hne : tmp ≠ target) :
    ∀ st ∈ (goRun sc tmp target new fs).1.states,
      FS.get st target = FS.get fs target ∨ FS.get st target = some (newFile fs target new) := by
  have hnt : target ≠ tmp := fun h => hne h.symm
  intro st hst
  have hm := (states_mem sc new fs hne st).mp hst
  obtain ⟨_, hall, hok, _⟩ := writeFile_spec sc new fs hne
  rcases hall st hm with h | ⟨rfl, ho⟩
  · exact Or.inl (h target hnt)
  · exact Or.inr (hok ho).1

/-- **a non-nil error means the old file** -/
theorem C18_error_means_old_go (sc : Scenario) {tmp target : Path} (new : Bytes) (fs : FS) (hne : tmp ≠ target) {e : Os.Err}
    (h : (goRun sc tmp target new fs).2 = some e) :
    (∀ p, p ≠ tmp → FS.get (goRun sc tmp target new fs).1.fs p = FS.get fs p) ∧
    (sc.unlinkFails = false → FS.get fs tmp = none → FS.get (goRun sc tmp target new fs).1.fs tmp = none) := by
  obtain ⟨op, _, hout⟩ := WriteFile_error sc new fs hne h
  rw [(WriteFile_agrees sc new fs hne).1]
  obtain ⟨_, _, _, herr⟩ := writeFile_spec sc new fs hne
  obtain ⟨h1, h2, h3⟩ := herr op hout
  refine ⟨h1, ?_⟩
  intro hu hfresh
  by_cases hop : op = .createTemp
  · rw [h3 hop]; exact hfresh
  · exact h2 hop hu

/-- **nil means the new file**, complete, with the mode of the old one, no temp file left, nothing else touched -/
theorem C18_ok_means_new_go (sc : Scenario) {tmp target : Path} (new : Bytes) (fs : FS) (hne : tmp ≠ target)
    (h : (goRun sc tmp target new fs).2 = none) :
    FS.get (goRun sc tmp target new fs).1.fs target = some (newFile fs target new) ∧
    FS.get (goRun sc tmp target new fs).1.fs tmp = none ∧
    ∀ p, p ≠ tmp → p ≠ target → FS.get (goRun sc tmp target new fs).1.fs p = FS.get fs p := by
  rw [(WriteFile_agrees sc new fs hne).1]
  obtain ⟨_, _, hok, _⟩ := writeFile_spec sc new fs hne
  exact hok ((WriteFile_ok_iff sc new fs hne).mp h)

/-- the translated run passes through every length of the temp file up to the bytes that reach the disk -/
theorem C18_every_prefix_is_a_state_go (sc : Scenario) {tmp target : Path} (new : Bytes) (fs : FS) (hne : tmp ≠ target)
    (hc : sc.fault ≠ some .createTemp) (j : Nat) (hj : j ≤ written sc new) :
    FS.set fs tmp ⟨new.take j, 0o600⟩ ∈ (goRun sc tmp target new fs).1.states :=
  (states_mem sc new fs hne _).mpr (Knut.C18.C18_every_prefix_is_a_state sc new fs hc j hj)

/-- `formatFile` / `infer -i` with the TRANSLATED writer: read, render (the model's front end), then `atomic.WriteFile` as translated.
Result: the logged states, the final file system, and whether the command reports an error for this file. -/
def rewriteFileGo (render : Bytes → Option Bytes) (sc : Scenario) (tmp target : Path) (fs : FS) : List FS × FS × Bool :=
  if sc.fault = some .read then ([fs], fs, true) else
  match FS.get fs target with
  | none => ([fs], fs, true)
  | some f =>
    match render f.content with
    | none => ([fs], fs, true)
    | some new =>
      let r := goRun sc tmp target new fs
      (r.1.states, r.1.fs, r.2.isSome)

/-- it is the model's `rewriteFile`: same final file system, same success, the same states -/
theorem rewriteFileGo_agrees (render : Bytes → Option Bytes) (sc : Scenario) {tmp target : Path} (fs : FS) (hne : tmp ≠ target) :
    (rewriteFileGo render sc tmp target fs).2.1 = (rewriteFile render sc tmp target fs).final ∧
    ((rewriteFileGo render sc tmp target fs).2.2 = false ↔ (rewriteFile render sc tmp target fs).outcome = .ok) ∧
    ∀ st, st ∈ (rewriteFileGo render sc tmp target fs).1 ↔ st ∈ (rewriteFile render sc tmp target fs).states () := by
  by_cases hr : sc.fault = some .read
  · simp [rewriteFileGo, rewriteFile, hr]
  · cases hg : FS.get fs target with
    | none => simp [rewriteFileGo, rewriteFile, hr, hg]
    | some f =>
      cases hrn : render f.content with
      | none => simp [rewriteFileGo, rewriteFile, hr, hg, hrn]
      | some new =>
        simp only [rewriteFileGo, rewriteFile, hr, hg, hrn, if_false]
        refine ⟨(WriteFile_agrees sc new fs hne).1, ?_, fun st => states_mem sc new fs hne st⟩
        rw [← WriteFile_ok_iff sc new fs hne]
        cases (goRun sc tmp target new fs).2 <;> simp

/-- **C18 on the command with the translated writer**: at every moment the target is the old or the complete new file; an error leaves
every path but the temp name as it was; success installs the rendered content with the old mode and leaves no temp file. -/
theorem C18_rewrite_go (render : Bytes → Option Bytes) (sc : Scenario) {tmp target : Path} (fs : FS) (hne : tmp ≠ target) :
    (∀ st ∈ (rewriteFileGo render sc tmp target fs).1,
      FS.get st target = FS.get fs target ∨
      ∃ f new, FS.get fs target = some f ∧ render f.content = some new ∧ FS.get st target = some ⟨new, f.mode⟩) ∧
    ((rewriteFileGo render sc tmp target fs).2.2 = true →
      ∀ p, p ≠ tmp → FS.get (rewriteFileGo render sc tmp target fs).2.1 p = FS.get fs p) ∧
    ((rewriteFileGo render sc tmp target fs).2.2 = false →
      ∃ f new, FS.get fs target = some f ∧ render f.content = some new ∧
        FS.get (rewriteFileGo render sc tmp target fs).2.1 target = some ⟨new, f.mode⟩ ∧
        FS.get (rewriteFileGo render sc tmp target fs).2.1 tmp = none) := by
  obtain ⟨hfin, hok, hst⟩ := rewriteFileGo_agrees render sc fs hne
  refine ⟨fun st h => Knut.C18.C18_invariant render sc fs hne st ((hst st).mp h), ?_, ?_⟩
  · intro herr
    rw [hfin]
    cases ho : (rewriteFile render sc tmp target fs).outcome with
    | ok => rw [hok.mpr ho] at herr; cases herr
    | error op => exact (Knut.C18.C18_error_means_old render sc fs hne ho).1
  · intro h
    rw [hfin]
    exact Knut.C18.C18_ok_means_new render sc fs hne (hok.mp h)

end Knut.C18Go
