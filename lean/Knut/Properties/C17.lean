import Knut.Proofs.TableLayout
import Knut.Proofs.TableCsv
import Knut.Proofs.TableRound
/-!
# C17 — Rendered balance tables are rectangular and numerically faithful

Property (fixed): every line of a text balance report has the same width with column separators
vertically aligned; each numeric cell, after removing thousands separators, equals the underlying
amount (divided by 1000 with `--thousands`) rounded half away from zero to the requested number of
digits, negative amounts carry a minus sign and zero amounts are blank.  The CSV rendering carries
the exact unrounded amounts in the same row and column positions.

The statements are about `Knut.Table` (the model of `lib/common/table`: `TextRenderer.Render`,
`numToString`, `addThousandsSep`, `CSVRenderer.Render` with `encoding/csv.Writer`) and use the
executable predicates of `Knut.Table.Spec`, which the monitor evaluates on the real code's output.
They hold for all tables whose rows have a common number `n ≥ 1` of cells (`uniform`; the balance
report fills every row to the table width) with non-negative indents and texts without line
breaks (`plain`), for all amounts, all `--digits` values (any `Int`), `--thousands` on and off.

Only property theorems and their non-vacuity examples live here.
-/
namespace Knut.C17
open Knut Knut.Dec Knut.Table Knut.Table.Spec

/-! ## lines -/

/-- **rectangular**: `Render` does not panic and all lines have the same width (in runes). -/
theorem C17_rectangular (r : Renderer) (t : Table) (n : Nat) (hu : uniform n t = true) (hp : plain t = true) :
    ∃ ls, renderLines r t = .ok ls ∧ rectLines ls = true := by
  obtain ⟨W, ls, _, hl, hc⟩ := renderLines_conforms false r t n hu hp (by simp)
  exact ⟨ls, hl, rectLines_of_conformsAll false r W n t.rows ls hc (uniform_spec hu).2.2⟩

/-- **column separators vertically aligned**: there are `n + 1` character columns that hold a
separator (`|` or `+`) on every line. -/
theorem C17_separators_aligned (r : Renderer) (t : Table) (n : Nat) (hu : uniform n t = true) (hp : plain t = true) :
    ∃ ls, renderLines r t = .ok ls ∧ alignedOK n ls = true := by
  obtain ⟨W, ls, _, hl, hc⟩ := renderLines_conforms false r t n hu hp (by simp)
  exact ⟨ls, hl, alignedOK_of_conformsAll false r W n t.rows ls hc (uniform_spec hu).2.2⟩

/-- the same, naming the columns: with the final widths `W` the separator columns are `0` and the
column after each of the `n` slots (`lineBounds n W`: `n + 1` distinct positions), on every line. -/
theorem C17_separator_columns (r : Renderer) (t : Table) (n : Nat) (hu : uniform n t = true) (hp : plain t = true) :
    ∃ W ls, finalWidths r t = some W ∧ renderLines r t = .ok ls ∧
      (lineBounds n W).Nodup ∧ ((ls ≠ []) → (lineBounds n W).length = n + 1) ∧
      ∀ l ∈ ls, ∀ p ∈ lineBounds n W, sepAt l p = true := by
  obtain ⟨W, ls, hW, hl, hc⟩ := renderLines_conforms false r t n hu hp (by simp)
  have hn := (uniform_spec hu).2.2
  have key : ∀ (rows : List (List Cell)) (ls : List (List Char)), conformsAll false r W rows ls = true →
      (∀ row ∈ rows, row.length = n) →
      ∀ l ∈ ls, (lineBounds n W).length = n + 1 ∧ ∀ p ∈ lineBounds n W, sepAt l p = true := by
    intro rows
    induction rows with
    | nil => intro ls h _ l hl; cases ls <;> simp [conformsAll] at h hl
    | cons row rows ih =>
      intro ls h hn l hl
      cases ls with
      | nil => simp [conformsAll] at h
      | cons l' ls' =>
        simp only [conformsAll, Bool.and_eq_true] at h
        rcases List.mem_cons.mp hl with rfl | hl
        · have := conformsRow_sep false r W row _ h.1
          rw [hn row (by simp)] at this
          exact this
        · exact ih ls' h.2 (fun y hy => hn y (by simp [hy])) l hl
  have hall := key t.rows ls hc hn
  refine ⟨W, ls, hW, hl, lineBounds_nodup n W, ?_, fun l hl => (hall l hl).2⟩
  intro hne
  cases ls with
  | nil => exact absurd rfl hne
  | cons l0 _ => exact (hall l0 (by simp)).1

/-- the bytes written are those lines, each ended by a line feed, and one more line feed; the
monitor's line splitter recovers exactly them. -/
theorem C17_text_bytes (r : Renderer) (t : Table) (n : Nat) (hu : uniform n t = true) (hp : plain t = true) :
    ∃ ls, renderText r t = .ok (joinLines ls) ∧ renderLines r t = .ok ls ∧ tableLines (joinLines ls) = some ls := by
  obtain ⟨_, ls, _, hl, _⟩ := renderLines_conforms false r t n hu hp (by simp)
  exact ⟨ls, by simp [renderText, hl], hl, tableLines_joinLines ls (renderLines_noNL r t ls hp hl)⟩

/-- **the panic outcomes, under exactly the guards the code has**: `Render` completes iff every row
has at least one cell (`row.cells[0]`) and at most as many cells as the table has columns
(`widths[i]`); the balance report only builds such rows. -/
theorem C17_render_completes_iff (r : Renderer) (t : Table) :
    (∃ ls, renderLines r t = .ok ls) ↔ ∀ row ∈ t.rows, row ≠ [] ∧ row.length ≤ t.width :=
  renderLines_ok_iff r t

/-- **every line is lead, slots of the column widths, separators, trail, and every slot shows its
cell** — for numeric cells: blank for zero, otherwise the text that, without separators, reads as
the value the code computes (`Div` to 16 places with `--thousands`, then rounding half away from
zero to `--digits`), signed like that value, grouped in threes, with `--digits` fractional digits.
The whole-text predicate of the monitor with the final widths as witness. -/
theorem C17_text_conforms (r : Renderer) (t : Table) (n : Nat) (hu : uniform n t = true) (hp : plain t = true) :
    ∃ W ls, finalWidths r t = some W ∧ renderLines r t = .ok ls ∧ textOKWith false r t n W ls = true := by
  obtain ⟨W, ls, hW, hl, hc⟩ := renderLines_conforms false r t n hu hp (by simp)
  refine ⟨W, ls, hW, hl, ?_⟩
  unfold textOKWith
  rw [rectLines_of_conformsAll false r W n t.rows ls hc (uniform_spec hu).2.2,
    alignedOK_of_conformsAll false r W n t.rows ls hc (uniform_spec hu).2.2, hc]
  rfl

/-- **the property's sentence** (exact quotient by 1000): the same with `exactTarget` as the value
shown, whenever `--thousands` is off or every amount has at most 13 decimal places. -/
theorem C17_text_conforms_exact (r : Renderer) (t : Table) (n : Nat) (hu : uniform n t = true) (hp : plain t = true)
    (hex : tableExact r t) :
    ∃ W ls, finalWidths r t = some W ∧ renderLines r t = .ok ls ∧ textOKWith true r t n W ls = true := by
  obtain ⟨W, ls, hW, hl, hc⟩ := renderLines_conforms true r t n hu hp (fun _ => hex)
  refine ⟨W, ls, hW, hl, ?_⟩
  unfold textOKWith
  rw [rectLines_of_conformsAll true r W n t.rows ls hc (uniform_spec hu).2.2,
    alignedOK_of_conformsAll true r W n t.rows ls hc (uniform_spec hu).2.2, hc]
  rfl

/-! ## numbers -/

/-- **numeric value**, unconditional form: without the separators the text of an amount reads as
`Round(digits)` of the amount, resp. of `Div(amount, 1000)`. -/
theorem C17_num_value (r : Renderer) (d : Rat) :
    parseDec (String.ofList (stripCommas (numToString r d))) = some (roundPlaces r.round (scaled r d)) := by
  rw [stripCommas_numToString, parseDec_showFixed]

/-- **numeric value**, the property's sentence: the amount divided by 1000 *exactly*, for amounts
with at most 13 decimal places (every amount knut computes from valuations has at most 8). -/
theorem C17_num_value_exact (r : Renderer) (d : Rat) (h : r.thousands = false ∨ thousandsExact d = true) :
    parseDec (String.ofList (stripCommas (numToString r d))) = some (exactTarget r d) := by
  rw [C17_num_value, target_eq r d h]; rfl

/-- **numeric value, every amount**: since the repair `93a24c8` (`Shift(-3)` instead of `Div(1000)`) the quotient
by 1000 is exact, so the property's sentence holds without any restriction on the number of decimal places. -/
theorem C17_num_value_exact_all (r : Renderer) (d : Rat) :
    parseDec (String.ofList (stripCommas (numToString r d))) = some (exactTarget r d) :=
  C17_num_value r d

/-- the witness of the former defect `thousands-with-more-than-13-decimals` (fixed): 499.99999999999999999 with
`-k --digits 0` is now printed as `0`, the exactly divided amount rounded once (the old code, rounding the
quotient to 16 places first, printed `1`; `div16` is that old quotient). -/
theorem C17_no_double_rounding :
    numToString ⟨true, 0⟩ (mkRat 49999999999999999999 100000000000000000) = ['0'] ∧
    exactTarget ⟨true, 0⟩ (mkRat 49999999999999999999 100000000000000000) = 0 ∧
    roundPlaces 0 (div16 (mkRat 49999999999999999999 100000000000000000) 1000) = 1 := by
  refine ⟨?_, ?_, ?_⟩ <;> decide +kernel

/-- **minus sign**: the text starts with `-` exactly when the displayed (rounded) value is negative. -/
theorem C17_sign (r : Renderer) (d : Rat) :
    (numToString r d).head? = some '-' ↔ roundPlaces r.round (scaled r d) < 0 :=
  head_numToString r d

/-- **rounded half away from zero**, spelled out: for `--digits = n ≥ 0` the value shown is
`m / 10ⁿ` with `m` an integer nearest to `x·10ⁿ` (`x` the amount, resp. `Div(amount, 1000)`):
`|x.num·10ⁿ − m·x.den| ≤ x.den / 2`, at a tie `m` is the one farther from zero, and `m` has the sign
of `x` or is zero. -/
theorem C17_round_half_away (r : Renderer) (d : Rat) (n : Nat) (hn : r.round = (n : Int)) :
    ∃ m : Int, roundPlaces r.round (scaled r d) = mkRat m (10 ^ n) ∧
      2 * ((scaled r d).num * pow10 n - m * (scaled r d).den).natAbs ≤ (scaled r d).den ∧
      (2 * ((scaled r d).num * pow10 n - m * (scaled r d).den).natAbs = (scaled r d).den →
        ((scaled r d).num * pow10 n).natAbs < (m * (scaled r d).den).natAbs) ∧
      (0 ≤ (scaled r d).num → 0 ≤ m) ∧ ((scaled r d).num ≤ 0 → m ≤ 0) := by
  refine ⟨scaledRound n (scaled r d), ?_, scaledRound_spec n (scaled r d)⟩
  simp [roundPlaces, hn, roundHalfAway]

/-- **negative amounts**: a negative amount is displayed with a minus sign, or (when it rounds to
zero) as an unsigned zero. -/
theorem C17_negative_minus_or_zero (r : Renderer) (d : Rat) (h : d < 0) :
    (numToString r d).head? = some '-' ∨ roundPlaces r.round (scaled r d) = 0 :=
  negative_minus_or_zero r d h

/-- **blank**: a numeric cell is blank exactly when the (unrounded) amount is zero … -/
theorem C17_blank (r : Renderer) (d : Rat) (w : Nat) :
    allSpaces (renderCell r (.num d) w) = true ↔ d = 0 :=
  numCell_blank_iff r d w

/-- … so a non-zero amount that rounds to zero is shown as an unsigned zero, not blank and not
with a minus sign (`-0.4` at `--digits 0` is `0`): the property's "negative amounts carry a minus
sign" holds of the displayed value (`C17_sign`), not of the underlying amount. -/
theorem C17_negative_rounding_to_zero_witness :
    renderCell ⟨false, 0⟩ (.num (mkRat (-4) 10)) 3 = "  0".toList ∧
    renderCell ⟨false, 2⟩ (.num (mkRat (-4) 1000)) 5 = " 0.00".toList := by
  constructor <;> decide +kernel

/-- **grouping**: the integer part is the digit string with a comma before every group of three
(the independent grouper `groupLeft`), the fraction has digits only … -/
theorem C17_grouping (r : Renderer) (d : Rat) : groupedOK (numToString r d) = true :=
  groupedOK_numToString r d

/-- … and exactly `--digits` of them (none, and no point, for `--digits ≤ 0`). -/
theorem C17_fraction_digits (r : Renderer) (d : Rat) : fracOK r.round (numToString r d) = true :=
  fracOK_numToString r d

/-- the separators are commas only: removing them gives back `StringFixed` verbatim. -/
theorem C17_only_commas_inserted (r : Renderer) (d : Rat) :
    String.ofList (stripCommas (numToString r d)) = showFixed r.round (scaled r d) :=
  stripCommas_numToString r d

/-- all four number clauses as the one predicate the monitor evaluates per numeric cell. -/
theorem C17_num_shown (r : Renderer) (d : Rat) :
    numShownAs r.round (codeTarget r d) (numToString r d) = true :=
  numShownAs_numToString r d

/-! ## CSV -/

/-- **CSV carries the exact amounts in the same positions**: the records are the non-blank rows in
order; field `j` of a record is cell `j` of its row — texts verbatim, amounts as the decimal that
reads back to the *unrounded* amount (for every decimal amount). -/
theorem C17_csv_positions (t : Table) (hd : ∀ row ∈ t.rows, ∀ c ∈ row, cellDecimal c) :
    csvOK t.rows (csvRecords t) = true :=
  csvOK_records t.rows hd

/-- the hypothesis of `C17_csv_positions` holds of every decimal fraction `a / 10^k`, i.e. of every
`decimal.Decimal`: its CSV field reads back as exactly that amount. -/
theorem C17_csv_amount_exact (a : Int) (k : Nat) :
    parseDec (String.ofList (csvCell (.num (mkRat a (10 ^ k))))) = some (mkRat a (10 ^ k)) := by
  simp only [csvCell, String.ofList_toList]
  exact parseDec_showDec _ (isDecimal_mkRat a k)

/-- the bytes written by `encoding/csv` parse back to exactly those records (quoting of commas,
quotes, line breaks and leading blanks loses nothing). -/
theorem C17_csv_roundtrip (t : Table) : parseCSV (renderCSV t) = some (csvRecords t) := by
  unfold parseCSV renderCSV
  rw [records_parse (csvRecords t) []]
  · simp
  · intro rec hrec
    unfold csvRecords at hrec
    rw [List.mem_filter] at hrec
    intro h
    rw [h] at hrec
    simp at hrec

/-- together: the CSV text satisfies the monitor's predicate. -/
theorem C17_csv_text (t : Table) (hd : ∀ row ∈ t.rows, ∀ c ∈ row, cellDecimal c) :
    csvTextOK t (renderCSV t) = true := by
  unfold csvTextOK
  rw [C17_csv_roundtrip]
  exact C17_csv_positions t hd

/-! ## Non-vacuity: a small balance-shaped table (header, an account with a multi-byte name, amounts
that carry across a thousands group and round to zero) satisfies the hypotheses, renders, and the
predicates hold of the rendering. -/

def demo : Table :=
  { columns := [0, 1, 2, 2],
    rows := [
      [.sep, .sep, .sep, .sep],
      [.text "Account".toList .center 0, .text "Comm".toList .center 0, .text "2020-01-31".toList .center 0, .text "2020-02-29".toList .center 0],
      [.text "Bär".toList .left 2, .text "CHF".toList .left 0, .num (mkRat 9999995 10), .num (mkRat (-4) 10)],
      [.empty, .empty, .empty, .empty] ] }

example : uniform 4 demo = true ∧ plain demo = true := by decide +kernel
example : ∃ ls, renderLines ⟨false, 0⟩ demo = .ok ls ∧ ls.length = 4 := by
  obtain ⟨ls, h, _⟩ := C17_rectangular ⟨false, 0⟩ demo 4 (by decide +kernel) (by decide +kernel)
  refine ⟨ls, h, ?_⟩
  have : renderLines ⟨false, 0⟩ demo = .ok
      ["+---------+------+------------+------------+".toList,
       "| Account | Comm | 2020-01-31 | 2020-02-29 |".toList,
       "|   Bär   | CHF  |  1,000,000 |          0 |".toList,
       "|         |      |            |            |".toList] := by decide +kernel
  rw [this] at h
  cases h; rfl
example : numToString ⟨true, 2⟩ (mkRat (-1234567895) 1000) = "-1,234.57".toList := by decide +kernel
example : csvTextOK demo (renderCSV demo) = true := by decide +kernel

end Knut.C17
