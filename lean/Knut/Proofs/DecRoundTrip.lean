import Knut.Basic.Dec
/-!
# Decimal text round trip (helper lemmas for C09; also the decimal clause of C17)

`showScaled m k` (the body of shopspring's `String()`/`StringFixed`) has the shape
`-? digits (. digits{k})?`; read back with `parseDec` (`NewFromString` on the journal grammar's decimals)
it yields `m / 10^k` exactly.  `showDec r` (`String()`) chooses `k = scaleOf r`, the least `k` with
`r.den ∣ 10^k` (found by a search with fuel `r.den`, proved sufficient in `dvd_pow10_self`), so it re-reads
to `r` for every decimal rational.

Digits: `natDigits n = toString n`, and core proves `toString n = String.ofList (Nat.toDigits 10 n)`
(`Nat.toString_eq_repr`, `Nat.repr_eq_ofList_toDigits`), that these are digit characters
(`Nat.isDigit_of_mem_toDigits`) and that they read back to `n` (`Nat.ofDigitChars_ten_toDigits`).  So the
round trip is proved for the REAL `toString`, no substitute digit function is used.

The first part (up to `parseDec_showScaled`) is the same development as in `Proofs/TableNum.lean`
(namespace `Knut.Table`, C17); it is repeated here in namespace `Knut.Dec` so that C09 does not depend on
the table model.
-/
namespace Knut.Dec

theorem isDigit_eq (c : Char) : Knut.Dec.isDigit c = c.isDigit := by
  simp [Knut.Dec.isDigit, Char.isDigit, Char.le_def]

/-- decimal digits of a natural number, most significant first -/
abbrev digitsOf (n : Nat) : List Char := Nat.toDigits 10 n

def fracPart (k fp : Nat) : List Char :=
  if k = 0 then [] else '.' :: (List.replicate (k - (digitsOf fp).length) '0' ++ digitsOf fp)

def signPart (m : Int) : List Char := if m < 0 then ['-'] else []

theorem showScaled_toList (m : Int) (k : Nat) :
    (showScaled m k).toList =
      signPart m ++ digitsOf (m.natAbs / 10 ^ k) ++ fracPart k (m.natAbs % 10 ^ k) := by
  unfold showScaled signPart fracPart natDigits padLeftZeros
  by_cases hm : m < 0 <;> by_cases hk : k = 0 <;>
    simp [hm, hk, String.toList_append, Nat.toString_eq_repr, Nat.repr_eq_ofList_toDigits, String.length_ofList]


def parseUnsigned (neg : Bool) (cs : List Char) : Option Rat :=
  let ip := cs.takeWhile isDigit
  let rest := cs.dropWhile isDigit
  if ip.isEmpty then none else
  match rest with
  | [] =>
    let v : Int := digitsToNat ip
    some ((if neg then -v else v : Int) : Rat)
  | '.' :: fp =>
    if fp.isEmpty || !fp.all isDigit then none else
    let v : Int := digitsToNat (ip ++ fp)
    some (mkRat (if neg then -v else v) (10 ^ fp.length))
  | _ => none

theorem parseDec_neg (s : String) (rest : List Char) (h : s.toList = '-' :: rest) :
    parseDec s = parseUnsigned true rest := by
  unfold parseDec parseUnsigned
  simp only [h]
  rfl

theorem signSplit (cs : List Char) :
    cs.head? ≠ some '-' → (match cs with | '-' :: rest => (true, rest) | _ => (false, cs)) = (false, cs) := by
  intro h
  split
  · simp at h
  · rfl

theorem parseDec_nonneg (s : String) (h : s.toList.head? ≠ some '-') :
    parseDec s = parseUnsigned false s.toList := by
  unfold parseDec
  generalize s.toList = cs at h
  cases cs with
  | nil => rfl
  | cons c rest =>
    have hc : c ≠ '-' := by simpa using h
    simp only []
    split
    · rename_i heq
      cases heq; exact absurd rfl hc
    · rfl


theorem digitsOf_isDigit {n : Nat} {c : Char} (h : c ∈ digitsOf n) : isDigit c = true := by
  rw [isDigit_eq]; exact Nat.isDigit_of_mem_toDigits (by decide) (by decide) h

theorem digitsOf_ne_nil (n : Nat) : digitsOf n ≠ [] := Nat.toDigits_ne_nil

theorem digitsToNat_eq (cs : List Char) : digitsToNat cs = Nat.ofDigitChars 10 cs 0 := by
  unfold digitsToNat Nat.ofDigitChars
  congr 1
  funext acc c
  rw [Nat.mul_comm]

theorem digitsToNat_digitsOf (n : Nat) : digitsToNat (digitsOf n) = n := by
  rw [digitsToNat_eq]; exact Nat.ofDigitChars_ten_toDigits

theorem digitsOf_length_le {n k : Nat} (hk : 0 < k) (h : n < 10 ^ k) : (digitsOf n).length ≤ k :=
  (Nat.length_toDigits_le_iff (by decide) hk).mpr h

/-- the digits after the point: exactly `k`, all decimal digits -/
def fracDigits (k fp : Nat) : List Char := List.replicate (k - (digitsOf fp).length) '0' ++ digitsOf fp

theorem fracDigits_length {k fp : Nat} (hk : 0 < k) (h : fp < 10 ^ k) : (fracDigits k fp).length = k := by
  have := digitsOf_length_le hk h
  simp [fracDigits]; omega

theorem fracDigits_isDigit {k fp : Nat} {c : Char} (h : c ∈ fracDigits k fp) : isDigit c = true := by
  simp only [fracDigits, List.mem_append, List.mem_replicate] at h
  rcases h with ⟨_, rfl⟩ | h
  · decide
  · exact digitsOf_isDigit h

theorem digitsToNat_shape (ip k fp : Nat) (hk : 0 < k) (h : fp < 10 ^ k) :
    digitsToNat (digitsOf ip ++ fracDigits k fp) = ip * 10 ^ k + fp := by
  have hl := digitsOf_length_le hk h
  rw [digitsToNat_eq, Nat.ofDigitChars_append, Nat.ofDigitChars_ten_toDigits, fracDigits,
    Nat.ofDigitChars_append, Nat.ofDigitChars_replicate_zero, Nat.ofDigitChars_eq_ofDigitChars_zero,
    Nat.ofDigitChars_ten_toDigits, ← Nat.mul_assoc, ← Nat.pow_add]
  have : (digitsOf fp).length + (k - (digitsOf fp).length) = k := by omega
  rw [this, Nat.mul_comm]

theorem mkRat_one (z : Int) : mkRat z 1 = (z : Rat) := by
  apply Rat.ext <;> simp [Rat.num_mkRat, Rat.den_mkRat]

theorem fracPart_eq (k fp : Nat) : fracPart k fp = if k = 0 then [] else '.' :: fracDigits k fp := rfl

theorem parseUnsigned_shape (neg : Bool) (a k : Nat) :
    parseUnsigned neg (digitsOf (a / 10 ^ k) ++ fracPart k (a % 10 ^ k)) =
      some (mkRat (if neg then -(a : Int) else a) (10 ^ k)) := by
  have hD : ∀ c ∈ digitsOf (a / 10 ^ k), isDigit c = true := fun c hc => digitsOf_isDigit hc
  unfold parseUnsigned
  rw [fracPart_eq]
  by_cases hk : k = 0
  · subst hk
    simp only [if_true, List.append_nil, Nat.pow_zero, Nat.div_one]
    have h1 : List.takeWhile isDigit (digitsOf a) = digitsOf a := by
      have := List.takeWhile_append_of_pos (l₂ := []) hD
      simpa using this
    have h2 : List.dropWhile isDigit (digitsOf a) = [] := by
      have := List.dropWhile_append_of_pos (l₂ := []) hD
      simpa using this
    simp only [h1, h2, digitsToNat_digitsOf]
    have : (digitsOf a).isEmpty = false := by simp
    simp only [this, Bool.false_eq_true, if_false]
    rw [mkRat_one]
  · have hk' : 0 < k := Nat.pos_of_ne_zero hk
    have hfp : a % 10 ^ k < 10 ^ k := Nat.mod_lt _ (Nat.pow_pos (by decide))
    simp only [hk, if_false]
    have h1 : List.takeWhile isDigit (digitsOf (a / 10 ^ k) ++ '.' :: fracDigits k (a % 10 ^ k)) = digitsOf (a / 10 ^ k) := by
      rw [List.takeWhile_append_of_pos hD]; simp [isDigit]
    have h2 : List.dropWhile isDigit (digitsOf (a / 10 ^ k) ++ '.' :: fracDigits k (a % 10 ^ k)) = '.' :: fracDigits k (a % 10 ^ k) := by
      rw [List.dropWhile_append_of_pos hD]; simp [isDigit]
    simp only [h1, h2]
    have h3 : (digitsOf (a / 10 ^ k)).isEmpty = false := by simp
    have h4 : (fracDigits k (a % 10 ^ k)).isEmpty = false := by
      have := fracDigits_length hk' hfp
      cases hh : fracDigits k (a % 10 ^ k) with
      | nil => rw [hh] at this; simp at this; omega
      | cons _ _ => rfl
    have h5 : (fracDigits k (a % 10 ^ k)).all isDigit = true := by
      rw [List.all_eq_true]; exact fun c hc => fracDigits_isDigit hc
    simp only [h3, h4, h5, Bool.false_eq_true, if_false, Bool.not_true, Bool.or_self,
      digitsToNat_shape _ _ _ hk' hfp, fracDigits_length hk' hfp]
    congr 2
    have := Nat.div_add_mod a (10 ^ k)
    rw [Nat.mul_comm] at this
    rw [this]


theorem head_digitsOf_ne_minus (n : Nat) (T : List Char) : (digitsOf n ++ T).head? ≠ some '-' := by
  cases h : digitsOf n with
  | nil => exact absurd h (digitsOf_ne_nil n)
  | cons c cs =>
    have : isDigit c = true := digitsOf_isDigit (h ▸ List.mem_cons_self)
    intro hh
    simp at hh
    subst hh
    simp [isDigit] at this

theorem parseDec_showScaled (m : Int) (k : Nat) : parseDec (showScaled m k) = some (mkRat m (10 ^ k)) := by
  have hl := showScaled_toList m k
  by_cases hm : m < 0
  · have : (showScaled m k).toList = '-' :: (digitsOf (m.natAbs / 10 ^ k) ++ fracPart k (m.natAbs % 10 ^ k)) := by
      rw [hl]; simp [signPart, hm]
    rw [parseDec_neg _ _ this, parseUnsigned_shape]
    simp only [if_true]
    congr 2
    omega
  · have : (showScaled m k).toList = digitsOf (m.natAbs / 10 ^ k) ++ fracPart k (m.natAbs % 10 ^ k) := by
      rw [hl]; simp [signPart, hm]
    rw [parseDec_nonneg _ (by rw [this]; exact head_digitsOf_ne_minus _ _), this, parseUnsigned_shape]
    simp only [Bool.false_eq_true, if_false]
    congr 2
    omega

/-- a divisor of a power of ten divides `10 ^ itself` (so `findScale`'s fuel `den` is enough) -/
theorem dvd_pow10_self : ∀ (d K : Nat), d ∣ 10 ^ K → d ∣ 10 ^ d := by
  intro d
  induction d using Nat.strongRecOn with
  | _ d ih =>
    intro K h
    have hd0 : d ≠ 0 := by
      intro h0; subst h0
      have := Nat.eq_zero_of_zero_dvd h
      have : 0 < 10 ^ K := Nat.pow_pos (by decide)
      omega
    by_cases h2 : 2 ∣ d
    · obtain ⟨e, rfl⟩ := h2
      have he : e ∣ 10 ^ e := ih e (by omega) K (Nat.dvd_trans ⟨2, Nat.mul_comm _ _⟩ h)
      have h1 : 2 * e ∣ 10 ^ (e + 1) := by
        rw [Nat.pow_succ, Nat.mul_comm (10 ^ e) 10]
        exact Nat.mul_dvd_mul ⟨5, rfl⟩ he
      exact Nat.dvd_trans h1 (Nat.pow_dvd_pow 10 (by omega))
    · by_cases h5 : 5 ∣ d
      · obtain ⟨e, rfl⟩ := h5
        have he : e ∣ 10 ^ e := ih e (by omega) K (Nat.dvd_trans ⟨5, Nat.mul_comm _ _⟩ h)
        have h1 : 5 * e ∣ 10 ^ (e + 1) := by
          rw [Nat.pow_succ, Nat.mul_comm (10 ^ e) 10]
          exact Nat.mul_dvd_mul ⟨2, rfl⟩ he
        exact Nat.dvd_trans h1 (Nat.pow_dvd_pow 10 (by omega))
      · have c2 : Nat.Coprime d 2 := by
          have hg : Nat.gcd d 2 ∣ 2 := Nat.gcd_dvd_right d 2
          have hg' : Nat.gcd d 2 ∣ d := Nat.gcd_dvd_left d 2
          have hle : Nat.gcd d 2 ≤ 2 := Nat.le_of_dvd (by decide) hg
          have hpos : 0 < Nat.gcd d 2 := Nat.gcd_pos_of_pos_right _ (by decide)
          unfold Nat.Coprime
          by_cases hh : Nat.gcd d 2 = 2
          · rw [hh] at hg'; exact absurd hg' h2
          · omega
        have c5 : Nat.Coprime d 5 := by
          have hg : Nat.gcd d 5 ∣ 5 := Nat.gcd_dvd_right d 5
          have hg' : Nat.gcd d 5 ∣ d := Nat.gcd_dvd_left d 5
          have hle : Nat.gcd d 5 ≤ 5 := Nat.le_of_dvd (by decide) hg
          have hpos : 0 < Nat.gcd d 5 := Nat.gcd_pos_of_pos_right _ (by decide)
          unfold Nat.Coprime
          generalize Nat.gcd d 5 = g at *
          have : g = 1 ∨ g = 2 ∨ g = 3 ∨ g = 4 ∨ g = 5 := by omega
          rcases this with rfl | rfl | rfl | rfl | rfl
          · rfl
          · omega
          · omega
          · omega
          · exact absurd hg' h5
        have c10 : Nat.Coprime d (10 ^ K) := Nat.Coprime.pow_right K (Nat.Coprime.mul_right c2 c5)
        have : d = 1 := Nat.Coprime.eq_one_of_dvd c10 h
        subst this; exact Nat.one_dvd _

theorem findScale_spec (den : Nat) : ∀ (fuel k : Nat),
    k ≤ findScale den fuel k ∧ findScale den fuel k ≤ k + fuel ∧
      (den ∣ 10 ^ findScale den fuel k ∨ findScale den fuel k = k + fuel)
  | 0, k => by simp [findScale]
  | fuel + 1, k => by
    unfold findScale
    split
    · rename_i h
      exact ⟨Nat.le_refl _, by omega, Or.inl (Nat.dvd_of_mod_eq_zero h)⟩
    · have := findScale_spec den fuel (k + 1)
      omega

/-- a decimal rational's denominator divides `10 ^ scaleOf r` -/
theorem den_dvd_scaleOf (r : Rat) (K : Nat) (h : r.den ∣ 10 ^ K) : r.den ∣ 10 ^ scaleOf r := by
  unfold scaleOf
  rcases (findScale_spec r.den r.den 0).2.2 with h1 | h1
  · exact h1
  · rw [h1, Nat.zero_add]; exact dvd_pow10_self _ K h

/-- `scaleOf` is the least such exponent: `String()` prints no more decimals than needed -/
theorem findScale_min (den : Nat) : ∀ (fuel k j : Nat), k ≤ j → j < findScale den fuel k → ¬ den ∣ 10 ^ j
  | 0, k, j, h1, h2 => by simp [findScale] at h2; omega
  | fuel + 1, k, j, h1, h2 => by
    unfold findScale at h2
    split at h2
    · omega
    · rename_i hk
      by_cases hj : j = k
      · subst hj; intro hd; exact hk (Nat.mod_eq_zero_of_dvd hd)
      · exact findScale_min den fuel (k + 1) j (by omega) h2

theorem scaleOf_min (r : Rat) (j : Nat) (h : j < scaleOf r) : ¬ r.den ∣ 10 ^ j :=
  findScale_min r.den r.den 0 j (Nat.zero_le _) h

/-- the scaled numerator `String()` prints is exact for a decimal rational -/
theorem mkRat_scaled (r : Rat) (k : Nat) (h : r.den ∣ 10 ^ k) :
    mkRat (r.num * pow10 k / r.den) (10 ^ k) = r := by
  obtain ⟨c, hc⟩ := h
  have hc0 : c ≠ 0 := by
    intro h0; subst h0
    have : 0 < 10 ^ k := Nat.pow_pos (by decide)
    omega
  have hden : (r.den : Int) ≠ 0 := by have := r.den_pos; omega
  have e1 : pow10 k = (r.den : Int) * (c : Int) := by
    unfold pow10
    have : ((10 ^ k : Nat) : Int) = ((r.den * c : Nat) : Int) := by rw [hc]
    simpa using this
  have e2 : r.num * pow10 k / (r.den : Int) = r.num * (c : Int) := by
    rw [e1, ← Int.mul_assoc, Int.mul_comm r.num, Int.mul_assoc, Int.mul_ediv_cancel_left _ hden]
  rw [e2, hc, Rat.mkRat_mul_right hc0, Rat.mkRat_self]

/-- `String()` then `NewFromString` is the identity on decimal rationals -/
theorem parseDec_showDec (r : Rat) (K : Nat) (h : r.den ∣ 10 ^ K) : parseDec (showDec r) = some r := by
  unfold showDec
  simp only [parseDec_showScaled, mkRat_scaled r (scaleOf r) (den_dvd_scaleOf r K h)]

theorem den_mkRat_pow10_dvd (m : Int) (k : Nat) : (mkRat m (10 ^ k)).den ∣ 10 ^ k := by
  rw [Rat.den_mkRat]
  split
  · exact Nat.one_dvd _
  · exact Nat.div_dvd_of_dvd (Nat.gcd_dvd_left _ _)

theorem den_mkRat_dvd (n : Int) (d : Nat) (hd : d ≠ 0) : (mkRat n d).den ∣ d := by
  rw [Rat.den_mkRat]; simp only [hd, if_false]
  exact Nat.div_dvd_of_dvd (Nat.gcd_dvd_left _ _)

/-- decimal rationals are closed under `+` and `*` (and `-`, see `Rat.neg_den`) -/
theorem dec_add (a b : Rat) (i j : Nat) (ha : a.den ∣ 10 ^ i) (hb : b.den ∣ 10 ^ j) :
    (a + b).den ∣ 10 ^ (i + j) := by
  rw [Rat.add_def', Nat.pow_add]
  exact Nat.dvd_trans (den_mkRat_dvd _ _ (Nat.mul_ne_zero a.den_nz b.den_nz)) (Nat.mul_dvd_mul ha hb)

theorem dec_mul (a b : Rat) (i j : Nat) (ha : a.den ∣ 10 ^ i) (hb : b.den ∣ 10 ^ j) :
    (a * b).den ∣ 10 ^ (i + j) := by
  rw [Rat.mul_def', Nat.pow_add]
  exact Nat.dvd_trans (den_mkRat_dvd _ _ (Nat.mul_ne_zero a.den_nz b.den_nz)) (Nat.mul_dvd_mul ha hb)

end Knut.Dec
