import Knut.FactsAgree.TransTableRender
import Knut.GoSem.Csv
/-!
# The translated `CSVRenderer.Render` writes exactly the model's CSV text (`Table.renderCSV`)

`csv.go`: per row the cells are rendered (`CSVRenderer.renderCell`: separators and empty cells are `""`, text cells their content,
numbers `Decimal.String`), a row all of whose fields are empty is skipped, the others are handed to an `encoding/csv.Writer`
(prelude `GoSem/Csv.lean`: the line of a record is the model's `csvLine`; `Flush` at the end passes everything to the sink;
the `return writer.Error()` after it — the sticky error of the buffered writer — is `none` over the in-memory sink).
The `if err != nil { return err }` branches are translated and dead: a cell of the closed sum always renders, the csv writer over an
in-memory sink does not fail.  The model has no percent cells, so the float formatter `ff` is arbitrary.
-/
namespace Knut.FactsAgree.TransTableRender
open Knut Knut.GoSem
open Knut.Generated.Go

theorem csv_renderCell_agrees (cr : table.CSVRenderer) (c : Table.Cell) (ff : Fmt.FloatFmt) :
    table.CSVRenderer.renderCell cr (cellGo c) ff = (String.ofList (Table.csvCell c), none) := by
  cases c <;> simp [table.CSVRenderer.renderCell, cellGo, Table.csvCell]

/-- the fields of a row -/
def fieldsGo (row : List Table.Cell) : List String := row.map (fun c => String.ofList (Table.csvCell c))

theorem csv_range2_agrees (cr : table.CSVRenderer) (ff : Fmt.FloatFmt) (wr : Csv.Writer) (row : table.Row) :
    ∀ (cs : List Table.Cell) (acc : List String),
      table.CSVRenderer.Render.range2 ff cr wr row (cs.map cellGo) acc = Outcome.ok (Flow.next (acc ++ fieldsGo cs)) := by
  intro cs
  induction cs with
  | nil => intro acc; simp [table.CSVRenderer.Render.range2, fieldsGo]
  | cons c cs ih =>
    intro acc
    rw [List.map_cons, table.CSVRenderer.Render.range2]
    simp only [csv_renderCell_agrees, Option.isSome_none, Bool.false_eq_true, if_false, ih]
    simp [fieldsGo]

theorem byteLen_pos (s : String) : decide (Strings.byteLen s > 0) = !s.toList.isEmpty := by
  unfold Strings.byteLen
  cases h : s.toList with
  | nil => simp
  | cons c cs =>
    have := Char.utf8Size_pos c
    simp only [List.map_cons, List.sum_cons, List.isEmpty_cons, Bool.not_false, decide_eq_true_eq]
    omega

theorem csv_range3_agrees (r0 : List String) : ∀ (items : List String) (ht : Bool),
    table.CSVRenderer.Render.range3 r0 items ht = Outcome.ok (ht || items.any (fun s => !s.toList.isEmpty)) := by
  intro items
  induction items with
  | nil => intro ht; simp [table.CSVRenderer.Render.range3]
  | cons s items ih =>
    intro ht
    rw [table.CSVRenderer.Render.range3]
    simp only [byteLen_pos, ih, List.any_cons]
    cases s.toList.isEmpty <;> simp

/-- the records of the model for a list of rows -/
def recordsOf (rows : List (List Table.Cell)) : List (List (List Char)) :=
  (rows.map (fun row => row.map Table.csvCell)).filter (fun r => r.any (fun f => !f.isEmpty))

theorem fieldsGo_toList (row : List Table.Cell) : (fieldsGo row).map String.toList = row.map Table.csvCell := by
  simp [fieldsGo, Function.comp_def]

theorem fieldsGo_any (row : List Table.Cell) :
    (fieldsGo row).any (fun s => !s.toList.isEmpty) = (row.map Table.csvCell).any (fun f => !f.isEmpty) := by
  simp [fieldsGo, List.any_map, Function.comp_def]

theorem csv_range1_agrees (cr : table.CSVRenderer) (ff : Fmt.FloatFmt) (t : table.Table) : ∀ (rows : List (List Table.Cell))
    (Rs : List table.Row) (wr : Csv.Writer), RowsRel Rs rows →
    table.CSVRenderer.Render.range1 ff cr t Rs wr
      = Outcome.ok (Flow.next { wr with pending := wr.pending ++ String.ofList ((recordsOf rows).flatMap Table.csvLine) }) := by
  intro rows
  induction rows with
  | nil =>
    intro Rs wr h
    cases Rs with
    | nil => simp [table.CSVRenderer.Render.range1, recordsOf]
    | cons _ _ => exact absurd h (by simp [RowsRel])
  | cons row rows ih =>
    intro Rs wr h
    cases Rs with
    | nil => exact absurd h (by simp [RowsRel])
    | cons R Rs =>
      rw [table.CSVRenderer.Render.range1]
      have hc : R.cells = row.map cellGo := h.1
      have h2 := csv_range2_agrees cr ff wr R row []
      simp only [List.nil_append] at h2
      simp only [hc, zero_list, zero_bool, h2, Outcome.bind, csv_range3_agrees, Bool.false_or, fieldsGo_any]
      have hrec : recordsOf (row :: rows)
          = if (row.map Table.csvCell).any (fun f => !f.isEmpty) then row.map Table.csvCell :: recordsOf rows else recordsOf rows := by
        simp only [recordsOf, List.map_cons, List.filter_cons]
      rw [hrec]
      have ih' := fun wr => ih Rs wr h.2
      by_cases ht : (row.map Table.csvCell).any (fun f => !f.isEmpty) = true
      · simp only [ht, Bool.not_true, Bool.false_eq_true, if_false, if_true, Csv.Writer.Write, Option.isSome_none, ih']
        congr 2
        simp only [Csv.line, fieldsGo_toList, List.flatMap_cons]
        rw [String.append_assoc, ← ofList_append]
      · simp only [ht, Bool.not_false, if_true, if_false, ih', Bool.false_eq_true]

/-- **`CSVRenderer.Render` = `Table.renderCSV`**: on a writer that holds `w` the translation returns `w ++ renderCSV t`, no error,
never a panic — for every Go table that stands for the model table -/
theorem CSV_Render_agrees_rel (cr : table.CSVRenderer) (T : table.Table) (t : Table.Table) (hT : TableRel T t) (w : String)
    (ff : Fmt.FloatFmt) :
    table.CSVRenderer.Render cr T w ff = Outcome.ok (w ++ String.ofList (Table.renderCSV t), none) := by
  unfold table.CSVRenderer.Render
  simp only [csv_range1_agrees cr ff T t.rows T.rows _ hT.2, Outcome.bind, Csv.NewWriter, Csv.dropped_Flush,
    Csv.Writer.Error]
  rfl

theorem CSV_Render_agrees (cr : table.CSVRenderer) (t : Table.Table) (w : String) (ff : Fmt.FloatFmt) :
    table.CSVRenderer.Render cr (tableGo t) w ff = Outcome.ok (w ++ String.ofList (Table.renderCSV t), none) :=
  CSV_Render_agrees_rel cr (tableGo t) t (tableGo_rel t) w ff

/-- non-vacuity: a quoted field, a number, a skipped separator row -/
example : table.CSVRenderer.Render {} (tableGo ⟨[0, 1], [[.text "a,b".toList .left 0, .num (-5)], [.sep, .sep]]⟩) "" (fun _ _ _ => "")
    = Outcome.ok ("\"a,b\",-5\n", none) := by
  decide +kernel

end Knut.FactsAgree.TransTableRender
