package main

import (
	"strings"
)

func init() { runners["C01"] = runC01 }

// deltaRowsZero evaluates the property predicate of C01 on the real output: every numeric cell of the
// Delta row(s) is zero (CSV: "0"; text: blank, as zero amounts are rendered blank).
func deltaRowsZero(stdout string, csv bool) (bool, string) {
	lines := strings.Split(stdout, "\n")
	if csv {
		in := false
		seen := false
		for _, l := range lines {
			if l == "Delta" || strings.HasPrefix(l, "Delta,") {
				in, seen = true, true
			} else if in && !strings.HasPrefix(l, ",") {
				in = false
			}
			if !in {
				continue
			}
			f := strings.Split(l, ",")
			// columns: name, [comm], numbers…; a commodity name never parses as a number
			for k, cell := range f[1:] {
				if cell == "" || cell == "0" {
					continue
				}
				if k == 0 && !isNumber(cell) {
					continue // the Comm column
				}
				return false, "non-zero Delta cell " + cell + " in line " + l
			}
		}
		if !seen {
			return false, "no Delta row"
		}
		return true, ""
	}
	in, seen := false, false
	for _, l := range lines {
		if strings.HasPrefix(l, "| Delta") {
			in, seen = true, true
		} else if in && strings.HasPrefix(l, "+") {
			in = false
		}
		if !in {
			continue
		}
		cells := strings.Split(strings.Trim(l, "|"), "|")
		for k, cell := range cells[1:] {
			cell = strings.TrimSpace(cell)
			if cell == "" || (k == 0 && !isNumber(cell)) {
				continue
			}
			return false, "non-blank Delta cell " + cell + " in line " + l
		}
	}
	if !seen {
		return false, "no Delta row"
	}
	return true, ""
}

func isNumber(s string) bool {
	if s == "" {
		return false
	}
	for _, ch := range s {
		if !(ch >= '0' && ch <= '9') && ch != '-' && ch != '.' && ch != ',' {
			return false
		}
	}
	return true
}

func runC01(c *Ctx) {
	n := c.N(6000, 40000)
	cases := genBalCases(c, "conservation", n, func(r *RNG) JGenOpts {
		o := JGenOpts{MaxAccounts: r.Range(2, 8), MaxDays: r.Range(1, 8), Unicode: true, BaseDay: 737000 + r.Intn(1500), SpanDays: Pick(r, []int{0, 5, 40, 100, 400, 800}), BoundaryDates: r.Chance(1, 8),
			ManyDecimals: r.Chance(1, 3), Accruals: r.Chance(1, 3), DupPrices: true, CaseVariants: true}
		if r.Chance(1, 2) {
			o.Prices, o.Valuation = true, Pick(r, []string{"CHF", "USD"})
		}
		return o
	}, BalGenOpts{Valued: true, NoFilters: true})
	bt := c.NewBatch()
	defer bt.Flush()
	for _, bc := range cases {
		bc := bc
		c.Evals++
		impl := bc.implOutcome()
		in := bc.Input()
		c.Class("c01/" + strings.Fields(impl)[0] + "/" + flagClass(bc.F) + "/n" + bucket(len(bc.J.Dirs)))
		for _, t := range bc.Tags {
			c.Tag(t)
		}
		if bc.Idx < 2 {
			c.Sample(map[string]any{"args": strings.Join(bc.F.Args(), " "), "journal": bc.Text, "stdout": bc.Stdout})
		}
		if bc.Code == 0 {
			ok, why := deltaRowsZero(bc.Stdout, bc.F.CSV)
			c.Monitor("conservation", bc.Idx, "delta_row_zero", in, ok, why+"\n"+bc.Stdout)
			c.Tag("accepted")
		} else {
			c.Tag("rejected")
		}
		bt.Add(func(model string) {
			if model == "unsupported" {
				c.Tag("model-unsupported")
				return
			}
			if !c.Compare("conservation", bc.Idx, "balance", in, impl, modelOutcomeCanon(model)) {
				f := &c.Findings[len(c.Findings)-1]
				if strings.HasPrefix(model, "ok ") {
					f.Model = clip(UnHex(strings.TrimPrefix(model, "ok ")))
				}
				f.Impl = clip(bc.Stdout + "\n" + bc.Stderr)
			}
		}, "balance", bc.F.Wire(today()), bc.J.Wire())
	}
}
