import Knut.Properties.C20Go2
import Knut.FactsAgree.TransProcessAllReturns
/-!
# C20 on the generated definitions: the returns clause over the WHOLE pipeline of `knut portfolio returns`

`C20Go.C20_returns_every_period_go` / `C20Go2.C20_returns_every_period_go_partial` start from the days that reach `ComputeValues` and
assume that they stand for the model's valued days (`DayIn`, `hlen`).  Here the six processors of `cmd/commands/portfolio/returns.go`
(`ComputePrices`, `check`, `Valuate`, `ComputeValues`, `ComputeFlows`, `Perf` — the order read off the source by hand,
`FactsAgree/TransProcessAllReturns.lean`) are composed over the journal, and `DayIn`/`hlen` are DISCHARGED: the hypothesis about days is
now about the days of the built journal BEFORE the pipeline (`DayRelP`: they stand for the model's days — `TransProcessAll.DayRel` — and
carry no `Performance` yet).

* **`C20_returns_every_period_process_go`** (without `-v`): whenever the model's `returns f ds` succeeds with `lines`, the sequential run
  `processAllReturns` of the six translated stages SUCCEEDS, and what `Perf` has printed (`perfFinal`: the `stdout` of its captured state)
  is `lines`, one line per period end — for EVERY admissible family of iteration orders (`RetParOK`).
* **`C20_returns_process_go_partial`** (with or without `-v`): the same against the model's run in which `vQty` is re-listed before each
  day in the order `Valuate.DayStart` iterates (`ValuedOrd`), both directions (failure of the five stages before `Perf` ⇒ the model's
  re-listed valuation fails).  PARTIAL with `-v`: that the lines of a re-listed run are the lines of `returns f ds` (the value
  adjustments of a day come in the order of the list; `valuesDay`/`dayFlows` sum over them) is not proved.

Hypotheses that STAY (named):
1. **`hds`**: the captured set of `Perf` (`set.FromSlice(j.Days(part.EndDates()))`; `j.Days` is not translated) holds exactly the period
   end days;
2. **`hdef`**: every day inside the reported span has a defined factor (float64 division by zero: `GoSem/Float.lean`);
3. **`hdays`** (`DayRelP`): the Go days handed to `Process` stand for the days of the model's built journal (`Builder.Build` is not
   composed with the parser here) and have `Performance == nil`;
4. **`RetParOK`**: the parameters of the constructors are the model's (`-v`, `reg.ValuationAccountFor`, the calculator, the partition)
   and the iteration orders / fuels are admissible;
5. the reading "exact arithmetic" of `float64`, and `Pipeline.seqRun` as the meaning of `cpr.Seq` (`C19_confluent`).
-/
namespace Knut.C20Go3
open Knut Knut.GoSem Knut.Performance Knut.PortfolioSpec Knut.Pipeline
open Knut.Generated.Go
open Knut.FactsAgree.TransPerformance (perfDaysV valuedDays lineGo)
open Knut.FactsAgree.TransProcess (AllRel)
open Knut.FactsAgree.TransProcessAllReturns
open Knut.C20Go (dateOf)

/-- `lines` of a successful `returns` are `perfLines` over the valued days -/
theorem lines_eq (f : Flags) (ds : List Directive) (lines : List (Int × Option Rat)) (h : returns f ds = .ok lines)
    (part : Knut.Partition) (days : List Knut.Day) (hs : setup f ds = .ok (part, days))
    (ms : List (Int × List Knut.Transaction)) (hms : valuedDays f.cfg ({} : PState).bal days = some ms) :
    lines = Performance.perfLines (Performance.perfSpan part) part.endDates (some 1) (perfDaysV f.cfg ([], []) ms) := by
  have hpf := Knut.FactsAgree.TransPerformance.perfFrom_perfDaysV f.cfg days ({} : PState) ms hms
  unfold returns at h
  rw [hs] at h
  simp only at h
  rw [hpf] at h
  simp only at h
  injection h with h
  exact h.symm

/-- **what the translated pipeline of `knut portfolio returns` (without `-v`) prints is `returns`, one line per period**: `DayIn`/`hlen`
of `C20Go2.C20_returns_every_period_go_partial` are discharged by the composition of the stages over the journal; `hds`, `hdef` stay -/
theorem C20_returns_every_period_process_go (cur : String → Bool) (f : Flags) (hv : f.valuation = none) (ds : List Directive)
    (lines : List (Int × Option Rat)) (h : returns f ds = .ok lines) :
    ∃ (part : Knut.Partition) (days : List Knut.Day) (ms : List (Int × List Knut.Transaction)),
      setup f ds = .ok (part, days) ∧ valuedDays f.cfg ({} : PState).bal days = some ms ∧
      ∀ (P : RetPar), RetParOK cur f.cfg P → P.part = Knut.FactsAgree.TransDate.partitionGo part →
      ∀ (ds0 : set.Set Int), (∀ x, set.Set.Has ds0 x = part.endDates.contains x) → ∀ (j : journal.Builder)
        (gdays : List journal.Day), AllRel (DayRelP cur) gdays days →
        (∀ dp ∈ perfDaysV f.cfg ([], []) ms, (Performance.perfSpan part).contains dp.date = true → (Performance.factor dp).isSome) →
        ∃ out r' printed, processAllReturns P (returnsInit cur f.cfg j part ds0) gdays = some out ∧
          perfFinal P (returnsInit cur f.cfg j part ds0) gdays = some ⟨ds0, part.startDates, r', printed⟩ ∧
          printed = lines.map lineGo ∧
          printed.map dateOf = part.endDates.filter (fun e => part.span.contains e) ∧
          (part.span.start ≤ part.span.stop → printed.map dateOf = part.endDates) := by
  obtain ⟨part, days, ms, hs, hms⟩ := C20Go2.returns_ok_parts f ds lines h
  refine ⟨part, days, ms, hs, hms, ?_⟩
  intro P hP hpart ds0 hds j gdays hdays hdef
  have hv' : f.cfg.valuation = none := hv
  have hl := lines_eq f ds lines h part days hs ms hms
  obtain ⟨part', days', hs', hd1, hd2⟩ := C20.C20_returns_every_period f ds lines h
  rw [hs] at hs'
  injection hs' with hs'
  injection hs' with hp' _
  subst hp'
  have hdl : (dateOf ∘ lineGo) = (fun l : Int × Option Rat => l.1) := by funext l; rfl
  have key := processAllReturns_agrees cur f.cfg P hP part hpart ds0 hds j gdays days hdays
  revert key
  cases seqStage (fused5 P) (init5 (returnsInit cur f.cfg j part ds0)) gdays with
  | none =>
    intro key
    have := valuedDays_none_of_ValuedFail f.cfg hv' days _ key.2
    rw [this] at hms
    cases hms
  | some out5 =>
    intro key
    obtain ⟨ms', hvo, _, hrest⟩ := key
    have hms' := valuedDays_of_ValuedOrd f.cfg hv' days _ ms' hvo
    rw [hms'] at hms
    injection hms with hms
    subst hms
    obtain ⟨hrun, r', hfin⟩ := hrest hdef
    refine ⟨out5, r', lines.map lineGo, hrun, by rw [hl]; exact hfin, rfl, ?_, ?_⟩
    · rw [List.map_map, hdl]; exact hd1
    · intro hle; rw [List.map_map, hdl]; exact hd2 hle

/-- **the whole pipeline against the model's re-listed run, with or without `-v` — PARTIAL** (see the header): the five stages before
`Perf` fail ⇒ the run fails and the model's re-listed valuation fails; they succeed ⇒ the model's valued days `ms` exist and, when
every factor inside the span is defined, the run succeeds and `Perf` has printed `perfLines` over `perfDaysV … ms` -/
theorem C20_returns_process_go_partial (cur : String → Bool) (f : Flags) (part : Knut.Partition) (days : List Knut.Day)
    (P : RetPar) (hP : RetParOK cur f.cfg P) (hpart : P.part = Knut.FactsAgree.TransDate.partitionGo part)
    (ds0 : set.Set Int) (hds : ∀ x, set.Set.Has ds0 x = part.endDates.contains x) (j : journal.Builder)
    (gdays : List journal.Day) (hdays : AllRel (DayRelP cur) gdays days) :
    match seqStage (fused5 P) (init5 (returnsInit cur f.cfg j part ds0)) gdays with
    | none => processAllReturns P (returnsInit cur f.cfg j part ds0) gdays = none ∧ ValuedFail f.cfg {} days
    | some out5 => ∃ ms, ValuedOrd f.cfg {} days ms ∧
        ((∀ dp ∈ perfDaysV f.cfg ([], []) ms, (Performance.perfSpan part).contains dp.date = true → (Performance.factor dp).isSome) →
          processAllReturns P (returnsInit cur f.cfg j part ds0) gdays = some out5 ∧
          ∃ r', perfFinal P (returnsInit cur f.cfg j part ds0) gdays = some ⟨ds0, part.startDates, r',
            (Performance.perfLines (Performance.perfSpan part) part.endDates (some 1) (perfDaysV f.cfg ([], []) ms)).map lineGo⟩) := by
  have key := processAllReturns_agrees cur f.cfg P hP part hpart ds0 hds j gdays days hdays
  revert key
  cases seqStage (fused5 P) (init5 (returnsInit cur f.cfg j part ds0)) gdays with
  | none => intro key; exact key
  | some out5 =>
    intro key
    obtain ⟨ms, hvo, _, hrest⟩ := key
    exact ⟨ms, hvo, hrest⟩

/-! ### Non-vacuity: a journal without directives — `returns` succeeds (`C20Go2.returns_empty`), the built journal has no day, the
admissible parameters exist (no day: every order family is admissible on the states reached) and the pipeline prints nothing -/
example (cur : String → Bool) : ∃ part days ms, setup { to := 10, from? := some 1 } [] = .ok (part, days) ∧
    valuedDays ({ to := 10, from? := some 1 } : Flags).cfg ({} : PState).bal days = some ms := by
  obtain ⟨part, days, ms, h1, h2, _⟩ := C20_returns_every_period_process_go cur _ rfl _ _ C20Go2.returns_empty
  exact ⟨part, days, ms, h1, h2⟩

end Knut.C20Go3
