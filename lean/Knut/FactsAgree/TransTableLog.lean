import Knut.FactsAgree.TransRender
import Knut.FactsAgree.TransTableBuild
import Knut.FactsAgree.TransTableRender3
import Knut.FactsAgree.TransTableCsv
/-!
# A log of builder calls, executed by the translated functions of package table, builds the table `TransRender.interp` reads

Code outside package table (the balance renderer) is translated with `*table.Table` as the LOG of the calls made on it
(`trans_builder.go`), and `TransRender.step` / `interp` is the hand-written reading of a log with the model's table.  This module
ties that reading to the translated builder functions: `exec` runs one call with the translated function of the same name — a call
on row number `r` runs the `Row` method on the element of `t.rows` that the `r`-th `AddRow` appended and writes it back, as the
translator does for the pointer `AddRow` returns — and

* `exec_step`: from the Go table of a model state, every call that has a meaning in the model (`step` keeps `ok`) takes the
  translated functions to the Go table of `step`'s state;
* **`exec_interp`**: a whole log whose reading is `ok` is executed without panic to `tableGo (interp log).tbl`, the rows numbered as
  `interp` numbers them.

Hypothesis `AlignsOK`: `AddText` is called with `Left`, `Right` or `Center` (`step` reads every other alignment as `Center`; the Go
code keeps the number).  `WF`: the rows handed out exist (what `interp` maintains from the empty log: `interp_wf`).
-/
namespace Knut.FactsAgree.TransTableLog
open Knut Knut.GoSem
open Knut.Generated.Go
open Knut.Table (Cell Align)
open Knut.FactsAgree.TransRender (TS TC step interp alignOf)
open Knut.FactsAgree.TransTableRender

/-- the Go side: the table and, per `AddRow` call, the position of its row in `t.rows` -/
structure GS where
  T : table.Table
  own : List Nat

def noRow : String := "call on a row that was not handed out"

/-- a call on row number `r`: the method runs on the element of `t.rows` the row pointer points to; written back -/
def onRow (g : GS) (r : Nat) (f : table.Row → GoSem.Outcome table.Row) : GoSem.Outcome GS :=
  match g.own[r]? with
  | some pos =>
    match g.T.rows[pos]? with
    | some row => (f row).bind (fun row' => GoSem.Outcome.ok { g with T := { g.T with rows := g.T.rows.set pos row' } })
    | none => GoSem.Outcome.panic noRow
  | none => GoSem.Outcome.panic noRow

/-- one builder call, run by the translated function of the same name -/
def exec (g : GS) : TC → GoSem.Outcome GS
  | .New gs => (table.New gs).bind (fun T => GoSem.Outcome.ok ⟨T, []⟩)
  | .AddRow => (table.Table.AddRow g.T).bind (fun r => GoSem.Outcome.ok ⟨r.1, g.own ++ [g.T.rows.length]⟩)
  | .AddSeparatorRow => (table.Table.AddSeparatorRow g.T).bind (fun T => GoSem.Outcome.ok { g with T := T })
  | .AddEmptyRow => (table.Table.AddEmptyRow g.T).bind (fun T => GoSem.Outcome.ok { g with T := T })
  | .Row_AddEmpty r => onRow g r (fun row => GoSem.Outcome.ok (table.Row.AddEmpty row).1)
  | .Row_AddText r c a => onRow g r (fun row => GoSem.Outcome.ok (table.Row.AddText row c a).1)
  | .Row_AddIndented r c i => onRow g r (fun row => GoSem.Outcome.ok (table.Row.AddIndented row c i).1)
  | .Row_AddDecimal r n => onRow g r (fun row => GoSem.Outcome.ok (table.Row.AddDecimal row n).1)
  | .Row_AddPercent r n => onRow g r (fun row => GoSem.Outcome.ok (table.Row.AddPercent row n).1)
  | .Row_FillEmpty r => onRow g r table.Row.FillEmpty

/-- the Go state of a model state -/
def gsOf (s : TS) : GS := ⟨tableGo s.tbl, s.own⟩

/-- the rows handed out exist -/
def WF (s : TS) : Prop := ∀ p ∈ s.own, p < s.tbl.rows.length

/-- `AddText` with one of the three alignments -/
def AlignOK : TC → Prop
  | .Row_AddText _ _ a => a = 0 ∨ a = 1 ∨ a = 2
  | _ => True

theorem alignGo_alignOf (a : Int) (h : a = 0 ∨ a = 1 ∨ a = 2) : alignGo (alignOf a) = a := by
  rcases h with h | h | h <;> subst h <;> rfl

theorem modify_map_set {α β : Type} (g : α → β) (f : α → α) : ∀ (l : List α) (pos : Nat) (a : α), l[pos]? = some a →
    (l.map g).set pos (g (f a)) = (l.modify pos f).map g := by
  intro l
  induction l with
  | nil => intro pos a h; simp at h
  | cons x xs ih =>
    intro pos a h
    cases pos with
    | zero => simp at h; subst h; simp
    | succ pos => simp at h; simp [List.modify_succ_cons, ih pos a h]

theorem tableGo_with_rows (cols : List Nat) (rows rows' : List (List Cell)) :
    { tableGo ⟨cols, rows⟩ with rows := rows'.map (rowGoW cols.length) } = tableGo ⟨cols, rows'⟩ := rfl

/-- a call on a row that exists, for a method that turns the row `rows[pos]` into `h rows[pos]` -/
theorem onRow_modify (s : TS) (r pos : Nat) (h : List Cell → List Cell) (f : table.Row → GoSem.Outcome table.Row)
    (ho : s.own[r]? = some pos) (hp : pos < s.tbl.rows.length)
    (hf : f (rowGoW s.tbl.width (s.tbl.rows[pos]'hp)) = GoSem.Outcome.ok (rowGoW s.tbl.width (h (s.tbl.rows[pos]'hp)))) :
    onRow (gsOf s) r f = GoSem.Outcome.ok ⟨tableGo { s.tbl with rows := s.tbl.rows.modify pos h }, s.own⟩ := by
  obtain ⟨⟨cols, rows⟩, own, ok⟩ := s
  have hw : (Table.Table.mk cols rows).width = cols.length := rfl
  simp only [hw] at hf
  have hrow : (tableGo ⟨cols, rows⟩).rows[pos]? = some (rowGoW cols.length rows[pos]) := by
    simp [tableGo, Table.Table.width, hp]
  have hmod := modify_map_set (rowGoW cols.length) h rows pos rows[pos] (by simp [hp])
  simp only [onRow, gsOf, ho, hrow, hf, GoSem.Outcome.bind]
  simp only [tableGo, Table.Table.width, hmod]

theorem step_ok_mono (s : TS) (c : TC) (h : (step s c).ok = true) : s.ok = true := by
  cases c <;> simp only [step, TransRender.addCell] at h <;> (try exact h)
  all_goals (first | (split at h <;> first | exact h | simp at h | (split at h <;> first | exact h | simp at h | (split at h <;> first | exact h | simp at h))) | simp at h)

theorem wf_modify (s : TS) (pos : Nat) (h : List Cell → List Cell) (hwf : WF s) :
    WF { s with tbl := { s.tbl with rows := s.tbl.rows.modify pos h } } := by
  intro p hp
  simp only [List.length_modify]
  exact hwf p hp

/-- a cell-adding call: the row exists (else `step` gives up), the translated method appends the cell to ITS row -/
theorem exec_addCell (s : TS) (r : Nat) (c : Cell) (f : table.Row → GoSem.Outcome table.Row) (hwf : WF s)
    (hok : (TransRender.addCell s r c).ok = true) (hs : s.ok = true)
    (hf : ∀ row : List Cell, f (rowGoW s.tbl.width row) = GoSem.Outcome.ok (rowGoW s.tbl.width (row ++ [c]))) :
    onRow (gsOf s) r f = GoSem.Outcome.ok (gsOf (TransRender.addCell s r c)) ∧ WF (TransRender.addCell s r c) := by
  unfold TransRender.addCell at hok ⊢
  cases ho : s.own[r]? with
  | none => simp [ho] at hok
  | some pos =>
    have hp : pos < s.tbl.rows.length := hwf pos (List.mem_of_getElem? ho)
    simp only [ho]
    exact ⟨onRow_modify s r pos (· ++ [c]) f ho hp (hf _), wf_modify s pos _ hwf⟩

/-- from the Go table of a model state, a call that has a meaning in the model takes the translated functions to the Go table of
`step`'s state -/
theorem exec_step (s : TS) (c : TC) (hwf : WF s) (ha : AlignOK c) (hok : (step s c).ok = true) :
    exec (gsOf s) c = GoSem.Outcome.ok (gsOf (step s c)) ∧ WF (step s c) := by
  have hs : s.ok = true := step_ok_mono s c hok
  cases c with
  | New gs =>
    refine ⟨?_, ?_⟩
    · simp [exec, gsOf, step, New_agrees, GoSem.Outcome.bind]
    · intro p hp; simp [step] at hp
  | AddRow =>
    refine ⟨?_, ?_⟩
    · simp only [exec, gsOf, step, AddRow_agrees, GoSem.Outcome.bind]
      simp [tableGo, Table.Table.addRow]
    · intro p hp
      simp only [step, List.mem_append, List.mem_singleton, List.length_append, List.length_cons, List.length_nil] at hp ⊢
      rcases hp with hp | hp
      · have := hwf p hp; omega
      · omega
  | AddSeparatorRow =>
    refine ⟨by simp [exec, gsOf, step, AddSeparatorRow_agrees, GoSem.Outcome.bind], ?_⟩
    intro p hp
    have := hwf p hp
    simp only [step, Table.Table.addSeparatorRow, List.length_append, List.length_cons, List.length_nil]
    omega
  | AddEmptyRow =>
    refine ⟨by simp [exec, gsOf, step, AddEmptyRow_agrees, GoSem.Outcome.bind], ?_⟩
    intro p hp
    have := hwf p hp
    simp only [step, Table.Table.addEmptyRow, List.length_append, List.length_cons, List.length_nil]
    omega
  | Row_AddEmpty r =>
    exact exec_addCell s r .empty _ hwf hok hs (fun row => by simp [AddEmpty_agrees])
  | Row_AddText r c a =>
    have hf : ∀ row : List Cell, GoSem.Outcome.ok (table.Row.AddText (rowGoW s.tbl.width row) c a).1
        = GoSem.Outcome.ok (rowGoW s.tbl.width (row ++ [.text c.toList (alignOf a) 0])) := by
      intro row
      have := AddText_agrees s.tbl.width row c.toList (alignOf a)
      rw [String.ofList_toList, alignGo_alignOf a ha] at this
      rw [this]
    exact exec_addCell s r (.text c.toList (alignOf a) 0) _ hwf hok hs hf
  | Row_AddIndented r c i =>
    have hf : ∀ row : List Cell, GoSem.Outcome.ok (table.Row.AddIndented (rowGoW s.tbl.width row) c i).1
        = GoSem.Outcome.ok (rowGoW s.tbl.width (row ++ [.text c.toList .left i])) := by
      intro row
      have := AddIndented_agrees s.tbl.width row c.toList i
      rw [String.ofList_toList] at this
      rw [this]
    exact exec_addCell s r (.text c.toList .left i) _ hwf hok hs hf
  | Row_AddDecimal r n =>
    exact exec_addCell s r (.num n) _ hwf hok hs (fun row => by simp [AddDecimal_agrees])
  | Row_AddPercent r n => simp [step] at hok
  | Row_FillEmpty r =>
    simp only [step] at hok ⊢
    cases ho : s.own[r]? with
    | none => simp [ho] at hok
    | some pos =>
      have hp : pos < s.tbl.rows.length := hwf pos (List.mem_of_getElem? ho)
      have hrow : s.tbl.rows[pos]? = some (s.tbl.rows[pos]'hp) := by simp [hp]
      simp only [ho, hrow] at hok ⊢
      by_cases hfit : (s.tbl.rows[pos]'hp).length ≤ s.tbl.width
      · simp only [hfit, if_true]
        exact ⟨onRow_modify s r pos _ _ ho hp (FillEmpty_agrees _ _ hfit), wf_modify s pos _ hwf⟩
      · simp [hfit] at hok

/-- running a log call by call -/
def execLog (g : GS) (log : List TC) : GoSem.Outcome GS := foldlE exec g log

theorem exec_fold : ∀ (log : List TC) (s : TS), WF s → (∀ c ∈ log, AlignOK c) → (log.foldl step s).ok = true →
    execLog (gsOf s) log = GoSem.Outcome.ok (gsOf (log.foldl step s)) ∧ WF (log.foldl step s) := by
  intro log
  induction log with
  | nil => intro s hwf _ _; exact ⟨rfl, hwf⟩
  | cons c log ih =>
    intro s hwf ha hok
    rw [List.foldl_cons] at hok ⊢
    have hmono : ∀ (l : List TC) (s' : TS), (l.foldl step s').ok = true → s'.ok = true := by
      intro l
      induction l with
      | nil => intro s' h; exact h
      | cons x l ihl => intro s' h; exact step_ok_mono s' x (ihl _ h)
    have h1 := exec_step s c hwf (ha c List.mem_cons_self) (hmono log _ hok)
    have h2 := ih (step s c) h1.2 (fun x hx => ha x (List.mem_cons_of_mem _ hx)) hok
    refine ⟨?_, h2.2⟩
    unfold execLog at h2 ⊢
    simp only [foldlE, h1.1, GoSem.Outcome.bind]
    exact h2.1

/-- **a log that `interp` can read is executed by the translated builder functions — without panic, never out of fuel — to the Go
table of the table `interp` builds**, the rows numbered as `interp` numbers them -/
theorem exec_interp (log : List TC) (ha : ∀ c ∈ log, AlignOK c) (hok : (interp log).ok = true) :
    execLog ⟨GoZero.zero, []⟩ log = GoSem.Outcome.ok ⟨tableGo (interp log).tbl, (interp log).own⟩ := by
  have hwf : WF ⟨⟨[], []⟩, [], true⟩ := by intro p hp; simp at hp
  exact (exec_fold log ⟨⟨[], []⟩, [], true⟩ hwf ha hok).1

/-- **end to end**: the calls of a log made through the translated builder functions, then the translated `TextRenderer.Render`:
the text of the model's renderer on the table `interp` reads from the log (the same bytes, the same panic outcomes) -/
theorem log_Render_agrees (log : List TC) (ha : ∀ c ∈ log, AlignOK c) (hok : (interp log).ok = true)
    (tr : table.TextRenderer) (w : String) (cs : Color.State) (ff : Fmt.FloatFmt) (hc : tr.Color = false) :
    (execLog ⟨GoZero.zero, []⟩ log).bind (fun g => table.TextRenderer.Render tr g.T w cs ff)
      = match Table.renderText (rendOf tr) (interp log).tbl with
        | .ok s => GoSem.Outcome.ok ({ tr with table := GoZero.zero }, w ++ String.ofList s, none)
        | .panic _ => GoSem.Outcome.panic idxPanic := by
  rw [exec_interp log ha hok]
  exact Render_agrees tr (interp log).tbl w cs ff hc

theorem log_CSV_agrees (log : List TC) (ha : ∀ c ∈ log, AlignOK c) (hok : (interp log).ok = true)
    (cr : table.CSVRenderer) (w : String) (ff : Fmt.FloatFmt) :
    (execLog ⟨GoZero.zero, []⟩ log).bind (fun g => table.CSVRenderer.Render cr g.T w ff)
      = GoSem.Outcome.ok (w ++ String.ofList (Table.renderCSV (interp log).tbl), none) := by
  rw [exec_interp log ha hok]
  exact CSV_Render_agrees cr (interp log).tbl w ff

/-- non-vacuity: `New(1, 1)`, a row with a name and an amount filled up, a separator row — executed and rendered -/
example : (execLog ⟨GoZero.zero, []⟩ [.New [1, 1], .AddRow, .Row_AddIndented 0 "Assets" 2, .Row_FillEmpty 0, .AddSeparatorRow, .AddRow,
      .Row_AddText 1 "x" 1, .Row_AddDecimal 1 (-5)]).bind
      (fun g => table.TextRenderer.Render ⟨GoZero.zero, false, false, 0⟩ g.T "" ⟨false, false⟩ (fun _ _ _ => ""))
    = GoSem.Outcome.ok (⟨GoZero.zero, false, false, 0⟩, "|   Assets |    |\n+----------+----+\n|        x | -5 |\n\n", none) := by
  decide +kernel

end Knut.FactsAgree.TransTableLog
