import Knut.Generated.TransJournal
import Knut.Generated.Facts
import Knut.FactsAgree.TransCheck
import Knut.FactsAgree.TransPrice
import Knut.Model.Balance
/-!
# The translated processors of `lib/journal/process.go` agree with the model of the balance pipeline

`Knut/Generated/TransJournal.lean` is regenerated from /repo on every run (harness/trans_closure.go): every constructor
`F(…) *Processor` whose body is `state declarations; return &Processor{Field: func…}` becomes `F.State` (the captured variables),
`F.init` and one function per closure `F.<Field> : params → F.State → args → (F.State × args assigned through × results)`.

Here each closure is proved equal to the step function of the hand-written model (`Model/Balance.lean`), and — since the model is
formulated per day — the closures folded over a day in the order of `Processor.Process` (`processDay`, for now a hand-written
transcription of that function, tied by the shape fact `Generated.processorCallbackOrder`) are proved equal to the model's day function:

| Go | theorem | model |
|---|---|---|
| `ComputePrices`: `Price`, `DayEnd` | `ComputePrices_Price_agrees`, `ComputePrices_day_agrees` | `Balance.pricesDay` |
| `Valuate`: `DayStart`, `Posting`, `DayEnd` | `Valuate_DayStart_agrees`, `Valuate_Posting_agrees`, `Valuate_DayEnd_agrees`, `Valuate_day_agrees` | `adjustments`/`adjustStep`, `valuePosting`, `addQty`, `valuateDay` |
| `Filter`: `DayEnd` | `Filter_day_agrees` | `filterStage` |
| `CloseAccounts`: init, `DayStart`, `Posting` | `CloseAccounts_init_agrees`, `Close_range_agrees`, `Close_Posting_agrees`, `CloseAccounts_day_agrees` | `closings`, `accumulate`, `closeStage` |

Maps: a Go map keyed by `amounts.Key` against the model's association list keyed by `Position` is agreement of every lookup
(`QEquiv`); Go's nil price map is the model's `none` (`NPEquivO`).  MAP ITERATION ORDER: `Valuate.DayStart` and
`CloseAccounts.DayStart` range over a map; the translated functions take the order as a list `o`, and the theorems hold for EVERY
`o` that reaches all keys: the Go result is the model's result on the same map listed in that order (`qtyIn`); `qtyIn_self` shows
that the model's own order is one of them.  `Src` pointers are arbitrary (`PRel`, `TRel`).  One difference found on the way: the
transactions the processors create go through `transaction.Builder.Build`, which replaces `"` by `'` in the description; the
model's `adjustStep`/`closings` do not (`builtGo`; visible only for account or commodity names containing `"`, never in a report).
-/
namespace Knut.FactsAgree.TransProcess
open Knut Knut.GoSem
open Knut.Generated.Go
open Knut.FactsAgree.TransAccount Knut.FactsAgree.TransPosting Knut.FactsAgree.TransTransaction
open Knut.FactsAgree.TransPrice (cGo NPEquiv)
open Knut.FactsAgree.TransCheck (keyGo keyGo_inj accountGo_inj)

theorem cGo_eq (cur : String → Bool) (c : Knut.Commodity) : cGo cur c = commodityGo cur c := rfl

/-- Go's nil map (`var prices price.NormalizedPrices`) is the model's `none`: no commodity has a price -/
def NPEquivO (cur : String → Bool) (g : price.NormalizedPrices) (m : Option Prices.NPrices) : Prop :=
  ∀ c : Knut.Commodity, Knut.AMap.find? g (cGo cur c) = m.bind (Prices.find c)

theorem NPEquivO_nil (cur : String → Bool) : NPEquivO cur (GoZero.zero : price.NormalizedPrices) none := by
  intro c; rfl

theorem NPEquivO_some {cur : String → Bool} {g : price.NormalizedPrices} {m : Prices.NPrices} (h : NPEquiv cur g m) :
    NPEquivO cur g (some m) := by
  intro c; simpa using h c

/-- `NormalizedPrices.Price` against `Balance.lookupPrice` -/
theorem Price_lookup (cur : String → Bool) {g : price.NormalizedPrices} {m : Option Prices.NPrices} (h : NPEquivO cur g m)
    (c : Knut.Commodity) :
    price.NormalizedPrices.Price g (cGo cur c) =
      match Balance.lookupPrice m c with
      | .ok p => (p, none)
      | .error _ => (0, some ⟨"no price found for %v in %v"⟩) := by
  have hc := h c
  unfold price.NormalizedPrices.Price Balance.lookupPrice
  simp only [Knut.AMap.get, hc]
  cases m with
  | none => simp
  | some m => cases hf : Prices.find c m <;> simp [hf]

theorem Valuate_lookup (cur : String → Bool) {g : price.NormalizedPrices} {m : Option Prices.NPrices} (h : NPEquivO cur g m)
    (c : Knut.Commodity) (a : Rat) :
    price.NormalizedPrices.Valuate g (cGo cur c) a =
      match Balance.lookupPrice m c with
      | .ok p => (Prices.multiply a p, none)
      | .error _ => (0, some ⟨"no price found for %v in %v"⟩) := by
  have hc := h c
  unfold price.NormalizedPrices.Valuate Balance.lookupPrice
  simp only [Knut.AMap.get, hc]
  cases m with
  | none => simp
  | some m => cases hf : Prices.find c m <;> simp [hf, TransPrice.Multiply_agrees]

/-- the Go map of positions and the model's association list answer every lookup alike; every Go key is a position -/
structure QEquiv (cur : String → Bool) (g : amounts.Amounts) (q : Knut.AMap Position Rat) : Prop where
  lookup : ∀ p : Position, Knut.AMap.find? g (keyGo cur p) = Knut.AMap.find? q p
  keys : ∀ k : amounts.Key, (Knut.AMap.find? g k).isSome → ∃ p, k = keyGo cur p

theorem QEquiv_nil (cur : String → Bool) : QEquiv cur ([] : amounts.Amounts) [] :=
  ⟨fun _ => rfl, fun k h => by simp at h⟩

/-- `Amounts.Add` on both sides -/
theorem QEquiv_add {cur : String → Bool} {g : amounts.Amounts} {q : Knut.AMap Position Rat} (h : QEquiv cur g q)
    (p : Position) (x : Rat) :
    QEquiv cur (amounts.Amounts.Add g (keyGo cur p) x) (q.set p (q.get p 0 + x)) := by
  refine ⟨?_, ?_⟩
  · intro r
    simp only [amounts.Amounts.Add, Knut.AMap.find?_set, Knut.AMap.get, h.lookup, Decimal.Add]
    by_cases e : p = r
    · subst e; simp
    · have : keyGo cur p ≠ keyGo cur r := fun x => e (keyGo_inj cur x)
      simp only [this, e, if_false]
  · intro k hk
    simp only [amounts.Amounts.Add, Knut.AMap.find?_set] at hk
    by_cases e : keyGo cur p = k
    · exact ⟨_, e.symm⟩
    · simp only [e, if_false] at hk
      exact h.keys k hk

/-- the state of `Valuate`'s closures against the model's `vPrev`, the day's prices and `vQty` -/
structure VEquiv (cur : String → Bool) (g : journal.Valuate.State) (prev now : Option Prices.NPrices)
    (q : Knut.AMap Position Rat) : Prop where
  prev : NPEquivO cur g.prevPrices prev
  now : NPEquivO cur g.prices now
  qty : QEquiv cur g.quantities q

/-- `Valuate.Posting`, first half, in the model: the quantity of an asset/liability position -/
def addQty1 (q : Knut.AMap Position Rat) (p : Knut.Posting) : Knut.AMap Position Rat :=
  if p.quantity = 0 then q
  else if p.account.isAL then q.set (p.account, p.commodity) (q.get (p.account, p.commodity) 0 + p.quantity)
  else q

theorem addQty_eq (q : Knut.AMap Position Rat) (ts : List Knut.Transaction) :
    Balance.addQty q ts = ts.foldl (fun q t => t.postings.foldl addQty1 q) q := rfl

/-- **`Valuate.Posting`** = `Balance.valuePosting` (the posting with its value) and `addQty1` (the captured quantities); the error is the
missing price, then the posting is unchanged -/
theorem Valuate_Posting_agrees (cur : String → Bool) (v : Knut.Commodity) {g : journal.Valuate.State}
    {prev now : Option Prices.NPrices} {q : Knut.AMap Position Rat} (h : VEquiv cur g prev now q)
    (tg : transaction.Transaction) (src : Ref) (p : Knut.Posting) :
    match journal.Valuate.Posting (cGo cur v) g tg (postingGo cur src p), Balance.valuePosting v now p with
    | (g', p', none), .ok mp => VEquiv cur g' prev now (addQty1 q p) ∧ p' = postingGo cur src mp
    | (g', p', some e), .error _ => VEquiv cur g' prev now (addQty1 q p) ∧ p' = postingGo cur src p ∧
        e = ⟨"no price found for %v in %v"⟩
    | _, _ => False := by
  unfold journal.Valuate.Posting Balance.valuePosting addQty1
  simp only [postingGo, Decimal.IsZero, IsAL_agrees]
  by_cases hz : p.quantity = 0
  · simp only [hz, decide_true, if_true]
    exact ⟨h, by first | rfl | trivial⟩
  · simp only [hz, decide_false, Bool.false_eq_true, if_false]
    have hk : amounts.AccountCommodityKey (accountGo p.account) (commodityGo cur p.commodity) = keyGo cur (p.account, p.commodity) := rfl
    have hq : QEquiv cur (if p.account.isAL = true then amounts.Amounts.Add g.quantities (keyGo cur (p.account, p.commodity)) p.quantity
          else g.quantities)
        (if p.account.isAL = true then q.set (p.account, p.commodity) (q.get (p.account, p.commodity) 0 + p.quantity) else q) := by
      by_cases hal : p.account.isAL = true
      · simp only [hal, if_true]; exact QEquiv_add h.qty _ _
      · simp only [hal, Bool.false_eq_true, if_false]; exact h.qty
    by_cases hv : p.commodity = v
    · subst hv
      simp only [cGo_eq, decide_true, if_true, hk]
      exact ⟨⟨h.prev, h.now, hq⟩, by first | rfl | trivial⟩
    · have hv' : ¬ cGo cur v = commodityGo cur p.commodity := fun e => hv (TransPrice.cGo_inj cur e).symm
      simp only [hv', decide_false, Bool.false_eq_true, if_false, hv, hk]
      rw [← cGo_eq, Valuate_lookup cur h.now]
      cases hl : Balance.lookupPrice now p.commodity with
      | error e => exact ⟨⟨h.prev, h.now, hq⟩, rfl, rfl⟩
      | ok pr => exact ⟨⟨h.prev, h.now, hq⟩, rfl⟩

/-! ## `Valuate.DayStart`: the value adjustments, for every iteration order of the map `quantities` -/

/-- the position a Go key stands for -/
def posOf (k : amounts.Key) : Position := (⟨k.Account.segments⟩, k.Commodity.name)

theorem posOf_keyGo (cur : String → Bool) (p : Position) : posOf (keyGo cur p) = p := rfl

/-- the Go map `g` listed in the iteration order `o` (keys of `o` that are not in the map are skipped, as Go skips them) -/
def qtyIn (g : amounts.Amounts) (o : List amounts.Key) : Knut.AMap Position Rat :=
  o.filterMap (fun k => (Knut.AMap.find? g k).map (fun x => (posOf k, x)))

/-- a transaction that a processor builds through `transaction.Builder.Build`: no source pointers, and the description's double
quotes become single quotes (`JournalPrinter.descText`; the model's `adjustStep`/`closings` keep the description as it is - the two
differ only for account or commodity names that contain `"`) -/
def builtGo (cur : String → Bool) (t : Knut.Transaction) : transaction.Transaction :=
  txGo cur ⟨0⟩ ⟨0⟩ { t with description := JournalPrinter.descText t.description }

theorem adjustStep_acc (v : Knut.Commodity) (date : Int) (prev now : Option Prices.NPrices) (acc : List Knut.Transaction)
    (e : Position × Rat) :
    Balance.adjustStep v date prev now acc e = (Balance.adjustStep v date prev now [] e).map (acc ++ ·) := by
  unfold Balance.adjustStep
  split
  · simp [Except.map]
  · cases Balance.lookupPrice prev e.1.2 with
    | error x => rfl
    | ok pp =>
      cases Balance.lookupPrice now e.1.2 with
      | error x => rfl
      | ok cp =>
        simp only [bind, Except.bind]
        split <;> simp [Except.map]

theorem adjust_foldlM_acc (v : Knut.Commodity) (date : Int) (prev now : Option Prices.NPrices) (l : List (Position × Rat)) :
    ∀ acc : List Knut.Transaction,
    l.foldlM (Balance.adjustStep v date prev now) acc = (l.foldlM (Balance.adjustStep v date prev now) []).map (acc ++ ·) := by
  induction l with
  | nil => intro acc; simp [Except.map, pure, Except.pure]
  | cons e rest ih =>
    intro acc
    simp only [List.foldlM_cons]
    rw [adjustStep_acc]
    cases h : Balance.adjustStep v date prev now [] e with
    | error x => rfl
    | ok a =>
      simp only [Except.map, bind, Except.bind]
      rw [ih (acc ++ a), ih a]
      cases List.foldlM (Balance.adjustStep v date prev now) [] rest with
      | error x => rfl
      | ok r => simp [Except.map]

theorem adjustments_cons (v : Knut.Commodity) (date : Int) (prev now : Option Prices.NPrices) (e : Position × Rat)
    (rest : Knut.AMap Position Rat) :
    Balance.adjustments v date prev now (e :: rest) =
      match Balance.adjustStep v date prev now [] e with
      | .error x => .error x
      | .ok a => (Balance.adjustments v date prev now rest).map (a ++ ·) := by
  unfold Balance.adjustments
  simp only [List.foldlM_cons]
  cases h : Balance.adjustStep v date prev now [] e with
  | error x => rfl
  | ok a =>
    simp only [bind, Except.bind]
    exact adjust_foldlM_acc v date prev now rest a

/-- the model's adjustment transaction (`Balance.adjustStep`) -/
def adjTx (date : Int) (p : Position) (gain : Rat) : Knut.Transaction :=
  { date := date, description := "Adjust value of " ++ p.2 ++ " in account " ++ p.1.name,
    postings := postingBuild (valuationAccountFor p.1) p.1 p.2 0 gain, targets := some [p.2] }

/-- the adjustment transaction of one position, as `Valuate.DayStart` builds it -/
theorem adjust_tx_agrees (cur : String → Bool) (date : Int) (p : Position) (gain : Rat) :
    transaction.Builder.Build
      ⟨(GoZero.zero : Ref), date, "Adjust value of " ++ (commodity.Commodity.Name (commodityGo cur p.2)) ++ " in account " ++
          (account.Account.Name (accountGo p.1)),
        posting.Builder.Build ⟨(GoZero.zero : Ref), (GoZero.zero : Rat), gain, accountGo (valuationAccountFor p.1), accountGo p.1,
          commodityGo cur p.2⟩, [commodityGo cur p.2]⟩ =
      builtGo cur (adjTx date p gain) := by
  rw [TransTransaction.Builder_Build_agrees]
  have := TransPosting.Builder_Build_agrees cur ⟨0⟩ (valuationAccountFor p.1) p.1 p.2 0 gain
  simp only [GoZero.zero] at this ⊢
  rw [this]
  rfl

/-- **the loop of `Valuate.DayStart`** over an arbitrary list of keys = the model's `adjustments` on the map listed in that order -/
theorem DayStart_range_agrees (cur : String → Bool) (v : Knut.Commodity) (ext1 : account.Account → account.Account)
    (hext : ∀ a : Knut.Account, ext1 (accountGo a) = accountGo (valuationAccountFor a))
    {prevG nowG : price.NormalizedPrices} {prev now : Option Prices.NPrices} (hp : NPEquivO cur prevG prev) (hn : NPEquivO cur nowG now)
    (gq : amounts.Amounts) (hkeys : ∀ k : amounts.Key, (Knut.AMap.find? gq k).isSome → ∃ p, k = keyGo cur p) :
    ∀ (o : List amounts.Key) (dg : journal.Day),
      match journal.Valuate.DayStart.range1 ext1 (cGo cur v) prevG nowG gq o dg,
          Balance.adjustments v dg.Date prev now (qtyIn gq o) with
      | Flow.next dg', .ok adj => dg' = { dg with Transactions := dg.Transactions ++ adj.map (builtGo cur) }
      | Flow.ret (g', _, some e), .error _ => g' = ⟨prevG, nowG, gq⟩ ∧ e = ⟨"no price found for %v in %v"⟩
      | _, _ => False := by
  intro o
  induction o with
  | nil => intro dg; simp [journal.Valuate.DayStart.range1, qtyIn, Balance.adjustments, pure, Except.pure]
  | cons k rest ih =>
    intro dg
    unfold journal.Valuate.DayStart.range1
    cases hf : Knut.AMap.find? gq k with
    | none =>
      have : qtyIn gq (k :: rest) = qtyIn gq rest := by simp [qtyIn, hf]
      simp only [Option.isSome_none, Bool.not_false, if_true, this]
      exact ih dg
    | some x =>
      obtain ⟨p, rfl⟩ := hkeys k (by simp [hf])
      have hq : qtyIn gq (keyGo cur p :: rest) = (p, x) :: qtyIn gq rest := by simp [qtyIn, hf, posOf_keyGo]
      simp only [Option.isSome_some, Bool.not_true, Bool.false_eq_true, if_false, hq, adjustments_cons, Knut.AMap.get, hf,
        Option.getD_some]
      have hkc : (keyGo cur p).Commodity = cGo cur p.2 := rfl
      have hka : (keyGo cur p).Account = accountGo p.1 := rfl
      simp only [hkc, hka, IsAL_agrees, Decimal.IsZero]
      unfold Balance.adjustStep
      by_cases h1 : p.2 = v
      · subst h1
        simp only [decide_true, if_true, Bool.true_or]
        have := ih dg
        revert this
        cases Balance.adjustments p.2 dg.Date prev now (qtyIn gq rest) <;> simp [Except.map]
      · have h1' : ¬ cGo cur p.2 = cGo cur v := fun e => h1 (TransPrice.cGo_inj cur e)
        simp only [h1', decide_false, Bool.false_eq_true, if_false, h1, Bool.false_or]
        by_cases h2 : p.1.isAL = true
        · simp only [h2, Bool.not_true, Bool.false_eq_true, if_false, Bool.false_or]
          by_cases h3 : x = 0
          · simp only [h3, decide_true, if_true]
            have := ih dg
            revert this
            cases Balance.adjustments v dg.Date prev now (qtyIn gq rest) <;> simp [Except.map]
          · simp only [h3, decide_false, Bool.false_eq_true, if_false]
            rw [Price_lookup cur hp, Price_lookup cur hn]
            cases hpp : Balance.lookupPrice prev p.2 with
            | error e => simp [bind, Except.bind]
            | ok pp =>
              cases hcp : Balance.lookupPrice now p.2 with
              | error e => simp [bind, Except.bind]
              | ok cp =>
                simp only [Option.isSome_none, Bool.false_eq_true, if_false, bind, Except.bind, Decimal.Sub]
                by_cases h4 : cp - pp = 0
                · simp only [h4, decide_true, if_true]
                  have := ih dg
                  revert this
                  cases Balance.adjustments v dg.Date prev now (qtyIn gq rest) <;> simp [Except.map]
                · simp only [h4, decide_false, Bool.false_eq_true, if_false, hext, TransPrice.Multiply_agrees]
                  have htx := adjust_tx_agrees cur dg.Date p (Prices.multiply (cp - pp) x)
                  simp only [cGo_eq] at htx ⊢
                  rw [htx]
                  have := ih { dg with Transactions := dg.Transactions ++ [builtGo cur (adjTx dg.Date p (Prices.multiply (cp - pp) x))] }
                  revert this
                  simp only [cGo_eq]
                  generalize journal.Valuate.DayStart.range1 ext1 (commodityGo cur v) prevG nowG gq rest _ = R
                  cases Balance.adjustments v dg.Date prev now (qtyIn gq rest) with
                  | error e =>
                    cases R with
                    | next d' => simp [Except.map]
                    | ret r => rcases r with ⟨g', d', _ | e'⟩ <;> simp [Except.map]
                  | ok adj =>
                    cases R with
                    | next d' => simp [Except.map, adjTx]
                    | ret r => rcases r with ⟨g', d', _ | e'⟩ <;> simp [Except.map]
        · simp only [h2, Bool.not_false, if_true, Bool.true_or]
          have := ih dg
          revert this
          cases Balance.adjustments v dg.Date prev now (qtyIn gq rest) <;> simp [Except.map]

/-- **`Valuate.DayStart`**, for every iteration order `o` of the map `quantities`: today's prices are read from the day, and the
transactions appended to the day are the model's `adjustments` on the map listed in that order (built by `transaction.Builder.Build`);
a missing price is the error, then the state only has today's prices -/
theorem Valuate_DayStart_agrees (cur : String → Bool) (v : Knut.Commodity) (ext1 : account.Account → account.Account)
    (hext : ∀ a : Knut.Account, ext1 (accountGo a) = accountGo (valuationAccountFor a))
    {g : journal.Valuate.State} {prev old now : Option Prices.NPrices} {q : Knut.AMap Position Rat} (h : VEquiv cur g prev old q)
    (dg : journal.Day) (hn : NPEquivO cur dg.Normalized now) (o : List amounts.Key) :
    match journal.Valuate.DayStart (cGo cur v) g dg ext1 o, Balance.adjustments v dg.Date prev now (qtyIn g.quantities o) with
    | (g', dg', none), .ok adj => g' = { g with prices := dg.Normalized } ∧
        dg' = { dg with Transactions := dg.Transactions ++ adj.map (builtGo cur) }
    | (g', _, some e), .error _ => g' = { g with prices := dg.Normalized } ∧ e = ⟨"no price found for %v in %v"⟩
    | _, _ => False := by
  unfold journal.Valuate.DayStart
  have := DayStart_range_agrees cur v ext1 hext h.prev hn g.quantities h.qty.keys o dg
  revert this
  dsimp only
  generalize journal.Valuate.DayStart.range1 ext1 (cGo cur v) g.prevPrices dg.Normalized g.quantities o dg = R
  cases Balance.adjustments v dg.Date prev now (qtyIn g.quantities o) with
  | error e =>
    cases R with
    | next d' => simp
    | ret r => rcases r with ⟨g', d', _ | e'⟩ <;> simp
  | ok adj =>
    cases R with
    | next d' => simp
    | ret r => rcases r with ⟨g', d', _ | e'⟩ <;> simp

/-- **`Valuate.DayEnd`**: today's prices become the previous prices -/
theorem Valuate_DayEnd_agrees (g : journal.Valuate.State) (dg : journal.Day) :
    journal.Valuate.DayEnd g dg = ({ g with prevPrices := dg.Normalized }, none) := rfl


/-! ## The per-day callback order of `Processor.Process` (hand-written; to be replaced by the translated function) -/

/-- the callbacks of a `journal.Processor` whose closures share the state `σ`; `none` = the field is nil.  A callback gets the state
and its arguments and answers the new state, the updated value of its LAST pointer argument (what it may have assigned through the
pointer) and the error. -/
structure Proc (σ : Type) where
  DayStart : Option (σ → journal.Day → GoSem.Outcome (σ × journal.Day × Option Error)) := none
  Price : Option (σ → price.Price → GoSem.Outcome (σ × price.Price × Option Error)) := none
  Open : Option (σ → open_.Open → GoSem.Outcome (σ × open_.Open × Option Error)) := none
  Transaction : Option (σ → transaction.Transaction → GoSem.Outcome (σ × transaction.Transaction × Option Error)) := none
  Posting : Option (σ → transaction.Transaction → posting.Posting → GoSem.Outcome (σ × posting.Posting × Option Error)) := none
  Assertion : Option (σ → assertion.Assertion → GoSem.Outcome (σ × assertion.Assertion × Option Error)) := none
  Balance : Option (σ → assertion.Assertion → assertion.Balance → GoSem.Outcome (σ × assertion.Balance × Option Error)) := none
  Close : Option (σ → close.Close → GoSem.Outcome (σ × close.Close × Option Error)) := none
  DayEnd : Option (σ → journal.Day → GoSem.Outcome (σ × journal.Day × Option Error)) := none

variable {σ : Type}

/-- `for _, x := range xs { if err := f(x); err != nil { return err } }` over a slice of pointers: every element is replaced by its
updated value; the loop stops at the first error (the elements after it stay as they were) -/
def forEachE {α : Type} (f : σ → α → GoSem.Outcome (σ × α × Option Error)) : σ → List α → List α → GoSem.Outcome (σ × List α × Option Error)
  | st, [], done => GoSem.Outcome.ok (st, done, none)
  | st, x :: rest, done =>
    (f st x).bind fun r =>
      if r.2.2.isSome then GoSem.Outcome.ok (r.1, done ++ r.2.1 :: rest, r.2.2) else forEachE f r.1 rest (done ++ [r.2.1])

/-- the same for a callback that also gets the enclosing object (`proc.Posting(t, p)`, `proc.Balance(a, &a.Balances[i])`): `ctx`
rebuilds the enclosing object from the elements as they are now -/
def forEachIn {α β : Type} (f : σ → β → α → GoSem.Outcome (σ × α × Option Error)) (ctx : List α → β) :
    σ → List α → List α → GoSem.Outcome (σ × List α × Option Error)
  | st, [], done => GoSem.Outcome.ok (st, done, none)
  | st, x :: rest, done =>
    (f st (ctx (done ++ x :: rest)) x).bind fun r =>
      if r.2.2.isSome then GoSem.Outcome.ok (r.1, done ++ r.2.1 :: rest, r.2.2) else forEachIn f ctx r.1 rest (done ++ [r.2.1])

/-- a step of `Process` on the day; the next step runs only if this one reported no error -/
abbrev DayStep (σ : Type) := σ → journal.Day → GoSem.Outcome (σ × journal.Day × Option Error)

def DayStep.andThen (f k : DayStep σ) : DayStep σ := fun st d =>
  (f st d).bind fun r => if r.2.2.isSome then GoSem.Outcome.ok r else k r.1 r.2.1

def DayStep.skip : DayStep σ := fun st d => GoSem.Outcome.ok (st, d, none)

def optStep (f : Option (DayStep σ)) : DayStep σ := fun st d =>
  match f with
  | none => GoSem.Outcome.ok (st, d, none)
  | some f => f st d

/-- the postings of one transaction -/
def postingsOf (fp : σ → transaction.Transaction → posting.Posting → GoSem.Outcome (σ × posting.Posting × Option Error)) (st : σ)
    (t : transaction.Transaction) : GoSem.Outcome (σ × transaction.Transaction × Option Error) :=
  (forEachIn fp (fun ps => { t with Postings := ps }) st t.Postings []).bind fun r => GoSem.Outcome.ok (r.1, { t with Postings := r.2.1 }, r.2.2)

def balancesOf (fb : σ → assertion.Assertion → assertion.Balance → GoSem.Outcome (σ × assertion.Balance × Option Error)) (st : σ)
    (a : assertion.Assertion) : GoSem.Outcome (σ × assertion.Assertion × Option Error) :=
  (forEachIn fb (fun bs => { a with Balances := bs }) st a.Balances []).bind fun r => GoSem.Outcome.ok (r.1, { a with Balances := r.2.1 }, r.2.2)

/-- `f(t)` then, unless it failed, `g` on the updated `t` -/
def thenOn {α : Type} (f g : σ → α → GoSem.Outcome (σ × α × Option Error)) : σ → α → GoSem.Outcome (σ × α × Option Error) := fun st x =>
  (f st x).bind fun r => if r.2.2.isSome then GoSem.Outcome.ok r else g r.1 r.2.1

def pricesStep (proc : Proc σ) : DayStep σ := fun st d =>
  match proc.Price with
  | none => GoSem.Outcome.ok (st, d, none)
  | some f => (forEachE f st d.Prices []).bind fun r => GoSem.Outcome.ok (r.1, { d with Prices := r.2.1 }, r.2.2)

def opensStep (proc : Proc σ) : DayStep σ := fun st d =>
  match proc.Open with
  | none => GoSem.Outcome.ok (st, d, none)
  | some f => (forEachE f st d.Openings []).bind fun r => GoSem.Outcome.ok (r.1, { d with Openings := r.2.1 }, r.2.2)

/-- `f` on every transaction of the day -/
def onTransactions (f : σ → transaction.Transaction → GoSem.Outcome (σ × transaction.Transaction × Option Error)) : DayStep σ := fun st d =>
  (forEachE f st d.Transactions []).bind fun r => GoSem.Outcome.ok (r.1, { d with Transactions := r.2.1 }, r.2.2)

def txStep (proc : Proc σ) : DayStep σ :=
  match proc.Transaction, proc.Posting with
  | some ft, some fp => onTransactions (thenOn ft (postingsOf fp))
  | some ft, none => onTransactions ft
  | none, some fp => onTransactions (postingsOf fp)
  | none, none => DayStep.skip

def onAssertions (f : σ → assertion.Assertion → GoSem.Outcome (σ × assertion.Assertion × Option Error)) : DayStep σ := fun st d =>
  (forEachE f st d.Assertions []).bind fun r => GoSem.Outcome.ok (r.1, { d with Assertions := r.2.1 }, r.2.2)

def assertStep (proc : Proc σ) : DayStep σ :=
  match proc.Assertion, proc.Balance with
  | some fa, some fb => onAssertions (thenOn fa (balancesOf fb))
  | some fa, none => onAssertions fa
  | none, some fb => onAssertions (balancesOf fb)
  | none, none => DayStep.skip

def closeStep (proc : Proc σ) : DayStep σ := fun st d =>
  match proc.Close with
  | none => GoSem.Outcome.ok (st, d, none)
  | some f => (forEachE f st d.Closings []).bind fun r => GoSem.Outcome.ok (r.1, { d with Closings := r.2.1 }, r.2.2)

/-- **`Processor.Process(d)`** (lib/journal/journal.go): DayStart; Price for every price; Open for every opening; for every
transaction Transaction and then Posting for each of its postings (Posting alone when Transaction is nil); the same for assertions
and their balances; Close for every closing; DayEnd.  The first error ends the day. -/
def processDay (proc : Proc σ) : DayStep σ :=
  (optStep proc.DayStart).andThen <| (pricesStep proc).andThen <| (opensStep proc).andThen <| (txStep proc).andThen <|
    (assertStep proc).andThen <| (closeStep proc).andThen <| optStep proc.DayEnd

/-- the order of the blocks of `Processor.Process` as the fact extractor reads it from the source (`Posting` and `Balance` nest
inside the `Transaction` and `Assertion` blocks) -/
example : Knut.Generated.processorCallbackOrder = ["DayStart", "Price", "Open", "Transaction", "Assertion", "Close", "DayEnd"] := rfl


/-! ## `Valuate` on a whole day -/

/-- elementwise relation of two lists -/
inductive AllRel {α β : Type} (R : α → β → Prop) : List α → List β → Prop
  | nil : AllRel R [] []
  | cons {a : α} {b : β} {as : List α} {bs : List β} : R a b → AllRel R as bs → AllRel R (a :: as) (b :: bs)

/-- a Go posting stands for the model posting (its `Src` is arbitrary) -/
def PRel (cur : String → Bool) (g : posting.Posting) (p : Knut.Posting) : Prop := g = postingGo cur g.Src p

/-- a Go transaction stands for the model transaction: all `Src` pointers are arbitrary; `Targets` is nil (`none`) exactly when the model
transaction has no `@performance` annotation;
the description is the model's or (for a transaction that went through `transaction.Builder.Build`, which the model's processors do
not describe) the model's with `"` replaced by `'` -/
def TRel (cur : String → Bool) (g : transaction.Transaction) (t : Knut.Transaction) : Prop :=
  g.Date = t.date ∧ (g.Description = t.description ∨ g.Description = JournalPrinter.descText t.description) ∧
    AllRel (PRel cur) g.Postings t.postings ∧ g.Targets = t.targets.map (fun tg => tg.map (commodityGo cur))

theorem PRel_postingGo (cur : String → Bool) (src : Ref) (p : Knut.Posting) : PRel cur (postingGo cur src p) p := rfl

theorem TRel_txGo (cur : String → Bool) (s1 s2 : Ref) (t : Knut.Transaction) : TRel cur (txGo cur s1 s2 t) t := by
  refine ⟨rfl, Or.inl rfl, ?_, rfl⟩
  simp only [txGo]
  induction t.postings with
  | nil => exact .nil
  | cons p ps ih => exact .cons rfl ih

theorem TRel_builtGo (cur : String → Bool) (t : Knut.Transaction) : TRel cur (builtGo cur t) t := by
  have := TRel_txGo cur ⟨0⟩ ⟨0⟩ { t with description := JournalPrinter.descText t.description }
  exact ⟨this.1, Or.inr rfl, this.2.2.1, this.2.2.2⟩

theorem AllRel_append {α β : Type} {R : α → β → Prop} {a1 a2 : List α} {b1 b2 : List β} (h1 : AllRel R a1 b1) (h2 : AllRel R a2 b2) :
    AllRel R (a1 ++ a2) (b1 ++ b2) := by
  induction h1 with
  | nil => exact h2
  | cons h _ ih => exact .cons h ih

theorem AllRel_length {α β : Type} {R : α → β → Prop} {as : List α} {bs : List β} (h : AllRel R as bs) : as.length = bs.length := by
  induction h with
  | nil => rfl
  | cons _ _ ih => simp [ih]

theorem AllRel_map {α β : Type} {R : α → β → Prop} (f : β → α) (h : ∀ b, R (f b) b) (bs : List β) : AllRel R (bs.map f) bs := by
  induction bs with
  | nil => exact .nil
  | cons b bs ih => exact .cons (h b) ih

/-- the processor `Valuate(reg, valuation)` returns: its three closures (`Valuate.callbacks`) in the shape `processDay` expects -/
def valuateProc (vG : commodity.Commodity) (ext1 : account.Account → account.Account) (o : List amounts.Key) :
    Proc journal.Valuate.State :=
  { DayStart := some fun st d => GoSem.Outcome.ok (journal.Valuate.DayStart vG st d ext1 o),
    Posting := some fun st t p => GoSem.Outcome.ok (journal.Valuate.Posting vG st t p),
    DayEnd := some fun st d => GoSem.Outcome.ok ((journal.Valuate.DayEnd st d).1, d, (journal.Valuate.DayEnd st d).2) }

/-- the closures that `Valuate` sets are exactly these three -/
example : journal.Valuate.callbacks = ["DayStart", "Posting", "DayEnd"] := rfl
/-- `valuation` is presupposed non-nil (the nil case returns no processor: `Balance.valuationStage` with `cfg.valuation = none`) -/
example : journal.Valuate.nonNil = ["valuation"] := rfl
/-- `ext1` is the registry's `ValuationAccountFor` applied to the position's account -/
example : journal.Valuate.externals =
    ["DayStart.ext1 = reg.Accounts().ValuationAccountFor(pos.Account) [as a function of its 1 arguments]"] := rfl

theorem valuate_postings_loop (cur : String → Bool) (v : Knut.Commodity) (prev now : Option Prices.NPrices)
    (ctx : List posting.Posting → transaction.Transaction) :
    ∀ (mps : List Knut.Posting) (ps done : List posting.Posting) (g : journal.Valuate.State) (q : Knut.AMap Position Rat),
      AllRel (PRel cur) ps mps → VEquiv cur g prev now q →
      match forEachIn (fun st t p => GoSem.Outcome.ok (journal.Valuate.Posting (cGo cur v) st t p)) ctx g ps done,
          mps.mapM (Balance.valuePosting v now) with
      | .ok (g', l, none), .ok mps' => ∃ ps', l = done ++ ps' ∧ AllRel (PRel cur) ps' mps' ∧
          VEquiv cur g' prev now (mps.foldl addQty1 q)
      | .ok (_, _, some e), .error _ => e = ⟨"no price found for %v in %v"⟩
      | _, _ => False := by
  intro mps
  induction mps with
  | nil =>
    intro ps done g q hr hv
    cases hr
    simp only [forEachIn, List.mapM_nil, pure, Except.pure, List.foldl_nil]
    exact ⟨[], by simp, .nil, hv⟩
  | cons mp mps ih =>
    intro ps done g q hr hv
    cases hr with
    | cons hp hrest =>
      rename_i gp gps
      rw [hp]
      simp only [forEachIn, List.mapM_cons, GoSem.Outcome.bind, List.foldl_cons]
      have h1 := Valuate_Posting_agrees cur v hv (ctx (done ++ postingGo cur gp.Src mp :: gps)) gp.Src mp
      revert h1
      generalize journal.Valuate.Posting (cGo cur v) g (ctx (done ++ postingGo cur gp.Src mp :: gps)) (postingGo cur gp.Src mp) = R
      rcases R with ⟨g', p', _ | e⟩
      · cases hvp : Balance.valuePosting v now mp with
        | error x => simp
        | ok mp' =>
          simp only [Option.isSome_none, Bool.false_eq_true, if_false, bind, Except.bind]
          intro ⟨hv', hp'⟩
          have h2 := ih gps (done ++ [p']) g' (addQty1 q mp) hrest hv'
          revert h2
          generalize forEachIn (fun st t p => GoSem.Outcome.ok (journal.Valuate.Posting (cGo cur v) st t p)) ctx g' gps (done ++ [p']) = R2
          cases hm : List.mapM (Balance.valuePosting v now) mps with
          | error x =>
            rcases R2 with ⟨g2, l2, _ | e2⟩ | m | _ <;> simp
          | ok mps' =>
            rcases R2 with ⟨g2, l2, _ | e2⟩ | m | _ <;> simp [pure, Except.pure]
            intro ps' hl hf hv2
            exact ⟨p' :: ps', by simp [hl], .cons (by rw [hp']; rfl) hf, hv2⟩
      · cases hvp : Balance.valuePosting v now mp with
        | error x => simp [bind, Except.bind]
        | ok mp' => simp

theorem valueTx_eq (v : Knut.Commodity) (now : Option Prices.NPrices) (t : Knut.Transaction) :
    Balance.valueTx v now t =
      match t.postings.mapM (Balance.valuePosting v now) with
      | .ok ps => .ok { t with postings := ps }
      | .error e => .error e := by
  unfold Balance.valueTx
  cases List.mapM (Balance.valuePosting v now) t.postings <;> rfl

theorem valuate_tx_loop (cur : String → Bool) (v : Knut.Commodity) (prev now : Option Prices.NPrices) :
    ∀ (mts : List Knut.Transaction) (ts done : List transaction.Transaction) (g : journal.Valuate.State) (q : Knut.AMap Position Rat),
      AllRel (TRel cur) ts mts → VEquiv cur g prev now q →
      match forEachE (postingsOf (fun st t p => GoSem.Outcome.ok (journal.Valuate.Posting (cGo cur v) st t p))) g ts done,
          mts.mapM (Balance.valueTx v now) with
      | .ok (g', l, none), .ok mts' => ∃ ts', l = done ++ ts' ∧ AllRel (TRel cur) ts' mts' ∧
          VEquiv cur g' prev now (Balance.addQty q mts)
      | .ok (_, _, some e), .error _ => e = ⟨"no price found for %v in %v"⟩
      | _, _ => False := by
  intro mts
  induction mts with
  | nil =>
    intro ts done g q hr hv
    cases hr
    simp only [forEachE, List.mapM_nil, pure, Except.pure, addQty_eq, List.foldl_nil]
    exact ⟨[], by simp, .nil, hv⟩
  | cons mt mts ih =>
    intro ts done g q hr hv
    cases hr with
    | cons ht hrest =>
      rename_i gt gts
      simp only [forEachE, List.mapM_cons, postingsOf, addQty_eq, List.foldl_cons]
      rw [valueTx_eq]
      have h1 := valuate_postings_loop cur v prev now
        (fun ps => { gt with Postings := ps }) mt.postings gt.Postings [] g q ht.2.2.1 hv
      revert h1
      generalize forEachIn (fun st t p => GoSem.Outcome.ok (journal.Valuate.Posting (cGo cur v) st t p))
        (fun ps => ({ gt with Postings := ps } : transaction.Transaction)) g gt.Postings [] = R
      cases hm : List.mapM (Balance.valuePosting v now) mt.postings with
      | error x =>
        rcases R with ⟨g1, l1, _ | e1⟩ | m | _ <;> simp [GoSem.Outcome.bind, bind, Except.bind]
      | ok mps' =>
        rcases R with ⟨g1, l1, _ | e1⟩ | m | _ <;> simp only [GoSem.Outcome.bind, bind, Except.bind, List.nil_append, false_imp_iff,
          Option.isSome_none, Bool.false_eq_true, if_false, imp_self]
        · intro ⟨ps', hl, hf, hv1⟩
          subst hl
          have h2 := ih gts (done ++ [{ gt with Postings := l1 }]) g1 (mt.postings.foldl addQty1 q) hrest hv1
          revert h2
          simp only [addQty_eq]
          generalize forEachE _ g1 gts (done ++ [{ gt with Postings := l1 }]) = R2
          cases hm2 : List.mapM (Balance.valueTx v now) mts with
          | error x => rcases R2 with ⟨g2, l2, _ | e2⟩ | m | _ <;> simp
          | ok mts' =>
            rcases R2 with ⟨g2, l2, _ | e2⟩ | m | _ <;> simp [pure, Except.pure]
            intro ts' hl2 hf2 hv2
            exact ⟨{ gt with Postings := l1 } :: ts', by simp [hl2], .cons ⟨ht.1, ht.2.1, hf, ht.2.2.2⟩ hf2, hv2⟩

/-- the map listed in an order that reaches all its keys answers every lookup like the map -/
theorem qtyIn_lookup (cur : String → Bool) (g : amounts.Amounts)
    (hkeys : ∀ k : amounts.Key, (Knut.AMap.find? g k).isSome → ∃ p, k = keyGo cur p) (p : Position) :
    ∀ o : List amounts.Key, Knut.AMap.find? (qtyIn g o) p = if keyGo cur p ∈ o then Knut.AMap.find? g (keyGo cur p) else none := by
  intro o
  induction o with
  | nil => simp [qtyIn]
  | cons k rest ih =>
    cases hf : Knut.AMap.find? g k with
    | none =>
      have : qtyIn g (k :: rest) = qtyIn g rest := by simp [qtyIn, hf]
      rw [this, ih]
      by_cases hk : keyGo cur p = k
      · subst hk; simp [hf]
      · simp [hk]
    | some x =>
      obtain ⟨r, rfl⟩ := hkeys k (by simp [hf])
      have : qtyIn g (keyGo cur r :: rest) = (r, x) :: qtyIn g rest := by simp [qtyIn, hf, posOf_keyGo]
      rw [this]
      simp only [Knut.AMap.find?, List.mem_cons]
      by_cases hr : r = p
      · subst hr; simp [hf]
      · have : ¬ keyGo cur p = keyGo cur r := fun e => hr (keyGo_inj cur e).symm
        simp only [hr, if_false, this, false_or]
        exact ih

theorem QEquiv_qtyIn {cur : String → Bool} {g : amounts.Amounts} {q : Knut.AMap Position Rat} (h : QEquiv cur g q)
    (o : List amounts.Key) (hcov : ∀ k, (Knut.AMap.find? g k).isSome → k ∈ o) : QEquiv cur g (qtyIn g o) := by
  refine ⟨?_, h.keys⟩
  intro p
  rw [qtyIn_lookup cur g h.keys p o]
  by_cases hm : keyGo cur p ∈ o
  · simp [hm]
  · simp only [hm, if_false]
    cases hf : Knut.AMap.find? g (keyGo cur p) with
    | none => rfl
    | some x => exact absurd (hcov _ (by simp [hf])) hm

theorem mapM_append_except {α β ε : Type} (f : α → Except ε β) (xs ys : List α) :
    (xs ++ ys).mapM f = (xs.mapM f).bind fun a => (ys.mapM f).bind fun b => .ok (a ++ b) := by
  induction xs with
  | nil =>
    simp only [List.nil_append, List.mapM_nil, pure, Except.pure, Except.bind]
    cases List.mapM f ys <;> rfl
  | cons x xs ih =>
    simp only [List.cons_append, List.mapM_cons, ih, bind, Except.bind, pure, Except.pure]
    cases f x with
    | error e => rfl
    | ok b =>
      cases List.mapM f xs with
      | error e => rfl
      | ok bs => cases List.mapM f ys <;> rfl

/-- **`Valuate` on one day**: `Processor.Process` with the three closures of `Valuate` = the model's `Balance.valuateDay`, for
EVERY iteration order `o` of the map `quantities` that reaches all its keys (the model's `vQty` is that map listed in that order):
the day's transactions afterwards stand for the model's (the day's own, then the value adjustments; all valued), the captured
state again stands for the model state, and a missing price fails the day on both sides. -/
theorem Valuate_day_agrees (cur : String → Bool) (v : Knut.Commodity) (ext1 : account.Account → account.Account)
    (hext : ∀ a : Knut.Account, ext1 (accountGo a) = accountGo (valuationAccountFor a))
    {g : journal.Valuate.State} (st : BalState) {old : Option Prices.NPrices} {q : Knut.AMap Position Rat}
    (h : VEquiv cur g st.vPrev old q) (o : List amounts.Key) (hcov : ∀ k, (Knut.AMap.find? g.quantities k).isSome → k ∈ o)
    (dg : journal.Day) (d : Knut.Day) (hd : dg.Date = d.date) (hn : NPEquivO cur dg.Normalized st.norm)
    (htx : AllRel (TRel cur) dg.Transactions d.transactions) :
    match processDay (valuateProc (cGo cur v) ext1 o) g dg,
        Balance.valuateDay v { st with vQty := qtyIn g.quantities o } d with
    | .ok (g', dg', none), .ok (st', txs) => VEquiv cur g' st'.vPrev st.norm st'.vQty ∧
        ∃ l, dg' = { dg with Transactions := l } ∧ AllRel (TRel cur) l txs
    | .ok (_, _, some e), .error _ => e = ⟨"no price found for %v in %v"⟩
    | _, _ => False := by
  have hq := QEquiv_qtyIn h.qty o hcov
  have h1 := Valuate_DayStart_agrees cur v ext1 hext h dg hn o
  unfold processDay valuateProc Balance.valuateDay
  simp only [optStep, pricesStep, opensStep, txStep, assertStep, closeStep, DayStep.andThen, DayStep.skip, GoSem.Outcome.bind,
    Option.isSome_none, Bool.false_eq_true, if_false, onTransactions]
  rw [hd] at h1
  revert h1
  generalize journal.Valuate.DayStart (cGo cur v) g dg ext1 o = R
  cases hadj : Balance.adjustments v d.date st.vPrev st.norm (qtyIn g.quantities o) with
  | error x =>
    rcases R with ⟨g1, d1, _ | e1⟩ <;> simp [bind, Except.bind]
  | ok adj =>
    rcases R with ⟨g1, d1, _ | e1⟩ <;> simp only [bind, Except.bind, Option.isSome_none, Bool.false_eq_true, if_false, false_imp_iff, and_imp]
    · intro hg1 hd1
      subst hg1 hd1
      have hv1 : VEquiv cur { g with prices := dg.Normalized } st.vPrev st.norm (qtyIn g.quantities o) := ⟨h.prev, hn, hq⟩
      have h2 := valuate_tx_loop cur v st.vPrev st.norm (d.transactions ++ adj) (dg.Transactions ++ adj.map (builtGo cur)) []
        { g with prices := dg.Normalized } (qtyIn g.quantities o)
        (AllRel_append htx (AllRel_map _ (TRel_builtGo cur) adj)) hv1
      revert h2
      generalize forEachE _ ({ g with prices := dg.Normalized } : journal.Valuate.State) (dg.Transactions ++ adj.map (builtGo cur)) [] = R2
      cases hm : List.mapM (Balance.valueTx v st.norm) (d.transactions ++ adj) with
      | error x => rcases R2 with ⟨g2, l2, _ | e2⟩ | m | _ <;> simp
      | ok txs =>
        rcases R2 with ⟨g2, l2, _ | e2⟩ | m | _ <;> simp [Valuate_DayEnd_agrees]
        intro hl hv2
        exact ⟨⟨hn, hv2.now, hv2.qty⟩, l2, ⟨hd.symm, rfl⟩, hl⟩

/-! ## `ComputePrices` -/

/-- a price directive of the model as the Go value -/
def priceGo (cur : String → Bool) (src : Ref) (p : Knut.Price) : price.Price :=
  ⟨src, p.date, cGo cur p.commodity, p.price, cGo cur p.target⟩

def PriceRel (cur : String → Bool) (g : price.Price) (p : Knut.Price) : Prop := g = priceGo cur g.Src p

/-- the state of `ComputePrices`'s closures against the model's price graph and last normalisation -/
structure CPEquiv (cur : String → Bool) (g : journal.ComputePrices.State) (graph : Prices.Prices) (norm : Option Prices.NPrices) : Prop where
  prc : TransPrice.PEquivS cur g.prc graph
  previous : NPEquivO cur g.previous norm

/-- `ComputePrices.Price` in the shape `processDay` expects (the price directive itself is not changed) -/
def cpPrice (st : journal.ComputePrices.State) (p : price.Price) : GoSem.Outcome (journal.ComputePrices.State × price.Price × Option Error) :=
  (journal.ComputePrices.Price st p).bind fun r => GoSem.Outcome.ok (r.1, p, r.2)

/-- the processor `ComputePrices(v)` returns; `fuel` bounds the breadth-first search of `Prices.Normalize` (an explicit parameter of
the translated function) -/
def computePricesProc (vG : commodity.Commodity) (fuel : Nat) : Proc journal.ComputePrices.State :=
  { Price := some cpPrice, DayEnd := some fun st d => journal.ComputePrices.DayEnd vG st d fuel }

example : journal.ComputePrices.callbacks = ["Price", "DayEnd"] := rfl
example : journal.ComputePrices.nonNil = ["v"] := rfl
example : journal.ComputePrices.externals = [] := rfl

/-- the fold of `Balance.pricesDay` over the day's prices -/
def insertPrices (graph : Prices.Prices) (ps : List Knut.Price) : Except BalErr Prices.Prices :=
  ps.foldlM (fun g p => match Prices.insert g ⟨p.commodity, p.price, p.target⟩ with
    | some g' => .ok g'
    | none => .error BalErr.zeroPrice) graph

theorem insertPrices_cons (graph : Prices.Prices) (p : Knut.Price) (ps : List Knut.Price) :
    insertPrices graph (p :: ps) =
      match Prices.insert graph ⟨p.commodity, p.price, p.target⟩ with
      | some g' => insertPrices g' ps
      | none => .error BalErr.zeroPrice := by
  simp only [insertPrices, List.foldlM_cons]
  cases Prices.insert graph ⟨p.commodity, p.price, p.target⟩ <;> rfl

theorem pricesDay_eq (v : Knut.Commodity) (st : BalState) (d : Knut.Day) :
    Balance.pricesDay v st d =
      match insertPrices st.graph d.prices with
      | .ok g => .ok { st with graph := g, norm := if d.prices.isEmpty then st.norm else some (Prices.normalize g v) }
      | .error e => .error e := by
  change (insertPrices st.graph d.prices >>= fun g =>
    Except.ok { st with graph := g, norm := if d.prices.isEmpty then st.norm else some (Prices.normalize g v) }) = _
  cases insertPrices st.graph d.prices <;> rfl

/-- **`ComputePrices.Price`** = `Prices.insert` (`Prices.Insert` on the captured price map) -/
theorem ComputePrices_Price_agrees (cur : String → Bool) {g : journal.ComputePrices.State} {graph : Prices.Prices}
    {norm : Option Prices.NPrices} (h : CPEquiv cur g graph norm) (src : Ref) (p : Knut.Price) :
    match cpPrice g (priceGo cur src p), Prices.insert graph ⟨p.commodity, p.price, p.target⟩ with
    | .ok (g', p', none), some graph' => CPEquiv cur g' graph' norm ∧ p' = priceGo cur src p
    | .ok (_, _, some e), none => e = ⟨"invalid price %s for commodity %s in %s"⟩
    | _, _ => False := by
  unfold cpPrice journal.ComputePrices.Price
  simp only [priceGo]
  have h1 := TransPrice.Insert_agreesS cur h.prc ⟨p.commodity, p.price, p.target⟩
  have h1' := TransPrice.Insert_agrees cur h.prc.toPEquiv ⟨p.commodity, p.price, p.target⟩
  revert h1 h1'
  generalize price.Prices.Insert g.prc (cGo cur p.commodity) p.price (cGo cur p.target) = R
  cases hi : Prices.insert graph ⟨p.commodity, p.price, p.target⟩ with
  | none => rcases R with ⟨g1, _ | e1⟩ | m | _ <;> simp [GoSem.Outcome.bind]
  | some graph1 =>
    rcases R with ⟨g1, _ | e1⟩ | m | _ <;> simp [GoSem.Outcome.bind]
    intro hg1 _
    exact ⟨hg1, h.previous⟩

/-- `ComputePrices.Price` on every price of the day = the model's inserts -/
theorem computePrices_loop (cur : String → Bool) :
    ∀ (mps : List Knut.Price) (ps done : List price.Price) (g : journal.ComputePrices.State) (graph : Prices.Prices)
      (norm : Option Prices.NPrices), AllRel (PriceRel cur) ps mps → CPEquiv cur g graph norm →
      match forEachE cpPrice g ps done, insertPrices graph mps with
      | .ok (g', l, none), .ok graph' => l = done ++ ps ∧ CPEquiv cur g' graph' norm
      | .ok (_, _, some e), .error _ => e = ⟨"invalid price %s for commodity %s in %s"⟩
      | _, _ => False := by
  intro mps
  induction mps with
  | nil =>
    intro ps done g graph norm hr hv
    cases hr
    simp only [forEachE, insertPrices, List.foldlM_nil, pure, Except.pure]
    exact ⟨by simp, hv⟩
  | cons mp mps ih =>
    intro ps done g graph norm hr hv
    cases hr with
    | cons hp hrest =>
      rename_i gp gps
      rw [hp]
      simp only [forEachE, insertPrices_cons]
      have h1 := ComputePrices_Price_agrees cur hv gp.Src mp
      revert h1
      generalize cpPrice g (priceGo cur gp.Src mp) = R
      cases hi : Prices.insert graph ⟨mp.commodity, mp.price, mp.target⟩ with
      | none => rcases R with ⟨g1, p1, _ | e1⟩ | m | _ <;> simp [GoSem.Outcome.bind]
      | some graph1 =>
        rcases R with ⟨g1, p1, _ | e1⟩ | m | _ <;> simp [GoSem.Outcome.bind]
        intro hg1 hp1
        subst hp1
        have h2 := ih gps (done ++ [priceGo cur gp.Src mp]) g1 graph1 norm hrest hg1
        revert h2
        generalize forEachE cpPrice g1 gps _ = R2
        cases insertPrices graph1 mps with
        | error x => rcases R2 with ⟨g2, l2, _ | e2⟩ | m | _ <;> simp
        | ok graph2 =>
          rcases R2 with ⟨g2, l2, _ | e2⟩ | m | _ <;> simp

/-- **`ComputePrices` on one day** = `Balance.pricesDay`: the prices of the day are inserted (a zero price fails the day), the
normalisation is recomputed when the day has prices — for every `fuel` that is at least the model's termination measure of the
search — and stored in `d.Normalized`, where `Valuate` reads it -/
theorem ComputePrices_day_agrees (cur : String → Bool) (v : Knut.Commodity) (fuel : Nat) {g : journal.ComputePrices.State}
    (st : BalState) (h : CPEquiv cur g st.graph st.norm) (dg : journal.Day) (d : Knut.Day)
    (hps : AllRel (PriceRel cur) dg.Prices d.prices)
    (hfuel : ∀ graph', insertPrices st.graph d.prices = .ok graph' → Prices.unvisited graph' [(v, 1)] + 1 ≤ fuel) :
    match processDay (computePricesProc (cGo cur v) fuel) g dg, Balance.pricesDay v st d with
    | .ok (g', dg', none), .ok st' => CPEquiv cur g' st'.graph st'.norm ∧ dg' = { dg with Normalized := g'.previous } ∧
        st'.vPrev = st.vPrev ∧ st'.vQty = st.vQty
    | .ok (_, _, some e), .error _ => e = ⟨"invalid price %s for commodity %s in %s"⟩
    | _, _ => False := by
  have h1 := computePrices_loop cur d.prices dg.Prices [] g st.graph st.norm hps h
  unfold processDay computePricesProc
  rw [pricesDay_eq]
  simp only [optStep, pricesStep, opensStep, txStep, assertStep, closeStep, DayStep.andThen, DayStep.skip, GoSem.Outcome.bind,
    Option.isSome_none, Bool.false_eq_true, if_false]
  revert h1
  generalize forEachE cpPrice g dg.Prices [] = R
  cases hins : insertPrices st.graph d.prices with
  | error x => rcases R with ⟨g1, l1, _ | e1⟩ | m | _ <;> simp
  | ok graph' =>
    rcases R with ⟨g1, l1, _ | e1⟩ | m | _ <;> simp only [List.nil_append, false_imp_iff, and_imp,
      Option.isSome_none, Bool.false_eq_true, if_false, imp_self]
    intro hl hc
    subst hl
    have hlen : dg.Prices.length = d.prices.length := AllRel_length hps
    unfold journal.ComputePrices.DayEnd
    by_cases hempty : d.prices = []
    · have : dg.Prices = [] := List.eq_nil_of_length_eq_zero (by simp [hlen, hempty])
      simp [this, hempty, GoSem.Outcome.bind]
      exact ⟨hc.prc, hc.previous⟩
    · have hpos : 0 < dg.Prices.length := by
        rw [hlen]; exact List.length_pos_iff.mpr hempty
      have hne : d.prices.isEmpty = false := by simpa using hempty
      obtain ⟨gres, e1, e2⟩ := TransPrice.Normalize_agrees cur hc.prc v fuel (hfuel graph' hins)
      simp [hpos, hne, e1, GoSem.Outcome.bind]
      exact ⟨hc.prc, NPEquivO_some e2⟩

/-! ## `Filter` -/

/-- the processor `Filter(part)` returns -/
def filterProc (part : date.Partition) : Proc journal.Filter.State :=
  { DayEnd := some fun st d => GoSem.Outcome.ok (journal.Filter.DayEnd part st d) }

example : journal.Filter.callbacks = ["DayEnd"] := rfl
example : journal.Filter.nonNil = [] ∧ journal.Filter.externals = [] := ⟨rfl, rfl⟩

/-- **`Filter` on one day** = `Balance.filterStage`: outside the partition's span the day loses its transactions -/
theorem Filter_day_agrees (cur : String → Bool) (cfg : BalCfg) (part : Knut.Partition) (hspan : part.span = cfg.span)
    (g : journal.Filter.State) (dg : journal.Day) (d : Knut.Day) (hd : dg.Date = d.date) (txs : List Knut.Transaction)
    (htx : AllRel (TRel cur) dg.Transactions txs) :
    ∃ l, processDay (filterProc (TransDate.partitionGo part)) g dg = .ok (g, { dg with Transactions := l }, none) ∧
      AllRel (TRel cur) l (Balance.filterStage cfg d txs) := by
  unfold processDay filterProc Balance.filterStage
  simp only [optStep, pricesStep, opensStep, txStep, assertStep, closeStep, DayStep.andThen, DayStep.skip, GoSem.Outcome.bind,
    Option.isSome_none, Bool.false_eq_true, if_false, journal.Filter.DayEnd, TransDate.Partition_Contains_agrees,
    Knut.Partition.contains, hspan, ← hd]
  by_cases hc : cfg.span.contains dg.Date = true
  · exact ⟨dg.Transactions, by simp [hc], by simpa [hc] using htx⟩
  · exact ⟨[], by simp [hc], by simpa [hc] using AllRel.nil⟩

/-! ## `CloseAccounts` -/

/-- the state of `CloseAccounts`'s closures against the model: the closing days are the given dates, the equity account is
`Equity:Equity`, the accumulated quantities and values answer every lookup alike -/
structure CEquiv (cur : String → Bool) (g : journal.CloseAccounts.State) (dates : List Int) (cQty cVal : Knut.AMap Position Rat) : Prop where
  days : ∀ t : Int, set.Set.Has g.closingDays t = dates.contains t
  equity : g.equityAccount = accountGo equityAccount
  qty : QEquiv cur g.quantities cQty
  val : QEquiv cur g.values cVal

/-- the processor `CloseAccounts(j, reg, true, partition)` returns -/
def closeProc (o : List amounts.Key) : Proc journal.CloseAccounts.State :=
  { DayStart := some fun st d => GoSem.Outcome.ok (journal.CloseAccounts.DayStart st d o),
    Posting := some fun st t p => GoSem.Outcome.ok ((journal.CloseAccounts.Posting st t p).1, p, (journal.CloseAccounts.Posting st t p).2) }

example : journal.CloseAccounts.callbacks = ["DayStart", "Posting"] := rfl
example : journal.CloseAccounts.nonNil = [] := rfl
/-- `ext1` = the set of the days at the partition's start dates (days are identified by their date), `ext2` = `Equity:Equity` -/
example : journal.CloseAccounts.externals =
    ["init.ext1 = set.FromSlice(j.Days(partition.StartDates()))", "init.ext2 = reg.Accounts().MustGet(\"Equity:Equity\")"] := rfl

/-- **`CloseAccounts`, the statements before the closures**: no processor without `--close`; otherwise empty accumulators, the
closing days and the equity account as the two untranslated calls deliver them -/
theorem CloseAccounts_init_agrees (cur : String → Bool) (j : journal.Builder) (enable : Bool) (part : date.Partition)
    (ext1 : set.Set Int) (dates : List Int) (hext1 : ∀ t : Int, set.Set.Has ext1 t = dates.contains t) :
    match journal.CloseAccounts.init j enable part ext1 (accountGo equityAccount) with
    | none => enable = false
    | some g => enable = true ∧ CEquiv cur g dates [] [] := by
  unfold journal.CloseAccounts.init
  cases enable with
  | false => simp
  | true => simp; exact ⟨hext1, rfl, QEquiv_nil cur, QEquiv_nil cur⟩

/-- the model's closing transaction of one position -/
def closeTx (date : Int) (p : Position) (q v : Rat) : Knut.Transaction :=
  { date := date, description := "Closing account " ++ p.1.name ++ " in " ++ p.2, postings := postingBuild p.1 equityAccount p.2 q v }

theorem close_tx_agrees (cur : String → Bool) (date : Int) (p : Position) (q v : Rat) :
    transaction.Builder.Build
      ⟨(GoZero.zero : Ref), date, "Closing account " ++ (account.Account.Name (accountGo p.1)) ++ " in " ++
          (commodity.Commodity.Name (commodityGo cur p.2)),
        posting.Builder.Build ⟨(GoZero.zero : Ref), q, v, accountGo p.1, accountGo equityAccount, commodityGo cur p.2⟩,
        (GoZero.zero : Option (List commodity.Commodity))⟩ =
      builtGo cur (closeTx date p q v) := by
  rw [TransTransaction.Builder_Build_agrees]
  have := TransPosting.Builder_Build_agrees cur ⟨0⟩ p.1 equityAccount p.2 q v
  simp only [GoZero.zero] at this ⊢
  rw [this]
  rfl

theorem closings_cons (date : Int) (e : Position × Rat) (rest cVal : Knut.AMap Position Rat) :
    Balance.closings date (e :: rest) cVal =
      (if e.2 = 0 ∧ cVal.get e.1 0 = 0 then [] else [closeTx date e.1 e.2 (cVal.get e.1 0)]) ++ Balance.closings date rest cVal := by
  obtain ⟨⟨a, c⟩, q⟩ := e
  unfold Balance.closings
  simp only [List.filterMap_cons]
  by_cases h : q = 0 ∧ Knut.AMap.get cVal (a, c) 0 = 0
  · simp [h]
  · have : (decide (q = 0) && decide (Knut.AMap.get cVal (a, c) 0 = 0)) = false := by
      by_cases h1 : q = 0 <;> by_cases h2 : Knut.AMap.get cVal (a, c) 0 = 0 <;> simp_all
    simp [this, h, closeTx]

/-- **the loop of `CloseAccounts.DayStart`** over an arbitrary list of keys = the model's `closings` on the map listed in that order -/
theorem Close_range_agrees (cur : String → Bool) (gq gv : amounts.Amounts) (cVal : Knut.AMap Position Rat) (hv : QEquiv cur gv cVal)
    (hkeys : ∀ k : amounts.Key, (Knut.AMap.find? gq k).isSome → ∃ p, k = keyGo cur p) :
    ∀ (o : List amounts.Key) (dg : journal.Day),
      journal.CloseAccounts.DayStart.range1 (accountGo equityAccount) gq gv o dg =
        { dg with Transactions := dg.Transactions ++ (Balance.closings dg.Date (qtyIn gq o) cVal).map (builtGo cur) } := by
  intro o
  induction o with
  | nil => intro dg; simp [journal.CloseAccounts.DayStart.range1, qtyIn, Balance.closings]
  | cons k rest ih =>
    intro dg
    unfold journal.CloseAccounts.DayStart.range1
    cases hf : Knut.AMap.find? gq k with
    | none =>
      have : qtyIn gq (k :: rest) = qtyIn gq rest := by simp [qtyIn, hf]
      simp only [Option.isSome_none, Bool.not_false, if_true, this]
      exact ih dg
    | some x =>
      obtain ⟨p, rfl⟩ := hkeys k (by simp [hf])
      have hq : qtyIn gq (keyGo cur p :: rest) = (p, x) :: qtyIn gq rest := by simp [qtyIn, hf, posOf_keyGo]
      have hval : Knut.AMap.get gv (keyGo cur p) (GoZero.zero : Rat) = cVal.get p 0 := by
        simp only [Knut.AMap.get, hv.lookup]; rfl
      simp only [Option.isSome_some, Bool.not_true, Bool.false_eq_true, if_false, hq, closings_cons, Knut.AMap.get, hf,
        Option.getD_some, Decimal.IsZero]
      simp only [Knut.AMap.get] at hval
      simp only [hval]
      by_cases hz : x = 0 ∧ (Knut.AMap.find? cVal p).getD 0 = 0
      · simp only [hz.1, hz.2, decide_true, Bool.and_self, if_true, and_self, List.nil_append]
        exact ih dg
      · have hz' : (decide (x = 0) && decide ((Knut.AMap.find? cVal p).getD 0 = 0)) = false := by
          by_cases h1 : x = 0 <;> by_cases h2 : (Knut.AMap.find? cVal p).getD 0 = 0 <;> simp_all
        simp only [hz', Bool.false_eq_true, if_false, hz]
        have hkc : (keyGo cur p).Commodity = commodityGo cur p.2 := rfl
        have hka : (keyGo cur p).Account = accountGo p.1 := rfl
        rw [hkc, hka, close_tx_agrees cur dg.Date p x _, ih]
        simp

/-- `CloseAccounts.Posting` in the model: one posting of `Balance.accumulate` -/
def accPosting (st : BalState) (p : Knut.Posting) : BalState :=
  if p.account.isAL || p.account = equityAccount then st
  else
    let k : Position := (p.account, p.commodity)
    { st with cQty := st.cQty.set k (st.cQty.get k 0 + p.quantity), cVal := st.cVal.set k (st.cVal.get k 0 + p.value) }

theorem accumulate_eq (st : BalState) (ts : List Knut.Transaction) :
    Balance.accumulate st ts = ts.foldl (fun st t => t.postings.foldl accPosting st) st := rfl

/-- `CloseAccounts.Posting` in the shape `processDay` expects (the posting itself is not changed) -/
def clPosting (st : journal.CloseAccounts.State) (t : transaction.Transaction) (p : posting.Posting) :
    GoSem.Outcome (journal.CloseAccounts.State × posting.Posting × Option Error) :=
  GoSem.Outcome.ok ((journal.CloseAccounts.Posting st t p).1, p, (journal.CloseAccounts.Posting st t p).2)

/-- **`CloseAccounts.Posting`** = one step of `Balance.accumulate` -/
theorem Close_Posting_agrees (cur : String → Bool) {g : journal.CloseAccounts.State} {dates : List Int} {st : BalState}
    (h : CEquiv cur g dates st.cQty st.cVal) (tg : transaction.Transaction) (src : Ref) (p : Knut.Posting) :
    ∃ g', journal.CloseAccounts.Posting g tg (postingGo cur src p) = (g', none) ∧
      CEquiv cur g' dates (accPosting st p).cQty (accPosting st p).cVal := by
  unfold journal.CloseAccounts.Posting accPosting
  simp only [postingGo, IsAL_agrees, h.equity]
  by_cases hal : p.account.isAL = true
  · simp only [hal, if_true, Bool.true_or]
    exact ⟨_, rfl, h.days, rfl, h.qty, h.val⟩
  · simp only [hal, Bool.false_eq_true, if_false, Bool.false_or]
    by_cases heq : p.account = equityAccount
    · simp only [heq, decide_true, if_true]
      exact ⟨_, rfl, h.days, rfl, h.qty, h.val⟩
    · have heq' : ¬ accountGo p.account = accountGo equityAccount := fun e => heq (accountGo_inj e)
      simp only [heq, heq', decide_false, Bool.false_eq_true, if_false]
      have hk : amounts.AccountCommodityKey (accountGo p.account) (commodityGo cur p.commodity) = keyGo cur (p.account, p.commodity) := rfl
      exact ⟨_, rfl, h.days, rfl, by rw [hk]; exact QEquiv_add h.qty _ _, by rw [hk]; exact QEquiv_add h.val _ _⟩

theorem close_postings_loop (cur : String → Bool) (dates : List Int) (ctx : List posting.Posting → transaction.Transaction) :
    ∀ (mps : List Knut.Posting) (ps done : List posting.Posting) (g : journal.CloseAccounts.State) (st : BalState),
      AllRel (PRel cur) ps mps → CEquiv cur g dates st.cQty st.cVal →
      ∃ g', forEachIn clPosting ctx g ps done = .ok (g', done ++ ps, none) ∧
        CEquiv cur g' dates (mps.foldl accPosting st).cQty (mps.foldl accPosting st).cVal := by
  intro mps
  induction mps with
  | nil =>
    intro ps done g st hr hv
    cases hr
    exact ⟨g, by simp [forEachIn], hv⟩
  | cons mp mps ih =>
    intro ps done g st hr hv
    cases hr with
    | cons hp hrest =>
      rename_i gp gps
      rw [hp]
      obtain ⟨g1, e1, hv1⟩ := Close_Posting_agrees cur hv (ctx (done ++ postingGo cur gp.Src mp :: gps)) gp.Src mp
      obtain ⟨g2, e2, hv2⟩ := ih gps (done ++ [postingGo cur gp.Src mp]) g1 (accPosting st mp) hrest hv1
      refine ⟨g2, ?_, hv2⟩
      simp only [forEachIn, clPosting, GoSem.Outcome.bind, e1, Option.isSome_none, Bool.false_eq_true, if_false]
      rw [e2]
      simp

theorem close_tx_loop (cur : String → Bool) (dates : List Int) :
    ∀ (mts : List Knut.Transaction) (ts done : List transaction.Transaction) (g : journal.CloseAccounts.State) (st : BalState),
      AllRel (TRel cur) ts mts → CEquiv cur g dates st.cQty st.cVal →
      ∃ g', forEachE (postingsOf clPosting) g ts done = .ok (g', done ++ ts, none) ∧
        CEquiv cur g' dates (Balance.accumulate st mts).cQty (Balance.accumulate st mts).cVal := by
  intro mts
  induction mts with
  | nil =>
    intro ts done g st hr hv
    cases hr
    exact ⟨g, by simp [forEachE], hv⟩
  | cons mt mts ih =>
    intro ts done g st hr hv
    cases hr with
    | cons ht hrest =>
      rename_i gt gts
      obtain ⟨g1, e1, hv1⟩ := close_postings_loop cur dates (fun ps => { gt with Postings := ps }) mt.postings gt.Postings [] g st
        ht.2.2.1 hv
      obtain ⟨g2, e2, hv2⟩ := ih gts (done ++ [gt]) g1 (mt.postings.foldl accPosting st) hrest hv1
      refine ⟨g2, ?_, hv2⟩
      simp only [forEachE, postingsOf, GoSem.Outcome.bind, e1, List.nil_append, Option.isSome_none, Bool.false_eq_true, if_false]
      rw [e2]
      simp

/-- **`CloseAccounts` on one day** = `Balance.closeStage` with `--close`, for EVERY iteration order `o` of the map `quantities`
that reaches all its keys: on a closing day one closing transaction per accumulated position that is not zero is appended (built by
`transaction.Builder.Build`), then all the day's postings outside assets, liabilities and `Equity:Equity` are accumulated -/
theorem CloseAccounts_day_agrees (cur : String → Bool) (cfg : BalCfg) (hclose : cfg.close = true)
    {g : journal.CloseAccounts.State} (st : BalState) {q : Knut.AMap Position Rat}
    (h : CEquiv cur g (cfg.periods.map (·.start)) q st.cVal) (o : List amounts.Key)
    (hcov : ∀ k, (Knut.AMap.find? g.quantities k).isSome → k ∈ o)
    (dg : journal.Day) (d : Knut.Day) (hd : dg.Date = d.date) (txs : List Knut.Transaction)
    (htx : AllRel (TRel cur) dg.Transactions txs) :
    ∃ g' l, processDay (closeProc o) g dg = .ok (g', { dg with Transactions := l }, none) ∧
      AllRel (TRel cur) l (Balance.closeStage cfg { st with cQty := qtyIn g.quantities o } d txs).2 ∧
      CEquiv cur g' (cfg.periods.map (·.start)) (Balance.closeStage cfg { st with cQty := qtyIn g.quantities o } d txs).1.cQty
        (Balance.closeStage cfg { st with cQty := qtyIn g.quantities o } d txs).1.cVal := by
  obtain ⟨cd, ea, gq, gv⟩ := g
  have hea := h.equity
  simp only at hea
  subst hea
  have hq := QEquiv_qtyIn h.qty o hcov
  have hg : CEquiv cur ⟨cd, accountGo equityAccount, gq, gv⟩ (cfg.periods.map (·.start)) (qtyIn gq o) st.cVal := ⟨h.days, rfl, hq, h.val⟩
  have hP : (fun st t p => GoSem.Outcome.ok ((journal.CloseAccounts.Posting st t p).1, p, (journal.CloseAccounts.Posting st t p).2)) = clPosting := rfl
  have hdays := h.days
  simp only at hdays hq
  unfold processDay closeProc Balance.closeStage
  simp only [optStep, pricesStep, opensStep, txStep, assertStep, closeStep, DayStep.andThen, DayStep.skip, GoSem.Outcome.bind,
    Option.isSome_none, Bool.false_eq_true, if_false, onTransactions, hclose, if_true, journal.CloseAccounts.DayStart, hdays, ← hd, hP]
  by_cases hday : (cfg.periods.map (·.start)).contains dg.Date = true
  · simp only [hday, Bool.not_true, Bool.false_eq_true, if_false, if_true]
    rw [Close_range_agrees cur gq gv st.cVal h.val h.qty.keys o dg]
    have hall := AllRel_append htx (AllRel_map _ (TRel_builtGo cur) (Balance.closings dg.Date (qtyIn gq o) st.cVal))
    obtain ⟨g', e, hv⟩ := close_tx_loop cur (cfg.periods.map (·.start)) _ _ [] _ { st with cQty := qtyIn gq o } hall hg
    refine ⟨g', _, ?_, hall, hv⟩
    simp only [e]
    simp
  · simp only [hday, Bool.not_false, if_true, Bool.false_eq_true, if_false, List.append_nil]
    obtain ⟨g', e, hv⟩ := close_tx_loop cur (cfg.periods.map (·.start)) _ _ [] _ { st with cQty := qtyIn gq o } htx hg
    refine ⟨g', _, ?_, htx, hv⟩
    simp only [e]
    simp

/-! ## The model's own order is one of the iteration orders; non-vacuity -/

/-- listing the Go map in the order of the model's association list gives back that list: the theorems above, instantiated with
this order, speak about the model state itself -/
theorem qtyIn_self (cur : String → Bool) {g : amounts.Amounts} {q : Knut.AMap Position Rat} (h : QEquiv cur g q)
    (hnd : (q.map Prod.fst).Nodup) : qtyIn g (q.map (fun e => keyGo cur e.1)) = q := by
  unfold qtyIn
  rw [List.filterMap_map]
  have : ∀ e ∈ q, ((fun k => (Knut.AMap.find? g k).map (fun x => (posOf k, x))) ∘ (fun e : Position × Rat => keyGo cur e.1)) e = some e := by
    intro e he
    simp only [Function.comp, h.lookup, posOf_keyGo]
    rw [TransCheck.find?_of_mem_nodup hnd (show (e.1, e.2) ∈ q from he)]
    rfl
  generalize ((fun k => (Knut.AMap.find? g k).map (fun x => (posOf k, x))) ∘ (fun e : Position × Rat => keyGo cur e.1)) = f at this
  clear hnd h
  induction q with
  | nil => rfl
  | cons e rest ih =>
    rw [List.filterMap_cons, this e (List.mem_cons_self ..)]
    simp only
    rw [ih (fun x hx => this x (List.mem_cons_of_mem _ hx))]

/-- … and that order reaches every key of the Go map -/
theorem self_order_covers (cur : String → Bool) {g : amounts.Amounts} {q : Knut.AMap Position Rat} (h : QEquiv cur g q) :
    ∀ k, (Knut.AMap.find? g k).isSome → k ∈ q.map (fun e => keyGo cur e.1) := by
  intro k hk
  obtain ⟨p, rfl⟩ := h.keys k hk
  rw [h.lookup] at hk
  obtain ⟨x, hx⟩ := Option.isSome_iff_exists.mp hk
  exact List.mem_map.mpr ⟨(p, x), TransCheck.mem_of_find? hx, rfl⟩

/-- non-vacuity: 10 USD at the day's price 2 are valued at 20 CHF and the asset position is recorded -/
example : journal.Valuate.Posting ⟨"CHF", false⟩ ⟨[], [(⟨"USD", false⟩, 2)], []⟩ GoZero.zero
    (postingGo (fun _ => false) ⟨0⟩ ⟨⟨["Assets", "A"]⟩, ⟨["Income", "B"]⟩, "USD", 10, 0⟩) =
    (⟨[], [(⟨"USD", false⟩, 2)], [(keyGo (fun _ => false) (⟨["Assets", "A"]⟩, "USD"), 10)]⟩,
      postingGo (fun _ => false) ⟨0⟩ ⟨⟨["Assets", "A"]⟩, ⟨["Income", "B"]⟩, "USD", 10, 20⟩, none) := by decide +kernel

/-- non-vacuity: the price of USD rose from 2 to 3: the open position of 10 USD gets one value adjustment of 10 CHF -/
example : ((journal.Valuate.DayStart ⟨"CHF", false⟩
      ⟨[(⟨"USD", false⟩, 2)], [], [(keyGo (fun _ => false) (⟨["Assets", "A"]⟩, "USD"), 10)]⟩
      { (GoZero.zero : journal.Day) with Date := 7, Normalized := [(⟨"USD", false⟩, 3)] }
      (fun a => accountGo (valuationAccountFor ⟨a.segments⟩))
      [keyGo (fun _ => false) (⟨["Assets", "A"]⟩, "USD")]).2.1.Transactions.map
        (fun t => (t.Description, t.Postings.map (fun p => (p.Account.name, p.Value))))) =
    [("Adjust value of USD in account Assets:A", [("Income:A", -10), ("Assets:A", 10)])] := by decide +kernel

/-- non-vacuity: a missing price fails the day -/
example : (journal.Valuate.Posting ⟨"CHF", false⟩ ⟨[], [], []⟩ GoZero.zero
    (postingGo (fun _ => false) ⟨0⟩ ⟨⟨["Assets", "A"]⟩, ⟨["Income", "B"]⟩, "USD", 10, 0⟩)).2.2 =
    some ⟨"no price found for %v in %v"⟩ := by decide +kernel

/-- non-vacuity: without `--close` there is no processor; with it, a closing day closes an accumulated expense -/
example : journal.CloseAccounts.init GoZero.zero false GoZero.zero [] (accountGo equityAccount) = none := by decide +kernel
example : ((journal.CloseAccounts.DayStart
      ⟨[(7, ())], accountGo equityAccount, [(keyGo (fun _ => false) (⟨["Expenses", "Food"]⟩, "CHF"), 5)], []⟩
      { (GoZero.zero : journal.Day) with Date := 7 } [keyGo (fun _ => false) (⟨["Expenses", "Food"]⟩, "CHF")]).2.1.Transactions.map
        (fun t => (t.Description, t.Postings.map (fun p => (p.Account.name, p.Quantity))))) =
    [("Closing account Expenses:Food in CHF", [("Expenses:Food", -5), ("Equity:Equity", 5)])] := by decide +kernel

end Knut.FactsAgree.TransProcess
