package main

import (
	"fmt"
	"os"
	"path/filepath"
	"sort"
	"strings"
	"time"

	"github.com/shopspring/decimal"
)

func init() { runners["C16"] = runC16 }

// ---------------------------------------------------------------- a small line-based beancount reader

type c16Posting struct {
	Account string
	Amount  string
	Cur     string
}

type c16Entry struct {
	Kind     byte // 'o' open, 'c' close, 't' transaction
	Day      int
	Account  string // o, c
	Desc     string // t
	Postings []c16Posting
}

// c16Read reads the text `knut transcode` writes: the option line, then open / close / transaction entries,
// each followed by a blank line. A transaction is `<date> * "<description>"` (the description may span lines
// but cannot contain a double quote) followed by posting lines `  <account> <amount> <currency>`.
func c16Read(text string) (currency string, entries []c16Entry, err error) {
	const head = "option \"operating_currency\" \""
	if !strings.HasPrefix(text, head) {
		return "", nil, fmt.Errorf("no option line")
	}
	rest := text[len(head):]
	q := strings.Index(rest, "\"\n\n")
	if q < 0 {
		return "", nil, fmt.Errorf("unterminated option line")
	}
	currency = rest[:q]
	rest = rest[q+3:]
	line := func() string {
		k := strings.IndexByte(rest, '\n')
		if k < 0 {
			l := rest
			rest = ""
			return l
		}
		l := rest[:k]
		rest = rest[k+1:]
		return l
	}
	for rest != "" {
		if len(rest) < 11 {
			return currency, entries, fmt.Errorf("trailing garbage %q", rest)
		}
		t, perr := time.Parse("2006-01-02", rest[:10])
		if perr != nil {
			return currency, entries, fmt.Errorf("bad date %q", rest[:10])
		}
		day := dayNum(t)
		rest = rest[10:]
		switch {
		case strings.HasPrefix(rest, " open "), strings.HasPrefix(rest, " close "):
			kind := byte('o')
			if strings.HasPrefix(rest, " close ") {
				kind = 'c'
				rest = rest[len(" close "):]
			} else {
				rest = rest[len(" open "):]
			}
			acc := line()
			if acc == "" || strings.ContainsAny(acc, " \t\"") {
				return currency, entries, fmt.Errorf("bad account %q", acc)
			}
			if line() != "" {
				return currency, entries, fmt.Errorf("no blank line after open/close of %s", acc)
			}
			entries = append(entries, c16Entry{Kind: kind, Day: day, Account: acc})
		case strings.HasPrefix(rest, " * \""):
			rest = rest[len(" * \""):]
			k := strings.IndexByte(rest, '"')
			if k < 0 || !strings.HasPrefix(rest[k:], "\"\n") {
				return currency, entries, fmt.Errorf("unterminated description")
			}
			e := c16Entry{Kind: 't', Day: day, Desc: rest[:k]}
			rest = rest[k+2:]
			for strings.HasPrefix(rest, "  ") {
				f := strings.Split(strings.TrimPrefix(line(), "  "), " ")
				if len(f) != 3 || f[0] == "" {
					return currency, entries, fmt.Errorf("bad posting line %q", strings.Join(f, " "))
				}
				if _, derr := decimal.NewFromString(f[1]); derr != nil {
					return currency, entries, fmt.Errorf("bad amount %q", f[1])
				}
				e.Postings = append(e.Postings, c16Posting{f[0], f[1], f[2]})
			}
			if line() != "" {
				return currency, entries, fmt.Errorf("no blank line after transaction %q", e.Desc)
			}
			entries = append(entries, e)
		default:
			return currency, entries, fmt.Errorf("unknown entry %q", clipN(rest, 40))
		}
	}
	return currency, entries, nil
}

// c16Wire is the entry list in the driver's form (see lean/Knut/Driver/C16.lean).
func c16Wire(es []c16Entry) string {
	if len(es) == 0 {
		return "-"
	}
	parts := make([]string, len(es))
	for i, e := range es {
		switch e.Kind {
		case 'o', 'c':
			parts[i] = fmt.Sprintf("%c~%d~%s", e.Kind, e.Day, Hex(e.Account))
		default:
			ps := make([]string, len(e.Postings))
			for k, p := range e.Postings {
				ps[k] = Hex(p.Account) + "," + p.Amount
			}
			pf := strings.Join(ps, ";")
			if pf == "" {
				pf = "-"
			}
			parts[i] = fmt.Sprintf("t~%d~%s~%s", e.Day, Hex(e.Desc), pf)
		}
	}
	return strings.Join(parts, "|")
}

// ---------------------------------------------------------------- the ledger invariants, evaluated in Go on the real output

func c16IsAL(a string) bool {
	return a == "Assets" || a == "Liabilities" || strings.HasPrefix(a, "Assets:") || strings.HasPrefix(a, "Liabilities:")
}

// c16ValuationAccount is Registry.ValuationAccountFor: Income + the path without its first segment.
func c16ValuationAccount(a string) string {
	segs := strings.Split(a, ":")
	return strings.Join(append([]string{"Income"}, segs[1:]...), ":")
}

// c16AdjustmentLeg: account is the generated valuation account of the asset/liability account whose value adjustment e is.
func c16AdjustmentLeg(e c16Entry, account string) bool {
	const pre = "Adjust value of "
	for _, q := range e.Postings {
		suf := " in account " + q.Account
		if c16IsAL(q.Account) && account == c16ValuationAccount(q.Account) && len(e.Desc) >= len(pre)+len(suf) &&
			strings.HasPrefix(e.Desc, pre) && strings.HasSuffix(e.Desc, suf) {
			return true
		}
	}
	return false
}

// c16OpenOn: some open of a dated o <= day with no close of a dated in [o, day).
func c16OpenOn(es []c16Entry, a string, day int) bool {
	for _, o := range es {
		if o.Kind != 'o' || o.Account != a || o.Day > day {
			continue
		}
		closed := false
		for _, c := range es {
			if c.Kind == 'c' && c.Account == a && o.Day <= c.Day && c.Day < day {
				closed = true
				break
			}
		}
		if !closed {
			return true
		}
	}
	return false
}

type c16Verdict struct {
	Unbalanced   []string
	OutOfOrder   []string
	Unopened     []string // uses of accounts that are not open, other than generated valuation accounts
	UnopenedVal  []string // generated valuation accounts that are never opened (known finding)
	WrongCur     []string
	AdjustmentTx int
	UserTx       int
}

func c16Evaluate(cur string, es []c16Entry) c16Verdict {
	var v c16Verdict
	for i, e := range es {
		if i > 0 && es[i-1].Day > e.Day {
			v.OutOfOrder = append(v.OutOfOrder, fmt.Sprintf("entry %d (%s) follows %s", i, fmtDate(e.Day), fmtDate(es[i-1].Day)))
		}
		if e.Kind != 't' {
			continue
		}
		sum := decimal.Zero
		isAdj := false
		for _, p := range e.Postings {
			d, _ := decimal.NewFromString(p.Amount)
			sum = sum.Add(d)
			if p.Cur != c16Strip(cur) {
				v.WrongCur = append(v.WrongCur, p.Cur)
			}
			if !c16OpenOn(es, p.Account, e.Day) {
				use := fmt.Sprintf("%s in %s %q", p.Account, fmtDate(e.Day), e.Desc)
				if c16AdjustmentLeg(e, p.Account) {
					v.UnopenedVal = append(v.UnopenedVal, use)
				} else {
					v.Unopened = append(v.Unopened, use)
				}
			}
			if c16AdjustmentLeg(e, p.Account) {
				isAdj = true
			}
		}
		if isAdj {
			v.AdjustmentTx++
		} else {
			v.UserTx++
		}
		if !sum.IsZero() {
			v.Unbalanced = append(v.Unbalanced, fmt.Sprintf("%s %q sums to %s", fmtDate(e.Day), e.Desc, sum))
		}
	}
	return v
}

func c16Strip(v string) string {
	var b strings.Builder
	for _, ch := range v {
		if (ch >= 'a' && ch <= 'z') || (ch >= 'A' && ch <= 'Z') {
			b.WriteRune(ch)
		} else {
			b.WriteByte('X')
		}
	}
	return b.String()
}

// ---------------------------------------------------------------- generators

type c16Case struct {
	Stream string
	Idx    int
	J      *Journal
	Text   string
	V      string // the -v argument
	NoV    bool   // no -v flag at all
	Tags   []string
	Code   int
	Stdout string
	Stderr string
	Env    string   // stream bigfiles: the environment variable the command ran under (GOMAXPROCS=n)
	Tree   *c16Tree // stream trees: the journal as written (an include tree); J is then the union of the members' directives
	Extra  []string // stream flags: further flags (`--name=value`), the ones `transcode --help` offers and the check has no model of
}

func (tc *c16Case) Args(path string) []string {
	if tc.NoV {
		return []string{"transcode", path}
	}
	return append(append([]string{"transcode", "-v", tc.V}, tc.Extra...), path)
}

func (tc *c16Case) Input() map[string]any {
	a := "transcode -v " + tc.V + " FILE"
	if len(tc.Extra) > 0 {
		a = "transcode -v " + tc.V + " " + strings.Join(tc.Extra, " ") + " FILE"
	}
	if tc.NoV {
		a = "transcode FILE"
	}
	in := map[string]any{"journal": tc.Text, "args": a, "wire_journal": tc.J.Wire()}
	if tc.Env != "" {
		in["env"] = tc.Env
	}
	if tc.Tree != nil {
		tc.Tree.describe(in)
	}
	return in
}

func c16RenameAccount(j *Journal, from, to string) {
	ren := func(s string) string {
		if s == from {
			return to
		}
		if strings.HasPrefix(s, from+":") {
			return to + s[len(from):]
		}
		return s
	}
	for i := range j.Dirs {
		d := &j.Dirs[i]
		d.Account = ren(d.Account)
		for k := range d.Balances {
			d.Balances[k].Account = ren(d.Balances[k].Account)
		}
		bks := append([]JBook(nil), d.Bookings...)
		for k := range bks {
			bks[k].Credit, bks[k].Debit = ren(bks[k].Credit), ren(bks[k].Debit)
		}
		d.Bookings = bks
	}
}

// c16Ties makes the per-day transaction sort meet ties: equal descriptions on a day, a transaction followed by
// its exact reversal (net zero, so that the generator's balance assertions stay true), exact duplicates of such a pair.
func c16Ties(r *RNG, j *Journal) bool {
	var out []JDir
	changed := false
	for _, d := range j.Dirs {
		if d.Kind != 't' || d.Accrual != nil {
			out = append(out, d)
			continue
		}
		if r.Chance(1, 2) {
			d.Desc = Pick(r, []string{"same", "same", "Same", "", "Adjust value of USD in account Assets:Bank"})
			changed = true
		}
		out = append(out, d)
		if r.Chance(1, 3) {
			rev := d
			rev.Bookings = nil
			for _, b := range d.Bookings {
				rev.Bookings = append(rev.Bookings, JBook{b.Debit, b.Credit, b.Qty, b.Com})
			}
			n := 1
			if r.Chance(1, 3) {
				n = 2
			}
			for k := 0; k < n; k++ {
				if k > 0 {
					out = append(out, d)
				}
				out = append(out, rev)
			}
			changed = true
		}
	}
	j.Dirs = out
	return changed
}

var c16Valuations = []string{"CHF", "CHF", "CHF", "USD", "EUR", "CH2", "Ünit", "X9Y", "chf"}

func c16GenCase(c *Ctx, stream string, i int, malformed bool) *c16Case {
	lifecycle := stream == "lifecycle" || (stream == "trees" && i%3 == 1)
	return c16GenPart(c.Rng(stream, i), stream, i, malformed, lifecycle, "")
}

// c16GenPart generates one journal; forceVal != "" fixes the valuation commodity (stream epochs: the parts of one
// journal are valued in the same commodity).
func c16GenPart(r *RNG, stream string, i int, malformed, lifecycle bool, forceVal string) *c16Case {
	val := Pick(r, c16Valuations)
	if forceVal != "" {
		val = forceVal
	}
	o := JGenOpts{MaxAccounts: r.Range(2, 8), MaxDays: r.Range(1, 9), Unicode: true, BaseDay: 737000 + r.Intn(1500),
		SpanDays: Pick(r, []int{0, 1, 5, 12, 40, 400}), ManyDecimals: r.Chance(1, 2), Prices: true, Valuation: val, ChainPrices: r.Chance(1, 3),
		ManyPricesPerDay: r.Chance(1, 4), DupPrices: r.Chance(1, 4)}
	if malformed {
		o.Mutate = r.Chance(1, 2)
		o.DropPrices = r.Chance(1, 3)
	}
	if lifecycle {
		// accounts that hold positions over night, are emptied (wholly, partly, in several bookings), closed on the emptying
		// day or later, re-opened and used again, over more days than the other streams have
		o.BookOut = true
		o.MaxDays = r.Range(3, 14)
		o.MaxAccounts = r.Range(2, 6)
		o.SpanDays = Pick(r, []int{3, 6, 13, 20, 40, 400})
	}
	j, tags := GenJournal(r, o)
	tc := &c16Case{Stream: stream, Idx: i, J: j, V: val, Tags: tags}
	if r.Chance(1, 6) {
		// a user account under the prefix beancount.Transcode looks for
		for _, d := range j.Dirs {
			if d.Kind == 'o' && strings.HasPrefix(d.Account, "Equity:") {
				c16RenameAccount(j, d.Account, "Equity:Valuation:"+strings.ReplaceAll(strings.TrimPrefix(d.Account, "Equity:"), ":", ""))
				tc.Tags = append(tc.Tags, "user-account-with-valuation-prefix")
				break
			}
		}
	}
	if r.Chance(1, 2) && c16Ties(r, j) {
		tc.Tags = append(tc.Tags, "sort-ties")
	}
	if r.Chance(2, 3) {
		// re-price commodities on later days (also on days without any other directive, and after the last one), so that
		// value adjustments occur; sometimes with the unchanged price (no adjustment then)
		var prices []JDir
		lo, hi := 1<<30, 0
		for _, d := range j.Dirs {
			if d.Kind == 'p' {
				prices = append(prices, d)
			}
			lo, hi = min(lo, d.Date), max(hi, d.Date)
		}
		for k := r.Range(1, 4); k > 0 && len(prices) > 0; k-- {
			pd := Pick(r, prices)
			pd.Date = lo + r.Intn(hi-lo+3)
			if !r.Chance(1, 5) {
				pd.Price = fmt.Sprintf("%d.%0*d", r.Range(0, 300), r.Range(1, 4), r.Range(1, 9))
			}
			j.Dirs = append(j.Dirs, pd)
			tc.Tags = append(tc.Tags, "re-priced")
		}
	}
	if lifecycle {
		// prices keep moving while accounts are emptied, closed and re-opened: further quotes of already quoted pairs on the
		// quote's day or any later day of the journal (also between its days and after the last one); with such a quote on
		// a closing day the closed account's last value adjustment is due, after it none may follow
		var prices []JDir
		hi := 0
		for _, d := range j.Dirs {
			if d.Kind == 'p' {
				prices = append(prices, d)
			}
			hi = max(hi, d.Date)
		}
		var days []int
		seen := map[int]bool{}
		for _, d := range j.Dirs {
			if !seen[d.Date] {
				seen[d.Date] = true
				days = append(days, d.Date)
			}
		}
		days = append(days, hi+1, hi+2)
		for k := r.Range(0, 2*len(days)); k > 0 && len(prices) > 0; k-- {
			pd := Pick(r, prices)
			day := Pick(r, days)
			if r.Chance(1, 4) {
				day = pd.Date + r.Intn(hi-pd.Date+3)
			}
			if day < pd.Date {
				continue
			}
			pd.Date = day
			pd.Price = fmt.Sprintf("%d.%0*d", r.Range(0, 300), r.Range(1, 4), r.Range(1, 9))
			j.Dirs = append(j.Dirs, pd)
			tc.Tags = append(tc.Tags, "re-priced")
		}
	}
	if malformed {
		switch r.Intn(8) {
		case 0:
			tc.NoV = true
			tc.Tags = append(tc.Tags, "no-valuation-flag")
		case 1:
			tc.V = Pick(r, []string{"", "A-B", "$", "C HF", "CHF:", "\"", "É!"})
			tc.Tags = append(tc.Tags, "invalid-valuation")
		case 2:
			tc.V = Pick(r, []string{"NOPE", "ZZZ"}) // a commodity without any price
			tc.Tags = append(tc.Tags, "unpriced-valuation")
		case 3:
			if len(j.Dirs) > 0 { // a zero price cannot be inserted
				d := j.Dirs[r.Intn(len(j.Dirs))].Date
				j.Dirs = append(j.Dirs, JDir{Kind: 'p', Date: d, Com: "USD", Price: Pick(r, []string{"0", "0.00"}), Target: val})
				tc.Tags = append(tc.Tags, "zero-price")
			}
		case 4:
			if len(j.Dirs) > 0 { // a booking in a commodity that never gets a price
				d := j.Dirs[len(j.Dirs)-1].Date
				for _, x := range j.Dirs {
					if x.Kind == 'o' {
						j.Dirs = append(j.Dirs, JDir{Kind: 't', Date: d, Desc: "unpriced", Bookings: []JBook{{x.Account, x.Account, "1", "NOPRICE"}}})
						tc.Tags = append(tc.Tags, "unpriced-commodity")
						break
					}
				}
			}
		}
	}
	tc.Text, _ = j.Text()
	return tc
}

// ---------------------------------------------------------------- stream "epochs": journals whose days lie centuries apart
//
// The property speaks about every journal the syntax admits: any date from 0001-01-01 to 9999-12-31.  The other streams
// keep to the years 2018-2033.  Here a journal is made of 1-4 independently generated parts (the generator of the main
// stream, a third of them lifecycle journals) in the same valuation commodity whose accounts are kept apart by a last
// segment of their own; every part is moved in time as a whole (centuries into the past or the future), stretched by
// WidenDates (a prefix of its days to 1320-1675, a suffix to 2270-9920, order kept), or laid across a date at which some
// representation of time ends (Unix nanoseconds in an int64, Unix seconds in an int32, the Unix epoch, years of three and
// of four digits, the last day there is).  A part carries its own opens and prices, so the days of a part stay valid in
// whatever order the parts are processed: a ledger whose days come out in another order than that of the calendar is
// printed, not refused, and the monitors see it.
//
// (Seeded change C16-i compared days by UnixNano(): days before 1677-09-21 and after 2262-04-11 went to the wrong end.)

var c16Cliffs = []struct {
	Name    string
	Y, M, D int
}{
	{"unixnano-min", 1677, 9, 21}, {"unixnano-max", 2262, 4, 11}, {"unix-epoch", 1970, 1, 1}, {"unix-int32-max", 2038, 1, 19},
	{"unix-int32-min", 1901, 12, 13}, {"unix-uint32-max", 2106, 2, 7}, {"gregorian", 1582, 10, 15}, {"year-1000", 1000, 1, 1},
	{"year-9999", 9999, 12, 31}, {"year-2000", 2000, 1, 1}, {"year-2100", 2100, 3, 1}, {"year-1", 1, 1, 1},
}

func c16Span(j *Journal) (lo, hi int) {
	lo, hi = 1<<30, -1<<30
	for _, d := range j.Dirs {
		lo, hi = min(lo, d.Date), max(hi, d.Date)
	}
	return
}

func c16AddSegment(j *Journal, seg string) {
	for i := range j.Dirs {
		d := &j.Dirs[i]
		if d.Account != "" {
			d.Account += ":" + seg
		}
		bals := append([]JBal(nil), d.Balances...)
		for k := range bals {
			bals[k].Account += ":" + seg
		}
		d.Balances = bals
		bks := append([]JBook(nil), d.Bookings...)
		for k := range bks {
			bks[k].Credit, bks[k].Debit = bks[k].Credit+":"+seg, bks[k].Debit+":"+seg
		}
		d.Bookings = bks
	}
}

func c16GenEpochs(c *Ctx, i int) *c16Case {
	const stream = "epochs"
	r := c.Rng(stream, i)
	val := Pick(r, c16Valuations)
	n := Pick(r, []int{1, 2, 2, 2, 3, 3, 4})
	tc := &c16Case{Stream: stream, Idx: i, V: val}
	tc.Tags = append(tc.Tags, fmt.Sprintf("epochs:parts=%d", n))
	var parts [][]JDir
	for p := 0; p < n; p++ {
		part := c16GenPart(c.Rng(fmt.Sprintf("%s/part%d", stream, p), i), stream, i, false, r.Chance(1, 3), val)
		j := part.J
		if n > 1 {
			c16AddSegment(j, Pick(r, []string{"P", "Q", "Era", "Z"})+fmt.Sprint(p))
		}
		where := "ordinary"
		if len(j.Dirs) > 0 {
			lo, hi := c16Span(j)
			by := 0
			switch r.Intn(8) {
			case 0, 1:
			case 2:
				by, where = -365*r.Range(345, 700), "past"
			case 3:
				by, where = 365*r.Range(250, 7900), "future"
			case 4, 5:
				if WidenDates(r, j) {
					where = "widened"
				}
			default:
				// a day of the part, or a date between two of its days, comes to lie on (or next to) the cliff
				cl := Pick(r, c16Cliffs)
				at := dayNum(time.Date(cl.Y, time.Month(cl.M), cl.D, 0, 0, 0, 0, time.UTC))
				pivot := lo + r.Intn(hi-lo+1)
				if r.Chance(1, 2) {
					pivot = j.Dirs[r.Intn(len(j.Dirs))].Date
				}
				by, where = at-pivot+r.Intn(3)-1, "cliff:"+cl.Name
			}
			// 0001-01-01 ... 9999-12-31
			by = max(min(by, maxDay-hi), -lo)
			for k := range j.Dirs {
				j.Dirs[k].Date += by
			}
		}
		tc.Tags = append(tc.Tags, part.Tags...)
		tc.Tags = append(tc.Tags, "epochs:"+where)
		parts = append(parts, j.Dirs)
	}
	// the order in the file is not the order of the calendar: the parts one after the other (in any order), or dealt
	// into one another (every part's directives in their order: which of two quotes of a day wins is the file order)
	for k := n - 1; k > 0; k-- {
		m := r.Intn(k + 1)
		parts[k], parts[m] = parts[m], parts[k]
	}
	var all []JDir
	if r.Chance(1, 2) {
		for _, ds := range parts {
			all = append(all, ds...)
		}
	} else {
		left := 0
		for _, ds := range parts {
			left += len(ds)
		}
		for left > 0 {
			k := r.Intn(left)
			for p := range parts {
				if k < len(parts[p]) {
					all = append(all, parts[p][0])
					parts[p] = parts[p][1:]
					break
				}
				k -= len(parts[p])
			}
			left--
		}
		tc.Tags = append(tc.Tags, "epochs:interleaved")
	}
	tc.J = &Journal{Dirs: all}
	tc.Text, _ = tc.J.Text()
	return tc
}

func (tc *c16Case) run(c *Ctx, dir string) {
	path := filepath.Join(dir, fmt.Sprintf("%s%d.knut", tc.Stream, tc.Idx+100000))
	os.WriteFile(path, []byte(tc.Text), 0o644)
	tc.Code, tc.Stdout, tc.Stderr = runKnut(c.KnutBin, 20*time.Second, nil, tc.Args(path)...)
	os.Remove(path)
}

func (tc *c16Case) implOutcome() string {
	switch {
	case strings.Contains(tc.Stderr, "panic:") || strings.Contains(tc.Stderr, "goroutine "):
		return "panic"
	case tc.Code == 0:
		return "ok " + Hex(tc.Stdout)
	case tc.Code == -2:
		return "timeout"
	default:
		return "error"
	}
}

// c16Check compares one case with the model and evaluates the ledger invariants on the real output.
// It reports whether the model and the implementation agree.
func c16Check(c *Ctx, bt *Batch, tc *c16Case, agreed *bool) {
	c.Evals++
	in := tc.Input()
	impl := tc.implOutcome()
	for _, t := range tc.Tags {
		c.Tag(t)
	}
	vf := "none"
	if !tc.NoV {
		vf = Hex(tc.V)
	}
	wire := tc.J.Wire()
	bt.Add(func(model string) {
		if model == "unsupported" {
			c.Tag("model-unsupported")
			return
		}
		im, mo := impl, modelOutcomeCanon(model)
		if tc.Tree != nil && tc.Tree.Scatter {
			// opens (closes) of one day stand in several files: their order in the day's list is the order in which the
			// parsers of the files finish
			im, mo = c16LooseOutcome(im), c16LooseOutcome(mo)
		}
		if !c.Compare(tc.Stream, tc.Idx, "transcode", in, im, mo) {
			*agreed = false
			f := &c.Findings[len(c.Findings)-1]
			if strings.HasPrefix(model, "ok ") {
				f.Model = clip(UnHex(strings.TrimPrefix(model, "ok ")))
			}
			f.Impl = clip(fmt.Sprintf("exit %d\n%s\n%s", tc.Code, tc.Stdout, tc.Stderr))
		}
	}, "transcode", vf, wire)
	sig := []string{}
	for _, t := range tc.Tags {
		switch t {
		case "sort-ties", "user-account-with-valuation-prefix", "price-chained", "price-inverse", "close", "unicode", "zero-amount", "negative-amount":
			sig = append(sig, t[:4])
		case "book-out", "close-on-emptying-day":
			sig = append(sig, t)
		}
		if strings.HasPrefix(t, "epochs:") {
			sig = append(sig, t)
		}
		if strings.HasPrefix(t, "mutated:") || strings.HasSuffix(t, "-valuation") || strings.HasSuffix(t, "-flag") || strings.HasPrefix(t, "unpriced") || t == "zero-price" {
			sig = append(sig, t)
		}
	}
	if tc.Code != 0 {
		c.Tag("rejected")
		c.Class(fmt.Sprintf("c16/%s/%s/n%s", strings.Fields(impl)[0], strings.Join(dedup(sig), "+"), bucket(len(tc.J.Dirs))))
		// a failing command writes nothing to stdout and never panics
		c.Monitor(tc.Stream, tc.Idx, "clean_failure", in, impl == "error" && tc.Stdout == "" && strings.TrimSpace(tc.Stderr) != "",
			fmt.Sprintf("exit %d stdout %q stderr %q", tc.Code, clip(tc.Stdout), clip(tc.Stderr)))
		return
	}
	c.Tag("accepted")
	cur, es, err := c16Read(tc.Stdout)
	if !c.Monitor(tc.Stream, tc.Idx, "beancount_readable", in, err == nil, fmt.Sprintf("%v\n%s", err, tc.Stdout)) {
		return
	}
	v := c16Evaluate(cur, es)
	if v.AdjustmentTx > 0 {
		c.Tag("value-adjustments")
		sig = append(sig, "adj")
	}
	if len(v.UnopenedVal) > 0 {
		sig = append(sig, "valacc")
	}
	c.Class(fmt.Sprintf("c16/ok/%s/v%s/tx%s/n%s", strings.Join(dedup(sig), "+"), tc.V, bucket(v.UserTx+v.AdjustmentTx), bucket(len(tc.J.Dirs))))
	out := "\n" + tc.Stdout
	c.Monitor(tc.Stream, tc.Idx, "operating_currency", in, cur == tc.V && len(v.WrongCur) == 0,
		fmt.Sprintf("option names %q, -v is %q, postings in %v%s", cur, tc.V, v.WrongCur, out))
	c.Monitor(tc.Stream, tc.Idx, "balanced", in, len(v.Unbalanced) == 0, strings.Join(v.Unbalanced, "; ")+out)
	c.Monitor(tc.Stream, tc.Idx, "chronological", in, len(v.OutOfOrder) == 0, strings.Join(v.OutOfOrder, "; ")+out)
	c.Monitor(tc.Stream, tc.Idx, "open_before_use_and_not_after_close", in, len(v.Unopened) == 0, "not open: "+strings.Join(v.Unopened, "; ")+out)
	if len(v.UnopenedVal) > 0 {
		c.MonitorKnown(tc.Stream, tc.Idx, "open_before_use_and_not_after_close", in, "generated valuation account never opened: "+strings.Join(v.UnopenedVal, "; ")+out, "valuation-account-not-opened")
	}
	// without loss or duplication (model-free part): every transaction of the journal appears in the output (same day,
	// description and posting accounts, with multiplicity); what remains must be shaped like a value adjustment
	outKeys := map[string]int{}
	txKey := func(day int, desc string, accounts []string) string {
		return fmt.Sprintf("%d|%s|%s", day, Hex(desc), strings.Join(accounts, ","))
	}
	for _, e := range es {
		if e.Kind == 't' {
			var as []string
			for _, p := range e.Postings {
				as = append(as, p.Account)
			}
			outKeys[txKey(e.Day, e.Desc, as)]++
		}
	}
	var lost []string
	for _, d := range tc.J.Dirs {
		if d.Kind != 't' {
			continue
		}
		var as []string
		for _, b := range d.Bookings {
			q, _ := decimal.NewFromString(b.Qty)
			if q.IsNegative() {
				as = append(as, b.Debit, b.Credit)
			} else {
				as = append(as, b.Credit, b.Debit)
			}
		}
		k := txKey(d.Date, d.Desc, as)
		if outKeys[k] == 0 {
			lost = append(lost, fmt.Sprintf("%s %q", fmtDate(d.Date), d.Desc))
		} else {
			outKeys[k]--
		}
	}
	var extra []string
	for _, e := range es {
		if e.Kind != 't' {
			continue
		}
		var as []string
		isAdj := false
		for _, p := range e.Postings {
			as = append(as, p.Account)
			isAdj = isAdj || c16AdjustmentLeg(e, p.Account)
		}
		if k := txKey(e.Day, e.Desc, as); outKeys[k] > 0 && !isAdj {
			outKeys[k]--
			extra = append(extra, fmt.Sprintf("%s %q", fmtDate(e.Day), e.Desc))
		}
	}
	c.Monitor(tc.Stream, tc.Idx, "user_transactions_kept", in, len(lost) == 0 && len(extra) == 0,
		fmt.Sprintf("journal transactions missing from the output: %v; output transactions that are neither in the journal nor value adjustments: %v%s", lost, extra, out))
	// the Lean predicates (BeancountSpec.ledgerOK) on the real output, incl. "transactions = valued transactions of the journal"
	bt.Add(func(mon string) {
		switch {
		case mon == "ok" || mon == "unsupported":
			c.Monitored++
		case mon == "known valuation-account-not-opened":
			c.Monitored++ // recorded above by the Go evaluation
			if len(v.UnopenedVal) == 0 {
				c.Monitor(tc.Stream, tc.Idx, "lean_and_go_lifecycle_agree", in, false, "Lean: "+mon+", Go: all accounts open"+out)
			}
		default:
			f := strings.Fields(mon)
			detail := mon
			if len(f) == 3 && f[0] == "fail" {
				detail = f[1] + ": " + UnHex(f[2])
			}
			c.Monitor(tc.Stream, tc.Idx, "ledgerOK", in, false, detail+out)
		}
	}, "c16mon", Hex(tc.V), wire, c16Wire(es))
}

// c16Witness runs the journal of Properties/C16.lean `witness` (the known finding) against the real binary: the entries
// read from the real output must be the ones the Lean witness states.
func c16Witness(c *Ctx, dir string) {
	if !c.Want("witness", 0) {
		return
	}
	j := &Journal{Dirs: []JDir{
		{Kind: 'p', Date: 737425, Com: "USD", Price: "0.95", Target: "CHF"},
		{Kind: 'o', Date: 737425, Account: "Assets:Bank"},
		{Kind: 'o', Date: 737425, Account: "Equity:E"},
		{Kind: 't', Date: 737425, Desc: "start", Bookings: []JBook{{"Equity:E", "Assets:Bank", "100", "USD"}}},
		{Kind: 'p', Date: 737426, Com: "USD", Price: "0.97", Target: "CHF"},
	}}
	tc := &c16Case{Stream: "witness", Idx: 0, J: j, V: "CHF"}
	tc.Text, _ = j.Text()
	tc.run(c, dir)
	ok := true
	bt := c.NewBatch()
	c16Check(c, bt, tc, &ok)
	bt.Flush()
	_, es, _ := c16Read(tc.Stdout)
	want := "o~737425~" + Hex("Assets:Bank") + "|o~737425~" + Hex("Equity:E") +
		"|t~737425~" + Hex("start") + "~" + Hex("Equity:E") + ",-95;" + Hex("Assets:Bank") + ",95" +
		"|t~737426~" + Hex("Adjust value of USD in account Assets:Bank") + "~" + Hex("Income:Bank") + ",-2;" + Hex("Assets:Bank") + ",2"
	c.Compare("witness", 0, "witness-entries", tc.Input(), c16Wire(es), want)
}

func runC16(c *Ctx) {
	dir := filepath.Join(c.WorkDir, "c16")
	os.MkdirAll(dir, 0o755)
	runStream := func(stream string, lo, hi int, malformed bool) (disagree []int) {
		for a := lo; a < hi; a += 5000 { // bounded memory: 5000 cases at a time
			var cases []*c16Case
			for i := a; i < min(a+5000, hi); i++ {
				if !c.Want(stream, i) {
					continue
				}
				if stream == "epochs" {
					cases = append(cases, c16GenEpochs(c, i))
				} else {
					cases = append(cases, c16GenCase(c, stream, i, malformed))
				}
			}
			parallelFor(len(cases), 16, func(k int) { cases[k].run(c, dir) })
			bt := c.NewBatch()
			flags := make([]bool, len(cases))
			for k, tc := range cases {
				flags[k] = true
				c16Check(c, bt, tc, &flags[k])
				if stream == "epochs" {
					c.Tag(map[bool]string{true: "epochs-accepted", false: "epochs-rejected"}[tc.Code == 0])
				}
				if tc.Idx < 2 && stream == "transcode" {
					c.Sample(map[string]any{"args": tc.Input()["args"], "journal": tc.Text, "stdout": tc.Stdout})
				}
			}
			bt.Flush()
			for k, ok := range flags {
				if !ok {
					disagree = append(disagree, cases[k].Idx)
				}
			}
		}
		return
	}
	c16Witness(c, dir)
	n := c.N(10000, 300000)
	d1 := runStream("transcode", 0, n, false)
	d2 := runStream("malformed", 0, n/4, true)
	d2 = append(d2, runStream("lifecycle", 0, n/4, false)...)
	d2 = append(d2, c16RunTrees(c, dir, 0, c.N(2000, 40000))...)
	d2 = append(d2, runStream("epochs", 0, c.N(1500, 30000), false)...)
	d2 = append(d2, c16RunBig(c, dir, 0, c.N(10, 120))...)
	d2 = append(d2, c16RunFlags(c, dir, 0, c.N(150, 6000))...)
	runDecStream(c, c.N(2000, 20000))
	// directed search: when code and model differ, widen the round (3x the budget of the stream, fresh indices):
	// the invariants are evaluated on the real output of every additional case
	if (len(d1) > 0 || len(d2) > 0) && !c.Replay {
		c.Notes = append(c.Notes, fmt.Sprintf("directed search: %d+%d disagreements, %d additional cases", len(d1), len(d2), 3*n))
		runStream("transcode", n, 4*n, false)
	} else if c.Replay && c.OnlyStr == "transcode" && c.OnlyIndex >= n {
		runStream("transcode", c.OnlyIndex, c.OnlyIndex+1, false)
	}
}

// ---------------------------------------------------------------- stream "trees": the journal is an include tree
//
// The property speaks about "the journal": the directives of the file named on the command line and of every file it
// includes, directly or not.  The other streams write one file per case.  Here the generated journal (well-formed,
// lifecycle or malformed, exactly as in the other streams) is spread over 1-6 files in up to four directories, and the
// command must print byte for byte what the model prints for the union of the members' directives - which is also what
// the command itself prints for the same directives in ONE file (monitor tree_equals_single_file) -, and every ledger
// invariant is evaluated on the output against that union (a member whose transactions are missing from the ledger fails
// user_transactions_kept and ledgerOK/transactions-equal-valued-transactions).  A tree one of whose members cannot be
// loaded (an include that names nothing, a member that is gone / a directory / a dangling or looping link / unreadable,
// an include cycle, a member with a line that is no directive) is no journal: the command must fail, with an empty
// stdout (monitors unloadable_tree_rejected, clean_failure).
//
// (Seeded change C16-h expanded include paths as glob patterns: an include that matched nothing was skipped silently
// and the ledger lacked the member's transactions.)

type c16TItem struct {
	Kind byte   // 'd' directive, 'i' include (Path as spelled), 'g' a line that is no directive (Path is the line)
	Dir  JDir   // d
	Path string // i, g
	To   int    // i: index of the member the include names, -1 when it names none
}

type c16TFile struct {
	Rel   string // path below the case directory
	Items []c16TItem
	Head  string
	Seps  []string // after item k (k < last)
	Tail  string
	IncSp string
	State string // "" a regular file; otherwise what stands at the path instead: absent, directory, dangling-link, link-loop, unreadable
}

type c16Tree struct {
	Files   []*c16TFile // Files[0] is the root
	Root    string      // the root's path below the case directory as spelled on the command line
	Shape   string
	Dist    string
	Scatter bool   // opens / closes of one day may stand in several files (their order in the output is then free)
	Twice   bool   // a member without includes is included twice
	Fault   string // "" for a loadable tree
	// the same directives in one file, through the same command
	SCode      int
	SOut, SErr string
}

var (
	c16THeads  = []string{"", "", "", "\n", "\n\n\n", " \n", "\r\n", "\t\r\n", "# head\n", "* heading\r\n\r\n", "// c\n\n", "#\n"}
	c16TEnds   = []string{"\n", "\n", "\n", "\r\n", " \n", "\t\r\n"}
	c16TBlanks = []string{"\n", "\n", "\r\n", " \n", "\t \r\n"}
	c16TFill   = []string{"# c\n", "// x\r\n", "* y\n", "\n", "  \n", "#\n", "\n\n\n"}
	// file ends: nothing at all after the last directive, blanks only, one line end, many, a comment with and without line end
	c16TTails = []string{"", "", "", " ", "\t", "\r", "  \t ", "\n", "\n", "\r\n", "\n\n\n", "\n \n\t", "\n# end", "\n// end\r\n", "\n* end\r", "\r\n\r\n "}
	c16TIncSp = []string{" ", " ", " ", "  ", "\t", " \t "}
	c16TExts  = []string{".knut", ".knut", ".knut", ".knut", ".txt", "", ".knut.bak", ".KNUT", ".journal", ".k"}
	// member names that are ordinary file names but mean something to a shell, a pattern matcher or a URL parser
	c16TOddNames = []string{"f[%d].knut", "f*%d.knut", "f%d?.knut", "f\\%d.knut", " f %d .knut", ".f%d.knut", "f%d..knut", "ünï-%d.knut", "f%d{a,b}.knut", "~f%d.knut", "f%d#x.knut", "f%d%%20.knut", "-f%d.knut"}
	c16TDirs     = []string{"inc", "a b", "ä", "d.knut", "x/y/z", "2023", "sub.d/sub"}
	c16TGarbage  = []string{"%%%", "2021-02-30 open Assets:Nowhere", "include f.knut", "\"unterminated", "2020-01-01 opne Assets:X", "Assets:A Assets:B 1 CHF",
		"2020-01-01", "include \"f.knut", "2020-01-01 price USD", "-", "2020-01-01 open", "@", "include\"x.knut\"", "20200101 open Assets:X", "<<<<<<< HEAD"}
)

func c16TBlock(d JDir) bool {
	return d.Kind == 't' || (d.Kind == 'a' && (len(d.Balances) != 1 || d.MultiLine))
}

// text is the content of the file.  A transaction (a multi-line assertion) ends at a line that is empty or begins with
// a blank, or at the end of the file: such a line is put in where the drawn bytes have none.
func (f *c16TFile) text() string {
	var b strings.Builder
	b.WriteString(f.Head)
	for k, it := range f.Items {
		block := false
		switch it.Kind {
		case 'd':
			b.WriteString(strings.TrimSuffix(it.Dir.Text(), "\n"))
			block = c16TBlock(it.Dir)
		case 'i':
			fmt.Fprintf(&b, "include%s\"%s\"", f.IncSp, it.Path)
		default:
			b.WriteString(it.Path)
		}
		after := f.Tail
		if k < len(f.Items)-1 {
			after = f.Seps[k]
		}
		if block {
			if nl := strings.IndexByte(after, '\n'); nl >= 0 && nl+1 < len(after) {
				if ch := after[nl+1]; ch != '\n' && ch != ' ' && ch != '\t' && ch != '\r' {
					after = after[:nl+1] + "\n" + after[nl+1:]
				}
			} else if k < len(f.Items)-1 {
				after += "\n"
			}
		}
		b.WriteString(after)
	}
	if len(f.Items) == 0 {
		b.WriteString(f.Tail)
	}
	return b.String()
}

func c16TRel(fromDir, to string) string {
	rel, err := filepath.Rel("/"+fromDir, "/"+to)
	if err != nil {
		return to
	}
	return rel
}

// c16TSpell spells the path of `to` (below the case directory) as an include of a file in fromDir: plain, with `./`,
// up to the parent and down again, through another directory of the tree, with a doubled slash.
func c16TSpell(r *RNG, fromDir, to string, dirs []string) string {
	rel := c16TRel(fromDir, to)
	switch r.Intn(9) {
	case 3:
		return "./" + rel
	case 4:
		return "././" + rel
	case 5:
		if fromDir != "" {
			return "../" + filepath.Base(fromDir) + "/" + rel
		}
	case 6:
		via := Pick(r, dirs)
		if via != fromDir {
			return c16TRel(fromDir, via) + "/" + c16TRel(via, to)
		}
		return "./" + rel
	case 7:
		return strings.Replace(rel, "/", "//", 1)
	}
	return rel
}

func c16GenTree(c *Ctx, tc *c16Case, allowFault bool) {
	r := c.Rng("trees/shape", tc.Idx)
	t := &c16Tree{}
	tc.Tree = t
	n := Pick(r, []int{1, 2, 2, 3, 3, 4, 4, 5, 6})
	// directories and names
	rootDir := Pick(r, []string{"", "", "", "top", "top/mid", "a b"})
	dirs := []string{rootDir}
	t.Shape = Pick(r, []string{"chain", "fan", "random", "random"})
	parent := make([]int, n)
	parent[0] = -1
	for k := 0; k < n; k++ {
		dir := rootDir
		if k > 0 {
			switch t.Shape {
			case "chain":
				parent[k] = k - 1
			case "fan":
				parent[k] = 0
			default:
				parent[k] = r.Intn(k)
			}
			pd := filepath.Dir(t.Files[parent[k]].Rel)
			if pd == "." {
				pd = ""
			}
			switch r.Intn(6) {
			case 0, 1:
				dir = pd
			case 2:
				dir = filepath.Join(pd, Pick(r, c16TDirs))
			case 3:
				dir = Pick(r, c16TDirs) // below the case directory: above or beside the including file
			case 4:
				dir = filepath.Dir(pd) // one up (the case directory at most)
				if dir == "." {
					dir = ""
				}
			default:
				dir = Pick(r, dirs)
			}
		}
		if !contains(dirs, dir) {
			dirs = append(dirs, dir)
		}
		name := fmt.Sprintf("f%d%s", k, Pick(r, c16TExts))
		if r.Chance(1, 7) {
			name = fmt.Sprintf(Pick(r, c16TOddNames), k)
		}
		f := &c16TFile{Rel: filepath.Join(dir, name), Head: Pick(r, c16THeads), Tail: Pick(r, c16TTails), IncSp: Pick(r, c16TIncSp)}
		t.Files = append(t.Files, f)
	}
	// which member holds which directive
	t.Dist = Pick(r, []string{"random", "random", "period", "period", "kind", "leaves", "one"})
	t.Scatter = r.Chance(1, 4)
	ds := tc.J.Dirs
	assign := make([]int, len(ds))
	switch t.Dist {
	case "period":
		var dates []int
		for _, d := range ds {
			if !containsInt(dates, d.Date) {
				dates = append(dates, d.Date)
			}
		}
		sortInts(dates)
		perm := make([]int, n) // which member holds which period
		for k := range perm {
			perm[k] = k
		}
		if r.Chance(1, 2) {
			for k := n - 1; k > 0; k-- {
				m := r.Intn(k + 1)
				perm[k], perm[m] = perm[m], perm[k]
			}
		}
		for i, d := range ds {
			pos := 0
			for pos < len(dates) && dates[pos] != d.Date {
				pos++
			}
			assign[i] = perm[pos*n/max(len(dates), 1)]
		}
	case "kind":
		kf := map[byte]int{'o': r.Intn(n), 'c': r.Intn(n), 'p': r.Intn(n), 'a': r.Intn(n)}
		for i, d := range ds {
			if d.Kind == 't' {
				assign[i] = r.Intn(n)
			} else {
				assign[i] = kf[d.Kind]
			}
		}
	case "leaves":
		for i := range ds {
			if n > 1 {
				assign[i] = 1 + r.Intn(n-1)
			}
		}
	case "one":
		k := r.Intn(n)
		for i := range ds {
			assign[i] = k
		}
	default:
		for i := range ds {
			assign[i] = r.Intn(n)
		}
	}
	// the prices of one day stay in one member, in their order (which of two quotes of a pair wins is a matter of the
	// order in the day's list), and so do the opens and the closes of one day unless the comparison is the loose one
	group := map[[2]int]int{}
	for i, d := range ds {
		if d.Kind == 'p' || ((d.Kind == 'o' || d.Kind == 'c') && !t.Scatter) {
			key := [2]int{d.Date, int(d.Kind)}
			if k, ok := group[key]; ok {
				assign[i] = k
			} else {
				group[key] = assign[i]
			}
		}
	}
	for i, d := range ds {
		f := t.Files[assign[i]]
		f.Items = append(f.Items, c16TItem{Kind: 'd', Dir: d})
	}
	// the includes: first, last, or anywhere among the directives of the including member
	place := func(f *c16TFile, it c16TItem, where int) {
		pos := len(f.Items)
		switch where {
		case 0:
			pos = 0
		case 1:
			pos = r.Intn(len(f.Items) + 1)
		}
		f.Items = append(f.Items, c16TItem{})
		copy(f.Items[pos+1:], f.Items[pos:])
		f.Items[pos] = it
	}
	include := func(from, to int) {
		f := t.Files[from]
		fd := filepath.Dir(f.Rel)
		if fd == "." {
			fd = ""
		}
		place(f, c16TItem{Kind: 'i', Path: c16TSpell(r, fd, t.Files[to].Rel, dirs), To: to}, r.Intn(3))
	}
	for k := 1; k < n; k++ {
		include(parent[k], k)
	}
	if n > 1 && r.Chance(1, 10) {
		// a member without includes of its own, included a second time (from any other member): its directives count twice
		var leaves []int
		for k := 1; k < n; k++ {
			leaf := true
			for m := 1; m < n; m++ {
				leaf = leaf && parent[m] != k
			}
			if leaf {
				leaves = append(leaves, k)
			}
		}
		k := Pick(r, leaves)
		from := r.Intn(n - 1)
		if from >= k {
			from++
		}
		include(from, k)
		t.Twice = true
	}
	// the journal: what the loader collects
	var union []JDir
	var walk func(k int)
	walk = func(k int) {
		for _, it := range t.Files[k].Items {
			if it.Kind == 'd' {
				union = append(union, it.Dir)
			}
		}
		for _, it := range t.Files[k].Items {
			if it.Kind == 'i' {
				walk(it.To)
			}
		}
	}
	walk(0)
	tc.J = &Journal{Dirs: union}
	tc.Text, _ = tc.J.Text()
	// faults
	if allowFault && r.Chance(2, 5) {
		anyDir := func(k int) string {
			d := filepath.Dir(t.Files[k].Rel)
			if d == "." {
				return ""
			}
			return d
		}
		kind := Pick(r, []string{"dangling-include", "dangling-include", "member-gone", "member-gone", "cycle", "syntax"})
		if kind == "member-gone" && n == 1 {
			kind = "dangling-include"
		}
		switch kind {
		case "dangling-include":
			from := r.Intn(n)
			fd := anyDir(from)
			other := t.Files[r.Intn(n)]
			sp := c16TSpell(r, fd, other.Rel, dirs)
			var p, sub string
			switch r.Intn(12) {
			case 0:
				p, sub = "missing.knut", "no-such-file"
			case 1:
				p, sub = "gone/2019.knut", "no-such-directory"
			case 2:
				p, sub = "../nowhere.knut", "no-such-file-above"
			case 3:
				p, sub = sp+"x", "name-with-a-letter-more"
			case 4:
				p, sub = sp[:len(sp)-1], "name-cut-short"
			case 5:
				p, sub = filepath.Join(filepath.Dir(sp), c16SwapCase(filepath.Base(sp))), "name-in-other-case"
			case 6:
				p, sub = sp+" ", "name-with-trailing-blank"
			case 7:
				p, sub = sp+"/x.knut", "path-through-a-file"
			case 8:
				p, sub = strings.Repeat("n", 300)+".knut", "name-too-long"
			case 9:
				p, sub = Pick(r, []string{".", "", "./"}), "the-directory-itself"
			case 10:
				p, sub = c16TRel(fd, Pick(r, dirs)), "a-directory"
				if p == "" {
					p = "."
				}
			default:
				p, sub = "f[0-9]*", "pattern-that-is-no-name"
			}
			if sub == "name-cut-short" || sub == "name-in-other-case" {
				// must not name another member (or the same one in another spelling)
				for _, f := range t.Files {
					if filepath.Clean(filepath.Join(fd, p)) == f.Rel {
						p, sub = "missing.knut", "no-such-file"
					}
				}
			}
			place(t.Files[from], c16TItem{Kind: 'i', Path: p, To: -1}, r.Intn(3))
			t.Fault = kind + ":" + sub
		case "member-gone":
			k := 1 + r.Intn(n-1)
			st := Pick(r, []string{"absent", "absent", "absent", "directory", "dangling-link", "link-loop", "unreadable"})
			if st == "unreadable" && os.Geteuid() == 0 {
				st = "absent" // the owner's mode bits do not bind root
			}
			t.Files[k].State = st
			t.Fault = kind + ":" + st
		case "cycle":
			k := r.Intn(n)
			to := k
			for to > 0 && r.Chance(1, 2) {
				to = parent[to] // an ancestor
			}
			include(k, to)
			t.Fault = kind + ":" + map[bool]string{true: "self", false: "ancestor"}[to == k]
		case "syntax":
			f := t.Files[r.Intn(n)]
			place(f, c16TItem{Kind: 'g', Path: Pick(r, c16TGarbage)}, 1+r.Intn(2))
			t.Fault = kind
		}
	}
	// the bytes between the directives
	for _, f := range t.Files {
		plain := r.Chance(1, 4)
		for k := 0; k+1 < len(f.Items); k++ {
			if plain {
				f.Seps = append(f.Seps, "\n")
				continue
			}
			sep := Pick(r, c16TEnds)
			if r.Chance(1, 2) {
				sep += Pick(r, c16TBlanks)
			}
			for m := r.Intn(3); m > 0 && r.Chance(1, 2); m-- {
				sep += Pick(r, c16TFill)
			}
			f.Seps = append(f.Seps, sep)
		}
	}
	rootRel := t.Files[0].Rel
	t.Root = rootRel
	switch r.Intn(6) {
	case 0:
		t.Root = "./" + rootRel
	case 1:
		if rootDir != "" {
			t.Root = rootDir + "/../" + filepath.Base(rootDir) + "/" + filepath.Base(rootRel)
			if strings.Contains(rootDir, "/") {
				t.Root = rootDir + "/../../" + rootRel
			}
		}
	case 2:
		t.Root = "/" + rootRel // a doubled slash after the case directory
	}
	tc.Tags = append(tc.Tags, "tree-files:"+fmt.Sprint(n), "tree-dist:"+t.Dist)
	if t.Twice {
		tc.Tags = append(tc.Tags, "tree-member-twice")
	}
	if t.Fault != "" {
		tc.Tags = append(tc.Tags, "tree-fault:"+t.Fault)
	}
}

func c16SwapCase(s string) string {
	var b strings.Builder
	for _, ch := range s {
		switch {
		case ch >= 'a' && ch <= 'z':
			b.WriteRune(ch - 32)
		case ch >= 'A' && ch <= 'Z':
			b.WriteRune(ch + 32)
		default:
			b.WriteRune(ch)
		}
	}
	return b.String()
}

func containsInt(xs []int, x int) bool {
	for _, y := range xs {
		if y == x {
			return true
		}
	}
	return false
}

func sortInts(xs []int) {
	for i := 1; i < len(xs); i++ {
		for k := i; k > 0 && xs[k-1] > xs[k]; k-- {
			xs[k-1], xs[k] = xs[k], xs[k-1]
		}
	}
}

// describe adds the tree to the recorded input of a case.
func (t *c16Tree) describe(in map[string]any) {
	var files []map[string]string
	for _, f := range t.Files {
		m := map[string]string{"path": f.Rel, "text": f.text()}
		if f.State != "" {
			m["instead_of_the_file"] = f.State
		}
		files = append(files, m)
	}
	in["files"] = files
	in["args"] = strings.Replace(fmt.Sprint(in["args"]), "FILE", "DIR/"+t.Root, 1)
	in["tree"] = fmt.Sprintf("%d files, shape %s, directives by %s, scatter %v, a member twice %v", len(t.Files), t.Shape, t.Dist, t.Scatter, t.Twice)
	in["journal"] = "(the union of the members' directives, as one file)\n" + fmt.Sprint(in["journal"])
	if t.Fault != "" {
		in["fault"] = t.Fault
	}
}

// materialize writes the tree below dir.
func (t *c16Tree) materialize(dir string) {
	for _, f := range t.Files {
		p := dir + "/" + f.Rel
		os.MkdirAll(filepath.Dir(p), 0o755)
	}
	for _, f := range t.Files {
		p := dir + "/" + f.Rel
		switch f.State {
		case "absent":
		case "directory":
			os.MkdirAll(p, 0o755)
		case "dangling-link":
			os.Symlink("no-such-target.knut", p)
		case "link-loop":
			os.Symlink(filepath.Base(p), p)
		case "unreadable":
			os.WriteFile(p, []byte(f.text()), 0o000)
		default:
			os.WriteFile(p, []byte(f.text()), 0o644)
		}
	}
}

func (tc *c16Case) runTree(c *Ctx, dir string) {
	t := tc.Tree
	cd := filepath.Join(dir, fmt.Sprintf("t%d", tc.Idx+100000))
	os.RemoveAll(cd)
	t.materialize(cd)
	run := func(path string) (int, string, string) {
		code, so, se := runKnut(c.KnutBin, 20*time.Second, nil, tc.Args(path)...)
		if code == -2 { // a busy machine: once more, with three times the time
			code, so, se = runKnut(c.KnutBin, 60*time.Second, nil, tc.Args(path)...)
		}
		return code, so, se
	}
	tc.Code, tc.Stdout, tc.Stderr = run(cd + "/" + t.Root)
	if t.Fault == "" {
		single := filepath.Join(dir, fmt.Sprintf("s%d.knut", tc.Idx+100000))
		os.WriteFile(single, []byte(tc.Text), 0o644)
		t.SCode, t.SOut, t.SErr = run(single)
		os.Remove(single)
	}
	for _, f := range t.Files {
		if f.State == "unreadable" {
			os.Chmod(cd+"/"+f.Rel, 0o644)
		}
	}
	os.RemoveAll(cd)
}

// c16Loose: the entries with the opens (closes) of one day in the order of their account names.
func c16Loose(text string) string {
	cur, es, err := c16Read(text)
	if err != nil {
		return text
	}
	for i := 0; i < len(es); {
		k := i + 1
		if es[i].Kind != 't' {
			for k < len(es) && es[k].Kind == es[i].Kind && es[k].Day == es[i].Day {
				k++
			}
			run := es[i:k]
			for a := 1; a < len(run); a++ {
				for b := a; b > 0 && run[b-1].Account > run[b].Account; b-- {
					run[b-1], run[b] = run[b], run[b-1]
				}
			}
		}
		i = k
	}
	var b strings.Builder
	b.WriteString(cur + "\n")
	for _, e := range es {
		switch e.Kind {
		case 't':
			fmt.Fprintf(&b, "%s * %q\n", fmtDate(e.Day), e.Desc)
			for _, p := range e.Postings {
				fmt.Fprintf(&b, "  %s %s %s\n", p.Account, p.Amount, p.Cur)
			}
		default:
			fmt.Fprintf(&b, "%s %c %s\n", fmtDate(e.Day), e.Kind, e.Account)
		}
	}
	return b.String()
}

func c16LooseOutcome(o string) string {
	if strings.HasPrefix(o, "ok ") {
		return "ok " + Hex(c16Loose(UnHex(strings.TrimPrefix(o, "ok "))))
	}
	return o
}

// c16CheckTree judges one case of the stream.
func c16CheckTree(c *Ctx, bt *Batch, tc *c16Case, agreed *bool) {
	t := tc.Tree
	if t.Fault == "" {
		// the model's text for the union, and the invariants on the real output against the union
		c16Check(c, bt, tc, agreed)
		c.Tag(map[bool]string{true: "tree-accepted", false: "tree-rejected-by-its-directives"}[tc.Code == 0])
		c.Class(fmt.Sprintf("c16/tree/%v/f%d/%s/%s/scatter=%v/twice=%v", tc.Code == 0, len(t.Files), t.Shape, t.Dist, t.Scatter, t.Twice))
		if tc.Code == -2 || t.SCode == -2 {
			c.Tag("timeout")
			return
		}
		a, b := tc.Stdout, t.SOut
		if t.Scatter {
			a, b = c16Loose(a), c16Loose(b)
		}
		c.Monitor(tc.Stream, tc.Idx, "tree_equals_single_file", tc.Input(), (tc.Code == 0) == (t.SCode == 0) && a == b,
			fmt.Sprintf("the tree: exit %d\n%s\n%s\nthe same directives in one file: exit %d\n%s\n%s", tc.Code, tc.Stdout, clipN(tc.Stderr, 600), t.SCode, t.SOut, clipN(t.SErr, 600)))
		return
	}
	c.Evals++
	for _, tg := range tc.Tags {
		c.Tag(tg)
	}
	in := tc.Input()
	impl := tc.implOutcome()
	c.Class(fmt.Sprintf("c16/tree/%s/%s/f%d/%s", strings.Fields(impl)[0], t.Fault, len(t.Files), t.Dist))
	detail := fmt.Sprintf("%s; exit %d stdout %q stderr %q", t.Fault, tc.Code, clip(tc.Stdout), clipN(tc.Stderr, 600))
	// a journal with a member that cannot be loaded is not accepted: whatever ledger were printed for it would lack
	// that member's transactions (or stand for a journal the user did not write)
	if !c.Monitor(tc.Stream, tc.Idx, "unloadable_tree_rejected", in, tc.Code != 0, detail) {
		return
	}
	c.Tag("rejected")
	c.Monitor(tc.Stream, tc.Idx, "clean_failure", in, impl == "error" && tc.Stdout == "" && strings.TrimSpace(tc.Stderr) != "", detail)
}

func c16RunTrees(c *Ctx, dir string, lo, hi int) (disagree []int) {
	const stream = "trees"
	for a := lo; a < hi; a += 2000 {
		var cases []*c16Case
		for i := a; i < min(a+2000, hi); i++ {
			if !c.Want(stream, i) {
				continue
			}
			malformed := i%5 == 4
			tc := c16GenCase(c, stream, i, malformed)
			c16GenTree(c, tc, !malformed)
			cases = append(cases, tc)
		}
		parallelFor(len(cases), 16, func(k int) { cases[k].runTree(c, dir) })
		bt := c.NewBatch()
		flags := make([]bool, len(cases))
		for k, tc := range cases {
			flags[k] = true
			c16CheckTree(c, bt, tc, &flags[k])
			if tc.Idx < 2 {
				c.Sample(tc.Input())
			}
		}
		bt.Flush()
		for k, ok := range flags {
			if !ok {
				disagree = append(disagree, cases[k].Idx)
			}
		}
	}
	return
}

// ---------------------------------------------------------------- stream "bigfiles": one file of the journal is large
//
// The property speaks about every journal; the other streams write files of a few dozen directives at most.  Here one
// file of the journal (the root, an included member, or two members) holds 255-2000 bookings, each with a description of
// its own, so that "every transaction of the journal exactly once" is decidable per booking; the file order is or is not
// the order of the calendar.  The loader is a pipeline of goroutines (one parser and one converter per file, a builder
// that collects what they push): what the builder receives must not depend on how the runtime schedules them, so every
// journal is transcoded under GOMAXPROCS=1 (the sender of a hand-off runs on), 2 and 16.  The first run is judged like a
// case of the stream trees (byte for byte against the model on the union of the members' directives, every Go and Lean
// monitor on the real output); a run under another GOMAXPROCS whose output differs from the first is judged the same way.
//
// (Seeded change C16-k pushed the converted directives of a file in batches of 256 and recycled the buffer after the
// hand-off: with more than 256 directives in a file a batch of bookings was lost and the next one printed twice.)

var (
	c16BigSizes    = []int{300, 257, 513, 1000, 256, 512, 2000, 255, 511, 769, 1025, 1500, 258, 768, 1024, 1280}
	c16BigProcs    = []string{"1", "2", "16"}
	c16BigAccounts = []string{"Assets:Bank", "Assets:Bank:Säule", "Assets:Cash", "Liabilities:Card", "Equity:Opening", "Expenses:Food", "Expenses:Rent:Flat", "Income:Job", "Assets:Depot"}
)

type c16BigRun struct {
	Code        int
	Stdout, Err string
}

func c16GenBig(c *Ctx, i int, sizes []int) (*c16Case, []int) {
	const stream = "bigfiles"
	r := c.Rng(stream, i)
	val := Pick(r, c16Valuations)
	tc := &c16Case{Stream: stream, Idx: i, V: val}
	// how many bookings the large members hold
	n := sizes[(i/2)%len(sizes)]
	if i%2 == 1 {
		n = r.Range(300, 2000)
	}
	layout := Pick(r, []string{"single", "included", "included", "leaf-of-chain", "two-large", "large-root-small-member"})
	base := 737000 + r.Intn(1500)
	span := Pick(r, []int{1, 2, 5, 30, 400})
	accounts := append([]string(nil), c16BigAccounts...)
	for k := len(accounts) - 1; k > 0; k-- {
		m := r.Intn(k + 1)
		accounts[k], accounts[m] = accounts[m], accounts[k]
	}
	accounts = accounts[:r.Range(2, 6)]
	coms := []string{val}
	var head []JDir
	for _, cm := range []string{"USD", "AAPL", "EUR"} {
		if cm != val && r.Chance(1, 2) {
			coms = append(coms, cm)
			head = append(head, JDir{Kind: 'p', Date: base, Com: cm, Price: fmt.Sprintf("%d.%02d", r.Range(0, 200), r.Range(1, 99)), Target: val})
		}
	}
	for _, a := range accounts {
		head = append(head, JDir{Kind: 'o', Date: base, Account: a})
	}
	// later quotes (value adjustments between the bookings), each on a day of its own per commodity
	for _, cm := range coms[1:] {
		seen := map[int]bool{}
		for k := r.Intn(4); k > 0; k-- {
			d := base + 1 + r.Intn(span+1)
			if !seen[d] {
				seen[d] = true
				head = append(head, JDir{Kind: 'p', Date: d, Com: cm, Price: fmt.Sprintf("%d.%02d", r.Range(0, 200), r.Range(1, 99)), Target: val})
			}
		}
	}
	serial := 0
	bookings := func(n int, tag string) []JDir {
		ds := make([]JDir, n)
		sorted := r.Chance(1, 2)
		for k := range ds {
			day := base + r.Intn(span)
			if sorted {
				day = base + k*span/n
			}
			a := r.Intn(len(accounts))
			b := (a + 1 + r.Intn(len(accounts)-1)) % len(accounts)
			qty := fmt.Sprintf("%d", r.Range(1, 5000))
			if r.Chance(1, 2) {
				qty = fmt.Sprintf("%d.%02d", r.Range(0, 900), r.Intn(100))
			}
			if r.Chance(1, 8) {
				qty = "-" + qty
			}
			serial++
			ds[k] = JDir{Kind: 't', Date: day, Desc: fmt.Sprintf("%s %05d", tag, serial), Bookings: []JBook{{accounts[a], accounts[b], qty, Pick(r, coms)}}}
			if r.Chance(1, 10) { // a second booking
				ds[k].Bookings = append(ds[k].Bookings, JBook{accounts[b], accounts[a], fmt.Sprintf("%d", r.Range(1, 50)), Pick(r, coms)})
			}
		}
		return ds
	}
	t := &c16Tree{Shape: layout, Dist: "bigfiles"}
	tc.Tree = t
	file := func(rel string, ds []JDir) *c16TFile {
		f := &c16TFile{Rel: rel, Tail: "\n", IncSp: " "}
		for _, d := range ds {
			f.Items = append(f.Items, c16TItem{Kind: 'd', Dir: d})
		}
		t.Files = append(t.Files, f)
		return f
	}
	include := func(from *c16TFile, to int, first bool) {
		it := c16TItem{Kind: 'i', Path: c16TRel("", t.Files[to].Rel), To: to}
		if first {
			from.Items = append([]c16TItem{it}, from.Items...)
		} else {
			from.Items = append(from.Items, it)
		}
	}
	var counts []int
	switch layout {
	case "single":
		file("all.knut", append(head, bookings(n, "booking")...))
		counts = []int{n}
	case "included":
		root := file("root.knut", head)
		file("inc/large.knut", bookings(n, "booking"))
		include(root, 1, r.Bool())
		counts = []int{n}
	case "leaf-of-chain":
		root := file("root.knut", head)
		mid := file("mid.knut", bookings(r.Range(0, 20), "mid"))
		file("y/large.knut", bookings(n, "booking"))
		include(root, 1, r.Bool())
		include(mid, 2, r.Bool())
		counts = []int{n}
	case "two-large":
		root := file("root.knut", head)
		m := sizes[r.Intn(len(sizes))]
		file("a.knut", bookings(n, "first"))
		file("b.knut", bookings(m, "second"))
		include(root, 1, false)
		include(root, 2, r.Bool())
		counts = []int{n, m}
	default:
		root := file("root.knut", append(head, bookings(n, "booking")...))
		file("small.knut", bookings(r.Range(1, 40), "small"))
		include(root, 1, r.Bool())
		counts = []int{n}
	}
	for _, f := range t.Files {
		for k := 0; k+1 < len(f.Items); k++ {
			f.Seps = append(f.Seps, "\n")
		}
	}
	t.Root = t.Files[0].Rel
	var union []JDir
	var walk func(k int)
	walk = func(k int) {
		for _, it := range t.Files[k].Items {
			if it.Kind == 'd' {
				union = append(union, it.Dir)
			}
		}
		for _, it := range t.Files[k].Items {
			if it.Kind == 'i' {
				walk(it.To)
			}
		}
	}
	walk(0)
	tc.J = &Journal{Dirs: union}
	tc.Text, _ = tc.J.Text()
	tc.Tags = append(tc.Tags, "bigfiles:"+layout)
	for _, m := range counts {
		tc.Tags = append(tc.Tags, "bigfiles:bookings-in-a-file:"+c16BigBucket(m))
	}
	return tc, counts
}

func c16BigBucket(n int) string {
	switch {
	case n < 256:
		return "<256"
	case n == 256:
		return "256"
	case n <= 512:
		return "257-512"
	case n <= 1024:
		return "513-1024"
	}
	return ">1024"
}

func c16RunBig(c *Ctx, dir string, lo, hi int) (disagree []int) {
	const stream = "bigfiles"
	var cases []*c16Case
	for i := lo; i < hi; i++ {
		if c.Want(stream, i) {
			tc, _ := c16GenBig(c, i, c16BigSizes)
			cases = append(cases, tc)
		}
	}
	runs := make([][]c16BigRun, len(cases))
	parallelFor(len(cases), 8, func(k int) {
		tc := cases[k]
		cd := filepath.Join(dir, fmt.Sprintf("big%d", tc.Idx+100000))
		os.RemoveAll(cd)
		tc.Tree.materialize(cd)
		for _, p := range c16BigProcs {
			env := []string{"GOMAXPROCS=" + p}
			code, so, se := runKnut(c.KnutBin, 60*time.Second, env, tc.Args(cd+"/"+tc.Tree.Root)...)
			if code == -2 { // a busy machine: once more, with three times the time
				code, so, se = runKnut(c.KnutBin, 180*time.Second, env, tc.Args(cd+"/"+tc.Tree.Root)...)
			}
			runs[k] = append(runs[k], c16BigRun{code, so, se})
		}
		os.RemoveAll(cd)
	})
	bt := c.NewBatch()
	flags := make([]bool, len(cases))
	for k, tc := range cases {
		flags[k] = true
		for p, run := range runs[k] {
			if run.Code == -2 {
				c.Tag("timeout")
				continue
			}
			if p > 0 && run.Code == runs[k][0].Code && run.Stdout == runs[k][0].Stdout && runs[k][0].Code != -2 {
				c.Tag("bigfiles:same-output-under-GOMAXPROCS=" + c16BigProcs[p])
				continue
			}
			one := *tc
			one.Env = "GOMAXPROCS=" + c16BigProcs[p]
			one.Code, one.Stdout, one.Stderr = run.Code, run.Stdout, run.Err
			c16Check(c, bt, &one, &flags[k])
			c.Tag(map[bool]string{true: "bigfiles-accepted", false: "bigfiles-rejected"}[run.Code == 0])
			c.Class(fmt.Sprintf("c16/big/%v/%s/%s", run.Code == 0, tc.Tree.Shape, strings.Join(tc.Tags[1:], "+")))
		}
		if tc.Idx < 1 {
			in := tc.Input()
			delete(in, "wire_journal")
			c.Sample(map[string]any{"args": in["args"], "tree": in["tree"], "bookings": len(tc.J.Dirs)})
		}
	}
	bt.Flush()
	for k, ok := range flags {
		if !ok {
			disagree = append(disagree, cases[k].Idx)
		}
	}
	return
}

// ---------------------------------------------------------------- stream "flags": the flags the command offers
//
// The other streams run `knut transcode -v V FILE` only.  The property speaks about the ledger the command prints,
// whatever else is on the command line: this stream reads `knut transcode --help` and takes every flag the check has no
// model of (everything but --help and -v/--val), draws values by the TYPE word of the help line (numbers: -1, 0, 1, 2,
// 4, 8; a flag without type: present; everything else: a date inside / before / after the journal's span, a commodity or
// an account of the journal, an account regex, the empty string - dates preferred when the type word looks like a date),
// alone, in pairs and in triples, on journals with two to six asset/liability accounts holding one to three foreign
// commodities whose prices have 4-8 fractional digits (so that every value in V has many digits).  The meaning of such
// a flag is unknown, so there is no comparison with the model: whenever the command exits 0 its output is judged by the
// model-free monitors of the property's own statement (readable as beancount, EVERY transaction sums to exactly zero,
// chronological, every account open when used, operating_currency); a non-zero exit must be a clean failure (a
// diagnostic, nothing on stdout, no panic).  On a tree without unknown flags the stream runs the known vector on the
// same journals and judges it like the stream transcode (against the model, all monitors).

var c16FlagsAL = []string{"Assets:Bank", "Assets:Broker", "Assets:Cash", "Liabilities:Card", "Assets:Pension:P2", "Liabilities:Mortgage", "Assets:Bank:Savings"}

func c16FlagsUnknown(c *Ctx) []c08HelpFlag {
	code, so, se := runKnut(c.KnutBin, 60*time.Second, nil, "transcode", "--help")
	if code == -2 {
		code, so, se = runKnut(c.KnutBin, 180*time.Second, nil, "transcode", "--help")
	}
	var res []c08HelpFlag
	for _, f := range c08ParseHelp(so + "\n" + se) {
		if f.Name != "help" && f.Name != "val" && f.Name != "version" {
			res = append(res, f)
		}
	}
	return res
}

func c16FlagNumeric(t string) bool {
	t = strings.ToLower(strings.Trim(t, "<>"))
	for _, p := range []string{"int", "uint", "float", "count", "number", "digits"} {
		if strings.HasPrefix(t, p) {
			return true
		}
	}
	return false
}

func c16GenFlags(c *Ctx, i int, unknown []c08HelpFlag) *c16Case {
	const stream = "flags"
	r := c.Rng(stream, i)
	val := Pick(r, []string{"CHF", "CHF", "USD", "EUR"})
	tc := &c16Case{Stream: stream, Idx: i, V: val}
	base := 737000 + r.Intn(1500)
	span := Pick(r, []int{3, 10, 40, 400})
	als := append([]string(nil), c16FlagsAL...)
	for k := len(als) - 1; k > 0; k-- {
		m := r.Intn(k + 1)
		als[k], als[m] = als[m], als[k]
	}
	als = als[:r.Range(2, 6)]
	equity := Pick(r, []string{"Equity:Equity", "Equity:Equity", "Equity:Opening"})
	others := []string{equity, "Income:Salary", "Expenses:Food"}
	price := func() string {
		nd := r.Range(4, 8)
		f := r.Intn(c16Pow10(nd)-1) + 1
		return fmt.Sprintf("%d.%0*d", Pick(r, []int{0, 0, 1, 7, 113}), nd, f)
	}
	var dirs []JDir
	coms := []string{val}
	for _, cm := range []string{"USD", "EUR", "AAPL", "BTC", "CHF"} {
		if cm != val && len(coms) < 4 && (len(coms) == 1 || r.Chance(1, 2)) {
			coms = append(coms, cm)
			dirs = append(dirs, JDir{Kind: 'p', Date: base, Com: cm, Price: price(), Target: val})
			for k := r.Intn(3); k > 0; k-- {
				dirs = append(dirs, JDir{Kind: 'p', Date: base + 1 + 2*r.Intn(span/2+1), Com: cm, Price: price(), Target: val})
			}
		}
	}
	for _, a := range append(append([]string(nil), als...), others...) {
		dirs = append(dirs, JDir{Kind: 'o', Date: base, Account: a})
	}
	qty := func() string {
		q := fmt.Sprintf("%d", r.Range(1, 5000))
		if nd := r.Intn(4); nd > 0 {
			q += fmt.Sprintf(".%0*d", nd, r.Intn(c16Pow10(nd)))
		}
		if r.Chance(1, 8) {
			q = "-" + q
		}
		return q
	}
	// every asset/liability account is funded early in a foreign commodity; further bookings over the span
	for k, a := range als {
		dirs = append(dirs, JDir{Kind: 't', Date: base + r.Intn(2), Desc: fmt.Sprintf("fund %d", k),
			Bookings: []JBook{{equity, a, qty(), coms[1+r.Intn(len(coms)-1)]}}})
	}
	for k := r.Range(2, 14); k > 0; k-- {
		a := Pick(r, als)
		b := Pick(r, append(append([]string(nil), als...), others...))
		if a == b {
			b = others[1]
		}
		if r.Bool() {
			a, b = b, a
		}
		dirs = append(dirs, JDir{Kind: 't', Date: base + r.Intn(span+1), Desc: fmt.Sprintf("booking %d", k),
			Bookings: []JBook{{a, b, qty(), Pick(r, coms)}}})
	}
	sort.SliceStable(dirs, func(x, y int) bool { return dirs[x].Date < dirs[y].Date })
	tc.J = &Journal{Dirs: dirs}
	tc.Text, _ = tc.J.Text()
	// the flags
	if len(unknown) == 0 {
		tc.Tags = []string{"flags:known-vector"}
		return tc
	}
	fs := append([]c08HelpFlag(nil), unknown...)
	for k := len(fs) - 1; k > 0; k-- {
		m := r.Intn(k + 1)
		fs[k], fs[m] = fs[m], fs[k]
	}
	fs = fs[:min(1+i%3, len(fs))]
	sort.Slice(fs, func(x, y int) bool { return fs[x].Name < fs[y].Name })
	dates := []string{fmtDate(base + 1 + r.Intn(span)), fmtDate(base + span/2), fmtDate(base + span), fmtDate(base), fmtDate(base - 10), fmtDate(base + span + 30)}
	words := []string{Pick(r, coms), Pick(r, als), "Assets", "^Assets:B", "Equity|Income", "", "1,Assets"}
	names := []string{}
	for _, f := range fs {
		names = append(names, f.Name)
		t := strings.ToLower(f.Type)
		switch {
		case f.isBool():
			tc.Extra = append(tc.Extra, "--"+f.Name)
		case c16FlagNumeric(f.Type):
			tc.Extra = append(tc.Extra, "--"+f.Name+"="+Pick(r, []string{"-1", "0", "1", "2", "4", "8"}))
		case (strings.Contains(t, "yyyy") || strings.Contains(t, "date")) && r.Chance(4, 5):
			tc.Extra = append(tc.Extra, "--"+f.Name+"="+Pick(r, dates))
		default:
			tc.Extra = append(tc.Extra, "--"+f.Name+"="+Pick(r, append(append([]string(nil), dates...), words...)))
		}
	}
	tc.Tags = []string{"flags:" + strings.Join(names, "+")}
	return tc
}

func c16Pow10(n int) int {
	p := 1
	for ; n > 0; n-- {
		p *= 10
	}
	return p
}

// c16CheckFlags judges a run with flags the check has no model of: the property's own statement on the real output.
func c16CheckFlags(c *Ctx, tc *c16Case) {
	c.Evals++
	in := tc.Input()
	impl := tc.implOutcome()
	for _, t := range tc.Tags {
		c.Tag(t)
	}
	if tc.Code != 0 {
		c.Tag("flags-rejected")
		c.Class(fmt.Sprintf("c16/flags/%s/%s", strings.Fields(impl)[0], tc.Tags[0]))
		c.Monitor(tc.Stream, tc.Idx, "clean_failure", in, impl == "error" && tc.Stdout == "" && strings.TrimSpace(tc.Stderr) != "",
			fmt.Sprintf("exit %d stdout %q stderr %q", tc.Code, clip(tc.Stdout), clip(tc.Stderr)))
		return
	}
	c.Tag("flags-accepted")
	cur, es, err := c16Read(tc.Stdout)
	if !c.Monitor(tc.Stream, tc.Idx, "beancount_readable", in, err == nil, fmt.Sprintf("%v\n%s", err, tc.Stdout)) {
		return
	}
	v := c16Evaluate(cur, es)
	maxLegs := 0
	for _, e := range es {
		maxLegs = max(maxLegs, len(e.Postings))
	}
	c.Class(fmt.Sprintf("c16/flags/ok/%s/tx%s/legs%s", tc.Tags[0], bucket(v.UserTx+v.AdjustmentTx), bucket(maxLegs)))
	out := "\n" + tc.Stdout
	c.Monitor(tc.Stream, tc.Idx, "operating_currency", in, cur == tc.V && len(v.WrongCur) == 0,
		fmt.Sprintf("option names %q, -v is %q, postings in %v%s", cur, tc.V, v.WrongCur, out))
	c.Monitor(tc.Stream, tc.Idx, "balanced", in, len(v.Unbalanced) == 0, strings.Join(v.Unbalanced, "; ")+out)
	c.Monitor(tc.Stream, tc.Idx, "chronological", in, len(v.OutOfOrder) == 0, strings.Join(v.OutOfOrder, "; ")+out)
	c.Monitor(tc.Stream, tc.Idx, "open_before_use_and_not_after_close", in, len(v.Unopened) == 0, "not open: "+strings.Join(v.Unopened, "; ")+out)
	if len(v.UnopenedVal) > 0 {
		c.MonitorKnown(tc.Stream, tc.Idx, "open_before_use_and_not_after_close", in, "generated valuation account never opened: "+strings.Join(v.UnopenedVal, "; ")+out, "valuation-account-not-opened")
	}
}

func c16RunFlags(c *Ctx, dir string, lo, hi int) (disagree []int) {
	const stream = "flags"
	var cases []*c16Case
	var unknown []c08HelpFlag
	for i := lo; i < hi; i++ {
		if c.Want(stream, i) {
			if len(cases) == 0 {
				unknown = c16FlagsUnknown(c)
			}
			cases = append(cases, c16GenFlags(c, i, unknown))
		}
	}
	if len(cases) == 0 {
		return
	}
	if len(unknown) > 0 {
		names := []string{}
		for _, f := range unknown {
			names = append(names, "--"+f.Name+" "+f.Type)
		}
		c.Notes = append(c.Notes, "stream flags: flags of `transcode --help` without a model: "+strings.Join(names, ", "))
	}
	parallelFor(len(cases), 16, func(k int) {
		tc := cases[k]
		tc.run(c, dir)
		if tc.Code == -2 { // a busy machine: once more
			tc.run(c, dir)
		}
	})
	bt := c.NewBatch()
	flags := make([]bool, len(cases))
	for k, tc := range cases {
		flags[k] = true
		if len(tc.Extra) == 0 {
			c16Check(c, bt, tc, &flags[k])
		} else {
			c16CheckFlags(c, tc)
		}
		if tc.Idx < 1 {
			c.Sample(map[string]any{"args": tc.Input()["args"], "journal": tc.Text, "stdout": tc.Stdout})
		}
	}
	bt.Flush()
	for k, ok := range flags {
		if !ok {
			disagree = append(disagree, cases[k].Idx)
		}
	}
	return
}
