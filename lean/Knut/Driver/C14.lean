import Knut.Driver.Balance
import Knut.Model.Commands
import Knut.Spec.LoaderSpec
/-! Driver ops for C14 (path cleaning, the loader on a wire file system, command outcome classes, the
"fails cleanly" predicate). Glue only.

```
c14clean   <path hex>                                   → <cleaned hex>
c14resolve <includer hex> <include path hex>            → <resolved hex>
c14load    <root hex> <fs>                              → ok <n> | error cycle|unreadable|parse <file hex>
c14run     <cmd> <path hex> <balance flags> <extra> <fs> → ok <stdout empty 0|1> | error | panic <site hex> | bad-flags
c14mon     <report 0|1> <ending> <stdoutEmpty> <stderrEmpty> <crash> <expectFail> → ok | fail <clause>
fs    := "-" | <path hex>:<content hex> ("," …)*        (content "-" = empty file)
extra := "-" | key=value (";" …)*   keys: write, val (hex), acct (hex), train (hex), inplace
cmd   := check | balance | print | format | infer | transcode | returns | weights
ending := e<status> | timeout | killed
```
-/
namespace Knut.Driver.C14
open Knut Knut.Wire Knut.Commands Knut.Loader

def parseFS (s : String) : Option (List (Path × List UInt8)) :=
  if s = "-" then some [] else
  (splitOn s ',').mapM (fun e =>
    match splitOn e ':' with
    | [p, c] => do
      let p ← unhexStr p
      let c ← unhexBytes c
      pure (p, c.toList)
    | _ => none)

def parseExtra (path : Path) (bal : BalanceFlags) (s : String) : Option Flags :=
  let kvs := if s = "-" then [] else splitOn s ';'
  kvs.foldlM (fun (f : Flags) kv =>
    match splitOn kv '=' with
    | ["write", v] => some { f with write := v == "1" }
    | ["inplace", v] => some { f with inplace := v == "1" }
    | ["val", v] => (unhexStr v).map (fun v => { f with valuation := some v })
    | ["acct", v] => (unhexStr v).map (fun v => { f with account := v })
    | ["train", v] => (unhexStr v).map (fun v => { f with training := v })
    | _ => none) { path := path, balance := bal }

def showClass : Commands.Class → String
  | .ok => "ok" | .error => "error" | .panic => "panic"

def parseCommand : String → Option Command
  | "check" => some .check | "balance" => some .balance | "print" => some .print
  | "format" => some .format | "infer" => some .infer | "transcode" => some .transcode
  | _ => none

def parseEnding (s : String) : Option Spec.Clean.Ending :=
  if s = "timeout" then some .timeout
  else if s = "killed" then some .killed
  else if s.startsWith "e" then ((s.drop 1).toString.toNat?).map .exited
  else none

def handle (fields : List String) : Option String :=
  match fields with
  | ["c14clean", p] => some (
    match unhexStr p with
    | some p => hexStr (pathClean p)
    | none => "bad-op")
  | ["c14resolve", a, b] => some (
    match unhexStr a, unhexStr b with
    | some a, some b => hexStr (resolve a b)
    | _, _ => "bad-op")
  | ["c14load", root, fs] => some (
    match unhexStr root, parseFS fs with
    | some root, some files =>
      match load (FileSys.ofList files) parseForLoader root with
      | .ok fs => s!"ok {fs.length}"
      | .error (.cycle f) => "error cycle " ++ hexStr f
      | .error (.unreadable f) => "error unreadable " ++ hexStr f
      | .error (.parse f _) => "error parse " ++ hexStr f
    | _, _ => "bad-op")
  | ["c14run", cmd, path, bal, extra, fs] => some (
    match unhexStr path, parseFS fs with
    | some path, some files =>
      match Knut.Driver.Balance.parseFlags bal with
      | none => "bad-flags"
      | some bf =>
        match parseExtra path bf extra with
        | none => "bad-flags"
        | some f =>
          let fsys := FileSys.ofList files
          if cmd = "returns" ∨ cmd = "weights" then showClass (portfolioClass fsys f)
          else
            match parseCommand cmd with
            | none => "bad-op"
            | some c =>
              match Cmd.run c fsys f with
              | .ok out => "ok " ++ (if out.isEmpty then "1" else "0")
              | .error _ => "error"
              | .panic site => "panic " ++ hexStr site
    | _, _ => "bad-op")
  | ["c14mon", report, ending, so, se, crash, expectFail] => some (
    match parseEnding ending with
    | none => "bad-op"
    | some e =>
      let o : Spec.Clean.Observation := { ending := e, stdoutEmpty := so == "1", stderrEmpty := se == "1", crashTrace := crash == "1" }
      if !Spec.Clean.failsCleanly (report == "1") o then "fail fails-cleanly"
      else if !Spec.Clean.includedErrorFails (expectFail == "1") o then "fail included-error-fails"
      else "ok")
  | _ => none

end Knut.Driver.C14
