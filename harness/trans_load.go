package main

// Loading and type-checking of /repo's packages for the Go→Lean translator (trans.go).
//
// No `go list`, no network, no compiled export data: knut's own packages are parsed and type-checked
// from source by go/types; the packages of the PRELUDE (time, decimal, sort, fmt, strings — exactly the
// functions lean/Knut/GoSem gives a meaning to) are served as small stub sources (trStubs); every other
// import is an empty package.  A use of anything that is not declared this way has no valid type and the
// translator rejects the function that uses it with the position of the use.

import (
	"fmt"
	"go/ast"
	"go/build/constraint"
	"go/parser"
	"go/token"
	"go/types"
	"os"
	"path/filepath"
	"sort"
	"strings"
)

const trKnutPath = "github.com/sboehler/knut/"

// trStubs: the signatures of the prelude. Only what GoSem defines may be called from translated code.
var trStubs = map[string]string{
	"time": `package time
type Month int
const (
	January Month = 1 + iota
	February
	March
	April
	May
	June
	July
	August
	September
	October
	November
	December
)
type Weekday int
const (
	Sunday Weekday = iota
	Monday
	Tuesday
	Wednesday
	Thursday
	Friday
	Saturday
)
type Location struct{ _ int }
var UTC *Location
type Time struct{ _ int }
func Date(year int, month Month, day, hour, min, sec, nsec int, loc *Location) Time
func (t Time) Year() int
func (t Time) Month() Month
func (t Time) Day() int
func (t Time) Weekday() Weekday
func (t Time) AddDate(years, months, days int) Time
func (t Time) Before(u Time) bool
func (t Time) After(u Time) bool
func (t Time) Equal(u Time) bool
func (t Time) IsZero() bool
func (t Time) Compare(u Time) int
`,
	"github.com/shopspring/decimal": `package decimal
type Decimal struct{ _ int }
var Zero Decimal
func NewFromInt(value int64) Decimal
func (d Decimal) Add(d2 Decimal) Decimal
func (d Decimal) Sub(d2 Decimal) Decimal
func (d Decimal) Mul(d2 Decimal) Decimal
func (d Decimal) Neg() Decimal
func (d Decimal) Abs() Decimal
func (d Decimal) Truncate(precision int32) Decimal
func (d Decimal) Round(places int32) Decimal
func (d Decimal) Div(d2 Decimal) Decimal
func (d Decimal) QuoRem(d2 Decimal, precision int32) (Decimal, Decimal)
func (d Decimal) IsZero() bool
func (d Decimal) IsNegative() bool
func (d Decimal) IsPositive() bool
func (d Decimal) Sign() int
func (d Decimal) Equal(d2 Decimal) bool
func (d Decimal) Cmp(d2 Decimal) int
func (d Decimal) LessThan(d2 Decimal) bool
func (d Decimal) GreaterThan(d2 Decimal) bool
func (d Decimal) String() string
func (d Decimal) StringFixed(places int32) string
func (d Decimal) Shift(shift int32) Decimal
`,
	"sort": `package sort
func Search(n int, f func(int) bool) int
`,
	"fmt": `package fmt
func Errorf(format string, a ...any) error
func Sprintf(format string, a ...any) string
`,
	"strings": `package strings
func ReplaceAll(s, old, new string) string
func Repeat(s string, count int) string
func Index(s, substr string) int
type Builder struct{ _ int }
func (b *Builder) WriteString(s string) (int, error)
func (b *Builder) WriteRune(r rune) (int, error)
func (b *Builder) String() string
`,
	"unicode": `package unicode
func IsDigit(r rune) bool
`,
	"unicode/utf8": `package utf8
func RuneCountInString(s string) int
`,
}

type trPkg struct {
	path  string
	dir   string
	files []*ast.File
	tpkg  *types.Package
	info  *types.Info
	errs  []types.Error
}

type trLoader struct {
	repo string
	fset *token.FileSet
	pkgs map[string]*trPkg
}

func newTrLoader(repo string) *trLoader {
	return &trLoader{repo: repo, fset: token.NewFileSet(), pkgs: map[string]*trPkg{}}
}

func trNewInfo() *types.Info {
	return &types.Info{
		Types:      map[ast.Expr]types.TypeAndValue{},
		Defs:       map[*ast.Ident]types.Object{},
		Uses:       map[*ast.Ident]types.Object{},
		Selections: map[*ast.SelectorExpr]*types.Selection{},
		Implicits:  map[ast.Node]types.Object{},
		Instances:  map[*ast.Ident]types.Instance{},
		Scopes:     map[ast.Node]*types.Scope{},
	}
}

// buildTagOK evaluates a //go:build line the way `go build -tags verif` on linux/amd64 does.
func trBuildTagOK(f *ast.File) bool {
	for _, cg := range f.Comments {
		if cg.Pos() >= f.Package {
			break
		}
		for _, c := range cg.List {
			if !constraint.IsGoBuild(c.Text) {
				continue
			}
			x, err := constraint.Parse(c.Text)
			if err != nil {
				return false
			}
			return x.Eval(func(tag string) bool {
				switch tag {
				case "verif", "linux", "amd64", "gc", "unix":
					return true
				}
				return strings.HasPrefix(tag, "go1.")
			})
		}
	}
	return true
}

func (l *trLoader) Import(path string) (*types.Package, error) {
	p, err := l.load(path)
	if err != nil {
		return nil, err
	}
	return p.tpkg, nil
}

func (l *trLoader) load(path string) (*trPkg, error) {
	if p, ok := l.pkgs[path]; ok {
		if p.tpkg == nil {
			return nil, fmt.Errorf("import cycle through %s", path)
		}
		return p, nil
	}
	p := &trPkg{path: path, info: trNewInfo()}
	l.pkgs[path] = p
	conf := types.Config{Importer: l, FakeImportC: true, Error: func(err error) {
		if te, ok := err.(types.Error); ok {
			p.errs = append(p.errs, te)
		}
	}}
	switch {
	case trStubs[path] != "":
		f, err := parser.ParseFile(l.fset, "prelude:"+path, trStubs[path], 0)
		if err != nil {
			return nil, err
		}
		p.files = []*ast.File{f}
	case strings.HasPrefix(path, trKnutPath):
		p.dir = filepath.Join(l.repo, strings.TrimPrefix(path, trKnutPath))
		names, err := filepath.Glob(filepath.Join(p.dir, "*.go"))
		if err != nil || len(names) == 0 {
			return nil, fmt.Errorf("no Go files in %s", p.dir)
		}
		sort.Strings(names)
		for _, n := range names {
			if strings.HasSuffix(n, "_test.go") {
				continue
			}
			f, err := parser.ParseFile(l.fset, n, nil, parser.ParseComments)
			if err != nil {
				return nil, err
			}
			if trBuildTagOK(f) {
				p.files = append(p.files, f)
			}
		}
	default:
		// not part of the prelude: an empty package; every use of it is an (ignored) type error and has no type
		name := path[strings.LastIndex(path, "/")+1:]
		if name == "v2" || name == "v3" {
			parts := strings.Split(path, "/")
			name = parts[len(parts)-2]
		}
		p.tpkg = types.NewPackage(path, name)
		p.tpkg.MarkComplete()
		return p, nil
	}
	name := p.files[0].Name.Name
	tp := types.NewPackage(path, name)
	p.tpkg = nil
	checker := types.NewChecker(&conf, l.fset, tp, p.info)
	_ = checker.Files(p.files) // errors are collected in p.errs; checking continues past them
	p.tpkg = tp
	return p, nil
}

// errorsIn returns the type errors reported inside [from, to).
func (p *trPkg) errorsIn(from, to token.Pos) []types.Error {
	var res []types.Error
	for _, e := range p.errs {
		if e.Pos >= from && e.Pos < to {
			res = append(res, e)
		}
	}
	return res
}

func (l *trLoader) relPos(pos token.Pos) string {
	p := l.fset.Position(pos)
	if rel, err := filepath.Rel(l.repo, p.Filename); err == nil && !strings.HasPrefix(rel, "..") {
		return fmt.Sprintf("%s:%d", rel, p.Line)
	}
	return fmt.Sprintf("%s:%d", p.Filename, p.Line)
}

var _ = os.Stat
