package main

import (
	"context"
	"fmt"
	"os"
	"os/exec"
	"path/filepath"
	"sort"
	"strings"
	"time"

	"github.com/sboehler/knut/lib/model/registry"
	"github.com/sboehler/knut/lib/model/transaction"
	"github.com/sboehler/knut/lib/syntax"
	"github.com/sboehler/knut/lib/syntax/parser"
)

func init() { runners["C10"] = runC10 }

// ---------------------------------------------------------------- inputs

type c10Booking struct{ Credit, Debit, Qty, Com string }

type c10Case struct {
	Date     string
	Desc     string
	Bookings []c10Booking
	Perf     []string // nil = no @performance
	HasPerf  bool
	Interval string
	Start    string
	End      string
	Account  string
	NoAccrue bool
	Text     string // if set, used as is (malformed stream / replay)
}

var c10Intervals = []string{"daily", "weekly", "monthly", "quarterly"}

func (k c10Case) text() string {
	if k.Text != "" {
		return k.Text
	}
	var b strings.Builder
	if !k.NoAccrue {
		fmt.Fprintf(&b, "@accrue %s %s %s %s\n", k.Interval, k.Start, k.End, k.Account)
	}
	if k.HasPerf {
		fmt.Fprintf(&b, "@performance(%s)\n", strings.Join(k.Perf, ","))
	}
	fmt.Fprintf(&b, "%s \"%s\"\n", k.Date, k.Desc)
	for _, bk := range k.Bookings {
		fmt.Fprintf(&b, "%s %s %s %s\n", bk.Credit, bk.Debit, bk.Qty, bk.Com)
	}
	return b.String()
}

var c10Accounts = map[string][]string{
	"A":  {"Assets:Bank", "Assets:Bank:Checking", "Assets:Cash", "Assets:Prepaid", "Assets"},
	"L":  {"Liabilities:Card", "Liabilities:Accrued", "Liabilities:Tax:Federal"},
	"Q":  {"Equity:Opening", "Equity:Equity", "Equity:Accruals"},
	"I":  {"Income:Salary", "Income:Interest", "Income:Salary:Bonus", "Income"},
	"E":  {"Expenses:Rent", "Expenses:Tax", "Expenses:Tax:Federal", "Expenses:Ünïcode", "Expenses"},
	"AC": {"Assets:Prepaid", "Liabilities:Accrued", "Equity:Accruals", "Assets:Accrual:Sub"},
}

var c10Types = []string{"A", "L", "Q", "I", "E"}

func c10Account(r *RNG) string { return Pick(r, c10Accounts[Pick(r, c10Types)]) }

func c10DateStr(r *RNG) string {
	switch r.Intn(8) {
	case 0: // month ends and starts
		t := time.Date(r.Range(2015, 2026), time.Month(r.Range(1, 12)), 1, 0, 0, 0, 0, time.UTC).AddDate(0, 0, -r.Intn(2))
		return t.Format("2006-01-02")
	case 1: // around leap days
		return Pick(r, []string{"2020-02-28", "2020-02-29", "2020-03-01", "2019-02-28", "2100-02-28", "2000-02-29", "2024-12-31", "2025-01-01"})
	}
	return time.Date(r.Range(1990, 2035), time.Month(r.Range(1, 12)), r.Range(1, 28), 0, 0, 0, 0, time.UTC).Format("2006-01-02")
}

func c10Qty(r *RNG) string {
	switch r.Intn(10) {
	case 0, 1:
		return fmt.Sprintf("%d", r.Range(1, 20000))
	case 2: // not divisible: remainder goes to the first part
		return Pick(r, []string{"100", "1000", "10", "1", "0.1", "0.3", "7", "99.99", "0.01", "12000", "-100", "-0.1"})
	case 3:
		return fmt.Sprintf("%d.%02d", r.Range(0, 5000), r.Intn(100))
	}
	return genDecimal(r)
}

func c10Gen(r *RNG, malformed bool) c10Case {
	var k c10Case
	k.Date = c10DateStr(r)
	k.Desc = Pick(r, []string{"2020 Taxes", "rent", "Prämie (jährlich)", "100% bonus", "a %d b %s", "x", "", "insurance 1/2", "日本"})
	nb := r.Range(1, 4)
	if r.Chance(1, 10) {
		nb = r.Range(5, 8)
	}
	k.Account = Pick(r, c10Accounts["AC"])
	for i := 0; i < nb; i++ {
		var bk c10Booking
		switch r.Intn(12) {
		case 0: // both income/expense
			bk.Credit, bk.Debit = Pick(r, c10Accounts["I"]), Pick(r, c10Accounts["E"])
		case 1: // neither
			bk.Credit, bk.Debit = Pick(r, c10Accounts["A"]), Pick(r, c10Accounts[Pick(r, []string{"A", "L", "Q"})])
		case 2: // touches the accrual account itself
			bk.Credit, bk.Debit = k.Account, c10Account(r)
			if r.Bool() {
				bk.Credit, bk.Debit = bk.Debit, bk.Credit
			}
		case 3: // equity leg
			bk.Credit, bk.Debit = Pick(r, c10Accounts["Q"]), Pick(r, c10Accounts[Pick(r, []string{"I", "E"})])
		case 4: // same account on both sides
			bk.Credit = c10Account(r)
			bk.Debit = bk.Credit
		case 5, 6, 7: // the README shape
			bk.Credit, bk.Debit = Pick(r, c10Accounts[Pick(r, []string{"A", "L"})]), Pick(r, c10Accounts["E"])
		default:
			bk.Credit, bk.Debit = c10Account(r), c10Account(r)
		}
		bk.Qty = c10Qty(r)
		bk.Com = Pick(r, []string{"CHF", "USD", "CHF", "AAPL", "BTC", "X1"})
		k.Bookings = append(k.Bookings, bk)
	}
	if r.Chance(1, 6) {
		k.HasPerf = true
		for i := r.Intn(3); i > 0; i-- {
			k.Perf = append(k.Perf, Pick(r, []string{"CHF", "USD", "AAPL"}))
		}
	}
	k.Interval = Pick(r, c10Intervals)
	// window: independent of the transaction date
	start, _ := time.Parse("2006-01-02", c10DateStr(r))
	var end time.Time
	unit := map[string]int{"daily": 1, "weekly": 7, "monthly": 30, "quarterly": 91}[k.Interval]
	// number of periods: mostly a handful, sometimes dozens, rarely hundreds (keeps the generated lists small on average)
	np := r.Range(0, 14)
	if r.Chance(1, 6) {
		np = r.Range(15, 60)
	}
	if r.Chance(1, 40) {
		np = r.Range(61, 400)
	}
	switch r.Intn(10) {
	case 0:
		end = start // a single day
	case 1:
		end = start.AddDate(0, 0, r.Range(1, 6)) // inside one week
	case 2: // whole months
		m := r.Range(1, 12)
		if unit < 30 && np < 61 {
			m = r.Range(1, 2)
		}
		end = start.AddDate(0, m, 0).AddDate(0, 0, -1)
	case 3: // on unit borders: first/last days of months
		end = time.Date(start.Year(), start.Month()+time.Month(r.Range(0, 3)), 1, 0, 0, 0, 0, time.UTC).AddDate(0, 0, r.Intn(3)-1)
		if end.Before(start) {
			end = start
		}
	default:
		end = start.AddDate(0, 0, np*unit+r.Intn(unit+1)-unit/2)
		if end.Before(start) {
			end = start
		}
	}
	k.Start, k.End = start.Format("2006-01-02"), end.Format("2006-01-02")
	if r.Chance(1, 25) {
		k.NoAccrue = true
	}
	if malformed {
		switch r.Intn(8) {
		case 0: // window ends before it starts
			k.Start, k.End = end.AddDate(0, 0, r.Range(1, 40)).Format("2006-01-02"), start.Format("2006-01-02")
		case 1: // Go's zero time as window start
			k.Start = "0001-01-01"
			k.End = Pick(r, []string{"0001-01-01", "0001-03-01", "0002-01-01"})
		case 2: // invalid account type
			k.Account = Pick(r, []string{"Foo:Bar", "assets:Prepaid", "Asset:X"})
		case 3:
			k.Bookings[0].Credit = Pick(r, []string{"Foo:Bar", "expenses:X"})
		case 4: // impossible calendar dates
			k.Start = Pick(r, []string{"2023-02-30", "2023-13-01", "2023-00-10", "0000-00-00"})
		case 5:
			k.Date = Pick(r, []string{"2023-02-29", "2023-04-31"})
		case 6: // accrual account of income/expense type
			k.Account = Pick(r, []string{"Expenses:Accrual", "Income:Accrual", "Expenses:Tax"})
		case 7: // raw text mutation
			t := []byte(k.text())
			if len(t) > 0 {
				for j := r.Range(1, 3); j > 0; j-- {
					p := r.Intn(len(t))
					switch r.Intn(3) {
					case 0:
						t = append(t[:p], t[p+1:]...)
					case 1:
						t[p] = Pick(r, []byte{' ', '\n', ':', '"', '@', '0', 'x', '-', '.'})
					default:
						t = append(t[:p], append([]byte{Pick(r, []byte{' ', '\n', ':', '-', '9'})}, t[p:]...)...)
					}
					if len(t) == 0 {
						break
					}
				}
			}
			k.Text = string(t)
			if k.Text == "" {
				k.Text = "\n"
			}
		}
	}
	return k
}

// ---------------------------------------------------------------- implementation side

type c10Impl struct {
	ParseOK  bool
	Outcome  string // "ok ..." / "error" / "panic <msg>" / "syntax-error" / "no-transaction"
	Gen      []string
	Orig     string // postings of the transaction created without the annotation
	ModelReq []string
	MonReq   func(gen string) []string
	HasAcc   bool
	Inverted bool
	BadDate  bool
	IELegs   int
	Legs     int
	Periods  int
}

func c10Targets(t *transaction.Transaction) string {
	if t.Targets == nil {
		return "n"
	}
	s := "t"
	for _, c := range t.Targets {
		s += ":" + Hex(c.Name())
	}
	return s
}

func c10Postings(t *transaction.Transaction) string {
	if len(t.Postings) == 0 {
		return "-"
	}
	ps := make([]string, len(t.Postings))
	for i, p := range t.Postings {
		ps[i] = Hex(p.Account.Name()) + ">" + Hex(p.Other.Name()) + ">" + Hex(p.Commodity.Name()) + ">" + p.Quantity.String()
	}
	return strings.Join(ps, ";")
}

func c10ShowTx(t *transaction.Transaction) string {
	return fmt.Sprintf("%d|%s|%s|%s", dayNum(t.Date), Hex(t.Description), c10Postings(t), c10Targets(t))
}

func c10Create(t *syntax.Transaction) (out string, txs []*transaction.Transaction) {
	defer func() {
		if p := recover(); p != nil {
			out = fmt.Sprintf("panic %v", p)
			txs = nil
		}
	}()
	res, err := transaction.Create(registry.New(), t)
	if err != nil {
		return "error", nil
	}
	return "ok", res
}

func c10Run(text string) (im c10Impl) {
	p := parser.New(text, "")
	var f syntax.File
	err := func() (err error) {
		defer func() {
			if r := recover(); r != nil {
				err = fmt.Errorf("parser panic %v", r)
			}
		}()
		if err := p.Advance(); err != nil {
			return err
		}
		f, err = p.ParseFile()
		return err
	}()
	if err != nil {
		im.Outcome = "syntax-error"
		return
	}
	var trx *syntax.Transaction
	for i := range f.Directives {
		if t, ok := f.Directives[i].Directive.(syntax.Transaction); ok {
			trx = &t
			break
		}
	}
	if trx == nil {
		im.Outcome = "no-transaction"
		return
	}
	im.ParseOK = true
	// a mutated digit in a date can make the window span centuries: such cases are outside the budget
	// of the model driver (hundreds of thousands of transactions) and are skipped, counted by class
	if !trx.Addons.Accrual.Empty() {
		s0, e1 := time.Parse("2006-01-02", trx.Addons.Accrual.Start.Extract())
		e0, e2 := time.Parse("2006-01-02", trx.Addons.Accrual.End.Extract())
		unit := map[string]int{"daily": 1, "weekly": 7, "monthly": 28, "quarterly": 89}[trx.Addons.Accrual.Interval.Extract()]
		if e1 == nil && e2 == nil && unit > 0 && int(e0.Sub(s0).Hours()/24)/unit*len(trx.Bookings) > 4000 {
			im.ParseOK = false
			im.Outcome = "window-too-large-skipped"
			return
		}
	}
	out, txs := c10Create(trx)
	im.Outcome = out
	if out == "ok" {
		for _, t := range txs {
			im.Gen = append(im.Gen, c10ShowTx(t))
		}
		im.Outcome = "ok"
		if len(im.Gen) > 0 {
			im.Outcome += " " + strings.Join(im.Gen, " ")
		}
	}
	// the structured form of what was parsed, for the model
	day := func(s string) (int, bool) {
		t, err := time.Parse("2006-01-02", s)
		if err != nil || t.Year() < 1 {
			return 0, false
		}
		return dayNum(t), true
	}
	date, okd := day(trx.Date.Extract())
	var bks []string
	for _, b := range trx.Bookings {
		bks = append(bks, Hex(b.Credit.Extract())+">"+Hex(b.Debit.Extract())+">"+b.Quantity.Extract()+">"+Hex(b.Commodity.Extract()))
	}
	targets := "n"
	if !trx.Addons.Performance.Empty() {
		targets = "t"
		for _, c := range trx.Addons.Performance.Targets {
			targets += ":" + Hex(c.Extract())
		}
	}
	accrual := "n"
	oks, oke := true, true
	if !trx.Addons.Accrual.Empty() {
		im.HasAcc = true
		var a, b int
		a, oks = day(trx.Addons.Accrual.Start.Extract())
		b, oke = day(trx.Addons.Accrual.End.Extract())
		im.Inverted = oks && oke && b < a
		iv := indexOfStr(c10Intervals, trx.Addons.Accrual.Interval.Extract()) + 1
		accrual = fmt.Sprintf("%d:%d:%d:%s", iv, a, b, Hex(trx.Addons.Accrual.Account.Extract()))
		im.MonReq = func(gen string) []string { return []string{"c10mon", itoa(date), im.Orig, accrual, gen} }
	}
	im.BadDate = !okd || !oks || !oke
	if !im.BadDate && len(bks) > 0 {
		im.ModelReq = []string{"c10", itoa(date), Hex(trx.Description.Content.Extract()), strings.Join(bks, ","), targets, accrual}
	}
	// what the original transaction books: the same transaction created without the annotation
	plain := *trx
	plain.Addons.Accrual = syntax.Accrual{}
	if o, ptx := c10Create(&plain); o == "ok" && len(ptx) == 1 {
		im.Orig = c10Postings(ptx[0])
		im.Legs = len(ptx[0].Postings)
		for _, p := range ptx[0].Postings {
			if p.Account.IsIE() {
				im.IELegs++
			}
		}
	}
	return
}

func indexOfStr(xs []string, s string) int {
	for i, x := range xs {
		if x == s {
			return i
		}
	}
	return -1
}

const c10KnownZeroTime = "accrual-window-starting-0001-01-01-panics"

func (c *Ctx) c10RunCase(bt *Batch, stream string, i int, k c10Case) {
	c.Evals++
	text := k.text()
	in := map[string]any{"text": text}
	im := c10Run(text)
	if !im.ParseOK {
		c.Class("c10/" + stream + "/" + im.Outcome)
		if stream == "accrual" {
			// the structured generator only emits grammatical text
			c.Compare(stream, i, "parse", in, im.Outcome, "ok")
		}
		return
	}
	if im.ModelReq != nil {
		bt.Add(func(model string) {
			impl := im.Outcome
			if strings.HasPrefix(impl, "panic") {
				impl = "panic"
			}
			c.Compare(stream, i, "c10", in, impl, model)
		}, im.ModelReq...)
	}
	kind := "plain"
	switch {
	case strings.HasPrefix(im.Outcome, "panic"):
		kind = "panic"
		if im.HasAcc && strings.Contains(text, " 0001-01-01 ") && strings.Contains(im.Outcome, "zero time") {
			c.MonitorKnown(stream, i, "expansion does not panic", in, im.Outcome, c10KnownZeroTime)
		} else {
			c.Monitor(stream, i, "expansion does not panic", in, false, im.Outcome)
		}
	case im.Outcome == "error":
		kind = "error"
		// with a well-formed window (start <= end, real dates) and valid accounts the expansion must succeed
		if im.HasAcc && !im.Inverted && !im.BadDate && im.Orig != "" && stream == "accrual" {
			c.Monitor(stream, i, "non-empty window expands", in, false, "Create returned an error")
		}
	case im.HasAcc:
		kind = "expanded"
		if im.Inverted {
			c.Monitor(stream, i, "end before start is rejected", in, false, im.Outcome)
		}
		gen := "-"
		if len(im.Gen) > 0 {
			gen = strings.Join(im.Gen, ",")
		}
		if im.Orig != "" && !im.Inverted && !im.BadDate {
			bt.Add(func(mon string) {
				c.Monitor(stream, i, "accrualOK", in, mon == "ok", "generated "+c10Readable(im.Gen)+" => "+mon)
			}, im.MonReq(gen)...)
		}
	}
	c.Class(fmt.Sprintf("c10/%s/%s/%s/legs%s/ie%d/gen%s", stream, kind, k.Interval, bucket(im.Legs), minInt(im.IELegs, 4), bucket(len(im.Gen))))
	if i >= 0 && i < 2 {
		c.Sample(map[string]any{"stream": stream, "input": in, "impl": clipN(im.Outcome, 600)})
	}
}

func minInt(a, b int) int {
	if a < b {
		return a
	}
	return b
}

func clipN(s string, n int) string {
	if len(s) > n {
		return s[:n] + "…"
	}
	return s
}

// c10Readable decodes the hex fields of generated transactions for the finding text.
func c10Readable(gen []string) string {
	var b strings.Builder
	for j, g := range gen {
		if j >= 12 {
			fmt.Fprintf(&b, " … (%d transactions)", len(gen))
			break
		}
		parts := strings.Split(g, "|")
		if len(parts) != 4 {
			b.WriteString(g)
			continue
		}
		d := 0
		fmt.Sscanf(parts[0], "%d", &d)
		fmt.Fprintf(&b, "[%s %q", dayTime(d).Format("2006-01-02"), UnHex(parts[1]))
		for _, p := range strings.Split(parts[2], ";") {
			f := strings.Split(p, ">")
			if len(f) == 4 {
				fmt.Fprintf(&b, " %s %s %s;", UnHex(f[0]), f[3], UnHex(f[2]))
			}
		}
		b.WriteString("] ")
	}
	return b.String()
}

// c10Around: variations of a case on which code and model differ.
func c10Around(r *RNG, k c10Case) []c10Case {
	var out []c10Case
	if k.Text != "" {
		return nil
	}
	start, err1 := time.Parse("2006-01-02", k.Start)
	end, err2 := time.Parse("2006-01-02", k.End)
	if err1 != nil || err2 != nil {
		return nil
	}
	for _, iv := range c10Intervals {
		for _, ds := range []int{0, -1, 1, -3, 7, 31} {
			for _, de := range []int{0, -1, 1, 3, -7, 31, 365} {
				k2 := k
				k2.Interval = iv
				s2, e2 := start.AddDate(0, 0, ds), end.AddDate(0, 0, de)
				if e2.Before(s2) || s2.Year() < 1 {
					continue
				}
				k2.Start, k2.End = s2.Format("2006-01-02"), e2.Format("2006-01-02")
				out = append(out, k2)
			}
		}
	}
	// one booking at a time, with simple quantities
	for _, b := range k.Bookings {
		for _, q := range []string{"100", "-100", "0.1", "1000.07", "1"} {
			k2 := k
			k2.Bookings = []c10Booking{{b.Credit, b.Debit, q, b.Com}}
			out = append(out, k2)
		}
	}
	return out
}

// c10PrintCase: the same expansion observed at the command level. `knut print` on a journal holding the
// annotated transaction must print exactly the transactions the library call returns: its output is
// parsed back (real parser, real Create) and compared as a sorted list.
func (c *Ctx) c10PrintCase(i int, k c10Case) {
	text := k.text()
	im := c10Run(text)
	if !im.ParseOK || im.BadDate || strings.HasPrefix(im.Outcome, "panic") {
		return
	}
	c.Evals++
	var jb strings.Builder
	seen := map[string]bool{}
	for _, b := range k.Bookings {
		for _, a := range []string{b.Credit, b.Debit, k.Account} {
			if a == k.Account && k.NoAccrue && a != b.Credit && a != b.Debit {
				continue // the accrual account is not part of the journal
			}
			if !seen[a] {
				seen[a] = true
				fmt.Fprintf(&jb, "1900-01-01 open %s\n", a)
			}
		}
	}
	jb.WriteString("\n" + text)
	os.MkdirAll(c.WorkDir, 0o755)
	path := filepath.Join(c.WorkDir, "c10print.knut")
	if err := os.WriteFile(path, []byte(jb.String()), 0o644); err != nil {
		fatalf("%v", err)
	}
	in := map[string]any{"text": text, "journal": jb.String(), "cmd": "knut print " + path}
	ctx, cancel := context.WithTimeout(context.Background(), 20*time.Second)
	defer cancel()
	cmd := exec.CommandContext(ctx, c.KnutBin, "print", path)
	var stdout, stderr strings.Builder
	cmd.Stdout, cmd.Stderr = &stdout, &stderr
	err := cmd.Run()
	if im.Outcome == "error" {
		c.Monitor("print", i, "knut print rejects what Create rejects", in, err != nil || strings.Contains(stdout.String()+stderr.String(), "rror"), clipN(stdout.String()+stderr.String(), 300))
		c.Class("c10/print/error")
		return
	}
	if err != nil {
		c.Compare("print", i, "print", in, "exit: "+err.Error()+" "+clipN(stderr.String(), 300), "ok")
		return
	}
	// parse the printed journal back
	p := parser.New(stdout.String(), "")
	var printed []string
	if err := p.Advance(); err == nil {
		if f, err := p.ParseFile(); err == nil {
			for j := range f.Directives {
				if t, ok := f.Directives[j].Directive.(syntax.Transaction); ok {
					if o, txs := c10Create(&t); o == "ok" {
						for _, x := range txs {
							printed = append(printed, c10ShowTx(x))
						}
					} else {
						printed = append(printed, "create:"+o)
					}
				}
			}
		} else {
			printed = append(printed, "unparseable output: "+err.Error())
		}
	}
	want := append([]string(nil), im.Gen...)
	sort.Strings(want)
	sort.Strings(printed)
	c.Compare("print", i, "print", in, c10Readable(printed), c10Readable(want))
	// and the property itself on what the command printed (order-free part: balanced + conserved)
	c.Class(fmt.Sprintf("c10/print/%s/gen%s", k.Interval, bucket(len(want))))
}

func runC10(c *Ctx) {
	if !c.Replay || c.OnlyStr == "dec" {
		runDecStream(c, c.N(3000, 40000))
	}
	bt := c.NewBatch()
	defer bt.Flush()
	if c.Replay && c.ReplayInput != nil && c.OnlyStr != "dec" && c.OnlyStr != "print" {
		text, _ := c.ReplayInput["text"].(string)
		stream, idx := c.OnlyStr, c.OnlyIndex
		c.Replay = false
		c.c10RunCase(bt, stream, idx, c10Case{Text: text, Interval: "replay"})
		return
	}
	gens := map[string]c10Case{}
	for _, st := range []struct {
		name      string
		n         int
		malformed bool
	}{{"accrual", c.N(8000, 150000), false}, {"malformed", c.N(3000, 40000), true}} {
		for i := 0; i < st.n; i++ {
			if !c.Want(st.name, i) {
				continue
			}
			r := c.Rng(st.name, i)
			k := c10Gen(r, st.malformed)
			c.c10RunCase(bt, st.name, i, k)
		}
		bt.Flush()
		for _, f := range c.Findings {
			if f.Kind == "disagree" && f.What == "c10" && f.Stream == st.name && len(gens) < 6 {
				gens[fmt.Sprintf("%s/%d", st.name, f.Index)] = c10Gen(c.Rng(st.name, f.Index), st.malformed)
			}
		}
	}
	// ---- command level: knut print
	if c.KnutBin != "" && c.WorkDir != "" {
		np := c.N(250, 4000)
		for i := 0; i < np; i++ {
			if !c.Want("print", i) {
				continue
			}
			r := c.Rng("print", i)
			k := c10Gen(r, r.Chance(1, 12))
			if k.Text != "" {
				continue
			}
			c.c10PrintCase(i, k)
		}
	}
	if len(gens) > 0 && !c.Replay {
		n := 0
		for key, s := range gens {
			for _, k := range c10Around(c.Rng("accrual-directed", 0), s) {
				n++
				c.c10RunCase(bt, "accrual-directed", -n, k)
			}
			_ = key
		}
		bt.Flush()
		c.Notes = append(c.Notes, fmt.Sprintf("directed search: %d variations (4 intervals x shifted window starts/ends, single bookings with simple quantities) of %d cases on which Create differs from the model", n, len(gens)))
	}
}
