import Knut.Proofs.SyntaxDirSound
/-!
# Token-level rendering of a directive and its relation to `renderDir` (helper definitions for C08)
-/
namespace Knut.Syntax
open Knut.Utf8 Knut.Spec.Syntax
set_option linter.unusedVariables false

/-- tokens of an ASCII literal -/
def lits (s : String) : List Tok := s.toList.map (fun c => tk c.toNat)
def spacesT (n : Nat) : List Tok := List.replicate n (tk 32)

def joinCommaT : List (List Tok) → List Tok
  | [] => []
  | [a] => a
  | a :: b :: rest => a ++ tk 44 :: joinCommaT (b :: rest)

def renderAccrualT (a : AccrualT) : List Tok :=
  lits "@accrue" ++ tk 32 :: a.interval ++ tk 32 :: a.start ++ tk 32 :: a.stop ++ tk 32 :: a.account ++ [tk 10]

def renderPerformanceT (ts : List (List Tok)) : List Tok := lits "@performance" ++ tk 40 :: joinCommaT ts ++ [tk 41, tk 10]

/-- one booking line without its line break: `%-*s %-*s %10s %s` -/
def renderBookingT (padding : Nat) (b : BookingT) : List Tok :=
  b.credit ++ spacesT (padding - b.credit.length + 1) ++ b.debit ++ spacesT (padding - b.debit.length + 1) ++
    spacesT (10 - b.quantity.length) ++ b.quantity ++ tk 32 :: b.commodity

def renderBalanceT (b : BalanceT) : List Tok := b.account ++ tk 32 :: b.quantity ++ tk 32 :: b.commodity

def renderBookingsT (padding : Nat) : List BookingT → List Tok
  | [] => []
  | b :: bs => renderBookingT padding b ++ tk 10 :: renderBookingsT padding bs

def renderBalancesT : List BalanceT → List Tok
  | [] => []
  | b :: bs => renderBalanceT b ++ tk 10 :: renderBalancesT bs

def renderT (padding : Nat) : DirT → List Tok
  | .transaction accr perf date desc bs =>
    (match accr with | some a => renderAccrualT a | none => []) ++
    (match perf with | some ts => renderPerformanceT ts | none => []) ++
    date ++ tk 32 :: tk 34 :: desc ++ tk 34 :: tk 10 :: renderBookingsT padding bs
  | .open d a => d ++ lits " open " ++ a
  | .close d a => d ++ lits " close " ++ a
  | .price d c p t => d ++ lits " price " ++ c ++ tk 32 :: p ++ tk 32 :: t
  | .include p => lits "include \"" ++ p ++ [tk 34]
  | .assertion d bs =>
    match bs with
    | [b] => d ++ lits " balance " ++ renderBalanceT b
    | bs => d ++ lits " balance" ++ tk 10 :: renderBalancesT bs

/-! ### bytes of the token-level rendering -/

theorem flat_tk (r : Nat) : flat [tk r] = [UInt8.ofNat r] := by simp [tk]

theorem flat_lits (s : String) : flat (lits s) = lit s := by
  unfold lits lit
  induction s.toList with
  | nil => rfl
  | cons c cs ih =>
    simp only [List.map_cons, flat_cons, ih]
    simp [tk]

theorem flat_spacesT (n : Nat) : flat (spacesT n) = spaces n := by
  unfold spacesT spaces
  induction n with
  | zero => rfl
  | succ n ih =>
    simp only [List.replicate_succ, flat_cons, ih]
    simp [tk]

theorem spaces_add (a b : Nat) : spaces (a + b) = spaces a ++ spaces b := by
  simp [spaces, List.replicate_append_replicate]

theorem runeCount_flat {c : List Tok} (h : Canon c) : runeCount (flat c) = c.length := by
  simp [runeCount, decodeAll_flat c h]

theorem lit_space : lit " " = [32] := by decide
theorem lit_nl : lit "\n" = [10] := by decide
theorem lit_comma : lit "," = [44] := by decide

theorem flat_joinCommaT (ts : List (List Tok)) : flat (joinCommaT ts) = joinComma (ts.map flat) := by
  match ts with
  | [] => rfl
  | [a] => simp [joinCommaT, joinComma]
  | a :: b :: rest =>
    have ih := flat_joinCommaT (b :: rest)
    simp only [joinCommaT, flat_append, flat_cons, List.map_cons, joinComma, lit_comma] at ih ⊢
    rw [ih]
    simp [tk]

theorem flat_renderBookingT (padding : Nat) (b : BookingT) (h1 : Canon b.credit) (h2 : Canon b.debit) (h3 : Canon b.quantity) :
    flat (renderBookingT padding b ++ [tk 10]) = renderBooking padding b.bytes := by
  simp only [renderBookingT, renderBooking, BookingT.bytes, padRight, padLeft, runeCount_flat h1, runeCount_flat h2,
    runeCount_flat h3, flat_append, flat_cons, flat_spacesT, spaces_add, lit_space, lit_nl, flat_nil]
  simp [tk, spaces]

end Knut.Syntax
