import Knut.Model.BalanceCmd
import Knut.Properties.C02Close
import Knut.Properties.C11
import Knut.Proofs.Builder
import Knut.Proofs.BalanceLift
import Knut.Proofs.InsertsPerm
/-!
# Helpers for C02 at the command level (`Properties/C02Command.lean`)

What `BalanceCmd.entries` hands to the pipeline satisfies the hypotheses of `C02_close` / `C02_noclose`:

* a per-transaction invariant (`DaysAll`) kept by `Builder.add` / `Builder.ofList` / `Builder.ensureDays`; instances:
  every transaction sits in the day of its date (`DaysConsistent`), every posting carries value 0;
* `ensureDays` keeps the days sorted and makes every requested date the date of a day;
* the period starts of every partition `newPartition` returns are strictly increasing (`startDates_increasing`);
* `postingBuild … 0`, `Transaction.ofBookings`, `Accrual.create` and the driver's loader produce value-0 postings;
* `cfgOf` / `daysOf`: the configuration and day list `BalanceCmd.entries` builds (`entries_eq : … := rfl`);
* `run_eq` / `runSpec_eq`: `BalanceCmd.run` and `BalanceCmd.runSpec` in terms of them; `run_isOk_check`.
-/
namespace Knut.LedgerCommand
open Knut Knut.Spec

/-! ## a per-transaction invariant of the day list, kept by the builder -/

/-- every transaction of every day satisfies `P` at the day's date -/
def DaysAll (P : Int → Transaction → Prop) (days : List Day) : Prop :=
  ∀ d ∈ days, ∀ t ∈ d.transactions, P d.date t

theorem insertDay_all (P : Int → Transaction → Prop) (days : List Day) (date : Int) (h : DaysAll P days) :
    DaysAll P (insertDay days date) := by
  induction days with
  | nil =>
    intro d hd t ht
    simp only [insertDay, List.mem_singleton] at hd
    subst hd; cases ht
  | cons d0 rest ih =>
    unfold insertDay
    split
    · intro d hd t ht
      rcases List.mem_cons.mp hd with rfl | hd
      · cases ht
      · exact h d hd t ht
    · split
      · exact h
      · intro d hd t ht
        rcases List.mem_cons.mp hd with rfl | hd
        · exact h d List.mem_cons_self t ht
        · exact ih (fun d' hd' => h d' (List.mem_cons_of_mem _ hd')) d hd t ht

theorem addToDays_all (P : Int → Transaction → Prop) (days : List Day) (x : Directive) (h : DaysAll P days)
    (hx : ∀ t, x = .tx t → P t.date t) : DaysAll P (addToDays days x) := by
  intro d hd t ht
  unfold addToDays at hd
  obtain ⟨d0, hd0, rfl⟩ := List.mem_map.mp hd
  have h0 := insertDay_all P days x.date h d0 hd0
  by_cases hdate : d0.date = x.date
  · simp only [hdate, if_true] at ht ⊢
    rw [Day.add_date]
    cases x with
    | tx tx =>
      simp only [Day.add, List.mem_append, List.mem_singleton] at ht
      rcases ht with ht | rfl
      · exact h0 t ht
      · rw [hdate]; exact hx _ rfl
    | _ => exact h0 t ht
  · simp only [hdate, if_false] at ht ⊢
    exact h0 t ht

theorem foldl_add_all (P : Int → Transaction → Prop) (ds : List Directive)
    (hp : ∀ t, Directive.tx t ∈ ds → P t.date t) :
    ∀ b : Builder, DaysAll P b.days → DaysAll P (ds.foldl Builder.add b).days := by
  induction ds with
  | nil => intro b hb; exact hb
  | cons x rest ih =>
    intro b hb
    simp only [List.foldl_cons]
    apply ih (fun t ht => hp t (List.mem_cons_of_mem _ ht))
    rw [Builder.add_days]
    exact addToDays_all P _ _ hb (fun t e => hp t (by rw [e]; exact List.mem_cons_self))

theorem ofList_all (P : Int → Transaction → Prop) (ds : List Directive)
    (hp : ∀ t, Directive.tx t ∈ ds → P t.date t) : DaysAll P (Builder.ofList ds).days :=
  foldl_add_all P ds hp {} (by intro d hd; cases hd)

theorem foldl_insertDay_all (P : Int → Transaction → Prop) (dates : List Int) :
    ∀ days : List Day, DaysAll P days → DaysAll P (dates.foldl insertDay days) := by
  induction dates with
  | nil => intro days h; exact h
  | cons x rest ih => intro days h; simp only [List.foldl_cons]; exact ih _ (insertDay_all P _ _ h)

theorem foldl_insertDay_sorted (dates : List Int) :
    ∀ days : List Day, Sorted days → Sorted (dates.foldl insertDay days) := by
  induction dates with
  | nil => intro days h; exact h
  | cons x rest ih => intro days h; simp only [List.foldl_cons]; exact ih _ (insertDay_sorted _ _ h)

theorem foldl_insertDay_mem (dates : List Int) :
    ∀ (days : List Day) (y : Int), y ∈ (dates.foldl insertDay days).map (·.date) ↔ y ∈ dates ∨ y ∈ days.map (·.date) := by
  induction dates with
  | nil => intro days y; simp
  | cons x rest ih =>
    intro days y
    simp only [List.foldl_cons, ih, insertDay_mem_dates, List.mem_cons]
    constructor
    · rintro (h | h | h) <;> simp [h]
    · rintro ((h | h) | h) <;> simp [h]


/-! ## period starts of a partition are strictly increasing -/

/-- newest first: every later element of a tiling lies strictly before the start of an earlier one -/
theorem tiles_pairwise {a : Int} {iv : Interval} : ∀ {e : Int} {L : List Period}, Tiles a iv e L →
    List.Pairwise (fun p q => q.start < p.start) L
  | _, [], _ => List.Pairwise.nil
  | e, p :: rest, h => by
    have hb := Tiles.mem_bounds h
    unfold Tiles at h
    obtain ⟨_, _, _, _, h5⟩ := h
    rw [List.pairwise_cons]
    refine ⟨?_, tiles_pairwise h5⟩
    intro q hq
    have := Tiles.mem_bounds h5 q hq
    omega

theorem partLoop_pairwise (a : Int) (iv : Interval) (last e : Int) :
    List.Pairwise (fun p q => q.start < p.start) (partLoop a iv last e 0) := by
  by_cases hl : last ≤ 0
  · exact tiles_pairwise (partLoop_tiles a iv last e 0 hl)
  · rw [partLoop_last a iv last e 0 (by omega) (Int.le_refl _) (by omega)]
    exact (tiles_pairwise (partLoop_tiles a iv 0 e 0 (Int.le_refl _))).sublist (List.take_sublist _ _)

/-- **the period starts of every partition `NewPartition` returns are strictly increasing** (all intervals,
with and without `--last`) -/
theorem startDates_increasing {span : Period} {iv : Interval} {last : Int} {P : Partition}
    (h : newPartition span iv last = .ok P) : List.Pairwise (· < ·) P.startDates := by
  have ⟨_, hp⟩ := C11.periods_eq h
  unfold Partition.startDates
  rw [hp, List.pairwise_map]
  unfold periodsOf
  split
  · exact List.pairwise_singleton _ _
  · rw [List.pairwise_reverse]
    exact partLoop_pairwise _ _ _ _


/-! ## unvalued postings: everything the loader builds carries value 0 -/

/-- all postings of a transaction carry value 0 (no valuation ran) -/
def TxZero (t : Transaction) : Prop := ∀ p ∈ t.postings, p.value = 0

theorem postingBuild_zero (cr dr : Account) (c : Commodity) (q : Rat) :
    ∀ p ∈ postingBuild cr dr c q, p.value = 0 := by
  intro p hp
  unfold postingBuild at hp
  simp only [List.mem_cons, List.mem_nil_iff, or_false] at hp
  rcases hp with rfl | rfl
  · show -(if _ then -(0 : Rat) else 0) = 0
    split <;> simp [Rat.neg_zero]
  · show (if _ then -(0 : Rat) else 0) = 0
    split <;> simp [Rat.neg_zero]

theorem flatMap_bookings_zero (bks : List Booking) :
    ∀ p ∈ bks.flatMap (fun b => postingBuild b.credit b.debit b.commodity b.quantity), p.value = 0 := by
  intro p hp
  obtain ⟨b, _, hb⟩ := List.mem_flatMap.mp hp
  exact postingBuild_zero _ _ _ _ p hb

theorem ofBookings_zero (date : Int) (desc : String) (tg : Option (List Commodity)) (bks : List Booking) :
    TxZero (Transaction.ofBookings date desc tg bks) :=
  flatMap_bookings_zero bks

open Knut.Accrual in
theorem rebook_zero (t : Transaction) (date : Int) (desc : String) (acc : Account) (p : Posting) (q : Rat) :
    TxZero (rebook t date desc acc p q) := by
  unfold TxZero rebook
  exact postingBuild_zero _ _ _ _

open Knut.Accrual in
theorem expandPosting_zero (t : Transaction) (ad : Addon) (p : Posting) (txs : List Transaction)
    (h : expandPosting t ad p = .ok txs) : ∀ g ∈ txs, TxZero g := by
  unfold expandPosting at h
  split at h
  · injection h with h
    subst h
    intro g hg
    simp only [List.mem_singleton] at hg
    subst hg
    exact rebook_zero _ _ _ _ _ _
  · split at h
    · cases h
    · split at h
      · cases h
      · injection h with h
        subst h
        exact ieLoop_all _ _ _ _ _ _ _ _ _ (fun date desc q => rebook_zero t date desc ad.account p q)

open Knut.Accrual in
theorem expandLoop_zero (t : Transaction) (ad : Addon) (ps : List Posting) (txs : List Transaction)
    (h : expandLoop t ad ps = .ok txs) : ∀ g ∈ txs, TxZero g := by
  induction ps generalizing txs with
  | nil =>
    simp only [expandLoop, Step.ok.injEq] at h
    subst h; simp
  | cons p rest ih =>
    simp only [expandLoop] at h
    cases h1 : expandPosting t ad p with
    | panic s => simp [h1] at h
    | ok txs1 =>
      simp only [h1] at h
      cases h2 : expandLoop t ad rest with
      | panic s => simp [h2] at h
      | ok txs2 =>
        simp only [h2, Step.ok.injEq] at h
        subst h
        intro g hg
        rcases List.mem_append.mp hg with hg | hg
        · exact expandPosting_zero t ad p txs1 h1 g hg
        · exact ih txs2 h2 g hg

open Knut.Accrual in
/-- **everything `transaction.Create` returns carries value 0**, with or without `@accrue` -/
theorem create_zero (t : TxInput) (gen : List Transaction) (h : create t = .ok gen) :
    ∀ g ∈ gen, TxZero g := by
  cases ha : t.accrual with
  | none =>
    unfold create at h
    split at h
    · cases h
    · simp only [ha] at h
      injection h with h
      subst h
      intro g hg
      simp only [List.mem_singleton] at hg
      subst hg
      intro p hp
      obtain ⟨b, _, hb⟩ := List.mem_flatMap.mp hp
      exact postingBuild_zero _ _ _ _ p hb
  | some ad => exact expandLoop_zero _ ad _ gen (create_ok' ha h)

/-- transactions among indexed directives carry value 0 -/
def IdsZero (ids : List (Nat × Directive)) : Prop := ∀ p ∈ ids, ∀ t, p.2 = Directive.tx t → TxZero t

theorem load_go_zero :
    ∀ (rest : List Driver.RawDirective) (i : Nat) (acc ids : List (Nat × Directive)), IdsZero acc →
      Driver.C04.load.go i rest acc = .ok ids → IdsZero ids := by
  intro rest
  induction rest with
  | nil =>
    intro i acc ids hacc h
    simp only [Driver.C04.load.go] at h
    injection h with h
    subst h
    intro p hp; exact hacc p (List.mem_reverse.mp hp)
  | cons d tl ih =>
    intro i acc ids hacc h
    have hcons : ∀ (x : Directive), (∀ t, x = .tx t → TxZero t) → IdsZero ((i, x) :: acc) := by
      intro x hx p hp t ht
      rcases List.mem_cons.mp hp with rfl | hp
      · exact hx t ht
      · exact hacc p hp t ht
    cases d with
    | price p => simp only [Driver.C04.load.go] at h; exact ih _ _ _ (hcons _ (by intro t e; cases e)) h
    | opening p => simp only [Driver.C04.load.go] at h; exact ih _ _ _ (hcons _ (by intro t e; cases e)) h
    | closing p => simp only [Driver.C04.load.go] at h; exact ih _ _ _ (hcons _ (by intro t e; cases e)) h
    | assertion p => simp only [Driver.C04.load.go] at h; exact ih _ _ _ (hcons _ (by intro t e; cases e)) h
    | tx date desc tg ac bks =>
      cases ac with
      | none =>
        simp only [Driver.C04.load.go] at h
        refine ih _ _ _ (hcons _ ?_) h
        intro t e; injection e with e; subst e
        exact ofBookings_zero _ _ _ _
      | some a =>
        simp only [Driver.C04.load.go] at h
        split at h
        · cases h
        · split at h
          · rename_i txs hc
            refine ih _ _ _ ?_ h
            intro p hp t ht
            rcases List.mem_append.mp hp with hp | hp
            · obtain ⟨g, hg, rfl⟩ := List.mem_map.mp (List.mem_reverse.mp hp)
              injection ht with ht; subst ht
              exact create_zero _ _ hc g hg
            · exact hacc p hp t ht
          · cases h
          · cases h


/-! ## what `BalanceCmd.entries` runs the pipeline on -/

/-- the pipeline configuration `BalanceCmd.entries` builds from the flags and the partition -/
def cfgOf (f : BalanceFlags) (part : Partition) : BalCfg :=
  { valuation := f.valuation, span := part.span, periods := part.periods, close := f.close,
    mapping := f.mapping, remap := f.remap, accountFilter := f.accountFilter,
    commodityFilter := f.commodityFilter }

/-- the day list `BalanceCmd.entries` builds: the grouped directives, plus (with closing) a day for every
period start (`Builder.Days(partition.StartDates())`) -/
def daysOf (f : BalanceFlags) (ds : List Directive) (part : Partition) : List Day :=
  (if f.close then (Builder.ofList ds).ensureDays part.startDates else Builder.ofList ds).build

/-- `BalanceCmd.entries` is: partition of the clipped window, then `Balance.run (cfgOf f part) (daysOf f ds part)` -/
theorem entries_eq (f : BalanceFlags) (ds : List Directive) :
    BalanceCmd.entries f ds =
      match newPartition (BalanceCmd.window f (Builder.ofList ds)) f.interval f.last with
      | .panic s => .error (.panic s)
      | .ok part =>
        match Balance.run (cfgOf f part) (daysOf f ds part) with
        | .error _ => .error (.error "processing")
        | .ok st => .ok (st.entries, part) := rfl

/-- a successful `BalanceCmd.entries`, taken apart -/
theorem entries_ok {f : BalanceFlags} {ds : List Directive} {es : List Entry} {part : Partition}
    (h : BalanceCmd.entries f ds = .ok (es, part)) :
    newPartition (BalanceCmd.window f (Builder.ofList ds)) f.interval f.last = .ok part ∧
    ∃ st, Balance.run (cfgOf f part) (daysOf f ds part) = .ok st ∧ st.entries = es := by
  rw [entries_eq] at h
  split at h
  · cases h
  · rename_i part' hpart
    split at h
    · cases h
    · rename_i st hrun
      injection h with h
      injection h with h1 h2
      subst h2
      exact ⟨hpart, st, hrun, h1⟩

theorem daysOf_sorted (f : BalanceFlags) (ds : List Directive) (part : Partition) : Sorted (daysOf f ds part) := by
  unfold daysOf Builder.build
  split
  · exact foldl_insertDay_sorted _ _ (ofList_spec txKind ds).1
  · exact (ofList_spec txKind ds).1

theorem daysOf_all (P : Int → Transaction → Prop) (f : BalanceFlags) (ds : List Directive) (part : Partition)
    (hp : ∀ t, Directive.tx t ∈ ds → P t.date t) : DaysAll P (daysOf f ds part) := by
  unfold daysOf Builder.build
  split
  · exact foldl_insertDay_all P _ _ (ofList_all P ds hp)
  · exact ofList_all P ds hp

/-- every transaction of the built day list sits in the day of its date -/
theorem daysOf_consistent (f : BalanceFlags) (ds : List Directive) (part : Partition) :
    C02.DaysConsistent (daysOf f ds part) :=
  daysOf_all (fun y t => t.date = y) f ds part (fun _ _ => rfl)

/-- the built days carry value 0 when the directives do -/
theorem daysOf_zero (f : BalanceFlags) (ds : List Directive) (part : Partition)
    (hz : ∀ t, Directive.tx t ∈ ds → TxZero t) :
    ∀ d ∈ daysOf f ds part, ∀ t ∈ d.transactions, ∀ p ∈ t.postings, p.value = 0 :=
  daysOf_all (fun _ t => TxZero t) f ds part hz

/-- with closing, every period start is the date of a built day -/
theorem daysOf_starts (f : BalanceFlags) (hc : f.close = true) (ds : List Directive) (part : Partition) :
    ∀ s ∈ part.startDates, s ∈ (daysOf f ds part).map (·.date) := by
  intro s hs
  unfold daysOf Builder.build Builder.ensureDays
  simp only [hc, if_true]
  exact (foldl_insertDay_mem _ _ _).mpr (Or.inl hs)

/-! ## the rendered output: `BalanceCmd.run` and `BalanceCmd.runSpec` over `cfgOf` / `daysOf` -/


/-- the outcome of rendering a table as the command does (text or csv) -/
def renderOut (f : BalanceFlags) (t : Table.Table) : CmdOutcome :=
  if f.csv then .ok (String.ofList (Table.renderCSV t))
  else
    match Table.renderText { thousands := f.thousands, round := f.digits } t with
    | .ok cs => .ok (String.ofList cs)
    | .panic s => .panic s

theorem run_eq (f : BalanceFlags) (ds : List Directive) :
    BalanceCmd.run f ds =
      match BalanceCmd.entries f ds with
      | .error o => o
      | .ok (es, part) => renderOut f (BalanceReport.table (BalanceCmd.renderCfg f part) es) := rfl

theorem runSpec_eq (f : BalanceFlags) (hv : f.valuation = none) (ds : List Directive) :
    BalanceCmd.runSpec f ds =
      match newPartition (BalanceCmd.window f (Builder.ofList ds)) f.interval f.last with
      | .panic s => .panic s
      | .ok part =>
        match Check.run (daysOf f ds part) with
        | .error _ => .error "processing"
        | .ok _ => renderOut f (BalanceReport.table (BalanceCmd.renderCfg f part)
            (ledgerEntries (cfgOf f part) (daysOf f ds part))) := by
  cases f
  simp only at hv
  subst hv
  rfl

/-- an unvalued pipeline run fails exactly when the checker does -/
theorem run_isOk_check (cfg : BalCfg) (hv : cfg.valuation = none) (days : List Day) :
    (Balance.run cfg days).isOk = (Check.run days).isOk := by
  unfold Balance.run
  rw [InsertsPerm.run_isOk cfg hv]
  rfl

end Knut.LedgerCommand
